#!/bin/sh
# Builds the whole framework offline from files on disk: extractor, harness, Lean development.
set -e
cd "$(dirname "$0")"
export GOFLAGS=-mod=mod GOPROXY=off GOSUMDB=off GOTOOLCHAIN=local
mkdir -p build/work
(cd extract && go build -o ../build/extract .)
./build/extract -repo /repo -out lean/CoreBGP/Gen
cp /repo/go.sum harness/go.sum 2>/dev/null || true
for c in l0 live; do
  if [ -f harness/cmd/$c/main.go ]; then (cd harness && go build -tags verif -o ../build/$c ./cmd/$c); fi
done
(cd lean && lake build driver CoreBGP CoreBGP.AuditCmd)
echo setup done
