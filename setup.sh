#!/bin/sh
exit 0
