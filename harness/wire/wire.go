// Package wire holds reference encoders / a strict frame splitter for BGP messages,
// written from RFC 4271 independently of corebgp.
package wire

import "encoding/binary"

func Header(t uint8, body []byte) []byte {
	b := make([]byte, 19, 19+len(body))
	for i := 0; i < 16; i++ {
		b[i] = 0xff
	}
	binary.BigEndian.PutUint16(b[16:], uint16(19+len(body)))
	b[18] = t
	return append(b, body...)
}

type Cap struct {
	Code uint8
	Val  []byte
}

type Param struct {
	Typ  uint8
	Caps []Cap
	Raw  []byte
}

func CapsBytes(cs []Cap) []byte {
	var b []byte
	for _, c := range cs {
		b = append(b, c.Code, uint8(len(c.Val)))
		b = append(b, c.Val...)
	}
	return b
}

func OpenBody(ver uint8, asn, hold uint16, id uint32, ps []Param) []byte {
	b := make([]byte, 9)
	b[0] = ver
	binary.BigEndian.PutUint16(b[1:], asn)
	binary.BigEndian.PutUint16(b[3:], hold)
	binary.BigEndian.PutUint32(b[5:], id)
	var params []byte
	for _, p := range ps {
		v := p.Raw
		if v == nil {
			v = CapsBytes(p.Caps)
		}
		params = append(params, p.Typ, uint8(len(v)))
		params = append(params, v...)
	}
	b = append(b, uint8(len(params)))
	return append(b, params...)
}

func BE32(x uint32) []byte { b := make([]byte, 4); binary.BigEndian.PutUint32(b, x); return b }

// Open returns a whole, valid OPEN message for a speaker with the given AS, hold time and id.
func Open(as uint32, hold uint16, id uint32, extra ...Cap) []byte {
	asn := uint16(23456)
	if as <= 65535 {
		asn = uint16(as)
	}
	caps := append([]Cap{{65, BE32(as)}}, extra...)
	return Header(1, OpenBody(4, asn, hold, id, []Param{{Typ: 2, Caps: caps}}))
}

func Keepalive() []byte { return Header(4, nil) }

func Update(body []byte) []byte { return Header(2, body) }

func Notification(code, sub uint8, data []byte) []byte {
	return Header(3, append([]byte{code, sub}, data...))
}

// Split cuts a received byte stream into whole messages by the length field; rest is what
// remains (an incomplete or unframeable tail).
func Split(s []byte) (msgs [][]byte, rest []byte) {
	for len(s) >= 19 {
		l := int(binary.BigEndian.Uint16(s[16:18]))
		if l < 19 || l > len(s) {
			break
		}
		msgs = append(msgs, s[:l])
		s = s[l:]
	}
	return msgs, s
}
