// Package term implements the canonical value syntax shared with the Lean driver:
// term := atom | atom '(' term,* ')' | '[' term,* ']' ; no blanks; bytes are hex, "-" if empty.
package term

import (
	"encoding/hex"
	"fmt"
	"strconv"
	"strings"
)

type T struct {
	Atom string // atom or functor
	Args []T
	App  bool
	List bool
}

func A(s string) T            { return T{Atom: s} }
func App(f string, a ...T) T  { return T{Atom: f, Args: a, App: true} }
func L(a ...T) T              { return T{Args: a, List: true} }
func N(n uint64) T            { return A(strconv.FormatUint(n, 10)) }
func I(n int) T               { return A(strconv.Itoa(n)) }
func B(b bool) T              { if b { return A("1") }; return A("0") }
func Hex(b []byte) T          { if len(b) == 0 { return A("-") }; return A(hex.EncodeToString(b)) }

func (t T) String() string {
	var sb strings.Builder
	t.write(&sb)
	return sb.String()
}

func (t T) write(sb *strings.Builder) {
	switch {
	case t.List:
		sb.WriteByte('[')
		for i, a := range t.Args {
			if i > 0 {
				sb.WriteByte(',')
			}
			a.write(sb)
		}
		sb.WriteByte(']')
	case t.App:
		sb.WriteString(t.Atom)
		sb.WriteByte('(')
		for i, a := range t.Args {
			if i > 0 {
				sb.WriteByte(',')
			}
			a.write(sb)
		}
		sb.WriteByte(')')
	default:
		sb.WriteString(t.Atom)
	}
}

func isAtomChar(c byte) bool {
	return c >= '0' && c <= '9' || c >= 'a' && c <= 'z' || c >= 'A' && c <= 'Z' ||
		c == '_' || c == '.' || c == ':' || c == '/' || c == '-' || c == '+'
}

func Parse(s string) (T, error) {
	t, i, err := parseAt(s, 0)
	if err != nil {
		return T{}, err
	}
	if i != len(s) {
		return T{}, fmt.Errorf("trailing input at %d in %q", i, s)
	}
	return t, nil
}

func parseAt(s string, i int) (T, int, error) {
	if i >= len(s) {
		return T{}, i, fmt.Errorf("unexpected end")
	}
	if s[i] == '[' {
		args, j, err := parseList(s, i+1, ']')
		return T{Args: args, List: true}, j, err
	}
	if !isAtomChar(s[i]) {
		return T{}, i, fmt.Errorf("bad char %q at %d", s[i], i)
	}
	j := i
	for j < len(s) && isAtomChar(s[j]) {
		j++
	}
	name := s[i:j]
	if j < len(s) && s[j] == '(' {
		args, k, err := parseList(s, j+1, ')')
		return T{Atom: name, Args: args, App: true}, k, err
	}
	return T{Atom: name}, j, nil
}

func parseList(s string, i int, close byte) ([]T, int, error) {
	var out []T
	for {
		if i >= len(s) {
			return nil, i, fmt.Errorf("unterminated list")
		}
		if s[i] == close {
			return out, i + 1, nil
		}
		t, j, err := parseAt(s, i)
		if err != nil {
			return nil, j, err
		}
		out = append(out, t)
		if j < len(s) && s[j] == ',' {
			i = j + 1
		} else {
			i = j
		}
	}
}

func (t T) Bytes() ([]byte, error) {
	if t.App || t.List {
		return nil, fmt.Errorf("not bytes: %s", t)
	}
	if t.Atom == "-" {
		return nil, nil
	}
	return hex.DecodeString(t.Atom)
}

func (t T) Uint(bits int) (uint64, error) {
	if t.App || t.List {
		return 0, fmt.Errorf("not a number: %s", t)
	}
	return strconv.ParseUint(t.Atom, 10, bits)
}

func (t T) Int() (int, error) {
	if t.App || t.List {
		return 0, fmt.Errorf("not a number: %s", t)
	}
	return strconv.Atoi(t.Atom)
}

func (t T) Bool() (bool, error) {
	switch t.Atom {
	case "1":
		return true, nil
	case "0":
		return false, nil
	}
	return false, fmt.Errorf("not a bool: %s", t)
}
