module verif/harness

go 1.21

require github.com/jwhited/corebgp v0.0.0

require golang.org/x/sys v0.15.0 // indirect

replace github.com/jwhited/corebgp => /repo
