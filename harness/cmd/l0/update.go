package main

import (
	"errors"
	"fmt"
	"net/netip"
	"strconv"
	"strings"

	bgp "github.com/jwhited/corebgp"
	"verif/harness/term"
)

// ---- error trees ----

type foreignUpd struct{ n *bgp.Notification }

func (f *foreignUpd) Error() string                     { return "foreign update error" }
func (f *foreignUpd) AsSessionReset() *bgp.Notification { return f.n }

type foreignErr struct{}

func (f *foreignErr) Error() string { return "foreign error" }

func tOptNotif(n *bgp.Notification) T {
	if n == nil {
		return term.A("-")
	}
	return tNotif(n)
}

// tErr serialises an error by walking Unwrap and switching on the dynamic type; error strings
// never appear.
func tErr(err error) T {
	if err == nil {
		return term.A("nil")
	}
	switch x := err.(type) {
	case *bgp.Notification:
		return tNotif(x)
	case *bgp.TreatAsWithdrawUpdateErr:
		return term.App("W", term.N(uint64(x.Code)), tOptNotif(x.Notification))
	case *bgp.AttrDiscardUpdateErr:
		return term.App("D", term.N(uint64(x.Code)), tOptNotif(x.Notification))
	case *foreignUpd:
		return term.App("U", tNotif(x.n))
	case *foreignErr:
		return term.A("E")
	}
	if u, ok := err.(interface{ Unwrap() []error }); ok {
		var out []T
		for _, e := range u.Unwrap() {
			out = append(out, tErr(e))
		}
		return term.App("join", out...)
	}
	if u, ok := err.(interface{ Unwrap() error }); ok {
		return term.App("wrap", tErr(u.Unwrap()))
	}
	if ue, ok := err.(bgp.UpdateError); ok {
		return term.App("U", tNotif(ue.AsSessionReset()))
	}
	return term.A("E")
}

func pNotif(t T) *bgp.Notification {
	c, _ := t.Args[0].Uint(8)
	s, _ := t.Args[1].Uint(8)
	d, _ := t.Args[2].Bytes()
	return &bgp.Notification{Code: uint8(c), Subcode: uint8(s), Data: d}
}

func pOptNotif(t T) *bgp.Notification {
	if !t.App {
		return nil
	}
	return pNotif(t)
}

func pErr(t T) error {
	switch {
	case !t.App && t.Atom == "nil":
		return nil
	case !t.App && t.Atom == "E":
		return &foreignErr{}
	case t.Atom == "N":
		return pNotif(t)
	case t.Atom == "W":
		c, _ := t.Args[0].Uint(8)
		return &bgp.TreatAsWithdrawUpdateErr{Code: uint8(c), Notification: pOptNotif(t.Args[1])}
	case t.Atom == "D":
		c, _ := t.Args[0].Uint(8)
		return &bgp.AttrDiscardUpdateErr{Code: uint8(c), Notification: pOptNotif(t.Args[1])}
	case t.Atom == "U":
		return &foreignUpd{pNotif(t.Args[0])}
	case t.Atom == "wrap":
		return fmt.Errorf("wrapped: %w", pErr(t.Args[0]))
	case t.Atom == "join":
		var es []error
		for _, a := range t.Args {
			es = append(es, pErr(a))
		}
		return errors.Join(es...)
	}
	panic("harness: bad error term " + t.String())
}

// ---- values ----

func tU32s(xs []uint32) T {
	out := make([]T, len(xs))
	for i, x := range xs {
		out[i] = term.N(uint64(x))
	}
	return term.L(out...)
}

func tPrefix(p netip.Prefix) T {
	return term.App("P", term.I(p.Bits()), term.Hex(p.Addr().AsSlice()))
}

func tPrefixes(ps []netip.Prefix) T {
	out := make([]T, len(ps))
	for i, p := range ps {
		out[i] = tPrefix(p)
	}
	return term.L(out...)
}

func tAPPrefixes(ps []bgp.AddPathPrefix) T {
	out := make([]T, len(ps))
	for i, p := range ps {
		out[i] = term.App("AP", term.N(uint64(p.ID)), term.I(p.Prefix.Bits()), term.Hex(p.Prefix.Addr().AsSlice()))
	}
	return term.L(out...)
}

func attrResult(v T, err error) T {
	if err != nil {
		return term.App("err", tErr(err))
	}
	return term.App("ok", v)
}

type rec struct {
	calls  []T
	script map[string]error
	nattr  int
}

func parseScript(t T) map[string]error {
	m := map[string]error{}
	for _, s := range t.Args {
		m[s.Args[0].Atom] = pErr(s.Args[1])
	}
	return m
}

func init() {
	attr := func(name string, f func(flags bgp.PathAttrFlags, b []byte) (T, error)) {
		handlers["attr."+name] = func(a []T) T {
			v, err := f(bgp.PathAttrFlags(mustUint(a[0], 8)), mustBytes(a[1]))
			return attrResult(v, err)
		}
	}
	attr("origin", func(f bgp.PathAttrFlags, b []byte) (T, error) {
		var o bgp.OriginPathAttr
		err := o.Decode(f, b)
		return term.N(uint64(o)), err
	})
	attr("aspath", func(f bgp.PathAttrFlags, b []byte) (T, error) {
		var o bgp.ASPathAttr
		err := o.Decode(f, b)
		return term.App("ASP", tU32s(o.ASSet), tU32s(o.ASSequence)), err
	})
	attr("nexthop", func(f bgp.PathAttrFlags, b []byte) (T, error) {
		var o bgp.NextHopPathAttr
		err := o.Decode(f, b)
		return term.Hex(netip.Addr(o).AsSlice()), err
	})
	attr("med", func(f bgp.PathAttrFlags, b []byte) (T, error) {
		var o bgp.MEDPathAttr
		err := o.Decode(f, b)
		return term.N(uint64(o)), err
	})
	attr("localpref", func(f bgp.PathAttrFlags, b []byte) (T, error) {
		var o bgp.LocalPrefPathAttr
		err := o.Decode(f, b)
		return term.N(uint64(o)), err
	})
	attr("atomicagg", func(f bgp.PathAttrFlags, b []byte) (T, error) {
		var o bgp.AtomicAggregatePathAttr
		err := o.Decode(f, b)
		return term.B(bool(o)), err
	})
	attr("aggregator", func(f bgp.PathAttrFlags, b []byte) (T, error) {
		var o bgp.AggregatorPathAttr
		err := o.Decode(f, b)
		return term.App("AG", term.N(uint64(o.AS)), term.Hex(o.IP.AsSlice())), err
	})
	attr("communities", func(f bgp.PathAttrFlags, b []byte) (T, error) {
		var o bgp.CommunitiesPathAttr
		err := o.Decode(f, b)
		return tU32s(o), err
	})
	attr("originatorid", func(f bgp.PathAttrFlags, b []byte) (T, error) {
		var o bgp.OriginatorIDPathAttr
		err := o.Decode(f, b)
		return term.Hex(netip.Addr(o).AsSlice()), err
	})
	attr("clusterlist", func(f bgp.PathAttrFlags, b []byte) (T, error) {
		var o bgp.ClusterListPathAttr
		err := o.Decode(f, b)
		out := make([]T, len(o))
		for i, a := range o {
			out[i] = term.Hex(a.AsSlice())
		}
		return term.L(out...), err
	})
	attr("largecomm", func(f bgp.PathAttrFlags, b []byte) (T, error) {
		var o bgp.LargeCommunitiesPathAttr
		err := o.Decode(f, b)
		out := make([]T, len(o))
		for i, c := range o {
			out[i] = term.App("LC", term.N(uint64(c.GlobalAdmin)), term.N(uint64(c.LocalData1)), term.N(uint64(c.LocalData2)))
		}
		return term.L(out...), err
	})
	handlers["flags"] = func(a []T) T {
		f := bgp.PathAttrFlags(mustUint(a[0], 8))
		return term.App("F", term.B(f.Optional()), term.B(f.Transitive()), term.B(f.Partial()), term.B(f.ExtendedLen()))
	}
	handlers["pfx"] = func(a []T) T {
		v6, _ := a[0].Bool()
		ap, _ := a[1].Bool()
		b := mustBytes(a[2])
		if ap {
			ps, err := bgp.VerifDecodeAddPathPrefixes(b, v6)
			if err != nil {
				return term.A("err")
			}
			return term.App("ok", tAPPrefixes(ps))
		}
		ps, err := bgp.VerifDecodePrefixes(b, v6)
		if err != nil {
			return term.A("err")
		}
		return term.App("ok", tPrefixes(ps))
	}
	// The decode functions are long-lived (one per kind for the whole run, as in a real plugin) and the
	// prefix slices of the most recent calls are kept: a later call must not change what an earlier call
	// delivered. A change is reported as `aliased(kind)` in place of the result.
	type held struct {
		plain []netip.Prefix
		addp  []bgp.AddPathPrefix
		want  string
	}
	type pfxDecoder struct {
		fn     bgp.DecodeFn[*rec]
		called bool
		got    T
		last   held
		kept   []held
	}
	pfxDecoders := map[string]*pfxDecoder{}
	getPfxDecoder := func(kind string, ap bool) *pfxDecoder {
		key := fmt.Sprintf("%s/%v", kind, ap)
		if d, ok := pfxDecoders[key]; ok {
			return d
		}
		d := &pfxDecoder{}
		plain := func(_ *rec, p []netip.Prefix) error {
			d.called = true
			d.got = tPrefixes(p)
			d.last = held{plain: p, want: d.got.String()}
			return nil
		}
		addp := func(_ *rec, p []bgp.AddPathPrefix) error {
			d.called = true
			d.got = tAPPrefixes(p)
			d.last = held{addp: p, want: d.got.String()}
			return nil
		}
		switch {
		case kind == "nlri" && ap:
			d.fn = bgp.NewNLRIAddPathDecodeFn[*rec](addp)
		case kind == "nlri":
			d.fn = bgp.NewNLRIDecodeFn[*rec](plain)
		case ap:
			d.fn = bgp.NewWithdrawnAddPathRoutesDecodeFn[*rec](addp)
		default:
			d.fn = bgp.NewWithdrawnRoutesDecodeFn[*rec](plain)
		}
		pfxDecoders[key] = d
		return d
	}
	handlers["pfxfn"] = func(a []T) T {
		ap, _ := a[1].Bool()
		b := mustBytes(a[2])
		d := getPfxDecoder(a[0].Atom, ap)
		d.called = false
		err := d.fn(nil, b)
		// what earlier calls delivered is still what it was
		for _, h := range d.kept {
			now := ""
			if h.addp != nil {
				now = tAPPrefixes(h.addp).String()
			} else {
				now = tPrefixes(h.plain).String()
			}
			if now != h.want {
				d.kept = nil
				return term.App("aliased", a[0])
			}
		}
		if err != nil {
			return term.App("err", tErr(err))
		}
		if !d.called {
			return term.A("notcalled")
		}
		if len(d.last.plain)+len(d.last.addp) > 0 {
			d.kept = append(d.kept, d.last)
			if len(d.kept) > 4 {
				d.kept = d.kept[1:]
			}
		}
		return term.App("called", d.got)
	}
	// pfxseq kind ap [b1,…,bn]: a fresh long-lived decode function applied to b1..bn in turn; every delivered
	// slice is canonicalised only after the last call
	handlers["pfxseq"] = func(a []T) T {
		ap, _ := a[1].Bool()
		type res struct {
			plain  []netip.Prefix
			addp   []bgp.AddPathPrefix
			called bool
			err    error
		}
		var cur *res
		plain := func(_ *rec, p []netip.Prefix) error { cur.called = true; cur.plain = p; return nil }
		addp := func(_ *rec, p []bgp.AddPathPrefix) error { cur.called = true; cur.addp = p; return nil }
		var fn bgp.DecodeFn[*rec]
		switch {
		case a[0].Atom == "nlri" && ap:
			fn = bgp.NewNLRIAddPathDecodeFn[*rec](addp)
		case a[0].Atom == "nlri":
			fn = bgp.NewNLRIDecodeFn[*rec](plain)
		case ap:
			fn = bgp.NewWithdrawnAddPathRoutesDecodeFn[*rec](addp)
		default:
			fn = bgp.NewWithdrawnRoutesDecodeFn[*rec](plain)
		}
		var all []*res
		for _, x := range a[2].Args {
			cur = &res{}
			cur.err = fn(nil, mustBytes(x))
			all = append(all, cur)
		}
		out := make([]T, len(all))
		for i, r := range all {
			switch {
			case r.err != nil:
				out[i] = term.App("err", tErr(r.err))
			case !r.called:
				out[i] = term.A("notcalled")
			case ap:
				out[i] = term.App("called", tAPPrefixes(r.addp))
			default:
				out[i] = term.App("called", tPrefixes(r.plain))
			}
		}
		return term.L(out...)
	}
	handlers["mp6nh"] = func(a []T) T {
		nhs, err := bgp.DecodeMPReachIPv6NextHops(mustBytes(a[0]))
		if err != nil {
			return term.App("err", tErr(err))
		}
		out := make([]T, len(nhs))
		for i, n := range nhs {
			out[i] = term.Hex(n.AsSlice())
		}
		return term.App("ok", term.L(out...))
	}
	handlers["mp6pfx"] = func(a []T) T {
		ap, _ := a[0].Bool()
		b := mustBytes(a[1])
		if ap {
			ps, err := bgp.DecodeMPIPv6AddPathPrefixes(b)
			if err != nil {
				return term.App("err", tErr(err))
			}
			return term.App("ok", tAPPrefixes(ps))
		}
		ps, err := bgp.DecodeMPIPv6Prefixes(b)
		if err != nil {
			return term.App("err", tErr(err))
		}
		return term.App("ok", tPrefixes(ps))
	}
	handlers["mpreach"] = func(a []T) T {
		fr := pErr(a[2])
		c := term.A("nocall")
		fn := bgp.NewMPReachNLRIDecodeFn[*rec](func(_ *rec, afi uint16, safi uint8, nh, nlri []byte) error {
			c = term.App("called", term.N(uint64(afi)), term.N(uint64(safi)), term.Hex(nh), term.Hex(nlri))
			return fr
		})
		err := fn(nil, bgp.PathAttrFlags(mustUint(a[0], 8)), mustBytes(a[1]))
		return term.App("R", c, tErr(err))
	}
	handlers["mpunreach"] = func(a []T) T {
		fr := pErr(a[2])
		c := term.A("nocall")
		fn := bgp.NewMPUnreachNLRIDecodeFn[*rec](func(_ *rec, afi uint16, safi uint8, w []byte) error {
			c = term.App("called", term.N(uint64(afi)), term.N(uint64(safi)), term.Hex(w))
			return fr
		})
		err := fn(nil, bgp.PathAttrFlags(mustUint(a[0], 8)), mustBytes(a[1]))
		return term.App("R", c, tErr(err))
	}
	newRecDecoder := func() *bgp.UpdateDecoder[*rec] {
		return bgp.NewUpdateDecoder[*rec](
			func(r *rec, b []byte) error {
				r.calls = append(r.calls, term.App("wr", term.Hex(b)))
				return r.script["wr"]
			},
			func(r *rec, code uint8, flags bgp.PathAttrFlags, b []byte) error {
				r.calls = append(r.calls, term.App("a", term.N(uint64(code)), term.N(uint64(flags)), term.Hex(b)))
				e := r.script["a"+strconv.Itoa(r.nattr)]
				r.nattr++
				return e
			},
			func(r *rec, b []byte) error {
				r.calls = append(r.calls, term.App("nlri", term.Hex(b)))
				return r.script["nlri"]
			})
	}
	runUpd := func(d *bgp.UpdateDecoder[*rec], b []byte, script T) T {
		r := &rec{script: parseScript(script)}
		err := d.Decode(r, b)
		var fe T
		if n := bgp.UpdateNotificationFromErr(err); n != nil {
			fe = tNotif(n)
		} else {
			fe = term.A("nil")
		}
		return term.App("D", term.L(r.calls...), tErr(err), fe)
	}
	handlers["upd"] = func(a []T) T {
		return runUpd(newRecDecoder(), mustBytes(a[0]), a[1])
	}
	// updseq [P(b1,script1),…]: ONE long-lived UpdateDecoder decodes b1..bn in turn (as a session does); the result
	// of every message must be what that message alone prescribes
	handlers["updseq"] = func(a []T) T {
		d := newRecDecoder()
		var out []T
		for _, p := range a[0].Args {
			out = append(out, runUpd(d, mustBytes(p.Args[0]), p.Args[1]))
		}
		return term.L(out...)
	}
	handlers["bitmap"] = func(a []T) T {
		sets := mustBytes(a[0])
		qs := mustBytes(a[1])
		res := bgp.VerifBitmap(sets, qs)
		out := make([]byte, len(res))
		for i, r := range res {
			if r {
				out[i] = 1
			}
		}
		return term.Hex(out)
	}
	handlers["fromerr"] = func(a []T) T {
		n := bgp.UpdateNotificationFromErr(pErr(a[0]))
		if n == nil {
			return term.A("nil")
		}
		return tNotif(n)
	}
}

var _ = strings.Repeat
