package main

import (
	"errors"
	"io"
	"net"
	"time"

	bgp "github.com/jwhited/corebgp"
	"verif/harness/term"
)

// ---- canonical encodings ----

func tNotif(n *bgp.Notification) T {
	return term.App("N", term.N(uint64(n.Code)), term.N(uint64(n.Subcode)), term.Hex(n.Data))
}

func tCap(c bgp.Capability) T { return term.App("C", term.N(uint64(c.Code)), term.Hex(c.Value)) }

func tCaps(cs []bgp.Capability) T {
	out := make([]T, len(cs))
	for i, c := range cs {
		out[i] = tCap(c)
	}
	return term.L(out...)
}

func tOpen(o *bgp.VerifOpen) T {
	ps := make([]T, len(o.Params))
	for i, p := range o.Params {
		ps[i] = tCaps(p)
	}
	return term.App("O", term.N(uint64(o.Version)), term.N(uint64(o.ASN)), term.N(uint64(o.HoldTime)),
		term.N(uint64(o.BGPID)), term.L(ps...))
}

// tPErr classifies an error of the packet layer: notificationError or anything else.
func tPErr(err error) T {
	if n, out, ok := bgp.VerifAsNotificationError(err); ok {
		return term.App("NE", term.B(out), tNotif(n))
	}
	return term.A("plain")
}

func pCap(t T) bgp.Capability {
	c, _ := t.Args[0].Uint(8)
	v, _ := t.Args[1].Bytes()
	return bgp.Capability{Code: uint8(c), Value: v}
}

func pCaps(t T) []bgp.Capability {
	out := make([]bgp.Capability, 0, len(t.Args))
	for _, a := range t.Args {
		out = append(out, pCap(a))
	}
	return out
}

func pOpen(t T) *bgp.VerifOpen {
	v, _ := t.Args[0].Uint(8)
	a, _ := t.Args[1].Uint(16)
	h, _ := t.Args[2].Uint(16)
	id, _ := t.Args[3].Uint(32)
	o := &bgp.VerifOpen{Version: uint8(v), ASN: uint16(a), HoldTime: uint16(h), BGPID: uint32(id)}
	for _, p := range t.Args[4].Args {
		o.Params = append(o.Params, pCaps(p))
	}
	return o
}

func mustBytes(t T) []byte {
	b, err := t.Bytes()
	if err != nil {
		panic("harness: " + err.Error())
	}
	return b
}

func mustUint(t T, bits int) uint64 {
	n, err := t.Uint(bits)
	if err != nil {
		panic("harness: " + err.Error())
	}
	return n
}

// ---- in-memory connection for the reader ----

type streamConn struct {
	data []byte
	seg  []int // segment sizes, cycled
	i    int
}

func (s *streamConn) Read(p []byte) (int, error) {
	if len(s.data) == 0 {
		return 0, io.EOF
	}
	n := len(p)
	if len(s.seg) > 0 {
		k := s.seg[s.i%len(s.seg)]
		s.i++
		if k < n {
			n = k
		}
	}
	if n > len(s.data) {
		n = len(s.data)
	}
	if n == 0 {
		n = 1
	}
	copy(p, s.data[:n])
	s.data = s.data[n:]
	return n, nil
}
func (s *streamConn) Write(p []byte) (int, error)        { return len(p), nil }
func (s *streamConn) Close() error                       { return nil }
func (s *streamConn) LocalAddr() net.Addr                { return &net.TCPAddr{} }
func (s *streamConn) RemoteAddr() net.Addr               { return &net.TCPAddr{} }
func (s *streamConn) SetDeadline(t time.Time) error      { return nil }
func (s *streamConn) SetReadDeadline(t time.Time) error  { return nil }
func (s *streamConn) SetWriteDeadline(t time.Time) error { return nil }

var segPatterns = [][]int{nil, {1}, {2, 3}, {19}, {18, 1}, {7, 100, 1}, {4096}, {5000}}

func init() {
	handlers["hdr"] = func(a []T) T {
		return term.Hex(bgp.VerifPrependHeader(mustBytes(a[0]), uint8(mustUint(a[1], 8))))
	}
	handlers["ka"] = func(a []T) T {
		b, err := bgp.VerifKeepAliveEncode()
		if err != nil {
			return term.A("err")
		}
		return term.Hex(b)
	}
	handlers["notif.enc"] = func(a []T) T {
		n := &bgp.Notification{Code: uint8(mustUint(a[0], 8)), Subcode: uint8(mustUint(a[1], 8)), Data: mustBytes(a[2])}
		b, err := bgp.VerifNotifEncode(n)
		if err != nil {
			return term.A("err")
		}
		return term.App("ok", term.Hex(b))
	}
	handlers["notif.dec"] = func(a []T) T {
		n, err := bgp.VerifNotifDecode(mustBytes(a[0]))
		if err != nil {
			return term.App("err", tPErr(err))
		}
		return term.App("ok", tNotif(n))
	}
	handlers["open.dec"] = func(a []T) T {
		o, caps, err := bgp.VerifOpenDecode(mustBytes(a[0]))
		if err != nil {
			return term.App("err", tPErr(err))
		}
		return term.App("ok", tOpen(o), tCaps(caps))
	}
	handlers["open.val"] = func(a []T) T {
		o, _, err := bgp.VerifOpenDecode(mustBytes(a[0]))
		if err != nil {
			return term.A("undecodable")
		}
		err = bgp.VerifOpenValidate(o, uint32(mustUint(a[1], 32)), uint32(mustUint(a[2], 32)), uint32(mustUint(a[3], 32)))
		if err == nil {
			return term.A("nil")
		}
		return term.App("err", tPErr(err))
	}
	handlers["open.new"] = func(a []T) T {
		b, err := bgp.VerifOpenBuild(uint32(mustUint(a[0], 32)), time.Duration(mustUint(a[1], 16))*time.Second,
			uint32(mustUint(a[2], 32)), pCaps(a[3]))
		if err != nil {
			return term.A("err")
		}
		return term.App("ok", term.Hex(b))
	}
	handlers["open.enc"] = func(a []T) T {
		b, err := bgp.VerifOpenEncode(pOpen(a[0]))
		if err != nil {
			return term.A("err")
		}
		return term.App("ok", term.Hex(b))
	}
	handlers["addpath.dec"] = func(a []T) T {
		ts, err := bgp.DecodeAddPathTuples(mustBytes(a[0]))
		if err != nil {
			return term.A("err")
		}
		out := make([]T, len(ts))
		for i, t := range ts {
			out[i] = term.App("T", term.N(uint64(t.AFI)), term.N(uint64(t.SAFI)), term.B(t.Tx), term.B(t.Rx))
		}
		return term.App("ok", term.L(out...))
	}
	handlers["addpath.enc"] = func(a []T) T {
		var ts []bgp.AddPathTuple
		for _, t := range a[0].Args {
			afi, _ := t.Args[0].Uint(16)
			safi, _ := t.Args[1].Uint(8)
			tx, _ := t.Args[2].Bool()
			rx, _ := t.Args[3].Bool()
			ts = append(ts, bgp.AddPathTuple{AFI: uint16(afi), SAFI: uint8(safi), Tx: tx, Rx: rx})
		}
		return tCap(bgp.NewAddPathCapability(ts))
	}
	handlers["mpcap"] = func(a []T) T {
		return tCap(bgp.NewMPExtensionsCapability(uint16(mustUint(a[0], 16)), uint8(mustUint(a[1], 8))))
	}
	handlers["read"] = func(a []T) T {
		data := mustBytes(a[0])
		// the segmentation is derived from the data so that a replay is deterministic
		h := 0
		for _, x := range data {
			h = h*31 + int(x)
		}
		if h < 0 {
			h = -h
		}
		conn := &streamConn{data: append([]byte(nil), data...), seg: segPatterns[h%len(segPatterns)]}
		msgs, err := bgp.VerifReadAll(conn)
		out := make([]T, len(msgs))
		for i, m := range msgs {
			switch {
			case m.Open != nil:
				out[i] = tOpen(m.Open)
			case m.Notif != nil:
				out[i] = tNotif(m.Notif)
			case m.Type == 2:
				out[i] = term.App("U", term.Hex(m.Update))
			default:
				out[i] = term.A("K")
			}
		}
		var e T
		if _, _, ok := bgp.VerifAsNotificationError(err); ok {
			e = tPErr(err)
		} else {
			e = term.A("other")
		}
		return term.App("R", term.L(out...), e)
	}
}

var _ = errors.New
