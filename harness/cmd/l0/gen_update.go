package main

import (
	"encoding/binary"

	"verif/harness/term"
)

var attrNames = []struct {
	name string
	code uint8
	good func(g *gen) []byte
}{
	{"origin", 1, func(g *gen) []byte { return []byte{uint8(g.r.Intn(3))} }},
	{"aspath", 2, func(g *gen) []byte { return g.asPath() }},
	{"nexthop", 3, func(g *gen) []byte { return g.bytes(4) }},
	{"med", 4, func(g *gen) []byte { return g.bytes(4) }},
	{"localpref", 5, func(g *gen) []byte { return g.bytes(4) }},
	{"atomicagg", 6, func(g *gen) []byte { return nil }},
	{"aggregator", 7, func(g *gen) []byte { return g.bytes(8) }},
	{"communities", 8, func(g *gen) []byte { return g.bytes(4 * (1 + g.r.Intn(5))) }},
	{"originatorid", 9, func(g *gen) []byte { return g.bytes(4) }},
	{"clusterlist", 10, func(g *gen) []byte { return g.bytes(4 * (1 + g.r.Intn(5))) }},
	{"largecomm", 32, func(g *gen) []byte { return g.bytes(12 * (1 + g.r.Intn(4))) }},
}

// asPath returns a well-formed AS_PATH value (4-octet AS numbers) of 0..4 segments.
func (g *gen) asPath() []byte {
	var b []byte
	for k := g.r.Intn(5); k > 0; k-- {
		n := 1 + g.r.Intn(4)
		if g.r.Intn(30) == 0 {
			n = 255
		}
		b = append(b, uint8(1+g.r.Intn(2)), uint8(n))
		b = append(b, g.bytes(4*n)...)
	}
	return b
}

func genAttrDecoders(g *gen) {
	for _, a := range attrNames {
		fn := "attr." + a.name
		// all 256 flag octets × every value length 0..13
		for f := 0; f < 256; f++ {
			for l := 0; l <= 13; l++ {
				v := g.bytes(l)
				if a.code == 1 && l == 1 {
					v[0] = uint8(g.r.Intn(5))
				}
				if a.code == 2 && l >= 2 {
					v[0] = uint8(g.r.Intn(4))
					v[1] = uint8(g.r.Intn(4))
				}
				g.emit(fn, term.N(uint64(f)), term.Hex(v))
			}
		}
		// ORIGIN: every value octet
		if a.code == 1 {
			for v := 0; v < 256; v++ {
				g.emit(fn, term.N(0x40), term.Hex([]byte{uint8(v)}))
			}
		}
		// boundary lengths up to 4096 (extended-length data above 255), right and wrong flags
		for _, l := range []int{12, 16, 24, 36, 48, 60, 252, 254, 255, 256, 257, 258, 264, 1020, 1024, 4092, 4095, 4096} {
			for _, f := range []uint8{0x40, 0x80, 0xc0, 0x00, 0x50, 0x90, 0xd0} {
				v := g.bytes(l)
				if a.code == 2 && l >= 6 { // one segment that exactly fills, when possible
					if (l-2)%4 == 0 && (l-2)/4 <= 255 {
						v[0], v[1] = 2, uint8((l-2)/4)
					}
				}
				g.emit(fn, term.N(uint64(f)), term.Hex(v))
			}
		}
		// values made of repeated units (the same community / AS / cluster id several times, next to each other and
		// apart): a decoder must deliver every element as often as it is on the wire
		for _, unit := range []int{2, 4, 8, 12} {
			u0, u1 := g.bytes(unit), make([]byte, unit)
			for n := 1; n <= 6; n++ {
				for pat := 0; pat < 1<<n; pat++ {
					var v []byte
					for k := 0; k < n; k++ {
						if pat>>k&1 == 0 {
							v = append(v, u0...)
						} else {
							v = append(v, u1...)
						}
					}
					if a.code == 2 { // one AS_SEQUENCE segment over the units, when they are whole AS numbers
						if unit%4 != 0 || len(v)/4 > 255 {
							continue
						}
						v = append([]byte{2, uint8(len(v) / 4)}, v...)
					}
					g.emit(fn, term.N(uint64(pick[uint8](g, 0x40, 0x80, 0xc0))), term.Hex(v))
				}
			}
			// many copies, extended length
			var v []byte
			for k := 0; k < 100; k++ {
				v = append(v, u0...)
			}
			g.emit(fn, term.N(0xd0), term.Hex(v))
			g.emit(fn, term.N(0x50), term.Hex(v))
		}
		// grammar-generated good values with the right and random flags, and mutations of them
		for i := 0; i < g.scale(1500, 30000); i++ {
			v := a.good(g)
			if g.r.Intn(3) == 0 {
				v = g.mutate(v)
			}
			f := uint8(g.r.Intn(256))
			if g.r.Intn(4) != 0 {
				f = pick[uint8](g, 0x40, 0x80, 0xc0) | uint8(g.r.Intn(4))<<4 | uint8(g.r.Intn(16))
			}
			g.emit(fn, term.N(uint64(f)), term.Hex(v))
		}
	}
	// AS_PATH: segment structure grids — types 0..3 × counts 0..3 × following bytes
	for t1 := 0; t1 < 4; t1++ {
		for n1 := 0; n1 < 4; n1++ {
			for extra := 0; extra <= 6; extra++ {
				v := append([]byte{uint8(t1), uint8(n1)}, g.bytes(4*n1)...)
				v = append(v, g.bytes(extra)...)
				g.emit("attr.aspath", term.N(0x40), term.Hex(v))
				// two segments
				v2 := append(append([]byte(nil), v[:2+4*n1]...), uint8(1+g.r.Intn(2)), uint8(1))
				v2 = append(v2, g.bytes(4)...)
				g.emit("attr.aspath", term.N(0x40), term.Hex(v2))
			}
		}
	}
	for f := 0; f < 256; f++ {
		g.emit("flags", term.N(uint64(f)))
	}
}

// ---- prefixes ----

func (g *gen) prefixEntry(ipv6, addPath bool) []byte {
	maxb := 32
	if ipv6 {
		maxb = 128
	}
	bl := g.r.Intn(maxb + 1)
	var b []byte
	if addPath {
		b = append(b, g.bytes(4)...)
	}
	b = append(b, uint8(bl))
	return append(b, g.bytes((bl+7)/8)...)
}

func (g *gen) prefixField(ipv6, addPath bool, n int) []byte {
	var b []byte
	for ; n > 0; n-- {
		b = append(b, g.prefixEntry(ipv6, addPath)...)
	}
	return b
}

func genPrefixes(g *gen) {
	tb := func(b bool) T { return term.B(b) }
	for _, v6 := range []bool{false, true} {
		for _, ap := range []bool{false, true} {
			maxb := 32
			if v6 {
				maxb = 128
			}
			// every prefix length octet 0..255 × exact / short by one / long by one
			for bl := 0; bl < 256; bl++ {
				n := (bl + 7) / 8
				for _, d := range []int{0, -1, 1} {
					if n+d < 0 {
						continue
					}
					var b []byte
					if ap {
						b = g.bytes(4)
					}
					b = append(b, uint8(bl))
					b = append(b, g.bytes(n+d)...)
					g.emit("pfx", tb(v6), tb(ap), term.Hex(b))
					if bl <= maxb && d == 0 { // followed by a second entry
						g.emit("pfx", tb(v6), tb(ap), term.Hex(append(b, g.prefixEntry(v6, ap)...)))
					}
				}
			}
			// every truncation of a three-entry field
			base := g.prefixField(v6, ap, 3)
			for i := 0; i <= len(base); i++ {
				g.emit("pfx", tb(v6), tb(ap), term.Hex(base[:i]))
			}
			for i := 0; i < g.scale(2500, 50000); i++ {
				b := g.prefixField(v6, ap, g.r.Intn(8))
				if g.r.Intn(3) == 0 {
					b = g.mutate(b)
				}
				g.emit("pfx", tb(v6), tb(ap), term.Hex(b))
			}
		}
	}
	for _, kind := range []string{"nlri", "wr"} {
		for _, ap := range []bool{false, true} {
			for i := 0; i < g.scale(1500, 30000); i++ {
				b := g.prefixField(false, ap, g.r.Intn(6))
				if g.r.Intn(3) == 0 {
					b = g.mutate(b)
				}
				g.emit("pfxfn", term.A(kind), tb(ap), term.Hex(b))
			}
			// histories through one decode function: results are read after the last call
			for i := 0; i < g.scale(300, 6000); i++ {
				var bs []T
				for k := 2 + g.r.Intn(4); k > 0; k-- {
					b := g.prefixField(false, ap, g.r.Intn(6))
					if g.r.Intn(4) == 0 {
						b = g.mutate(b)
					}
					bs = append(bs, term.Hex(b))
				}
				g.emit("pfxseq", term.A(kind), tb(ap), term.L(bs...))
			}
		}
	}
	for l := 0; l <= 50; l++ {
		g.emit("mp6nh", term.Hex(g.bytes(l)))
	}
	for _, ap := range []bool{false, true} {
		for i := 0; i < g.scale(1500, 30000); i++ {
			b := g.prefixField(true, ap, g.r.Intn(6))
			if g.r.Intn(3) == 0 {
				b = g.mutate(b)
			}
			g.emit("mp6pfx", tb(ap), term.Hex(b))
		}
	}
}

func genMPSplitters(g *gen) {
	nilT := term.A("nil")
	// all next-hop length octets 0..255 × attribute lengths straddling them
	for nh := 0; nh < 256; nh++ {
		for _, total := range []int{nh + 3, nh + 4, nh + 5, nh + 6, nh + 9, 4 + g.r.Intn(300)} {
			b := g.bytes(total)
			if total >= 4 {
				b[3] = uint8(nh)
			}
			g.emit("mpreach", term.N(0x80), term.Hex(b), nilT)
		}
	}
	// every flags octet
	for f := 0; f < 256; f++ {
		b := append([]byte{0, 2, 1, 16}, g.bytes(16+1+5)...)
		g.emit("mpreach", term.N(uint64(f)), term.Hex(b), nilT)
		g.emit("mpreach", term.N(uint64(f)), term.Hex(b[:g.r.Intn(8)]), nilT)
		g.emit("mpunreach", term.N(uint64(f)), term.Hex(g.bytes(g.r.Intn(12))), nilT)
	}
	for l := 0; l <= 8; l++ {
		g.emit("mpreach", term.N(0x80), term.Hex(g.bytes(l)), nilT)
		g.emit("mpunreach", term.N(0x80), term.Hex(g.bytes(l)), nilT)
	}
	// closure returning errors: the result joins the flag error and the closure's error
	for i := 0; i < g.scale(1000, 20000); i++ {
		f := pick[uint8](g, 0x80, 0x90, 0x40, 0xc0, 0x00)
		fr := g.errTree(2)
		nh := pick(g, 0, 4, 16, 32, g.r.Intn(256))
		b := append([]byte{0, uint8(1 + g.r.Intn(2)), 1, uint8(nh)}, g.bytes(nh+1+g.r.Intn(10))...)
		if g.r.Intn(4) == 0 {
			b = g.mutate(b)
		}
		g.emit("mpreach", term.N(uint64(f)), term.Hex(b), fr)
		g.emit("mpunreach", term.N(uint64(f)), term.Hex(g.bytes(g.r.Intn(10))), fr)
	}
}

// ---- error trees ----

var treeSeq int

func (g *gen) errLeaf() T {
	treeSeq++
	tag := []byte{uint8(treeSeq >> 8), uint8(treeSeq)}
	n := term.App("N", term.N(uint64(1+g.r.Intn(6))), term.N(uint64(g.r.Intn(12))), term.Hex(tag))
	switch g.r.Intn(9) {
	case 0, 1:
		return n
	case 2, 3:
		return term.App("W", term.N(uint64(g.r.Intn(40))), n)
	case 4:
		return term.App("W", term.N(uint64(g.r.Intn(40))), term.A("-"))
	case 5:
		return term.App("D", term.N(uint64(g.r.Intn(40))), n)
	case 6:
		return term.App("D", term.N(uint64(g.r.Intn(40))), term.A("-"))
	case 7:
		return term.App("U", n)
	default:
		return term.A("E")
	}
}

func (g *gen) errTree(depth int) T {
	if depth <= 0 || g.r.Intn(3) == 0 {
		return g.errLeaf()
	}
	if g.r.Intn(3) == 0 {
		return term.App("wrap", g.errTree(depth-1))
	}
	n := 1 + g.r.Intn(3)
	out := make([]T, n)
	for i := range out {
		out[i] = g.errTree(depth - 1)
	}
	return term.App("join", out...)
}

func genFromErr(g *gen) {
	g.emit("fromerr", term.A("nil"))
	for i := 0; i < g.scale(6000, 120000); i++ {
		g.emit("fromerr", g.errTree(1+g.r.Intn(6)))
	}
}

// ---- UPDATE bodies ----

func (g *gen) attrBytes(code, flags uint8, val []byte) []byte {
	b := []byte{flags, code}
	if flags&0x10 != 0 {
		b = append(b, uint8(len(val)>>8), uint8(len(val)))
	} else {
		b = append(b, uint8(len(val)))
	}
	return append(b, val...)
}

func (g *gen) updateBody() []byte {
	wr := g.prefixField(false, false, g.r.Intn(3))
	var attrs []byte
	na := g.r.Intn(6)
	wantMandatory := g.r.Intn(3) != 0
	codes := []uint8{}
	if wantMandatory {
		codes = append(codes, 1, 2)
	}
	for i := 0; i < na; i++ {
		codes = append(codes, pick[uint8](g, 1, 2, 3, 4, 5, 6, 8, 14, 15, 14, 16, 32, uint8(g.r.Intn(256))))
	}
	g.r.Shuffle(len(codes), func(i, j int) { codes[i], codes[j] = codes[j], codes[i] })
	for _, c := range codes {
		flags := pick[uint8](g, 0x40, 0x80, 0xc0, 0x50, 0x90)
		l := g.r.Intn(8)
		if flags&0x10 != 0 && g.r.Intn(4) == 0 {
			l = 250 + g.r.Intn(20)
		}
		attrs = append(attrs, g.attrBytes(c, flags, g.bytes(l))...)
	}
	nlri := g.prefixField(false, false, g.r.Intn(3))
	b := make([]byte, 2, 4+len(wr)+len(attrs)+len(nlri))
	binary.BigEndian.PutUint16(b, uint16(len(wr)))
	b = append(b, wr...)
	b = append(b, uint8(len(attrs)>>8), uint8(len(attrs)))
	b = append(b, attrs...)
	return append(b, nlri...)
}

func (g *gen) script(nslots int) T {
	var out []T
	slots := []string{"wr", "nlri", "a0", "a1", "a2", "a3", "a4"}
	for k := g.r.Intn(nslots + 1); k > 0; k-- {
		s := pick(g, slots...)
		dup := false
		for _, o := range out {
			if o.Args[0].Atom == s {
				dup = true
			}
		}
		if !dup {
			out = append(out, term.App("S", term.A(s), g.errTree(g.r.Intn(3))))
		}
	}
	return term.L(out...)
}

func genUpdateBodies(scripted bool) func(g *gen) {
	return func(g *gen) {
		empty := term.L()
		sc := func() T {
			if scripted && g.r.Intn(4) != 0 {
				return g.script(3)
			}
			return empty
		}
		if !scripted {
			// every byte string up to length 6 (quick: 5) over a protocol-relevant alphabet
			alpha := []byte{0x00, 0x01, 0x02, 0x0e, 0x40, 0x50}
			maxLen := g.scale(5, 6)
			var rec func(cur []byte)
			rec = func(cur []byte) {
				g.emit("upd", term.Hex(cur), empty)
				if len(cur) == maxLen {
					return
				}
				for _, a := range alpha {
					rec(append(cur, a))
				}
			}
			rec(nil)
		}
		for i := 0; i < g.scale(12000, 250000); i++ {
			b := g.updateBody()
			switch g.r.Intn(6) {
			case 0:
				b = g.mutate(b)
			case 1:
				// nudge one of the two length fields
				if g.r.Intn(2) == 0 {
					b[1] += pick[uint8](g, 1, 2, 255)
				} else {
					wrl := int(binary.BigEndian.Uint16(b))
					if 2+wrl+1 < len(b) {
						b[2+wrl+1] += pick[uint8](g, 1, 2, 255)
					}
				}
			}
			g.emit("upd", term.Hex(b), sc())
		}
		// bodies up to the maximum size and a few above 65535 with extreme length fields
		for i := 0; i < g.scale(40, 400); i++ {
			b := g.updateBody()
			b = append(b, g.prefixField(false, false, 200+g.r.Intn(400))...)
			if len(b) > 4077 {
				b = b[:4077]
			}
			g.emit("upd", term.Hex(b), sc())
		}
		if !scripted {
			for _, wrl := range []uint16{0, 1, 65533, 65534, 65535} {
				for _, total := range []int{65535, 65536, 65540, 65600} {
					b := make([]byte, total)
					binary.BigEndian.PutUint16(b, wrl)
					g.emit("upd", term.Hex(b), empty)
				}
			}
		}
	}
}

// genUpdSeq: histories through one long-lived UpdateDecoder — a message that makes Decode stop early (a repeated
// MP_REACH / MP_UNREACH, a callback answering with a NOTIFICATION, a mutated or truncated body) followed by ordinary
// messages with the mandatory attributes
func genUpdSeq(g *gen) {
	empty := term.L()
	mpTwice := func() []byte {
		code := pick[uint8](g, 14, 15)
		var attrs []byte
		for _, c := range []uint8{1, code, 2, code, 3} {
			l := g.r.Intn(6)
			if c == code && g.r.Intn(3) == 0 {
				l = 0
			}
			attrs = append(attrs, g.attrBytes(c, pick[uint8](g, 0x40, 0x80, 0x90), g.bytes(l))...)
		}
		if g.r.Intn(3) == 0 {
			// the second one cut short
			attrs = attrs[:len(attrs)-1-g.r.Intn(3)]
		}
		b := []byte{0, 0, uint8(len(attrs) >> 8), uint8(len(attrs))}
		b = append(b, attrs...)
		return append(b, g.prefixField(false, false, g.r.Intn(2))...)
	}
	for i := 0; i < g.scale(2500, 40000); i++ {
		var ps []T
		switch g.r.Intn(4) {
		case 0:
			ps = append(ps, term.App("P", term.Hex(mpTwice()), empty))
		case 1:
			ps = append(ps, term.App("P", term.Hex(g.updateBody()), g.script(3)))
		case 2:
			ps = append(ps, term.App("P", term.Hex(g.mutate(g.updateBody())), empty))
		default:
			b := g.updateBody()
			ps = append(ps, term.App("P", term.Hex(b[:g.r.Intn(len(b)+1)]), empty))
		}
		for k := 1 + g.r.Intn(3); k > 0; k-- {
			sc := empty
			if g.r.Intn(5) == 0 {
				sc = g.script(2)
			}
			ps = append(ps, term.App("P", term.Hex(g.updateBody()), sc))
		}
		g.emit("updseq", term.L(ps...))
	}
}

// genBitmap: every single code against all 256 queries, and random sets
func genBitmap(g *gen) {
	all := make([]byte, 256)
	for i := range all {
		all[i] = byte(i)
	}
	for b := 0; b < 256; b++ {
		g.emit("bitmap", term.Hex([]byte{byte(b)}), term.Hex(all))
	}
	for i := 0; i < g.scale(300, 5000); i++ {
		g.emit("bitmap", term.Hex(g.bytes(1+g.r.Intn(12))), term.Hex(all))
	}
}

func init() {
	generators["C18"] = []func(*gen){genAttrDecoders}
	generators["C19"] = []func(*gen){genPrefixes, genMPSplitters}
	generators["C16"] = []func(*gen){genUpdateBodies(false), genBitmap, genUpdSeq}
	generators["C17"] = []func(*gen){genUpdateBodies(true), genUpdateBodies(false), genFromErr, genUpdSeq}
}

// genOversize feeds every decoder byte slices above 65535 bytes and random garbage of all sizes.
func genOversize(g *gen) {
	empty := term.L()
	for i := 0; i < g.scale(12, 60); i++ {
		n := 65530 + g.r.Intn(4500)
		b := g.bytes(n)
		if i%2 == 0 {
			b[0], b[1] = 0xff, uint8(0xf0+g.r.Intn(16))
		}
		g.emit("upd", term.Hex(b), empty)
		g.emit("pfx", term.B(i%2 == 0), term.B(i%4 < 2), term.Hex(b))
		g.emit("attr."+attrNames[i%len(attrNames)].name, term.N(uint64(pick[uint8](g, 0x40, 0x80, 0xc0, 0x50))), term.Hex(b))
		g.emit("mpreach", term.N(0x80), term.Hex(b), term.A("nil"))
		g.emit("open.dec", term.Hex(b[:pick(g, 255, 256, 265, 266, 300, 4077, n)]))
		g.emit("notif.dec", term.Hex(b[:pick(g, 4077, n)]))
		g.emit("addpath.dec", term.Hex(b[:pick(g, 4, 256, 1024, n-n%4)]))
		g.emit("mp6pfx", term.B(i%2 == 0), term.Hex(b))
	}
	for i := 0; i < g.scale(4000, 80000); i++ {
		b := g.bytes(g.r.Intn(64))
		fn := pick(g, "upd", "open.dec", "notif.dec", "addpath.dec", "mp6nh", "read")
		if fn == "upd" {
			g.emit(fn, term.Hex(b), empty)
		} else {
			g.emit(fn, term.Hex(b))
		}
	}
}

func init() {
	generators["C05"] = []func(*gen){genOversize, genOpenDecode, genReader, genAttrDecoders, genPrefixes, genMPSplitters, genUpdateBodies(false)}
}
