package main

import (
	"encoding/binary"

	bgp "github.com/jwhited/corebgp"
	"verif/harness/term"
)

// ---- reference wire encoders (independent of corebgp) ----

func wHeader(t uint8, body []byte) []byte {
	b := make([]byte, 19, 19+len(body))
	for i := 0; i < 16; i++ {
		b[i] = 0xff
	}
	binary.BigEndian.PutUint16(b[16:], uint16(19+len(body)))
	b[18] = t
	return append(b, body...)
}

type wCap struct {
	code uint8
	val  []byte
}
type wParam struct {
	typ  uint8
	caps []wCap
	raw  []byte // if non-nil, used as the value instead of caps
}

func wCapsBytes(cs []wCap) []byte {
	var b []byte
	for _, c := range cs {
		b = append(b, c.code, uint8(len(c.val)))
		b = append(b, c.val...)
	}
	return b
}

func wOpenBody(ver uint8, asn, hold uint16, id uint32, ps []wParam) []byte {
	b := make([]byte, 9)
	b[0] = ver
	binary.BigEndian.PutUint16(b[1:], asn)
	binary.BigEndian.PutUint16(b[3:], hold)
	binary.BigEndian.PutUint32(b[5:], id)
	var params []byte
	for _, p := range ps {
		v := p.raw
		if v == nil {
			v = wCapsBytes(p.caps)
		}
		params = append(params, p.typ, uint8(len(v)))
		params = append(params, v...)
	}
	b = append(b, uint8(len(params)))
	return append(b, params...)
}

func be32(x uint32) []byte { b := make([]byte, 4); binary.BigEndian.PutUint32(b, x); return b }

// ---- generators ----

var asChoices = []uint32{1, 65001, 65535, 65536, 23456, 70000, 4294967295}

func (g *gen) openFields(remoteAS, localID uint32) (ver uint8, asn, hold uint16, id uint32) {
	ver = 4
	if g.r.Intn(8) == 0 {
		ver = pick[uint8](g, 0, 3, 5, 255)
	}
	switch g.r.Intn(6) {
	case 0:
		asn = 23456
	case 1:
		asn = uint16(g.r.Intn(65536))
	default:
		if remoteAS > 65535 {
			asn = 23456
		} else {
			asn = uint16(remoteAS)
		}
	}
	hold = pick[uint16](g, 0, 1, 2, 3, 4, 90, 180, 65535, uint16(g.r.Intn(65536)))
	switch g.r.Intn(8) {
	case 0:
		id = localID
	case 1:
		id = pick[uint32](g, 0xe0000001, 0xefffffff, 0xdfffffff, 0xf0000000, 0xe0000000, 0, 0xffffffff)
	default:
		id = g.r.Uint32()
	}
	return
}

func (g *gen) capList(remoteAS uint32, want4 bool) []wCap {
	n := g.r.Intn(5)
	var cs []wCap
	for i := 0; i < n; i++ {
		code := pick[uint8](g, 1, 2, 64, 69, 70, 71, uint8(g.r.Intn(256)))
		if code == 65 {
			code = 66
		}
		l := g.r.Intn(8)
		if g.r.Intn(10) == 0 {
			l = g.r.Intn(60)
		}
		cs = append(cs, wCap{code, g.bytes(l)})
	}
	if want4 {
		c := wCap{65, be32(remoteAS)}
		switch g.r.Intn(10) {
		case 0:
			c.val = be32(remoteAS + 1)
		case 1:
			c.val = g.bytes(pick(g, 0, 1, 3, 5, 8))
		}
		pos := g.r.Intn(len(cs) + 1)
		cs = append(cs[:pos], append([]wCap{c}, cs[pos:]...)...)
		if g.r.Intn(12) == 0 { // a second one
			cs = append(cs, wCap{65, be32(pick(g, remoteAS, remoteAS^1))})
		}
	}
	return cs
}

func (g *gen) openParams(remoteAS uint32) []wParam {
	np := 1
	switch g.r.Intn(10) {
	case 0:
		np = 0
	case 1, 2:
		np = 2
	case 3:
		np = 3
	}
	has4 := g.r.Intn(8) != 0
	at := 0
	if np > 0 {
		at = g.r.Intn(np)
	}
	var ps []wParam
	for i := 0; i < np; i++ {
		p := wParam{typ: 2, caps: g.capList(remoteAS, has4 && i == at)}
		if g.r.Intn(15) == 0 {
			p.typ = pick[uint8](g, 0, 1, 3, 255)
		}
		if g.r.Intn(25) == 0 {
			p.raw = g.bytes(g.r.Intn(6))
		}
		ps = append(ps, p)
	}
	return ps
}

// mutate applies one structural mutation to an encoding.
func (g *gen) mutate(b []byte) []byte {
	b = append([]byte(nil), b...)
	if len(b) == 0 {
		return g.bytes(1 + g.r.Intn(3))
	}
	switch g.r.Intn(6) {
	case 0: // truncate
		return b[:g.r.Intn(len(b))]
	case 1: // extend
		return append(b, g.bytes(1+g.r.Intn(4))...)
	case 2: // nudge one byte (often a length octet)
		i := g.r.Intn(len(b))
		b[i] += pick[uint8](g, 1, 2, 255, 254)
	case 3:
		i := g.r.Intn(len(b))
		b[i] = pick[uint8](g, 0, 255, 1, 2)
	case 4: // duplicate a slice
		i := g.r.Intn(len(b))
		j := i + g.r.Intn(len(b)-i)
		b = append(b[:j], append(append([]byte(nil), b[i:j]...), b[j:]...)...)
	case 5: // delete a slice
		i := g.r.Intn(len(b))
		j := i + g.r.Intn(min(len(b)-i, 4)+1)
		b = append(b[:i], b[j:]...)
	}
	return b
}

func genNotifCodec(g *gen) {
	// exhaustive data lengths 0..64 and the maximum region
	for _, l := range append(seq(0, 64), 255, 256, 4074, 4075, 4076) {
		g.emit("notif.enc", term.N(uint64(1+g.r.Intn(7))), term.N(uint64(g.r.Intn(12))), term.Hex(g.bytes(l)))
	}
	for i := 0; i < g.scale(3000, 60000); i++ {
		l := g.r.Intn(6)
		if g.r.Intn(4) == 0 {
			l = g.r.Intn(300)
		}
		g.emit("notif.enc", term.N(uint64(g.r.Intn(256))), term.N(uint64(g.r.Intn(256))), term.Hex(g.bytes(l)))
	}
	for l := 0; l <= 66; l++ {
		g.emit("notif.dec", term.Hex(g.bytes(l)))
	}
	for i := 0; i < g.scale(3000, 60000); i++ {
		l := g.r.Intn(8)
		if g.r.Intn(5) == 0 {
			l = g.r.Intn(4078)
		}
		g.emit("notif.dec", term.Hex(g.bytes(l)))
	}
}

func seq(a, b int) []int {
	var out []int
	for i := a; i <= b; i++ {
		out = append(out, i)
	}
	return out
}

func (g *gen) openBody(remoteAS, localID uint32) []byte {
	ver, asn, hold, id := g.openFields(remoteAS, localID)
	b := wOpenBody(ver, asn, hold, id, g.openParams(remoteAS))
	switch g.r.Intn(10) {
	case 0, 1:
		b = g.mutate(b)
	case 2:
		if g.r.Intn(2) == 0 {
			b = g.bytes(g.r.Intn(40))
		} else {
			b = g.mutate(g.mutate(b))
		}
	}
	return b
}

func genOpenDecode(g *gen) {
	// every truncation of one rich valid OPEN, and every single-octet nudge of its length octets
	base := wOpenBody(4, 65001, 90, 0x0a000001, []wParam{
		{typ: 2, caps: []wCap{{65, be32(65001)}, {1, []byte{0, 1, 0, 1}}}},
		{typ: 2, caps: []wCap{{2, nil}, {69, []byte{0, 1, 1, 3}}}}})
	for i := 0; i <= len(base); i++ {
		g.emit("open.dec", term.Hex(base[:i]))
	}
	for i := 9; i < len(base); i++ {
		for _, d := range []uint8{1, 2, 255, 254} {
			b := append([]byte(nil), base...)
			b[i] += d
			g.emit("open.dec", term.Hex(b))
		}
	}
	// boundary sizes of the optional parameter block: 0, 1, 2, …, and 253..255 bytes
	for _, l := range []int{0, 1, 2, 3, 250, 251, 252, 253} {
		p := wParam{typ: 2, caps: []wCap{{65, be32(65001)}}}
		if l > 6 {
			p.caps = append(p.caps, wCap{70, g.bytes(l - 6 - 2)})
		}
		g.emit("open.dec", term.Hex(wOpenBody(4, 65001, 90, 1, []wParam{p})))
		g.emit("open.dec", term.Hex(wOpenBody(4, 65001, 90, 1, []wParam{{typ: 2, raw: g.bytes(l)}})))
	}
	for i := 0; i < g.scale(20000, 400000); i++ {
		ras := pick(g, asChoices...)
		g.emit("open.dec", term.Hex(g.openBody(ras, g.r.Uint32())))
	}
	// random bodies up to the maximum body size
	for i := 0; i < g.scale(300, 5000); i++ {
		g.emit("open.dec", term.Hex(g.bytes(g.r.Intn(4078))))
	}
	// the RFC 9072 layout (Opt Parm Len 255, Non-Ext OP Type 255, two-octet lengths), which this code does not
	// implement: whatever it answers, it must be the answer to the octets as RFC 4271 reads them — with capability
	// lengths up to 255 inside parameters that such a layout would allow to exceed 255 octets
	for _, capLen := range []int{0, 1, 200, 252, 253, 254, 255} {
		for _, extra := range []int{0, 1, 40} {
			capsBlock := append([]byte{70, uint8(capLen)}, g.bytes(capLen)...)
			capsBlock = append(capsBlock, g.bytes(extra)...)
			params := append([]byte{2, uint8(len(capsBlock) >> 8), uint8(len(capsBlock))}, capsBlock...)
			for _, optLen := range []uint8{255, 254, uint8(len(params) + 3)} {
				b := []byte{4, 0xfd, 0xe9, 0, 90, 10, 0, 0, 1, optLen, 255, uint8(len(params) >> 8), uint8(len(params))}
				b = append(b, params...)
				g.emit("open.dec", term.Hex(b))
				g.emit("open.dec", term.Hex(b[:len(b)-1-g.r.Intn(3)]))
			}
		}
	}
}

func genOpenValidate(g *gen) {
	// field grids: version × AS field × hold × identifier nibble × (local AS, remote AS, id) classes
	for _, ver := range []uint8{0, 3, 4, 5, 255} {
		for _, ras := range []uint32{65001, 23456, 70000} {
			for _, las := range []uint32{65001, 70000, 65002} {
				for _, asn := range []uint16{65001, 23456, 4464, 0} { // 4464 = 70000 mod 65536
					for _, hold := range []uint16{0, 1, 2, 3, 65535} {
						for _, id := range []uint32{0x0a000001, 0xe0000000, 0xefffffff, 0xdfffffff, 0xf0000000} {
							for _, capv := range [][]byte{be32(ras), be32(ras + 1), nil, {1, 2, 3}} {
								var caps []wCap
								if capv != nil {
									caps = []wCap{{65, capv}}
								} else {
									caps = []wCap{{1, []byte{0, 1, 0, 1}}}
								}
								b := wOpenBody(ver, asn, hold, id, []wParam{{typ: 2, caps: caps}})
								lid := pick[uint32](g, 0x0a000001, 0x0a000002)
								g.emit("open.val", term.Hex(b), term.N(uint64(lid)), term.N(uint64(las)), term.N(uint64(ras)))
							}
						}
					}
				}
			}
		}
	}
	for i := 0; i < g.scale(20000, 400000); i++ {
		ras := pick(g, asChoices...)
		las := ras
		if g.r.Intn(2) == 0 {
			las = pick(g, asChoices...)
		}
		lid := g.r.Uint32()
		g.emit("open.val", term.Hex(g.openBody(ras, lid)), term.N(uint64(lid)), term.N(uint64(las)), term.N(uint64(ras)))
	}
}

func (g *gen) pluginCaps(n int, maxLen int) []bgp.Capability {
	cs := make([]bgp.Capability, n)
	for i := range cs {
		code := uint8(g.r.Intn(256))
		if g.r.Intn(6) == 0 {
			code = 65
		}
		l := g.r.Intn(6)
		if g.r.Intn(5) == 0 {
			l = g.r.Intn(maxLen + 1)
		}
		cs[i] = bgp.Capability{Code: code, Value: g.bytes(l)}
	}
	return cs
}

func genOpenBuild(g *gen) {
	emit := func(asn uint32, hold uint16, id uint32, cs []bgp.Capability) {
		g.emit("open.new", term.N(uint64(asn)), term.N(uint64(hold)), term.N(uint64(id)), tCaps(cs))
	}
	for _, asn := range []uint32{1, 65535, 65536, 23456, 4294967295} {
		for _, hold := range []uint16{0, 3, 90, 65535} {
			emit(asn, hold, g.r.Uint32(), nil)
			emit(asn, hold, g.r.Uint32(), g.pluginCaps(3, 10))
		}
	}
	// every boundary of the three length octets: one capability whose value length sweeps 240..300,
	// and lists whose total sweeps the 255-byte parameter boundary
	for l := 230; l <= 300; l++ {
		emit(65001, 90, 1, []bgp.Capability{{Code: 70, Value: g.bytes(l)}})
	}
	for total := 235; total <= 270; total++ {
		// own 4-octet-AS capability is 6 bytes; fill with capabilities of 2+8 bytes and a remainder
		rem := total - 6
		var cs []bgp.Capability
		for rem >= 12 {
			cs = append(cs, bgp.Capability{Code: 71, Value: g.bytes(8)})
			rem -= 10
		}
		if rem >= 2 {
			cs = append(cs, bgp.Capability{Code: 72, Value: g.bytes(rem - 2)})
		}
		emit(70000, 90, 1, cs)
	}
	// lists with repeated capabilities (same code and value more than once, adjacent and apart; three copies of a
	// 100-byte capability that only fit once): the OPEN carries exactly what the plugin returned, or none is sent
	for i := 0; i < 200; i++ {
		base := g.pluginCaps(1+g.r.Intn(4), 12)
		var cs []bgp.Capability
		for k := 0; k < 2+g.r.Intn(5); k++ {
			cs = append(cs, base[g.r.Intn(len(base))])
		}
		emit(pick(g, asChoices...), 90, g.r.Uint32(), cs)
	}
	big := bgp.Capability{Code: 73, Value: g.bytes(100)}
	emit(65001, 90, 1, []bgp.Capability{big, big, big})
	emit(65001, 90, 1, []bgp.Capability{big, big})
	for n := 0; n <= 40; n++ {
		emit(pick(g, asChoices...), pick[uint16](g, 0, 3, 90, 65535), g.r.Uint32(), g.pluginCaps(n, 300))
		emit(pick(g, asChoices...), pick[uint16](g, 0, 3, 90, 65535), g.r.Uint32(), g.pluginCaps(n, 4))
	}
	for i := 0; i < g.scale(10000, 200000); i++ {
		n := g.r.Intn(8)
		if g.r.Intn(6) == 0 {
			n = g.r.Intn(41)
		}
		asn := pick(g, asChoices...)
		if g.r.Intn(3) == 0 {
			asn = g.r.Uint32()
			if asn == 0 {
				asn = 1
			}
		}
		emit(asn, pick[uint16](g, 0, 3, 90, 65535, uint16(3+g.r.Intn(65533))), g.r.Uint32(), g.pluginCaps(n, 300))
	}
}

func genOpenEncode(g *gen) {
	for i := 0; i < g.scale(10000, 200000); i++ {
		np := 1 + g.r.Intn(3)
		if g.r.Intn(20) == 0 {
			np = 0
		}
		ps := make([]T, np)
		for j := range ps {
			n := 1 + g.r.Intn(4)
			if g.r.Intn(20) == 0 {
				n = 0
			}
			maxLen := 12
			if g.r.Intn(10) == 0 {
				maxLen = 270
			}
			ps[j] = tCaps(g.pluginCaps(n, maxLen))
		}
		o := term.App("O", term.N(uint64(g.r.Intn(256))), term.N(uint64(g.r.Intn(65536))), term.N(uint64(g.r.Intn(65536))),
			term.N(uint64(g.r.Uint32())), term.L(ps...))
		g.emit("open.enc", o)
	}
}

func genCapHelpers(g *gen) {
	for l := 0; l <= 24; l++ {
		for k := 0; k < 8; k++ {
			b := g.bytes(l)
			for i := 3; i < l; i += 4 {
				b[i] = uint8(g.r.Intn(5))
			}
			g.emit("addpath.dec", term.Hex(b))
		}
	}
	for sr := 0; sr < 256; sr++ {
		g.emit("addpath.dec", term.Hex([]byte{0, 1, 1, uint8(sr)}))
		g.emit("addpath.dec", term.Hex([]byte{0, 2, 1, 3, 0, 1, 1, uint8(sr)}))
	}
	for i := 0; i < g.scale(3000, 50000); i++ {
		n := g.r.Intn(6)
		ts := make([]T, n)
		for j := range ts {
			ts[j] = term.App("T", term.N(uint64(g.r.Intn(65536))), term.N(uint64(g.r.Intn(256))), term.B(g.r.Intn(2) == 0), term.B(g.r.Intn(2) == 0))
		}
		g.emit("addpath.enc", term.L(ts...))
		g.emit("mpcap", term.N(uint64(g.r.Intn(65536))), term.N(uint64(g.r.Intn(256))))
	}
	for _, afi := range []uint16{0, 1, 2, 255, 256, 65535} {
		for _, safi := range []uint8{0, 1, 2, 128, 255} {
			g.emit("mpcap", term.N(uint64(afi)), term.N(uint64(safi)))
		}
	}
}

// validMsg returns one well-formed message of a random type.
func (g *gen) validMsg() []byte {
	switch g.r.Intn(5) {
	case 0:
		return wHeader(4, nil)
	case 1:
		l := g.r.Intn(12)
		if g.r.Intn(8) == 0 {
			l = pick(g, 0, 1, 255, 256, 4076, 4077)
		}
		return wHeader(2, g.bytes(l))
	case 2:
		return wHeader(3, append([]byte{uint8(1 + g.r.Intn(7)), uint8(g.r.Intn(12))}, g.bytes(g.r.Intn(4))...))
	case 3:
		return wHeader(1, wOpenBody(4, 65001, 90, g.r.Uint32(), []wParam{{typ: 2, caps: g.capList(65001, true)}}))
	default:
		return wHeader(4, nil)
	}
}

func genReader(g *gen) {
	prefix := func() []byte {
		var s []byte
		for k := g.r.Intn(4); k > 0; k-- {
			s = append(s, g.validMsg()...)
		}
		return s
	}
	hdr := func(marker []byte, length uint16, typ uint8) []byte {
		b := append([]byte(nil), marker...)
		b = append(b, uint8(length>>8), uint8(length), typ)
		return b
	}
	ff := make([]byte, 16)
	for i := range ff {
		ff[i] = 0xff
	}
	// all 65536 length values (quick: a protocol-relevant sample + random; thorough: all) × type sample
	var lens []int
	if g.tier == "thorough" {
		lens = seq(0, 65535)
	} else {
		lens = append(seq(0, 40), seq(4090, 4100)...)
		lens = append(lens, 255, 256, 257, 4095, 4096, 4097, 8192, 32767, 32768, 65535)
		for i := 0; i < 400; i++ {
			lens = append(lens, g.r.Intn(65536))
		}
	}
	for _, l := range lens {
		for _, typ := range []uint8{1, 2, 3, 4, 0, 5} {
			if g.tier != "thorough" && typ != 2 && g.r.Intn(3) != 0 {
				continue
			}
			s := append(prefix(), hdr(ff, uint16(l), typ)...)
			// body: full, or short by one, or absent
			bl := l - 19
			if bl > 0 && bl <= 4077 {
				switch g.r.Intn(4) {
				case 0:
					s = append(s, g.bytes(bl-1)...)
				case 1:
				default:
					s = append(s, g.bytes(bl)...)
					s = append(s, prefix()...)
				}
			} else {
				s = append(s, g.bytes(g.r.Intn(4))...)
			}
			g.emit("read", term.Hex(s))
		}
	}
	// all 256 types × boundary lengths
	for typ := 0; typ < 256; typ++ {
		for _, l := range []int{19, 20, 21, 29, 4096} {
			s := append(prefix(), hdr(ff, uint16(l), uint8(typ))...)
			s = append(s, g.bytes(l-19)...)
			if g.r.Intn(2) == 0 {
				s = append(s, wHeader(4, nil)...)
			}
			g.emit("read", term.Hex(s))
		}
	}
	// every marker position × a few corruptions, with every combination of other faults
	for i := 0; i < 16; i++ {
		for _, v := range []uint8{0, 0xfe, 0x7f} {
			m := append([]byte(nil), ff...)
			m[i] = v
			for _, l := range []uint16{19, 18, 4097, 23} {
				for _, typ := range []uint8{4, 2, 9} {
					s := append(prefix(), hdr(m, l, typ)...)
					s = append(s, g.bytes(4)...)
					g.emit("read", term.Hex(s))
				}
			}
		}
	}
	// every truncation point of a short valid stream
	base := append(append(wHeader(4, nil), wHeader(2, []byte{0, 0, 0, 0})...), wHeader(3, []byte{6, 2, 9})...)
	for i := 0; i <= len(base); i++ {
		g.emit("read", term.Hex(base[:i]))
	}
	// random valid streams followed by mutation
	for i := 0; i < g.scale(3000, 60000); i++ {
		s := prefix()
		s = append(s, prefix()...)
		if g.r.Intn(3) == 0 {
			s = g.mutate(s)
		}
		if g.r.Intn(10) == 0 {
			s = append(s, g.bytes(g.r.Intn(30))...)
		}
		g.emit("read", term.Hex(s))
	}
}

func genHeaderEnc(g *gen) {
	for _, l := range append(seq(0, 40), 255, 256, 257, 4076, 4077) {
		g.emit("hdr", term.Hex(g.bytes(l)), term.N(uint64(pick[uint8](g, 1, 2, 3, 4))))
	}
	for i := 0; i < g.scale(2000, 40000); i++ {
		l := g.r.Intn(40)
		if g.r.Intn(20) == 0 {
			l = g.r.Intn(4078)
		}
		g.emit("hdr", term.Hex(g.bytes(l)), term.N(uint64(pick[uint8](g, 1, 2, 3, 4))))
	}
	g.emit("ka")
}

func init() {
	generators["C15"] = []func(*gen){genNotifCodec, genOpenDecode, genOpenEncode, genCapHelpers}
	generators["C08"] = []func(*gen){genReader, genNotifCodec, genHeaderEnc}
	generators["C14"] = []func(*gen){genOpenBuild}
	generators["C02"] = []func(*gen){genOpenDecode, genOpenValidate}
}
