// Command l0 is the call-level differential harness (DESIGN 7.1): it calls the real corebgp
// functions in-process on generated inputs and prints one line per call,
// `fn args… => canonical-result`, for the Lean driver to compare with the model and to
// judge with the specification.
package main

import (
	"bufio"
	"flag"
	"fmt"
	"math/rand"
	"os"
	"strings"
	"time"

	"verif/harness/term"
)

type T = term.T

type gen struct {
	r    *rand.Rand
	w    *bufio.Writer
	n    int
	tier string
}

// scale returns q for the quick tier and t for thorough.
func (g *gen) scale(q, t int) int {
	if g.tier == "thorough" {
		return t
	}
	return q
}

func (g *gen) emit(fn string, args ...T) {
	res := call(fn, args)
	g.w.WriteString(fn)
	for _, a := range args {
		g.w.WriteByte(' ')
		g.w.WriteString(a.String())
	}
	g.w.WriteString(" => ")
	g.w.WriteString(res.String())
	g.w.WriteByte('\n')
	g.n++
	if hung {
		g.w.Flush()
		os.Exit(0)
	}
}

type handler func(args []T) T

var handlers = map[string]handler{}

// hung is set when a call did not return within callTimeout: the process stops after reporting it (the stuck
// goroutine may hold locks that every later call needs)
var hung bool

const callTimeout = 20 * time.Second

func call(fn string, args []T) T {
	h, ok := handlers[fn]
	if !ok {
		return term.A("UNKNOWN-FN")
	}
	done := make(chan T, 1)
	go func() {
		defer func() {
			if r := recover(); r != nil {
				done <- term.A("PANIC")
			}
		}()
		done <- h(args)
	}()
	select {
	case r := <-done:
		return r
	case <-time.After(callTimeout):
		hung = true
		return term.A("HANG")
	}
}

// generators per property: name -> function
var generators = map[string][]func(g *gen){}

func (g *gen) bytes(n int) []byte {
	b := make([]byte, n)
	g.r.Read(b)
	return b
}

// pick returns one of xs
func pick[X any](g *gen, xs ...X) X { return xs[g.r.Intn(len(xs))] }

func main() {
	prop := flag.String("prop", "", "property id (C02, C05, …) or 'all'")
	tier := flag.String("tier", "quick", "quick|thorough")
	seed := flag.Int64("seed", 1, "PRNG seed")
	replay := flag.String("replay", "", "file of `fn args…` lines to re-run instead of generating")
	flag.Parse()
	w := bufio.NewWriterSize(os.Stdout, 1<<20)
	defer w.Flush()
	g := &gen{r: rand.New(rand.NewSource(*seed)), w: w, tier: *tier}
	if *replay != "" {
		f, err := os.Open(*replay)
		if err != nil {
			fmt.Fprintln(os.Stderr, err)
			os.Exit(2)
		}
		sc := bufio.NewScanner(f)
		sc.Buffer(make([]byte, 1<<20), 1<<26)
		for sc.Scan() {
			line := strings.TrimSpace(sc.Text())
			if line == "" || strings.HasPrefix(line, "#") {
				continue
			}
			if i := strings.Index(line, " => "); i >= 0 {
				line = line[:i]
			}
			parts := strings.Split(line, " ")
			var args []T
			bad := false
			for _, p := range parts[1:] {
				t, err := term.Parse(p)
				if err != nil {
					fmt.Fprintf(os.Stderr, "l0: bad replay arg %q: %v\n", p, err)
					bad = true
				}
				args = append(args, t)
			}
			if !bad {
				g.emit(parts[0], args...)
			}
		}
		return
	}
	gs, ok := generators[*prop]
	if !ok {
		fmt.Fprintf(os.Stderr, "l0: no generators for %q\n", *prop)
		os.Exit(2)
	}
	for _, f := range gs {
		f(g)
	}
}
