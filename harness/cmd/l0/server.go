package main

import (
	"errors"
	"fmt"
	"io"
	"net"
	"net/netip"
	"sort"
	"strconv"
	"strings"
	"sync"
	"sync/atomic"
	"time"

	bgp "github.com/jwhited/corebgp"
	"verif/harness/term"
)

func pAddr(t T) netip.Addr {
	switch {
	case t.Atom == "inv":
		return netip.Addr{}
	case strings.HasPrefix(t.Atom, "v4."):
		n, _ := strconv.Atoi(t.Atom[3:])
		return netip.AddrFrom4([4]byte{127, 1, byte(n >> 8), byte(n)})
	case strings.HasPrefix(t.Atom, "m4."):
		// an IPv4-mapped IPv6 address (what netip.AddrFromSlice gives for a 16-byte net.IP): an IPv6 address
		n, _ := strconv.Atoi(t.Atom[3:])
		var a [16]byte
		a[10], a[11] = 0xff, 0xff
		a[12], a[13], a[14], a[15] = 127, 1, byte(n>>8), byte(n)
		return netip.AddrFrom16(a)
	case strings.HasPrefix(t.Atom, "v6."):
		n, _ := strconv.Atoi(t.Atom[3:])
		var a [16]byte
		a[0] = 0xfd
		a[14], a[15] = byte(n>>8), byte(n)
		return netip.AddrFrom16(a)
	}
	panic("harness: bad address " + t.String())
}

func tAddr(a netip.Addr) T {
	switch {
	case !a.IsValid():
		return term.A("inv")
	case a.Is4():
		b := a.As4()
		return term.A(fmt.Sprintf("v4.%d", int(b[2])<<8|int(b[3])))
	case a.Is4In6():
		b := a.As16()
		return term.A(fmt.Sprintf("m4.%d", int(b[14])<<8|int(b[15])))
	default:
		b := a.As16()
		return term.A(fmt.Sprintf("v6.%d", int(b[14])<<8|int(b[15])))
	}
}

type nopPlugin struct{}

func (nopPlugin) GetCapabilities(bgp.PeerConfig) []bgp.Capability { return nil }
func (nopPlugin) OnOpenMessage(bgp.PeerConfig, netip.Addr, []bgp.Capability) *bgp.Notification {
	return nil
}
func (nopPlugin) OnEstablished(bgp.PeerConfig, bgp.UpdateMessageWriter) bgp.UpdateMessageHandler {
	return nil
}
func (nopPlugin) OnClose(bgp.PeerConfig) {}

// pCfg: cfg(remote,localAddr,localAS,remoteAS,holdSeconds,port,passive)
func pCfg(t T, forcePassive bool) (bgp.PeerConfig, []bgp.PeerOption) {
	las, _ := t.Args[2].Uint(32)
	ras, _ := t.Args[3].Uint(32)
	hold, _ := t.Args[4].Uint(16)
	port, _ := t.Args[5].Int()
	passive, _ := t.Args[6].Bool()
	c := bgp.PeerConfig{RemoteAddress: pAddr(t.Args[0]), LocalAS: uint32(las), RemoteAS: uint32(ras)}
	opts := []bgp.PeerOption{bgp.WithHoldTime(uint16(hold)), bgp.WithPort(port)}
	if la := pAddr(t.Args[1]); la.IsValid() {
		opts = append(opts, bgp.WithLocalAddress(la))
	}
	if passive || forcePassive {
		opts = append(opts, bgp.WithPassive())
	}
	return c, opts
}

func tCfgShort(c bgp.PeerConfig) T {
	return term.App("C", tAddr(c.RemoteAddress), term.N(uint64(c.LocalAS)), term.N(uint64(c.RemoteAS)))
}

func apiErr(err error) T {
	switch {
	case err == nil:
		return term.A("ok")
	case errors.Is(err, bgp.ErrPeerAlreadyExists):
		return term.A("exists")
	case errors.Is(err, bgp.ErrPeerNotExist):
		return term.A("notexist")
	case errors.Is(err, bgp.ErrServerClosed):
		return term.A("closed")
	}
	return term.A("invalid")
}

func init() {
	handlers["cfg"] = func(a []T) T {
		s, err := bgp.NewServer(pAddr(a[0]))
		if err != nil {
			return term.A("newserver-err")
		}
		c, opts := pCfg(a[1], false)
		if s.AddPeer(c, nopPlugin{}, opts...) != nil {
			return term.A("err")
		}
		return term.A("ok")
	}
	handlers["reg"] = func(a []T) T {
		s, err := bgp.NewServer(netip.MustParseAddr("10.9.9.9"))
		if err != nil {
			return term.A("newserver-err")
		}
		var out []T
		var lis net.Listener
		serveRet := make(chan error, 4)
		defer func() {
			s.Close()
			if lis != nil {
				lis.Close()
			}
		}()
		for _, op := range a[0].Args {
			switch op.Atom {
			case "add":
				c, opts := pCfg(op.Args[0], true)
				out = append(out, apiErr(s.AddPeer(c, nopPlugin{}, opts...)))
			case "del":
				out = append(out, apiErr(s.DeletePeer(pAddr(op.Args[0]))))
			case "get":
				c, err := s.GetPeer(pAddr(op.Args[0]))
				if err != nil {
					out = append(out, apiErr(err))
				} else {
					out = append(out, tCfgShort(c))
				}
			case "list":
				var l []T
				for _, c := range s.ListPeers() {
					l = append(l, tCfgShort(c))
				}
				sort.Slice(l, func(i, j int) bool { return l[i].String() < l[j].String() })
				out = append(out, term.L(l...))
			case "serve":
				l, err := net.Listen("tcp", "127.0.0.1:0")
				if err != nil {
					panic("harness: listen: " + err.Error())
				}
				go func() { serveRet <- s.Serve([]net.Listener{l}) }()
				// Serve is running once the listener accepts and (unknown peer) closes a connection,
				// or once it has returned
				res := term.A("?")
				select {
				case err := <-serveRet:
					res = apiErr(err)
					l.Close()
				case <-time.After(50 * time.Millisecond):
					c, err := net.DialTimeout("tcp", l.Addr().String(), time.Second)
					if err == nil {
						c.SetReadDeadline(time.Now().Add(2 * time.Second))
						io.ReadAll(c)
						c.Close()
						res = term.A("serving")
						lis = l
					} else {
						select {
						case err := <-serveRet:
							res = apiErr(err)
						case <-time.After(time.Second):
							res = term.A("stuck")
						}
						l.Close()
					}
				}
				out = append(out, res)
			case "close":
				s.Close()
				out = append(out, term.A("ok"))
			}
		}
		return term.L(out...)
	}
	// reglin serving [[op,…],…]: one goroutine per op list on one real Server, all released together.
	// Every call is stamped from one global counter before it is made and after it has returned
	// (so ret(a) < inv(b) implies a returned before b was called). Result: the history
	// [ev(tid,inv,ret,op,result),…]; the Lean side decides whether it is linearizable.
	handlers["reglin"] = func(a []T) T {
		serving, _ := a[0].Bool()
		s, err := bgp.NewServer(netip.MustParseAddr("10.9.9.9"))
		if err != nil {
			return term.A("newserver-err")
		}
		var lis net.Listener
		serveRet := make(chan error, 1)
		if serving {
			l, err := net.Listen("tcp", "127.0.0.1:0")
			if err != nil {
				panic("harness: listen: " + err.Error())
			}
			lis = l
			go func() { serveRet <- s.Serve([]net.Listener{l}) }()
			c, err := net.DialTimeout("tcp", l.Addr().String(), time.Second)
			if err == nil {
				c.SetReadDeadline(time.Now().Add(2 * time.Second))
				io.ReadAll(c)
				c.Close()
			}
		}
		defer func() {
			s.Close()
			if lis != nil {
				lis.Close()
			}
		}()
		var clock atomic.Uint64
		type ev struct {
			tid      int
			inv, ret uint64
			op, res  T
		}
		var mu sync.Mutex
		var hist []ev
		start := make(chan struct{})
		var wg sync.WaitGroup
		for tid, th := range a[1].Args {
			wg.Add(1)
			go func(tid int, ops []T) {
				defer wg.Done()
				<-start
				for _, op := range ops {
					var res T
					inv := clock.Add(1)
					switch op.Atom {
					case "add":
						c, opts := pCfg(op.Args[0], true)
						res = apiErr(s.AddPeer(c, nopPlugin{}, opts...))
					case "del":
						res = apiErr(s.DeletePeer(pAddr(op.Args[0])))
					case "get":
						c, err := s.GetPeer(pAddr(op.Args[0]))
						if err != nil {
							res = apiErr(err)
						} else {
							res = tCfgShort(c)
						}
					case "list":
						var l []T
						for _, c := range s.ListPeers() {
							l = append(l, tCfgShort(c))
						}
						sort.Slice(l, func(i, j int) bool { return l[i].String() < l[j].String() })
						res = term.L(l...)
					case "close":
						s.Close()
						res = term.A("ok")
					default:
						panic("harness: reglin op " + op.String())
					}
					ret := clock.Add(1)
					mu.Lock()
					hist = append(hist, ev{tid, inv, ret, op, res})
					mu.Unlock()
				}
			}(tid, th.Args)
		}
		close(start)
		wg.Wait()
		sort.Slice(hist, func(i, j int) bool { return hist[i].inv < hist[j].inv })
		out := make([]T, len(hist))
		for i, e := range hist {
			out[i] = term.App("ev", term.I(e.tid), term.N(e.inv), term.N(e.ret), e.op, e.res)
		}
		return term.L(out...)
	}
	handlers["backoff"] = func(a []T) T {
		var gaps []time.Duration
		for _, g := range a[0].Args {
			n, _ := g.Uint(32)
			gaps = append(gaps, time.Duration(n)*time.Second)
		}
		ds := bgp.VerifBackoff(gaps)
		out := make([]T, len(ds))
		for i, d := range ds {
			out[i] = term.N(uint64(d / time.Second))
		}
		return term.L(out...)
	}
	handlers["errhist"] = func(a []T) T {
		var kinds []string
		var gaps []time.Duration
		for _, e := range a[0].Args {
			kinds = append(kinds, e.Args[0].Atom)
			n, _ := e.Args[1].Uint(32)
			gaps = append(gaps, time.Duration(n)*time.Second)
		}
		ds := bgp.VerifErrorHistory(kinds, gaps)
		out := make([]T, len(ds))
		for i, d := range ds {
			out[i] = term.N(uint64(d / time.Second))
		}
		return term.L(out...)
	}
	handlers["herr"] = func(a []T) T {
		out, _ := a[2].Bool()
		damped, d := bgp.VerifHandleError(a[0].Atom, uint8(mustUint(a[1], 8)), 0, out)
		if damped {
			return term.App("damp", term.N(uint64(d/time.Second)))
		}
		return term.A("nodamp")
	}
}

// ---- generators ----

func genConfigGrid(g *gen) {
	kinds := []string{"inv", "v4.1", "v6.1", "m4.1"}
	for _, rid := range []string{"v4.9", "v6.9", "m4.9", "inv"} {
		for _, r := range kinds {
			for _, l := range kinds {
				for _, las := range []uint32{0, 1, 65535, 65536, 4294967295} {
					for _, ras := range []uint32{0, 1, 65536} {
						for _, hold := range []int{0, 1, 2, 3, 65535} {
							for _, port := range []int{-1, 0, 1, 179, 65535, 65536} {
								if rid != "v4.9" && (hold != 3 || port != 179 || las != 1) {
									continue
								}
								g.emit("cfg", term.A(rid), term.App("cfg", term.A(r), term.A(l), term.N(uint64(las)), term.N(uint64(ras)),
									term.I(hold), term.I(port), term.B(g.r.Intn(2) == 0)))
							}
						}
					}
				}
			}
		}
	}
}

func (g *gen) regCfg() T {
	k := pick(g, "v4.1", "v4.2", "v4.3", "v6.1", "v6.2", "m4.1", "m4.2")
	if g.r.Intn(12) == 0 {
		k = "inv"
	}
	las := uint64(1 + g.r.Intn(3))
	if g.r.Intn(10) == 0 {
		las = 0
	}
	ras := uint64(1 + g.r.Intn(3))
	if g.r.Intn(14) == 0 {
		ras = 0
	}
	l := "inv"
	if g.r.Intn(5) == 0 {
		l = pick(g, "v4.7", "v6.7")
	}
	hold := pick(g, 0, 3, 90, 90, 90, 1, 2)
	port := pick(g, 179, 179, 179, 1, 65535, 0, 65536)
	return term.App("cfg", term.A(k), term.A(l), term.N(las), term.N(ras), term.I(hold), term.I(port), term.B(true))
}

func genRegistrySeqs(g *gen) {
	// (m4.<n>: the IPv4-mapped IPv6 form of v4.<n> — another address, hence another key)
	keys := []string{"v4.1", "v4.2", "v4.3", "v6.1", "v6.2", "m4.1", "m4.2", "inv"}
	mk := func(withServe bool) T {
		n := 1 + g.r.Intn(12)
		var ops []T
		for i := 0; i < n; i++ {
			switch x := g.r.Intn(20); {
			case x < 8:
				ops = append(ops, term.App("add", g.regCfg()))
			case x < 12:
				ops = append(ops, term.App("del", term.A(pick(g, keys...))))
			case x < 15:
				ops = append(ops, term.App("get", term.A(pick(g, keys...))))
			case x < 18:
				ops = append(ops, term.A("list"))
			case x == 18 && withServe:
				ops = append(ops, term.A("serve"))
			case x == 19 && withServe:
				ops = append(ops, term.A("close"))
			default:
				ops = append(ops, term.A("list"))
			}
		}
		ops = append(ops, term.A("list"))
		return term.L(ops...)
	}
	for i := 0; i < g.scale(3000, 60000); i++ {
		g.emit("reg", mk(false))
	}
	// with Serve / Close: at most one successful serve per sequence (a second Serve on a running
	// server is outside the documented API)
	for i := 0; i < g.scale(150, 1500); i++ {
		ops := mk(true)
		served := false
		var fixed []T
		for _, o := range ops.Args {
			if o.Atom == "serve" {
				if served {
					continue
				}
				served = true
			}
			if o.Atom == "close" {
				served = true // a later serve returns closed immediately: fine
			}
			fixed = append(fixed, o)
		}
		g.emit("reg", term.L(fixed...))
	}
	// the canonical lifecycle cases
	g.emit("reg", term.L(term.A("close"), term.A("serve"), term.A("list")))
	g.emit("reg", term.L(term.App("add", g.regCfg()), term.A("serve"), term.App("add", g.regCfg()), term.A("list"), term.A("close"), term.A("serve"), term.A("list")))
}

// concurrent histories: 2–4 goroutines × 1–5 operations over a small key space (so that they
// collide), on a server that is serving (peers are started / stopped by the calls) or not
func genRegistryConcurrent(g *gen) {
	keys := []string{"v4.1", "v4.2", "v6.1", "m4.1"}
	cfgFor := func(k string) T {
		return term.App("cfg", term.A(k), term.A("inv"), term.N(uint64(1+g.r.Intn(2))), term.N(uint64(1+g.r.Intn(2))),
			term.I(pick(g, 90, 90, 0, 1)), term.I(179), term.B(true))
	}
	for i := 0; i < g.scale(400, 6000); i++ {
		nt := 2 + g.r.Intn(3)
		var ths []T
		closes := 0
		for t := 0; t < nt; t++ {
			n := 1 + g.r.Intn(5)
			if nt == 4 && n > 3 {
				n = 3
			}
			var ops []T
			for j := 0; j < n; j++ {
				switch x := g.r.Intn(20); {
				case x < 8:
					ops = append(ops, term.App("add", cfgFor(pick(g, keys...))))
				case x < 13:
					ops = append(ops, term.App("del", term.A(pick(g, keys...))))
				case x < 16:
					ops = append(ops, term.App("get", term.A(pick(g, keys...))))
				case x < 19 || closes > 0:
					ops = append(ops, term.A("list"))
				default:
					closes++
					ops = append(ops, term.A("close"))
				}
			}
			ths = append(ths, term.L(ops...))
		}
		g.emit("reglin", term.B(g.r.Intn(3) != 0), term.L(ths...))
	}
}

func genBackoff(g *gen) {
	gaps := []int{0, 1, 10, 100, 299, 300, 301, 1000}
	// exhaustive histories up to length 4 (quick: 3) over the gap alphabet
	maxLen := g.scale(3, 4)
	var rec func(cur []T)
	rec = func(cur []T) {
		if len(cur) > 0 {
			g.emit("backoff", term.L(cur...))
		}
		if len(cur) == maxLen+1 {
			return
		}
		for _, x := range gaps {
			if len(cur) == 0 && x != 0 {
				continue // the first gap is ignored
			}
			rec(append(append([]T(nil), cur...), term.I(x)))
		}
	}
	rec(nil)
	for i := 0; i < g.scale(300, 5000); i++ {
		n := 2 + g.r.Intn(12)
		l := []T{term.I(0)}
		for j := 1; j < n; j++ {
			l = append(l, term.I(pick(g, gaps...)))
		}
		g.emit("backoff", term.L(l...))
	}
	// histories that mix damping errors with Ceases and transport errors
	kinds := []string{"damp", "damp", "cease", "io"}
	hgaps := []int{0, 10, 100, 200, 250, 299, 300, 310}
	for i := 0; i < g.scale(1500, 30000); i++ {
		n := 2 + g.r.Intn(7)
		var evs []T
		for j := 0; j < n; j++ {
			k := pick(g, kinds...)
			if j == 0 && g.r.Intn(2) == 0 {
				k = "damp"
			}
			evs = append(evs, term.App("ev", term.A(k), term.I(pick(g, hgaps...))))
		}
		g.emit("errhist", term.L(evs...))
	}
	g.emit("errhist", term.L(term.App("ev", term.A("damp"), term.I(0)), term.App("ev", term.A("cease"), term.I(200)), term.App("ev", term.A("io"), term.I(50)), term.App("ev", term.A("damp"), term.I(60))))
	for code := 0; code < 256; code++ {
		for _, kind := range []string{"notif", "wrapped"} {
			for _, out := range []bool{true, false} {
				g.emit("herr", term.A(kind), term.I(code), term.B(out))
			}
		}
	}
	g.emit("herr", term.A("io"), term.I(0), term.B(false))
}

func init() {
	generators["C20"] = []func(*gen){genConfigGrid, genRegistrySeqs, genRegistryConcurrent}
	// one peer manager per configured peer (C01) rests on the registry refusing a second AddPeer of a present key
	generators["C01"] = []func(*gen){genRegistrySeqs}
	// C14: the router id the OPENs carry — NewServer takes IPv4 router ids only (an IPv4-mapped IPv6 address is not one)
	generators["C14"] = append(generators["C14"], func(g *gen) {
		for _, rid := range []string{"v4.9", "v6.9", "m4.9", "m4.1", "inv"} {
			g.emit("cfg", term.A(rid), term.App("cfg", term.A("v4.1"), term.A("inv"), term.N(1), term.N(1), term.I(90), term.I(179), term.B(true)))
		}
	})
	generators["C12"] = []func(*gen){genBackoff}
}
