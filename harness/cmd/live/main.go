// Command live is the live-session trace engine (DESIGN 7.2): it runs real corebgp through its
// public API on loopback TCP against a scripted remote BGP speaker, an instrumented plugin and
// SetLogger, and prints the recorded trace of every scenario for the Lean driver to check
// (trace inclusion in the model + monitors).
//
// The coordinator re-executes itself once per scenario (a panic in an FSM goroutine kills the
// process; the coordinator records that as part of the trace) and runs scenarios in parallel.
package main

import (
	"bufio"
	"bytes"
	"flag"
	"fmt"
	"math/rand"
	"os"
	"os/exec"
	"sort"
	"strings"
	"sync"
	"time"
)

// Scenario: a named, parameterised script. Spec strings are `family:arg1:arg2…`.
type scenarioFn func(e *Env, args []string, r *rand.Rand)

var families = map[string]scenarioFn{}

// generators list the scenario specs of a property for a tier.
var scenarioLists = map[string]func(tier string, r *rand.Rand) []string{}

func runOne(spec string, idx int, seed int64) int {
	parts := strings.Split(spec, ":")
	fn, ok := families[parts[0]]
	if !ok {
		fmt.Fprintf(os.Stderr, "live: unknown family %q\n", parts[0])
		return 2
	}
	localID := "10.0.0.100"
	for _, p := range parts[1:] {
		if strings.HasPrefix(p, "lid=") {
			localID = p[4:]
		}
	}
	e := newEnv(idx, localID)
	done := make(chan struct{})
	go func() {
		defer close(done)
		// a panic of the *script* (this goroutine) is a harness bug, not a crash of corebgp: say so
		defer func() {
			if r := recover(); r != nil {
				e.tr.log("-", "harness.bug", strings.ReplaceAll(fmt.Sprint(r), " ", "_"))
			}
		}()
		fn(e, parts[1:], rand.New(rand.NewSource(seed)))
	}()
	select {
	case <-done:
	case <-time.After(150 * time.Second):
		e.tr.log("-", "harness.timeout", "scenario_exceeded_150s")
	}
	return 0
}

func main() {
	prop := flag.String("prop", "", "property id")
	tier := flag.String("tier", "quick", "quick|thorough")
	seed := flag.Int64("seed", 1, "seed")
	one := flag.String("one", "", "run a single scenario spec in this process")
	idx := flag.Int("idx", 0, "scenario index (address space)")
	par := flag.Int("par", 8, "parallel scenarios")
	list := flag.Bool("list", false, "list scenario specs only")
	specsFile := flag.String("specs", "", "file with scenario specs to run (one per line) instead of the property's list")
	flag.Parse()
	if *one != "" {
		os.Exit(runOne(*one, *idx, *seed))
	}
	var specs []string
	if *specsFile != "" {
		b, err := os.ReadFile(*specsFile)
		if err != nil {
			fmt.Fprintln(os.Stderr, err)
			os.Exit(2)
		}
		for _, l := range strings.Split(string(b), "\n") {
			l = strings.TrimSpace(l)
			if l != "" && !strings.HasPrefix(l, "#") {
				specs = append(specs, l)
			}
		}
	} else {
		gen, ok := scenarioLists[*prop]
		if !ok {
			fmt.Fprintf(os.Stderr, "live: no scenarios for %q\n", *prop)
			os.Exit(2)
		}
		specs = gen(*tier, rand.New(rand.NewSource(*seed)))
	}
	// a scenario that several families contribute is run once
	{
		seen := map[string]bool{}
		var uniq []string
		for _, s := range specs {
			if !seen[s] {
				seen[s] = true
				uniq = append(uniq, s)
			}
		}
		specs = uniq
	}
	if *list {
		for _, s := range specs {
			fmt.Println(s)
		}
		return
	}
	type result struct {
		out    []byte
		stderr []byte
		code   int
	}
	results := make([]result, len(specs))
	sem := make(chan struct{}, *par)
	var wg sync.WaitGroup
	self, _ := os.Executable()
	for i, s := range specs {
		wg.Add(1)
		sem <- struct{}{}
		go func(i int, s string) {
			defer wg.Done()
			defer func() { <-sem }()
			cmd := exec.Command(self, "-one", s, "-idx", fmt.Sprint(i%4000), "-seed", fmt.Sprint(*seed*100003+int64(i)))
			var so, se bytes.Buffer
			cmd.Stdout, cmd.Stderr = &so, &se
			err := cmd.Run()
			code := 0
			if err != nil {
				code = 1
				if ee, ok := err.(*exec.ExitError); ok {
					code = ee.ExitCode()
				}
			}
			results[i] = result{so.Bytes(), se.Bytes(), code}
		}(i, s)
	}
	wg.Wait()
	w := bufio.NewWriterSize(os.Stdout, 1<<20)
	defer w.Flush()
	for i, s := range specs {
		fmt.Fprintf(w, "# scenario %s\n", s)
		w.Write(results[i].out)
		// race detector reports (only in a -race build): one event per report, with the two access sites
		for _, rep := range strings.Split(string(results[i].stderr), "WARNING: DATA RACE")[1:] {
			var sites []string
			lines := strings.Split(rep, "\n")
			for k, l := range lines {
				t := strings.TrimSpace(l)
				if (strings.HasPrefix(t, "Write at") || strings.HasPrefix(t, "Read at") || strings.HasPrefix(t, "Previous write at") || strings.HasPrefix(t, "Previous read at")) && k+2 < len(lines) {
					fn := strings.TrimSpace(lines[k+1])
					loc := strings.TrimSpace(lines[k+2])
					if j := strings.LastIndex(loc, "/"); j >= 0 {
						loc = loc[j+1:]
					}
					if j := strings.Index(loc, " "); j >= 0 {
						loc = loc[:j]
					}
					if j := strings.LastIndex(fn, "/"); j >= 0 {
						fn = fn[j+1:]
					}
					sites = append(sites, strings.Fields(t)[0]+"@"+strings.TrimSuffix(fn, "()")+"@"+loc)
				}
			}
			fmt.Fprintf(w, "999998 0 - race %s\n", strings.Join(sites, ";"))
		}
		if results[i].code != 0 && !strings.Contains(string(results[i].stderr), "WARNING: DATA RACE") {
			// the child died: keep the panic headline for the replay
			head := ""
			for _, l := range strings.Split(string(results[i].stderr), "\n") {
				if strings.HasPrefix(l, "panic:") || strings.HasPrefix(l, "fatal error:") || strings.Contains(l, "[signal") {
					head += strings.ReplaceAll(strings.TrimSpace(l), " ", "_") + ";"
				}
			}
			if head == "" {
				head = "exit"
			}
			fmt.Fprintf(w, "999999 0 - crash %d %s\n", results[i].code, head)
		}
		fmt.Fprintf(w, "# end\n")
	}
}

func sortedKeys[M ~map[string]V, V any](m M) []string {
	var ks []string
	for k := range m {
		ks = append(ks, k)
	}
	sort.Strings(ks)
	return ks
}
