package main

import (
	"fmt"
	"math/rand"
	"net"
	"strings"
	"sync"
	"time"

	bgp "github.com/jwhited/corebgp"
	"verif/harness/wire"
)

func tag(c *Conn) wire.Cap { return wire.Cap{Code: 77, Val: []byte(c.id)} }

// ---------------------------------------------------------------- C04: writers

// writers:<dir>:k=<writers>:n=<bodies each>:end=<cease|fin|close|none>:inside=<0|1>:re=<0|1>
func scenWriters(e *Env, args []string, r *rand.Rand) {
	dir := args[0]
	m := argMap(args)
	k, n := atoi(m["k"], 4), atoi(m["n"], 20)
	rhold := uint16(atoi(m["rhold"], 3))
	p := e.addPeer(1, PeerOpts{LocalAS: localAS, RemoteAS: remoteAS, Hold: 3, Passive: dir == "in", IdleHold: 50 * time.Millisecond,
		SmallSndBuf: m["stall"] != ""})
	mk := func(w, i int) []byte {
		l := r.Intn(40)
		switch r.Intn(10) {
		case 0:
			l = 0
		case 1:
			l = 4077 - 3
		case 2:
			l = 500 + r.Intn(3000)
		}
		if m["big"] == "1" && l < 1021 {
			l = 1021 + r.Intn(3000)
		}
		b := make([]byte, 3+l)
		r.Read(b)
		b[0], b[1], b[2] = byte(w), byte(i>>8), byte(i)
		return b
	}
	for w := 0; w < k; w++ {
		var bodies [][]byte
		for i := 0; i < n; i++ {
			b := mk(w, i)
			if m["lens"] == "sweep" {
				// every body length from 3 upwards in turn (plus the largest ones at the end)
				l := 3 + i
				if i >= n-3 {
					l = 4077 - (n - 1 - i)
				}
				b = make([]byte, l)
				r.Read(b)
				b[0], b[1], b[2] = byte(w), byte(i>>8), byte(i)
			}
			bodies = append(bodies, b)
		}
		p.plugin.Writers = append(p.plugin.Writers, bodies)
	}
	if d := atoi(m["estdelay"], 0); d > 0 {
		// OnEstablished takes longer than a keepalive interval before it writes
		p.plugin.EstDelay = time.Duration(d) * time.Millisecond
		p.plugin.HandlerDelay = time.Duration(d) * time.Millisecond
	}
	if m["inside"] == "1" {
		p.plugin.WriteInEstablished = [][]byte{mk(100, 0)[:3], append(mk(100, 1)[:3], 1, 2, 3)}
		p.plugin.WriteInHandler = [][]byte{mk(101, 0)[:3]}
	}
	if m["pause"] != "" {
		p.plugin.WriterPause = time.Duration(atoi(m["pause"], 0)) * time.Millisecond
	}
	if m["end"] == "veto" {
		p.plugin.HandlerVeto = 1
		p.plugin.VetoNotif = &bgp.Notification{Code: 3, Subcode: 9, Data: []byte{7, 7}}
	}
	p.plugin.WriteEmpty = m["empty"] == "1"
	if m["adv"] == "1" && dir == "in" {
		e.serveAdversary()
	} else {
		e.serve()
	}
	c := p.bring(dir, "established", rhold, remoteID)
	if c != nil {
		if m["inside"] == "1" {
			c.send(wire.Update([]byte{0, 0, 0, 0})) // triggers the handler, which writes
		}
		// let the writers run (keepalives interleave every second with hold time 3)
		wait := time.Duration(atoi(m["ms"], 300)) * time.Millisecond
		if st := atoi(m["stall"], 0); st > 0 {
			// the remote stops reading for a while (but keeps sending KEEPALIVEs): writers block in the middle of a
			// message; when it reads again the stream is still a sequence of whole messages
			c.smallWindow()
			c.pauseReads(time.Duration(st) * time.Millisecond)
			if ca := atoi(m["ceaseat"], 0); ca > 0 {
				// a Cease arrives while the writers are blocked by the remote's full window: the session is torn down
				// (the blocked writers fail), OnClose follows, the connection is closed
				time.Sleep(time.Duration(ca) * time.Millisecond)
				c.send(wire.Notification(6, 2, nil))
				p.waitEv(0, stepWait, "cb.exit", "OnClose")
				// now the remote reads again and sees the connection end
				c.resumeReads()
				c.waitEnd(stepWait)
				e.close()
				p.plugin.waitWriters(2 * time.Second)
				return
			}
			for t := 0; t < st; t += 700 {
				time.Sleep(700 * time.Millisecond)
				c.send(wire.Keepalive())
			}
			wait = 300 * time.Millisecond
		}
		if m["end"] == "rst-busy" {
			// the connection is reset while the FSM goroutine is busy in the handler (the session is formally still
			// up): a WriteUpdate issued well after the reset must report the failure
			p.plugin.HandlerDelay = 200 * time.Millisecond
			time.Sleep(wait)
			c.send(wire.Update([]byte{0, 0, 0, 0}))
			p.waitEv(0, stepWait, "cb.enter", "handler")
			c.reset()
			time.Sleep(30 * time.Millisecond)
			p.plugin.mu.Lock()
			w, wid := p.plugin.lastW, fmt.Sprintf("w%d", p.plugin.writerSeq)
			p.plugin.mu.Unlock()
			if w != nil {
				for k := 0; k < 3; k++ {
					p.plugin.write(w, wid, []byte{201, 0, byte(k)})
				}
			}
			p.waitEv(0, stepWait, "cb.exit", "OnClose")
			wait = 0
		}
		time.Sleep(wait)
		p.mark = e.tr.len()
		switch m["end"] {
		case "cease":
			c.send(wire.Notification(6, 2, nil))
			c.waitEnd(stepWait)
		case "fin":
			c.drainClose()
		case "fsmerr":
			c.send(wire.Open(remoteAS, 3, remoteID))
			c.waitEnd(stepWait)
		case "veto":
			// the handler answers an UPDATE with a NOTIFICATION while the writers are busy
			c.send(wire.Update([]byte{9, 9, 9, 9}))
			c.waitEnd(stepWait)
		}
		if m["end"] != "" && m["end"] != "none" && m["end"] != "close" {
			if m["end"] != "rst-busy" {
				p.waitEv(p.mark, stepWait, "cb.exit", "OnClose")
			}
			// the old writer must now fail and must not reach any later connection
			p.plugin.mu.Lock()
			w, wid := p.plugin.lastW, fmt.Sprintf("w%d", p.plugin.writerSeq)
			p.plugin.mu.Unlock()
			if w != nil {
				p.plugin.write(w, wid, []byte{200, 0, 0})
			}
			if m["re"] == "1" && dir == "out" && m["end"] != "fsmerr" {
				p.plugin.Writers = nil
				c2 := p.bring(dir, "established", 3, remoteID)
				if c2 != nil && w != nil {
					p.plugin.write(w, wid, []byte{200, 0, 1})
					time.Sleep(20 * time.Millisecond)
				}
			}
		}
	}
	e.close()
	p.plugin.waitWriters(2 * time.Second)
	p.plugin.mu.Lock()
	w, wid := p.plugin.lastW, fmt.Sprintf("w%d", p.plugin.writerSeq)
	p.plugin.mu.Unlock()
	if w != nil {
		p.plugin.write(w, wid, []byte{200, 0, 2})
	}
}

// ---------------------------------------------------------------- C06: hold time and keepalives

// hold:<dir>:l=<local>:r=<remote>:pat=<silent|ka|upd|late|writes>:ms=<observation window>
func scenHold(e *Env, args []string, r *rand.Rand) {
	dir := args[0]
	m := argMap(args)
	l, rh := uint16(atoi(m["l"], 3)), uint16(atoi(m["r"], 3))
	window := time.Duration(atoi(m["ms"], 4500)) * time.Millisecond
	ihold := 30 * time.Second
	if m["r1"] != "" {
		ihold = 50 * time.Millisecond
	}
	p := e.addPeer(1, PeerOpts{LocalAS: localAS, RemoteAS: remoteAS, Hold: l, Passive: dir == "in", IdleHold: ihold})
	if m["pat"] == "slowupd" {
		p.plugin.HandlerDelay = 600 * time.Millisecond
	}
	if m["pat"] == "onewrite" {
		// one writer: waits for the first periodic KEEPALIVE interval to pass, then writes once
		p.plugin.Writers = [][][]byte{{{0, 0, 1}}}
		p.plugin.WriterStart = time.Duration(l)*time.Second/3 + 100*time.Millisecond
		if rh := uint16(atoi(m["r"], 3)); rh < l && rh != 0 {
			p.plugin.WriterStart = time.Duration(rh)*time.Second/3 + 100*time.Millisecond
		}
	}
	if m["pat"] == "writes" {
		var bodies [][]byte
		for i := 0; i < 200; i++ {
			bodies = append(bodies, []byte{0, byte(i >> 8), byte(i)})
		}
		p.plugin.Writers = [][][]byte{bodies}
		p.plugin.WriterPause = 150 * time.Millisecond
	}
	e.serve()
	st := "established"
	if m["st"] != "" {
		st = m["st"]
	}
	if m["r1"] != "" {
		// r1=<hold>: an earlier session on the same peer (for dir=out: on the same FSM object) negotiated another
		// hold time and was ended by the remote closing the connection; what follows is judged on the next session
		c0 := p.bring(dir, "established", uint16(atoi(m["r1"], 9)), remoteID)
		if c0 != nil {
			time.Sleep(20 * time.Millisecond)
			c0.fin()
			c0.waitEnd(stepWait)
			p.waitEv(0, stepWait, "cb.exit", "OnClose")
		}
		p.mark = e.tr.len()
	}
	c := p.bring(dir, st, rh, remoteID)
	if c != nil {
		neg := l
		if rh < l {
			neg = rh
		}
		deadline := time.Now().Add(window)
		switch m["pat"] {
		case "silent", "writes":
			// nothing is sent; the session must expire at hold (if non-zero) and not before
			for time.Now().Before(deadline) {
				c.mu.Lock()
				ended := c.ended
				c.mu.Unlock()
				if ended != "" {
					break
				}
				time.Sleep(5 * time.Millisecond)
			}
		case "ka", "upd":
			gap := time.Duration(neg) * time.Second / 3
			if neg == 0 {
				gap = time.Second
			}
			for time.Now().Before(deadline) {
				if m["pat"] == "ka" {
					c.send(wire.Keepalive())
				} else {
					c.send(wire.Update([]byte{0, 0, 0, 0}))
				}
				time.Sleep(gap)
			}
		case "onewrite":
			// a single WriteUpdate shortly after a periodic KEEPALIVE, nothing else: the next KEEPALIVE is due one
			// interval after that write
			for time.Now().Before(deadline) {
				time.Sleep(5 * time.Millisecond)
			}
		case "kaupdsilent":
			// a KEEPALIVE, an UPDATE 0.8 s later, then silence: expiry one hold time after the UPDATE, not earlier
			time.Sleep(200 * time.Millisecond)
			c.send(wire.Keepalive())
			time.Sleep(800 * time.Millisecond)
			c.send(wire.Update([]byte{0, 0, 0, 0}))
			for time.Now().Before(deadline) {
				c.mu.Lock()
				ended := c.ended
				c.mu.Unlock()
				if ended != "" {
					break
				}
				time.Sleep(5 * time.Millisecond)
			}
		case "updsilent":
			// one UPDATE, then silence: the session expires one hold time after that UPDATE, not later
			time.Sleep(300 * time.Millisecond)
			c.send(wire.Update([]byte{0, 0, 0, 0}))
			for time.Now().Before(deadline) {
				c.mu.Lock()
				ended := c.ended
				c.mu.Unlock()
				if ended != "" {
					break
				}
				time.Sleep(5 * time.Millisecond)
			}
		case "slowupd":
			// an UPDATE arrives shortly before the hold timer would expire and its handler runs past that instant;
			// the message restarted the timer, so nothing expires as long as KEEPALIVEs follow in time
			time.Sleep(time.Duration(neg)*time.Second - 300*time.Millisecond)
			c.send(wire.Update([]byte{0, 0, 0, 0}))
			for time.Now().Before(deadline) {
				time.Sleep(time.Duration(neg) * time.Second / 3)
				c.send(wire.Keepalive())
			}
		case "late":
			// a message just before each expiry keeps the session alive
			gap := time.Duration(neg)*time.Second - 250*time.Millisecond
			for time.Now().Before(deadline) {
				time.Sleep(gap)
				if r.Intn(2) == 0 {
					c.send(wire.Keepalive())
				} else {
					c.send(wire.Update([]byte{0, 0, 0, 0}))
				}
			}
		}
	}
	if lg := atoi(m["linger"], 0); lg > 0 {
		// the remote keeps its side open for a while after the session was expired: corebgp has closed the connection
		// and told the plugin (OnClose) on its own, not only when it is stopped
		time.Sleep(time.Duration(lg) * time.Millisecond)
	}
	e.close()
	p.plugin.waitWriters(2 * time.Second)
}

// ---------------------------------------------------------------- C07: collision

// collision:lid=<local id>:ras=<remote AS>:first=<out|in>:then=<ka-survivor|ka-loser-early|none>
// remote id is 10.0.0.200; local AS 65001.
func scenCollision(e *Env, args []string, r *rand.Rand) {
	m := argMap(args)
	ras := uint32(atoi(m["ras"], remoteAS))
	ihold := 5 * time.Second
	if m["redial"] == "1" {
		ihold = 40 * time.Millisecond
	}
	p := e.addPeer(1, PeerOpts{LocalAS: localAS, RemoteAS: ras, Hold: 90, IdleHold: ihold})
	e.serve()
	out := p.remote.accept(stepWait)
	if out == nil || len(out.waitMsgs(1, stepWait)) < 1 {
		e.close()
		return
	}
	p.waitEv(0, stepWait, "log.t", "out", "*", "openSent")
	if m["redial"] == "1" {
		// the outbound connection of the collision is not the FSM's first: an earlier attempt got as far as OpenSent and
		// was hung up on by the remote
		from := e.tr.len()
		out.fin()
		out.waitEnd(stepWait)
		p.waitEv(from, stepWait, "log.t", "out", "openSent", "*")
		p.mark = e.tr.len()
		out = p.remote.accept(stepWait)
		if out == nil || len(out.waitMsgs(1, stepWait)) < 1 {
			e.close()
			return
		}
		p.waitEv(p.mark, stepWait, "log.t", "out", "*", "openSent")
	}
	rid := uint32(remoteID)
	if m["rid"] != "" {
		a := net.ParseIP(m["rid"]).To4()
		rid = uint32(a[0])<<24 | uint32(a[1])<<16 | uint32(a[2])<<8 | uint32(a[3])
	}
	open := func(c *Conn) []byte { return wire.Open(ras, 90, rid, tag(c)) }
	late := m["late"] == "1" && m["first"] == "out"
	if late {
		// the remote's connection arrives only after the outbound one has completed its OPEN exchange
		out.send(open(out))
		out.waitMsgs(2, stepWait)
		p.waitEv(0, stepWait, "log.t", "out", "openSent", "openConfirm")
	}
	if m["prefail"] == "1" {
		// an earlier inbound connection fails before it completes its OPEN exchange
		in0 := p.remote.dial()
		if in0 != nil && len(in0.waitMsgs(1, stepWait)) >= 1 {
			p.waitEv(0, stepWait, "log.t", "in", "*", "openSent")
			from := e.tr.len()
			in0.fin()
			in0.waitEnd(stepWait)
			p.waitEv(from, stepWait, "log.t", "in", "openSent", "*")
			time.Sleep(5 * time.Millisecond)
		}
		p.mark = e.tr.len()
	}
	if late || m["prefail"] == "1" {
		// judged by the admission monitor too: nothing is in progress inbound and the outbound connection is not
		// Established, so this connection must be served
		e.tr.log(p.key, "probe", "known", p.addr.String(), "127.0.0.1")
	}
	in := p.remote.dial()
	if in == nil || len(in.waitMsgs(1, stepWait)) < 1 {
		e.close()
		return
	}
	p.waitEv(p.mark, stepWait, "log.t", "in", "*", "openSent")
	conns := map[string]*Conn{"out": out, "in": in}
	first, second := conns[m["first"]], conns[other(m["first"])]
	if !late {
		first.send(open(first))
		first.waitMsgs(2, stepWait)
		p.waitEv(0, stepWait, "log.t", m["first"], "openSent", "openConfirm")
	}
	if m["then"] == "established-first" {
		// the first connection becomes Established before the second completes its OPEN exchange
		first.send(wire.Keepalive())
		p.waitEv(0, stepWait, "cb.exit", "OnEstablished")
		second.send(open(second))
		second.waitEnd(stepWait)
		first.send(wire.Update([]byte{0, 0, 0, 1}))
		p.waitEv(0, stepWait, "cb.exit", "handler")
		e.close()
		return
	}
	if m["remotecease"] == "1" {
		// the remote decides first: it closes the connection initiated by the non-dominant speaker with Cease/7 and
		// completes the handshake on the other; corebgp neither damps nor loses the surviving connection
		localID := e.localID.As4()
		lid := uint32(localID[0])<<24 | uint32(localID[1])<<16 | uint32(localID[2])<<8 | uint32(localID[3])
		loserC, winnerC := out, in // remote dominant: its own connection (inbound for corebgp) survives
		if lid > rid {
			loserC, winnerC = in, out
		}
		loserC.send(wire.Notification(6, 7, nil))
		loserC.waitEnd(stepWait)
		if winnerC == second {
			second.send(open(second))
			second.waitMsgs(2, stepWait)
		}
		winnerC.send(wire.Keepalive())
		if p.waitEv(0, stepWait, "cb.exit", "OnEstablished") >= 0 {
			winnerC.send(wire.Update([]byte{0, 0, 0, 7}))
			p.waitEv(0, stepWait, "cb.exit", "handler")
		}
		e.close()
		return
	}
	second.send(open(second))
	// resolution: exactly one of them is closed
	deadline := time.Now().Add(stepWait)
	var loser, survivor *Conn
	for time.Now().Before(deadline) && loser == nil {
		for _, c := range []*Conn{first, second} {
			c.mu.Lock()
			if c.ended != "" {
				loser = c
			}
			c.mu.Unlock()
		}
		time.Sleep(200 * time.Microsecond)
	}
	if loser == nil {
		e.fail("collision not resolved: neither connection was closed")
	} else {
		survivor = first
		if loser == first {
			survivor = second
		}
		time.Sleep(5 * time.Millisecond)
		survivor.send(wire.Keepalive())
		if p.waitEv(0, stepWait, "cb.exit", "OnEstablished") >= 0 {
			survivor.send(wire.Update([]byte{0, 0, 0, 2}))
			p.waitEv(0, stepWait, "cb.exit", "handler")
		}
	}
	e.close()
}

func other(d string) string {
	if d == "out" {
		return "in"
	}
	return "out"
}

// collision-window:<ka|fin|none>:lid=…  — the manager is held right before the collision `select` while the
// other FSM is driven to request Established (ka) or to fail (fin); both outcomes of the select are legal.
func scenCollisionWindow(e *Env, args []string, r *rand.Rand) {
	variant := args[0]
	if variant == "est-window" {
		// the outbound connection asks for Established while an inbound FSM has just been created and has not had its
		// first transition served (held at its request point): the inbound one is stopped, the Established session stays
		p := e.addPeer(1, PeerOpts{LocalAS: localAS, RemoteAS: remoteAS, Hold: 90, IdleHold: 5 * time.Second})
		e.serve()
		out := p.bring("out", "openConfirm", 90, remoteID)
		if out == nil {
			e.close()
			return
		}
		release := e.hold("fsm.request#in")
		in := p.remote.dial()
		if e.tr.wait(0, stepWait, func(ev Event) bool { return ev.Ev == "pt.reached" && ev.Args[0] == "fsm.request#in" }) < 0 {
			e.fail("fsm.request#in not reached")
		}
		out.send(wire.Keepalive())
		time.Sleep(20 * time.Millisecond)
		release()
		p.waitEv(0, stepWait, "cb.exit", "OnEstablished")
		if in != nil {
			// whatever becomes of the inbound connection, it must not replace the Established session
			if len(in.waitMsgs(1, 100*time.Millisecond)) >= 1 {
				in.send(wire.Open(remoteAS, 90, remoteID, tag(in)))
				in.waitMsgs(2, 100*time.Millisecond)
				in.send(wire.Keepalive())
			}
		}
		time.Sleep(30 * time.Millisecond)
		out.send(wire.Update([]byte{0, 0, 0, 5}))
		p.waitEv(0, stepWait, "cb.exit", "handler")
		e.close()
		return
	}
	p := e.addPeer(1, PeerOpts{LocalAS: localAS, RemoteAS: remoteAS, Hold: 90, IdleHold: 5 * time.Second})
	e.serve()
	out := p.remote.accept(stepWait)
	if out == nil || len(out.waitMsgs(1, stepWait)) < 1 {
		e.close()
		return
	}
	p.waitEv(0, stepWait, "log.t", "out", "*", "openSent")
	in := p.remote.dial()
	if in == nil || len(in.waitMsgs(1, stepWait)) < 1 {
		e.close()
		return
	}
	p.waitEv(0, stepWait, "log.t", "in", "*", "openSent")
	// local id must dominate for the select to be reached: the remote uses a lower id
	rid := uint32(0x0a000001)
	in.send(wire.Open(remoteAS, 90, rid, tag(in)))
	in.waitMsgs(2, stepWait)
	p.waitEv(0, stepWait, "log.t", "in", "openSent", "openConfirm")
	if variant == "loser-down" {
		// the connection that is about to lose goes down on its own (the remote closes it); its error has been taken by
		// the manager and its request to leave OpenConfirm is pending (held) when the winner asks for OpenConfirm: whichever
		// case of the collision select fires, the winner continues
		rel := e.hold("fsm.request#in")
		in.fin()
		if e.tr.wait(0, stepWait, func(ev Event) bool { return ev.Ev == "pt.reached" && ev.Args[0] == "fsm.request#in" }) < 0 {
			e.fail("fsm.request#in not reached")
		}
		out.send(wire.Open(remoteAS, 90, rid, tag(out)))
		time.Sleep(15 * time.Millisecond)
		rel()
		out.waitMsgs(2, stepWait)
		time.Sleep(10 * time.Millisecond)
		out.send(wire.Keepalive())
		if p.waitEv(0, stepWait, "cb.exit", "OnEstablished") >= 0 {
			out.send(wire.Update([]byte{0, 0, 0, 6}))
			p.waitEv(0, stepWait, "cb.exit", "handler")
		}
		e.close()
		return
	}
	release := e.hold("collision.select")
	out.send(wire.Open(remoteAS, 90, rid, tag(out)))
	if e.tr.wait(0, stepWait, func(ev Event) bool { return ev.Ev == "pt.reached" && ev.Args[0] == "collision.select" }) < 0 {
		e.fail("collision.select not reached")
	}
	switch variant {
	case "ka":
		in.send(wire.Keepalive())
	case "fin":
		in.drainClose()
	case "fsmerr":
		in.send(wire.Update([]byte{0, 0, 0, 0}))
	case "est-window":
		// handled below (different set-up)
	case "queued-close", "queued-delete", "queued-slow":
		// a further connection arrives while the manager is busy and the peer is stopped before the manager gets
		// back to its loop: the connection must not be left open (whether it is served depends on what the manager
		// finds when it gets to it, so the admission monitor is not asked)
		in2 := p.remote.dial()
		time.Sleep(5 * time.Millisecond)
		done := make(chan struct{})
		go func() {
			if variant == "queued-slow" {
				time.Sleep(1400 * time.Millisecond)
			}
			if variant == "queued-delete" {
				p.delete()
			}
			e.close()
			close(done)
		}()
		if variant == "queued-slow" {
			// the manager stays busy for more than a second: the waiting connection is still handed over (or closed)
			time.Sleep(1300 * time.Millisecond)
		} else {
			time.Sleep(10 * time.Millisecond)
		}
		release()
		<-done
		_ = in2
		return
	}
	time.Sleep(time.Duration(r.Intn(3000)) * time.Microsecond)
	release()
	if variant == "ka" {
		// the other connection became Established while the manager was at the collision select: from now on the
		// peer has a session, and a further inbound connection is refused
		// (only if it did: the select may as well have killed it)
		if e.tr.wait(0, 150*time.Millisecond, func(ev Event) bool { return ev.Peer == p.key && ev.Ev == "cb.exit" && ev.Args[0] == "OnEstablished" }) >= 0 {
			time.Sleep(10 * time.Millisecond)
			e.tr.log(p.key, "probe", "busy", p.addr.String(), "127.0.0.1")
			if pr := p.remote.dial(); pr != nil {
				pr.waitMsgs(1, 100*time.Millisecond)
				pr.waitEnd(stepWait)
			}
		}
	}
	// afterwards: whichever survived completes the handshake
	time.Sleep(20 * time.Millisecond)
	for _, c := range []*Conn{out, in} {
		c.mu.Lock()
		alive := c.ended == "" && !c.closed
		c.mu.Unlock()
		if alive {
			c.send(wire.Keepalive())
		}
	}
	time.Sleep(20 * time.Millisecond)
	e.close()
}

// ---------------------------------------------------------------- C10: shutdown at every point

// shutdown:<api>:<point>[:dir=<out|in>]
// points: idle (refused, waiting for idle hold), connect-refused, openSent, openConfirm, established,
// collision (both connections in OpenSent/OpenConfirm), damped, writers, twopeers
func scenShutdown(e *Env, args []string, r *rand.Rand) {
	api, point := args[0], args[1]
	m := argMap(args)
	dir := m["dir"]
	if dir == "" {
		dir = "out"
	}
	stop := func(p *Peer) {
		if api == "delete" {
			p.delete()
			time.Sleep(5 * time.Millisecond)
		}
		e.close()
	}
	switch point {
	case "dial-window":
		// the dial completes successfully while the FSM is being closed (held at the schedule point
		// between DialContext returning and the result hand-off)
		p := e.addPeer(1, PeerOpts{LocalAS: localAS, RemoteAS: remoteAS, Hold: 90})
		release := e.hold("dial.done")
		e.serve()
		i := e.tr.wait(0, stepWait, func(ev Event) bool { return ev.Ev == "pt.reached" && ev.Args[0] == "dial.done" })
		if i < 0 {
			e.fail("dial.done not reached")
		}
		go func() { time.Sleep(10 * time.Millisecond); release() }()
		stop(p)
		release()
	case "request-window":
		// the stop lands after a state function has returned its next state and before the peer manager
		// accepts the transition request (held at the schedule point in front of the request)
		p := e.addPeer(1, PeerOpts{LocalAS: localAS, RemoteAS: remoteAS, Hold: 90, Passive: dir == "in"})
		e.serve()
		st := m["st"]
		c := p.bring(dir, st, 90, remoteID)
		if c != nil {
			release := e.hold("fsm.request")
			if st == "openSent" {
				c.send(wire.Open(remoteAS, 90, remoteID, tag(c)))
			} else {
				c.send(wire.Keepalive())
			}
			if e.tr.wait(0, stepWait, func(ev Event) bool { return ev.Ev == "pt.reached" && ev.Args[0] == "fsm.request" }) < 0 {
				e.fail("fsm.request not reached")
			}
			go func() { time.Sleep(10 * time.Millisecond); release() }()
			stop(p)
			release()
		}
	case "second-in-window":
		// a second inbound connection arrives while the FSM created for the first has not had its first transition
		// served yet (held at the request point): it is refused like any connection that arrives while one is in progress
		p := e.addPeer(1, PeerOpts{LocalAS: localAS, RemoteAS: remoteAS, Hold: 90, Passive: true})
		e.serve()
		release := e.hold("fsm.request")
		e.tr.log(p.key, "probe", "known", p.addr.String(), "127.0.0.1")
		a := p.remote.dial()
		if e.tr.wait(0, stepWait, func(ev Event) bool { return ev.Ev == "pt.reached" && ev.Args[0] == "fsm.request" }) < 0 {
			e.fail("fsm.request not reached")
		}
		e.tr.log(p.key, "probe", "busy", p.addr.String(), "127.0.0.1")
		b := p.remote.dial()
		if b != nil {
			b.waitMsgs(1, 100*time.Millisecond)
		}
		release()
		if a != nil {
			a.waitMsgs(1, stepWait)
			a.send(wire.Open(remoteAS, 90, remoteID, tag(a)))
			a.waitMsgs(2, stepWait)
			a.send(wire.Keepalive())
			p.waitEv(0, stepWait, "cb.exit", "OnEstablished")
		}
		stop(p)
	case "second-inbound":
		// a second inbound connection from the same peer arrives while the first is in progress
		p := e.addPeer(1, PeerOpts{LocalAS: localAS, RemoteAS: remoteAS, Hold: 90, Passive: true})
		e.serve()
		a := p.bring("in", m["st"], 90, remoteID)
		b := p.remote.dial()
		if b != nil {
			b.waitMsgs(1, 100*time.Millisecond)
		}
		_ = a
		stop(p)
	case "in-callback":
		// the stop arrives while OnOpenMessage is running
		p := e.addPeer(1, PeerOpts{LocalAS: localAS, RemoteAS: remoteAS, Hold: 90, Passive: dir == "in"})
		p.plugin.OpenDelay = 30 * time.Millisecond
		e.serve()
		c := p.bring(dir, "openSent", 90, remoteID)
		if c != nil {
			c.send(wire.Open(remoteAS, 90, remoteID, tag(c)))
			p.waitEv(0, stepWait, "cb.enter", "OnOpenMessage")
			stop(p)
		}
	case "in-callback-veto":
		// the stop arrives while a callback is running that is about to refuse (OnOpenMessage answering with a
		// NOTIFICATION, or the UPDATE handler): the FSM comes back with an error while the manager is already stopping it
		p := e.addPeer(1, PeerOpts{LocalAS: localAS, RemoteAS: remoteAS, Hold: 90, Passive: dir == "in"})
		if m["st"] == "established" {
			p.plugin.HandlerDelay = 120 * time.Millisecond
			p.plugin.HandlerVeto = 1
			p.plugin.VetoNotif = &bgp.Notification{Code: 3, Subcode: 9, Data: []byte{7}}
		} else {
			p.plugin.OpenDelay = 120 * time.Millisecond
			p.plugin.OpenVeto = &bgp.Notification{Code: 2, Subcode: 0}
		}
		e.serve()
		if m["st"] == "established" {
			c := p.bring(dir, "established", 90, remoteID)
			if c != nil {
				c.send(wire.Update([]byte{0, 0, 0, 0}))
				p.waitEv(0, stepWait, "cb.enter", "handler")
				time.Sleep(time.Duration(atoi(m["at"], 60)) * time.Millisecond)
				stop(p)
			}
		} else {
			c := p.bring(dir, "openSent", 90, remoteID)
			if c != nil {
				c.send(wire.Open(remoteAS, 90, remoteID, tag(c)))
				p.waitEv(0, stepWait, "cb.enter", "OnOpenMessage")
				time.Sleep(time.Duration(atoi(m["at"], 60)) * time.Millisecond)
				stop(p)
			}
		}
	case "listener-error":
		// the listener fails under Serve: Serve returns that error after stopping every peer (like Close)
		p := e.addPeer(1, PeerOpts{LocalAS: localAS, RemoteAS: remoteAS, Hold: 90, Passive: dir == "in"})
		e.serve()
		p.bring(dir, m["st"], 90, remoteID)
		e.tr.log("-", "api.call", "ListenerClose")
		e.lis.Close()
		select {
		case <-e.serveCh:
		case <-time.After(5 * time.Second):
			e.tr.log("-", "api.hang", "Serve")
		}
		e.serveCh = nil
		e.settle()
		// a later Serve / Close on the stopped server
		err := e.srv.Serve(nil)
		e.tr.log("-", "api.ret", "Serve2", errName(err))
		e.close()
	case "idle":
		p := e.addPeer(1, PeerOpts{LocalAS: localAS, RemoteAS: remoteAS, Hold: 90, NoListen: true, IdleHold: 2 * time.Second})
		e.serve()
		p.waitEv(0, stepWait, "log.t", "out", "connect", "idle")
		stop(p)
	case "before-serve":
		p := e.addPeer(1, PeerOpts{LocalAS: localAS, RemoteAS: remoteAS, Hold: 90})
		stop(p)
	case "damped":
		p := e.addPeer(1, PeerOpts{LocalAS: localAS, RemoteAS: remoteAS, Hold: 90, Passive: dir == "in"})
		e.serve()
		c := p.bring(dir, "openSent", 90, remoteID)
		c.send(wire.Keepalive()) // FSM error: damps
		c.waitEnd(stepWait)
		p.waitEv(0, stepWait, "log.damp")
		stop(p)
	case "collision":
		p := e.addPeer(1, PeerOpts{LocalAS: localAS, RemoteAS: remoteAS, Hold: 90})
		e.serve()
		out := p.remote.accept(stepWait)
		out.waitMsgs(1, stepWait)
		p.waitEv(0, stepWait, "log.t", "out", "*", "openSent")
		in := p.remote.dial()
		in.waitMsgs(1, stepWait)
		p.waitEv(0, stepWait, "log.t", "in", "*", "openSent")
		if m["oc"] == "1" {
			out.send(wire.Open(remoteAS, 90, remoteID, tag(out)))
			out.waitMsgs(2, stepWait)
			p.waitEv(0, stepWait, "log.t", "out", "openSent", "openConfirm")
		}
		stop(p)
	case "writers":
		p := e.addPeer(1, PeerOpts{LocalAS: localAS, RemoteAS: remoteAS, Hold: 90, Passive: dir == "in"})
		for w := 0; w < 4; w++ {
			var bodies [][]byte
			for i := 0; i < 2000; i++ {
				bodies = append(bodies, []byte{byte(w), byte(i >> 8), byte(i)})
			}
			p.plugin.Writers = append(p.plugin.Writers, bodies)
		}
		e.serve()
		p.bring(dir, "established", 90, remoteID)
		time.Sleep(time.Duration(r.Intn(5)) * time.Millisecond)
		stop(p)
		p.plugin.wg.Wait()
	case "twopeers":
		p1 := e.addPeer(1, PeerOpts{LocalAS: localAS, RemoteAS: remoteAS, Hold: 90})
		p2 := e.addPeer(2, PeerOpts{LocalAS: localAS, RemoteAS: remoteAS, Hold: 90, Passive: true})
		e.serve()
		p1.bring("out", "established", 90, remoteID)
		c2 := p2.bring("in", "openConfirm", 90, remoteID)
		if api == "delete" {
			p1.delete()
			// the other peer is unaffected: it can still establish
			c2.send(wire.Keepalive())
			p2.waitEv(0, stepWait, "cb.exit", "OnEstablished")
		}
		e.close()
	case "slow-handler":
		// the stop arrives while the UPDATE handler is busy for longer than any internal patience: Close / DeletePeer
		// still wait for the session to be torn down (OnClose delivered, Cease sent) before they return
		p := e.addPeer(1, PeerOpts{LocalAS: localAS, RemoteAS: remoteAS, Hold: 90, Passive: dir == "in"})
		p.plugin.HandlerDelay = 3600 * time.Millisecond
		e.serve()
		c := p.bring(dir, "established", 90, remoteID)
		if c != nil {
			c.send(wire.Update([]byte{0, 0, 0, 0}))
			p.waitEv(0, stepWait, "cb.enter", "handler")
			stop(p)
		}
	case "listeners":
		// Serve on three listeners: Close ends all accept loops and returns
		p := e.addPeer(1, PeerOpts{LocalAS: localAS, RemoteAS: remoteAS, Hold: 90, Passive: dir == "in"})
		e.serveN(3)
		p.bring(dir, "established", 90, remoteID)
		stop(p)
	case "manypeers":
		// five peers with connections in different states; every one of them is stopped by Close
		var ps []*Peer
		for k := 1; k <= 5; k++ {
			ps = append(ps, e.addPeer(k, PeerOpts{LocalAS: localAS, RemoteAS: remoteAS, Hold: 90, Passive: k != 1}))
		}
		e.serve()
		for k, p := range ps {
			d := "in"
			if k == 0 {
				d = "out"
			}
			p.bring(d, []string{"established", "openConfirm", "established", "openSent", "established"}[k], 90, remoteID)
		}
		if api == "delete" {
			ps[2].delete()
		}
		e.close()
	default: // openSent, openConfirm, established
		o := PeerOpts{LocalAS: localAS, RemoteAS: remoteAS, Hold: 90, Passive: dir == "in"}
		if m["second"] != "" {
			o.IdleHold = 50 * time.Millisecond
		}
		p := e.addPeer(1, o)
		e.serve()
		if m["second"] != "" {
			// second=<state>: an earlier connection of the same peer (dir=out: of the same FSM object) got as far as
			// <state> and was closed by the remote; the stop hits the connection after it
			c0 := p.bring(dir, m["second"], 90, remoteID)
			if c0 != nil {
				from := e.tr.len()
				c0.fin()
				c0.waitEnd(stepWait)
				p.waitEv(from, stepWait, "log.t", dir, m["second"], "*")
				time.Sleep(2 * time.Millisecond)
			}
			p.mark = e.tr.len()
		}
		p.bring(dir, point, uint16(atoi(m["rhold"], 90)), remoteID)
		if d := atoi(m["us"], 0); d > 0 {
			time.Sleep(time.Duration(r.Intn(d)) * time.Microsecond)
		}
		stop(p)
	}
}

// ---------------------------------------------------------------- C11: reconnection and pacing

// reconnect:<faults joined by +>:ih=<idle hold ms>:cr=<connect retry ms>[:passive]
// faults: refuse | close@<state> | reset@<state> | cease@<state> | stall
func scenReconnect(e *Env, args []string, r *rand.Rand) {
	m := argMap(args)
	ih := time.Duration(atoi(m["ih"], 100)) * time.Millisecond
	cr := time.Duration(atoi(m["cr"], 500)) * time.Millisecond
	passive := false
	for _, a := range args {
		passive = passive || a == "passive"
	}
	faults := strings.Split(args[0], "+")
	p := e.addPeer(1, PeerOpts{LocalAS: localAS, RemoteAS: remoteAS, Hold: 90, IdleHold: ih, ConnectRetry: cr, Passive: passive,
		NoListen: faults[0] == "refuse" || faults[0] == "stall"})
	var endStall func()
	if faults[0] == "stall" {
		endStall = p.remote.stall() // peers only start at Serve: the stall is in place before the first dial
	}
	preServe := e.tr.len()
	e.serve()
	if passive {
		// a passive peer never dials; an inbound session works, and after it ends the next one is admitted
		time.Sleep(3 * ih)
		c := p.bring("in", "established", 90, remoteID)
		c.send(wire.Notification(6, 2, nil))
		c.waitEnd(stepWait)
		p.waitEv(0, stepWait, "cb.exit", "OnClose")
		p.mark = e.tr.len()
		p.bring("in", "established", 90, remoteID)
		e.close()
		return
	}
	faultMark := preServe
	for _, f := range faults {
		// events of the next connection are looked for from the moment the previous fault was injected (corebgp may
		// reconnect at once: the idle-hold time counts from the previous exit from Idle)
		p.mark = e.tr.len()
		if faultMark >= 0 {
			p.mark = faultMark
			faultMark = -1
		}
		switch {
		case f == "refuse":
			p.remote.unlisten()
			// a connection corebgp made at once after the previous fault, before the listener went away, is reset
			for drained := false; !drained; {
				select {
				case c0 := <-p.remote.accCh:
					c0.reset()
				case <-time.After(5 * time.Millisecond):
					drained = true
				}
			}
			// three refused attempts: their spacing is what C11 is about
			from := e.tr.len()
			for k := 0; k < 3; k++ {
				i := p.waitEv(from, ih*3+stepWait, "dial")
				if i < 0 {
					break
				}
				from = i + 1
			}
			time.Sleep(ih / 2)
		case f == "dialrace":
			// the dial succeeds at the very moment the connect-retry timer expires (the dialler is held between
			// DialContext returning and the hand-off of its result until the timer has fired): the established
			// connection is used (or at least closed), never dropped on the floor
			if p.remote.lis == nil {
				p.remote.listen()
			}
			release := e.hold("dial.done")
			if e.tr.wait(p.mark, ih*3+stepWait, func(ev Event) bool { return ev.Ev == "pt.reached" && ev.Args[0] == "dial.done" }) < 0 {
				e.fail("dial.done not reached")
			}
			time.Sleep(cr + 30*time.Millisecond)
			faultMark = e.tr.len()
			release()
		case f == "stall":
			// connects hang (SYNs dropped): each expired connect-retry timer must abandon the pending attempt
			// and start a new one
			if endStall == nil {
				p.remote.unlisten()
				endStall = p.remote.stall()
			}
			from := p.mark
			for k := 0; k < 4; k++ {
				i := p.waitEv(from, cr*3+stepWait, "dial")
				if i < 0 {
					break
				}
				from = i + 1
			}
			e.tr.log(p.key, "stall-end")
			endStall()
			endStall = nil
		default:
			kind, state, _ := strings.Cut(f, "@")
			if p.remote.lis == nil {
				p.remote.listen()
			}
			c := p.bring("out", state, 90, remoteID)
			if c == nil {
				continue
			}
			faultMark = e.tr.len()
			switch kind {
			case "close":
				c.drainClose()
			case "reset":
				c.reset()
			case "cease":
				c.send(wire.Notification(6, 4, nil))
				c.waitEnd(stepWait)
			}
			if state == "established" {
				p.waitEv(p.mark, stepWait, "cb.exit", "OnClose")
			}
		}
	}
	// from now on the remote is well-behaved: the session must come up
	p.mark = e.tr.len()
	if faultMark >= 0 {
		p.mark = faultMark
	}
	e.tr.log(p.key, "wellbehaved")
	if p.remote.lis == nil {
		p.remote.listen()
	}
	p.bring("out", "established", 90, remoteID)
	e.close()
}

// inbound-resume: an inbound session ends; the peer resumes dialling at once and accepts a new inbound
func scenInboundResume(e *Env, args []string, r *rand.Rand) {
	// inbound-resume[:st=<state>][:passive=1]: an inbound connection is ended by a Cease from the remote in <state>;
	// an active peer dials again at once, and the next inbound connection is admitted
	m := argMap(args)
	st := m["st"]
	if st == "" {
		st = "established"
	}
	passive := m["passive"] == "1"
	p := e.addPeer(1, PeerOpts{LocalAS: localAS, RemoteAS: remoteAS, Hold: 90, IdleHold: 300 * time.Millisecond, NoListen: true, Passive: passive})
	e.serve()
	c := p.bring("in", st, 90, remoteID)
	if c != nil {
		from := e.tr.len()
		c.send(wire.Notification(6, 2, nil))
		c.waitEnd(stepWait)
		if st == "established" {
			p.waitEv(0, stepWait, "cb.exit", "OnClose")
		} else {
			p.waitEv(from, stepWait, "log.t", "in", st, "*")
			time.Sleep(5 * time.Millisecond)
		}
		p.mark = e.tr.len()
		e.tr.log(p.key, "inbound-ended")
		if !passive {
			p.waitEv(p.mark, 2*time.Second, "dial")
		}
		if m["next"] == "out" {
			// the next session is an outbound one: the remote starts listening now
			p.remote.listen()
			p.bring("out", "established", 90, remoteID)
		} else {
			e.tr.log(p.key, "probe", "known", p.addr.String(), "127.0.0.1")
			p.bring("in", "established", 90, remoteID)
		}
	}
	e.close()
}

// ---------------------------------------------------------------- C12: damping

// damping:<dir>:<state>:<how>   how: sent.<stimulus> (corebgp sends a NOTIFICATION) | rcvd.<code> | cease | fin | rst
func scenDamping(e *Env, args []string, r *rand.Rand) {
	dir, state, how := args[0], args[1], args[2]
	m := argMap(args)
	p := e.addPeer(1, PeerOpts{LocalAS: localAS, RemoteAS: remoteAS, Hold: 90, IdleHold: 100 * time.Millisecond, ConnectRetry: 300 * time.Millisecond, Passive: dir == "in"})
	if d := atoi(m["slowerr"], 0); d > 0 {
		// the Logger is slow on the line handleError prints first: the manager is busy handling the error for that
		// long, and the remote reconnects at once meanwhile
		e.errLogDelay = time.Duration(d) * time.Millisecond
	}
	e.serve()
	c := p.bring(dir, state, 90, remoteID)
	if c == nil {
		e.close()
		return
	}
	if m["slowerr"] != "" {
		c.send(wire.Notification(3, 1, nil))
		time.Sleep(5 * time.Millisecond)
		// arrives while the error is being handled: it is dealt with once the peer is in hold-down, i.e. refused
		if early := p.remote.dial(); early != nil {
			early.waitMsgs(1, 200*time.Millisecond)
			time.Sleep(20 * time.Millisecond)
			early.drainClose()
		}
		c.waitEnd(stepWait)
		e.tr.log(p.key, "fault-done")
		time.Sleep(200 * time.Millisecond)
		e.close()
		return
	}
	switch {
	case strings.HasPrefix(how, "sentopen."):
		// an OPEN that fails validation (NOTIFICATION code 2 sent): a protocol error like any other
		c.send(wire.Header(1, openVariant(how[9:], 0)))
		c.waitEnd(stepWait)
	case strings.HasPrefix(how, "sent."):
		c.send(stimulus(how[5:], r))
		c.waitEnd(stepWait)
	case strings.HasPrefix(how, "rcvd."):
		// rcvd.<code>[.<subcode>]
		cs := strings.Split(how[5:], ".")
		sub := 1
		if len(cs) > 1 {
			sub = atoi(cs[1], 1)
		}
		c.send(wire.Notification(uint8(atoi(cs[0], 3)), uint8(sub), nil))
		c.waitEnd(stepWait)
	case how == "cease":
		c.send(wire.Notification(6, 2, nil))
		c.waitEnd(stepWait)
	case strings.HasPrefix(how, "rcvdcease."):
		// a received Cease never damps, whatever its subcode (RFC 4486)
		c.send(wire.Notification(6, uint8(atoi(how[10:], 0)), nil))
		c.waitEnd(stepWait)
	case how == "fin-midbody":
		// the stream ends inside a message: a transport failure like any other
		b := wire.Update([]byte{1, 2, 3, 4, 5, 6, 7, 8})
		c.send(b[:23])
		c.fin()
		c.waitEnd(stepWait)
	case how == "fin-midheader":
		b := wire.Update([]byte{1, 2, 3, 4, 5, 6, 7, 8})
		c.send(b[:7])
		c.fin()
		c.waitEnd(stepWait)
	case how == "fin":
		c.drainClose()
	case how == "rst":
		c.reset()
	}
	e.tr.log(p.key, "fault-done")
	// observe: either a hold-down (no dial, inbound refused) or a prompt retry
	wait := time.Duration(atoi(m["ms"], 1500)) * time.Millisecond
	time.Sleep(wait / 3)
	probe := p.remote.dial()
	if probe != nil {
		probe.waitMsgs(1, 300*time.Millisecond)
		time.Sleep(50 * time.Millisecond)
		probe.drainClose()
	}
	time.Sleep(wait - wait/3)
	// expire=<n>: n times over, the hold-down period ends (the timer is made to fire now through the verif hook), the
	// peer is retried and establishes again, and the same fault strikes again: the hold-downs follow the back-off ladder
	for round := atoi(m["expire"], 0); round > 0; round-- {
		p.mark = e.tr.len()
		e.tr.log(p.key, "hook.expire")
		bgp.VerifExpireStartupDelay(e.srv, p.addr)
		time.Sleep(20 * time.Millisecond)
		if dir == "in" {
			e.tr.log(p.key, "probe", "known", p.addr.String(), "127.0.0.1")
		}
		c2 := p.bring(dir, "established", 90, remoteID)
		if c2 == nil {
			break
		}
		c2.send(wire.Update([]byte{0, 0, 0, 9}))
		p.waitEv(p.mark, stepWait, "cb.exit", "handler")
		if round > 1 {
			switch {
			case strings.HasPrefix(how, "sent."):
				c2.send(stimulus(how[5:], r))
			default:
				c2.send(wire.Notification(uint8(atoi(strings.Split(strings.TrimPrefix(how, "rcvd."), ".")[0], 3)), 1, nil))
			}
			c2.waitEnd(stepWait)
			p.waitEv(p.mark, stepWait, "log.damp")
			// an inbound connection during this (second, third, …) hold-down is refused like during the first
			time.Sleep(50 * time.Millisecond)
			if pr := p.remote.dial(); pr != nil {
				pr.waitMsgs(1, 100*time.Millisecond)
				pr.drainClose()
			}
			time.Sleep(50 * time.Millisecond)
		}
	}
	e.close()
}

// damping-both:<how>  — a protocol error on the outbound connection while an inbound FSM has just been
// created and its first transition has not been served yet (held at the request schedule point)
func scenDampingBoth(e *Env, args []string, r *rand.Rand) {
	p := e.addPeer(1, PeerOpts{LocalAS: localAS, RemoteAS: remoteAS, Hold: 90, IdleHold: 100 * time.Millisecond})
	e.serve()
	out := p.bring("out", "openSent", 90, remoteID)
	if out == nil {
		e.close()
		return
	}
	release := e.hold("fsm.request")
	in := p.remote.dial()
	if e.tr.wait(0, stepWait, func(ev Event) bool { return ev.Ev == "pt.reached" && ev.Args[0] == "fsm.request" }) < 0 {
		e.fail("fsm.request not reached")
	}
	out.send(stimulus(args[0], r))
	out.waitEnd(stepWait)
	time.Sleep(10 * time.Millisecond)
	release()
	e.tr.log(p.key, "fault-done")
	if in != nil {
		in.waitMsgs(1, 300*time.Millisecond)
	}
	time.Sleep(300 * time.Millisecond)
	e.close()
}

// ---------------------------------------------------------------- C13: admission

// admission:<case>
func scenAdmission(e *Env, args []string, r *rand.Rand) {
	kase := args[0]
	withLocal := strings.Contains(kase, "local")
	lo := ""
	if withLocal {
		lo = "127.0.0.1"
	}
	if strings.Contains(kase, "unspeclocal") {
		// the unspecified address IS a configured local address: no connection's destination equals it
		lo = "0.0.0.0"
	}
	p1 := e.addPeer(1, PeerOpts{LocalAS: localAS, RemoteAS: remoteAS, Hold: 90, Passive: true, LocalAddr: lo})
	p2 := e.addPeer(2, PeerOpts{LocalAS: localAS, RemoteAS: remoteAS, Hold: 90, Passive: true})
	if strings.HasSuffix(kase, "prequeued") {
		// two connections from the same peer are already in the accept queue when Serve starts
		l, err := net.Listen("tcp", "127.0.0.1:0")
		if err != nil {
			panic(err)
		}
		e.lisAddr = l.Addr().String()
		e.tr.log(p1.key, "probe", "known", p1.addr.String(), "127.0.0.1")
		a := p1.remote.dial()
		e.tr.log(p1.key, "probe", "busy", p1.addr.String(), "127.0.0.1")
		b := p1.remote.dial()
		e.lis = l
		e.serveCh = make(chan error, 1)
		e.tr.log("-", "api.call", "Serve")
		go func() {
			err := e.srv.Serve([]net.Listener{l})
			e.tr.log("-", "api.ret", "Serve", errName(err))
			e.serveCh <- err
		}()
		for _, c := range []*Conn{a, b} {
			if c != nil {
				c.waitMsgs(1, 150*time.Millisecond)
			}
		}
		time.Sleep(50 * time.Millisecond)
		e.close()
		return
	}
	if strings.HasSuffix(kase, "multi-wrong-dst") {
		// two listeners bound to specific addresses; the peer is configured with local address 127.0.0.1: a connection
		// that arrives on the other listener (127.0.0.3) is closed unserved, one on 127.0.0.1 is served
		var ls []net.Listener
		for _, a := range []string{"127.0.0.1:0", "127.0.0.3:0"} {
			l, err := net.Listen("tcp", a)
			if err != nil {
				panic(err)
			}
			ls = append(ls, l)
		}
		e.lis = ls[0]
		e.lisAddr = ls[0].Addr().String()
		e.serveCh = make(chan error, 1)
		e.tr.log("-", "api.call", "Serve")
		go func() {
			err := e.srv.Serve(ls)
			e.tr.log("-", "api.ret", "Serve", errName(err))
			e.serveCh <- err
		}()
		e.tr.log(p1.key, "probe", "wrongdst", p1.addr.String(), "127.0.0.3")
		if c := p1.remote.dialFrom(p1.addr.String(), ls[1].Addr().String()); c != nil {
			c.waitMsgs(1, 150*time.Millisecond)
			c.waitEnd(stepWait)
		}
		e.tr.log(p1.key, "probe", "known", p1.addr.String(), "127.0.0.1")
		if c := p1.remote.dialFrom(p1.addr.String(), ls[0].Addr().String()); c != nil {
			c.waitMsgs(1, 300*time.Millisecond)
		}
		e.close()
		ls[1].Close()
		return
	}
	if strings.HasPrefix(kase, "wild") {
		e.serveOn("0.0.0.0:0")
	} else {
		e.serve()
	}
	_, port, _ := net.SplitHostPort(e.lisAddr)
	// an existing session that must not be affected
	c2 := p2.bring("in", "established", 90, remoteID)
	probe := func(src, dst string, label string) *Conn {
		e.tr.log(p1.key, "probe", label, src, dst)
		c := p1.remote.dialFrom(src, net.JoinHostPort(dst, port))
		if c != nil {
			c.waitMsgs(1, 150*time.Millisecond)
		}
		return c
	}
	switch {
	case strings.HasSuffix(kase, "unknown-src"):
		c := probe(e.peerAddr(99).String(), "127.0.0.1", "unknown")
		c.waitEnd(stepWait)
	case strings.HasSuffix(kase, "known"):
		c := probe(p1.addr.String(), "127.0.0.1", "known")
		if c != nil {
			time.Sleep(20 * time.Millisecond)
		}
	case strings.HasSuffix(kase, "wrong-dst"):
		// the peer has local address 127.0.0.1 configured; connect to other loopback addresses, including
		// ones whose text merely starts with the configured one
		for _, dst := range []string{"127.0.0.9", "127.0.0.10", "127.0.0.117", "127.0.0.2"} {
			c := probe(p1.addr.String(), dst, "wrongdst")
			c.waitEnd(stepWait)
		}
	case strings.HasSuffix(kase, "unspec-dst"):
		c := probe(p1.addr.String(), "127.0.0.1", "wrongdst")
		c.waitEnd(stepWait)
	case strings.HasSuffix(kase, "multi-wrong-dst"):
		// handled before Serve (needs its own listeners)
	case strings.HasSuffix(kase, "second-inbound"):
		a := probe(p1.addr.String(), "127.0.0.1", "known")
		p1.waitEv(0, stepWait, "log.t", "in", "*", "openSent")
		b := probe(p1.addr.String(), "127.0.0.1", "busy")
		b.waitEnd(stepWait)
		a.send(wire.Open(remoteAS, 90, remoteID, tag(a)))
		a.waitMsgs(2, stepWait)
	case strings.HasSuffix(kase, "while-established"):
		a := p1.bring("in", "established", 90, remoteID)
		b := probe(p1.addr.String(), "127.0.0.1", "busy")
		b.waitEnd(stepWait)
		a.send(wire.Update([]byte{0, 0, 0, 3}))
		p1.waitEv(0, stepWait, "cb.exit", "handler")
	case strings.HasSuffix(kase, "held-down"):
		a := p1.bring("in", "openSent", 90, remoteID)
		a.send(wire.Keepalive())
		a.waitEnd(stepWait)
		p1.waitEv(0, stepWait, "log.damp")
		b := probe(p1.addr.String(), "127.0.0.1", "busy")
		b.waitEnd(stepWait)
	}
	// the unrelated session is still alive
	if c2 != nil {
		c2.send(wire.Update([]byte{0, 0, 0, 9}))
		p2.waitEv(0, stepWait, "cb.enter", "handler", "*", "00000009")
	}
	e.close()
}

// inbound-fin:<passive|active> — the remote closes an inbound connection right after corebgp's OPEN, before
// sending its own: the inbound FSM must go away (a passive peer must not dial) and the next inbound
// connection must be served
func scenInboundFin(e *Env, args []string, r *rand.Rand) {
	passive := args[0] == "passive"
	p := e.addPeer(1, PeerOpts{LocalAS: localAS, RemoteAS: remoteAS, Hold: 90, IdleHold: 100 * time.Millisecond, ConnectRetry: 200 * time.Millisecond,
		Passive: passive, NoListen: true})
	e.serve()
	c := p.bring("in", "openSent", 90, remoteID)
	if c != nil {
		c.drainClose()
		time.Sleep(350 * time.Millisecond) // longer than connect-retry
		p.mark = e.tr.len()
		e.tr.log(p.key, "probe", "known", p.addr.String(), "127.0.0.1")
		c2 := p.remote.dial()
		if c2 != nil {
			c2.waitMsgs(1, stepWait)
		}
	}
	e.close()
}

// api-race:<delete-close|delete-delete|delete-add> — API calls racing with a slow teardown
func scenAPIRace(e *Env, args []string, r *rand.Rand) {
	p := e.addPeer(1, PeerOpts{LocalAS: localAS, RemoteAS: remoteAS, Hold: 90, IdleHold: 20 * time.Millisecond})
	p.plugin.CloseDelay = 60 * time.Millisecond
	if args[0] == "close-add-window" || args[0] == "close-delete-window" {
		// the call lands after Close has told the server to stop and before Serve's tear-down has taken the lock (the
		// listener takes 200 ms to close): the server is still serving, so an added peer is started — and then stopped by
		// the tear-down —, a deleted peer is stopped; Close returns, nothing is left running
		e.serveSlowClose(200 * time.Millisecond)
		c := p.bring("out", "established", 90, remoteID)
		done := make(chan struct{}, 1)
		go func() {
			time.Sleep(60 * time.Millisecond)
			if args[0] == "close-add-window" {
				e.addPeer(2, PeerOpts{LocalAS: localAS, RemoteAS: remoteAS, Hold: 90, IdleHold: 20 * time.Millisecond})
			} else {
				p.delete()
			}
			done <- struct{}{}
		}()
		e.close()
		<-done
		_ = c
		time.Sleep(60 * time.Millisecond)
		ng, where := corebgpGoroutinesInfo()
		e.tr.log("-", "goroutines", fmt.Sprint(ng), strings.ReplaceAll(where, " ", "_"))
		return
	}
	e.serve()
	c := p.bring("out", "established", 90, remoteID)
	if c == nil {
		e.close()
		return
	}
	if args[0] == "poll" {
		// read-only calls (ListPeers, GetPeer) from two goroutines while another adds and deletes a second peer and the
		// server is serving: meant for the race detector (every registry access is under the server's lock)
		stopPoll := make(chan struct{})
		var wg sync.WaitGroup
		for k := 0; k < 2; k++ {
			wg.Add(1)
			go func() {
				defer wg.Done()
				for {
					select {
					case <-stopPoll:
						return
					default:
					}
					_ = e.srv.ListPeers()
					_, _ = e.srv.GetPeer(p.addr)
				}
			}()
		}
		for k := 0; k < 15; k++ {
			q := e.addPeer(2, PeerOpts{LocalAS: localAS, RemoteAS: remoteAS, Hold: 90, Passive: true})
			time.Sleep(2 * time.Millisecond)
			q.delete()
		}
		close(stopPoll)
		wg.Wait()
		e.close()
		return
	}
	done := make(chan struct{}, 2)
	if args[0] == "add-add" {
		// the same peer is added by several callers at once while the server is serving and the remote answers every
		// connection: one call succeeds, and there is never more than one session for the peer
		p.delete()
		time.Sleep(20 * time.Millisecond)
		p.mark = e.tr.len()
		var wg sync.WaitGroup
		var okOnce sync.Once
		e.tr.log(p.key, "api.call", "AddPeer2")
		for k := 0; k < 6; k++ {
			wg.Add(1)
			go func() {
				defer wg.Done()
				err := e.srv.AddPeer(p.cfg, p.plugin, bgp.WithPort(p.port), bgp.WithIdleHoldTime(20*time.Millisecond))
				name := "AddPeerN"
				if err == nil {
					// (a second success is logged as AddPeerN ok: the registry monitor counts it)
					okOnce.Do(func() { name = "AddPeer2" })
				}
				e.tr.log(p.key, "api.ret", name, errName(err))
			}()
		}
		wg.Wait()
		for k := 0; k < 3; k++ {
			var c2 *Conn
			select {
			case c2 = <-p.remote.accCh:
			case <-time.After(300 * time.Millisecond):
			}
			if c2 == nil {
				break
			}
			go func(c2 *Conn) {
				if len(c2.waitMsgs(1, 300*time.Millisecond)) >= 1 {
					c2.send(wire.Open(remoteAS, 90, remoteID, tag(c2)))
					c2.waitMsgs(2, 300*time.Millisecond)
					c2.send(wire.Keepalive())
				}
			}(c2)
		}
		time.Sleep(150 * time.Millisecond)
		e.close()
		return
	}
	if args[0] == "close-add" {
		// AddPeer lands while Close is tearing the first peer down (its OnClose takes 60 ms): whatever the order,
		// nothing of the new peer may be running once Close and AddPeer have both returned
		go func() {
			time.Sleep(5 * time.Millisecond)
			e.addPeer(2, PeerOpts{LocalAS: localAS, RemoteAS: remoteAS, Hold: 90, IdleHold: 20 * time.Millisecond})
			done <- struct{}{}
		}()
		e.close()
		<-done
		time.Sleep(60 * time.Millisecond)
		e.tr.log("-", "goroutines", fmt.Sprint(corebgpGoroutines()))
		return
	}
	go func() { p.delete(); done <- struct{}{} }()
	time.Sleep(5 * time.Millisecond)
	switch args[0] {
	case "delete-close":
		e.close()
		<-done
		return
	case "delete-delete":
		go func() { p.delete(); done <- struct{}{} }()
		<-done
		<-done
	case "delete-add":
		// re-adding the same peer while it is being deleted: either refused (still present) or accepted after
		// the old one is gone — never two sessions at once
		e.tr.log(p.key, "api.call", "AddPeer2")
		err := e.srv.AddPeer(p.cfg, p.plugin, bgp.WithPort(p.port), bgp.WithIdleHoldTime(20*time.Millisecond))
		e.tr.log(p.key, "api.ret", "AddPeer2", errName(err))
		<-done
		if err == nil {
			p.mark = e.tr.len()
			if c2 := p.remote.accept(stepWait); c2 != nil {
				c2.waitMsgs(1, stepWait)
			}
		}
	}
	e.close()
}

// open-caps — the plugin keeps one capability slice and updates it in place; the outbound FSM reconnects
// several times: every OPEN must carry what GetCapabilities returned for that connection
func scenOpenCaps(e *Env, args []string, r *rand.Rand) {
	if args[0] == "concurrent" {
		// OPENs of several peers (different AS, different capabilities) are in flight at the same time: each connection
		// carries its own peer's OPEN
		var ps []*Peer
		for k := 1; k <= 4; k++ {
			p := e.addPeer(k, PeerOpts{LocalAS: uint32(localAS + 1000*k), RemoteAS: remoteAS, Hold: uint16(30 * k), Passive: true})
			val := make([]byte, 3+7*k)
			for i := range val {
				val[i] = byte(16*k + i)
			}
			p.plugin.Caps = []bgp.Capability{{Code: uint8(100 + k), Value: val}}
			ps = append(ps, p)
		}
		e.serveAdv(true)
		var wg sync.WaitGroup
		for _, p := range ps {
			wg.Add(1)
			go func(p *Peer) {
				defer wg.Done()
				if c := p.remote.dial(); c != nil {
					c.waitMsgs(1, stepWait)
				}
			}(p)
		}
		wg.Wait()
		time.Sleep(10 * time.Millisecond)
		e.close()
		return
	}
	p := e.addPeer(1, PeerOpts{LocalAS: localAS, RemoteAS: remoteAS, Hold: 90, IdleHold: 30 * time.Millisecond, ConnectRetry: 200 * time.Millisecond})
	p.plugin.Caps = []bgp.Capability{{Code: 64, Value: []byte{0x02, 0x00, 0x70}}, {Code: 2, Value: nil}}
	p.plugin.MutateCaps = args[0] == "mutate"
	e.serve()
	for k := 0; k < 4; k++ {
		c := p.remote.accept(stepWait)
		if c == nil {
			break
		}
		c.waitMsgs(1, stepWait)
		time.Sleep(2 * time.Millisecond)
		c.drainClose()
	}
	e.close()
}

// fuzz:<dir>:<state>:k=<n> — a well-formed prefix followed by mutated / random bytes at a given state; afterwards
// another configured peer must still establish and Close must return (C05)
func scenFuzz(e *Env, args []string, r *rand.Rand) {
	dir, state := args[0], args[1]
	p1 := e.addPeer(1, PeerOpts{LocalAS: localAS, RemoteAS: remoteAS, Hold: 90, Passive: dir == "in", IdleHold: 5 * time.Second})
	p2 := e.addPeer(2, PeerOpts{LocalAS: localAS, RemoteAS: remoteAS, Hold: 90, Passive: true})
	e.serve()
	c := p1.bring(dir, state, 90, remoteID)
	if c != nil {
		var b []byte
		// some valid messages first
		for k := r.Intn(3); k > 0; k-- {
			if state == "established" {
				b = append(b, wire.Update([]byte{0, 0, 0, 0})...)
			}
		}
		junk := func() []byte {
			switch r.Intn(5) {
			case 0: // random bytes
				x := make([]byte, 1+r.Intn(200))
				r.Read(x)
				return x
			case 1: // valid header, random type / length
				x := wire.Header(uint8(r.Intn(7)), make([]byte, r.Intn(60)))
				x[16], x[17] = byte(r.Intn(256)), byte(r.Intn(256))
				return x
			case 2: // OPEN with mutated body
				x := wire.Open(remoteAS, 90, remoteID)
				for k := 0; k < 3; k++ {
					x[19+r.Intn(len(x)-19)] = byte(r.Intn(256))
				}
				return x
			case 3: // UPDATE / NOTIFICATION with extreme bodies
				if r.Intn(2) == 0 {
					return wire.Update(make([]byte, 4077))
				}
				return wire.Header(3, nil)
			default: // a maximal-length message of an unknown type followed by garbage
				x := wire.Header(9, make([]byte, 4077))
				return append(x, 1, 2, 3)
			}
		}
		b = append(b, junk()...)
		b = append(b, junk()...)
		var segs []int
		for rem := len(b); rem > 0; {
			sz := 1 + r.Intn(300)
			if sz > rem {
				sz = rem
			}
			segs = append(segs, sz)
			rem -= sz
		}
		c.send(b, segs...)
		c.mu.Lock()
		ended := c.ended
		c.mu.Unlock()
		if ended == "" {
			time.Sleep(30 * time.Millisecond)
		}
		c.drainClose()
	}
	// the other peer is unaffected
	c2 := p2.bring("in", "established", 90, remoteID)
	if c2 != nil {
		c2.send(wire.Update([]byte{0, 0, 0, 7}))
		p2.waitEv(0, stepWait, "cb.enter", "handler", "*", "00000007")
	}
	e.close()
}

var _ = bgp.ErrServerClosed

func init() {
	families["writers"] = scenWriters
	families["hold"] = scenHold
	families["collision"] = scenCollision
	families["collision-window"] = scenCollisionWindow
	families["shutdown"] = scenShutdown
	families["reconnect"] = scenReconnect
	families["inbound-resume"] = scenInboundResume
	families["damping"] = scenDamping
	families["damping-both"] = scenDampingBoth
	families["admission"] = scenAdmission
	families["fuzz"] = scenFuzz
	families["inbound-fin"] = scenInboundFin
	families["api-race"] = scenAPIRace
	families["open-caps"] = scenOpenCaps

	scenarioLists["C04"] = func(tier string, r *rand.Rand) []string {
		var out []string
		n := 1
		if tier == "thorough" {
			n = 8
		}
		for rep := 0; rep < n; rep++ {
			for _, dir := range []string{"out", "in"} {
				for _, k := range []int{1, 3, 16} {
					for _, end := range []string{"cease", "fin", "fsmerr", "close"} {
						out = append(out, fmt.Sprintf("writers:%s:k=%d:n=%d:end=%s:inside=%d:re=%d:ms=%d:i=%d", dir, k, 30+r.Intn(40), end, r.Intn(2), r.Intn(2), 50+r.Intn(300), rep))
					}
				}
				// keepalives interleave: hold 3 s => a KEEPALIVE every second while writers write slowly
				out = append(out, fmt.Sprintf("writers:%s:k=2:n=40:end=cease:inside=1:pause=60:ms=2500:i=%d", dir, rep))
				// the remote stops reading for 2.6 s under continuous large writes (hold 3: keepalives are due meanwhile)
				if dir == "out" {
					out = append(out, fmt.Sprintf("writers:out:k=3:n=60:end=cease:inside=0:big=1:stall=2600:ms=100:i=%d", rep))
				}
				// reset while the FSM goroutine is busy: later writes report the failure
				out = append(out, fmt.Sprintf("writers:%s:k=1:n=3:end=rst-busy:inside=0:ms=50:i=%d", dir, rep))
				// every body length in turn; callbacks that take longer than a keepalive interval and then write
				out = append(out, fmt.Sprintf("writers:%s:k=1:n=420:end=cease:inside=0:lens=sweep:ms=250:i=%d", dir, rep))
				out = append(out, fmt.Sprintf("writers:%s:k=0:n=0:end=cease:inside=1:estdelay=1300:ms=1500:i=%d", dir, rep))
				// an empty body is a body; the handler's NOTIFICATION under the adversary; a Cease while writers are blocked
				out = append(out, fmt.Sprintf("writers:%s:k=2:n=20:end=cease:inside=1:empty=1:ms=100:i=%d", dir, rep))
				if dir == "in" {
					out = append(out, fmt.Sprintf("writers:in:k=3:n=300:end=veto:inside=0:pause=1:adv=1:ms=120:i=%d", rep))
				} else {
					out = append(out, fmt.Sprintf("writers:out:k=3:n=60:end=none:inside=0:big=1:stall=2600:ceaseat=300:ms=100:i=%d", rep))
				}
				// corebgp sends a NOTIFICATION (FSM error) while writers are busy, adversary on the connection
				if dir == "in" {
					out = append(out, fmt.Sprintf("writers:in:k=3:n=300:end=fsmerr:inside=0:pause=1:adv=1:ms=120:i=%d", rep))
				}
				// large bodies, sparse writes, keepalives every second, the write-interleaving adversary on the connection
				if dir == "in" {
					out = append(out, fmt.Sprintf("writers:in:k=2:n=12:end=cease:inside=0:pause=250:big=1:adv=1:ms=2600:i=%d", rep))
				}
				// negotiated hold time 0 (no keepalive timer): writers and writes from inside callbacks must still work
				out = append(out, fmt.Sprintf("writers:%s:k=2:n=20:end=cease:inside=1:rhold=0:ms=100:i=%d", dir, rep))
				out = append(out, fmt.Sprintf("writers:%s:k=3:n=20:end=close:inside=0:rhold=0:ms=100:i=%d", dir, rep))
			}
		}
		return out
	}
	scenarioLists["C06"] = func(tier string, r *rand.Rand) []string {
		var out []string
		pairs := [][2]int{{3, 3}, {3, 0}, {0, 3}, {0, 0}, {6, 3}, {3, 9}}
		if tier == "thorough" {
			pairs = append(pairs, [2]int{9, 9}, [2]int{30, 9}, [2]int{9, 90}, [2]int{65535, 3})
		}
		for _, pr := range pairs {
			neg := pr[0]
			if pr[1] < neg {
				neg = pr[1]
			}
			for _, dir := range []string{"out", "in"} {
				for _, pat := range []string{"silent", "ka", "upd", "late", "writes"} {
					if neg == 0 && pat == "late" {
						continue
					}
					ms := neg*1000 + 1500
					if neg == 0 {
						ms = 4500
					}
					if pat != "silent" && pat != "writes" {
						ms = neg*1000 + 2500
						if neg == 0 {
							ms = 3500
						}
					}
					if dir == "in" && pat != "silent" && tier != "thorough" {
						continue
					}
					out = append(out, fmt.Sprintf("hold:%s:l=%d:r=%d:pat=%s:ms=%d", dir, pr[0], pr[1], pat, ms))
				}
			}
			// expiry in OpenConfirm as well
			if neg != 0 {
				out = append(out, fmt.Sprintf("hold:out:l=%d:r=%d:pat=silent:st=openConfirm:ms=%d", pr[0], pr[1], neg*1000+1500))
			}
		}
		// the session under observation follows one that negotiated a different hold time (same peer; for
		// dir=out the same FSM object)
		out = append(out, "hold:out:l=3:r=3:pat=onewrite:ms=3400", "hold:in:l=3:r=3:pat=onewrite:ms=3400", "hold:out:l=3:r=3:pat=kaupdsilent:ms=4600", "hold:in:l=3:r=3:pat=kaupdsilent:ms=4600",
			"hold:out:l=3:r=3:pat=updsilent:ms=4800", "hold:in:l=6:r=3:pat=updsilent:ms=4800", "hold:out:l=3:r=3:pat=silent:st=openConfirm:ms=4500", "hold:in:l=3:r=9:pat=silent:st=openConfirm:ms=4500",
			"hold:out:l=3:r=3:pat=slowupd:ms=5500", "hold:in:l=3:r=9:pat=slowupd:ms=5500", "hold:out:l=90:r=3:pat=ka:ms=3500", "hold:in:l=90:r=3:pat=silent:ms=4500",
			"hold:out:l=30:r=3:r1=9:pat=ka:ms=3500", "hold:out:l=30:r=3:r1=9:pat=silent:ms=4500",
			"hold:out:l=3:r=3:r1=0:pat=silent:ms=4500", "hold:in:l=3:r=3:pat=silent:ms=4500:linger=1300", "updates:in:n=450:slow=5000:hold=3:nokeep=1:k=d0", "updates:out:n=450:slow=5000:hold=3:nokeep=1:k=d1", "updates:in:n=45:gapms=100:hold=3:k=g0", "hold:out:l=3:r=3:pat=silent:ms=4500:linger=1300", "hold:out:l=30:r=0:r1=3:pat=ka:ms=3500", "hold:in:l=30:r=3:r1=9:pat=ka:ms=3500")
		return out
	}
	scenarioLists["C07"] = func(tier string, r *rand.Rand) []string {
		var out []string
		n := 1
		if tier == "thorough" {
			n = 10
		}
		for rep := 0; rep < n; rep++ {
			// local id <, >, = remote id (10.0.0.200); AS tie-break for equal ids
			for _, lid := range []string{"10.0.0.100", "10.0.1.44", "10.0.0.200"} {
				for _, first := range []string{"out", "in"} {
					if lid == "10.0.0.200" {
						// (local AS 65001; four-octet remote AS numbers travel as AS_TRANS in the My-AS field)
						for _, ras := range []int{65000, 65002, 70000, 4200000000, 23457} {
							out = append(out, fmt.Sprintf("collision:lid=%s:ras=%d:first=%s:i=%d", lid, ras, first, rep))
						}
						continue
					}
					out = append(out, fmt.Sprintf("collision:lid=%s:first=%s:i=%d", lid, first, rep))
					out = append(out, fmt.Sprintf("collision:lid=%s:first=%s:then=established-first:i=%d", lid, first, rep))
				}
			}
			for _, v := range []string{"ka", "fin", "fsmerr", "none"} {
				out = append(out, fmt.Sprintf("collision-window:%s:lid=10.0.0.100:i=%d", v, rep), fmt.Sprintf("collision-window:%s:lid=10.0.0.100:i=%db", v, rep))
			}
			out = append(out, fmt.Sprintf("collision-window:est-window:lid=10.0.0.100:i=%d", rep), fmt.Sprintf("collision-window:est-window:lid=10.0.1.44:i=%d", rep))
			for k := 0; k < 4; k++ {
				out = append(out, fmt.Sprintf("collision-window:loser-down:lid=10.0.0.100:i=%d.%d", rep, k))
			}
			// identifiers far apart (more than 2^31): 10.0.0.100 against 192.0.2.1 and 250.0.0.1, both orders
			for _, rid := range []string{"192.0.2.1", "250.0.0.1"} {
				out = append(out, fmt.Sprintf("collision:lid=10.0.0.100:rid=%s:first=out:i=%d", rid, rep), fmt.Sprintf("collision:lid=10.0.0.100:rid=%s:first=in:i=%d", rid, rep))
			}
			out = append(out, fmt.Sprintf("collision:lid=200.0.0.1:rid=10.0.0.9:first=out:i=%d", rep), fmt.Sprintf("collision:lid=200.0.0.1:rid=10.0.0.9:first=in:i=%d", rep))
			// the remote resolves the collision itself and sends Cease / Connection Collision Resolution on the loser
			for _, lid := range []string{"10.0.0.100", "10.0.1.44"} {
				out = append(out, fmt.Sprintf("collision:lid=%s:first=in:remotecease=1:i=%d", lid, rep), fmt.Sprintf("collision:lid=%s:first=out:remotecease=1:i=%d", lid, rep))
			}
			// the outbound connection of the collision is a re-dial of the same FSM
			for _, lid := range []string{"10.0.0.100", "10.0.1.44"} {
				out = append(out, fmt.Sprintf("collision:lid=%s:first=in:redial=1:i=%d", lid, rep), fmt.Sprintf("collision:lid=%s:first=out:redial=1:i=%d", lid, rep),
					fmt.Sprintf("collision:lid=%s:first=in:then=established-first:redial=1:i=%d", lid, rep))
			}
			// arrival orders with history: the remote's connection arrives after the outbound one is in OpenConfirm;
			// an earlier inbound connection failed before its OPEN exchange completed
			for _, lid := range []string{"10.0.0.100", "10.0.1.44"} {
				out = append(out, fmt.Sprintf("collision:lid=%s:first=out:late=1:i=%d", lid, rep),
					fmt.Sprintf("collision:lid=%s:first=out:late=1:prefail=1:i=%d", lid, rep),
					fmt.Sprintf("collision:lid=%s:first=in:prefail=1:i=%d", lid, rep))
			}
		}
		return out
	}
	scenarioLists["C10"] = func(tier string, r *rand.Rand) []string {
		var out []string
		n := 2
		if tier == "thorough" {
			n = 20
		}
		for _, api := range []string{"close", "delete"} {
			for _, pt := range []string{"idle", "before-serve", "twopeers", "dial-window", "manypeers", "manypeers:i=1", "listeners:dir=in", "listeners:dir=out", "slow-handler:dir=in"} {
				out = append(out, fmt.Sprintf("shutdown:%s:%s", api, pt))
			}
			for _, dir := range []string{"out", "in"} {
				for _, pt := range []string{"openSent", "openConfirm", "established", "damped", "writers"} {
					for rep := 0; rep < n; rep++ {
						out = append(out, fmt.Sprintf("shutdown:%s:%s:dir=%s:us=%d:i=%d", api, pt, dir, 300*rep, rep))
					}
				}
			}
			for rep := 0; rep < n; rep++ {
				out = append(out, fmt.Sprintf("shutdown:%s:collision:oc=%d:i=%d", api, rep%2, rep))
			}
			// negotiated hold time 0 (no timers): the Cease is still sent
			for _, dir := range []string{"out", "in"} {
				out = append(out, fmt.Sprintf("shutdown:%s:established:dir=%s:rhold=0", api, dir), fmt.Sprintf("shutdown:%s:openConfirm:dir=%s:rhold=0", api, dir))
			}
			// the stop hits a later connection of the same peer / FSM object
			for _, dir := range []string{"out", "in"} {
				for _, pt := range []string{"openSent", "openConfirm", "established"} {
					out = append(out, fmt.Sprintf("shutdown:%s:%s:dir=%s:second=%s", api, pt, dir, map[string]string{"openSent": "openSent", "openConfirm": "established", "established": "openConfirm"}[pt]))
				}
			}
			for _, dir := range []string{"out", "in"} {
				for _, st := range []string{"openSent", "openConfirm"} {
					out = append(out, fmt.Sprintf("shutdown:%s:request-window:dir=%s:st=%s", api, dir, st))
				}
				out = append(out, fmt.Sprintf("shutdown:%s:in-callback:dir=%s", api, dir))
				out = append(out, fmt.Sprintf("shutdown:%s:in-callback-veto:dir=%s:st=openSent:at=60", api, dir),
					fmt.Sprintf("shutdown:%s:in-callback-veto:dir=%s:st=established:at=60", api, dir),
					fmt.Sprintf("shutdown:%s:in-callback-veto:dir=%s:st=established:at=110", api, dir))
			}
			for _, st := range []string{"openSent", "openConfirm", "established"} {
				out = append(out, fmt.Sprintf("shutdown:%s:second-inbound:st=%s", api, st))
			}
			out = append(out, fmt.Sprintf("shutdown:%s:second-in-window", api))
			out = append(out, "admission:specific-prequeued:i="+api)
			for _, st := range []string{"openConfirm", "established"} {
				out = append(out, fmt.Sprintf("shutdown:%s:listener-error:dir=out:st=%s", api, st))
			}
		}
		// API calls racing each other and Close
		out = append(out, scenarioLists["C20"](tier, r)...)
		// a dial that succeeds while the connect-retry timer fires: the connection is used or closed, never orphaned
		out = append(out, "reconnect:dialrace:ih=50:cr=60", "reconnect:refuse+dialrace:ih=50:cr=60", "reconnect:dialrace+close@openSent:ih=50:cr=60")
		for i := 0; i < 3; i++ {
			out = append(out, fmt.Sprintf("collision-window:queued-close:lid=10.0.0.100:i=%d", i), fmt.Sprintf("collision-window:queued-delete:lid=10.0.0.100:i=%d", i))
		}
		return out
	}
	// C10R: a small cross-section run under the Go race detector on every (quick) run of C10 — timing monitors are
	// not judged there, only race reports and crashes
	scenarioLists["C10R"] = func(tier string, r *rand.Rand) []string {
		return []string{
			"reconnect:stall:ih=100:cr=300", "reconnect:refuse:ih=50:cr=500", "reconnect:close@openSent+cease@established+reset@openConfirm:ih=50:cr=500",
			"reconnect:dialrace:ih=50:cr=60", "collision:lid=10.0.0.100:first=out:i=0", "collision:lid=10.0.1.44:first=in:i=0",
			"collision-window:ka:lid=10.0.0.100:i=0", "shutdown:close:established:dir=out:us=300:i=0", "shutdown:delete:established:dir=in:us=300:i=0",
			"shutdown:close:openConfirm:dir=out:second=established", "shutdown:close:writers:dir=out:us=0:i=0", "api-race:delete-add:i=0", "api-race:close-add:i=0", "api-race:poll:i=0",
			"writers:out:k=3:n=30:end=cease:inside=1:re=1:ms=80:i=0", "writers:in:k=2:n=20:end=cease:inside=1:rhold=0:ms=100:i=0",
			"damping:out:established:sent.badmarker:expire=1:ms=600", "state-msg:out:established:open:second=1", "hold:out:l=3:r=3:pat=writes:ms=1500",
			"updates:in:n=30:veto=0:k=0", "inbound-resume:st=established",
			// negotiated hold time 0, a few writes, the connection dropped by the remote, the same FSM dials again
			"writers:out:k=1:n=5:end=fin:inside=0:rhold=0:re=1:ms=100:i=0", "writers:out:k=2:n=8:end=cease:inside=1:rhold=0:re=1:ms=100:i=1",
		}
	}
	// what the FSM goroutine and the application write concurrently (NOTIFICATION / KEEPALIVE against WriteUpdate), under
	// the race detector: the cross-section of C04 / C08
	scenarioLists["C04R"] = func(tier string, r *rand.Rand) []string {
		return []string{"writers:in:k=3:n=300:end=fsmerr:inside=0:pause=1:adv=1:ms=120:i=0", "writers:out:k=3:n=200:end=veto:inside=1:pause=1:ms=120:i=0",
			"writers:in:k=4:n=200:end=cease:inside=1:ms=100:i=0", "hold:out:l=3:r=3:pat=writes:ms=1500", "updates:in:n=14:slow=3000:echo=2:k=c8d"}
	}
	scenarioLists["C11"] = func(tier string, r *rand.Rand) []string {
		out := []string{"reconnect:refuse:ih=200:cr=500", "reconnect:refuse:ih=50:cr=500", "reconnect:x:passive", "inbound-resume",
			"reconnect:dialrace:ih=50:cr=60", "reconnect:refuse+dialrace:ih=50:cr=60", "reconnect:dialrace+close@openSent:ih=50:cr=60",
			"damping:out:established:fin-midbody", "damping:out:openSent:fin-midbody", "damping:out:openConfirm:fin-midheader", "damping:in:openSent:fin-midbody",
			"damping:out:openConfirm:rcvdcease.7", "damping:out:established:rcvdcease.0",
			"inbound-resume:st=openSent", "inbound-resume:st=openConfirm", "inbound-resume:st=established:next=out", "inbound-resume:st=openConfirm:next=out",
			"reconnect:cease@openSent+cease@openSent:ih=50:cr=500", "reconnect:cease@established+cease@openConfirm+cease@openSent:ih=50:cr=500", "inbound-resume:st=established:passive=1", "inbound-resume:st=openConfirm:passive=1",
			"reconnect:stall:ih=100:cr=300", "inbound-fin:passive", "inbound-fin:active"}
		if tier == "thorough" {
			out = append(out, "reconnect:refuse:ih=1000:cr=2000")
		}
		states := []string{"openSent", "openConfirm", "established"}
		for _, k := range []string{"close", "reset", "cease"} {
			for _, s := range states {
				out = append(out, fmt.Sprintf("reconnect:%s@%s:ih=100:cr=500", k, s))
			}
		}
		n := 6
		if tier == "thorough" {
			n = 60
		}
		for i := 0; i < n; i++ {
			var fs []string
			for k := 1 + r.Intn(4); k > 0; k-- {
				if r.Intn(5) == 0 {
					fs = append(fs, "refuse")
				} else {
					fs = append(fs, fmt.Sprintf("%s@%s", []string{"close", "reset", "cease"}[r.Intn(3)], states[r.Intn(3)]))
				}
			}
			out = append(out, fmt.Sprintf("reconnect:%s:ih=%d:cr=500:i=%d", strings.Join(fs, "+"), []int{50, 200}[r.Intn(2)], i))
		}
		return out
	}
	scenarioLists["C12"] = func(tier string, r *rand.Rand) []string {
		var out []string
		for _, dir := range []string{"out", "in"} {
			for _, st := range []string{"openSent", "openConfirm", "established"} {
				// sent: FSM error (5), header error (1); received: codes 1..5, 7; controls: cease, fin, rst
				hows := []string{"sent.badmarker", "rcvd.3", "cease", "fin", "rst"}
				if st == "openSent" {
					hows = append(hows, "sent.ka")
				} else {
					hows = append(hows, "sent.open")
				}
				if tier == "thorough" || (dir == "out" && st == "established") {
					hows = append(hows, "rcvd.1", "rcvd.2", "rcvd.4", "rcvd.5", "rcvd.7", "sent.badtype", "sent.badlen-long")
				}
				for _, h := range hows {
					out = append(out, fmt.Sprintf("damping:%s:%s:%s", dir, st, h))
				}
			}
		}
		out = append(out, "damping-both:ka", "damping-both:badmarker", "damping-both:notif-other")
		for _, dir := range []string{"out", "in"} {
			// received Cease of every subcode; a stream that ends inside a message: no hold-down
			for _, sub := range []int{0, 1, 3, 5, 7, 8, 9} {
				out = append(out, fmt.Sprintf("damping:%s:%s:rcvdcease.%d", dir, []string{"openSent", "openConfirm", "established"}[sub%3], sub))
			}
			out = append(out, fmt.Sprintf("damping:%s:established:fin-midbody", dir), fmt.Sprintf("damping:%s:openSent:fin-midbody", dir), fmt.Sprintf("damping:%s:openConfirm:fin-midheader", dir))
			for _, v := range []string{"badas", "hold1", "version3", "id-multicast"} {
				out = append(out, fmt.Sprintf("damping:%s:openSent:sentopen.%s", dir, v))
			}
			// the remote reconnects while the error is still being handled
			out = append(out, fmt.Sprintf("damping:%s:established:rcvd.3:slowerr=40", dir))
		}
		// the end of the hold-down period (timer expired through the hook): retried, establishes again
		for _, dir := range []string{"out", "in"} {
			out = append(out, fmt.Sprintf("damping:%s:established:sent.badmarker:expire=1:ms=600", dir), fmt.Sprintf("damping:%s:openConfirm:rcvd.3:expire=1:ms=600", dir),
				fmt.Sprintf("damping:%s:established:rcvd.3:expire=3:ms=450", dir))
			// every received OPEN Message Error subcode damps, also "unsupported version"
			out = append(out, fmt.Sprintf("damping:%s:openSent:rcvd.2", dir), fmt.Sprintf("damping:%s:openConfirm:rcvd.2", dir))
		}
		// a protocol error pending in the FSM's error hand-off when the manager stops that FSM (collision kill)
		out = append(out, "collision-window:fsmerr:lid=10.0.0.100:i=0", "collision-window:fsmerr:lid=10.0.0.100:i=1")
		return out
	}
	scenarioLists["C13"] = func(tier string, r *rand.Rand) []string {
		var out []string
		for _, l := range []string{"specific", "wild"} {
			for _, k := range []string{"unknown-src", "known", "second-inbound", "while-established", "held-down"} {
				out = append(out, fmt.Sprintf("admission:%s-%s", l, k))
			}
			out = append(out, fmt.Sprintf("admission:%s-local-known", l), fmt.Sprintf("admission:%s-local-wrong-dst", l),
				fmt.Sprintf("admission:%s-unspeclocal-unspec-dst", l))
			if l == "specific" {
				out = append(out, "admission:specific-local-multi-wrong-dst")
			}
		}
		for i := 0; i < 6; i++ {
			out = append(out, fmt.Sprintf("admission:specific-prequeued:i=%d", i))
		}
		for i := 0; i < 3; i++ {
			out = append(out, fmt.Sprintf("collision-window:queued-close:lid=10.0.0.100:i=%d", i), fmt.Sprintf("collision-window:queued-delete:lid=10.0.0.100:i=%d", i))
		}
		out = append(out, "collision-window:queued-slow:lid=10.0.0.100:i=0")
		// after an OPEN that was refused (a protocol error) the peer's next connection is not served
		for _, dir := range []string{"in", "out"} {
			out = append(out, fmt.Sprintf("damping:%s:openSent:sentopen.badas", dir), fmt.Sprintf("damping:%s:openSent:sentopen.hold2", dir))
		}
		for i := 0; i < 4; i++ {
			out = append(out, fmt.Sprintf("collision-window:ka:lid=10.0.0.100:i=c13.%d", i))
		}
		// the hold-down after a repeated protocol error refuses inbound connections like the first one
		out = append(out, "damping:in:established:rcvd.3:expire=3:ms=450", "damping:out:established:rcvd.3:expire=2:ms=450")
		// an active peer whose outbound connection is in OpenConfirm (not Established) still admits the remote's connection
		out = append(out, "collision:lid=10.0.0.100:first=out:late=1:i=a", "collision:lid=10.0.1.44:first=out:late=1:i=a",
			"collision:lid=10.0.0.100:first=out:late=1:prefail=1:i=a")
		return out
	}
	// C01: the union of the families in which sessions come and go
	scenarioLists["C01"] = func(tier string, r *rand.Rand) []string {
		var out []string
		for _, p := range []string{"C07", "C09", "C10", "C11", "C20"} {
			out = append(out, scenarioLists[p](tier, r)...)
		}
		return out
	}
	scenarioLists["C20"] = func(tier string, r *rand.Rand) []string {
		out := []string{}
		n := 2
		if tier == "thorough" {
			n = 20
		}
		for i := 0; i < n; i++ {
			for _, k := range []string{"delete-close", "delete-delete", "delete-add", "close-add", "add-add", "close-add-window", "close-delete-window"} {
				out = append(out, fmt.Sprintf("api-race:%s:i=%d", k, i))
			}
		}
		// a registered peer operates: its inbound connection is served, also through a wildcard / dual-stack listener
		out = append(out, "admission:wild-known", "admission:specific-known", "admission:wild-local-known")
		return out
	}
	scenarioLists["C14"] = func(tier string, r *rand.Rand) []string {
		// + an OPEN sent after an earlier session negotiated a lower hold time (it must carry the configured one)
		return []string{"open-caps:fresh", "open-caps:mutate", "open-caps:mutate:i=1", "open-caps:concurrent", "open-caps:concurrent:i=1", "open-caps:concurrent:i=2", "hold:out:l=0:r=3:pat=ka:ms=600", "hold:in:l=0:r=0:pat=ka:ms=600", "hold:out:l=65535:r=3:pat=ka:ms=600", "hold:out:l=30:r=3:r1=9:pat=ka:ms=1200", "hold:in:l=30:r=3:r1=9:pat=ka:ms=1200",
			// the OPEN of the attempt that follows a hold-down started by a received NOTIFICATION (Unsupported Optional Parameter,
			// Unsupported Capability): the same OPEN as before
			"damping:out:openSent:rcvd.2.4:expire=1:ms=600", "damping:in:openSent:rcvd.2.4:expire=1:ms=600", "damping:out:openConfirm:rcvd.2.7:expire=1:ms=600"}
	}
	scenarioLists["C05"] = func(tier string, r *rand.Rand) []string {
		var out []string
		for _, p := range []string{"C08", "C09", "C02"} {
			out = append(out, scenarioLists[p](tier, r)...)
		}
		// connections that match no peer / the wrong local address, then the API is used again (nothing may be left locked)
		out = append(out, "admission:specific-local-wrong-dst", "admission:wild-local-wrong-dst", "admission:specific-unknown-src")
		out = append(out, "admission:specific-unspeclocal-unspec-dst", "admission:wild-unspeclocal-unspec-dst")
		// negotiated hold time 0 with application writes (also from inside OnEstablished)
		out = append(out, "writers:out:k=2:n=20:end=cease:inside=1:rhold=0:ms=100:i=0", "writers:in:k=1:n=5:end=close:inside=1:rhold=0:ms=100:i=0")
		// API sequences around a failed listener: Serve again, Close
		out = append(out, "shutdown:close:listener-error:dir=out:st=established", "shutdown:delete:listener-error:dir=out:st=openConfirm",
			"shutdown:close:listeners:dir=in", "api-race:close-add:i=0", "api-race:delete-add:i=0")
		n := 8
		if tier == "thorough" {
			n = 150
		}
		for i := 0; i < n; i++ {
			for _, dir := range []string{"out", "in"} {
				for _, st := range []string{"openSent", "openConfirm", "established"} {
					out = append(out, fmt.Sprintf("fuzz:%s:%s:k=%d", dir, st, i))
				}
			}
		}
		return out
	}
}
