package main

import (
	"bytes"
	"encoding/hex"
	"errors"
	"fmt"
	"io"
	"net"
	"net/netip"
	"os"
	"reflect"
	"regexp"
	"runtime"
	"strconv"
	"strings"
	"sync"
	"syscall"
	"time"

	bgp "github.com/jwhited/corebgp"
	"verif/harness/term"
	"verif/harness/wire"
)

// ---------------------------------------------------------------- trace

type Event struct {
	Seq  int
	T    int64 // ns since scenario start
	Peer string
	Ev   string
	Args []string
}

func (e Event) String() string {
	s := fmt.Sprintf("%d %d %s %s", e.Seq, e.T, e.Peer, e.Ev)
	if len(e.Args) > 0 {
		s += " " + strings.Join(e.Args, " ")
	}
	return s
}

type Trace struct {
	mu      sync.Mutex
	cond    *sync.Cond
	start   time.Time
	events  []Event
	out     io.Writer
	dropped int
	bytes   int
}

// maxEvents bounds a trace: every scenario is a bounded script (the largest legitimate traces have a few
// thousand events). Beyond the bound one `harness.runaway` event is recorded and the rest is counted only.
const maxEvents = 30000
const maxTraceBytes = 6 << 20

func newTrace() *Trace {
	t := &Trace{start: time.Now(), out: os.Stdout}
	t.cond = sync.NewCond(&t.mu)
	return t
}

// log appends an event and prints it at once (a crash of the process must not lose the trace).
func (t *Trace) log(peer, ev string, args ...string) {
	t.mu.Lock()
	for _, a := range args {
		t.bytes += len(a)
	}
	if (len(t.events) >= maxEvents || t.bytes >= maxTraceBytes) && !strings.HasPrefix(ev, "api.") && ev != "goroutines" && ev != "harness.fail" {
		t.dropped++
		if t.dropped > 1 {
			t.mu.Unlock()
			return
		}
		peer, ev, args = "-", "harness.runaway", []string{ev}
	}
	e := Event{Seq: len(t.events), T: int64(time.Since(t.start)), Peer: peer, Ev: ev, Args: args}
	t.events = append(t.events, e)
	if t.out != nil {
		io.WriteString(t.out, e.String()+"\n")
	}
	t.mu.Unlock()
	t.cond.Broadcast()
}

// wait blocks until an event at index >= from satisfies pred; returns its index or -1 on timeout.
func (t *Trace) wait(from int, timeout time.Duration, pred func(Event) bool) int {
	deadline := time.Now().Add(timeout)
	timer := time.AfterFunc(timeout, func() { t.cond.Broadcast() })
	defer timer.Stop()
	t.mu.Lock()
	defer t.mu.Unlock()
	i := from
	for {
		for ; i < len(t.events); i++ {
			if pred(t.events[i]) {
				return i
			}
		}
		if time.Now().After(deadline) {
			return -1
		}
		t.cond.Wait()
	}
}

func (t *Trace) len() int {
	t.mu.Lock()
	defer t.mu.Unlock()
	return len(t.events)
}

func (t *Trace) dump(w io.Writer) {
	t.mu.Lock()
	defer t.mu.Unlock()
	for _, e := range t.events {
		fmt.Fprintln(w, e.String())
	}
}

func gid() string {
	var buf [64]byte
	n := runtime.Stack(buf[:], false)
	f := strings.Fields(string(buf[:n]))
	if len(f) >= 2 {
		return f[1]
	}
	return "0"
}

func hx(b []byte) string {
	if len(b) == 0 {
		return "-"
	}
	return hex.EncodeToString(b)
}

// ---------------------------------------------------------------- environment

type Env struct {
	extraCaps []wire.Cap // further capabilities in every OPEN the scripted remote sends
	tr      *Trace
	idx     int
	srv     *bgp.Server
	lis     net.Listener
	lisAddr string
	serveCh chan error
	peers   map[string]*Peer // by key p<k>
	byAddr  map[string]*Peer
	mu      sync.Mutex
	localID netip.Addr
	failed  []string
	gates   gates
	// logDelay: the user's Logger takes this long on every state-transition line (a Logger may block briefly)
	logDelay time.Duration
	// errLogDelay: the same for the line handleError logs first (the manager is then busy for that long before it
	// acts on the error)
	errLogDelay time.Duration
}

type Peer struct {
	mark   int // trace index before which events belong to earlier connections
	env    *Env
	key    string
	addr   netip.Addr
	cfg    bgp.PeerConfig
	plugin *Plugin
	remote *Remote
	hold   uint16
	port   int
}

var logRe = regexp.MustCompile(`^\[([^\]]+)\] (.*)$`)
var transRe = regexp.MustCompile(`^FSM-(in|out) transition (\w+) => (\w+)$`)
var errRe = regexp.MustCompile(`^FSM-(in|out) (\w+) error: (.*)$`)
var nerrRe = regexp.MustCompile(`notification (sent|received) code: (\d+) .*subcode: (\d+)`)
var dampRe = regexp.MustCompile(`^damping peer for (.*)$`)

var currentEnv *Env

func newEnv(idx int, localID string) *Env {
	e := &Env{tr: newTrace(), idx: idx, peers: map[string]*Peer{}, byAddr: map[string]*Peer{}, localID: netip.MustParseAddr(localID)}
	currentEnv = e
	bgp.SetLogger(func(v ...interface{}) {
		line := fmt.Sprint(v...)
		if os.Getenv("VERIF_RAWLOG") != "" {
			fmt.Fprintln(os.Stderr, "RAW", time.Since(e.tr.start), line)
		}
		m := logRe.FindStringSubmatch(line)
		if m == nil {
			return
		}
		e.mu.Lock()
		p := e.byAddr[m[1]]
		e.mu.Unlock()
		if p == nil {
			return
		}
		msg := m[2]
		if t := transRe.FindStringSubmatch(msg); t != nil {
			e.tr.log(p.key, "log.t", t[1], t[2], t[3])
			if e.logDelay > 0 {
				time.Sleep(e.logDelay)
			}
		} else if t := errRe.FindStringSubmatch(msg); t != nil {
			cls := "io"
			if n := nerrRe.FindStringSubmatch(t[3]); n != nil {
				d := "rcvd"
				if n[1] == "sent" {
					d = "sent"
				}
				cls = d + "." + n[2] + "." + n[3]
			}
			e.tr.log(p.key, "log.err", t[1], t[2], cls)
			if e.errLogDelay > 0 {
				time.Sleep(e.errLogDelay)
			}
		} else if t := dampRe.FindStringSubmatch(msg); t != nil {
			d, err := time.ParseDuration(t[1])
			if err == nil {
				e.tr.log(p.key, "log.damp", strconv.Itoa(int(d/time.Second)))
			}
		} else if strings.HasPrefix(msg, "startup delay timer expired") {
			e.tr.log(p.key, "log.undamp")
		}
	})
	e.installHook()
	var err error
	e.srv, err = bgp.NewServer(e.localID)
	if err != nil {
		panic(err)
	}
	return e
}

// ---------------------------------------------------------------- schedule points

type gates struct {
	mu   sync.Mutex
	held map[string]chan struct{}
}

// hold makes the next goroutines reaching the schedule point block until release is called.
func (e *Env) hold(point string) (release func()) {
	e.gates.mu.Lock()
	if e.gates.held == nil {
		e.gates.held = map[string]chan struct{}{}
	}
	ch := make(chan struct{})
	e.gates.held[point] = ch
	e.gates.mu.Unlock()
	var once sync.Once
	return func() {
		once.Do(func() {
			e.gates.mu.Lock()
			delete(e.gates.held, point)
			e.gates.mu.Unlock()
			e.tr.log("-", "pt.release", point)
			close(ch)
		})
	}
}

func (e *Env) installHook() {
	bgp.VerifSetHook(func(point string, obj any) {
		// a gate may be set for one direction only: "<point>#in" / "<point>#out" (the FSM's direction field is read
		// through reflection; it is unexported)
		key2 := ""
		if v := reflect.ValueOf(obj); v.Kind() == reflect.Ptr && !v.IsNil() && v.Elem().Kind() == reflect.Struct {
			if f := v.Elem().FieldByName("direction"); f.IsValid() && f.CanInt() {
				key2 = point + "#" + []string{"out", "in"}[int(f.Int())&1]
			}
		}
		e.gates.mu.Lock()
		ch := e.gates.held[point]
		name := point
		if ch == nil && key2 != "" {
			ch = e.gates.held[key2]
			name = key2
		}
		e.gates.mu.Unlock()
		if ch != nil {
			e.tr.log("-", "pt.reached", name)
			<-ch
		}
	})
}

func (e *Env) fail(format string, a ...any) {
	msg := fmt.Sprintf(format, a...)
	e.failed = append(e.failed, msg)
	e.tr.log("-", "harness.timeout", strings.ReplaceAll(msg, " ", "_"))
}

// peerAddr: a loopback address unique to (scenario index, k)
func (e *Env) peerAddr(k int) netip.Addr {
	return netip.AddrFrom4([4]byte{127, byte(100 + e.idx/200), byte(e.idx%200 + 1), byte(k)})
}

type PeerOpts struct {
	SmallSndBuf       bool
	LocalAS, RemoteAS uint32
	Hold              uint16
	IdleHold          time.Duration
	ConnectRetry      time.Duration
	Passive           bool
	LocalAddr         string
	NoListen          bool // the remote does not listen at start (dials are refused)
	V6                bool
}

func (e *Env) newPeer(k int, o PeerOpts) *Peer {
	addr := e.peerAddr(k)
	if o.V6 {
		addr = netip.MustParseAddr("::1")
	}
	p := &Peer{env: e, key: fmt.Sprintf("p%d", k), addr: addr, hold: o.Hold}
	p.cfg = bgp.PeerConfig{RemoteAddress: addr, LocalAS: o.LocalAS, RemoteAS: o.RemoteAS}
	p.plugin = &Plugin{peer: p}
	p.remote = newRemote(p)
	p.port = p.remote.reservePort()
	if !o.NoListen {
		p.remote.listen()
	}
	e.mu.Lock()
	e.peers[p.key] = p
	e.byAddr[addr.String()] = p
	e.mu.Unlock()
	return p
}

func (e *Env) addPeer(k int, o PeerOpts) *Peer {
	p := e.newPeer(k, o)
	if o.IdleHold == 0 {
		o.IdleHold = 100 * time.Millisecond
	}
	if o.ConnectRetry == 0 {
		o.ConnectRetry = 2 * time.Second
	}
	opts := []bgp.PeerOption{bgp.WithPort(p.port), bgp.WithHoldTime(o.Hold), bgp.WithIdleHoldTime(o.IdleHold),
		bgp.WithConnectRetryTime(o.ConnectRetry),
		bgp.WithDialerControl(func(network, address string, c syscall.RawConn) error {
			e.tr.log(p.key, "dial")
			if o.SmallSndBuf {
				// a small send buffer on corebgp's socket: a remote that stops reading blocks corebgp's writers soon
				c.Control(func(fd uintptr) { syscall.SetsockoptInt(int(fd), syscall.SOL_SOCKET, syscall.SO_SNDBUF, 8192) })
			}
			return nil
		})}
	if o.Passive {
		opts = append(opts, bgp.WithPassive())
	}
	la := "-"
	if o.LocalAddr != "" {
		opts = append(opts, bgp.WithLocalAddress(netip.MustParseAddr(o.LocalAddr)))
		la = o.LocalAddr
	}
	id4 := e.localID.As4()
	e.tr.log(p.key, "cfg", strconv.FormatUint(uint64(id4[0])<<24|uint64(id4[1])<<16|uint64(id4[2])<<8|uint64(id4[3]), 10),
		strconv.FormatUint(uint64(o.LocalAS), 10), strconv.FormatUint(uint64(o.RemoteAS), 10), strconv.Itoa(int(o.Hold)),
		strconv.Itoa(int(o.IdleHold/time.Millisecond)), strconv.Itoa(int(o.ConnectRetry/time.Millisecond)), term.B(o.Passive).String(), la, p.addr.String())
	e.tr.log(p.key, "api.call", "AddPeer")
	err := e.srv.AddPeer(p.cfg, p.plugin, opts...)
	e.tr.log(p.key, "api.ret", "AddPeer", errName(err))
	return p
}

func errName(err error) string {
	switch {
	case err == nil:
		return "ok"
	case errors.Is(err, bgp.ErrPeerAlreadyExists):
		return "exists"
	case errors.Is(err, bgp.ErrPeerNotExist):
		return "notexist"
	case errors.Is(err, bgp.ErrServerClosed):
		return "closed"
	}
	return "err"
}

func (e *Env) serve() {
	var err error
	e.lis, err = net.Listen("tcp", "127.0.0.1:0")
	if err != nil {
		panic(err)
	}
	e.lisAddr = e.lis.Addr().String()
	e.serveCh = make(chan error, 1)
	e.tr.log("-", "api.call", "Serve")
	go func() {
		err := e.srv.Serve([]net.Listener{e.lis})
		e.tr.log("-", "api.ret", "Serve", errName(err))
		e.serveCh <- err
	}()
}

// advListener hands out connections on which a Write call that does not carry whole messages is held before it
// returns until another goroutine has started a Write on the same connection (or 1.5 s have passed). Write calls of
// different goroutines on one connection are ordered arbitrarily by the runtime, so this is a legal schedule; it
// makes "a message is put on the wire by more than one Write" observable as interleaved bytes at the remote. A
// writer that always passes whole messages to Write is never delayed.
type advListener struct {
	net.Listener
	tr *Trace
	// holdFirst: the first Write on every connection is held (before the bytes are handed to the kernel) until a
	// Write on another connection of this listener has started, or 150 ms have passed: two messages being sent at
	// the same time really are in flight together
	holdFirst bool
	shared    *advShared
}

type advShared struct {
	mu     sync.Mutex
	writes int
	cond   *sync.Cond
}

func (l advListener) Accept() (net.Conn, error) {
	c, err := l.Listener.Accept()
	if err != nil {
		return nil, err
	}
	return &advConn{Conn: c, tr: l.tr, wake: make(chan struct{}, 1), holdFirst: l.holdFirst, shared: l.shared}, nil
}

type advConn struct {
	net.Conn
	tr        *Trace
	mu        sync.Mutex
	buf       []byte
	wake      chan struct{}
	holdFirst bool
	nwrites   int
	shared    *advShared
}

func (c *advConn) Write(b []byte) (int, error) {
	select {
	case c.wake <- struct{}{}:
	default:
	}
	if c.shared != nil {
		sh := c.shared
		sh.mu.Lock()
		sh.writes++
		mine := sh.writes
		sh.cond.Broadcast()
		c.nwrites++
		if c.holdFirst && c.nwrites == 1 {
			t := time.AfterFunc(150*time.Millisecond, func() { sh.cond.Broadcast() })
			deadline := time.Now().Add(150 * time.Millisecond)
			for sh.writes == mine && time.Now().Before(deadline) {
				sh.cond.Wait()
			}
			t.Stop()
			// let the other writer get as far as its own Write
			sh.mu.Unlock()
			time.Sleep(2 * time.Millisecond)
			sh.mu.Lock()
		}
		sh.mu.Unlock()
	}
	n, err := c.Conn.Write(b)
	c.mu.Lock()
	c.buf = append(c.buf, b[:n]...)
	_, rest := wire.Split(c.buf)
	c.buf = append([]byte(nil), rest...)
	partial := len(rest) > 0
	c.mu.Unlock()
	if partial && err == nil {
		c.tr.log("-", "adv.partial", strconv.Itoa(len(b)))
		select {
		case <-c.wake: // our own signal
		default:
		}
		select {
		case <-c.wake:
		case <-time.After(1500 * time.Millisecond):
		}
	}
	return n, err
}

// serveAdversary is serve with the write-interleaving adversary on every accepted connection
func (e *Env) serveAdversary() { e.serveAdv(false) }

func (e *Env) serveAdv(holdFirst bool) {
	var err error
	e.lis, err = net.Listen("tcp", "127.0.0.1:0")
	if err != nil {
		panic(err)
	}
	e.lisAddr = e.lis.Addr().String()
	e.serveCh = make(chan error, 1)
	e.tr.log("-", "api.call", "Serve")
	go func() {
		sh := &advShared{}
		sh.cond = sync.NewCond(&sh.mu)
		err := e.srv.Serve([]net.Listener{advListener{Listener: e.lis, tr: e.tr, holdFirst: holdFirst, shared: sh}})
		e.tr.log("-", "api.ret", "Serve", errName(err))
		e.serveCh <- err
	}()
}

// slowCloseListener takes a while to close (Serve closes its listeners before it tears the peers down: the time in
// between is a window in which API calls find the server still serving but already told to stop)
type slowCloseListener struct {
	net.Listener
	d time.Duration
}

func (l slowCloseListener) Close() error {
	time.Sleep(l.d)
	return l.Listener.Close()
}

// serveSlowClose is serve with a listener whose Close takes d
func (e *Env) serveSlowClose(d time.Duration) {
	var err error
	e.lis, err = net.Listen("tcp", "127.0.0.1:0")
	if err != nil {
		panic(err)
	}
	e.lisAddr = e.lis.Addr().String()
	e.serveCh = make(chan error, 1)
	e.tr.log("-", "api.call", "Serve")
	go func() {
		err := e.srv.Serve([]net.Listener{slowCloseListener{e.lis, d}})
		e.tr.log("-", "api.ret", "Serve", errName(err))
		e.serveCh <- err
	}()
}

// serveN is serve with n listeners (the first is the one the remote dials)
func (e *Env) serveN(n int) {
	var ls []net.Listener
	for i := 0; i < n; i++ {
		l, err := net.Listen("tcp", "127.0.0.1:0")
		if err != nil {
			panic(err)
		}
		ls = append(ls, l)
	}
	e.lis = ls[0]
	e.lisAddr = e.lis.Addr().String()
	e.serveCh = make(chan error, 1)
	e.tr.log("-", "api.call", "Serve")
	go func() {
		err := e.srv.Serve(ls)
		e.tr.log("-", "api.ret", "Serve", errName(err))
		e.serveCh <- err
	}()
}

// serveWildcard listens on all addresses (for the admission scenarios)
func (e *Env) serveOn(addr string) {
	var err error
	e.lis, err = net.Listen("tcp", addr)
	if err != nil {
		panic(err)
	}
	e.lisAddr = e.lis.Addr().String()
	e.serveCh = make(chan error, 1)
	e.tr.log("-", "api.call", "Serve")
	go func() {
		err := e.srv.Serve([]net.Listener{e.lis})
		e.tr.log("-", "api.ret", "Serve", errName(err))
		e.serveCh <- err
	}()
}

func (e *Env) close() {
	e.tr.log("-", "api.call", "Close")
	done := make(chan struct{})
	go func() { e.srv.Close(); close(done) }()
	select {
	case <-done:
		e.tr.log("-", "api.ret", "Close", "ok")
	case <-time.After(10 * time.Second):
		e.tr.log("-", "api.hang", "Close")
		e.failed = append(e.failed, "Close did not return within 10s")
		return
	}
	if e.serveCh != nil {
		select {
		case <-e.serveCh:
		case <-time.After(5 * time.Second):
			e.tr.log("-", "api.hang", "Serve")
		}
	}
	ng, where := corebgpGoroutinesInfo()
	e.tr.log("-", "goroutines", strconv.Itoa(ng), strings.ReplaceAll(where, " ", "_"))
	e.settle()
}

// settle gives the remote readers time to observe what corebgp wrote last (Cease, EOF) so that the
// trace is complete before it is dumped.
func (e *Env) settle() {
	// a connection corebgp dialled just before it was stopped may be accepted by the remote only now (and is
	// then closed by corebgp): give the listener goroutines a moment before looking
	time.Sleep(30 * time.Millisecond)
	deadline := time.Now().Add(1500 * time.Millisecond)
	for time.Now().Before(deadline) {
		open := 0
		e.mu.Lock()
		for _, p := range e.peers {
			p.remote.mu.Lock()
			for _, c := range p.remote.conns {
				c.mu.Lock()
				if c.ended == "" && !c.closed {
					open++
				}
				c.mu.Unlock()
			}
			p.remote.mu.Unlock()
		}
		e.mu.Unlock()
		if open == 0 {
			return
		}
		time.Sleep(time.Millisecond)
	}
}

func (p *Peer) delete() {
	p.env.tr.log(p.key, "api.call", "DeletePeer")
	done := make(chan error, 1)
	go func() { done <- p.env.srv.DeletePeer(p.addr) }()
	select {
	case err := <-done:
		p.env.tr.log(p.key, "api.ret", "DeletePeer", errName(err))
	case <-time.After(10 * time.Second):
		p.env.tr.log(p.key, "api.hang", "DeletePeer")
		p.env.failed = append(p.env.failed, "DeletePeer did not return within 10s")
	}
}

// corebgpGoroutines counts goroutines with a corebgp frame that is not the harness itself.
func corebgpGoroutines() int {
	n, _ := corebgpGoroutinesInfo()
	return n
}

// corebgpGoroutinesInfo also says where the leftover goroutines are (innermost corebgp function of each)
func corebgpGoroutinesInfo() (int, string) {
	// give exiting goroutines a moment: they are past their last synchronisation already
	var n int
	var where []string
	for try := 0; try < 20; try++ {
		buf := make([]byte, 1<<20)
		buf = buf[:runtime.Stack(buf, true)]
		n = 0
		where = where[:0]
		for _, g := range bytes.Split(buf, []byte("\n\n")) {
			if i := bytes.Index(g, []byte("github.com/jwhited/corebgp.")); i >= 0 {
				n++
				rest := g[i+len("github.com/jwhited/corebgp."):]
				if j := bytes.IndexAny(rest, "(\n"); j >= 0 {
					rest = rest[:j]
				}
				where = append(where, string(rest))
			}
		}
		if n == 0 {
			return 0, ""
		}
		time.Sleep(5 * time.Millisecond)
	}
	return n, strings.Join(where, ",")
}

// waitLog waits for a logger / other event of the peer.
func (p *Peer) waitEv(from int, timeout time.Duration, ev string, args ...string) int {
	i := p.env.tr.wait(from, timeout, func(e Event) bool {
		if e.Peer != p.key || e.Ev != ev || len(e.Args) < len(args) {
			return false
		}
		for k, a := range args {
			if a != "*" && e.Args[k] != a {
				return false
			}
		}
		return true
	})
	if i < 0 {
		p.env.fail("timeout waiting for %s %s %v", p.key, ev, args)
	}
	return i
}

// ---------------------------------------------------------------- plugin

type Plugin struct {
	peer *Peer
	mu   sync.Mutex

	Caps         []bgp.Capability
	OpenVeto     *bgp.Notification // returned from OnOpenMessage
	OpenDelay    time.Duration     // time spent inside OnOpenMessage
	CloseDelay   time.Duration     // time spent inside OnClose
	MutateCaps   bool              // GetCapabilities returns the same slice every time, updated in place
	HandlerVeto  int               // 1-based index of the UPDATE whose handler returns VetoNotif (0 = never)
	HandlerAppend int              // the handler appends that many octets to the slice it was given (it owns it)
	HandlerDelay time.Duration     // time spent inside every handler call
	VetoEcho     int               // 1-based index of the UPDATE answered with a NOTIFICATION whose data is a slice of it
	EstDelay     time.Duration     // time spent inside OnEstablished before its writes
	VetoNotif    *bgp.Notification
	NilHandler   bool
	// WriteUpdate calls issued from inside callbacks
	WriteInEstablished [][]byte
	WriteInHandler     [][]byte
	WriteEmpty         bool // one UPDATE with an empty body is written from OnEstablished (untagged)
	// writers started when the session establishes: each goroutine writes its bodies in order
	Writers     [][][]byte
	WriterPause time.Duration
	WriterStart time.Duration // the writers wait that long after OnEstablished before their first write

	nUpdates  int
	delivered [][]byte // private copies for the aliasing monitor
	slices    [][]byte // the delivered slices themselves
	writerSeq int
	wg        sync.WaitGroup
	lastW     bgp.UpdateMessageWriter
}

func (pl *Plugin) tr() *Trace { return pl.peer.env.tr }

func capsTerm(cs []bgp.Capability) string {
	out := make([]term.T, len(cs))
	for i, c := range cs {
		out[i] = term.App("C", term.N(uint64(c.Code)), term.Hex(c.Value))
	}
	return term.L(out...).String()
}

func notifTerm(n *bgp.Notification) string {
	if n == nil {
		return "nil"
	}
	return term.App("N", term.N(uint64(n.Code)), term.N(uint64(n.Subcode)), term.Hex(n.Data)).String()
}

func (pl *Plugin) GetCapabilities(c bgp.PeerConfig) []bgp.Capability {
	g := gid()
	pl.tr().log(pl.peer.key, "cb.enter", "GetCapabilities", g)
	if pl.MutateCaps && len(pl.Caps) > 0 && len(pl.Caps[0].Value) > 0 {
		pl.Caps[0].Value[len(pl.Caps[0].Value)-1]++ // same backing arrays, new content
	}
	pl.tr().log(pl.peer.key, "cb.exit", "GetCapabilities", g, capsTerm(pl.Caps))
	return pl.Caps
}

func (pl *Plugin) OnOpenMessage(c bgp.PeerConfig, rid netip.Addr, caps []bgp.Capability) *bgp.Notification {
	g := gid()
	id4 := rid.As4()
	pl.tr().log(pl.peer.key, "cb.enter", "OnOpenMessage", g,
		strconv.FormatUint(uint64(id4[0])<<24|uint64(id4[1])<<16|uint64(id4[2])<<8|uint64(id4[3]), 10), capsTerm(caps))
	if pl.OpenDelay > 0 {
		time.Sleep(pl.OpenDelay)
	}
	pl.tr().log(pl.peer.key, "cb.exit", "OnOpenMessage", g, notifTerm(pl.OpenVeto))
	return pl.OpenVeto
}

func (pl *Plugin) write(w bgp.UpdateMessageWriter, wid string, b []byte) error {
	g := gid()
	pl.tr().log(pl.peer.key, "wu.call", wid, g, hx(b))
	err := w.WriteUpdate(b)
	r := "nil"
	if err != nil {
		r = "err"
	}
	pl.tr().log(pl.peer.key, "wu.ret", wid, g, r)
	return err
}

func (pl *Plugin) OnEstablished(c bgp.PeerConfig, w bgp.UpdateMessageWriter) bgp.UpdateMessageHandler {
	g := gid()
	pl.mu.Lock()
	pl.writerSeq++
	wid := fmt.Sprintf("w%d", pl.writerSeq)
	pl.lastW = w
	pl.nUpdates = 0
	pl.mu.Unlock()
	pl.tr().log(pl.peer.key, "cb.enter", "OnEstablished", g, wid)
	if pl.EstDelay > 0 {
		time.Sleep(pl.EstDelay)
	}
	for _, b := range pl.WriteInEstablished {
		pl.write(w, wid, append([]byte{byte(pl.writerSeq)}, b...))
	}
	if pl.WriteEmpty {
		pl.write(w, wid, []byte{})
	}
	for _, bodies := range pl.Writers {
		bodies := bodies
		pl.wg.Add(1)
		go func() {
			defer pl.wg.Done()
			if pl.WriterStart > 0 {
				time.Sleep(pl.WriterStart)
			}
			for _, b := range bodies {
				if pl.write(w, wid, b) != nil {
					return
				}
				if pl.WriterPause > 0 {
					time.Sleep(pl.WriterPause)
				}
			}
		}()
	}
	pl.tr().log(pl.peer.key, "cb.exit", "OnEstablished", g)
	if pl.NilHandler {
		return nil
	}
	return func(c bgp.PeerConfig, u []byte) *bgp.Notification {
		g := gid()
		pl.mu.Lock()
		pl.nUpdates++
		k := pl.nUpdates
		pl.delivered = append(pl.delivered, append([]byte(nil), u...))
		pl.slices = append(pl.slices, u)
		pl.mu.Unlock()
		pl.tr().log(pl.peer.key, "cb.enter", "handler", g, hx(u))
		entry := append([]byte(nil), u...)
		if pl.HandlerAppend > 0 {
			// the handler owns the slice: appending to it must not reach anything corebgp still uses
			x := append(u, bytes.Repeat([]byte{0xde, 0xad, 0xbe, 0xef}, (pl.HandlerAppend+3)/4)...)
			_ = x
		}
		for _, b := range pl.WriteInHandler {
			pl.write(w, wid, append([]byte{byte(pl.writerSeq), byte(k)}, b...))
		}
		if pl.HandlerDelay > 0 {
			time.Sleep(pl.HandlerDelay)
		}
		var n *bgp.Notification
		if pl.HandlerVeto == k {
			n = pl.VetoNotif
		}
		if pl.VetoEcho == k && len(u) > 0 {
			// the NOTIFICATION carries a slice of the UPDATE it complains about (as UpdateNotificationFromErr builds it);
			// what is recorded as returned is the content at the time of the call
			kk := len(u)
			if kk > 12 {
				kk = 12
			}
			n = &bgp.Notification{Code: 3, Subcode: 1, Data: u[:kk]}
			pl.tr().log(pl.peer.key, "cb.exit", "handler", g, notifTerm(&bgp.Notification{Code: 3, Subcode: 1, Data: append([]byte(nil), entry[:kk]...)}))
			return n
		}
		pl.tr().log(pl.peer.key, "cb.exit", "handler", g, notifTerm(n))
		return n
	}
}

func (pl *Plugin) OnClose(c bgp.PeerConfig) {
	g := gid()
	pl.tr().log(pl.peer.key, "cb.enter", "OnClose", g)
	if pl.CloseDelay > 0 {
		time.Sleep(pl.CloseDelay)
	}
	pl.tr().log(pl.peer.key, "cb.exit", "OnClose", g)
}

// waitWriters waits for the writer goroutines; those that never return stay "pending" in the trace.
func (pl *Plugin) waitWriters(timeout time.Duration) {
	done := make(chan struct{})
	go func() { pl.wg.Wait(); close(done) }()
	select {
	case <-done:
	case <-time.After(timeout):
	}
}

// aliasCheck re-compares every delivered slice with the private copy taken at delivery.
func (pl *Plugin) aliasCheck() {
	pl.mu.Lock()
	defer pl.mu.Unlock()
	bad := 0
	for i := range pl.slices {
		if !bytes.Equal(pl.slices[i], pl.delivered[i]) {
			bad++
		}
	}
	pl.tr().log(pl.peer.key, "alias", strconv.Itoa(len(pl.slices)), strconv.Itoa(bad))
}

// ---------------------------------------------------------------- remote speaker

type Remote struct {
	peer  *Peer
	lis   net.Listener
	mu    sync.Mutex
	nIn   int // connections corebgp accepted from us ("in" from corebgp's point of view)
	nOut  int // connections corebgp dialled to us
	conns []*Conn
	accCh chan *Conn
}

type Conn struct {
	r      *Remote
	id     string
	c      net.Conn
	mu     sync.Mutex
	rcvd   []byte
	ended  string // "", "eof", "rst"
	nsent  int
	closed bool
	finned bool // half-closed by us: the end corebgp makes is still observed
	paused bool // the remote does not read for the moment (its receive window fills up)
}

// smallWindow shrinks the remote's receive buffer so that a writer on the other side blocks after little data
func (c *Conn) smallWindow() {
	if tc, ok := c.c.(*net.TCPConn); ok {
		tc.SetReadBuffer(32768)
	}
}

// resumeReads ends a pause early
func (c *Conn) resumeReads() {
	c.mu.Lock()
	was := c.paused
	c.paused = false
	c.mu.Unlock()
	if was {
		c.r.tr().log(c.r.peer.key, "r.resume", c.id)
	}
}

// pauseReads makes the remote stop reading for d (it keeps the connection open and may keep sending)
func (c *Conn) pauseReads(d time.Duration) {
	c.mu.Lock()
	c.paused = true
	c.mu.Unlock()
	c.r.tr().log(c.r.peer.key, "r.pause", c.id, strconv.Itoa(int(d/time.Millisecond)))
	time.AfterFunc(d, c.resumeReads)
}

func newRemote(p *Peer) *Remote { return &Remote{peer: p, accCh: make(chan *Conn, 64)} }

func (r *Remote) tr() *Trace { return r.peer.env.tr }

func (r *Remote) hostPort(port int) string {
	return net.JoinHostPort(r.peer.addr.String(), strconv.Itoa(port))
}

// reservePort finds a free port on the peer's address.
func (r *Remote) reservePort() int {
	l, err := net.Listen("tcp", r.hostPort(0))
	if err != nil {
		panic(err)
	}
	port := l.Addr().(*net.TCPAddr).Port
	l.Close()
	return port
}

func (r *Remote) listen() {
	l, err := net.Listen("tcp", r.hostPort(r.peer.port))
	if err != nil {
		panic(err)
	}
	r.mu.Lock()
	r.lis = l
	r.mu.Unlock()
	r.tr().log(r.peer.key, "listen", "open")
	go func() {
		for {
			c, err := l.Accept()
			if err != nil {
				return
			}
			r.mu.Lock()
			r.nOut++
			cn := &Conn{r: r, id: fmt.Sprintf("o%d", r.nOut), c: c}
			r.conns = append(r.conns, cn)
			r.mu.Unlock()
			r.tr().log(r.peer.key, "conn", cn.id, "accepted")
			go cn.readLoop()
			r.accCh <- cn
		}
	}()
}

// stall makes connects to the peer's port hang: a listening socket with backlog 0 whose accept queue
// is full, so the kernel drops further SYNs (Linux). Returns a function that ends the stall.
func (r *Remote) stall() (end func()) {
	fd, err := syscall.Socket(syscall.AF_INET, syscall.SOCK_STREAM, 0)
	if err != nil {
		panic(err)
	}
	syscall.SetsockoptInt(fd, syscall.SOL_SOCKET, syscall.SO_REUSEADDR, 1)
	a4 := r.peer.addr.As4()
	if err := syscall.Bind(fd, &syscall.SockaddrInet4{Port: r.peer.port, Addr: a4}); err != nil {
		panic(err)
	}
	if err := syscall.Listen(fd, 0); err != nil {
		panic(err)
	}
	// fill the accept queue (backlog 0 admits one connection)
	var fillers []net.Conn
	for i := 0; i < 2; i++ {
		c, err := net.DialTimeout("tcp", r.hostPort(r.peer.port), 200*time.Millisecond)
		if err == nil {
			fillers = append(fillers, c)
		}
	}
	r.tr().log(r.peer.key, "listen", "stalled")
	return func() {
		for _, c := range fillers {
			c.Close()
		}
		syscall.Close(fd)
		r.tr().log(r.peer.key, "listen", "closed")
	}
}

func (r *Remote) unlisten() {
	r.mu.Lock()
	l := r.lis
	r.lis = nil
	r.mu.Unlock()
	if l != nil {
		r.tr().log(r.peer.key, "listen", "closed")
		l.Close()
	}
}

// accept waits for corebgp's next outbound connection.
func (r *Remote) accept(timeout time.Duration) *Conn {
	select {
	case c := <-r.accCh:
		return c
	case <-time.After(timeout):
		r.peer.env.fail("timeout waiting for corebgp to dial %s", r.peer.key)
		return nil
	}
}

// dial connects to corebgp's listener from the peer's address (or from src if given).
func (r *Remote) dialFrom(src string, to string) *Conn {
	d := net.Dialer{LocalAddr: &net.TCPAddr{IP: net.ParseIP(src)}, Timeout: 2 * time.Second}
	r.mu.Lock()
	r.nIn++
	id := fmt.Sprintf("i%d", r.nIn)
	r.mu.Unlock()
	c, err := d.Dial("tcp", to)
	if err != nil {
		r.tr().log(r.peer.key, "conn", id, "dialfailed")
		return nil
	}
	cn := &Conn{r: r, id: id, c: c}
	r.mu.Lock()
	r.conns = append(r.conns, cn)
	r.mu.Unlock()
	r.tr().log(r.peer.key, "conn", id, "dialed")
	go cn.readLoop()
	return cn
}

func (r *Remote) dial() *Conn { return r.dialFrom(r.peer.addr.String(), r.peer.env.lisAddr) }

func (c *Conn) readLoop() {
	buf := make([]byte, 65536)
	for {
		for {
			c.mu.Lock()
			p := c.paused
			c.mu.Unlock()
			if !p {
				break
			}
			time.Sleep(2 * time.Millisecond)
		}
		n, err := c.c.Read(buf)
		if n > 0 {
			c.mu.Lock()
			c.rcvd = append(c.rcvd, buf[:n]...)
			c.mu.Unlock()
			c.r.tr().log(c.r.peer.key, "r.recv", c.id, hx(buf[:n]))
		}
		if err != nil {
			c.mu.Lock()
			closed := c.closed && !c.finned
			finned := c.finned
			c.mu.Unlock()
			e := "rst"
			if err == io.EOF {
				e = "eof"
			}
			if !closed {
				c.r.tr().log(c.r.peer.key, "r."+e, c.id)
			}
			if finned {
				c.c.Close()
			}
			// only now visible to waiters: the event is in the trace before anyone acts on the end
			c.mu.Lock()
			c.ended = e
			c.mu.Unlock()
			return
		}
	}
}

// send writes b in the given segment sizes (one write per segment; remainder in one write).
func (c *Conn) send(b []byte, segs ...int) {
	if c == nil {
		return
	}
	if tc, ok := c.c.(*net.TCPConn); ok {
		tc.SetNoDelay(true)
	}
	for len(b) > 0 {
		n := len(b)
		if len(segs) > 0 {
			if segs[0] < n && segs[0] > 0 {
				n = segs[0]
			}
			segs = segs[1:]
		}
		c.r.tr().log(c.r.peer.key, "r.send", c.id, hx(b[:n]))
		c.c.SetWriteDeadline(time.Now().Add(2 * time.Second))
		_, err := c.c.Write(b[:n])
		if err != nil {
			c.r.tr().log(c.r.peer.key, "r.sendfail", c.id)
			return
		}
		b = b[n:]
		if len(segs) > 0 || len(b) > 0 {
			time.Sleep(200 * time.Microsecond)
		}
	}
}

func (c *Conn) close() {
	if c == nil {
		return
	}
	c.mu.Lock()
	c.closed = true
	c.mu.Unlock()
	c.r.tr().log(c.r.peer.key, "r.close", c.id)
	c.c.Close()
}

// fin half-closes the connection: everything sent before it will be read by corebgp before it sees the end
// of the stream (no reset can overtake data). The connection is closed once corebgp has closed its side.
func (c *Conn) fin() {
	if c == nil {
		return
	}
	c.mu.Lock()
	c.closed = true
	c.finned = true
	c.mu.Unlock()
	c.r.tr().log(c.r.peer.key, "r.close", c.id, "fin")
	if tc, ok := c.c.(*net.TCPConn); ok {
		tc.CloseWrite()
	} else {
		c.c.Close()
	}
}

func (c *Conn) reset() {
	if c == nil {
		return
	}
	c.mu.Lock()
	c.closed = true
	c.mu.Unlock()
	c.r.tr().log(c.r.peer.key, "r.reset", c.id)
	if tc, ok := c.c.(*net.TCPConn); ok {
		tc.SetLinger(0)
	}
	c.c.Close()
}

// waitMsgs waits until at least n whole messages were received (or the connection ended).
func (c *Conn) waitMsgs(n int, timeout time.Duration) [][]byte {
	if c == nil {
		return nil
	}
	deadline := time.Now().Add(timeout)
	for {
		c.mu.Lock()
		msgs, _ := wire.Split(c.rcvd)
		ended := c.ended
		c.mu.Unlock()
		if len(msgs) >= n || ended != "" {
			return msgs
		}
		if time.Now().After(deadline) {
			c.r.peer.env.fail("timeout waiting for %d messages on %s %s", n, c.r.peer.key, c.id)
			return msgs
		}
		time.Sleep(200 * time.Microsecond)
	}
}

// waitEnd waits until the remote side saw EOF or a reset.
func (c *Conn) waitEnd(timeout time.Duration) string {
	if c == nil {
		return ""
	}
	deadline := time.Now().Add(timeout)
	for {
		c.mu.Lock()
		e := c.ended
		c.mu.Unlock()
		if e != "" {
			return e
		}
		if time.Now().After(deadline) {
			c.r.peer.env.fail("timeout waiting for end of %s %s", c.r.peer.key, c.id)
			return ""
		}
		time.Sleep(200 * time.Microsecond)
	}
}

// drainClose closes without provoking a reset: everything corebgp wrote is read first.
func (c *Conn) drainClose() {
	if c == nil {
		return
	}
	time.Sleep(2 * time.Millisecond)
	c.close()
}
