package main

import (
	"fmt"
	"math/rand"
	"strconv"
	"strings"
	"time"

	bgp "github.com/jwhited/corebgp"
	"verif/harness/wire"
)

const (
	localAS   = 65001
	remoteAS  = 65002
	remoteID  = 0x0a0000c8 // 10.0.0.200 > local 10.0.0.100
	stepWait  = 3 * time.Second
	shortWait = 300 * time.Millisecond
)

func argMap(args []string) map[string]string {
	m := map[string]string{}
	for _, a := range args {
		if i := strings.Index(a, "="); i > 0 {
			m[a[:i]] = a[i+1:]
		}
	}
	return m
}

func atoi(s string, def int) int {
	if n, err := strconv.Atoi(s); err == nil {
		return n
	}
	return def
}

// bring drives one connection of peer p to the given state. dir "out": corebgp dials the
// remote; "in": the remote dials corebgp. Returns nil if it could not get there.
func (p *Peer) bring(dir, state string, remoteHold uint16, rid uint32) *Conn {
	var c *Conn
	from := p.mark
	if dir == "out" {
		c = p.remote.accept(stepWait)
	} else {
		c = p.remote.dial()
	}
	if c == nil {
		return nil
	}
	if len(c.waitMsgs(1, stepWait)) < 1 {
		return c
	}
	if p.waitEv(from, stepWait, "log.t", dir, "*", "openSent") < 0 || state == "openSent" {
		return c
	}
	c.send(wire.Open(remoteAS, remoteHold, rid, append([]wire.Cap{{Code: 77, Val: []byte(c.id)}}, p.env.extraCaps...)...))
	if len(c.waitMsgs(2, stepWait)) < 2 {
		return c
	}
	if p.waitEv(from, stepWait, "log.t", dir, "openSent", "openConfirm") < 0 || state == "openConfirm" {
		return c
	}
	c.send(wire.Keepalive())
	p.waitEv(from, stepWait, "cb.exit", "OnEstablished")
	return c
}

func stimulus(name string, r *rand.Rand) []byte {
	ff := make([]byte, 16)
	for i := range ff {
		ff[i] = 0xff
	}
	switch name {
	case "open":
		return wire.Open(remoteAS, 90, remoteID, wire.Cap{Code: 77, Val: []byte("x")})
	case "update":
		return wire.Update([]byte{0, 0, 0, 0})
	case "ka":
		return wire.Keepalive()
	case "notif-cease":
		return wire.Notification(6, 2, nil)
	case "notif-other":
		return wire.Notification(3, 1, []byte{1, 2, 3})
	case "notif-hold":
		return wire.Notification(4, 0, nil)
	case "notif-short":
		return wire.Header(3, []byte{6})
	case "notif-shutdown255":
		// RFC 9003: Cease / Administrative Shutdown with the longest legal Shutdown Communication
		d := make([]byte, 256)
		d[0] = 255
		for i := 1; i < 256; i++ {
			d[i] = byte('a' + i%26)
		}
		return wire.Notification(6, 2, d)
	case "notif-max":
		// a NOTIFICATION that fills the largest message the header allows (4096 octets)
		return wire.Notification(6, 2, make([]byte, 4075))
	case "update-max":
		return wire.Update(make([]byte, 4077))
	case "notif-shutdown-short":
		// a length octet that promises more than is there
		return wire.Notification(6, 4, []byte{200, 'x', 'y'})
	case "badmarker":
		b := wire.Keepalive()
		b[r.Intn(16)] = 0xfe
		return b
	case "badlen-short":
		return append(append([]byte(nil), ff...), 0, 18, 4)
	case "badlen-long":
		return append(append([]byte(nil), ff...), 0x10, 0x01, 2)
	case "badtype":
		return append(append([]byte(nil), ff...), 0, 19, 9)
	case "badtype-body":
		return append(append(append([]byte(nil), ff...), 0, 22, 0), 1, 2, 3)
	}
	if strings.HasPrefix(name, "notif.") { // notif.<code>.<sub>
		f := strings.Split(name, ".")
		return wire.Notification(uint8(atoi(f[1], 1)), uint8(atoi(f[2], 0)), nil)
	}
	panic("unknown stimulus " + name)
}

// state-msg:<dir>:<state>:<stimulus>[:seg=<n>][:hold=<s>]
func scenStateMsg(e *Env, args []string, r *rand.Rand) {
	dir, state, stim := args[0], args[1], args[2]
	m := argMap(args)
	hold := uint16(atoi(m["hold"], 90))
	if m["cap6"] == "1" {
		// the remote announces the Extended Message capability (RFC 8654), which corebgp does not: the 4096-octet bound stays
		e.extraCaps = []wire.Cap{{Code: 6}}
	}
	ihold := 5 * time.Second
	if m["second"] == "1" {
		ihold = 30 * time.Millisecond
	}
	p := e.addPeer(1, PeerOpts{LocalAS: localAS, RemoteAS: remoteAS, Hold: hold, Passive: dir == "in", IdleHold: ihold})
	// busy=<ms>: the plugin takes that long in OnOpenMessage and in every handler call, so that what the remote
	// sends next is already waiting in the reader when the FSM goroutine comes back
	if b := atoi(m["busy"], 0); b > 0 {
		p.plugin.OpenDelay = time.Duration(b) * time.Millisecond
		p.plugin.HandlerDelay = time.Duration(b) * time.Millisecond
	}
	if d := atoi(m["slowlog"], 0); d > 0 {
		e.logDelay = time.Duration(d) * time.Millisecond
	}
	e.serve()
	if m["second"] == "1" {
		// the stimulus hits the SECOND connection of the same (outbound) FSM: the first session is ended by a Cease
		p.waitEv(0, stepWait, "api.ret", "AddPeer")
	}
	// state "estrace": the stimulus travels directly behind the KEEPALIVE that establishes the session (one
	// write), so it is already waiting when the FSM enters Established
	estrace := state == "estrace"
	if estrace {
		state = "openConfirm"
	}
	rhold := uint16(atoi(m["rhold"], 90))
	c := p.bring(dir, state, rhold, remoteID)
	if w := atoi(m["wait"], 0); w > 0 && c != nil {
		// the stimulus comes after a long quiet time
		time.Sleep(time.Duration(w) * time.Millisecond)
	}
	if c != nil && m["second"] == "1" {
		p.mark = e.tr.len()
		switch m["prelude"] {
		case "cease-trail":
			// the Cease that ends the first connection has further octets behind it in the same write
			c.send(append(wire.Notification(6, 4, nil), 0xff, 0xff, 0xff, 0x01, 0x02))
		case "cut":
			// the first connection ends in the middle of a message
			b := wire.Update([]byte{1, 2, 3, 4, 5, 6, 7, 8, 9})
			c.send(b[:24])
			c.fin()
		default:
			c.send(wire.Notification(6, 4, nil))
		}
		c.waitEnd(stepWait)
		c = p.bring(dir, state, rhold, remoteID)
	}
	if c != nil {
		pre := []byte(nil)
		if estrace {
			pre = wire.Keepalive()
		}
		switch stim {
		case "fin":
			if estrace {
				c.send(pre)
				c.fin()
				c.waitEnd(stepWait)
			} else {
				c.drainClose()
			}
		case "fin-midheader", "fin-midbody":
			// the stream ends inside a message: a transport failure like any other (no NOTIFICATION is due)
			b := wire.Update([]byte{1, 2, 3, 4, 5, 6, 7, 8})
			if stim == "fin-midheader" {
				c.send(b[:7])
			} else {
				c.send(b[:23])
			}
			c.drainClose()
		case "rst":
			c.reset()
		default:
			b := append(pre, stimulus(stim, r)...)
			// trail=<n>: n further well-formed messages directly behind the stimulus, in the same write: whatever
			// the stimulus does to the session, they must not wedge or crash anything
			for i := atoi(m["trail"], 0); i > 0; i-- {
				if i%2 == 1 {
					b = append(b, wire.Keepalive()...)
				} else {
					b = append(b, wire.Update([]byte{0, 0, 0, 0})...)
				}
			}
			if gap := atoi(m["gap"], 0); gap > 0 {
				// one message cut in two writes with a real pause between them
				cut := 5 + r.Intn(len(b)-5)
				c.send(b[:cut])
				time.Sleep(time.Duration(gap) * time.Millisecond)
				c.send(b[cut:])
			} else if s := atoi(m["seg"], 0); s > 0 {
				segs := make([]int, 0, len(b)/s+1)
				for i := 0; i < len(b)/s+1; i++ {
					segs = append(segs, s)
				}
				c.send(b, segs...)
			} else {
				c.send(b)
			}
			if m["fin"] == "1" {
				// the remote half-closes directly behind what it sent: all of it is still read and acted upon
				c.fin()
				c.waitEnd(stepWait)
			} else if stim == "update-max" && state == "established" {
				time.Sleep(20 * time.Millisecond)
			} else if stim != "update" && !(stim == "ka" && state != "openSent") && !(stim == "open" && state == "openSent") {
				c.waitEnd(stepWait)
			} else {
				time.Sleep(20 * time.Millisecond)
			}
		}
		time.Sleep(20 * time.Millisecond)
	}
	e.close()
	p.plugin.aliasCheck()
}

// OPEN variants for the handshake grid (C02): name -> body
func openVariant(name string, lid uint32) []byte {
	cap4 := wire.Cap{Code: 65, Val: wire.BE32(remoteAS)}
	mp := wire.Cap{Code: 1, Val: []byte{0, 1, 0, 1}}
	ok := func(ver uint8, asn, hold uint16, id uint32, ps []wire.Param) []byte {
		return wire.OpenBody(ver, asn, hold, id, ps)
	}
	std := []wire.Param{{Typ: 2, Caps: []wire.Cap{cap4, mp}}}
	switch name {
	case "valid":
		return ok(4, remoteAS, 90, remoteID, std)
	case "valid-2params":
		return ok(4, remoteAS, 90, remoteID, []wire.Param{{Typ: 2, Caps: []wire.Cap{mp}}, {Typ: 2, Caps: []wire.Cap{cap4, {Code: 70, Val: []byte{1, 2, 3}}}}})
	case "maxsize", "maxsize-1":
		// the largest message the header allows (4096 octets; and one less): a well-framed but malformed OPEN, which
		// is an OPEN Message Error, not a header error
		b := ok(4, remoteAS, 90, remoteID, std)
		n := 4077
		if name == "maxsize-1" {
			n = 4076
		}
		for len(b) < n {
			b = append(b, byte(len(b)))
		}
		return b
	case "valid-cap4-first-of-3":
		// the 4-octet-AS capability sits in the first of three capability parameters (RFC 5492 allows the split)
		return ok(4, remoteAS, 90, remoteID, []wire.Param{{Typ: 2, Caps: []wire.Cap{cap4}}, {Typ: 2, Caps: []wire.Cap{mp}}, {Typ: 2, Caps: []wire.Cap{{Code: 70, Val: []byte{9}}}}})
	case "valid-id240":
		return ok(4, remoteAS, 90, 0xf0000001, std)
	case "valid-id255":
		return ok(4, remoteAS, 90, 0xfffffffe, std)
	case "valid-id223":
		return ok(4, remoteAS, 90, 0xdfffffff, std)
	case "id-multicast239":
		return ok(4, remoteAS, 90, 0xefffffff, std)
	case "valid-astrans":
		return ok(4, 23456, 90, remoteID, std)
	case "valid-hold0":
		return ok(4, remoteAS, 0, remoteID, std)
	case "valid-hold3":
		return ok(4, remoteAS, 3, remoteID, std)
	case "version3":
		return ok(3, remoteAS, 90, remoteID, std)
	case "badas":
		return ok(4, remoteAS+1, 90, remoteID, std)
	case "badas4":
		return ok(4, remoteAS, 90, remoteID, []wire.Param{{Typ: 2, Caps: []wire.Cap{{Code: 65, Val: wire.BE32(remoteAS + 1)}}}})
	case "astrans-nocap":
		return ok(4, 23456, 90, remoteID, []wire.Param{{Typ: 2, Caps: []wire.Cap{mp}}})
	case "hold1":
		return ok(4, remoteAS, 1, remoteID, std)
	case "hold2":
		return ok(4, remoteAS, 2, remoteID, std)
	case "id-multicast":
		return ok(4, remoteAS, 90, 0xe0000001, std)
	case "nocap4":
		return ok(4, remoteAS, 90, remoteID, []wire.Param{{Typ: 2, Caps: []wire.Cap{mp}}})
	case "cap4-len3":
		return ok(4, remoteAS, 90, remoteID, []wire.Param{{Typ: 2, Caps: []wire.Cap{{Code: 65, Val: []byte{1, 2, 3}}}}})
	case "param-unknown":
		return ok(4, remoteAS, 90, remoteID, []wire.Param{{Typ: 1, Raw: []byte{1, 2}}, {Typ: 2, Caps: []wire.Cap{cap4}}})
	case "noparams":
		return ok(4, remoteAS, 90, remoteID, nil)
	case "emptyparam":
		return ok(4, remoteAS, 90, remoteID, []wire.Param{{Typ: 2, Raw: []byte{}}})
	case "optlen-long":
		b := ok(4, remoteAS, 90, remoteID, std)
		b[9]++
		return b
	case "cap-overrun":
		b := ok(4, remoteAS, 90, remoteID, std)
		b[len(b)-5] += 3
		return b
	case "short":
		return ok(4, remoteAS, 90, remoteID, std)[:7]
	}
	panic("unknown open variant " + name)
}

var openVariants = []string{"valid", "valid-2params", "valid-astrans", "valid-hold0", "valid-hold3", "version3", "badas", "badas4",
	"astrans-nocap", "hold1", "hold2", "id-multicast", "nocap4", "cap4-len3", "param-unknown", "noparams", "emptyparam",
	"optlen-long", "cap-overrun", "short", "maxsize", "maxsize-1", "valid-cap4-first-of-3", "valid-id240", "valid-id255", "valid-id223", "id-multicast239"}

// handshake:<dir>:<variant>[:veto][:sameas][:hold=<local hold>]
func scenHandshake(e *Env, args []string, r *rand.Rand) {
	dir, variant := args[0], args[1]
	m := argMap(args)
	veto, sameAS := false, false
	for _, a := range args {
		veto = veto || a == "veto"
		sameAS = sameAS || a == "sameas"
	}
	las := uint32(localAS)
	if sameAS {
		las = remoteAS
	}
	hold := uint16(atoi(m["hold"], 90))
	ihold := 5 * time.Second
	if m["prelude"] != "" {
		ihold = 200 * time.Millisecond
	}
	p := e.addPeer(1, PeerOpts{LocalAS: las, RemoteAS: remoteAS, Hold: hold, Passive: dir == "in", IdleHold: ihold})
	p.plugin.Caps = []bgp.Capability{{Code: 1, Value: []byte{0, 2, 0, 1}}}
	if veto {
		p.plugin.OpenVeto = &bgp.Notification{Code: 2, Subcode: 7, Data: []byte{9, 9}}
	}
	e.serve()
	if m["prelude"] == "insess" && dir == "out" {
		// history: the first outbound attempt is dropped by the remote, then an INBOUND session of the same peer comes
		// up and is ended by the remote with a Cease; the OPEN under test arrives on the outbound connection that follows
		if c0 := p.remote.accept(stepWait); c0 != nil {
			c0.waitMsgs(1, stepWait)
			c0.drainClose()
		}
		mk := e.tr.len()
		if ci := p.bring("in", "established", 90, remoteID); ci != nil {
			time.Sleep(20 * time.Millisecond)
			mk = e.tr.len() // (the outbound FSM is re-enabled and dials at once when the inbound session ends)
			ci.send(wire.Notification(6, 4, nil))
			ci.waitEnd(stepWait)
			p.waitEv(0, stepWait, "cb.exit", "OnClose")
		}
		p.mark = mk
	}
	c := p.bring(dir, "openSent", 90, remoteID)
	if c != nil {
		var body []byte
		if !strings.HasPrefix(variant, "valid-burst") {
			body = openVariant(variant, 0)
		}
		if m["prelude"] != "" {
			// several connections in this trace: the OPEN carries the connection tag
			if variant == "badas" {
				body = wire.Open(remoteAS+7, 90, remoteID, tag(c))[19:]
			} else {
				body = wire.Open(remoteAS, 90, remoteID, wire.Cap{Code: 1, Val: []byte{0, 1, 0, 1}}, tag(c))[19:]
			}
		}
		if sameAS && variant == "valid" { // identifier collision inside the same AS
			id := e.localID.As4()
			body = wire.OpenBody(4, remoteAS, 90, uint32(id[0])<<24|uint32(id[1])<<16|uint32(id[2])<<8|uint32(id[3]),
				[]wire.Param{{Typ: 2, Caps: []wire.Cap{{Code: 65, Val: wire.BE32(remoteAS)}}}})
		}
		if variant == "valid-burst" || variant == "valid-burst-notif" {
			// the OPEN with the next messages queued directly behind it, in one write
			burst := wire.Open(remoteAS, 90, remoteID, wire.Cap{Code: 1, Val: []byte{0, 1, 0, 1}}, wire.Cap{Code: 70, Val: []byte{9, 8, 7, 6, 5, 4, 3, 2, 1}}, tag(c))
			if variant == "valid-burst" {
				burst = append(burst, wire.Keepalive()...)
				for k := 0; k < 3; k++ {
					b := make([]byte, 40+r.Intn(200))
					r.Read(b)
					burst = append(burst, wire.Update(b)...)
				}
			} else {
				burst = append(burst, wire.Notification(6, 2, []byte("administratively shut down for maintenance, back soon"))...)
			}
			c.send(burst)
			if variant == "valid-burst" {
				p.waitEv(0, stepWait, "cb.exit", "OnEstablished")
				time.Sleep(20 * time.Millisecond)
			} else {
				c.waitEnd(stepWait)
			}
			e.close()
			return
		}
		if sp := atoi(m["split"], 0); sp > 0 && sp < len(body)+19 {
			// the OPEN arrives in two TCP segments, cut at octet <split>, with a pause in between
			whole := wire.Header(1, body)
			c.send(whole[:sp])
			time.Sleep(60 * time.Millisecond)
			c.send(whole[sp:])
		} else {
			c.send(wire.Header(1, body))
		}
		msgs := c.waitMsgs(2, stepWait)
		if len(msgs) >= 2 && msgs[1][18] == 4 {
			// accepted: complete the handshake, then exchange one UPDATE each way
			c.send(wire.Keepalive())
			from := 0
			if p.waitEv(from, stepWait, "cb.exit", "OnEstablished") >= 0 {
				c.send(wire.Update([]byte{0, 0, 0, 0}))
				p.waitEv(from, stepWait, "cb.exit", "handler")
			}
		} else {
			c.waitEnd(stepWait)
		}
		time.Sleep(10 * time.Millisecond)
	}
	e.close()
}

// updates:<dir>:n=<count>:veto=<k>  — random UPDATE / KEEPALIVE sequence, random segmentation (C03)
func scenUpdates(e *Env, args []string, r *rand.Rand) {
	dir := args[0]
	m := argMap(args)
	n := atoi(m["n"], 20)
	veto := atoi(m["veto"], 0)
	lhold := uint16(atoi(m["hold"], 90))
	ihold := 5 * time.Second
	if m["second"] == "1" {
		ihold = 50 * time.Millisecond
	}
	p := e.addPeer(1, PeerOpts{LocalAS: localAS, RemoteAS: remoteAS, Hold: lhold, Passive: dir == "in", IdleHold: ihold})
	if veto > 0 {
		p.plugin.HandlerVeto = veto
		p.plugin.VetoNotif = &bgp.Notification{Code: 3, Subcode: 9, Data: []byte{7}}
	}
	// slow=<µs>: the handler takes that long, so the reader gets ahead of the FSM goroutine
	p.plugin.HandlerDelay = time.Duration(atoi(m["slow"], 0)) * time.Microsecond
	if ve := atoi(m["echo"], 0); ve > 0 {
		p.plugin.VetoEcho = ve
	}
	p.plugin.HandlerAppend = atoi(m["append"], 0)
	// end=fin | badhdr: the remote half-closes (or sends a faulty header) directly behind the last UPDATE: every
	// UPDATE it sent before that must still be delivered
	end := m["end"]
	// est=<ms>: OnEstablished takes that long (longer than the negotiated hold time of 3 s); the UPDATEs travel in
	// the same write as the KEEPALIVE that establishes the session, so they are parked in the reader when the hold
	// timer fires: the session either expires or delivers every one of them, in order
	est := atoi(m["est"], 0)
	e.serve()
	var c *Conn
	if m["second"] == "1" {
		// an earlier session of the same peer (dir=out: of the same FSM object) carried one UPDATE and was ended by the
		// remote with a Cease; what follows is the next session
		veto0 := p.plugin.HandlerVeto
		p.plugin.HandlerVeto = 0
		c0 := p.bring(dir, "established", 90, remoteID)
		if c0 != nil {
			c0.send(wire.Update([]byte{0, 0, 0, 0}))
			time.Sleep(20 * time.Millisecond)
			c0.send(wire.Notification(6, 2, nil))
			c0.waitEnd(stepWait)
			p.waitEv(0, stepWait, "cb.exit", "OnClose")
		}
		p.plugin.mu.Lock()
		p.plugin.HandlerVeto = veto0
		if veto0 > 0 {
			p.plugin.HandlerVeto = veto0 + len(p.plugin.delivered)
		}
		p.plugin.mu.Unlock()
		p.mark = e.tr.len()
	}
	if est > 0 {
		p.plugin.EstDelay = time.Duration(est) * time.Millisecond
		c = p.bring(dir, "openConfirm", 3, remoteID)
	} else {
		c = p.bring(dir, "established", 90, remoteID)
	}
	if c != nil {
		var stream []byte
		var msgLens []int
		nupd := 0
		if est > 0 {
			stream = append(stream, wire.Keepalive()...)
		}
		for i := 0; i < n; i++ {
			if r.Intn(5) == 0 && m["nokeep"] != "1" {
				stream = append(stream, wire.Keepalive()...)
				msgLens = append(msgLens, 19)
				continue
			}
			l := r.Intn(24)
			switch r.Intn(12) {
			case 0:
				l = 0
			case 1:
				l = 4077
			case 2:
				l = 200 + r.Intn(2000)
			}
			body := make([]byte, l)
			r.Read(body)
			stream = append(stream, wire.Update(body)...)
			msgLens = append(msgLens, 19+l)
			nupd++
		}
		// random partition into writes: 1-byte writes, writes spanning several messages, …
		var segs []int
		mode := r.Intn(4)
		if end != "" || est > 0 || atoi(m["slow"], 0) >= 4000 {
			mode = 1 // large writes: the reader must be able to get ahead of the (slow) handler
		}
		for rem := len(stream); rem > 0; {
			var s int
			switch mode {
			case 0:
				s = 1 + r.Intn(3)
				if rem > 400 {
					s = 1 + r.Intn(60)
				}
			case 1:
				s = 1 + r.Intn(5000)
			case 2:
				s = 19
			default:
				s = 1 + r.Intn(100)
			}
			if s > rem {
				s = rem
			}
			segs = append(segs, s)
			rem -= s
		}
		if end == "badhdr" {
			bad := wire.Keepalive()
			bad[18] = 9
			stream = append(stream, bad...)
			segs = append(segs, len(bad))
		}
		if gap := atoi(m["gapms"], 0); gap > 0 {
			// a steady stream: one message every <gap> ms (far below any hold time), for longer than the hold time
			off := 0
			for _, sg := range msgLens {
				c.send(stream[off : off+sg])
				off += sg
				time.Sleep(time.Duration(gap) * time.Millisecond)
			}
		} else if pause := atoi(m["pause"], 0); pause > 0 && len(stream) > 40 {
			// one long pause inside a message (after its first 7 bytes, or inside its body): far below any hold time
			cut := 7
			if r.Intn(2) == 0 {
				cut = 19 + 3
			}
			c.send(stream[:cut])
			time.Sleep(time.Duration(pause) * time.Millisecond)
			c.send(stream[cut:])
		} else {
			c.send(stream, segs...)
		}
		if end == "fin" {
			c.fin()
		}
		// wait until everything was delivered (or the session ended)
		want := nupd
		if veto > 0 && veto <= nupd {
			want = veto
		}
		if ve := atoi(m["echo"], 0); ve > 0 && ve <= nupd {
			want = ve
		}
		deadline := time.Now().Add(5*time.Second + time.Duration(est)*time.Millisecond + time.Duration(n*atoi(m["slow"], 0))*time.Microsecond)
		for time.Now().Before(deadline) {
			p.plugin.mu.Lock()
			got := len(p.plugin.delivered)
			p.plugin.mu.Unlock()
			if got >= want {
				break
			}
			c.mu.Lock()
			ended := c.ended
			c.mu.Unlock()
			if est > 0 && ended != "" {
				break
			}
			time.Sleep(time.Millisecond)
		}
		if (veto > 0 && veto <= nupd) || end != "" || atoi(m["echo"], 0) > 0 {
			c.waitEnd(stepWait)
		}
		time.Sleep(10 * time.Millisecond)
	}
	e.close()
	p.plugin.aliasCheck()
}

func init() {
	families["state-msg"] = scenStateMsg
	families["handshake"] = scenHandshake
	families["updates"] = scenUpdates

	scenarioLists["C09"] = func(tier string, r *rand.Rand) []string {
		var out []string
		for _, dir := range []string{"out", "in"} {
			for _, st := range []string{"openSent", "openConfirm", "established"} {
				for _, s := range []string{"open", "update", "ka", "notif-cease", "notif-other", "notif-hold", "notif-short", "notif-shutdown255", "notif-shutdown-short", "notif-max", "update-max", "fin", "fin-midheader", "fin-midbody", "rst"} {
					out = append(out, fmt.Sprintf("state-msg:%s:%s:%s", dir, st, s))
				}
				if dir == "out" {
					// the same on the second connection of a reused outbound FSM
					for _, s := range []string{"open", "notif-other", "fin"} {
						out = append(out, fmt.Sprintf("state-msg:%s:%s:%s:second=1", dir, st, s))
					}
					out = append(out, fmt.Sprintf("state-msg:%s:%s:ka:second=1:prelude=cease-trail", dir, st), fmt.Sprintf("state-msg:%s:%s:update:second=1:prelude=cut", dir, st))
				}
				// further messages directly behind one that ends (or does not end) the session, in the same write
				for _, s := range []string{"open", "update", "ka", "notif-cease", "notif-other", "badtype"} {
					out = append(out, fmt.Sprintf("state-msg:%s:%s:%s:trail=%d", dir, st, s, 1+len(s)%3))
				}
				if tier == "thorough" {
					for code := 1; code <= 7; code++ {
						for _, sub := range []int{0, 1, 9} {
							out = append(out, fmt.Sprintf("state-msg:%s:%s:notif.%d.%d", dir, st, code, sub))
						}
					}
				}
			}
		}
		// OPEN, further messages and FIN in one go while the plugin is busy in OnOpenMessage; an unexpected message
		// and FIN while the handler is busy
		for _, dir := range []string{"out", "in"} {
			for i := 0; i < 3; i++ {
				out = append(out, fmt.Sprintf("state-msg:%s:openSent:open:trail=2:fin=1:busy=3:i=%d", dir, i),
					fmt.Sprintf("state-msg:%s:openSent:open:trail=1:fin=1:busy=3:i=%d", dir, i),
					fmt.Sprintf("state-msg:%s:estrace:open:fin=1:busy=3:i=%d", dir, i))
			}
			out = append(out, fmt.Sprintf("state-msg:%s:openConfirm:update:fin=1", dir), fmt.Sprintf("state-msg:%s:established:open:fin=1", dir))
			// an unexpected message pipelined behind the message that causes the transition, while the Logger is slow:
			// the subcode names the state the FSM is in, not the one the manager has recorded so far
			out = append(out, fmt.Sprintf("state-msg:%s:openSent:open:trail=2:slowlog=25", dir), fmt.Sprintf("state-msg:%s:estrace:open:slowlog=25", dir),
				fmt.Sprintf("state-msg:%s:openSent:ka:slowlog=25", dir))
		}
		// negotiated hold time 0: UPDATEs, then a faulty header / FIN
		out = append(out, "updates:in:n=8:hold=0:end=badhdr:k=c9a", "updates:out:n=8:hold=0:end=fin:k=c9b")
		// a Cease arrives while application writers are blocked by the remote's full window
		out = append(out, "writers:out:k=3:n=60:end=none:inside=0:big=1:stall=2600:ceaseat=300:ms=100:i=0", "writers:out:k=3:n=60:end=none:inside=0:big=1:stall=2600:ceaseat=500:ms=100:i=1")
		// the stimulus travels directly behind the KEEPALIVE that establishes the session
		for _, dir := range []string{"out", "in"} {
			for _, s := range []string{"open", "update", "ka", "notif-cease", "notif-other", "fin", "rst", "badmarker"} {
				out = append(out, fmt.Sprintf("state-msg:%s:estrace:%s", dir, s))
			}
		}
		return out
	}
	scenarioLists["C08"] = func(tier string, r *rand.Rand) []string {
		var out []string
		for _, dir := range []string{"out", "in"} {
			for _, st := range []string{"openSent", "openConfirm", "established"} {
				for _, s := range []string{"badmarker", "badlen-short", "badlen-long", "badtype", "badtype-body"} {
					for _, seg := range []int{0, 1, 7} {
						if tier != "thorough" && seg == 7 {
							continue
						}
						out = append(out, fmt.Sprintf("state-msg:%s:%s:%s:seg=%d", dir, st, s, seg))
					}
				}
				// a fault long after the last KEEPALIVE corebgp sent (negotiated hold time 0, configured 3 s): the NOTIFICATION
				// still reaches the wire
				if st != "openSent" {
					out = append(out, fmt.Sprintf("state-msg:%s:%s:badmarker:hold=3:rhold=0:wait=3300", dir, st))
				}
				// what was left unread of an earlier connection of the same FSM (a cut message, octets behind a Cease) is not
				// read into the next connection
				if dir == "out" {
					out = append(out, fmt.Sprintf("state-msg:out:%s:ka:second=1:prelude=cease-trail", st), fmt.Sprintf("state-msg:out:%s:update:second=1:prelude=cut", st),
						fmt.Sprintf("state-msg:out:%s:open:second=1:prelude=cut", st))
				}
				// the NOTIFICATION corebgp answers with reaches the wire in one piece also while the application writes
				if dir == "in" && st == "established" {
					out = append(out, "writers:in:k=3:n=300:end=fsmerr:inside=0:pause=1:adv=1:ms=120:i=0", "writers:in:k=3:n=300:end=fsmerr:inside=0:pause=1:adv=1:ms=140:i=1")
				}
				// the remote announced the Extended Message capability: the length bound is still 4096
				if st != "openSent" {
					out = append(out, fmt.Sprintf("state-msg:%s:%s:badlen-long:cap6=1", dir, st), fmt.Sprintf("state-msg:%s:%s:badtype:cap6=1", dir, st))
				}
				// a well-formed message cut in two with a real pause (> 1 s) between the parts
				out = append(out, fmt.Sprintf("state-msg:%s:%s:%s:gap=1300", dir, st, map[string]string{"openSent": "open", "openConfirm": "ka", "established": "update"}[st]))
			}
		}
		return out
	}
	{
		prev := scenarioLists["C08"]
		scenarioLists["C08"] = func(tier string, r *rand.Rand) []string {
			out := prev(tier, r)
			// messages pipelined behind an UPDATE while its handler is still busy (what the handler holds, and a
			// NOTIFICATION built from it, are not overwritten by what the reader reads next)
			out = append(out, "updates:in:n=14:slow=3000:end=badhdr:k=c8a", "updates:out:n=14:slow=3000:echo=3:k=c8b", "updates:in:n=14:slow=3000:echo=2:k=c8d", "updates:in:n=10:hold=0:end=badhdr:k=c8c")
			return out
		}
	}
	scenarioLists["C02"] = func(tier string, r *rand.Rand) []string {
		var out []string
		for _, dir := range []string{"out", "in"} {
			for _, v := range openVariants {
				out = append(out, fmt.Sprintf("handshake:%s:%s", dir, v))
			}
			out = append(out, fmt.Sprintf("handshake:%s:valid-burst", dir), fmt.Sprintf("handshake:%s:valid-burst-notif", dir))
			for _, sp := range []int{10, 19, 24, 29, 35, 44} {
				out = append(out, fmt.Sprintf("handshake:%s:valid-2params:split=%d", dir, sp))
			}
			out = append(out, fmt.Sprintf("handshake:%s:valid:veto", dir), fmt.Sprintf("handshake:%s:valid:sameas", dir),
				fmt.Sprintf("handshake:%s:valid-hold3:hold=3", dir), fmt.Sprintf("handshake:%s:valid:hold=0", dir))
		}
		// the OPEN arrives on an outbound connection after an inbound session of the same peer has come and gone
		out = append(out, "handshake:out:valid:prelude=insess", "handshake:out:badas:prelude=insess")
		return out
	}
	scenarioLists["C03"] = func(tier string, r *rand.Rand) []string {
		var out []string
		n := 24
		if tier == "thorough" {
			n = 300
		}
		for i := 0; i < n; i++ {
			dir := []string{"out", "in"}[i%2]
			cnt := 5 + r.Intn(60)
			veto := 0
			if i%4 == 3 {
				veto = 1 + r.Intn(cnt/2+1)
			}
			out = append(out, fmt.Sprintf("updates:%s:n=%d:veto=%d:k=%d", dir, cnt, veto, i))
		}
		out = append(out, "handshake:out:valid-burst", "handshake:in:valid-burst")
		// the stream ends (FIN) or turns faulty directly behind a burst while the handler is slow: everything sent
		// before that is still delivered; one long pause inside a message loses nothing
		m := 4
		if tier == "thorough" {
			m = 40
		}
		for i := 0; i < m; i++ {
			dir := []string{"out", "in"}[i%2]
			out = append(out, fmt.Sprintf("updates:%s:n=%d:end=fin:slow=%d:k=f%d", dir, 10+r.Intn(30), 100+r.Intn(400), i),
				fmt.Sprintf("updates:%s:n=%d:end=badhdr:slow=%d:k=b%d", dir, 10+r.Intn(30), 100+r.Intn(400), i))
		}
		out = append(out, "updates:out:n=6:pause=1300:k=p0", "updates:in:n=6:pause=1300:k=p1")
		// negotiated hold time 0 (no hold timer); a handler slower than it is polite to be
		out = append(out, "writers:in:k=3:n=300:end=veto:inside=0:pause=1:adv=1:ms=120:i=0", "writers:in:k=3:n=300:end=veto:inside=0:pause=1:adv=1:ms=150:i=1")
		out = append(out, "updates:out:n=12:hold=0:k=h0", "updates:in:n=12:hold=0:end=fin:k=h1", "updates:out:n=5:slow=300000:hold=3:k=h2")
		// the handler ends the second session of a peer (of a reused outbound FSM)
		out = append(out, "updates:out:n=12:veto=3:second=1:k=s0", "updates:in:n=12:veto=2:second=1:k=s1", "updates:out:n=9:end=fin:slow=200:second=1:k=s2")
		// the handler appends to the slice it was given while the next messages have already been read
		out = append(out, "updates:in:n=25:slow=2000:append=64:end=fin:k=a0", "updates:out:n=25:slow=2000:append=8:end=fin:k=a1")
		// a steady stream of messages, 100 ms apart, for longer than the hold time (3 s)
		out = append(out, "updates:in:n=45:gapms=100:hold=3:k=g0", "updates:out:n=45:gapms=100:hold=3:k=g1")
		// the hold timer fires while OnEstablished is still busy and UPDATEs are parked in the reader
		for i := 0; i < 8; i++ {
			out = append(out, fmt.Sprintf("updates:%s:n=%d:hold=3:est=3200:k=e%d", []string{"out", "in"}[i%2], 4+i, i))
		}
		return out
	}
}
