package main

import (
	"bytes"
	"fmt"
	"go/ast"
	"go/token"
	"path/filepath"
	"sort"
	"strings"

	"golang.org/x/tools/go/packages"
)

// A small path translator for the message-handling state functions of fsm.go and their helpers: every control
// path from the entry of the function (or from the top of its `for { select { … } }` loop) to a `return`, a
// `continue` or the end of the loop body becomes one record
//
//	(function, guards assumed on the way, statement-level effects in program order, exit)
//
// guards: `select <comm>` for the case of a select taken, `type <T>` for a type-switch case (the default case is the
// negation of all its siblings), `case <expr>` for a switch case, and the text of every `if` condition with its truth
// value; `x != nil` / `x == nil` on a variable that was assigned from a call is rendered with the callee
// (`f.sendKeepAlive()!=nil`). effects: every call that is a statement or the right-hand side of an assignment (by
// callee text; timer operations with their arguments), every call made inside an `if` condition, every channel send /
// receive statement, every assignment to a field (`set f.holdTime=<rhs>`), `defer`red
// calls (recorded where they run: at the return of the closure that registered them), `go`. A closure assigned to a
// local variable and called once (`to, err := openSent()`) is inlined at the call, and an `if` over the state it
// returned is decided statically.

type pguard struct {
	text string
	val  bool
}

type pstate struct {
	guards  []pguard
	calls   []string
	lastDef map[string]string
	defers  []string
	retVar  map[string]string // variable bound to the state returned by an inlined closure
	retErr  map[string]string // variable bound to its error class
}

func (s pstate) clone() pstate {
	n := pstate{guards: append([]pguard(nil), s.guards...), calls: append([]string(nil), s.calls...),
		lastDef: map[string]string{}, defers: append([]string(nil), s.defers...), retVar: map[string]string{}, retErr: map[string]string{}}
	for k, v := range s.lastDef {
		n.lastDef[k] = v
	}
	for k, v := range s.retVar {
		n.retVar[k] = v
	}
	for k, v := range s.retErr {
		n.retErr[k] = v
	}
	return n
}

type codePath struct {
	fn     string
	guards []pguard
	calls  []string
	exit   string   // "return" | "loop" | "enter-loop"
	ret    []string // operands of the return, normalised (state name, error class)
}

type pathGen struct {
	fset     *token.FileSet
	fn       string
	closures map[string]*ast.FuncLit
	out      []codePath
	// closures started with `go` inside the function: translated as functions of their own (<fn>.go<k>)
	goClosures []*ast.FuncLit
}

// what happens when a path leaves the current construct
type pexits struct {
	ret  func(s pstate, results []ast.Expr) // return statement
	loop func(s pstate)                      // continue / end of loop body
	brk  func(s pstate)                      // break
}

func (g *pathGen) emit(s pstate, exit string, ret ...string) {
	g.out = append(g.out, codePath{fn: g.fn, guards: s.guards, calls: s.calls, exit: exit, ret: ret})
}

func (g *pathGen) condText(s pstate, e ast.Expr) string {
	if b, ok := e.(*ast.BinaryExpr); ok && (b.Op == token.NEQ || b.Op == token.EQL) {
		if x, ok := b.X.(*ast.Ident); ok {
			if y, ok := b.Y.(*ast.Ident); ok && y.Name == "nil" {
				if d, ok := s.lastDef[x.Name]; ok {
					return d + "()" + b.Op.String() + "nil"
				}
			}
		}
	}
	return exprString(g.fset, e)
}

// staticCond decides `to != someState` / `to == someState` (and `&&`, `||`, `!`, parentheses over such comparisons)
// when `to` holds the state an inlined closure returned
func (g *pathGen) staticCond(s pstate, e ast.Expr) (bool, bool) {
	switch v := e.(type) {
	case *ast.ParenExpr:
		return g.staticCond(s, v.X)
	case *ast.UnaryExpr:
		if v.Op == token.NOT {
			x, ok := g.staticCond(s, v.X)
			return !x, ok
		}
		return false, false
	case *ast.BinaryExpr:
		if v.Op == token.LAND || v.Op == token.LOR {
			x, ok1 := g.staticCond(s, v.X)
			y, ok2 := g.staticCond(s, v.Y)
			if !ok1 || !ok2 {
				return false, false
			}
			if v.Op == token.LAND {
				return x && y, true
			}
			return x || y, true
		}
		if v.Op != token.NEQ && v.Op != token.EQL {
			return false, false
		}
		x, ok1 := v.X.(*ast.Ident)
		y, ok2 := v.Y.(*ast.Ident)
		if !ok1 || !ok2 {
			return false, false
		}
		st, ok := s.retVar[x.Name]
		if !ok || !strings.HasSuffix(y.Name, "State") {
			return false, false
		}
		eq := st == y.Name
		if v.Op == token.NEQ {
			return !eq, true
		}
		return eq, true
	}
	return false, false
}

func (g *pathGen) recordCall(s *pstate, c *ast.CallExpr, lhs []ast.Expr) {
	name := exprString(g.fset, c.Fun)
	if _, ok := c.Fun.(*ast.FuncLit); ok {
		name = "func"
	}
	// a channel receive among the arguments happens before the call
	for _, a := range c.Args {
		if u, ok := a.(*ast.UnaryExpr); ok && u.Op == token.ARROW {
			s.calls = append(s.calls, "recv "+exprString(g.fset, u.X))
		}
	}
	// timer operations and writes are recorded with their arguments (which duration a timer is armed with, what is
	// handed to the connection)
	// the peer manager's main loop: which direction (and which received value) a helper is called with is what the tie reads
	if strings.HasSuffix(name, "NewTimer") || strings.HasSuffix(name, ".Reset") || strings.HasSuffix(name, ".Write") ||
		(g.fn == "peer.run" && strings.HasPrefix(name, "p.")) {
		s.calls = append(s.calls, exprString(g.fset, c))
	} else {
		s.calls = append(s.calls, name)
	}
	for _, l := range lhs {
		if id, ok := l.(*ast.Ident); ok && id.Name != "_" {
			s.lastDef[id.Name] = name
		}
	}
	_ = lhs
}

func (g *pathGen) simple(s *pstate, st ast.Stmt) {
	switch v := st.(type) {
	case *ast.ExprStmt:
		switch x := v.X.(type) {
		case *ast.CallExpr:
			g.recordCall(s, x, nil)
		case *ast.UnaryExpr:
			if x.Op == token.ARROW {
				s.calls = append(s.calls, "recv "+exprString(g.fset, x.X))
			}
		}
	case *ast.SendStmt:
		s.calls = append(s.calls, "send "+exprString(g.fset, v.Chan))
	case *ast.AssignStmt:
		for i, r := range v.Rhs {
			switch x := r.(type) {
			case *ast.CallExpr:
				if len(v.Rhs) == 1 {
					g.recordCall(s, x, v.Lhs)
				} else {
					g.recordCall(s, x, v.Lhs[i:i+1])
				}
			case *ast.UnaryExpr:
				if x.Op == token.ARROW {
					s.calls = append(s.calls, "recv "+exprString(g.fset, x.X))
				}
			case *ast.FuncLit:
				if id, ok := v.Lhs[i].(*ast.Ident); ok {
					g.closures[id.Name] = x
				}
				continue
			}
			if i < len(v.Lhs) {
				_, isSel := v.Lhs[i].(*ast.SelectorExpr)
				if ix, ok := v.Lhs[i].(*ast.IndexExpr); ok {
					// an element of a field (p.fsms[i] = nil)
					_, isSel = ix.X.(*ast.SelectorExpr)
				}
				if isSel {
					s.calls = append(s.calls, "set "+exprString(g.fset, v.Lhs[i])+"="+exprString(g.fset, r))
				} else if id, ok := v.Lhs[i].(*ast.Ident); ok {
					if _, isCall := r.(*ast.CallExpr); !isCall {
						delete(s.lastDef, id.Name)
					}
				}
			}
		}
	case *ast.DeferStmt:
		if fl, ok := v.Call.Fun.(*ast.FuncLit); ok {
			var ds []string
			for _, b := range fl.Body.List {
				if es, ok := b.(*ast.ExprStmt); ok {
					if c, ok := es.X.(*ast.CallExpr); ok {
						ds = append(ds, "deferred "+exprString(g.fset, c))
					}
				}
			}
			s.defers = append(ds, s.defers...)
		} else {
			s.defers = append([]string{"deferred " + exprString(g.fset, v.Call)}, s.defers...)
		}
	case *ast.GoStmt:
		s.calls = append(s.calls, "go")
		if fl, ok := v.Call.Fun.(*ast.FuncLit); ok {
			g.goClosures = append(g.goClosures, fl)
		}
	}
}

func (g *pathGen) walk(stmts []ast.Stmt, s pstate, ex pexits, done func(pstate)) {
	if len(stmts) == 0 {
		done(s)
		return
	}
	st, rest := stmts[0], stmts[1:]
	next := func(s2 pstate) { g.walk(rest, s2, ex, done) }
	switch v := st.(type) {
	case *ast.BlockStmt:
		g.walk(v.List, s, ex, next)
	case *ast.ReturnStmt:
		ex.ret(s, v.Results)
	case *ast.BranchStmt:
		switch v.Tok {
		case token.CONTINUE:
			ex.loop(s)
		case token.BREAK:
			ex.brk(s)
		default:
			next(s)
		}
	case *ast.IfStmt:
		if v.Init != nil {
			g.simple(&s, v.Init)
		}
		if val, ok := g.staticCond(s, v.Cond); ok {
			if val {
				g.walk(v.Body.List, s, ex, next)
			} else if v.Else != nil {
				g.walk([]ast.Stmt{v.Else}, s, ex, next)
			} else {
				next(s)
			}
			return
		}
		// calls made while the condition is evaluated are effects of the path as well
		ast.Inspect(v.Cond, func(n ast.Node) bool {
			if c, ok := n.(*ast.CallExpr); ok {
				g.recordCall(&s, c, nil)
			}
			return true
		})
		txt := g.condText(s, v.Cond)
		t := s.clone()
		t.guards = append(t.guards, pguard{txt, true})
		g.walk(v.Body.List, t, ex, next)
		f := s.clone()
		f.guards = append(f.guards, pguard{txt, false})
		if v.Else != nil {
			g.walk([]ast.Stmt{v.Else}, f, ex, next)
		} else {
			next(f)
		}
	case *ast.ForStmt:
		// the path up to here ends; every iteration of the loop is a family of paths of its own
		g.emit(s, "enter-loop")
		it := s.clone()
		it.guards, it.calls = nil, nil
		if v.Cond != nil {
			it.guards = append(it.guards, pguard{exprString(g.fset, v.Cond), true})
		}
		lex := pexits{ret: ex.ret, loop: func(s2 pstate) { g.emit(s2, "loop") }, brk: func(s2 pstate) {
			s2.guards = append(s2.guards, pguard{"break", true})
			next(s2)
		}}
		g.walk(v.Body.List, it, lex, func(s2 pstate) { g.emit(s2, "loop") })
		if v.Cond != nil {
			// the loop condition fails: what follows the loop is a family of paths of its own as well
			after := s.clone()
			after.guards, after.calls = []pguard{{exprString(g.fset, v.Cond), false}}, nil
			next(after)
		}
	case *ast.SelectStmt:
		for _, c := range v.Body.List {
			cc := c.(*ast.CommClause)
			b := s.clone()
			b.guards = append(b.guards, pguard{"select " + commString(g.fset, cc), true})
			sex := pexits{ret: ex.ret, loop: ex.loop, brk: next}
			g.walk(cc.Body, b, sex, next)
		}
	case *ast.TypeSwitchStmt:
		var all []string
		for _, c := range v.Body.List {
			for _, x := range c.(*ast.CaseClause).List {
				all = append(all, "type "+exprString(g.fset, x))
			}
		}
		for _, c := range v.Body.List {
			cc := c.(*ast.CaseClause)
			b := s.clone()
			if cc.List == nil {
				for _, t := range all {
					b.guards = append(b.guards, pguard{t, false})
				}
			} else {
				var ts []string
				for _, x := range cc.List {
					ts = append(ts, exprString(g.fset, x))
				}
				b.guards = append(b.guards, pguard{"type " + strings.Join(ts, ","), true})
			}
			sex := pexits{ret: ex.ret, loop: ex.loop, brk: next}
			g.walk(cc.Body, b, sex, next)
		}
	case *ast.SwitchStmt:
		if v.Init != nil {
			g.simple(&s, v.Init)
		}
		tag := ""
		if v.Tag != nil {
			tag = exprString(g.fset, v.Tag) + "=="
		}
		var all []string
		for _, c := range v.Body.List {
			for _, x := range c.(*ast.CaseClause).List {
				all = append(all, "case "+tag+exprString(g.fset, x))
			}
		}
		var before []string // the cases in front of this one did not apply (a switch takes the first that does)
		for _, c := range v.Body.List {
			cc := c.(*ast.CaseClause)
			b := s.clone()
			if cc.List == nil {
				for _, t := range all {
					b.guards = append(b.guards, pguard{t, false})
				}
			} else {
				var ts []string
				for _, x := range cc.List {
					ts = append(ts, tag+exprString(g.fset, x))
				}
				if v.Tag == nil {
					for _, t := range before {
						b.guards = append(b.guards, pguard{t, false})
					}
				}
				b.guards = append(b.guards, pguard{"case " + strings.Join(ts, ","), true})
				before = append(before, "case "+strings.Join(ts, ","))
			}
			sex := pexits{ret: ex.ret, loop: ex.loop, brk: next}
			g.walk(cc.Body, b, sex, next)
		}
	case *ast.AssignStmt:
		// `to, err := closure()` — inline the closure
		if len(v.Rhs) == 1 {
			if c, ok := v.Rhs[0].(*ast.CallExpr); ok {
				if id, ok := c.Fun.(*ast.Ident); ok {
					if fl, ok := g.closures[id.Name]; ok {
						outerDefers := s.defers
						in := s.clone()
						in.defers = nil
						cex := pexits{
							ret: func(s2 pstate, results []ast.Expr) {
								s2.calls = append(s2.calls, s2.defers...)
								s2.defers = outerDefers
								for i, l := range v.Lhs {
									lid, ok := l.(*ast.Ident)
									if !ok || i >= len(results) {
										continue
									}
									if rid, ok := results[i].(*ast.Ident); ok && strings.HasSuffix(rid.Name, "State") {
										s2.retVar[lid.Name] = rid.Name
									} else if i == 1 {
										s2.retErr[lid.Name] = errClass(g.fset, results[i])
									}
								}
								next(s2)
							},
							loop: func(s2 pstate) { g.emit(s2, "loop") },
							brk:  func(s2 pstate) {},
						}
						g.walk(fl.Body.List, in, cex, func(s2 pstate) {
							s2.calls = append(s2.calls, s2.defers...)
							s2.defers = outerDefers
							next(s2)
						})
						return
					}
				}
			}
		}
		g.simple(&s, v)
		next(s)
	default:
		g.simple(&s, st)
		next(s)
	}
}

func (g *pathGen) retString(s pstate, results []ast.Expr) []string {
	var parts []string
	for i, r := range results {
		if id, ok := r.(*ast.Ident); ok {
			if st, ok := s.retVar[id.Name]; ok {
				parts = append(parts, st)
				continue
			}
			if ec, ok := s.retErr[id.Name]; ok {
				parts = append(parts, ec)
				continue
			}
			if strings.HasSuffix(id.Name, "State") || id.Name == "true" || id.Name == "false" {
				parts = append(parts, id.Name)
				continue
			}
			if d, ok := s.lastDef[id.Name]; ok {
				parts = append(parts, "result:"+d)
				continue
			}
		}
		if sel, ok := r.(*ast.SelectorExpr); ok {
			parts = append(parts, "value:"+exprString(g.fset, sel))
			continue
		}
		if i == 1 || len(results) == 1 {
			parts = append(parts, errClass(g.fset, r))
		} else {
			parts = append(parts, exprString(g.fset, r))
		}
	}
	return parts
}

func genPaths(pkg *packages.Package) {
	fns := map[string]bool{"openSent": true, "openConfirm": true, "established": true, "handleNotificationInErr": true,
		"drainAndResetHoldTimer": true, "sendOpenAndSetHoldTimer": true, "cleanupConnAndReader": true, "sendNotification": true,
		"sendKeepAlive": true, "startReading": true, "idle": true, "connect": true, "active": true, "dialPeer": true, "closeDialedConn": true, "WriteUpdate": true, "read": true, "run": true, "cleanup": true, "stop": true}
	peerFns := map[string]bool{"handleError": true, "enableFSM": true, "disableFSM": true, "updateStartupDelay": true,
		"handleStateTransition": true, "sendTransitionToFSM": true, "stop": true, "start": true, "run": true, "incomingConnection": true}
	var all []codePath
	for _, file := range pkg.Syntax {
		base := filepath.Base(pkg.Fset.Position(file.Pos()).Filename)
		if base != "fsm.go" && base != "peer.go" && base != "server.go" {
			continue
		}
		for _, decl := range file.Decls {
			fd, ok := decl.(*ast.FuncDecl)
			if !ok || fd.Body == nil || fd.Recv == nil {
				continue
			}
			rt := exprString(pkg.Fset, fd.Recv.List[0].Type)
			name := fd.Name.Name
			switch {
			case base == "fsm.go" && rt == "*fsm" && fns[name]:
			case base == "fsm.go" && rt == "*updateMessageWriter" && name == "WriteUpdate":
			case base == "server.go" && rt == "*Server" && (name == "handleInboundConn" || name == "Serve"):
				name = "server." + name
			case base == "peer.go" && rt == "*peer" && peerFns[name]:
				// the peer manager's helpers are listed under peer.<name> (run / stop exist on both types)
				name = "peer." + name
			default:
				continue
			}
			g := &pathGen{fset: pkg.Fset, fn: name, closures: map[string]*ast.FuncLit{}}
			s := pstate{lastDef: map[string]string{}, retVar: map[string]string{}, retErr: map[string]string{}}
			ex := pexits{
				ret:  func(s2 pstate, results []ast.Expr) { s2.calls = append(s2.calls, s2.defers...); g.emit(s2, "return", g.retString(s2, results)...) },
				loop: func(s2 pstate) { g.emit(s2, "loop") },
				brk:  func(s2 pstate) {},
			}
			g.walk(fd.Body.List, s, ex, func(s2 pstate) { s2.calls = append(s2.calls, s2.defers...); g.emit(s2, "return") })
			all = append(all, g.out...)
			for k, fl := range g.goClosures {
				gg := &pathGen{fset: pkg.Fset, fn: fmt.Sprintf("%s.go%d", name, k+1), closures: map[string]*ast.FuncLit{}}
				s := pstate{lastDef: map[string]string{}, retVar: map[string]string{}, retErr: map[string]string{}}
				ex := pexits{
					ret:  func(s2 pstate, results []ast.Expr) { s2.calls = append(s2.calls, s2.defers...); gg.emit(s2, "return", gg.retString(s2, results)...) },
					loop: func(s2 pstate) { gg.emit(s2, "loop") },
					brk:  func(s2 pstate) {},
				}
				gg.walk(fl.Body.List, s, ex, func(s2 pstate) { s2.calls = append(s2.calls, s2.defers...); gg.emit(s2, "return") })
				all = append(all, gg.out...)
			}
		}
	}
	key := func(p codePath) string {
		var b strings.Builder
		b.WriteString(p.fn)
		for _, gd := range p.guards {
			fmt.Fprintf(&b, "|%s=%v", gd.text, gd.val)
		}
		b.WriteString("|" + p.exit + "|" + strings.Join(p.ret, " ") + "|" + strings.Join(p.calls, ","))
		return b.String()
	}
	sort.SliceStable(all, func(i, j int) bool { return key(all[i]) < key(all[j]) })
	// a loop reached along several paths is one family of paths, not one per way of reaching it
	uniq := all[:0]
	for i, p := range all {
		if i == 0 || key(p) != key(all[i-1]) {
			uniq = append(uniq, p)
		}
	}
	all = uniq
	var buf bytes.Buffer
	fmt.Fprintf(&buf, "/-! GENERATED by /verif/extract from /repo on every check run — do not edit.\n")
	fmt.Fprintf(&buf, "Control paths of the message-handling state functions of fsm.go and their helpers: guards assumed,\n")
	fmt.Fprintf(&buf, "statement-level effects in program order, exit. See /verif/extract/paths.go for the conventions. -/\n")
	fmt.Fprintf(&buf, "namespace CoreBGP.Gen\n\nstructure CodePath where\n  fn : String\n  guards : List (String × Bool)\n  calls : List String\n  exit : String\n  ret : List String\nderiving Repr, DecidableEq\n\n")
	fmt.Fprintf(&buf, "def codePaths : List CodePath := [\n")
	for i, p := range all {
		gs := make([]string, len(p.guards))
		for k, gd := range p.guards {
			gs[k] = fmt.Sprintf("(%q, %v)", gd.text, gd.val)
		}
		cs := make([]string, len(p.calls))
		for k, c := range p.calls {
			cs[k] = fmt.Sprintf("%q", c)
		}
		sep := ","
		if i == len(all)-1 {
			sep = ""
		}
		rs := make([]string, len(p.ret))
		for k, c := range p.ret {
			rs[k] = fmt.Sprintf("%q", c)
		}
		fmt.Fprintf(&buf, "  ⟨%q, [%s],\n    [%s], %q, [%s]⟩%s\n", p.fn, strings.Join(gs, ", "), strings.Join(cs, ", "), p.exit, strings.Join(rs, ", "), sep)
	}
	fmt.Fprintf(&buf, "]\n\nend CoreBGP.Gen\n")
	writeIfChanged("Paths.lean", buf.Bytes())
}
