// Command extract regenerates CoreBGP/Gen/*.lean from /repo's working tree (tie 1).
//
// It loads package corebgp with build tag `verif` and emits facts, not code:
// every package-level constant with its evaluated value (consts.go), the inventory of
// select statements (selects.go) and the struct-field access table per goroutine root
// (access.go). Files are rewritten only when their content changes, to keep lake's
// cache warm.
package main

import (
	"bytes"
	"flag"
	"fmt"
	"os"
	"path/filepath"

	"golang.org/x/tools/go/packages"
)

var (
	repoDir = flag.String("repo", "/repo", "repository to analyse")
	outDir  = flag.String("out", "", "directory for generated Lean files (CoreBGP/Gen)")
)

func fatalf(format string, a ...any) {
	fmt.Fprintf(os.Stderr, "extract: "+format+"\n", a...)
	os.Exit(2)
}

func writeIfChanged(name string, content []byte) {
	path := filepath.Join(*outDir, name)
	old, err := os.ReadFile(path)
	if err == nil && bytes.Equal(old, content) {
		return
	}
	if err := os.WriteFile(path, content, 0o644); err != nil {
		fatalf("write %s: %v", path, err)
	}
	fmt.Printf("extract: updated %s\n", name)
}

func main() {
	flag.Parse()
	if *outDir == "" {
		fatalf("-out required")
	}
	cfg := &packages.Config{
		Mode:       packages.LoadAllSyntax,
		Dir:        *repoDir,
		BuildFlags: []string{"-tags=verif"},
		Tests:      false,
	}
	pkgs, err := packages.Load(cfg, ".")
	if err != nil {
		fatalf("load: %v", err)
	}
	if len(pkgs) != 1 {
		fatalf("expected one package, got %d", len(pkgs))
	}
	pkg := pkgs[0]
	if len(pkg.Errors) > 0 {
		for _, e := range pkg.Errors {
			fmt.Fprintln(os.Stderr, e)
		}
		fatalf("package has errors")
	}
	genConsts(pkg)
	genSelects(pkg)
	genTransitions(pkg)
	genDecisions(pkg)
	genLocks(pkg)
	genPaths(pkg)
	genAccess(pkgs)
}
