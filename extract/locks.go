package main

import (
	"bytes"
	"fmt"
	"go/ast"
	"go/token"
	"path/filepath"
	"sort"
	"strings"

	"golang.org/x/tools/go/packages"
)

// Lock discipline of the Server methods (server.go), by a small path-sensitive walk over the AST:
// whether `s.mu` is held is tracked statement by statement (both branches of an `if`, every clause of a
// `switch` / `select`; a branch that ends in `return` does not flow on). Recorded per method: how often the
// lock is taken, every `return` reached with the lock held and no deferred unlock, every access to a
// registry field (`s.peers`, `s.serving`) made without the lock, and whether peers are started / stopped /
// handed a connection with the lock held.

type lockFacts struct {
	fn           string
	acquisitions int
	retHeld      int
	outside      map[string]bool
	callsHeld    map[string]bool
	callsFree    map[string]bool
}

type lockState struct {
	held     bool
	deferred bool
	dead     bool // after return
}

func isMuCall(fset *token.FileSet, e ast.Expr, name string) bool {
	c, ok := e.(*ast.CallExpr)
	if !ok {
		return false
	}
	s := exprString(fset, c.Fun)
	return s == "s.mu."+name
}

func (lf *lockFacts) scanExpr(fset *token.FileSet, n ast.Node, st lockState) {
	if n == nil {
		return
	}
	ast.Inspect(n, func(x ast.Node) bool {
		switch v := x.(type) {
		case *ast.FuncLit:
			return false // handled where it is invoked (defer / go)
		case *ast.SelectorExpr:
			if id, ok := v.X.(*ast.Ident); ok && id.Name == "s" && (v.Sel.Name == "peers" || v.Sel.Name == "serving") {
				if !st.held {
					lf.outside[v.Sel.Name] = true
				}
			}
		case *ast.CallExpr:
			fn := exprString(fset, v.Fun)
			for _, k := range []string{".stop", ".start", ".incomingConnection"} {
				if strings.HasSuffix(fn, k) && !strings.HasPrefix(fn, "s.") {
					if st.held {
						lf.callsHeld["peer"+k] = true
					} else {
						lf.callsFree["peer"+k] = true
					}
				}
			}
		}
		return true
	})
}

func (lf *lockFacts) walk(fset *token.FileSet, stmts []ast.Stmt, st lockState) lockState {
	for _, s := range stmts {
		if st.dead {
			break
		}
		st = lf.stmt(fset, s, st)
	}
	return st
}

func join(a, b lockState) lockState {
	if a.dead {
		return b
	}
	if b.dead {
		return a
	}
	return lockState{held: a.held || b.held, deferred: a.deferred || b.deferred}
}

func (lf *lockFacts) stmt(fset *token.FileSet, s ast.Stmt, st lockState) lockState {
	switch v := s.(type) {
	case *ast.ExprStmt:
		switch {
		case isMuCall(fset, v.X, "Lock"), isMuCall(fset, v.X, "RLock"):
			lf.acquisitions++
			st.held = true
		case isMuCall(fset, v.X, "Unlock"), isMuCall(fset, v.X, "RUnlock"):
			st.held = false
		default:
			lf.scanExpr(fset, v.X, st)
		}
	case *ast.DeferStmt:
		if isMuCall(fset, v.Call, "Unlock") || isMuCall(fset, v.Call, "RUnlock") {
			st.deferred = true
		} else if fl, ok := v.Call.Fun.(*ast.FuncLit); ok {
			// a deferred closure runs at return with whatever it does itself: analysed from "not held"
			lf.walk(fset, fl.Body.List, lockState{})
		} else {
			lf.scanExpr(fset, v.Call, st)
		}
	case *ast.GoStmt:
		if fl, ok := v.Call.Fun.(*ast.FuncLit); ok {
			lf.walk(fset, fl.Body.List, lockState{})
		}
	case *ast.ReturnStmt:
		for _, r := range v.Results {
			lf.scanExpr(fset, r, st)
		}
		if st.held && !st.deferred {
			lf.retHeld++
		}
		st.dead = true
	case *ast.IfStmt:
		if v.Init != nil {
			st = lf.stmt(fset, v.Init, st)
		}
		lf.scanExpr(fset, v.Cond, st)
		a := lf.walk(fset, v.Body.List, st)
		b := st
		if v.Else != nil {
			switch e := v.Else.(type) {
			case *ast.BlockStmt:
				b = lf.walk(fset, e.List, st)
			default:
				b = lf.stmt(fset, e, st)
			}
		}
		st = join(a, b)
	case *ast.BlockStmt:
		st = lf.walk(fset, v.List, st)
	case *ast.ForStmt:
		lf.walk(fset, v.Body.List, st)
	case *ast.RangeStmt:
		lf.scanExpr(fset, v.X, st)
		lf.walk(fset, v.Body.List, st)
	case *ast.SwitchStmt, *ast.SelectStmt, *ast.TypeSwitchStmt:
		var body *ast.BlockStmt
		switch w := v.(type) {
		case *ast.SwitchStmt:
			body = w.Body
		case *ast.SelectStmt:
			body = w.Body
		case *ast.TypeSwitchStmt:
			body = w.Body
		}
		out := lockState{dead: true}
		hasDefault := false
		for _, c := range body.List {
			var list []ast.Stmt
			switch cc := c.(type) {
			case *ast.CaseClause:
				list = cc.Body
				hasDefault = hasDefault || cc.List == nil
			case *ast.CommClause:
				list = cc.Body
				hasDefault = hasDefault || cc.Comm == nil
			}
			out = join(out, lf.walk(fset, list, st))
		}
		if _, isSel := v.(*ast.SelectStmt); !isSel && !hasDefault {
			out = join(out, st)
		}
		st = out
	case *ast.AssignStmt:
		for _, r := range v.Rhs {
			lf.scanExpr(fset, r, st)
		}
		for _, l := range v.Lhs {
			lf.scanExpr(fset, l, st)
		}
	case *ast.DeclStmt, *ast.IncDecStmt, *ast.SendStmt, *ast.LabeledStmt, *ast.BranchStmt, *ast.EmptyStmt:
		lf.scanExpr(fset, v, st)
	default:
		lf.scanExpr(fset, v, st)
	}
	return st
}

func genLocks(pkg *packages.Package) {
	var all []*lockFacts
	for _, file := range pkg.Syntax {
		if filepath.Base(pkg.Fset.Position(file.Pos()).Filename) != "server.go" {
			continue
		}
		for _, decl := range file.Decls {
			fd, ok := decl.(*ast.FuncDecl)
			if !ok || fd.Body == nil || fd.Recv == nil || len(fd.Recv.List) == 0 {
				continue
			}
			if strings.TrimPrefix(exprString(pkg.Fset, fd.Recv.List[0].Type), "*") != "Server" {
				continue
			}
			if len(fd.Recv.List[0].Names) == 0 || fd.Recv.List[0].Names[0].Name != "s" {
				continue
			}
			lf := &lockFacts{fn: fd.Name.Name, outside: map[string]bool{}, callsHeld: map[string]bool{}, callsFree: map[string]bool{}}
			lf.walk(pkg.Fset, fd.Body.List, lockState{})
			all = append(all, lf)
		}
	}
	sort.Slice(all, func(i, j int) bool { return all[i].fn < all[j].fn })
	keys := func(m map[string]bool) string {
		var ks []string
		for k := range m {
			ks = append(ks, fmt.Sprintf("%q", k))
		}
		sort.Strings(ks)
		return "[" + strings.Join(ks, ", ") + "]"
	}
	var buf bytes.Buffer
	fmt.Fprintf(&buf, "/-! GENERATED by /verif/extract from /repo on every check run — do not edit.\n")
	fmt.Fprintf(&buf, "Lock discipline of the methods of `Server` (path-sensitive walk over the AST of server.go): how often\n")
	fmt.Fprintf(&buf, "`s.mu` is taken, `return`s reached with the lock held and no deferred unlock, registry fields touched\n")
	fmt.Fprintf(&buf, "without the lock, and whether peers are started / stopped / handed a connection with or without it. -/\n")
	fmt.Fprintf(&buf, "namespace CoreBGP.Gen\n\nstructure LockFact where\n  fn : String\n  acquisitions : Nat\n  returnsHeld : Nat\n  accessedUnlocked : List String\n  callsHeld : List String\n  callsUnlocked : List String\nderiving Repr, DecidableEq\n\n")
	fmt.Fprintf(&buf, "def serverLocks : List LockFact := [\n")
	for i, lf := range all {
		sep := ","
		if i == len(all)-1 {
			sep = ""
		}
		fmt.Fprintf(&buf, "  ⟨%q, %d, %d, %s, %s, %s⟩%s\n", lf.fn, lf.acquisitions, lf.retHeld, keys(lf.outside), keys(lf.callsHeld), keys(lf.callsFree), sep)
	}
	fmt.Fprintf(&buf, "]\n\nend CoreBGP.Gen\n")
	writeIfChanged("Locks.lean", buf.Bytes())
}
