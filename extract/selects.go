package main

import "golang.org/x/tools/go/packages"

func genSelects(pkg *packages.Package) {}
