package main

import "golang.org/x/tools/go/packages"

func genAccess(pkgs []*packages.Package) {}
