package main

import (
	"bytes"
	"fmt"
	"go/token"
	"go/types"
	"sort"
	"strings"

	"golang.org/x/tools/go/callgraph"
	"golang.org/x/tools/go/callgraph/cha"
	"golang.org/x/tools/go/callgraph/vta"
	"golang.org/x/tools/go/packages"
	"golang.org/x/tools/go/ssa"
	"golang.org/x/tools/go/ssa/ssautil"
)

var trackedStructs = map[string]bool{"peer": true, "fsm": true, "Server": true, "updateMessageWriter": true}

type access struct {
	field string // Struct.field
	fn    string
	kind  string // "r" read, "w" write, "cw" constructor write (object allocated in the same function), "a" address taken
}

func structField(t types.Type, idx int) (string, bool) {
	if p, ok := t.Underlying().(*types.Pointer); ok {
		t = p.Elem()
	}
	n, ok := t.(*types.Named)
	if !ok {
		return "", false
	}
	st, ok := n.Underlying().(*types.Struct)
	if !ok || !trackedStructs[n.Obj().Name()] {
		return "", false
	}
	return n.Obj().Name() + "." + st.Field(idx).Name(), true
}

func isAllocInFn(v ssa.Value) bool {
	switch x := v.(type) {
	case *ssa.Alloc:
		return true
	case *ssa.Phi:
		for _, e := range x.Edges {
			if !isAllocInFn(e) {
				return false
			}
		}
		return true
	}
	return false
}

func fnName(f *ssa.Function) string {
	n := f.RelString(f.Pkg.Pkg)
	n = strings.ReplaceAll(n, "(*", "")
	n = strings.ReplaceAll(n, ")", "")
	return n
}

// classify follows the uses of an address (FieldAddr / IndexAddr chain) to loads and stores.
func classify(addr ssa.Value, ctor bool, field, fn string, out *[]access, depth int) {
	refs := addr.Referrers()
	if refs == nil || depth > 4 {
		return
	}
	for _, r := range *refs {
		switch u := r.(type) {
		case *ssa.Store:
			if u.Addr == addr {
				k := "w"
				if ctor {
					k = "cw"
				}
				*out = append(*out, access{field, fn, k})
			} else {
				*out = append(*out, access{field, fn, "a"})
			}
		case *ssa.UnOp:
			if u.Op == token.MUL {
				*out = append(*out, access{field, fn, "r"})
				// a map held in the field that is updated / deleted from: a write to the field's data
				if lr := u.Referrers(); lr != nil {
					for _, x := range *lr {
						switch m := x.(type) {
						case *ssa.MapUpdate:
							if m.Map == u {
								*out = append(*out, access{field, fn, "w"})
							}
						case *ssa.Call:
							if b, ok := m.Call.Value.(*ssa.Builtin); ok && b.Name() == "delete" && len(m.Call.Args) > 0 && m.Call.Args[0] == u {
								*out = append(*out, access{field, fn, "w"})
							}
						}
					}
				}
			}
		case *ssa.IndexAddr:
			classify(u, ctor, field, fn, out, depth+1)
		case *ssa.FieldAddr:
			// nested struct (sync.Once, sync.Mutex inside): an access to the outer field's storage
			*out = append(*out, access{field, fn, "a"})
		case *ssa.DebugRef:
		default:
			*out = append(*out, access{field, fn, "a"})
		}
	}
}

func genAccess(pkgs []*packages.Package) {
	prog, spkgs := ssautil.AllPackages(pkgs, ssa.InstantiateGenerics)
	prog.Build()
	var main *ssa.Package
	for _, p := range spkgs {
		if p != nil && p.Pkg.Path() == pkgs[0].PkgPath {
			main = p
		}
	}
	if main == nil {
		fatalf("ssa package not found")
	}
	all := ssautil.AllFunctions(prog)
	var fns []*ssa.Function
	for f := range all {
		if f.Pkg == main && !strings.HasPrefix(f.Name(), "Verif") && !strings.HasPrefix(f.Name(), "verif") {
			pos := prog.Fset.Position(f.Pos())
			if strings.HasSuffix(pos.Filename, "_test.go") || strings.Contains(pos.Filename, "verif_") {
				continue
			}
			fns = append(fns, f)
		}
	}
	sort.Slice(fns, func(i, j int) bool { return fnName(fns[i]) < fnName(fns[j]) })

	var accs []access
	goTargets := map[*ssa.Function]string{} // functions started with `go`
	for _, f := range fns {
		for _, b := range f.Blocks {
			for _, ins := range b.Instrs {
				switch v := ins.(type) {
				case *ssa.FieldAddr:
					if name, ok := structField(v.X.Type(), v.Field); ok {
						classify(v, isAllocInFn(v.X), name, fnName(f), &accs, 0)
					}
				case *ssa.Field:
					if name, ok := structField(v.X.Type(), v.Field); ok {
						accs = append(accs, access{name, fnName(f), "r"})
					}
				case *ssa.Go:
					if callee := v.Call.StaticCallee(); callee != nil {
						goTargets[callee] = fnName(callee)
					} else if mc, ok := v.Call.Value.(*ssa.MakeClosure); ok {
						if fn, ok := mc.Fn.(*ssa.Function); ok {
							goTargets[fn] = fnName(fn)
						}
					}
				}
			}
		}
	}
	// call graph: VTA seeded by CHA (CHA alone resolves a call through a func value to every closure of
	// that type and is useless here)
	cg := vta.CallGraph(all, cha.CallGraph(prog))
	cg.DeleteSyntheticNodes()
	// roots: `go` targets, exported API (functions and methods of exported types), WriteUpdate
	roots := map[string]*ssa.Function{}
	for f, n := range goTargets {
		if f.Pkg == main {
			roots[n] = f
		}
	}
	for _, f := range fns {
		if f.Parent() != nil {
			continue
		}
		exported := token.IsExported(f.Name())
		if f.Signature.Recv() != nil {
			rt := f.Signature.Recv().Type()
			if p, ok := rt.(*types.Pointer); ok {
				rt = p.Elem()
			}
			if n, ok := rt.(*types.Named); ok {
				exported = exported && (token.IsExported(n.Obj().Name()) || f.Name() == "WriteUpdate")
			}
		}
		if exported {
			roots["api:"+fnName(f)] = f
		}
	}
	reach := map[string][]string{}
	for rn, rf := range roots {
		seen := map[*ssa.Function]bool{}
		var visit func(f *ssa.Function)
		visit = func(f *ssa.Function) {
			if f == nil || seen[f] || f.Pkg != main {
				return
			}
			seen[f] = true
			// closures defined here but only *called* (not started with go) are reached through call edges;
			// anonymous functions run via defer / direct call appear as call edges too
			n := cg.Nodes[f]
			if n == nil {
				return
			}
			for _, e := range n.Out {
				if _, isGo := e.Site.(*ssa.Go); isGo {
					continue
				}
				visit(e.Callee.Func)
			}
		}
		visit(rf)
		for f := range seen {
			reach[rn] = append(reach[rn], fnName(f))
		}
		sort.Strings(reach[rn])
	}
	_ = callgraph.GraphVisitEdges

	// fold: per (field, root) the strongest kinds seen
	byFn := map[string][]access{}
	for _, a := range accs {
		byFn[a.fn] = append(byFn[a.fn], a)
	}
	type key struct{ field, root, kind string }
	set := map[key]bool{}
	for rn, fs := range reach {
		for _, fn := range fs {
			for _, a := range byFn[fn] {
				set[key{a.field, rn, a.kind}] = true
			}
		}
	}
	var rows []key
	for k := range set {
		rows = append(rows, k)
	}
	sort.Slice(rows, func(i, j int) bool {
		if rows[i].field != rows[j].field {
			return rows[i].field < rows[j].field
		}
		if rows[i].root != rows[j].root {
			return rows[i].root < rows[j].root
		}
		return rows[i].kind < rows[j].kind
	})
	var buf bytes.Buffer
	fmt.Fprintf(&buf, "/-! GENERATED by /verif/extract from /repo on every check run — do not edit.\n")
	fmt.Fprintf(&buf, "Struct-field accesses of `peer`, `fsm`, `Server`, `updateMessageWriter` per goroutine root (SSA + VTA call graph,\n")
	fmt.Fprintf(&buf, "not crossing `go` statements). kind: r read, w write, cw write to an object allocated in the same function\n")
	fmt.Fprintf(&buf, "(constructor), a address taken / passed on (treated as read and write of the field's storage by the callee). -/\n")
	fmt.Fprintf(&buf, "namespace CoreBGP.Gen\n\nstructure AccessFact where\n  field : String\n  root : String\n  kind : String\nderiving Repr, DecidableEq\n\n")
	fmt.Fprintf(&buf, "def accesses : List AccessFact := [\n")
	for i, r := range rows {
		sep := ","
		if i == len(rows)-1 {
			sep = ""
		}
		fmt.Fprintf(&buf, "  ⟨%q, %q, %q⟩%s\n", r.field, r.root, r.kind, sep)
	}
	fmt.Fprintf(&buf, "]\n\n/-- goroutine roots: `go` targets and the exported API -/\ndef roots : List String := [")
	rns := make([]string, 0, len(roots))
	for rn := range roots {
		rns = append(rns, rn)
	}
	sort.Strings(rns)
	for i, rn := range rns {
		if i > 0 {
			buf.WriteString(", ")
		}
		fmt.Fprintf(&buf, "%q", rn)
	}
	fmt.Fprintf(&buf, "]\n\nend CoreBGP.Gen\n")
	writeIfChanged("Access.lean", buf.Bytes())
}
