"""Per-property configuration of the checks."""

# l0: generators of /verif/harness/cmd/l0 registered under this property id
# lean: Lean modules holding the property's theorems (namespace CoreBGP.Props.<ID>)
# trivial: regexes over `fn/branch` ids that do not count as non-trivial cases
# live: scenario families of /verif/harness/cmd/live (L1-L3)
PROPS = {
    'C15': dict(
        title='OPEN / NOTIFICATION / capability codecs round-trip and are strict',
        l0=True, lean=['CoreBGP.Props.C15'],
        level_text='Round-trip and strictness theorems for the NOTIFICATION / OPEN / capability codecs proved in Lean for all inputs about a model of packet.go; model tied to the code by an L0 differential run and judged by an RFC-level spec evaluated on the implementation output.',
        trivial=[r'^notif\.dec/len0$', r'^open\.dec/err\.1\.2$', r'^addpath\.dec/err0$'],
        rule='L0 differential: grammar-generated valid OPEN/NOTIFICATION/add-path values (sizes drawn at the length-octet boundaries), '
             'single-octet mutations of their encodings, every truncation of a rich OPEN, data lengths 0..64 and 4074..4076, a <20% random stream; '
             'distinct = distinct (function, input) pairs; non-trivial = the model took a branch other than the first length check',
    ),
}

# properties not claimed (yet), with the reason shown in MANIFEST.not_applicable
NOT_CLAIMED = {}
