"""Per-property configuration of the checks."""

# l0: generators of /verif/harness/cmd/l0 registered under this property id
# lean: Lean modules holding the property's theorems (namespace CoreBGP.Props.<ID>)
# trivial: regexes over `fn/branch` ids that do not count as non-trivial cases
# live: scenario families of /verif/harness/cmd/live (L1-L3)
PROPS = {
    'C15': dict(
        title='OPEN / NOTIFICATION / capability codecs round-trip and are strict',
        l0=True, lean=['CoreBGP.Props.C15'],
        level_text='Round-trip and strictness theorems for the NOTIFICATION / OPEN / capability codecs proved in Lean for all inputs about a model of packet.go; model tied to the code by an L0 differential run and judged by an RFC-level spec evaluated on the implementation output.',
        trivial=[r'^notif\.dec/len0$', r'^open\.dec/err\.1\.2$', r'^addpath\.dec/err0$'],
        rule='L0 differential: grammar-generated valid OPEN/NOTIFICATION/add-path values (sizes drawn at the length-octet boundaries), '
             'single-octet mutations of their encodings, every truncation of a rich OPEN, data lengths 0..64 and 4074..4076, a <20% random stream; '
             'distinct = distinct (function, input) pairs; non-trivial = the model took a branch other than the first length check',
    ),
    'C08': dict(title='Receive-side header validation and stream framing', l0=True, live=True, race_quick=['C04R'], lean=['CoreBGP.Props.C08', 'CoreBGP.Props.PathTieC08', 'CoreBGP.Props.DecTieC08'],
        trivial=[r'^read/m0\.other$'], rule='L0 differential on the reader goroutine over in-memory connections with varying segmentations: header length values (quick: protocol-relevant sample + 400 random; thorough: all 65536) x types, all 256 types x boundary lengths, every marker position, every truncation; NOTIFICATION encodings; non-trivial = reader got past the first short read'),
    'C14': dict(title='The OPEN corebgp sends reflects configuration and plugin capabilities', l0=True, live=True, lean=['CoreBGP.Props.C14', 'CoreBGP.Props.PathTieConn'],
        rule='L0 differential on newOpenMessage+encode: AS grid incl. 65535/65536/2^32-1, hold times, capability lists 0..40 with codes 0..255 incl. 65, value lengths 0..300, sweeps across every 255-byte length-octet boundary'),
    'C02': dict(title='OPEN handshake: exactly the valid OPENs are accepted', l0=True, live=True, lean=['CoreBGP.Props.C02', 'CoreBGP.Props.C02b', 'CoreBGP.Props.C15', 'CoreBGP.Props.PathTieC02'],
        trivial=[r'^open\.dec/err\.1\.2$', r'^open\.val/undecodable$'],
        rule='L0 differential on openMessage.decode / validate: field grids (version x AS field x hold x identifier nibble x capability) crossed with (local AS, remote AS, id) classes, grammar-generated parameter layouts, truncations and length-octet nudges, random bodies up to 4077'),
    'C16': dict(title='UpdateDecoder partitions an UPDATE exactly as its length fields dictate', l0=True, lean=['CoreBGP.Props.C16', 'CoreBGP.Props.C16B'],
        trivial=[r'^upd/c0\.'], rule='L0 differential on UpdateDecoder.Decode with recording callbacks: every byte string up to length 5 (thorough 6) over a 6-letter protocol alphabet, grammar-generated and mutated bodies, bodies to 4077 and above 65535; non-trivial = at least one callback ran'),
    'C17': dict(title='UpdateDecoder reports errors with the RFC 7606 approach they require', l0=True, lean=['CoreBGP.Props.C17'],
        trivial=[r'^upd/c0\.'], rule='as C16 crossed with scripted callback behaviours (nil / discard / withdraw / notification / foreign error trees at each slot) and random error trees (depth<=6, errors.Join and %w) for UpdateNotificationFromErr'),
    'C18': dict(title='Typed path-attribute decoders accept exactly well-formed attributes', l0=True, lean=['CoreBGP.Props.C18'],
        rule='L0 differential per typed decoder: all 256 flag octets x every value length 0..13, boundary lengths up to 4096, all ORIGIN octets, AS_PATH segment grids, grammar-generated and mutated values'),
    'C19': dict(title='Prefix, NLRI, add-path and MP_REACH/MP_UNREACH decoders are exact', l0=True, lean=['CoreBGP.Props.C19'],
        rule='L0 differential: every prefix length octet 0..255 x exact/short/long for IPv4/IPv6 x plain/add-path, every truncation, generated and mutated lists; MP_REACH with every next-hop length octet x straddling attribute lengths, every flags octet'),
    'C20': dict(title='Peer registry behaves as a consistent map and rejects unusable configs', l0=True, live=True, lean=['CoreBGP.Props.C20', 'CoreBGP.Props.C20Lin', 'CoreBGP.Props.DecTieC20', 'CoreBGP.Props.C20Lock', 'CoreBGP.Props.C20Life'],
        rule='full configuration grid (router id kind x remote/local address kind x AS {0,1,65535,65536,2^32-1} x hold {0,1,2,3,65535} x port {-1,0,1,179,65535,65536}) through NewServer+AddPeer; seeded sequential registry operation sequences (<=13 ops over 6 keys, with and without Serve/Close) compared step by step with the model and the abstract map; concurrent histories (2-4 goroutines x 1-5 operations over 3 keys, serving or not, global-counter stamps) decided by the proved-sound-and-complete linearizability checker against the model and against the abstract map'),
    'C12': dict(title='Protocol errors damp the peer; Cease and transport faults do not', l0=True, live=True, lean=['CoreBGP.Props.C12', 'CoreBGP.Props.C12L2', 'CoreBGP.Props.C09Tie', 'CoreBGP.Props.DecTieC12', 'CoreBGP.Props.C12Hist', 'CoreBGP.Props.PathTiePeer', 'CoreBGP.Props.PathTieMain'],
        rule='exhaustive error histories up to length 4 (thorough 5) over the gap alphabet {0,1,10,100,299,300,301,1000 s} and random long ones through the real updateStartupDelay; every NOTIFICATION code 0..255 x sent/received x wrapped/bare through the real handleError'),
    'C05': dict(title='No remote input or API sequence can crash or wedge the process', l0=True, live=True, lean=['CoreBGP.Props.C05', 'CoreBGP.Props.C20Lock', 'CoreBGP.Props.PathTieConn'], clauses=r'C05',
        rule='L0 differential with recover (PANIC is an output like any other) over every decoding entry point: the generators of C02/C08/C15/C16/C18/C19 plus oversize inputs (65535..70000 bytes with extreme length fields)'),
    'C07': dict(title='Connection collision is resolved per RFC 4271 6.8, in every arrival order', live=True, lean=['CoreBGP.Props.C07', 'CoreBGP.Props.DecTieC07', 'CoreBGP.Props.PathTieRun', 'CoreBGP.Props.PathTiePeer', 'CoreBGP.Props.PathTieMain'],
        rule='live collision grid: local id <,=,> remote id x AS <,> x which connection completes its OPEN exchange first x Established-before-the-other, plus the forced collision window (manager held before the select while the other FSM requests Established / fails); every trace checked by L1 inclusion and all monitors'),
    'C10': dict(title='Shutdown from any state is prompt, complete, race-free and leak-free', live=True, lean=['CoreBGP.Props.C10', 'CoreBGP.Props.C10Own', 'CoreBGP.Props.C20Lock', 'CoreBGP.Props.C20Life', 'CoreBGP.Props.PathTieC10', 'CoreBGP.Props.PathTieConn', 'CoreBGP.Props.PathTieRun', 'CoreBGP.Props.PathTieMain'], race_search=['C10', 'C11', 'C07', 'C04'], race_quick=['C10R'],
        rule='Close / DeletePeer at every point of every connection script (idle, before Serve, OpenSent, OpenConfirm, Established, during collision, damped, with active writers, two peers, the forced dial-completed-while-closing window), both directions'),
    'C09': dict(title='State-dependent message handling follows RFC 4271 8.2.2 / RFC 6608', live=True, lean=['CoreBGP.Props.C09', 'CoreBGP.Props.C09Tie', 'CoreBGP.Props.C09Switch', 'CoreBGP.Props.PathTie', 'CoreBGP.Props.PathTieC09'],
        rule='exhaustive live table: state {OpenSent, OpenConfirm, Established} x stimulus {OPEN, UPDATE, KEEPALIVE, NOTIFICATION Cease/other/hold/undecodable, FIN, RST} x direction {out, in}; each trace must be reproduced by the L1 session model and pass all monitors'),
    'C03': dict(title='Inbound UPDATEs reach the handler exactly once, in order, byte-exact', live=True, lean=['CoreBGP.Props.C03', 'CoreBGP.Props.PathTieC03'],
        rule='live sessions with seeded random UPDATE/KEEPALIVE sequences (bodies 0..4077) cut into random TCP writes (1-byte writes, writes spanning several messages), handler recording arguments, handler veto at a random position; every trace reproduced by the L1 model (handler calls = sent bodies, in order) + aliasing monitor',
        assumptions=['"the delivered slice is not modified afterwards" is Go aliasing: monitored by re-comparing every delivered slice with a private copy at session end (partial clause)']),
    'C04': dict(title='Outbound byte stream is whole well-formed messages; WriteUpdate contract', live=True, race_quick=['C04R'], lean=['CoreBGP.Props.C04', 'CoreBGP.Props.C04L2', 'CoreBGP.Props.C04Tie', 'CoreBGP.Props.PathTieC04'],
        rule='live sessions with 1..16 concurrent writer goroutines (tagged random bodies 0..4077), writes from inside OnEstablished and the handler, hold time 3 s so keepalives interleave, teardown by Cease / FIN / FSM error / Close at a random point, re-establishment, writes after OnClose; strict frame parser on every byte received + per-writer order / exactly-once / no-leak monitors',
        assumptions=['atomicity of one net.Conn.Write with respect to concurrent writes (Go netFD write lock) is assumed']),
    'C06': dict(title='Hold time negotiation, hold-timer expiry and keepalive cadence', live=True, lean=['CoreBGP.Props.C06', 'CoreBGP.Props.C02b', 'CoreBGP.Props.PathTieC06'],
        rule='live timing grid: (local, remote) hold in {(3,3),(3,0),(0,3),(0,0),(6,3),(3,9)} (thorough adds 9/30/90/65535 columns) x remote pattern {silent, KEEPALIVE-only, UPDATE-only, just-before-expiry, local WriteUpdate traffic} x direction, expiry in OpenConfirm; timing monitor on remote-side timestamps (no early expiry: safe direction; expiry by deadline + 1 s; send gaps <= hold/3 + 0.4 s; zero: no periodic KEEPALIVE, no expiry)',
        assumptions=['real-time bounds are observed with slack (scheduler latency is not proved): partial clause']),
    'C13': dict(title='Only connections from configured peers to the configured address are served', live=True, lean=['CoreBGP.Props.C13', 'CoreBGP.Props.DecTieC13', 'CoreBGP.Props.PathTiePeer', 'CoreBGP.Props.PathTieC13', 'CoreBGP.Props.PathTieMain'],
        rule='live admission grid: listener {specific, wildcard} x peer with/without local address x source {configured, other loopback address} x destination {configured, other} x peer state at arrival {idle, inbound in progress, Established, held down}; zero bytes + EOF vs OPEN judged from the trace, an unrelated Established session must stay alive'),
    'C01': dict(title='One Established session per peer; well-formed plugin callback history', l0=True, live=True, lean=['CoreBGP.Props.C01', 'CoreBGP.Props.C09Tie', 'CoreBGP.Props.PathTieC01', 'CoreBGP.Props.C20', 'CoreBGP.Props.PathTiePeer', 'CoreBGP.Props.PathTieMain'],
        rule='registry sequences through the real Server (L0 `reg`, incl. IPv4-mapped peer addresses: a second AddPeer of a present key is refused, so there is one peer manager per configured peer); union of the live families in which sessions come and go (collision grid + forced windows, state x message table, shutdown at every point, reconnection fault sequences): every trace must be a trace of the L2 transition system (state-set tracking) and pass the plugin-history monitor (prefix of (E+E-(H+H-)*C+C-)*, complete at Close/DeletePeer, GetCapabilities / OnOpenMessage counts)',
        assumptions=['plugin callbacks are atomic enter/exit pairs that always return']),
    'C11': dict(title='Reconnection liveness and retry pacing after non-damping faults', live=True, lean=['CoreBGP.Props.C11', 'CoreBGP.Props.C11T', 'CoreBGP.Props.DecTieC11', 'CoreBGP.Props.PathTieC11', 'CoreBGP.Props.PathTiePeer', 'CoreBGP.Props.PathTieMain'],
        rule='live fault sequences (refuse, close / reset / Cease at OpenSent / OpenConfirm / Established, seeded random sequences) followed by a well-behaved remote, idle-hold in {50,100,200} ms, passive and active peers, inbound session ending; pacing monitor on the exits from Idle and on dial timestamps, bound on time-to-Established',
        assumptions=['real-time pacing / liveness bounds are observed with slack, not proved (partial clause)']),
}

# properties not claimed (yet), with the reason shown in MANIFEST.not_applicable
NOT_CLAIMED = {}
