import os, subprocess, time, json

# the framework's own directory (a snapshot run works on its snapshot, not on /verif)
V = os.path.dirname(os.path.dirname(os.path.abspath(__file__)))
REPO = '/repo'
BUILD = os.path.join(V, 'build')
LEAN = os.path.join(V, 'lean')
GEN = os.path.join(LEAN, 'CoreBGP', 'Gen')
DRIVER = os.path.join(LEAN, '.lake', 'build', 'bin', 'driver')
REPLAYS = os.path.join(V, 'replays')
EVIDENCE = os.path.join(V, 'evidence')
CORPUS = os.path.join(V, 'corpus')
KNOWN = os.path.join(V, 'known_findings.jsonl')

GOENV = dict(os.environ, GOFLAGS='-mod=mod', GOPROXY='off', GOSUMDB='off', GOTOOLCHAIN='local')

ALLOWED_AXIOMS = {'propext', 'Classical.choice', 'Quot.sound'}

TRUSTED_BASE = [
    'Lean 4.33.0 kernel (leanchecker re-check in the thorough tier)',
    'axioms: at most propext, Classical.choice, Quot.sound (audited per theorem on every run); no sorry/native_decide/own axioms',
    'extractor /verif/extract (go/packages, go/ast, go/ssa + VTA): constants, select inventory, field accesses, state-function return graph, and the translation of the Go boolean decisions into BExp (leaves = Go source text; the environment that interprets the leaves is chosen in the tie theorem statements, the control structure around the conditions is written out there by hand), and the path translation of the message-handling state functions (extract/paths.go: structured control flow only — if / switch / type switch / select / for / return / continue / break / defer / one level of closure inlining; effects are statement-level calls by callee text; which guard a model input determines and what a callee means is fixed in Model/PathSem.lean and trusted as the reading of the Go source text)',
    'correspondence harness /verif/harness (Go) and Lean driver: same inputs to both sides, faithful canonicalisation',
    'Go semantics as transcribed in CoreBGP/Model/Go.lean (fixed-width wrap-around, slice bounds, append/copy)',
    'hand-written Lean model CoreBGP/Model/* is tied to /repo only by the regenerated Gen/* facts and by the differential / trace-inclusion runs',
]


def sh(cmd, cwd=None, env=None, timeout=None, inp=None):
    """run a command, return (rc, stdout+stderr)"""
    try:
        p = subprocess.run(cmd, cwd=cwd, env=env, timeout=timeout, input=inp,
                           stdout=subprocess.PIPE, stderr=subprocess.STDOUT, text=True,
                           shell=isinstance(cmd, str))
        return p.returncode, p.stdout
    except subprocess.TimeoutExpired as e:
        return 124, (e.stdout or '') + '\nTIMEOUT'


def load_known():
    out = []
    if os.path.exists(KNOWN):
        for line in open(KNOWN):
            line = line.strip()
            if line and not line.startswith('#'):
                out.append(json.loads(line))
    return out
