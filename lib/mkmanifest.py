#!/usr/bin/env python3
"""Regenerates /verif/MANIFEST.json from lib/props.py (claimed checks) and properties.jsonl."""
import json, os, sys, subprocess
sys.path.insert(0, os.path.dirname(__file__))
import props as P
from common import TRUSTED_BASE

V = os.path.dirname(os.path.abspath(__file__)) if os.path.basename(os.path.dirname(os.path.abspath(__file__))) != 'lib' else os.path.dirname(os.path.dirname(os.path.abspath(__file__)))
ids = [json.loads(l)['id'] for l in open(os.path.join(V, 'properties.jsonl'))]
hooks = subprocess.run(['git', '-C', '/repo', 'log', '--format=%H %s'], capture_output=True, text=True).stdout.strip().split('\n')
hook_commits = [l.split(' ', 1)[0] for l in hooks if l.split(' ', 1)[1].startswith('verif:')]
checks = []
for pid in ids:
    if pid not in P.PROPS or not P.PROPS[pid].get('lean'):
        continue
    c = P.PROPS[pid]
    checks.append({
        'property_id': pid,
        'quick_cmd': f'./check {pid} quick',
        'thorough_cmd': f'./check {pid} thorough',
        'evidence_file': f'/verif/evidence/{pid}.json',
        'replay_cmd_template': './check replay {path}',
        'engine': c.get('engine', 'lean-proof + l0-differential'),
        'level_claimed': {
            'category': 'proof',
            'text': c.get('level_text') or ('Lean 4 theorems (all inputs / all operation sequences, no bound) about an executable model of the anchored code for: ' + c['title'] + '. The model is tied to /repo on every run by regenerated constants and by a differential correspondence run, and an RFC-level Lean specification is evaluated as oracle on the implementation output.'),
            'design_ref': f'DESIGN.md section 9 ({pid})',
        },
        'level_note': c.get('level_note', 'Trusted base: ' + '; '.join(TRUSTED_BASE)),
        'technique': c.get('technique', 'Lean 4 theorems about an executable model + differential correspondence with the Go code'),
    })
na = [{'property_id': pid, 'reason': P.NOT_CLAIMED.get(pid, 'check not built yet (planned in DESIGN.md section 9); not a claim that the technique cannot apply')}
      for pid in ids if pid not in P.PROPS or not P.PROPS[pid].get('lean')]
m = {
    'version': 1,
    'setup_cmd': './setup.sh',
    'hooks': {
        'guard': 'verif',
        'enable': 'go build -tags verif (the harness modules replace github.com/jwhited/corebgp => /repo)',
        'baseline_off_cmd': 'cd /repo && go test -vet=off -count=1 ./...',
        'source_commits': hook_commits,
        'add_only': True,
    },
    'engines': [
        {'name': 'lean', 'path': '/verif/lean', 'serves_properties': [c['property_id'] for c in checks],
         'kind_free_text': 'Lean 4 development: executable model of corebgp (CoreBGP/Model), RFC-level specs (CoreBGP/Spec), property theorems (CoreBGP/Props), compiled line-protocol driver'},
        {'name': 'extract', 'path': '/verif/extract', 'serves_properties': [c['property_id'] for c in checks],
         'kind_free_text': 'Go extractor (go/packages, go/ssa): regenerates CoreBGP/Gen/*.lean facts from /repo on every run (tie 1)'},
        {'name': 'l0', 'path': '/verif/harness/cmd/l0', 'serves_properties': [p for p in ids if p in P.PROPS and P.PROPS[p].get('l0')],
         'kind_free_text': 'call-level differential harness: real corebgp functions in-process vs the Lean model, Lean spec as oracle (tie 2)'},
    ],
    'checks': checks,
    'notes': 'Machine-checked proof in Lean 4 about a hand-written executable model, tied to /repo by regenerated facts and by differential / trace-inclusion correspondence. See DESIGN.md.',
    'not_applicable': na,
}
json.dump(m, open(os.path.join(V, 'MANIFEST.json'), 'w'), indent=1)
print(f'{len(checks)} checks, {len(na)} not claimed')
