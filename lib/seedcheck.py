#!/usr/bin/env python3
"""seedcheck <pid> <A|B> [check ids…]: confirm a seeded change (from /tmp/seed-<pid>) and run our checks against it.
1. scratch worktree: with the patch the demo fails and the existing suite passes; without it the demo passes;
2. apply to /repo, run the listed checks (default: the property itself), undo;
3. store patch, demo, meta.json under /verif/seeded/<pid>-<X>/."""
import sys, os, subprocess, json, shutil, glob, re
pid, X = sys.argv[1], sys.argv[2]
checks = sys.argv[3:] or [pid]
rnd = os.environ.get('SEED_ROUND', '')
seed = f'/tmp/seed{rnd}-{pid}'
patch = f'{seed}/patch{X}.diff'
demos = glob.glob(f'{seed}/demo{X}*')
env = dict(os.environ, GOFLAGS='-mod=mod', GOPROXY='off', GOSUMDB='off', GOTOOLCHAIN='local')
wt = f'/tmp/wtv-{pid}{X}{os.environ.get("SEED_ROUND", "")}'
def sh(cmd, cwd=None, timeout=1800):
    p = subprocess.run(cmd, shell=True, cwd=cwd, env=env, capture_output=True, text=True, timeout=timeout)
    return p.returncode, (p.stdout + p.stderr)
sh(f'git -C /repo worktree remove --force {wt}')
rc, o = sh(f'git -C /repo worktree add -q {wt} HEAD')
meta = dict(property=pid, variant=X, checks={}, confirmed={})
try:
    notes = open(f'{seed}/notes{X}.md').read()
except OSError:
    notes = ''
meta['notes'] = notes
def put_demo():
    for d in demos:
        if os.path.isdir(d):
            shutil.copytree(d, os.path.join(wt, os.path.basename(d)), dirs_exist_ok=True)
        else:
            shutil.copy(d, wt)
def rm_demo():
    for d in demos:
        t = os.path.join(wt, os.path.basename(d))
        if os.path.isdir(t): shutil.rmtree(t)
        elif os.path.exists(t): os.remove(t)
def run_demo():
    if any(os.path.isdir(d) for d in demos):
        d = [x for x in demos if os.path.isdir(x)][0]
        return sh(f'go run ./{os.path.basename(d)}', cwd=wt, timeout=600)
    names = []
    for d in demos:
        names += re.findall(r'^func (Test\w+)\(', open(d).read(), flags=re.M)
    race = '-race ' if (os.environ.get('SEED_RACE') or any('//go:build race' in open(d).read() for d in demos if os.path.isfile(d))) else ''
    return sh(f"go test {race}-vet=off -count=1 -run '^({'|'.join(names)})$' .", cwd=wt, timeout=900)
# unchanged tree: demo passes
put_demo(); rc0, o0 = run_demo(); rm_demo()
meta['confirmed']['demo_passes_unchanged'] = rc0 == 0
rc, o = sh(f'git apply {patch}', cwd=wt)
meta['confirmed']['patch_applies'] = rc == 0
rcb, ob = sh('go build ./... && go build -tags verif ./... && go test -vet=off -count=1 ./... 2>&1 | tail -3', cwd=wt)
meta['confirmed']['suite_passes_with_patch'] = rcb == 0 and 'FAIL' not in ob
put_demo(); rc1, o1 = run_demo(); rm_demo()
meta['confirmed']['demo_fails_with_patch'] = rc1 != 0
meta['demo_output_with_patch'] = o1[-1500:]
sh(f'git -C /repo worktree remove --force {wt}')
ok = all(meta['confirmed'].values())
print('confirmed:', meta['confirmed'])
# our checks
if ok:
    rc, o = sh(f'git -C /repo apply {patch}')
    try:
        for c in checks:
            rc, o = sh(f'./check {c} quick', cwd='/verif', timeout=3600)
            lines = [l for l in o.split('\n') if l.startswith('VIOLATION') or l.startswith('check ') or l.startswith('KNOWN')]
            meta['checks'][c] = dict(exit=rc, output=lines[-6:])
            print(c, 'exit', rc, '|', ' || '.join(lines[-3:])[:400])
            for l in lines:
                m = re.search(r'replay=(\S+)', l)
                if m and os.path.exists(m.group(1)):
                    b = json.load(open(m.group(1)))
                    meta['checks'][c].setdefault('replays', []).append({k: (v if k != 'trace' else v[-5:]) for k, v in b.items() if k in ('kind', 'case', 'spec_clause_failed', 'implementation', 'model', 'no_longer_checks')})
    finally:
        sh('git -C /repo checkout -- . && git -C /repo clean -fdq')
out = f'/verif/seeded/{pid}-{X}{rnd}'
os.makedirs(out, exist_ok=True)
shutil.copy(patch, f'{out}/patch.diff')
for d in demos:
    if os.path.isdir(d): shutil.copytree(d, f'{out}/{os.path.basename(d)}', dirs_exist_ok=True)
    else: shutil.copy(d, out)
meta['needs'] = ''
json.dump(meta, open(f'{out}/meta.json', 'w'), indent=1)
# restore evidence written against the mutated tree
sh('git -C /verif checkout -- evidence 2>/dev/null')
sh('/verif/build/extract -out /verif/lean/CoreBGP/Gen')
sh("cd /verif/harness && go build -tags verif -o /verif/build/live ./cmd/live")
