#!/usr/bin/env python3
"""seedsummary: fill `needs` in every seeded/*/meta.json from the worker's notes and print the table of
seeded changes (change | needs | caught by) for DESIGN.md section 0.4."""
import json, glob, os, re, sys
V = os.path.dirname(os.path.dirname(os.path.abspath(__file__)))
rows = []
for d in sorted(glob.glob(os.path.join(V, 'seeded', '*'))):
    mp = os.path.join(d, 'meta.json')
    if not os.path.exists(mp):
        continue
    m = json.load(open(mp))
    notes = (m.get('notes') or '').replace('\r', '')
    lines = [l.strip() for l in notes.split('\n')]
    title = re.sub(r'^#+\s*', '', lines[0]) if lines else ''
    title = re.sub(r'^(Seed|Change)\s+(C\d\d-)?[AB]\s*[—:\-–]+\s*', '', title).strip('* ')
    # the "needs" paragraph
    needs, on = [], False
    for l in lines[1:]:
        l2 = l.strip('*- ')
        if re.match(r'(?i)^(\*\*)?(it )?(only )?(needs|need|trigger|triggers|manifests?|requires)\b', l2):
            on = True
            needs.append(re.sub(r'(?i)^(\*\*)?(it )?(only )?(needs|need|trigger|triggers|manifests?|requires)[^:]*?[:.\-—]\s*', '', l2, count=1) if ':' in l2[:60] else l2)
            continue
        if on:
            if not l2 or re.match(r'(?i)^(demo|commands?|why|what|verification|files|unaffected|effect|with |without )', l2):
                break
            needs.append(l2)
    nd = ' '.join(needs).replace('**', '').strip()
    if len(nd) > 260:
        nd = nd[:257].rsplit(' ', 1)[0] + ' …'
    m['needs'] = nd or m.get('needs', '')
    m['what_ran'] = 'lib/seedcheck.py: demo passes on HEAD / fails with patch, unedited suite passes with patch (scratch worktree); patch applied to /repo, listed checks run (quick tier), patch undone'
    json.dump(m, open(mp, 'w'), indent=1)
    caught = [c for c, v in m.get('checks', {}).items() if v.get('exit')]
    missed = [c for c, v in m.get('checks', {}).items() if not v.get('exit')]
    nf = [c for c, v in m.get('checks', {}).items() if any('no-failing-input-found' in o for o in v.get('output', []))]
    rows.append((os.path.basename(d), title, m['needs'], caught, missed, nf))
if '--table' in sys.argv:
    print('| change | what | needs | reported by |')
    print('|---|---|---|---|')
    for name, title, needs, caught, missed, nf in rows:
        c = ', '.join(x + (' (correspondence only)' if x in nf else '') for x in caught) or '—'
        if missed:
            c += f' (not by {", ".join(missed)})'
        t = title.replace('|', '/')[:150]
        print(f'| {name} | {t} | {needs.replace("|", "/")} | {c} |')
else:
    for r in rows:
        print(r[0], '| caught', r[3], '| missed', r[4])
