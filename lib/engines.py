"""Engines behind ./check: tool builds, Lean build + audit, L0 differential, verdicts, evidence."""
import os, re, json, time, hashlib, shutil, glob, sys
from common import *
import props as P

WORK = os.path.join(BUILD, 'work')

VERDICT_RE = re.compile(r'^(agree|DISAGREE) model=(\S+) oracle=(ok|na|FAIL:.*?) branch=(\S+)$')


class Report:
    """everything one check run found"""

    def __init__(self, pid, tier, seed):
        self.pid, self.tier, self.seed = pid, tier, seed
        self.t0 = time.time()
        self.broken = []          # (kind, name, detail) : broken ties / obligations
        self.failures = []        # oracle failures: dict(case, impl, model, clause, engine)
        self.disagreements = []   # model != impl: dict(case, impl, model, engine)
        self.obligations = []
        self.discharged = []
        self.axioms = {}
        self.evaluations = 0
        self.distinct = set()
        self.branches = {}
        self.samples = []
        self.exhaustive = []
        self.traces = 0
        self.extra = {}
        self.notes = []


# ----------------------------------------------------------------------------- builds

def build_tools(rep):
    os.makedirs(WORK, exist_ok=True)
    rc, out = sh(['go', 'build', '-o', os.path.join(BUILD, 'extract'), '.'], cwd=os.path.join(V, 'extract'), env=GOENV)
    if rc:
        print(out)
        print('check: internal error: extractor does not build')
        sys.exit(2)
    rc, out = sh([os.path.join(BUILD, 'extract'), '-repo', REPO, '-out', GEN], env=GOENV, timeout=600)
    if rc:
        rep.broken.append(('tie1', 'extractor could not regenerate CoreBGP/Gen from /repo', out[-4000:]))
    elif out.strip():
        rep.notes.append(out.strip())
    try:
        shutil.copy(os.path.join(REPO, 'go.sum'), os.path.join(V, 'harness', 'go.sum'))
    except OSError:
        pass
    ok = True
    for name in ('l0', 'live'):
        src = os.path.join(V, 'harness', 'cmd', name)
        if not os.path.exists(os.path.join(src, 'main.go')):
            continue
        # the binary whose output is judged is a plain build. (Coverage instrumentation is NOT semantics-preserving
        # for this module: go.mod says go 1.21, and the instrumented build was observed to hide a shared-loop-variable
        # capture bug that the plain build exhibits.)
        rc, out = sh(['go', 'build', '-tags', 'verif', '-o', os.path.join(BUILD, name), './cmd/' + name],
                     cwd=os.path.join(V, 'harness'), env=GOENV, timeout=900)
        if rc:
            ok = False
            rep.broken.append(('tie2', f'harness {name} does not build against /repo with -tags verif', out[-4000:]))
            continue
        # a second build with statement-coverage counters for the corebgp package, run on the same arguments with its
        # output discarded: the evidence reports how much of the anchored Go code the generators / scenarios execute
        rc, out = sh(['go', 'build', '-cover', '-coverpkg=github.com/jwhited/corebgp,verif/harness/cmd/' + name, '-tags', 'verif', '-o', os.path.join(BUILD, name + '-cov'), './cmd/' + name],
                     cwd=os.path.join(V, 'harness'), env=GOENV, timeout=900)
        if rc:
            try:
                os.remove(os.path.join(BUILD, name + '-cov'))
            except OSError:
                pass
    return ok


def cov_pass(name, args):
    """start the coverage-instrumented twin of build/<name> on the same arguments (output discarded)"""
    import subprocess
    exe = os.path.join(BUILD, name + '-cov')
    if not os.path.exists(exe) or os.environ.get('VERIF_NOCOV'):
        return None
    os.makedirs(COVDIR, exist_ok=True)
    try:
        return subprocess.Popen([exe] + args, stdout=subprocess.DEVNULL, stderr=subprocess.DEVNULL, env=dict(GOENV, GOCOVERDIR=COVDIR))
    except OSError:
        return None


def cov_wait(p, timeout=900):
    if p is None:
        return
    try:
        p.wait(timeout=timeout)
    except Exception:
        p.kill()


def lake_build(targets, timeout=7200):
    return sh(['lake', 'build'] + targets, cwd=LEAN, timeout=timeout)


def theorem_names(module):
    """(name, first_line, last_line) for every theorem in a Props module (source level)"""
    path = os.path.join(LEAN, module.replace('.', '/') + '.lean')
    ns = module
    out = []
    try:
        lines = open(path).read().split('\n')
    except OSError:
        return out
    stack = []
    for i, l in enumerate(lines):
        mn = re.match(r'^namespace\s+(\S+)', l)
        if mn:
            stack.append(mn.group(1))
            continue
        me = re.match(r'^end\s+(\S+)', l)
        if me and stack and stack[-1] == me.group(1):
            stack.pop()
            continue
        m = re.match(r'^theorem\s+([^\s:({\[]+)', l)
        if m:
            full = '.'.join(stack + [m.group(1)])
            if full.startswith(ns + '.'):
                out.append([full, i + 1, len(lines)])
    for k in range(len(out) - 1):
        out[k][2] = out[k + 1][1] - 1
    return out


def lean_obligations(rep):
    cfg = P.PROPS[rep.pid]
    mods = cfg.get('lean', [])
    rc, out = lake_build(['driver'])
    driver_ok = rc == 0
    if rc:
        rep.broken.append(('model', 'the Lean model / driver no longer builds against the regenerated Gen facts', out[-4000:]))
    if not mods:
        return driver_ok
    names = []
    for m in mods:
        names += theorem_names(m)
    rep.obligations = [n for n, _, _ in names]
    rc, out = lake_build(mods + ['CoreBGP.AuditCmd'])
    good_mods = list(mods)
    if rc:
        # build module by module: what still builds is still audited and counted; in a module that does not build,
        # error positions are mapped to theorems (an error outside every theorem, or in an imported lemma module,
        # takes all theorems of that module with it)
        good_mods = []
        lake_build(['CoreBGP.AuditCmd'])
        for m in mods:
            rc1, out1 = lake_build([m])
            if rc1 == 0:
                good_mods.append(m)
                continue
            mine = [(n, a, b) for n, a, b in names if n.startswith(m + '.')]
            failed = set()
            for mm in re.finditer(r'error: (\S+?\.lean):(\d+):(\d+):\s*(.*)', out1):
                f, line = mm.group(1), int(mm.group(2))
                mod = f[:-5].replace('/', '.')
                hit = [n for n, a, b in mine if mod == m and a <= line <= b]
                if hit:
                    failed.update(hit)
                else:
                    failed.update(n for n, _, _ in mine)
            if not failed:
                failed.update(n for n, _, _ in mine)
            # theorems of this module that did not fail themselves cannot be checked either (the module has no olean)
            for n, _, _ in mine:
                rep.broken.append(('theorem', n, ('does not check: ' if n in failed else 'in a module that no longer builds: ') + out1[-1500:]))
        if not good_mods:
            rep.discharged = []
            return driver_ok
    # audit axioms
    audit = os.path.join(WORK, f'audit_{rep.pid}.lean')
    with open(audit, 'w') as f:
        f.write('import CoreBGP.AuditCmd\n')
        for m in good_mods:
            f.write(f'import {m}\n')
        for m in good_mods:
            f.write(f'#audit_props {m}\n')
    rc, out = sh(['lake', 'env', 'lean', audit], cwd=LEAN, timeout=1800)
    rows = {}
    for l in out.split('\n'):
        l = l.strip()
        if l.startswith('{'):
            try:
                r = json.loads(l)
                rows[r['theorem']] = r
            except ValueError:
                pass
    if rc:
        rep.broken.append(('audit', 'axiom audit failed to run', out[-2000:]))
    for n in rep.obligations:
        if not any(n.startswith(m + '.') for m in good_mods):
            continue
        r = rows.get(n)
        if r is None:
            rep.broken.append(('theorem', n, 'not found by the audit'))
        elif not r['ok']:
            rep.broken.append(('axiom', n, 'depends on axioms outside {propext, Classical.choice, Quot.sound}: ' + ','.join(r['axioms'])))
        else:
            rep.discharged.append(n)
            rep.axioms[n] = r['axioms']
    # thorough tier: independent re-check of the compiled modules with leanchecker
    if rep.tier == 'thorough':
        rc, out = sh(['lake', 'env', 'leanchecker'] + good_mods, cwd=LEAN, timeout=3600)
        rep.extra['leanchecker'] = 'ok' if rc == 0 else 'FAILED: ' + out[-400:]
        if rc:
            rep.broken.append(('audit', 'leanchecker rejected the compiled modules', out[-1500:]))
    # textual backup of the audit
    for m in mods:
        src = open(os.path.join(LEAN, m.replace('.', '/') + '.lean')).read()
        src = re.sub(r'/-.*?-/', '', src, flags=re.S)
        src = re.sub(r'--.*', '', src)
        bad = re.findall(r'(?<![.\w])(sorry|admit|native_decide|bv_decide|implemented_by|unsafe)\b(?!\s*[:_])|^axiom\s|maxHeartbeats\s+0\b', src, flags=re.M)
        if bad:
            rep.broken.append(('axiom', m, f'forbidden construct in source: {bad[:3]}'))
    return driver_ok


# ----------------------------------------------------------------------------- L0 differential

def l0_pipeline(args, tag, cov=False):
    """run build/l0 with args, pipe through the driver; returns list of (case, impl, verdict tuple)"""
    cases = os.path.join(WORK, f'cases_{tag}.txt')
    verd = os.path.join(WORK, f'verdicts_{tag}.txt')
    with open(cases, 'w') as f:
        rc = subprocess_run_to(f, [os.path.join(BUILD, 'l0')] + args)
    if rc:
        return None, f'l0 harness exited with {rc}'
    cp = cov_pass('l0', args) if cov else None
    with open(cases) as fi, open(verd, 'w') as fo:
        rc = subprocess_run_to(fo, [DRIVER, 'l0'], stdin=fi)
    cov_wait(cp)
    if rc:
        return None, f'driver exited with {rc}'
    out = []
    with open(cases) as fc, open(verd) as fv:
        for c, v in zip(fc, fv):
            c = c.rstrip('\n')
            v = v.rstrip('\n')
            i = c.find(' => ')
            m = VERDICT_RE.match(v)
            if m is None:
                out.append((c[:i], c[i + 4:], ('ERROR', v, 'na', 'error')))
            else:
                out.append((c[:i], c[i + 4:], m.groups()))
    return out, None


COVDIR = os.path.join(WORK, 'cov')


def subprocess_run_to(fout, cmd, stdin=None):
    import subprocess
    p = subprocess.run(cmd, stdin=stdin, stdout=fout, stderr=subprocess.PIPE, env=GOENV)
    if p.returncode:
        sys.stderr.write(p.stderr.decode(errors='replace')[-2000:])
    return p.returncode


def absorb_l0(rep, results, engine, sample=True):
    cfg = P.PROPS[rep.pid]
    trivial = [re.compile(x) for x in cfg.get('trivial', [])]
    for case, impl, (agree, model, oracle, branch) in results:
        rep.evaluations += 1
        rep.branches[branch] = rep.branches.get(branch, 0) + 1
        if not any(t.search(branch) for t in trivial):
            rep.distinct.add(hashlib.blake2b(case.encode(), digest_size=8).digest())
        if agree == 'ERROR':
            rep.disagreements.append(dict(case=case, impl=impl, model=model, engine=engine, note='driver could not process the line'))
        elif agree == 'DISAGREE':
            rep.disagreements.append(dict(case=case, impl=impl, model=model, engine=engine))
        if oracle.startswith('FAIL:'):
            only = cfg.get('clauses')
            if only and not re.search(only, oracle[5:]):
                # a clause that belongs to another property's subject (e.g. a listed C18 finding seen by C05's generators)
                rep.extra['failures_of_other_properties_clauses'] = rep.extra.get('failures_of_other_properties_clauses', 0) + 1
            else:
                rep.failures.append(dict(case=case, impl=impl, model=model, clause=oracle[5:], engine=engine))
    if sample:
        seen = set()
        for case, impl, (agree, model, oracle, branch) in results:
            if branch not in seen and len(case) < 300 and len(rep.samples) < 12:
                seen.add(branch)
                rep.samples.append(f'{case} => {impl}  [{agree}, oracle={oracle[:40]}, branch={branch}]')


def run_l0(rep, tier=None, seed=None, tag=None):
    pid = rep.pid
    tier = tier or rep.tier
    seed = rep.seed if seed is None else seed
    tag = tag or f'{pid}_{tier}_{seed}'
    # corpus first
    cdir = os.path.join(CORPUS, pid)
    for f in sorted(glob.glob(os.path.join(cdir, '*.txt'))):
        res, err = l0_pipeline(['-replay', f], f'{pid}_corpus')
        if res is None:
            rep.broken.append(('tie2', 'L0 engine failed on the corpus', err))
        else:
            absorb_l0(rep, res, 'l0-corpus', sample=False)
    res, err = l0_pipeline(['-prop', pid, '-tier', tier, '-seed', str(seed)], tag, cov=(tag == f'{pid}_{tier}_{seed}'))
    if res is None:
        rep.broken.append(('tie2', 'L0 engine failed', err))
        return
    absorb_l0(rep, res, 'l0')


# ----------------------------------------------------------------------------- live traces

LIVE_RE = re.compile(r'^S (\S+) (ok|FAIL) ?(.*)$')


def live_pipeline(args, tag, cov=False):
    """run build/live with args, pipe the traces through the driver; returns (results, traces, err)"""
    import subprocess
    tr = os.path.join(WORK, f'traces_{tag}.txt')
    vd = os.path.join(WORK, f'liveverdicts_{tag}.txt')
    with open(tr, 'w') as f:
        rc = subprocess_run_to(f, [os.path.join(BUILD, 'live')] + args)
    if rc:
        return None, None, f'live harness exited with {rc}'
    # coverage twin: after the judged run has finished (no interference with its timing), while the driver works
    cp = cov_pass('live', ['quick' if a == 'thorough' else a for a in args]) if cov else None
    with open(tr) as fi, open(vd, 'w') as fo:
        rc = subprocess_run_to(fo, [DRIVER, 'live'], stdin=fi)
    cov_wait(cp)
    if rc:
        return None, None, f'driver exited with {rc}'
    traces, cur, name = {}, [], None
    for l in open(tr):
        if l.startswith('# scenario '):
            name, cur = l[11:].strip(), []
        elif l.startswith('# end'):
            traces[name] = cur
        else:
            cur.append(l.rstrip('\n'))
    res = []
    for l in open(vd):
        m = LIVE_RE.match(l.rstrip('\n'))
        if m:
            res.append(m.groups())
    return res, traces, None


def absorb_live(rep, res, traces, engine='live'):
    seen_ok = set()
    for spec, status, rest in res:
        fam = spec.split(':')[0]
        if status == 'ok':
            rep.evaluations += 1
            rep.traces += 1
            seen_ok.add(spec)
            rep.distinct.add(hashlib.blake2b(('live ' + spec).encode(), digest_size=8).digest())
            rep.branches['live/' + fam] = rep.branches.get('live/' + fam, 0) + 1
            if len([x for x in rep.samples if x.startswith('live ')]) < 4:
                rep.samples.append(f'live {spec}: {rest}; first events: ' + ' | '.join(traces.get(spec, [])[:6]))
        else:
            rep.failures.append(dict(case=spec, impl='(trace)', model=None, clause=rest, engine=engine,
                                     trace=traces.get(spec, [])))
    failed = {f['case'] for f in rep.failures if f.get('engine') == engine}
    rep.evaluations += len(failed)


def run_live(rep, tier=None, seed=None):
    tier = tier or rep.tier
    seed = rep.seed if seed is None else seed
    par = str(os.cpu_count() or 8)
    res, traces, err = live_pipeline(['-prop', rep.pid, '-tier', tier, '-seed', str(seed), '-par', par], f'{rep.pid}_{tier}_{seed}',
                                     cov=(tier == rep.tier and seed == rep.seed))
    if res is None:
        rep.broken.append(('tie2', 'live engine failed', err))
        return
    # liveness expectations are retried once, alone
    flaky = sorted({spec for spec, st, rest in res if st == 'FAIL' and rest.startswith('LIVENESS')})
    if flaky:
        only_live = {spec for spec in flaky if all(r.startswith('LIVENESS') for s2, st, r in res if s2 == spec and st == 'FAIL')}
        if only_live:
            f = os.path.join(WORK, f'retry_{rep.pid}.txt')
            open(f, 'w').write('\n'.join(sorted(only_live)) + '\n')
            res2, traces2, err2 = live_pipeline(['-specs', f, '-seed', str(seed), '-par', '2'], f'{rep.pid}_retry')
            if res2 is not None:
                res = [r for r in res if r[0] not in only_live] + res2
                traces.update(traces2)
                rep.notes.append(f'retried {len(only_live)} scenarios whose only failure was a liveness timeout')
    absorb_live(rep, res, traces)


# ----------------------------------------------------------------------------- shrinking

def split_top(s):
    """split the inside of a [...] list at top-level commas"""
    out, depth, cur = [], 0, ''
    for ch in s:
        if ch in '([':
            depth += 1
        elif ch in ')]':
            depth -= 1
        if ch == ',' and depth == 0:
            out.append(cur)
            cur = ''
        else:
            cur += ch
    if cur:
        out.append(cur)
    return out


def candidates(case):
    """smaller variants of a case line `fn a1 a2 …`"""
    parts = case.split(' ')
    for k in range(1, len(parts)):
        a = parts[k]
        if re.fullmatch(r'[0-9a-f]{2,}', a) and len(a) % 2 == 0:
            n = len(a) // 2
            size = max(n // 2, 1)
            while size >= 1:
                for i in range(0, n, size):
                    b = a[:2 * i] + a[2 * (i + size):]
                    yield ' '.join(parts[:k] + [b if b else '-'] + parts[k + 1:])
                if size == 1:
                    break
                size //= 2
            for i in range(n):
                if a[2 * i:2 * i + 2] != '00':
                    yield ' '.join(parts[:k] + [a[:2 * i] + '00' + a[2 * i + 2:]] + parts[k + 1:])
        elif a.startswith('[') and a.endswith(']') and len(a) > 2:
            items = split_top(a[1:-1])
            for i in range(len(items)):
                yield ' '.join(parts[:k] + ['[' + ','.join(items[:i] + items[i + 1:]) + ']'] + parts[k + 1:])


def evaluate_cases(cases, tag):
    f = os.path.join(WORK, f'shrink_{tag}.txt')
    with open(f, 'w') as fo:
        fo.write('\n'.join(cases) + '\n')
    res, err = l0_pipeline(['-replay', f], f'shrink_{tag}')
    return res or []


def shrink(case, pred, tag, budget=60):
    """greedy delta debugging: keep the first smaller variant on which pred(result) holds"""
    cur = case
    for _ in range(budget):
        cands = []
        seen = set()
        for c in candidates(cur):
            if c not in seen and len(c) < len(cur) or (len(c) == len(cur) and c != cur and c not in seen):
                seen.add(c)
                cands.append(c)
            if len(cands) >= 400:
                break
        if not cands:
            break
        res = evaluate_cases(cands, tag)
        nxt = None
        for r in res:
            if pred(r) and (len(r[0]) < len(cur) or r[0].count('00') > cur.count('00')):
                nxt = r
                break
        if nxt is None:
            break
        cur = nxt[0]
    res = evaluate_cases([cur], tag)
    return res[0] if res else None


# ----------------------------------------------------------------------------- verdict

def match_known(entry, f):
    m = entry.get('match', {})
    case = f.get('case', '')
    fn = case.split(' ', 1)[0]
    if 'fn' in m and m['fn'] != fn:
        return False
    if 'case_re' in m and not re.search(m['case_re'], case):
        return False
    if 'clause_re' in m and not re.search(m['clause_re'], f.get('clause', '')):
        return False
    if 'impl_re' in m and not re.search(m['impl_re'], f.get('impl', '')):
        return False
    return True


def write_replay(rep, n, body):
    os.makedirs(REPLAYS, exist_ok=True)
    path = os.path.join(REPLAYS, f'{rep.pid}-{rep.seed}-{n}.json')
    body = dict(body)
    body.update(property=rep.pid, seed=rep.seed, tier=rep.tier, replay_cmd=f'./check replay {path}')
    with open(path, 'w') as f:
        json.dump(body, f, indent=1)
    return path


def build_race_harness(rep):
    out = os.path.join(BUILD, 'live-race')
    rc, o = sh(['go', 'build', '-race', '-tags', 'verif', '-o', out, './cmd/live'],
               cwd=os.path.join(V, 'harness'), env=dict(GOENV, CGO_ENABLED='1'), timeout=900)
    if rc:
        rep.notes.append('race-detector build of the live harness failed: ' + o[-500:])
        return None
    return out


def run_live_race(rep, props, tier='quick'):
    """live scenarios under the Go race detector (search aid / cross-check of the access table)"""
    exe = build_race_harness(rep)
    if exe is None:
        return
    import subprocess
    for pid in props:
        tag = f'{rep.pid}_race_{pid}'
        tr = os.path.join(WORK, f'traces_{tag}.txt')
        vd = os.path.join(WORK, f'liveverdicts_{tag}.txt')
        with open(tr, 'w') as f:
            rc = subprocess_run_to(f, [exe, '-prop', pid, '-tier', tier, '-seed', str(rep.seed), '-par', str(max(2, (os.cpu_count() or 8) // 2))])
        if rc:
            continue
        with open(tr) as fi, open(vd, 'w') as fo:
            subprocess_run_to(fo, [DRIVER, 'live'], stdin=fi)
        traces, cur, name = {}, [], None
        for l in open(tr):
            if l.startswith('# scenario '):
                name, cur = l[11:].strip(), []
            elif l.startswith('# end'):
                traces[name] = cur
            else:
                cur.append(l.rstrip('\n'))
        res = [LIVE_RE.match(l.rstrip('\n')).groups() for l in open(vd) if LIVE_RE.match(l.rstrip('\n'))]
        # only race reports count here: timing monitors are not meaningful under the detector's slowdown
        res = [r for r in res if r[1] == 'ok' or 'data race' in r[2]]
        absorb_live(rep, res, traces, engine='live-race')
        rep.extra['race_detector_scenarios'] = rep.extra.get('race_detector_scenarios', 0) + len(traces)


def search_live(rep):
    cfg = P.PROPS[rep.pid]
    if cfg.get('race_search'):
        run_live_race(rep, cfg['race_search'])


def search_l0(rep):
    """after a broken obligation / correspondence: look harder for an input on which the oracle fails"""
    if not P.PROPS[rep.pid].get('l0') or not os.path.exists(os.path.join(BUILD, 'l0')) or not os.path.exists(DRIVER):
        return
    deadline = time.time() + (240 if rep.tier == 'quick' else 900)
    for k in range(3):
        if time.time() > deadline or rep.failures:
            break
        sub = Report(rep.pid, 'thorough', rep.seed * 1000 + 17 + k)
        run_l0(sub, tier='thorough', seed=sub.seed, tag=f'{rep.pid}_search{k}')
        rep.evaluations += sub.evaluations
        rep.distinct |= sub.distinct
        rep.failures += sub.failures
        rep.disagreements += sub.disagreements


def verdict(rep):
    allknown = [k for k in load_known() if k.get('kind') == 'finding']
    known = [k for k in allknown if k.get('property') == rep.pid]
    foreign = [k for k in allknown if k.get('property') != rep.pid]
    new_fail, known_hits = [], {}
    for f in rep.failures:
        hit = next((k for k in known if match_known(k, f)), None)
        if hit is None and any(match_known(k, f) for k in foreign):
            # a listed finding of another property, seen by this property's generators: reported there, not here
            rep.extra['failures_matching_known_findings_of_other_properties'] = rep.extra.get('failures_matching_known_findings_of_other_properties', 0) + 1
            continue
        if hit is not None:
            known_hits.setdefault(hit['id'], (hit, 0))
            known_hits[hit['id']] = (hit, known_hits[hit['id']][1] + 1)
        else:
            new_fail.append(f)
    # a disagreement on an input that is a listed finding's input is not news either
    new_dis = [d for d in rep.disagreements if not any(match_known(k, d) for k in known if k.get('covers_disagreement'))]
    if (rep.broken or new_dis) and not new_fail:
        before = len(rep.failures)
        search_l0(rep)
        search_live(rep)
        for f in rep.failures[before:]:
            if not any(match_known(k, f) for k in known):
                new_fail.append(f)
    lines = []
    nviol = 0
    for hit, cnt in known_hits.values():
        lines.append(f"KNOWN-FINDING: property={rep.pid} {hit['text']} ({cnt} cases this run)")
    if new_fail:
        groups = {}
        for f in new_fail:
            groups.setdefault((f['case'].split(' ', 1)[0], f['clause']), []).append(f)
        for n, ((fn, clause), fs) in enumerate(sorted(groups.items())[:6]):
            f = min(fs, key=lambda x: len(x['case']))
            small = None
            if f.get('engine', '').startswith('l0'):
                small = shrink(f['case'], lambda r: r[2][2] == 'FAIL:' + clause, f'{rep.pid}_{n}')
            if small is not None and small[2][2] == 'FAIL:' + clause:
                f = dict(case=small[0], impl=small[1], model=small[2][1], clause=clause, engine=f['engine'])
            extra = dict(trace=f['trace'], rerun_cmd=f"build/live -one '{f['case']}' | lean/.lake/build/bin/driver live") if f.get('trace') else {}
            path = write_replay(rep, n, dict(extra, kind='oracle', engine=f.get('engine'), case=f['case'], implementation=f['impl'],
                                             model=f.get('model'), spec_clause_failed=clause, cases_in_group=len(fs),
                                             broken=[list(b[:2]) for b in rep.broken]))
            lines.append(f'VIOLATION property={rep.pid} replay={path}')
            nviol += 1
    elif rep.broken or new_dis:
        d = new_dis[0] if new_dis else None
        path = write_replay(rep, 0, dict(kind='no-failing-input-found',
                                         no_longer_checks=[dict(kind=b[0], name=b[1], detail=b[2][-1500:]) for b in rep.broken] +
                                         ([dict(kind='correspondence', name=f"model and implementation disagree ({len(new_dis)} cases)")] if new_dis else []),
                                         case=d['case'] if d else None, implementation=d['impl'] if d else None,
                                         model=d['model'] if d else None, engine=d.get('engine') if d else None))
        lines.append(f'VIOLATION property={rep.pid} replay={path} no-failing-input-found')
        nviol += 1
    return lines, nviol


def go_coverage(rep):
    """statement coverage of the property's anchored files, measured on this run"""
    if not os.path.isdir(COVDIR) or not os.listdir(COVDIR):
        return
    rc, out = sh(['go', 'tool', 'covdata', 'func', '-i=' + COVDIR], env=GOENV, timeout=300)
    if rc:
        return
    files = set()
    try:
        for l in open(os.path.join(V, 'properties.jsonl')):
            pr = json.loads(l)
            if pr['id'] == rep.pid:
                files = set(pr['anchors']['files'])
    except OSError:
        pass
    cov, tot = {}, {}
    for l in out.split('\n'):
        m = re.match(r'^\S*/([\w.]+\.go):\d+:\s+(\S+)\s+([\d.]+)%$', l.strip())
        if m and m.group(1) in files and not m.group(1).startswith('verif_'):
            pct = float(m.group(3))
            cov[m.group(1) + ':' + m.group(2)] = pct
    if cov:
        rep.extra['go_statement_coverage_of_anchored_functions'] = {k: v for k, v in sorted(cov.items()) if v > 0}
        rep.extra['go_functions_in_anchored_files_not_executed'] = sorted(k for k, v in cov.items() if v == 0)


def write_evidence(rep, nviol):
    os.makedirs(EVIDENCE, exist_ok=True)
    cfg = P.PROPS[rep.pid]
    top = sorted(rep.branches.items(), key=lambda kv: -kv[1])
    cov = dict(
        obligations=len(rep.obligations), discharged=len(rep.discharged),
        checker_cmd=f'cd /verif/lean && lake build {" ".join(cfg.get("lean", []))} && lake env lean ../build/work/audit_{rep.pid}.lean',
        trusted_base=TRUSTED_BASE + cfg.get('trusted', []),
        theorems=rep.discharged, axioms_seen=sorted({a for v in rep.axioms.values() for a in v}),
        undischarged=[b[1] for b in rep.broken if b[0] in ('theorem', 'axiom')],
        evaluations=rep.evaluations, distinct_nontrivial=len(rep.distinct), rule=cfg.get('rule', ''),
        samples=rep.samples[:12] or [f'(no correspondence cases ran) obligations: {rep.obligations[:5]}'],
        branch_histogram=dict(top[:60]), traces_validated_against_impl=rep.traces,
        oracle_failures=len(rep.failures), disagreements=len(rep.disagreements),
        broken_ties=[list(b[:2]) for b in rep.broken],
    )
    if rep.exhaustive:
        cov['exhaustive'] = True
        cov['exhaustive_domains'] = rep.exhaustive
    cov.update(rep.extra)
    ev = dict(property_id=rep.pid, tier=rep.tier, seed=rep.seed, level='proof', coverage=cov,
              assumptions=cfg.get('assumptions', []) + ['see DESIGN.md section 4 (trusted base)'],
              wall_s=round(time.time() - rep.t0, 2), violations=nviol)
    with open(os.path.join(EVIDENCE, rep.pid + '.json'), 'w') as f:
        json.dump(ev, f, indent=1)


def run_check(pid, tier, seed):
    rep = Report(pid, tier, seed)
    cfg = P.PROPS[pid]
    shutil.rmtree(COVDIR, ignore_errors=True)
    # replay files of an earlier run of the same check are not this run's
    for f in glob.glob(os.path.join(REPLAYS, f'{pid}-{seed}-*.json')):
        try:
            os.remove(f)
        except OSError:
            pass
    tools_ok = build_tools(rep)
    driver_ok = lean_obligations(rep)
    if tools_ok and driver_ok:
        if cfg.get('l0'):
            run_l0(rep)
            if tier == 'thorough':
                # two further seeds of the random generators (the exhaustive parts repeat and are counted once)
                for k in (1, 2):
                    run_l0(rep, seed=rep.seed + 1000 * k, tag=f'{pid}_{tier}_{rep.seed}_x{k}')
                rep.notes.append('thorough: L0 generators run with three seeds')
        if cfg.get('live'):
            run_live(rep)
        if cfg.get('race_search') and tier == 'thorough':
            run_live_race(rep, cfg['race_search'])
        elif cfg.get('race_quick'):
            # the data-race clause on every run: a small cross-section under the race detector
            run_live_race(rep, cfg['race_quick'])
        for eng in cfg.get('engines', []):
            eng(rep)
    lines, nviol = verdict(rep)
    go_coverage(rep)
    write_evidence(rep, nviol)
    for l in lines:
        print(l)
    print(f'check {pid} {tier}: obligations {len(rep.discharged)}/{len(rep.obligations)} discharged, '
          f'{rep.evaluations} cases ({len(rep.distinct)} distinct non-trivial), {len(rep.failures)} oracle failures, '
          f'{len(rep.disagreements)} disagreements, {len(rep.broken)} broken ties, {time.time() - rep.t0:.1f}s')
    return 1 if nviol else 0


def replay(path):
    body = json.load(open(path))
    pid = body.get('property')
    rep = Report(pid, 'quick', body.get('seed', 1))
    build_tools(rep)
    rc, out = lake_build(['driver'])
    if rc:
        print(out[-2000:])
    if body.get('case') and (body.get('engine') or 'l0').startswith('l0'):
        res = evaluate_cases([body['case']], 'replay')
        for case, impl, (agree, model, oracle, branch) in res:
            print('case          :', case)
            print('implementation:', impl)
            print('model         :', model, f'({agree})')
            print('oracle        :', oracle)
            if oracle.startswith('FAIL') or agree != 'agree':
                print(f'VIOLATION property={pid} replay={path}')
                return 1
        return 0
    if body.get('engine') == 'live-race' and body.get('case'):
        rep.pid = pid
        exe = build_race_harness(rep)
        f = os.path.join(WORK, 'replay_spec.txt')
        open(f, 'w').write((body['case'] + '\n') * 5)
        rc, out = sh(f'{exe} -specs {f} -par 1 | {DRIVER} live')
        n = out.count('data race')
        print(f'scenario {body["case"]} re-run 5 times under the race detector: {n} race reports')
        print('\n'.join(l[:300] for l in out.split('\n') if 'data race' in l))
        if n:
            print(f'VIOLATION property={pid} replay={path}')
            return 1
        return 0
    if body.get('engine') == 'live' and body.get('case'):
        bad = 0
        if body.get('trace'):
            tf = os.path.join(WORK, 'replay_trace.txt')
            open(tf, 'w').write(f"# scenario {body['case']}\n" + '\n'.join(body['trace']) + '\n# end\n')
            rc, out = sh(f'{DRIVER} live < {tf}')
            print('recorded trace re-checked by the current driver:')
            print(out.strip())
            bad += out.count(' FAIL ')
        f = os.path.join(WORK, 'replay_spec.txt')
        open(f, 'w').write((body['case'] + '\n') * 5)
        res, traces, err = live_pipeline(['-specs', f, '-par', '1'], 'replay')
        n = len([1 for r in (res or []) if r[1] == 'FAIL'])
        print(f'scenario {body["case"]} re-run 5 times on the current tree: {n} failing verdict lines')
        for r in (res or []):
            if r[1] == 'FAIL':
                print('  ', r[2][:300])
        if n or bad:
            print(f'VIOLATION property={pid} replay={path}')
            return 1
        return 0
    print(json.dumps(body, indent=1))
    return 0
