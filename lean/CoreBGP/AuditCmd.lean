import Lean
/-!
`#audit_props NS` prints one JSON row per theorem whose name starts with `NS`, with the axioms
it depends on. This is where `obligations` / `discharged` in the evidence come from.
-/
open Lean Elab Command

elab "#audit_props " ns:ident : command => do
  let env ← getEnv
  let allowed : List Name := [``propext, ``Classical.choice, ``Quot.sound]
  let pre := ns.getId
  let mut rows : Array String := #[]
  let consts := env.constants.fold (init := #[]) fun acc n ci => acc.push (n, ci)
  for (n, ci) in consts do
    if pre.isPrefixOf n && !n.isInternal then
      match ci with
      | .thmInfo _ =>
        let axs ← Lean.collectAxioms n
        let bad := axs.filter fun a => !allowed.contains a
        let axStr := ",".intercalate (axs.toList.map fun a => "\"" ++ toString a ++ "\"")
        rows := rows.push s!"\{\"theorem\":\"{n}\",\"axioms\":[{axStr}],\"ok\":{if bad.isEmpty then "true" else "false"}}"
      | _ => pure ()
  for r in rows.qsort (· < ·) do
    IO.println r
