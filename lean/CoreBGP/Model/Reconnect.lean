import CoreBGP.Model.Go
/-!
# Timed model of the outbound FSM before OpenSent: Idle / Connect / Active with the idle-hold and
connect-retry timers (`fsm.go`: `newFSM`, `idle`, `connect`, `active`, the Active exit of `openSent`)

Time is `now : Nat` (ns); a timer is `Option Nat` (deadline; `none` = stopped); a timer event is
enabled only once its deadline has passed (trusted base: a `time.Timer` fires no earlier than its
duration after it was last armed; a timer that fired while nobody listened fires "at once" when the
FSM next selects on it — deadline in the past). Ghosts: `lastIdleExit`.
-/
namespace CoreBGP.Model
open CoreBGP

inductive RSt where
  | idle | connect | active | connected      -- `connected` = OPEN written, OpenSent requested (beyond this model)
deriving Repr, DecidableEq, Inhabited

structure RSess where
  st : RSt
  now : Nat
  ih : Nat                      -- idle-hold time
  cr : Nat                      -- connect-retry time
  idleDl : Option Nat           -- `idleHoldTimer`
  crDl : Option Nat := none     -- `connectRetryTimer`
  dialing : Bool := false       -- a dial goroutine's result is outstanding
  lastIdleExit : Option Nat := none   -- ghost: time of the last `idle → connect`
deriving Repr, DecidableEq, Inhabited

/-- `newFSM`: `idleHoldTimer: time.NewTimer(0)` — no hold-down the first time -/
def rInit (ih cr now : Nat) : RSess := { st := .idle, now := now, ih := ih, cr := cr, idleDl := some now }

inductive REv where
  | tick (dt : Nat)
  | idleFire            -- `<-f.idleHoldTimer.C` in `idle()`
  | dialFailed          -- the outstanding dial reports an error (refused, unreachable, cancelled)
  | dialOK              -- the outstanding dial reports a connection and the OPEN is written
  | crFireRedial        -- `<-f.connectRetryTimer.C` in `connect()`: cancel, the old result is an error, redial
  | crFireActive        -- `<-f.connectRetryTimer.C` in `active()`: dial, go to Connect
  | lostToActive        -- OpenSent lost its TCP connection: Active, connect-retry timer restarted
  | lostToIdle          -- a later state ended (NOTIFICATION, hold timer, …): back to Idle
deriving Repr, DecidableEq, Inhabited

def due (dl : Option Nat) (now : Nat) : Bool :=
  match dl with
  | some d => now ≥ d
  | none => false

def rstep (s : RSess) : REv → Option RSess
  | .tick dt => some { s with now := s.now + dt }
  | .idleFire =>
    if s.st = .idle && due s.idleDl s.now then
      some { s with st := .connect, crDl := some (s.now + s.cr), dialing := true,
                    idleDl := some (s.now + s.ih), lastIdleExit := some s.now }
    else none
  | .dialFailed =>
    if s.st = .connect && s.dialing then some { s with st := .idle, crDl := none, dialing := false } else none
  | .dialOK =>
    if s.st = .connect && s.dialing then some { s with st := .connected, crDl := none, dialing := false } else none
  | .crFireRedial =>
    if s.st = .connect && due s.crDl s.now then some { s with crDl := some (s.now + s.cr), dialing := true } else none
  | .crFireActive =>
    if s.st = .active && due s.crDl s.now then some { s with st := .connect, crDl := some (s.now + s.cr), dialing := true } else none
  | .lostToActive =>
    if s.st = .connected then some { s with st := .active, crDl := some (s.now + s.cr) } else none
  | .lostToIdle =>
    if s.st = .connected then some { s with st := .idle, crDl := none } else none

inductive RReach (ih cr t0 : Nat) : RSess → Prop where
  | init : RReach ih cr t0 (rInit ih cr t0)
  | step {s s' : RSess} {e : REv} : RReach ih cr t0 s → rstep s e = some s' → RReach ih cr t0 s'

/-- time until the next attempt that a now well-behaved remote will accept starts, when timer
events are taken as soon as they are enabled: in Idle the idle-hold timer, in Connect (the
outstanding attempt may be a stale one that never completes) and in Active the connect-retry timer -/
def timeToAttempt (s : RSess) : Nat :=
  match s.st with
  | .idle => (s.idleDl.getD s.now) - s.now
  | .connect | .active => (s.crDl.getD s.now) - s.now
  | .connected => 0

end CoreBGP.Model
