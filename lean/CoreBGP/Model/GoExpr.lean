import CoreBGP.Gen.Decisions
/-!
# Evaluation of the translated Go decisions (`Gen.decisions`)

The extractor translates the boolean decisions of the decision-making Go functions expression by
expression into `Gen.BExp`; leaves are Go source text. Here they get a meaning: an environment `ρ`
gives every leaf an integer (`false`/`nil` = 0 for boolean and pointer leaves), comparisons compare
those integers. The tie theorems (`Props.DecTie`) state that, under an environment that reads the leaves
off a model state, the Go decision and the model's decision coincide — for every state.
-/
namespace CoreBGP.Model
open CoreBGP.Gen

abbrev Env := String → Int

def BExp.eval (ρ : Env) : BExp → Bool
  | .atom s => ρ s != 0
  | .not e => !(BExp.eval ρ e)
  | .and a b => BExp.eval ρ a && BExp.eval ρ b
  | .or a b => BExp.eval ρ a || BExp.eval ρ b
  | .cmp op l r =>
    if op = "==" then ρ l == ρ r
    else if op = "!=" then ρ l != ρ r
    else if op = "<" then decide (ρ l < ρ r)
    else if op = "<=" then decide (ρ l ≤ ρ r)
    else if op = ">" then decide (ρ l > ρ r)
    else if op = ">=" then decide (ρ l ≥ ρ r)
    else false

/-- the `n`-th decision of kind `kind` in function `fn` (source order); a decision that no longer exists
evaluates like the unknown leaf `missing` -/
def decision (fn kind : String) (n : Nat) : BExp :=
  match decisions.find? fun d => d.fn = fn ∧ d.kind = kind ∧ d.ordinal = n with
  | some d => d.e
  | none => .atom "missing"

/-- environment from an association list (later entries do not override earlier ones); unknown leaves are 0 -/
def envOf (l : List (String × Int)) : Env := fun k =>
  match l.find? (·.1 = k) with
  | some p => p.2
  | none => 0

def b2i (b : Bool) : Int := if b then 1 else 0

end CoreBGP.Model
