import CoreBGP.Model.Packet
/-!
# L0 model of the reader goroutine (`fsm.read`, `fsm.go:441`) and `messageFromBytes`

The reader is a function of the byte stream alone: `io.ReadFull` returns exactly the next `n`
bytes whatever the TCP segmentation (trusted base), so segmentation does not appear here — it
is a correspondence obligation (the harness feeds random segmentations).
-/
namespace CoreBGP.Model
open CoreBGP

/-- what the reader hands to the FSM on `readerMsgCh` -/
inductive RMsg where
  | open_ (o : OpenMsg)
  | update (b : Bytes)
  | notif (n : Notif)
  | keepalive
deriving Repr, DecidableEq, Inhabited

/-- what the reader hands to the FSM on `readerErrCh`: a `notificationError`, or any other
error (I/O error, undecodable NOTIFICATION body) -/
inductive RErr where
  | notif (n : Notif) (out : Bool)
  | eof            -- `io.ReadFull` failed: the stream ended (or the connection broke) before a whole header / body
  | other          -- any other error (an undecodable NOTIFICATION body)
  | panic
deriving Repr, DecidableEq, Inhabited

def RMsg.type : RMsg → UInt8
  | .open_ _ => UInt8.ofNat Gen.openMessageType
  | .update _ => UInt8.ofNat Gen.updateMessageType
  | .notif _ => UInt8.ofNat Gen.notificationMessageType
  | .keepalive => UInt8.ofNat Gen.keepAliveMessageType

/-- `messageFromBytes` (`packet.go:28`) -/
def messageFromBytes (b : Bytes) (t : UInt8) : Except RErr RMsg :=
  if t.toNat = Gen.openMessageType then
    match decodeOpen b with
    | .ok o => .ok (.open_ o)
    | .err (.notif n out) => .error (.notif n out)
    | .err .plain => .error .other
    | .panic => .error .panic
  else if t.toNat = Gen.updateMessageType then .ok (.update b)
  else if t.toNat = Gen.notificationMessageType then
    match decodeNotif b with
    | .ok n => .ok (.notif n)
    | .err (.notif n out) => .error (.notif n out)
    | .err .plain => .error .other
    | .panic => .error .panic
  else if t.toNat = Gen.keepAliveMessageType then .ok .keepalive
  else .error (.notif ⟨Gen.NOTIF_CODE_MESSAGE_HEADER_ERR, Gen.NOTIF_SUBCODE_BAD_MESSAGE_TYPE, [t]⟩ true)

/-- one iteration of the `for` in `fsm.read`: the next message and the rest of the stream, or
the error that ends the reader -/
def readOne (s : Bytes) : Except RErr (RMsg × Bytes) :=
  if s.length < Gen.headerLength then .error .eof              -- io.ReadFull: EOF / unexpected EOF
  else
    let header := s.take Gen.headerLength
    let rest := s.drop Gen.headerLength
    if (header.take 16).any (· ≠ 0xFF) then
      .error (.notif ⟨Gen.NOTIF_CODE_MESSAGE_HEADER_ERR, Gen.NOTIF_SUBCODE_CONN_NOT_SYNCHRONIZED, []⟩ true)
    else
      let len := (be16 (header.getD 16 0) (header.getD 17 0)).toNat
      -- bodyLen := int(len) - headerLength; bodyLen < 0 || bodyLen+headerLength > maxMessageLength
      if len < Gen.headerLength || len > Gen.maxMessageLength then
        .error (.notif ⟨Gen.NOTIF_CODE_MESSAGE_HEADER_ERR, Gen.NOTIF_SUBCODE_BAD_MESSAGE_LEN, []⟩ true)
      else
        let bodyLen := len - Gen.headerLength
        if rest.length < bodyLen then .error .eof
        else
          match messageFromBytes (rest.take bodyLen) (header.getD 18 0) with
          | .ok m => .ok (m, rest.drop bodyLen)
          | .error e => .error e

/-- the reader run to its first error: messages handed over, then the error -/
def readLoop : Nat → Bytes → List RMsg → List RMsg × RErr
  | 0, _, acc => (acc, .panic)
  | fuel + 1, s, acc =>
    match readOne s with
    | .ok (m, rest) => readLoop fuel rest (acc ++ [m])
    | .error e => (acc, e)

def readAll (s : Bytes) : List RMsg × RErr := readLoop (s.length + 1) s []

end CoreBGP.Model
