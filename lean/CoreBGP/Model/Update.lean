import CoreBGP.Model.Go
import CoreBGP.Types
import CoreBGP.Gen.ConstsIANA
/-!
# L0 model of `update.go`

Error values form a tree (`errors.Join`, `%w` wrapping); the generic `UpdateDecoder` takes its
three callbacks as a parameter that may depend on the whole history of earlier calls.
-/
namespace CoreBGP.Model
open CoreBGP

/-! ## error trees -/

mutual
/-- the dynamic error types that matter to `update.go` -/
inductive Err where
  | notif (n : Notif)                              -- `*Notification`
  | taw (code : UInt8) (n : Option Notif)          -- `*TreatAsWithdrawUpdateErr`
  | discard (code : UInt8) (n : Option Notif)      -- `*AttrDiscardUpdateErr`
  | upd (n : Notif)                                -- some other `UpdateError`; `n` = its `AsSessionReset()`
  | other                                          -- a plain foreign error
  | wrap (e : Err)                                 -- `fmt.Errorf("…%w", e)`
  | join (es : ErrList)                            -- `errors.Join(…)` (non-nil arguments only)
inductive ErrList where
  | nil
  | cons (e : Err) (es : ErrList)
end

deriving instance Inhabited for Err
deriving instance Inhabited for ErrList

def ErrList.ofList : List Err → ErrList
  | [] => .nil
  | e :: es => .cons e (ErrList.ofList es)

def ErrList.toList : ErrList → List Err
  | .nil => []
  | .cons e es => e :: es.toList

/-- `errors.Join(a, b)`: nil arguments are dropped; nil if all are nil -/
def joinErr (a b : Option Err) : Option Err :=
  match a, b with
  | none, none => none
  | some x, none => some (.join (.cons x .nil))
  | none, some y => some (.join (.cons y .nil))
  | some x, some y => some (.join (.cons x (.cons y .nil)))

mutual
/-- `errors.As(err, &notif)` with `notif *Notification`: pre-order search of the tree -/
def Err.hasNotif : Err → Bool
  | .notif _ => true
  | .wrap e => e.hasNotif
  | .join es => es.hasNotif
  | _ => false
def ErrList.hasNotif : ErrList → Bool
  | .nil => false
  | .cons e es => e.hasNotif || es.hasNotif
end

def genericUpdateNotif : Notif := ⟨Gen.NOTIF_CODE_UPDATE_MESSAGE_ERR, 0, []⟩

/-- `AsSessionReset` of the two RFC 7606 error types -/
def resolveNotif : Option Notif → Notif
  | some n => n
  | none => genericUpdateNotif

/-- the four "first found" variables of `UpdateNotificationFromErr` -/
structure Found where
  n : Option Notif := none
  taw : Option Notif := none
  ad : Option Notif := none
  ue : Option Notif := none
deriving Repr, DecidableEq, Inhabited

mutual
/-- the closure `unwrap` of `UpdateNotificationFromErr` (`update.go:87`) -/
def Err.scan : Err → Found → Found
  | .notif x, f => if f.n.isNone then { f with n := some x } else f
  | .taw _ n, f => if f.taw.isNone then { f with taw := some (resolveNotif n) } else f
  | .discard _ n, f => if f.ad.isNone then { f with ad := some (resolveNotif n) } else f
  | .upd n, f => if f.ue.isNone then { f with ue := some n } else f
  | .other, f => f
  | .wrap e, f => e.scan f
  | .join es, f => es.scan f
def ErrList.scan : ErrList → Found → Found
  | .nil, f => f
  | .cons e es, f =>
    let f' := e.scan f
    if f'.n.isSome then f' else es.scan f'
end

/-- `UpdateNotificationFromErr` (`update.go:75`) -/
def updateNotificationFromErr : Option Err → Option Notif
  | none => none
  | some e =>
    let f := e.scan {}
    match f.n, f.taw, f.ad, f.ue with
    | some n, _, _, _ => some n
    | none, some n, _, _ => some n
    | none, none, some n, _ => some n
    | none, none, none, some n => some n
    | none, none, none, none => some genericUpdateNotif

/-! ## path attribute flags and typed decoders -/

def flagOptional (f : UInt8) : Bool := f.toNat / 128 % 2 = 1
def flagTransitive (f : UInt8) : Bool := f.toNat / 64 % 2 = 1
def flagPartial (f : UInt8) : Bool := f.toNat / 32 % 2 = 1
def flagExtendedLen (f : UInt8) : Bool := f.toNat / 16 % 2 = 1

/-- `notifDataForAttrBasedErr` (`update.go:279`) -/
def notifDataForAttrBasedErr (code : UInt8) (attrData : Bytes) : Bytes :=
  [code] ++ (if attrData.length > 255 then be16Bytes (len16 attrData.length) else [len8 attrData.length]) ++ attrData

/-- `PathAttrFlags.Validate` (`update.go:37`) -/
def validateFlags (flags : UInt8) (forCode : UInt8) (attrData : Bytes) (wantOptional wantTransitive : Bool) : Option Err :=
  if flagOptional flags ≠ wantOptional ∨ flagTransitive flags ≠ wantTransitive then
    some (.taw forCode (some ⟨Gen.NOTIF_CODE_UPDATE_MESSAGE_ERR, Gen.NOTIF_SUBCODE_ATTR_FLAGS_ERR,
                              notifDataForAttrBasedErr forCode attrData⟩))
  else none

/-- `attrLenBadForCodeErr` -/
def attrLenBad (code : UInt8) (b : Bytes) : Notif :=
  ⟨Gen.NOTIF_CODE_UPDATE_MESSAGE_ERR, Gen.NOTIF_SUBCODE_ATTR_LEN_ERR, notifDataForAttrBasedErr code b⟩

/-- `decodeUint32Set`: `none` = error -/
def decodeUint32Set : Bytes → Option (List UInt32)
  | [] => none
  | b => go b
where
  go : Bytes → Option (List UInt32)
    | [] => some []
    | a :: b :: c :: d :: rest => (go rest).map (be32 a b c d :: ·)
    | _ => none

/-- `(*OriginPathAttr).Decode` -/
def decodeOrigin (flags : UInt8) (b : Bytes) : Except Err UInt8 :=
  match validateFlags flags Gen.PATH_ATTR_ORIGIN b false true with
  | some e => .error e
  | none =>
    match b with
    | [v] =>
      if v > 2 then
        .error (.taw Gen.PATH_ATTR_ORIGIN (some ⟨Gen.NOTIF_CODE_UPDATE_MESSAGE_ERR, Gen.NOTIF_SUBCODE_INVALID_ORIGIN_ATTR,
                  notifDataForAttrBasedErr Gen.PATH_ATTR_ORIGIN b⟩))
      else .ok v
    | _ => .error (.taw Gen.PATH_ATTR_ORIGIN (some ⟨Gen.NOTIF_CODE_UPDATE_MESSAGE_ERR, Gen.NOTIF_SUBCODE_ATTR_LEN_ERR,
                  notifDataForAttrBasedErr Gen.PATH_ATTR_ORIGIN b⟩))

def asPathMalformed : Err :=
  .taw Gen.PATH_ATTR_AS_PATH (some ⟨Gen.NOTIF_CODE_UPDATE_MESSAGE_ERR, Gen.NOTIF_SUBCODE_MALFORMED_AS_PATH, []⟩)

/-- `ASPathAttr` -/
structure ASPath where
  asSet : List UInt32 := []
  asSequence : List UInt32 := []
deriving Repr, DecidableEq, Inhabited

/-- segment loop of `(*ASPathAttr).Decode` (`update.go:324`): segments of one type are
appended in wire order -/
def decodeASPathLoop : Nat → Bytes → ASPath → Except Err ASPath
  | 0, _, acc => .ok acc
  | fuel + 1, b, acc =>
    if b.length = 0 then .ok acc
    else if b.length < 6 ∨ b.length % 2 ≠ 0 then
      .error (.taw Gen.PATH_ATTR_AS_PATH (some (attrLenBad Gen.PATH_ATTR_AS_PATH b)))
    else
      match b with
      | segType :: segLenOctet :: rest =>
        let segLen := segLenOctet.toNat * 4
        if segLen = 0 then .error asPathMalformed
        else if rest.length < segLen then .error asPathMalformed
        else
          match decodeUint32Set (rest.take segLen) with
          | none => .error asPathMalformed
          | some asns =>
            if segType = 1 then decodeASPathLoop fuel (rest.drop segLen) { acc with asSet := acc.asSet ++ asns }
            else if segType = 2 then decodeASPathLoop fuel (rest.drop segLen) { acc with asSequence := acc.asSequence ++ asns }
            else .error asPathMalformed
      | _ => .error asPathMalformed   -- unreachable: length ≥ 6

/-- `(*ASPathAttr).Decode` -/
def decodeASPath (flags : UInt8) (b : Bytes) : Except Err ASPath :=
  match validateFlags flags Gen.PATH_ATTR_AS_PATH b false true with
  | some e => .error e
  | none =>
    if b.length = 0 then .ok {}
    else if b.length < 6 ∨ b.length % 2 ≠ 0 then
      .error (.taw Gen.PATH_ATTR_AS_PATH (some (attrLenBad Gen.PATH_ATTR_AS_PATH b)))
    else decodeASPathLoop (b.length + 1) b {}

/-- shape shared by NEXT_HOP, MED, LOCAL_PREF, ORIGINATOR_ID: flags, then exactly four bytes -/
def decodeFixed4 (code : UInt8) (wantO wantT : Bool) (flags : UInt8) (b : Bytes) : Except Err Bytes :=
  match validateFlags flags code b wantO wantT with
  | some e => .error e
  | none =>
    if b.length ≠ 4 then .error (.taw code (some (attrLenBad code b))) else .ok b

def decodeNextHop := decodeFixed4 Gen.PATH_ATTR_NEXT_HOP false true
def decodeMED := decodeFixed4 Gen.PATH_ATTR_MED true false
def decodeLocalPref := decodeFixed4 Gen.PATH_ATTR_LOCAL_PREF false true
def decodeOriginatorID := decodeFixed4 Gen.PATH_ATTR_ORIGINATOR_ID true false

/-- `(*AtomicAggregatePathAttr).Decode`: the code asks for Optional = true -/
def decodeAtomicAggregate (flags : UInt8) (b : Bytes) : Except Err Bool :=
  match validateFlags flags Gen.PATH_ATTR_ATOMIC_AGGREGATE b true true with
  | some e => .error e
  | none =>
    if b.length ≠ 0 then
      .error (.discard Gen.PATH_ATTR_ATOMIC_AGGREGATE (some (attrLenBad Gen.PATH_ATTR_ATOMIC_AGGREGATE b)))
    else .ok true

/-- `(*AggregatorPathAttr).Decode`: AS (4) then address (4) -/
def decodeAggregator (flags : UInt8) (b : Bytes) : Except Err (UInt32 × Bytes) :=
  match validateFlags flags Gen.PATH_ATTR_AGGREGATOR b true true with
  | some e => .error e
  | none =>
    match b with
    | [a, b1, c, d, i1, i2, i3, i4] => .ok (be32 a b1 c d, [i1, i2, i3, i4])
    | _ => .error (.discard Gen.PATH_ATTR_AGGREGATOR (some (attrLenBad Gen.PATH_ATTR_AGGREGATOR b)))

/-- `(*CommunitiesPathAttr).Decode` -/
def decodeCommunities (flags : UInt8) (b : Bytes) : Except Err (List UInt32) :=
  match validateFlags flags Gen.PATH_ATTR_COMMUNITY b true true with
  | some e => .error e
  | none =>
    if b.length < 4 ∨ b.length % 4 ≠ 0 then .error (.taw Gen.PATH_ATTR_COMMUNITY (some (attrLenBad Gen.PATH_ATTR_COMMUNITY b)))
    else .ok ((decodeUint32Set b).getD [])

/-- `(*ClusterListPathAttr).Decode`: a list of 4-byte addresses -/
def chunks4 : Bytes → List Bytes
  | a :: b :: c :: d :: rest => [a, b, c, d] :: chunks4 rest
  | _ => []

def decodeClusterList (flags : UInt8) (b : Bytes) : Except Err (List Bytes) :=
  match validateFlags flags Gen.PATH_ATTR_CLUSTER_LIST b true false with
  | some e => .error e
  | none =>
    if b.length < 4 ∨ b.length % 4 ≠ 0 then .error (.taw Gen.PATH_ATTR_CLUSTER_LIST (some (attrLenBad Gen.PATH_ATTR_CLUSTER_LIST b)))
    else .ok (chunks4 b)

/-- `decodeLargeCommunitySet` + `(*LargeCommunitiesPathAttr).Decode` -/
def largeComms : Bytes → List (UInt32 × UInt32 × UInt32)
  | a1 :: a2 :: a3 :: a4 :: b1 :: b2 :: b3 :: b4 :: c1 :: c2 :: c3 :: c4 :: rest =>
    (be32 a1 a2 a3 a4, be32 b1 b2 b3 b4, be32 c1 c2 c3 c4) :: largeComms rest
  | _ => []

def decodeLargeCommunities (flags : UInt8) (b : Bytes) : Except Err (List (UInt32 × UInt32 × UInt32)) :=
  match validateFlags flags Gen.PATH_ATTR_LARGE_COMMUNITY b true true with
  | some e => .error e
  | none =>
    if b.length < 12 ∨ b.length % 12 ≠ 0 then
      .error (.taw Gen.PATH_ATTR_LARGE_COMMUNITY (some (attrLenBad Gen.PATH_ATTR_LARGE_COMMUNITY b)))
    else .ok (largeComms b)

/-! ## prefixes -/

/-- a decoded prefix: bit length and the address padded with zeros to 4 / 16 bytes -/
structure Prefix where
  bits : UInt8
  addr : Bytes
deriving Repr, DecidableEq, Inhabited

structure AddPathPrefix where
  id : UInt32
  pfx : Prefix
deriving Repr, DecidableEq, Inhabited

/-- `decodePrefix` (`update.go:431`): `(bl + 7) / 8` is computed in `uint8` as in the code (no
wrap: `bl ≤ 128`); `none` = error -/
def decodePrefix (b : Bytes) (ipv6 : Bool) : Option (Prefix × Bytes) :=
  match b with
  | [] => none
  | bl :: rest =>
    if (!ipv6 && bl > 32) || (ipv6 && bl > 128) then none
    else
      let octets := ((bl + 7) / 8).toNat
      if rest.length < octets then none
      else
        let width := if ipv6 then 16 else 4
        if octets > width then none
        else some (⟨bl, rest.take octets ++ List.replicate (width - octets) 0⟩, rest.drop octets)

/-- `decodePrefixes` (`update.go:463`) -/
def decodePrefixesLoop : Nat → Bytes → Bool → List Prefix → Option (List Prefix)
  | 0, _, _, _ => none
  | fuel + 1, b, ipv6, acc =>
    if b.length = 0 then some acc
    else
      match decodePrefix b ipv6 with
      | none => none
      | some (p, rest) => decodePrefixesLoop fuel rest ipv6 (acc ++ [p])

def decodePrefixes (b : Bytes) (ipv6 : Bool) : Option (List Prefix) :=
  decodePrefixesLoop (b.length + 1) b ipv6 []

/-- `decodeAddPathPrefixes` (`update.go:401`) -/
def decodeAddPathPrefixesLoop : Nat → Bytes → Bool → List AddPathPrefix → Option (List AddPathPrefix)
  | 0, _, _, _ => none
  | fuel + 1, b, ipv6, acc =>
    if b.length = 0 then some acc
    else
      match b with
      | a :: b1 :: c :: d :: rest@(_ :: _) =>
        match decodePrefix rest ipv6 with
        | none => none
        | some (p, rest') => decodeAddPathPrefixesLoop fuel rest' ipv6 (acc ++ [⟨be32 a b1 c d, p⟩])
      | _ => none   -- fewer than five bytes

def decodeAddPathPrefixes (b : Bytes) (ipv6 : Bool) : Option (List AddPathPrefix) :=
  decodeAddPathPrefixesLoop (b.length + 1) b ipv6 []

/-- `DecodeMPReachIPv6NextHops` -/
def decodeMPReachIPv6NextHops (nh : Bytes) : Except Err (List Bytes) :=
  if nh.length ≠ 16 ∧ nh.length ≠ 32 then .error (.notif genericUpdateNotif)
  else if nh.length = 16 then .ok [nh] else .ok [nh.take 16, nh.drop 16]

def invalidNetworkField : Err :=
  .notif ⟨Gen.NOTIF_CODE_UPDATE_MESSAGE_ERR, Gen.NOTIF_SUBCODE_INVALID_NETWORK_FIELD, []⟩

/-! ## MP_REACH_NLRI / MP_UNREACH_NLRI splitters -/

def mpLenErr : Err := .notif ⟨Gen.NOTIF_CODE_UPDATE_MESSAGE_ERR, Gen.NOTIF_SUBCODE_ATTR_LEN_ERR, []⟩

/-- what the MP_REACH closure is given -/
structure MPReachArgs where
  afi : UInt16
  safi : UInt8
  nh : Bytes
  nlri : Bytes
deriving Repr, DecidableEq, Inhabited

/-- `NewMPReachNLRIDecodeFn` (`update.go:897`): `nhLen` is widened to `int` before `nhLen+1` is formed.
Result: the arguments passed to `fn` (if it was called) and the returned error given `fn`'s
result. -/
def mpReach (flags : UInt8) (b : Bytes) (fn : MPReachArgs → Option Err) : Res Unit (Option MPReachArgs × Option Err) :=
  let me := validateFlags flags Gen.PATH_ATTR_MP_REACH_NLRI b true false
  match b with
  | a1 :: a2 :: safi :: nhLen :: rest@(_ :: _) =>
    if rest.length < nhLen.toNat + 1 then .ok (none, joinErr me (some mpLenErr))
    else
      match slice? rest 0 nhLen.toNat, sliceFrom? rest (nhLen.toNat + 1) with
      | some nh, some nlri =>
        let args : MPReachArgs := ⟨be16 a1 a2, safi, nh, nlri⟩
        .ok (some args, joinErr me (fn args))
      | _, _ => .panic
  | _ => .ok (none, joinErr me (some mpLenErr))

structure MPUnreachArgs where
  afi : UInt16
  safi : UInt8
  withdrawn : Bytes
deriving Repr, DecidableEq, Inhabited

/-- `NewMPUnreachNLRIDecodeFn` (`update.go:918`) -/
def mpUnreach (flags : UInt8) (b : Bytes) (fn : MPUnreachArgs → Option Err) : Option MPUnreachArgs × Option Err :=
  let me := validateFlags flags Gen.PATH_ATTR_MP_UNREACH_NLRI b true false
  match b with
  | a1 :: a2 :: safi :: rest =>
    let args : MPUnreachArgs := ⟨be16 a1 a2, safi, rest⟩
    (some args, joinErr me (fn args))
  | _ => (none, joinErr me (some mpLenErr))

/-! ## the generic `UpdateDecoder` -/

/-- one callback invocation -/
inductive Call where
  | wr (b : Bytes)
  | attr (code flags : UInt8) (b : Bytes)
  | nlri (b : Bytes)
deriving Repr, DecidableEq, Inhabited

/-- callbacks: the error returned may depend on all earlier calls -/
abbrev Callbacks := List Call → Call → Option Err

def totalAttrLenErr (code : UInt8) : Err := .taw code (some genericUpdateNotif)

/-- outcome of `decodePathAttrs`: the calls made (appended), the error, and whether it `return`ed
from inside the loop (skipping the mandatory-attribute check) -/
structure PAState where
  calls : List Call
  me : Option Err
  seen : List UInt8
deriving Inhabited

/-- the `for len(b) > 0` loop of `decodePathAttrs` (`update.go:1022`); returns `inr` for an early
`return`, `inl` when the loop ends (normally or by `break`) -/
def pathAttrsLoop (cb : Callbacks) : Nat → Bytes → PAState → Sum PAState PAState
  | 0, _, st => .inl st
  | fuel + 1, b, st =>
    match b with
    | [] => .inl st
    | [_] => .inl { st with me := joinErr st.me (some (totalAttrLenErr 0)) }
    | flags :: attrType :: rest =>
      let hdr : Option (Nat × Bytes) :=
        if flagExtendedLen flags then
          match rest with
          | l1 :: l2 :: rest' => some ((be16 l1 l2).toNat, rest')
          | _ => none
        else
          match rest with
          | l :: rest' => some (l.toNat, rest')
          | _ => none
      match hdr with
      | none => .inl { st with me := joinErr st.me (some (totalAttrLenErr attrType)) }
      | some (attrLen, body) =>
        if body.length < attrLen then .inl { st with me := joinErr st.me (some (totalAttrLenErr attrType)) }
        else if st.seen.contains attrType then
          if attrType = Gen.PATH_ATTR_MP_REACH_NLRI ∨ attrType = Gen.PATH_ATTR_MP_UNREACH_NLRI then
            .inr { st with me := joinErr st.me (some (.notif ⟨Gen.NOTIF_CODE_UPDATE_MESSAGE_ERR, Gen.NOTIF_SUBCODE_MALFORMED_ATTR_LIST, []⟩)) }
          else pathAttrsLoop cb fuel (body.drop attrLen) st
        else
          let c := Call.attr attrType flags (body.take attrLen)
          let r := cb st.calls c
          let st' : PAState := { st with calls := st.calls ++ [c], seen := attrType :: st.seen }
          match r with
          | none => pathAttrsLoop cb fuel (body.drop attrLen) st'
          | some e =>
            let st'' := { st' with me := joinErr st'.me (some e) }
            if e.hasNotif then .inr st'' else pathAttrsLoop cb fuel (body.drop attrLen) st''

/-- `decodePathAttrs` (`update.go:1015`) -/
def decodePathAttrs (cb : Callbacks) (calls : List Call) (b : Bytes) (hasNLRI : Bool) : List Call × Option Err :=
  if b.length < 1 && !hasNLRI then (calls, none)
  else
    match pathAttrsLoop cb (b.length + 1) b ⟨calls, none, []⟩ with
    | .inr st => (st.calls, st.me)
    | .inl st =>
      if st.seen.contains Gen.PATH_ATTR_MP_REACH_NLRI ∨ hasNLRI then
        if !st.seen.contains Gen.PATH_ATTR_AS_PATH ∨ !st.seen.contains Gen.PATH_ATTR_ORIGIN then
          let missing := if !st.seen.contains Gen.PATH_ATTR_ORIGIN then Gen.PATH_ATTR_ORIGIN else Gen.PATH_ATTR_AS_PATH
          (st.calls, joinErr st.me (some (.taw missing (some ⟨Gen.NOTIF_CODE_UPDATE_MESSAGE_ERR,
              Gen.NOTIF_SUBCODE_MISSING_WELL_KNOWN_ATTR, [missing]⟩))))
        else (st.calls, st.me)
      else (st.calls, st.me)

def malformedAttrList : Err :=
  .notif ⟨Gen.NOTIF_CODE_UPDATE_MESSAGE_ERR, Gen.NOTIF_SUBCODE_MALFORMED_ATTR_LIST, []⟩

/-- `(*UpdateDecoder).Decode` (`update.go:1112`); `wrl` is widened to `int` before `wrl+2` is formed. -/
def decodeUpdate (cb : Callbacks) (b : Bytes) : Res Unit (List Call × Option Err) :=
  match b with
  | w1 :: w2 :: b' =>
    if b.length < 4 then .ok ([], some (.notif genericUpdateNotif))
    else
      let wrl : UInt16 := be16 w1 w2
      if b'.length < wrl.toNat + 2 then .ok ([], some malformedAttrList)
      else
        match slice? b' wrl.toNat (wrl.toNat + 2), sliceFrom? b' (wrl.toNat + 2) with
        | some [p1, p2], some afterPal =>
          let pal := (be16 p1 p2).toNat
          if afterPal.length < pal then .ok ([], some malformedAttrList)
          else
            match slice? b' 0 wrl.toNat with
            | none => .panic
            | some wr =>
              let c := Call.wr wr
              let calls := [c]
              let me := joinErr none (cb [] c)
              if (cb [] c).any Err.hasNotif then .ok (calls, me)
              else
                let attrs := afterPal.take pal
                let nlri := afterPal.drop pal
                let (calls, perr) := decodePathAttrs cb calls attrs (nlri.length > 0)
                let me := if perr.isSome then joinErr me perr else me
                if perr.any Err.hasNotif then .ok (calls, me)
                else
                  let cn := Call.nlri nlri
                  let nerr := cb calls cn
                  .ok (calls ++ [cn], if nerr.isSome then joinErr me nerr else me)
        | _, _ => .panic
  | _ => .ok ([], some (.notif genericUpdateNotif))

end CoreBGP.Model
