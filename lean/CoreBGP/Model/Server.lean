import CoreBGP.Model.Go
import CoreBGP.Types
import CoreBGP.Gen.ConstsIANA
import CoreBGP.Gen.ConstsTimers
/-!
# L3 model: `server.go`, `peer_options.go`, and the damping arithmetic of `peer.go`

The registry under `s.mu`, `Serve` / `Close` run state, inbound admission
(`handleInboundConn`), option / configuration validation, and `updateStartupDelay`.
Addresses are abstract keys with a kind (`netip.Addr`: zero value, IPv4, IPv6).
-/
namespace CoreBGP.Model
open CoreBGP

/-- `peerOptions.validate` (`peer_options.go:20`) -/
def validateOptions (c : PeerCfg) : Bool :=
  !((c.holdNs < 3000000000 && c.holdNs ≠ 0) || (c.port < 1 || c.port > 65535))

/-- `PeerConfig.validate` (`server.go:172`) -/
def validateConfig (c : PeerCfg) : Bool :=
  if c.localAS = 0 || c.remoteAS = 0 then false
  else if !c.localAddr.isValid && c.remote.isValid then true
  else if c.localAddr.is4 ≠ c.remote.is4 then false
  else if !c.localAddr.is4 && (!c.localAddr.is6 || !c.remote.is6) then false
  else true

/-- `NewServer` accepts `routerID.Is4()` -/
def newServerOK (routerID : Addr) : Bool := routerID.is4


/-- the `Server` fields under `s.mu`: the peers map (association list keyed by the remote address),
which peers have been started and not stopped, and the run state -/
structure Server where
  peers : List (Addr × PeerCfg) := []
  running : List Addr := []
  serving : Bool := false
  closed : Bool := false          -- closeCh closed
  doneServing : Bool := false     -- doneServingCh closed
deriving Repr, DecidableEq, Inhabited

def Server.lookup (s : Server) (k : Addr) : Option PeerCfg := (s.peers.find? (·.1 = k)).map (·.2)

/-- `AddPeer` (`server.go:201`) -/
def Server.addPeer (s : Server) (c : PeerCfg) : Server × Option ApiErr :=
  if !validateOptions c then (s, some .invalidOptions)
  else if !validateConfig c then (s, some .invalidConfig)
  else if (s.lookup c.remote).isSome then (s, some .alreadyExists)
  else
    ({ s with peers := s.peers ++ [(c.remote, c)],
              running := if s.serving then s.running ++ [c.remote] else s.running }, none)

/-- `DeletePeer` (`server.go:230`) -/
def Server.deletePeer (s : Server) (k : Addr) : Server × Option ApiErr :=
  match s.lookup k with
  | none => (s, some .notExist)
  | some _ => ({ s with peers := s.peers.filter (·.1 ≠ k), running := s.running.filter (· ≠ k) }, none)

/-- `GetPeer` -/
def Server.getPeer (s : Server) (k : Addr) : Except ApiErr PeerCfg :=
  match s.lookup k with
  | none => .error .notExist
  | some c => .ok c

/-- `ListPeers` (map iteration order is not defined: compare as sets) -/
def Server.listPeers (s : Server) : List PeerCfg := s.peers.map (·.2)

/-- entry of `Serve` (`server.go:74`): refused after `Close`; otherwise every peer is started -/
def Server.serveStart (s : Server) : Server × Option ApiErr :=
  if s.doneServing || s.closed then (s, some .serverClosed)
  else ({ s with serving := true, running := s.peers.map (·.1) }, none)

/-- the deferred part of `Serve`: every peer stopped, `doneServingCh` closed; returns
`ErrServerClosed` -/
def Server.serveEnd (s : Server) : Server := { s with serving := false, running := [], doneServing := true }

/-- `Close`: closes `closeCh`; if serving, `Serve` then unwinds (`serveEnd`) before `Close` returns -/
def Server.close (s : Server) : Server :=
  let s := { s with closed := true }
  if s.serving then s.serveEnd else s

/-- `handleInboundConn` (`server.go:47`): the peer the connection is handed to, if any -/
def Server.admit (s : Server) (src dst : Addr) : Option PeerCfg :=
  match s.lookup src with
  | none => none
  | some c => if c.localAddr.isValid && c.localAddr ≠ dst then none else some c

/-! ## damping (`peer.go:226`, `notification_error.go:18`) -/

/-- `notificationError.dampPeer` -/
def dampPeer (code : UInt8) : Bool := code ≠ Gen.NOTIF_CODE_CEASE

/-- class of an error handed to `handleError` -/
inductive FsmErr where
  | notif (code : UInt8) (out : Bool)      -- unwraps to a `notificationError`
  | other                                   -- I/O errors etc.
deriving Repr, DecidableEq, Inhabited

def errDamps : FsmErr → Bool
  | .notif code _ => dampPeer code
  | .other => false

/-- one call of `updateStartupDelay`: previous delay, time since the previous protocol error
(`none` for the first) ↦ new delay (all in ns) -/
def updateStartupDelay (delay : Nat) (gap : Option Nat) : Nat :=
  let delay := match gap with
    | some g => if g ≥ Gen.errorAmnesiaTime then 0 else delay
    | none => delay
  if delay > 0 then min (2 * delay) Gen.errorDelayMaxTime else Gen.errorDelayMinTime

/-- the delays after each error of a history; `gaps[k]` = time since the previous error (the head
is the first error and has no predecessor) -/
def delaysAfter : Nat → Bool → List Nat → List Nat
  | _, _, [] => []
  | d, first, g :: gs =>
    let d' := updateStartupDelay d (if first then none else some g)
    d' :: delaysAfter d' false gs

def backoff (gaps : List Nat) : List Nat := delaysAfter 0 true gaps

/-- kinds of errors `handleError` sees -/
inductive ErrKind where
  | damp      -- a NOTIFICATION other than Cease (sent or received)
  | cease     -- a Cease
  | io        -- a transport error
deriving Repr, DecidableEq, Inhabited

/-- a history of errors of every kind, each with the time since the previous event: the startup delay after each
(0 = no hold-down). Only damping errors touch `startupDelay` and `lastProtoError`; `since` is the time since the last
damping error (`none` before the first). -/
def delaysHist : Nat → Option Nat → List (ErrKind × Nat) → List Nat
  | _, _, [] => []
  | d, since, (k, g) :: rest =>
    let since' := since.map (· + g)
    match k with
    | .damp => let d' := updateStartupDelay d since'; d' :: delaysHist d' (some 0) rest
    | _ => 0 :: delaysHist d since' rest

def errHistory (h : List (ErrKind × Nat)) : List Nat := delaysHist 0 none h

end CoreBGP.Model
