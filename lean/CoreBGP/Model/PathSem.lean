import CoreBGP.Model.Session
import CoreBGP.Model.Timed
import CoreBGP.Model.Reconnect
import CoreBGP.Gen.Paths
/-!
# Meaning of the regenerated control paths (`Gen.codePaths`) of the message-handling state functions

`/verif/extract/paths.go` translates `openSent`, `openConfirm`, `established` (and the helpers they call) of
`fsm.go` into their control paths: the guards assumed on the way, the statement-level effects in program
order, the exit. Here an *input class* (`ICls`: which `select` case fires, which kind of message / reader
error it carries, whether the OPEN validates, whether the plugin refuses) gives the guards a truth value
(`envOfCls`; a guard that the class does not determine — timer housekeeping — is left open and every
branch of it is followed), the paths compatible with a class are `selected`, and a path is read as its
plugin- and wire-visible effects (`pathVis`) and its exit (`pathExit`). `Props.PathTie` states that `react`,
the L1 model, does on every input exactly what every path selected for the class of that input does, and
that every path of the code is selected by some class (or is one of the write-failure paths the model
leaves to the transport-fault input).
-/
namespace CoreBGP.Model
open CoreBGP CoreBGP.Gen

abbrev GEnv := String → Option Bool

def pathSat (ρ : GEnv) (p : CodePath) : Bool :=
  p.guards.all fun gv => match ρ gv.1 with | some b => b == gv.2 | none => true

/-- the paths of one function that start at its entry or at the top of its loop -/
def pathsOf (fn : String) : List CodePath := codePaths.filter fun p => p.fn = fn && p.exit != "enter-loop"

/-- the path from the entry of a function to its loop -/
def prologueOf (fn : String) : List CodePath := codePaths.filter fun p => p.fn = fn && p.exit = "enter-loop"

def selected (fn : String) (ρ : GEnv) : List CodePath := (pathsOf fn).filter (pathSat ρ)

/-- effects visible to the remote or to the plugin -/
inductive Vis where
  | sendNotif | sendKA | onOpen | handler | close | onClose | onEstablished | unknown
deriving DecidableEq, Repr, Inhabited

/-- `handleNotificationInErr` is read through its own generated paths -/
def expandCall (ρ : GEnv) (c : String) : List String :=
  if c = "f.handleNotificationInErr" then
    match selected "handleNotificationInErr" ρ with
    | [p] => p.calls
    | _ => ["?"]
  else [c]

def visOfCall (c : String) : List Vis :=
  if c = "f.sendNotification" then [.sendNotif]
  else if c = "f.sendKeepAlive" then [.sendKA]
  else if c = "f.peer.plugin.OnOpenMessage" then [.onOpen]
  else if c = "handler" then [.handler]
  else if c = "f.cleanupConnAndReader" then [.close]
  else if c = "f.peer.plugin.OnClose" then [.onClose]
  else if c = "f.peer.plugin.OnEstablished" then [.onEstablished]
  else if c = "?" then [.unknown]
  else []

def pathVis (ρ : GEnv) (p : CodePath) : List Vis := (p.calls.flatMap (expandCall ρ)).flatMap visOfCall

/-- class of the error handed to the peer manager, payload dropped -/
inductive ErrS where
  | none | sent | rcvd | io
deriving DecidableEq, Repr, Inhabited

inductive ExitS where
  | loop | ret (st : St) (e : ErrS) | bad
deriving DecidableEq, Repr, Inhabited

def stOfName (s : String) : Option St :=
  if s = "disabledState" then some .disabled else if s = "idleState" then some .idle
  else if s = "connectState" then some .connect else if s = "activeState" then some .active
  else if s = "openSentState" then some .openSent else if s = "openConfirmState" then some .openConfirm
  else if s = "establishedState" then some .established else none

/-- the error operand of a `return`: `wrapped` is the class of the error a `fmt.Errorf("…%w", err)` wraps -/
def errOfName (wrapped : ErrS) (e : String) : Option ErrS :=
  if e = "nil" then some .none else if e = "notif:out=true" then some .sent
  else if e = "notif:out=false" then some .rcvd else if e = "wrap:%w" then some wrapped else none

def pathExit (wrapped : ErrS) (p : CodePath) : ExitS :=
  if p.exit = "loop" then .loop
  else if p.exit = "return" then
    match p.ret with
    | [s, e] => match stOfName s, errOfName wrapped e with
      | some st, some er => .ret st er
      | _, _ => .bad
    | _ => .bad
  else .bad

/-! ## input classes -/

inductive SelK where
  | closeCh | holdTimer | kaTimer | readerErr | readerMsg
deriving DecidableEq, Repr, Inhabited

inductive MsgK where
  | notif | open_ | keepalive | update
deriving DecidableEq, Repr, Inhabited

structure ICls where
  sel : SelK
  msg : MsgK := .keepalive        -- which message (`readerMsg` only)
  errNotif : Option Bool := none  -- reader error: `some out` for a `notificationError`
  invalid : Bool := false         -- OPEN in OpenSent: `validate` fails
  refuses : Bool := false         -- the plugin callback returned a NOTIFICATION
deriving DecidableEq, Repr, Inhabited

def selGuard : SelK → String
  | .closeCh => "select recv f.closeCh"
  | .holdTimer => "select recv f.holdTimer.C"
  | .kaTimer => "select recv f.keepAliveTimer.C"
  | .readerErr => "select recv f.readerErrCh"
  | .readerMsg => "select recv f.readerMsgCh"

def msgGuard : MsgK → String
  | .notif => "type *Notification"
  | .open_ => "type *openMessage"
  | .keepalive => "type *keepAliveMessage"
  | .update => "type updateMessage"

def selGuards : List String := [selGuard .closeCh, selGuard .holdTimer, selGuard .kaTimer, selGuard .readerErr, selGuard .readerMsg]
def msgGuards : List String := [msgGuard .notif, msgGuard .open_, msgGuard .keepalive, msgGuard .update]

def envOfCls (c : ICls) : GEnv := fun g =>
  if selGuards.contains g then some (g == selGuard c.sel)
  else if msgGuards.contains g then some (c.sel == .readerMsg && g == msgGuard c.msg)
  else if g = "errors.As(err,&nerr)" then some c.errNotif.isSome
  else if g = "errors.As(err,&nerr)&&nerr.out" then some (c.errNotif == some true || (c.sel == .readerMsg && c.invalid))
  else if g = "m.validate()!=nil" then some c.invalid
  else if g = "f.peer.plugin.OnOpenMessage()!=nil" then some c.refuses
  else if g = "handler()!=nil" then some c.refuses
  else if g = "f.peer.plugin.OnEstablished()!=nil" then some true     -- the plugin installed a handler
  else if g = "f.sendKeepAlive()!=nil" then some false                 -- the write succeeds (else: transport fault)
  else none

/-- class of the error a `%w` wraps on this input: the reader's error, or the error of `validate` -/
def wrappedOf (c : ICls) : ErrS :=
  match c.sel with
  | .readerErr => (match c.errNotif with | some true => .sent | some false => .rcvd | none => .io)
  | .readerMsg => .sent
  | _ => .io

def fnName : Phase → String
  | .openSent => "openSent" | .openConfirm => "openConfirm" | .established => "established" | .closed => "-"

/-! ## the model's side: class and shape of a `react` step -/

def errClsOf : RErr → Option Bool
  | .notif _ out => some out
  | _ => none

def msgKOf : RMsg → MsgK
  | .open_ _ => .open_ | .update _ => .update | .notif _ => .notif | .keepalive => .keepalive

/-- the class of an input (for the inputs that are a case of the `select` of that state) -/
def clsOf (cfg : SessCfg) (ph : Phase) (inp : Input) (ret : Option Notif) : Option ICls :=
  match inp with
  | .closeReq => some { sel := .closeCh }
  | .holdExpired => some { sel := .holdTimer }
  | .kaTimer => if ph = .openSent then none else some { sel := .kaTimer }
  | .readerErr e => some { sel := .readerErr, errNotif := errClsOf e }
  | .msg m =>
    match ph, m with
    | .openSent, .open_ o =>
      let inv := (validateOpen o cfg.localID cfg.localAS cfg.remoteAS).isSome
      some { sel := .readerMsg, msg := .open_, invalid := inv, refuses := !inv && ret.isSome }
    | .established, .update _ => some { sel := .readerMsg, msg := .update, refuses := ret.isSome }
    | _, m => some { sel := .readerMsg, msg := msgKOf m }
  | .writeUpdate _ => none

def errSOf : Option ErrK → ErrS
  | none => .none | some (.sent _) => .sent | some (.rcvd _) => .rcvd | some .io => .io

/-- type octet of a message on the wire -/
def wireType (b : Bytes) : Nat := (b.getD 18 0).toNat

def visOfAct : Act → List Vis
  | .send b => if wireType b = Gen.notificationMessageType then [.sendNotif]
               else if wireType b = Gen.keepAliveMessageType then [.sendKA] else [.unknown]
  | .close => [.close]
  | .onOpen _ _ => [.onOpen]
  | .onEstablished => []          -- the first statement of the next state function (`established_prologue`)
  | .handler _ => [.handler]
  | .onClose => [.onClose]
  | .report _ _ => []

def actsVis (acts : List Act) : List Vis := acts.flatMap visOfAct

def actsExit (acts : List Act) : ExitS :=
  match acts.find? fun a => match a with | .report _ _ => true | _ => false with
  | some (.report st e) => .ret st (errSOf e)
  | _ => .loop

/-! ## the timers on the paths (C06) -/

/-- what the FSM goroutine keeps about its two session timers: negotiated hold time (s), keepalive interval
(ns), the deadline of each timer (`none` = stopped) -/
structure TI where
  hold : Nat
  kaInt : Nat
  holdDl : Option Nat
  kaDl : Option Nat
deriving DecidableEq, Repr, Inhabited

inductive TEff where
  | holdFromOpen      -- `f.holdTime = time.Duration(m.holdTime) * time.Second`
  | holdFromConfig    -- `f.holdTime = f.peer.options.holdTime`
  | kaIntThird        -- `f.keepAliveInterval = f.holdTime / 3`
  | kaIntZero
  | armKA             -- keepalive timer (re)armed with `f.keepAliveInterval`
  | armKALong         -- keepalive timer created with `longHoldTime`
  | stopKA
  | stopHold
  | armHold           -- hold timer armed with `f.holdTime`
  | unknownT
deriving DecidableEq, Repr, Inhabited

def teffOfCall (c : String) : List TEff :=
  if c = "set f.holdTime=time.Duration(m.holdTime)*time.Second" then [.holdFromOpen]
  else if c = "set f.holdTime=f.peer.options.holdTime" then [.holdFromConfig]
  else if c = "set f.keepAliveInterval=f.holdTime/3" then [.kaIntThird]
  else if c = "set f.keepAliveInterval=0" then [.kaIntZero]
  else if c = "set f.keepAliveTimer=time.NewTimer(f.keepAliveInterval)" then [.armKA]
  else if c = "set f.keepAliveTimer=time.NewTimer(longHoldTime)" then [.armKALong]
  else if c = "f.keepAliveTimer.Reset(f.keepAliveInterval)" then [.armKA]
  else if c = "f.keepAliveTimer.Stop" then [.stopKA]
  else if c = "f.holdTimer.Stop" then [.stopHold]
  else if c = "f.holdTimer.Reset(f.holdTime)" then [.armHold]
  else if c = "?" then [.unknownT]
  else []

/-- the timer effects of a helper / of the keepalive manager goroutine, read through their own generated paths: all paths
the guards allow must agree -/
def helperTEffs (fn : String) (ρ : GEnv) : List TEff :=
  match ((selected fn ρ).map fun p => p.calls.flatMap teffOfCall).eraseDups with
  | [x] => x
  | _ => [.unknownT]

def teffsOfCall (ρ : GEnv) (c : String) : List TEff :=
  if c = "f.drainAndResetHoldTimer" then helperTEffs "drainAndResetHoldTimer" ρ
  else if c = "send resetKATimerCh" then
    helperTEffs "established.go1" fun g => if g = "select recv resetKATimerCh" then some true
                                           else if g = "select recv closeKAManagerCh" then some false else ρ g
  else teffOfCall c

/-- timer effects of a path; they end where the session ends (after the connection is closed nothing is observable) -/
def pathTEffs (ρ : GEnv) (p : CodePath) : List TEff :=
  (p.calls.takeWhile (· != "f.cleanupConnAndReader")).flatMap (teffsOfCall ρ)

def applyTEff (now remoteHold localHold : Nat) (t : TI) : TEff → TI
  | .holdFromOpen => { t with hold := remoteHold }
  | .holdFromConfig => { t with hold := localHold }
  | .kaIntThird => { t with kaInt := t.hold * secNs / 3 }
  | .kaIntZero => { t with kaInt := 0 }
  | .armKA => { t with kaDl := some (now + t.kaInt) }
  | .armKALong => { t with kaDl := some (now + Gen.longHoldTime) }
  | .stopKA => { t with kaDl := none }
  | .stopHold => { t with holdDl := none }
  | .armHold => { t with holdDl := some (now + t.hold * secNs) }
  | .unknownT => t

def tiOf (s : TSess) : TI := { hold := s.hold, kaInt := kaInterval s.hold, holdDl := s.holdDl, kaDl := s.kaDl }

/-- timer classes: which timed event, and the two facts about the hold time the paths branch on -/
inductive TK where
  | openAccepted | keepalive | update | kaFire
deriving DecidableEq, Repr, Inhabited

structure TCls where
  ph : Phase
  k : TK
  holdNZ : Bool        -- the hold time in force (after this step) is non-zero
  localLess : Bool     -- configured hold time < hold time of the OPEN (OpenSent only)
deriving DecidableEq, Repr, Inhabited

def TCls.icls (c : TCls) : ICls :=
  match c.k with
  | .openAccepted => { sel := .readerMsg, msg := .open_ }
  | .keepalive => { sel := .readerMsg, msg := .keepalive }
  | .update => { sel := .readerMsg, msg := .update }
  | .kaFire => { sel := .kaTimer }

def envOfTCls (c : TCls) : GEnv := fun g =>
  if g = "f.holdTime!=0" then some c.holdNZ
  else if g = "f.peer.options.holdTime<f.holdTime" then some c.localLess
  else envOfCls c.icls g

/-! ## the outbound FSM before OpenSent on the paths (C11) -/

/-- what `idle` / `connect` / `active` keep: the two timers and whether a dial result is outstanding -/
structure RI where
  crDl : Option Nat
  idleDl : Option Nat
  dialing : Bool
deriving DecidableEq, Repr, Inhabited

inductive REff where
  | armCR | stopCR | dial | armIdle | cancelDial | recvDial | setConn
deriving DecidableEq, Repr, Inhabited

def reffOfCall (c : String) : List REff :=
  if c = "set f.connectRetryTimer=time.NewTimer(f.peer.options.connectRetryTime)" then [.armCR]
  else if c = "f.connectRetryTimer.Stop" then [.stopCR]
  else if c = "f.dialPeer" then [.dial]
  else if c = "f.idleHoldTimer.Reset(f.peer.options.idleHoldTime)" then [.armIdle]
  else if c = "f.cancelDialFn" then [.cancelDial]
  else if c = "recv f.dialResultCh" then [.recvDial]
  else if c = "set f.conn=dr.conn" then [.setConn]
  else []

/-- taking a case of the `select` is an effect too: the dial result is received, a timer that fired is spent -/
def reffOfGuard (g : String × Bool) : List REff :=
  if g = ("select recv f.dialResultCh", true) then [.recvDial]
  else if g = ("select recv f.connectRetryTimer.C", true) then [.stopCR]
  else []

def pathREffs (p : CodePath) : List REff := p.guards.flatMap reffOfGuard ++ p.calls.flatMap reffOfCall

def applyREff (now cr ih : Nat) (r : RI) : REff → RI
  | .armCR => { r with crDl := some (now + cr) }
  | .stopCR => { r with crDl := none }
  | .dial => { r with dialing := true }
  | .armIdle => { r with idleDl := some (now + ih) }
  | .cancelDial => r
  | .recvDial => { r with dialing := false }
  | .setConn => r

def riOf (s : RSess) : RI := { crDl := s.crDl, idleDl := s.idleDl, dialing := s.dialing }

/-- where a path leaves the FSM: `sendOpenAndSetHoldTimer` (the OPEN is written: the model's `connected`), or a state -/
def pathRSt (cur : RSt) (p : CodePath) : Option RSt :=
  if p.exit = "loop" then some cur
  else match p.ret with
    | [r] => if r = "call:f.sendOpenAndSetHoldTimer" then some .connected
             else if r = "idleState" then some .idle else if r = "connectState" then some .connect
             else if r = "activeState" then some .active else none
    | [r, _] => if r = "idleState" then some .idle else if r = "activeState" then some .active else none
    | _ => none

/-- classes of the events of `Model.Reconnect`: the function that runs and the guards the event fixes -/
structure RCls where
  fn : String
  guards : List (String × Bool)
deriving DecidableEq, Repr, Inhabited

def earlySelectGuards : List String :=
  ["select recv f.closeCh", "select recv f.idleHoldTimer.C", "select recv f.dialResultCh", "select recv f.connectRetryTimer.C"]

def envOfRCls (c : RCls) : GEnv := fun g =>
  match c.guards.find? (·.1 = g) with
  | some gv => some gv.2
  | none => if earlySelectGuards.contains g || selGuards.contains g then some false else none

end CoreBGP.Model
