import CoreBGP.Model.Go
/-!
# `attrsBitmap` (`update.go:1005`): `[256/32]uint32` with `set` / `isSet`

`decodePathAttrs` records the attribute type codes it has seen in this bitmap; `Model.Update` abstracts
it to a list of codes (`PAState.seen`). This file models the bit manipulation itself so that the
abstraction is a theorem (`CoreBGP.Props.C16B`) rather than an assumption.
-/
namespace CoreBGP.Model
open CoreBGP

/-- the eight words -/
structure Bitmap where
  w : Fin 8 → UInt32

def Bitmap.empty : Bitmap := ⟨fun _ => 0⟩

/-- index of the word holding bit `b`: `b/32` (always < 8 for a `uint8`) -/
def wordIdx (b : UInt8) : Fin 8 := ⟨b.toNat / 32, by have := b.toNat_lt; omega⟩

/-- `uint32(1) << (b % 32)` -/
def bitMask (b : UInt8) : UInt32 := (1 : UInt32) <<< UInt32.ofNat (b.toNat % 32)

/-- `a[b/32] |= uint32(1) << (b % 32)` -/
def Bitmap.set (a : Bitmap) (b : UInt8) : Bitmap :=
  ⟨fun i => if i = wordIdx b then a.w i ||| bitMask b else a.w i⟩

/-- `a[b/32] & uint32(1<<(b%32)) != 0` -/
def Bitmap.isSet (a : Bitmap) (b : UInt8) : Bool := (a.w (wordIdx b) &&& bitMask b) != 0

end CoreBGP.Model
