import CoreBGP.Model.Reader
import CoreBGP.Gen.ConstsFSM
import CoreBGP.Gen.ConstsTimers
/-!
# L1 model: one connection's reactive behaviour (`openSent`, `openConfirm`, `established` of `fsm.go`)

`react` is the body of the three `select` loops as a function of (phase, input, what the plugin
returned): the new phase, the actions in program order, and what `fsm.run` then reports to the
peer manager (desired next state and error class). Timers appear as inputs (`holdExpired`,
`kaTimer`); `Timed` below adds the deadlines for the C06 statements.
-/
namespace CoreBGP.Model
open CoreBGP

inductive Phase where
  | openSent | openConfirm | established | closed
deriving Repr, DecidableEq, Inhabited

structure SessCfg where
  localID : UInt32
  localAS : UInt32
  remoteAS : UInt32
  localHold : UInt16        -- configured hold time, seconds
deriving Repr, DecidableEq, Inhabited

/-- what a state function's `select` can receive -/
inductive Input where
  | msg (m : RMsg)            -- `<-f.readerMsgCh`
  | readerErr (e : RErr)      -- `<-f.readerErrCh`
  | holdExpired               -- `<-f.holdTimer.C`
  | kaTimer                   -- `<-f.keepAliveTimer.C`
  | closeReq                  -- `<-f.closeCh` (closed, or the collision kill value)
  | writeUpdate (b : Bytes)   -- `WriteUpdate(b)` by a plugin goroutine (Established only)
deriving Repr, DecidableEq, Inhabited

/-- class of the error handed to the peer manager -/
inductive ErrK where
  | sent (code : UInt8)       -- `notificationError{out: true}`
  | rcvd (code : UInt8)       -- `notificationError{out: false}`
  | io                        -- anything else
deriving Repr, DecidableEq, Inhabited

/-- FSM states as the peer manager sees them (`fsmState`) -/
inductive St where
  | disabled | idle | connect | active | openSent | openConfirm | established
deriving Repr, DecidableEq, Inhabited, Hashable

def St.rank : St → UInt8
  | .disabled => Gen.disabledState | .idle => Gen.idleState | .connect => Gen.connectState
  | .active => Gen.activeState | .openSent => Gen.openSentState | .openConfirm => Gen.openConfirmState
  | .established => Gen.establishedState

inductive Act where
  | send (b : Bytes)                         -- one `conn.Write` of a whole message
  | close                                    -- `cleanupConnAndReader`: the connection is closed
  | onOpen (id : UInt32) (caps : List Cap)   -- `OnOpenMessage`
  | onEstablished
  | handler (b : Bytes)                      -- the `UpdateMessageHandler`
  | onClose
  | report (next : St) (err : Option ErrK)   -- what `fsm.run` tells the manager next
deriving Repr, DecidableEq, Inhabited

def kaBytes : Bytes := prependHeader [] (UInt8.ofNat Gen.keepAliveMessageType)
def updateBytes (b : Bytes) : Bytes := prependHeader b (UInt8.ofNat Gen.updateMessageType)

def ceaseNotif : Notif := ⟨Gen.NOTIF_CODE_CEASE, 0, []⟩
def holdExpiredNotif : Notif := ⟨Gen.NOTIF_CODE_HOLD_TIMER_EXPIRED, 0, []⟩

/-- negotiated hold time in seconds (`fsm.go:640`) -/
def negotiate (localHold remoteHold : UInt16) : UInt16 :=
  if localHold.toNat < remoteHold.toNat then localHold else remoteHold

/-- teardown shared by all exits: send a NOTIFICATION (if any), close, `OnClose` if the session was
Established, report -/
def teardown (est : Bool) (n : Option Notif) (next : St) (err : Option ErrK) : List Act :=
  (match n with | some n => [Act.send (encodeNotif n)] | none => []) ++ [.close] ++
  (if est then [.onClose] else []) ++ [.report next err]

/-- reaction to a reader error: a `notificationError` with `out` is sent to the peer first -/
def onReaderErr (est : Bool) (ioNext : St) : RErr → List Act
  | .notif n true => teardown est (some n) .idle (some (.sent n.code))
  | .notif n false => teardown est none .idle (some (.rcvd n.code))
  | _ => teardown est none ioNext (some .io)

/-- FSM Error NOTIFICATION for an unexpected message (RFC 6608) -/
def fsmErr (sub : UInt8) (m : RMsg) : Notif := ⟨Gen.NOTIF_CODE_FSM_ERR, sub, [m.type]⟩

/-- one `select` outcome. `ret` is what the plugin callback returned if one is invoked
(`OnOpenMessage` for an acceptable OPEN in OpenSent; the handler for an UPDATE in Established). -/
def react (cfg : SessCfg) (phase : Phase) (inp : Input) (ret : Option Notif) : Phase × List Act :=
  match phase with
  | .closed => (.closed, [])
  | .openSent =>
    match inp with
    | .closeReq => (.closed, teardown false (some ceaseNotif) .disabled (some (.sent ceaseNotif.code)))
    | .holdExpired => (.closed, teardown false (some holdExpiredNotif) .idle (some (.sent holdExpiredNotif.code)))
    | .readerErr e => (.closed, onReaderErr false .active e)
    | .msg (.notif n) => (.closed, teardown false none .idle (some (.rcvd n.code)))
    | .msg (.open_ o) =>
      match validateOpen o cfg.localID cfg.localAS cfg.remoteAS with
      | some n => (.closed, teardown false (some n) .idle (some (.sent n.code)))
      | none =>
        match ret with
        | some n => (.closed, [.onOpen o.bgpID (openCaps o)] ++ teardown false (some n) .idle (some (.sent n.code)))
        | none => (.openConfirm, [.onOpen o.bgpID (openCaps o), .send kaBytes, .report .openConfirm none])
    | .msg m =>
      let n := fsmErr Gen.NOTIF_SUBCODE_RX_UNEXPECTED_MESSAGE_OPENSENT m
      (.closed, teardown false (some n) .idle (some (.sent n.code)))
    | .kaTimer => (.openSent, [])           -- no keepalive timer exists yet
    | .writeUpdate _ => (.openSent, [])     -- no writer exists yet
  | .openConfirm =>
    match inp with
    | .closeReq => (.closed, teardown false (some ceaseNotif) .disabled (some (.sent ceaseNotif.code)))
    | .holdExpired => (.closed, teardown false (some holdExpiredNotif) .idle (some (.sent holdExpiredNotif.code)))
    | .kaTimer => (.openConfirm, [.send kaBytes])
    | .readerErr e => (.closed, onReaderErr false .idle e)
    | .msg .keepalive => (.established, [.report .established none, .onEstablished])
    | .msg (.notif n) => (.closed, teardown false none .idle (some (.rcvd n.code)))
    | .msg m =>
      let n := fsmErr Gen.NOTIF_SUBCODE_RX_UNEXPECTED_MESSAGE_OPENCONFIRM m
      (.closed, teardown false (some n) .idle (some (.sent n.code)))
    | .writeUpdate _ => (.openConfirm, [])
  | .established =>
    match inp with
    | .closeReq => (.closed, teardown true (some ceaseNotif) .disabled (some (.sent ceaseNotif.code)))
    | .holdExpired => (.closed, teardown true (some holdExpiredNotif) .idle (some (.sent holdExpiredNotif.code)))
    | .kaTimer => (.established, [.send kaBytes])
    | .readerErr e => (.closed, onReaderErr true .idle e)
    | .msg (.notif n) => (.closed, teardown true none .idle (some (.rcvd n.code)))
    | .msg .keepalive => (.established, [])
    | .msg (.update b) =>
      match ret with
      | some n => (.closed, [.handler b] ++ teardown true (some n) .idle (some (.sent n.code)))
      | none => (.established, [.handler b])
    | .msg m =>
      let n := fsmErr Gen.NOTIF_SUBCODE_RX_UNEXPECTED_MESSAGE_ESTABLISHED m
      (.closed, teardown true (some n) .idle (some (.sent n.code)))
    | .writeUpdate b => (.established, [.send (updateBytes b)])

/-- run a whole input sequence; `rets` gives the plugin's return value for the k-th input -/
def runSession (cfg : SessCfg) : Phase → List (Input × Option Notif) → List Act
  | _, [] => []
  | ph, (i, r) :: rest =>
    let (ph', acts) := react cfg ph i r
    acts ++ runSession cfg ph' rest

end CoreBGP.Model
