/-!
# Go semantics as used by the model

`Bytes` are lists of octets; slice expressions are bounds-checked (`none` = the Go runtime
panics); model functions return `Res ε α` where `panic` is a value like any other, so that
"never panics" is the theorem `f x ≠ .panic`.

Fixed-width integers are Lean's `UInt8/UInt16/UInt32`: a wrap in the Go code is a wrap here.
Big-endian conversions go through `Nat` (`/`, `%`) rather than shifts so `omega` applies.
-/
namespace CoreBGP

abbrev Bytes := List UInt8

/-- result of a modelled Go function: value, returned error, or runtime panic -/
inductive Res (ε α : Type) where
  | ok (a : α)
  | err (e : ε)
  | panic
deriving Repr, DecidableEq, Inhabited

namespace Res
@[inline] def bind {ε α β} (x : Res ε α) (f : α → Res ε β) : Res ε β :=
  match x with
  | .ok a => f a
  | .err e => .err e
  | .panic => .panic

instance {ε} : Monad (Res ε) where
  pure := .ok
  bind := Res.bind

@[simp] theorem bind_ok {ε α β} (a : α) (f : α → Res ε β) : (Res.ok a >>= f) = f a := rfl
@[simp] theorem bind_err {ε α β} (e : ε) (f : α → Res ε β) : ((Res.err e : Res ε α) >>= f) = .err e := rfl
@[simp] theorem bind_panic {ε α β} (f : α → Res ε β) : ((Res.panic : Res ε α) >>= f) = .panic := rfl
@[simp] theorem pure_eq {ε α} (a : α) : (pure a : Res ε α) = .ok a := rfl

def isPanic {ε α} : Res ε α → Bool
  | .panic => true
  | _ => false

def isOk {ε α} : Res ε α → Bool
  | .ok _ => true
  | _ => false
end Res

/-- Go slice expression `b[i:j]` (for `j ≤ cap`; the model never relies on spare capacity):
`none` is a runtime panic. -/
def slice? (b : Bytes) (i j : Nat) : Option Bytes :=
  if i ≤ j ∧ j ≤ b.length then some ((b.drop i).take (j - i)) else none

/-- Go slice expression `b[i:]` -/
def sliceFrom? (b : Bytes) (i : Nat) : Option Bytes :=
  if i ≤ b.length then some (b.drop i) else none

/-- lift an optional slice into `Res`, `none` being a panic -/
def orPanic {ε α} : Option α → Res ε α
  | some a => .ok a
  | none => .panic

@[simp] theorem orPanic_some {ε α} (a : α) : (orPanic (some a) : Res ε α) = .ok a := rfl
@[simp] theorem orPanic_none {ε α} : (orPanic (none : Option α) : Res ε α) = .panic := rfl

/-- `binary.BigEndian.Uint16` of two octets -/
def be16 (hi lo : UInt8) : UInt16 := UInt16.ofNat (hi.toNat * 256 + lo.toNat)

/-- `binary.BigEndian.PutUint16` -/
def be16Bytes (x : UInt16) : Bytes := [UInt8.ofNat (x.toNat / 256), UInt8.ofNat (x.toNat % 256)]

/-- `binary.BigEndian.Uint32` of four octets -/
def be32 (a b c d : UInt8) : UInt32 :=
  UInt32.ofNat (a.toNat * 16777216 + b.toNat * 65536 + c.toNat * 256 + d.toNat)

/-- `binary.BigEndian.PutUint32` -/
def be32Bytes (x : UInt32) : Bytes :=
  [UInt8.ofNat (x.toNat / 16777216), UInt8.ofNat (x.toNat / 65536 % 256),
   UInt8.ofNat (x.toNat / 256 % 256), UInt8.ofNat (x.toNat % 256)]

/-- `uint8(len(x))`: truncating conversion of a length -/
def len8 (n : Nat) : UInt8 := UInt8.ofNat n
/-- `uint16(len(x))` -/
def len16 (n : Nat) : UInt16 := UInt16.ofNat n

end CoreBGP
