/-!
# L3 model: the life cycle of a `Server` under concurrent API use (`server.go`)

Threads: one `Serve` call, any number of `AddPeer` / `DeletePeer` / `Close` calls, arriving at any time and
interleaved arbitrarily. Every registry operation is one critical section under `s.mu`
(`Props.C20Lock.single_critical_section` over the regenerated `Gen.Locks`), and what it does inside — start or
stop one peer — terminates (`Props.C10.progress` for the peer-level system), so it is ONE atomic step here.
`Serve` has its two critical sections (`serve_two_sections`) with the unlocked stretch in between, in which it
blocks until `Close` signals (or a listener fails) and then closes its listeners; `Close` has one critical
section followed by the wait for `doneServingCh`. The windows between those steps are where the interesting
interleavings live (an `AddPeer` after `Close` has signalled and before the tear-down has taken the lock).
-/
namespace CoreBGP.Model.Lifecycle

/-- where the `Serve` call is -/
inductive ServePc where
  | notCalled
  | blocked        -- between the two critical sections: serving, waiting for `closeCh` / a listener error
  | closing        -- woken up (close signalled or listener error): closing its listeners, lock not yet taken
  | returned
deriving DecidableEq, Repr, Inhabited

/-- where a `Close` call is -/
inductive ClosePc where
  | waiting        -- after its critical section, on `<-s.doneServingCh`
  | returned
deriving DecidableEq, Repr, Inhabited

structure LState where
  peers : List (Nat × Bool) := []     -- key ↦ started (its manager goroutine exists: `start` called, `stop` not yet)
  serving : Bool := false
  closeSignalled : Bool := false      -- `closeCh` is closed
  doneServing : Bool := false         -- `doneServingCh` is closed
  serve : ServePc := .notCalled
  closers : List ClosePc := []        -- the `Close` calls made so far
deriving DecidableEq, Repr, Inhabited

/-- events: API calls (each registry call is one atomic step), the steps of `Serve`, the return of a `Close` -/
inductive LEv where
  | add (k : Nat)
  | del (k : Nat)
  | closeCall                -- the critical section of `Close`
  | closeReturn (i : Nat)    -- `Close` number `i` gets `doneServingCh`
  | serveCall                -- the first critical section of `Serve`
  | serveWake                -- `closeCh` closed or a listener failed: `Serve` leaves its `select`
  | listenerError            -- a listener failed: `Serve` leaves its `select` without `Close`
  | serveTeardown            -- the deferred critical section: every peer stopped, `serving = false`, `doneServingCh` closed
deriving DecidableEq, Repr

def hasKey (s : LState) (k : Nat) : Bool := s.peers.any (·.1 == k)

/-- one step; `none` = not enabled in this state (the call blocks, or the thread is not at that point) -/
def lstep (s : LState) : LEv → Option LState
  | .add k =>
    if hasKey s k then some s                                            -- ErrPeerAlreadyExists
    else some { s with peers := s.peers ++ [(k, s.serving)] }              -- `if s.serving { p.start() }`
  | .del k =>
    if hasKey s k then some { s with peers := s.peers.filter (·.1 != k) } -- `if s.serving { p.stop() }`, then removed
    else some s                                                           -- ErrPeerNotExist
  | .closeCall =>
    let s' := { s with closeSignalled := true }
    if s.serving then some { s' with closers := s.closers ++ [.waiting] }
    else some { s' with closers := s.closers ++ [.returned] }
  | .closeReturn i =>
    if s.doneServing && s.closers[i]? == some .waiting then some { s with closers := s.closers.set i .returned }
    else none
  | .serveCall =>
    if s.serve != .notCalled then none                                     -- (one `Serve` call is modelled)
    else if s.doneServing || s.closeSignalled then some { s with serve := .returned }   -- ErrServerClosed
    else some { s with serve := .blocked, serving := true, peers := s.peers.map fun p => (p.1, true) }
  | .serveWake =>
    if s.serve == .blocked && s.closeSignalled then some { s with serve := .closing } else none
  | .listenerError =>
    if s.serve == .blocked then some { s with serve := .closing } else none
  | .serveTeardown =>
    if s.serve == .closing then
      some { s with serve := .returned, serving := false, doneServing := true, peers := s.peers.map fun p => (p.1, false) }
    else none

/-- reachable states: any interleaving of any calls -/
inductive LReach : LState → Prop where
  | init : LReach {}
  | step {s s' : LState} (e : LEv) : LReach s → lstep s e = some s' → LReach s'

end CoreBGP.Model.Lifecycle
