import CoreBGP.Model.Go
/-!
# Model of the keepalive-manager / `WriteUpdate` protocol inside `established()` (`fsm.go:784-953`)

Goroutines: **E** the FSM goroutine inside `established` (its loop, the callbacks it runs, its exit),
**K** the keepalive-manager goroutine, **W₁…Wₙ** goroutines calling `WriteUpdate` on the session's
writer (any number; a call made from inside `OnEstablished` / the handler is executed by E itself).
Channels: `resetKATimerCh` (unbuffered), `closeKAManagerCh` and `writer.closeCh` (closed by the
deferred function when E's loop returns), `kaManagerDoneCh` (closed when K returns; E waits for it
before tearing the connection down).
-/
namespace CoreBGP.Model
open CoreBGP

/-- location of a `WriteUpdate` call -/
inductive WPc where
  | idle            -- not in a call
  | checked         -- passed the non-blocking `closeCh` check: will `Write`
  | written         -- wrote; at `select { <-closeCh ; resetKATimerCh <- }`
deriving Repr, DecidableEq, Inhabited

inductive EPc where
  | loop                 -- at the `select` of the Established loop
  | sendReset            -- keepalive timer fired, KEEPALIVE written: at the unconditional `resetKATimerCh <-`
  | inCallback (w : WPc) -- inside `OnEstablished` / the handler, possibly in a `WriteUpdate` call of its own
  | exited               -- loop returned; deferred: both close channels closed; at `<-kaManagerDoneCh`
  | done                 -- K joined: teardown proceeds
deriving Repr, DecidableEq, Inhabited

inductive KPc where
  | select_ | done
deriving Repr, DecidableEq, Inhabited

structure WState where
  e : EPc := .loop
  k : KPc := .select_
  ws : List WPc := []          -- the external writer goroutines
  closed : Bool := false       -- `closeKAManagerCh` and `writer.closeCh` are closed
  wrote : Nat := 0             -- ghost: UPDATEs put on the wire
deriving Repr, DecidableEq, Inhabited

def setW (ws : List WPc) (j : Nat) (w : WPc) : List WPc := ws.set j w

/-- steps of the system -/
def wnext (s : WState) : List WState :=
  -- E
  (match s.e with
   | .loop =>
     [ { s with e := .sendReset },                              -- keepalive timer: KEEPALIVE written
       { s with e := .inCallback .idle },                       -- an UPDATE arrives: handler called
       { s with e := .exited, closed := true } ]                -- the loop returns; the deferred function runs
   | .sendReset => if s.k = .select_ then [{ s with e := .loop }] else []          -- rendezvous with K
   | .inCallback .idle => [ { s with e := .loop }, { s with e := .inCallback .checked } ]   -- return, or call WriteUpdate (closeCh not closed: E is alive)
   | .inCallback .checked => [ { s with e := .inCallback .written, wrote := s.wrote + 1 } ]
   | .inCallback .written => if s.k = .select_ then [{ s with e := .inCallback .idle }] else []
   | .exited => if s.k = .done then [{ s with e := .done }] else []
   | .done => []) ++
  -- K
  (if s.k = .select_ && s.closed then [{ s with k := .done }] else []) ++
  -- external writers
  ((List.range s.ws.length).flatMap fun j =>
    match s.ws.getD j .idle with
    | .idle => if s.closed then [] else [{ s with ws := setW s.ws j .checked }]   -- closed: returns an error at once (no step needed)
    | .checked => [{ s with ws := setW s.ws j .written, wrote := s.wrote + 1 }]
    | .written =>
      (if s.closed then [{ s with ws := setW s.ws j .idle }] else []) ++
      (if s.k = .select_ then [{ s with ws := setW s.ws j .idle }] else []))

def wInit (n : Nat) : WState := { ws := List.replicate n .idle }

inductive WReach (n : Nat) : WState → Prop where
  | init : WReach n (wInit n)
  | step {s s' : WState} : WReach n s → s' ∈ wnext s → WReach n s'

end CoreBGP.Model
