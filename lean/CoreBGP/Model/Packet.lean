import CoreBGP.Model.Go
import CoreBGP.Types
import CoreBGP.Gen.ConstsIANA
import CoreBGP.Gen.ConstsCore

/-!
# L0 model of `packet.go`

Function by function transcription: header framing, NOTIFICATION / OPEN / capability codecs,
`openMessage.validate`, `newOpenMessage`, add-path and multiprotocol capability helpers.
Constants come from the regenerated `CoreBGP.Gen`.
-/
namespace CoreBGP.Model
open CoreBGP



/-- errors of the packet layer: `*notificationError{notification, out}` or a plain error -/
inductive PErr where
  | notif (n : Notif) (out : Bool)
  | plain
deriving Repr, DecidableEq, Inhabited

abbrev PRes := Res PErr

/-- `newNotificationError(newNotification(code, sub, data), true)` -/
def nerr {α} (code sub : UInt8) (data : Bytes) : PRes α := .err (.notif ⟨code, sub, data⟩ true)

/-! ## header -/

/-- `prependHeader` (`packet.go:60`): `uint16(len(m) + headerLength)` truncates. -/
def prependHeader (m : Bytes) (t : UInt8) : Bytes :=
  List.replicate 16 (0xFF : UInt8) ++ be16Bytes (len16 (m.length + Gen.headerLength)) ++ [t] ++ m

/-! ## NOTIFICATION -/

/-- `(*Notification).decode` (`packet.go:187`) -/
def decodeNotif (b : Bytes) : PRes Notif :=
  match b with
  | c :: s :: rest => .ok ⟨c, s, rest⟩
  | _ => .err .plain

/-- body part of `(*Notification).encode` (`packet.go:209`) -/
def encodeNotifBody (n : Notif) : Bytes :=
  [n.code, n.sub] ++ (if n.data.length > 0 then n.data else [])

/-- `(*Notification).encode` -/
def encodeNotif (n : Notif) : Bytes :=
  prependHeader (encodeNotifBody n) (UInt8.ofNat Gen.notificationMessageType)

/-! ## capabilities and optional parameters -/

/-- `Capability.encode` (`packet.go:536`): `uint8(len(c.Value))` truncates. -/
def encodeCap (c : Cap) : Bytes := [c.code, len8 c.value.length] ++ c.value

/-- loop of `(*capabilityOptionalParam).decode` (`packet.go:478`); `fuel` bounds the Go `for`,
each iteration consumes ≥ 2 bytes. `capLen+2` is computed in `uint8` as in the code. -/
def decodeCapsLoop : Nat → Bytes → List Cap → PRes (List Cap)
  | 0, _, _ => .panic   -- unreachable: fuel = length + 1
  | fuel + 1, b, acc =>
    match b with
    | capCode :: capLen :: _ =>
      if b.length < capLen.toNat + 2 then nerr Gen.NOTIF_CODE_OPEN_MESSAGE_ERR 0 []
      else
        let value : Option Bytes :=
          if capLen > 0 then slice? b 2 (capLen + 2).toNat else some []
        match value with
        | none => .panic
        | some v =>
          match sliceFrom? b (2 + capLen.toNat) with
          | none => .panic
          | some rest =>
            let acc' := acc ++ [⟨capCode, v⟩]
            if rest.length = 0 then .ok acc' else decodeCapsLoop fuel rest acc'
    | _ => nerr Gen.NOTIF_CODE_OPEN_MESSAGE_ERR 0 []

/-- `(*capabilityOptionalParam).decode` -/
def decodeCaps (b : Bytes) : PRes (List Cap) := decodeCapsLoop (b.length + 1) b []

/-- loop of `decodeOptionalParams` (`packet.go:361`); every parameter is a capabilities
parameter (the only kind the code knows), so the result is a list of capability lists. -/
def decodeParamsLoop : Nat → Bytes → List (List Cap) → PRes (List (List Cap))
  | 0, _, _ => .panic
  | fuel + 1, b, acc =>
    match b with
    | paramCode :: paramLen :: _ =>
      if b.length < paramLen.toNat + 2 then nerr Gen.NOTIF_CODE_OPEN_MESSAGE_ERR 0 []
      else
        let toDecode : Option Bytes :=
          if paramLen > 0 then slice? b 2 (paramLen + 2).toNat else some []
        match toDecode with
        | none => .panic
        | some pd =>
          match sliceFrom? b (2 + paramLen.toNat) with
          | none => .panic
          | some rest =>
            if paramCode = Gen.capabilityOptionalParamType then
              match decodeCaps pd with
              | .ok cs =>
                let acc' := acc ++ [cs]
                if rest.length = 0 then .ok acc' else decodeParamsLoop fuel rest acc'
              | .err e => .err e
              | .panic => .panic
            else nerr Gen.NOTIF_CODE_OPEN_MESSAGE_ERR Gen.NOTIF_SUBCODE_UNSUPPORTED_OPTIONAL_PARAM []
    | _ => nerr Gen.NOTIF_CODE_OPEN_MESSAGE_ERR 0 []

def decodeParams (b : Bytes) : PRes (List (List Cap)) := decodeParamsLoop (b.length + 1) b []

/-! ## OPEN -/


/-- `(*openMessage).getCapabilities` -/
def openCaps (o : OpenMsg) : List Cap := o.params.flatten

/-- `(*openMessage).decode` (`packet.go:338`) -/
def decodeOpen (b : Bytes) : PRes OpenMsg :=
  match b with
  | v :: a1 :: a2 :: h1 :: h2 :: i1 :: i2 :: i3 :: i4 :: opl :: rest =>
    if opl.toNat ≠ rest.length then nerr Gen.NOTIF_CODE_OPEN_MESSAGE_ERR 0 []
    else
      match decodeParams rest with
      | .ok ps => .ok ⟨v, be16 a1 a2, be16 h1 h2, be32 i1 i2 i3 i4, ps⟩
      | .err e => .err e
      | .panic => .panic
  | _ => nerr Gen.NOTIF_CODE_MESSAGE_HEADER_ERR Gen.NOTIF_SUBCODE_BAD_MESSAGE_LEN b

/-- `(*capabilityOptionalParam).encode` (`packet.go:507`); `none` = the Go function returns
an error -/
def encodeCapsParam (cs : List Cap) : Option Bytes :=
  if cs.length > 0 then
    if cs.any (fun c => c.value.length > 255) then none
    else
      let caps := (cs.map encodeCap).flatten
      if caps.length > 255 then none
      else some ([Gen.capabilityOptionalParamType, len8 caps.length] ++ caps)
  else none

/-- parameter loop of `(*openMessage).encode` -/
def encodeParams : List (List Cap) → Option Bytes
  | [] => some []
  | p :: ps =>
    match encodeCapsParam p with
    | none => none
    | some pb =>
      match encodeParams ps with
      | none => none
      | some rest => some (pb ++ rest)

/-- body part of `(*openMessage).encode` (`packet.go:400`) -/
def encodeOpenBody (o : OpenMsg) : Option Bytes :=
  match encodeParams o.params with
  | none => none
  | some params =>
    if params.length > 255 then none else
    some ([o.version] ++ be16Bytes o.asn ++ be16Bytes o.holdTime ++ be32Bytes o.bgpID
          ++ [len8 params.length] ++ params)

def encodeOpen (o : OpenMsg) : Option Bytes :=
  (encodeOpenBody o).map fun b => prependHeader b (UInt8.ofNat Gen.openMessageType)

/-- `newFourOctetASCap` -/
def fourOctetASCap (asn : UInt32) : Cap := ⟨Gen.CAP_FOUR_OCTET_AS, be32Bytes asn⟩

/-- `newOpenMessage` (`packet.go:432`); `holdSeconds` is
`uint16(holdTime.Truncate(time.Second).Seconds())` computed by the caller -/
def newOpenMessage (asn : UInt32) (holdSeconds : UInt16) (bgpID : UInt32) (caps : List Cap) : OpenMsg :=
  { version := 4
    asn := if asn.toNat > 65535 then Gen.asTrans else UInt16.ofNat asn.toNat
    holdTime := holdSeconds
    bgpID := bgpID
    params := [fourOctetASCap asn :: caps.filter (fun c => c.code != Gen.CAP_FOUR_OCTET_AS)] }

/-- loop over capabilities in `validate` (`packet.go:286`): returns the first fault, else
whether a four-octet-AS capability was found -/
def validateCaps (remoteAS : UInt32) : List Cap → Bool → Except Notif Bool
  | [], found => .ok found
  | c :: cs, found =>
    if c.code = Gen.CAP_FOUR_OCTET_AS then
      match c.value with
      | [a, b, cc, d] =>
        if be32 a b cc d ≠ remoteAS then
          .error ⟨Gen.NOTIF_CODE_OPEN_MESSAGE_ERR, Gen.NOTIF_SUBCODE_BAD_PEER_AS, []⟩
        else validateCaps remoteAS cs true
      | _ => .error ⟨Gen.NOTIF_CODE_OPEN_MESSAGE_ERR, 0, []⟩
    else validateCaps remoteAS cs found

/-- `netip.AddrFrom4(id).IsMulticast()`: top nibble `0xE` -/
def isMulticast4 (id : UInt32) : Bool := id.toNat / 268435456 = 14

/-- `(*openMessage).validate` (`packet.go:250`); `none` = nil error -/
def validateOpen (o : OpenMsg) (localID localAS remoteAS : UInt32) : Option Notif :=
  if o.version ≠ 4 then
    some ⟨Gen.NOTIF_CODE_OPEN_MESSAGE_ERR, Gen.NOTIF_SUBCODE_UNSUPPORTED_VERSION_NUM, be16Bytes 4⟩
  else
    let fourOctetAS := o.asn = Gen.asTrans
    if !fourOctetAS && o.asn.toUInt32 ≠ remoteAS then
      some ⟨Gen.NOTIF_CODE_OPEN_MESSAGE_ERR, Gen.NOTIF_SUBCODE_BAD_PEER_AS, []⟩
    else if o.holdTime < 3 && o.holdTime ≠ 0 then
      some ⟨Gen.NOTIF_CODE_OPEN_MESSAGE_ERR, Gen.NOTIF_SUBCODE_UNACCEPTABLE_HOLD_TIME, []⟩
    else if isMulticast4 o.bgpID then
      some ⟨Gen.NOTIF_CODE_OPEN_MESSAGE_ERR, Gen.NOTIF_SUBCODE_BAD_BGP_ID, []⟩
    else if localAS = remoteAS && localID = o.bgpID then
      some ⟨Gen.NOTIF_CODE_OPEN_MESSAGE_ERR, Gen.NOTIF_SUBCODE_BAD_BGP_ID, []⟩
    else
      match validateCaps remoteAS (openCaps o) false with
      | .error n => some n
      | .ok found =>
        if fourOctetAS && !found then
          some ⟨Gen.NOTIF_CODE_OPEN_MESSAGE_ERR, Gen.NOTIF_SUBCODE_BAD_PEER_AS, []⟩
        else if !found then
          some ⟨Gen.NOTIF_CODE_OPEN_MESSAGE_ERR, Gen.NOTIF_SUBCODE_UNSUPPORTED_CAPABILITY,
                encodeCap (fourOctetASCap remoteAS)⟩
        else none

/-! ## add-path and multiprotocol capability helpers -/


/-- `(*AddPathTuple).Decode` on exactly the first four bytes -/
def decodeAddPath4 (a b c d : UInt8) : Option AddPathTuple :=
  if d = 3 then some ⟨be16 a b, c, true, true⟩
  else if d = 2 then some ⟨be16 a b, c, true, false⟩
  else if d = 1 then some ⟨be16 a b, c, false, true⟩
  else none

def openErr0 {α} : PRes α := .err (.notif ⟨Gen.NOTIF_CODE_OPEN_MESSAGE_ERR, 0, []⟩ false)

/-- loop of `DecodeAddPathTuples` (`packet.go:86`) -/
def decodeAddPathLoop : Bytes → List AddPathTuple → PRes (List AddPathTuple)
  | [], acc => .ok acc
  | a :: b :: c :: d :: rest, acc =>
    match decodeAddPath4 a b c d with
    | some t => decodeAddPathLoop rest (acc ++ [t])
    | none => openErr0
  | _, _ => openErr0     -- `a.Decode` on fewer than four bytes

/-- `DecodeAddPathTuples` (`packet.go:79`). The error is a bare `*Notification` (not a
`notificationError`); `out` is reported as `false` and not compared. -/
def decodeAddPathTuples (b : Bytes) : PRes (List AddPathTuple) :=
  if b.length = 0 || b.length % 4 ≠ 0 then openErr0 else decodeAddPathLoop b []

/-- `(*AddPathTuple).Encode` -/
def encodeAddPathTuple (t : AddPathTuple) : Bytes :=
  be16Bytes t.afi ++ [t.safi, if t.tx && t.rx then 3 else if t.tx then 2 else if t.rx then 1 else 0]

/-- `NewAddPathCapability` -/
def newAddPathCapability (ts : List AddPathTuple) : Cap :=
  ⟨Gen.CAP_ADD_PATH, (ts.map encodeAddPathTuple).flatten⟩

/-- `NewMPExtensionsCapability` -/
def newMPExtensionsCapability (afi : UInt16) (safi : UInt8) : Cap :=
  ⟨Gen.CAP_MP_EXTENSIONS, be16Bytes afi ++ [0, safi]⟩

end CoreBGP.Model
