import CoreBGP.Model.Session
import CoreBGP.Spec.Session
/-!
# L2 model: the peer manager (`peer.go`) and the two FSM goroutines (`fsm.run`, `fsm.go`) as a
labelled transition system

State = control location of each goroutine + the finite data each owns + channel status + a
bounded abstraction of what the remote has written on each connection (`inq`, message classes).
A step is an internal step of one goroutine, a rendezvous on an unbuffered channel, a receive on
a closed channel, or an environment step (the remote writes, an API call). The manager's nested
handling of a transition is a continuation list of instructions, one blocking point each
(DESIGN appendix A). Labels are what the live engine can observe (logger lines, callbacks, API).
-/
namespace CoreBGP.Model
open CoreBGP

inductive Dir where
  | out | inn
deriving DecidableEq, Repr, Inhabited, Hashable

def Dir.other : Dir → Dir | .out => .inn | .inn => .out

structure Trans where
  frm : St
  to : St
deriving DecidableEq, Repr, Inhabited, Hashable

/-- class of the error a state function returned (what `handleError` distinguishes) -/
inductive EK where
  | cease      -- a `notificationError` with code Cease (sent or received): no damping
  | damp       -- a `notificationError` with any other code: damping
  | io         -- not a `notificationError`
deriving DecidableEq, Repr, Inhabited, Hashable

/-- class of a message the remote wrote (computed from the bytes by the L0/L1 models) -/
inductive MsgC where
  | openOk       -- an acceptable OPEN the plugin consents to
  | openBad      -- an OPEN that is refused (or vetoed) with a NOTIFICATION: damping
  | ka | upd
  | updVeto      -- an UPDATE whose handler returns a NOTIFICATION
  | notifCease | notifOther
  | garbage      -- a header / framing fault: NOTIFICATION sent, damping
  | eof          -- the remote closed / reset the connection (or an undecodable NOTIFICATION)
deriving DecidableEq, Repr, Inhabited, Hashable

/-- control location of `fsm.run` -/
inductive FPc where
  | absent
  | req (t : Trans)                   -- offering `t` on `transitionCh` (or `closeCh`)
  | wait (t : Trans)                  -- request taken; waiting for the echo (or `closeCh`)
  | run (s : St)                      -- inside the state function of `s`
  | errSend (s d : St) (k : EK)       -- offering the error on `errorCh` (or `closeCh`)
  | done                              -- `run` returned: cleanup done, `doneCh` closed
deriving DecidableEq, Repr, Inhabited, Hashable

structure F where
  pc : FPc := .absent
  closed : Bool := false              -- `closeCh` is closed
  conn : Bool := false                -- holds an open connection (`f.conn != nil`)
  dialing : Bool := false             -- a dial result is outstanding (`cancelDialFn != nil`, result not consumed)
  inEst : Bool := false               -- between `OnEstablished` entered and `OnClose` returned
  veto : Bool := false                -- the handler just returned a NOTIFICATION: teardown is the next step
  inq : List MsgC := []               -- classes the remote wrote on the held connection, not yet consumed
deriving DecidableEq, Repr, Inhabited, Hashable

/-- one blocking point of the manager each -/
inductive Instr where
  | logT (i : Dir) (f t : St)
  | logErr (i : Dir)
  | handle (i : Dir) (t : Trans)        -- `handleStateTransition(i, t)`: expanded by `expandHandle`
  | sendT (i : Dir) (t : Trans)         -- `sendTransitionToFSM`
  | disableLog (i : Dir)                -- `disableFSM` entry: log if the slot is occupied
  | disable (i : Dir)                   -- `fsm.stop()`: close `closeCh`, wait for `doneCh`, clear the slot
  | enable (i : Dir) (withConn : Bool)  -- `enableFSM`
  | collSel (i : Dir) (t : Trans)       -- the collision `select` (`peer.go:164`)
  | damp                                -- `updateStartupDelay`; `inHoldDown = true`
  | finish                              -- deferred part of `peer.run`: `close(doneCh)`
deriving DecidableEq, Repr, Inhabited, Hashable

/-- observable labels -/
inductive Label where
  | tau
  | logT (i : Dir) (f t : St)
  | logErr (i : Dir)
  | logDamp | logUndamp
  | onEstablished (i : Dir) | onClose (i : Dir) | handler (i : Dir)
  | apiStop                              -- `peer.stop()` called (Close / DeletePeer)
  | stopped                              -- `peer.stop()` returned
  | rsend (i : Dir) (m : MsgC)           -- the remote wrote a message of this class on that connection
  | inConn (admitted : Bool)             -- an inbound connection reached the manager
  | dial                                 -- an outbound connection attempt was started
deriving DecidableEq, Repr, Inhabited, Hashable

structure PState where
  fo : F := {}
  fi : F := {}
  todo : List Instr := []                -- [] = the manager is at its main `select`
  presentO : Bool := false               -- `p.fsms[out] != nil`
  presentI : Bool := false
  stO : St := .disabled                  -- `p.fsmState[out]`
  stI : St := .disabled
  holdDown : Bool := false
  timerArmed : Bool := false             -- `startupDelayTimer` armed
  pclosed : Bool := false                -- `p.closeCh` closed
  pdone : Bool := false                  -- `p.doneCh` closed
  dominant : Bool := true                -- configuration: local speaker dominates (id, then AS)
  passive : Bool := false
  hist : Option Spec.HState := some .idle  -- ghost: state of the plugin-history monitor (none = error sink)
  leaked : Bool := false                 -- ghost: a dialled connection was dropped without being closed
deriving DecidableEq, Repr, Inhabited, Hashable

def PState.f (s : PState) : Dir → F | .out => s.fo | .inn => s.fi
def PState.setF (s : PState) (i : Dir) (x : F) : PState :=
  match i with | .out => { s with fo := x } | .inn => { s with fi := x }
def PState.present (s : PState) : Dir → Bool | .out => s.presentO | .inn => s.presentI
def PState.setPresent (s : PState) (i : Dir) (b : Bool) : PState :=
  match i with | .out => { s with presentO := b } | .inn => { s with presentI := b }
def PState.st (s : PState) : Dir → St | .out => s.stO | .inn => s.stI
def PState.setSt (s : PState) (i : Dir) (x : St) : PState :=
  match i with | .out => { s with stO := x } | .inn => { s with stI := x }

def PState.cb (s : PState) (e : Spec.CbEv) : PState := { s with hist := s.hist.bind (Spec.hstep · e) }

/-- the `switch` of `handleStateTransition` (`peer.go:128`), including the collision rule -/
def expandHandle (s : PState) (i : Dir) (t : Trans) : List Instr :=
  if t.to = .established then [.disableLog i.other, .sendT i t]
  else if i = .inn ∧ t.to.rank < t.frm.rank then [.disableLog i, .enable .out false]
  else if t.to = .openConfirm then
    match s.st i.other with
    | .established => [.disableLog i]
    | .openConfirm =>
      if (s.dominant ∧ i = .out) ∨ (¬ s.dominant ∧ i = .inn) then [.collSel i t] else [.disableLog i]
    | _ => [.sendT i t]
  else [.sendT i t]

def FPc.listensClose : FPc → Bool
  | .req _ | .wait _ | .errSend _ _ _ | .run _ => true
  | _ => false

/-- teardown of an FSM's connection (`cleanupConnAndReader`) -/
def F.dropConn (x : F) : F := { x with conn := false, inq := [] }

/-- F takes a `closeCh` branch (channel closed, or the collision kill value) -/
def fOnClose (i : Dir) (x : F) : List (Label × F) :=
  match x.pc with
  | .req _ | .wait _ =>
    -- `run`: Cease if it holds a connection beyond Active (`fsm.go:140`), then return → cleanup → done
    [(.tau, { x.dropConn with pc := .done, dialing := false })]
  | .errSend s _ _ => [(.tau, { x with pc := .req ⟨s, .disabled⟩ })]
  | .run s =>
    match s with
    | .idle | .active => [(.tau, { x with pc := .req ⟨s, .disabled⟩ })]
    | .connect => [(.tau, { x with pc := .req ⟨s, .disabled⟩, dialing := false })]   -- dial cancelled, result drained, a completed connection closed
    | .openSent | .openConfirm => [(.tau, { x.dropConn with pc := .errSend s .disabled .cease })]
    | .established =>
      if x.inEst then [(.onClose i, { x.dropConn with pc := .errSend s .disabled .cease, inEst := false, veto := false })]
      else []      -- `OnEstablished` is entered first (it precedes the loop)
    | .disabled => []
  | _ => []

/-- error class of a terminating input class -/
def MsgC.errClass : MsgC → EK
  | .notifCease => .cease
  | .eof => .io
  | _ => .damp

/-- outcomes of a state function (environment nondeterminism: timers, dial results, write failures) -/
def runOutcomes (i : Dir) (x : F) (s : St) : List (Label × F) :=
  let drop := { x with inq := x.inq.tail }
  let fail (st d : St) (k : EK) : F := { drop.dropConn with pc := .errSend st d k }
  match s with
  | .idle => [(.dial, { x with pc := .req ⟨.idle, .connect⟩, dialing := true })]
  | .connect =>
    [ (.tau, { x with pc := .req ⟨.connect, .openSent⟩, conn := true, dialing := false }),   -- dial ok, OPEN written
      (.tau, { x with pc := .req ⟨.connect, .idle⟩, dialing := false }),                       -- dial failed / OPEN write failed
      (.dial, { x with dialing := true }) ]                                                      -- connect-retry: cancel, drain, redial
  | .active =>
    if x.conn then
      [ (.tau, { x with pc := .req ⟨.active, .openSent⟩ }), (.tau, { x.dropConn with pc := .req ⟨.active, .idle⟩ }) ]
    else if i = .out then [(.dial, { x with pc := .req ⟨.active, .connect⟩, dialing := true })] else []
  | .openSent =>
    [(.tau, fail .openSent .idle .damp)] ++           -- hold timer (4 min) expired
    (match x.inq.head? with
     | some .openOk => [(.tau, { drop with pc := .req ⟨.openSent, .openConfirm⟩ }), (.tau, fail .openSent .idle .io)]
     | some .eof => [(.tau, fail .openSent .active .io)]
     | some m => [(.tau, fail .openSent .idle m.errClass)]
     | none => [])
  | .openConfirm =>
    [(.tau, fail .openConfirm .idle .damp), (.tau, fail .openConfirm .idle .io)] ++   -- hold timer; keepalive write failed
    (match x.inq.head? with
     | some .ka => [(.tau, { drop with pc := .req ⟨.openConfirm, .established⟩ })]
     | some m => [(.tau, fail .openConfirm .idle m.errClass)]
     | none => [])
  | .established =>
    if !x.inEst then [(.onEstablished i, { x with inEst := true })]
    else
      let down (k : EK) : F := { (fail .established .idle k) with inEst := false, veto := false }
      if x.veto then [(.onClose i, { ({ x.dropConn with pc := .errSend .established .idle .damp }) with inEst := false, veto := false })]
      else
      [(.onClose i, down .damp), (.onClose i, down .io)] ++       -- hold timer; keepalive write failed
      (match x.inq.head? with
       | some .ka => [(.tau, drop)]
       | some .upd => [(.handler i, drop)]
       | some .updVeto => [(.handler i, { drop with veto := true })]  -- the NOTIFICATION is sent and the session torn down next
       | some m => [(.onClose i, down m.errClass)]
       | none => [])
  | .disabled => []

/-- the manager at its main `select` (`peer.go:256`) -/
def pMain (s : PState) : List (Label × PState) :=
  if s.pdone then [] else
  (if s.pclosed then [(.tau, { s with todo := [.disableLog .out, .disableLog .inn, .finish] })] else []) ++
  ([Dir.out, Dir.inn].flatMap fun i =>
    match (s.f i).pc with
    | .req t => [(.tau, { s with todo := [.handle i t] }.setF i { s.f i with pc := .wait t })]
    | .errSend st d k =>
      let s' := s.setF i { s.f i with pc := .req ⟨st, d⟩ }
      [(.tau, { s' with todo := .logErr i :: (if k = .damp then [.disableLog .inn, .disableLog .out, .damp] else []) })]
    | _ => []) ++
  (if s.timerArmed then
    [(.logUndamp, { s with todo := [.enable .out false], holdDown := false, timerArmed := false })] else []) ++
  -- `inConnCh`: an inbound connection handed over by the server
  (if s.holdDown || s.presentI || s.stO = .established then [(.inConn false, s)]
   else [(.inConn true, { s with todo := [.enable .inn true] })])

def pInstr (s : PState) (ins : Instr) (rest : List Instr) : List (Label × PState) :=
  match ins with
  | .logT i f t => [(.logT i f t, { s with todo := rest })]
  | .logErr i => [(.logErr i, { s with todo := rest })]
  | .handle i t => [(.tau, { s with todo := expandHandle s i t ++ rest })]
  | .sendT i t =>
    (match (s.f i).pc with
     | .wait _ => [(.tau, ({ s with todo := .logT i t.frm t.to :: rest }.setSt i t.to).setF i
                     { s.f i with pc := if t.to = St.disabled then FPc.done else FPc.run t.to })]
     | _ => []) ++
    (if s.pclosed then [(.tau, { s with todo := rest })] else [])
  | .disableLog i =>
    if !s.present i then [(.tau, { s with todo := rest })]
    else [(.logT i (s.st i) .disabled, { s with todo := .disable i :: rest })]
  | .disable i =>
    (if !(s.f i).closed then [(.tau, s.setF i { s.f i with closed := true })] else []) ++
    (if (s.f i).pc = .done then
      [(.tau, (({ s with todo := rest }.setPresent i false).setSt i .disabled).setF i {})] else [])
  | .enable i withConn =>
    if (i = .out ∧ s.passive) ∨ s.present i then [(.tau, { s with todo := rest })]
    else [(.tau, (({ s with todo := rest }.setPresent i true).setSt i .disabled).setF i
            { pc := .req ⟨.disabled, if withConn then .active else .idle⟩, conn := withConn })]
  | .collSel i t =>
    let o := s.f i.other
    (if s.pclosed then [(.tau, { s with todo := rest })] else []) ++
    -- the kill value is received by the other FSM at any location that listens on `closeCh`
    (if o.pc.listensClose && !o.closed then
      (fOnClose i.other o).map fun (l, o') =>
        (l, { s with todo := .disableLog i.other :: .sendT i t :: rest }.setF i.other o')
     else []) ++
    (match o.pc with
     | .req ot =>
       let cont := if ot.to = .established then [Instr.disableLog i, .handle i.other ot]
                   else [Instr.sendT i t, .handle i.other ot]
       [(.tau, { s with todo := cont ++ rest }.setF i.other { o with pc := .wait ot })]
     | _ => [])
  | .damp => [(.logDamp, { s with todo := rest, holdDown := true, timerArmed := true })]
  | .finish => [(.stopped, { s with todo := rest, pdone := true, timerArmed := false })]

def applyCb (l : Label) (s : PState) : PState :=
  match l with
  | .onEstablished _ => (s.cb .estEnter).cb .estExit
  | .onClose _ => (s.cb .closeEnter).cb .closeExit
  | .handler _ => (s.cb .hEnter).cb .hExit
  | _ => s

def fSteps (s : PState) (i : Dir) : List (Label × PState) :=
  let x := s.f i
  ((if x.closed && x.pc.listensClose then fOnClose i x else []) ++
   (match x.pc with
    | .run st => runOutcomes i x st
    | _ => [])).map fun (l, y) => (l, applyCb l (s.setF i y))

def rsendSteps (s : PState) : List (Label × PState) :=
  [Dir.out, Dir.inn].flatMap fun i =>
    [MsgC.openOk, .openBad, .ka, .upd, .updVeto, .notifCease, .notifOther, .garbage, .eof].flatMap fun m =>
      let x := s.f i
      (if x.conn && x.inq.length < 3 then [(Label.rsend i m, s.setF i { x with inq := x.inq ++ [m] })] else []) ++
      -- … or it lands on a connection corebgp no longer (or not yet) reads: no effect
      [(Label.rsend i m, s)]

def next (s : PState) : List (Label × PState) :=
  (match s.todo with
   | [] => pMain s
   | ins :: rest => pInstr s ins rest) ++
  fSteps s .out ++ fSteps s .inn ++
  (if !s.pclosed then [(.apiStop, { s with pclosed := true })] else []) ++
  rsendSteps s

/-- the variant the trace checker follows: a large bound on the pending-input abstraction (a fast
remote can have many messages in flight; the bound of `next` only exists to keep the state space
finite), and a message written on a connection the FSM holds is always enqueued (the "lands nowhere"
alternative of `rsendSteps` is kept only for connections corebgp does not hold) — otherwise the set of
compatible states would double with every message -/
def rsendStepsB (bound : Nat) (s : PState) : List (Label × PState) :=
  [Dir.out, Dir.inn].flatMap fun i =>
    [MsgC.openOk, .openBad, .ka, .upd, .updVeto, .notifCease, .notifOther, .garbage, .eof].flatMap fun m =>
      let x := s.f i
      if x.conn && x.inq.length < bound then [(Label.rsend i m, s.setF i { x with inq := x.inq ++ [m] })]
      else [(Label.rsend i m, s)]

def nextB (bound : Nat) (s : PState) : List (Label × PState) :=
  (match s.todo with
   | [] => pMain s
   | ins :: rest => pInstr s ins rest) ++
  fSteps s .out ++ fSteps s .inn ++
  (if !s.pclosed then [(.apiStop, { s with pclosed := true })] else []) ++
  rsendStepsB bound s

/-- `peer.start()`: `enableFSM(out)` then the manager runs -/
def pInit (dominant passive : Bool) : PState :=
  if passive then { dominant, passive }
  else { fo := { pc := .req ⟨.disabled, .idle⟩ }, presentO := true, dominant, passive }

/-- reachability -/
inductive PReach (dominant passive : Bool) : PState → Prop where
  | init : PReach dominant passive (pInit dominant passive)
  | step {s s' : PState} {l : Label} : PReach dominant passive s → (l, s') ∈ next s → PReach dominant passive s'

end CoreBGP.Model
