import CoreBGP.Model.Session
/-!
# L1 timed: the hold timer and the keepalive timer of one session (`fsm.go`)

Time is `now : Nat` in ns; a timer is `Option Nat`: `none` = stopped (never fires), `some d` = armed
with deadline `d`; a timer event is enabled only when `now ≥ d` ("fires no earlier than its
duration after the last (re)arming", trusted base). Ghost fields record when something was last
received / sent. Only what the C06 statements need is kept: message contents are abstracted to
"a KEEPALIVE / UPDATE arrived", "the OPEN with this hold time was accepted".
-/
namespace CoreBGP.Model
open CoreBGP

def secNs : Nat := 1000000000

structure TSess where
  phase : Phase
  now : Nat
  localHold : Nat            -- configured, seconds
  hold : Nat := 0            -- negotiated, seconds (meaningful from OpenConfirm on)
  holdDl : Option Nat        -- hold timer
  kaDl : Option Nat := none  -- keepalive timer
  lastRecv : Nat := 0        -- ghost: when the last OPEN / KEEPALIVE / UPDATE was taken from the reader
  lastSent : Nat := 0        -- ghost: when the last KEEPALIVE / UPDATE was sent
deriving Repr, DecidableEq, Inhabited

/-- entering OpenSent (`sendOpenAndSetHoldTimer`): the large hold timer is armed -/
def tInit (localHold now : Nat) : TSess :=
  { phase := .openSent, now := now, localHold := localHold, holdDl := some (now + Gen.longHoldTime) }

inductive TEv where
  | tick (dt : Nat)             -- time passes
  | openAccepted (remoteHold : Nat)   -- an acceptable OPEN was received, the plugin consented (OpenSent)
  | keepalive                   -- a KEEPALIVE was taken from the reader
  | update                      -- an UPDATE was taken from the reader (handler returned nil)
  | holdFire                    -- `<-f.holdTimer.C`
  | kaFire                      -- `<-f.keepAliveTimer.C`
  | writeUpdate                 -- a `WriteUpdate` completed (Established)
deriving Repr, DecidableEq, Inhabited

inductive TOut where
  | none_
  | sentKeepalive
  | sentUpdate
  | expired                     -- NOTIFICATION (Hold Timer Expired) sent, connection closed, → Idle
deriving Repr, DecidableEq, Inhabited

def fired (dl : Option Nat) (now : Nat) : Bool :=
  match dl with
  | some d => now ≥ d
  | none => false

/-- keepalive interval: `f.holdTime / 3` on `time.Duration` (ns) -/
def kaInterval (hold : Nat) : Nat := hold * secNs / 3

/-- one step; `none` = the event is not enabled in this state -/
def tstep (s : TSess) : TEv → Option (TSess × TOut)
  | .tick dt => some ({ s with now := s.now + dt }, .none_)
  | .openAccepted remoteHold =>
    if s.phase ≠ .openSent then none else
    let hold := if s.localHold < remoteHold then s.localHold else remoteHold
    -- the handshake KEEPALIVE is sent here
    if hold ≠ 0 then
      some ({ s with phase := .openConfirm, hold := hold, kaDl := some (s.now + kaInterval hold),
                     holdDl := some (s.now + hold * secNs), lastRecv := s.now, lastSent := s.now }, .sentKeepalive)
    else
      some ({ s with phase := .openConfirm, hold := 0, kaDl := none, holdDl := none,
                     lastRecv := s.now, lastSent := s.now }, .sentKeepalive)
  | .keepalive =>
    match s.phase with
    | .openConfirm =>
      some ({ s with phase := .established, lastRecv := s.now,
                     holdDl := if s.hold ≠ 0 then some (s.now + s.hold * secNs) else s.holdDl }, .none_)
    | .established =>
      some ({ s with lastRecv := s.now,
                     holdDl := if s.hold ≠ 0 then some (s.now + s.hold * secNs) else s.holdDl }, .none_)
    | _ => none
  | .update =>
    if s.phase ≠ .established then none else
    some ({ s with lastRecv := s.now,
                   holdDl := if s.hold ≠ 0 then some (s.now + s.hold * secNs) else s.holdDl }, .none_)
  | .holdFire =>
    if s.phase = .closed || !fired s.holdDl s.now then none
    else some ({ s with phase := .closed, holdDl := none, kaDl := none }, .expired)
  | .kaFire =>
    if !(s.phase = .openConfirm || s.phase = .established) || !fired s.kaDl s.now then none
    else some ({ s with kaDl := some (s.now + kaInterval s.hold), lastSent := s.now }, .sentKeepalive)
  | .writeUpdate =>
    if s.phase ≠ .established then none else
    some ({ s with lastSent := s.now,
                   kaDl := if s.hold ≠ 0 then some (s.now + kaInterval s.hold) else s.kaDl }, .sentUpdate)

/-- run a sequence of events, skipping those that are not enabled; the outputs with their times -/
def trun : TSess → List TEv → TSess × List (Nat × TOut)
  | s, [] => (s, [])
  | s, e :: es =>
    match tstep s e with
    | none => trun s es
    | some (s', o) =>
      let (sf, outs) := trun s' es
      (sf, (s'.now, o) :: outs)

/-- the states reachable from the start of OpenSent -/
inductive TReach (localHold t0 : Nat) : TSess → Prop where
  | init : TReach localHold t0 (tInit localHold t0)
  | step {s s' : TSess} {e : TEv} {o : TOut} : TReach localHold t0 s → tstep s e = some (s', o) → TReach localHold t0 s'

end CoreBGP.Model
