import CoreBGP.Model.Go
/-! Plain data carriers shared by the model and the specifications (no behaviour). -/
namespace CoreBGP

/-- `Notification` -/
structure Notif where
  code : UInt8
  sub : UInt8
  data : Bytes
deriving Repr, DecidableEq, Inhabited

/-- `Capability` -/
structure Cap where
  code : UInt8
  value : Bytes
deriving Repr, DecidableEq, Inhabited

/-- `openMessage`; `params` is the list of capability parameters in wire order -/
structure OpenMsg where
  version : UInt8
  asn : UInt16
  holdTime : UInt16
  bgpID : UInt32
  params : List (List Cap)
deriving Repr, DecidableEq, Inhabited

/-- `AddPathTuple` -/
structure AddPathTuple where
  afi : UInt16
  safi : UInt8
  tx : Bool
  rx : Bool
deriving Repr, DecidableEq, Inhabited

end CoreBGP
