import CoreBGP.Model.Go
/-! Plain data carriers shared by the model and the specifications (no behaviour). -/
namespace CoreBGP

/-- `Notification` -/
structure Notif where
  code : UInt8
  sub : UInt8
  data : Bytes
deriving Repr, DecidableEq, Inhabited

/-- `Capability` -/
structure Cap where
  code : UInt8
  value : Bytes
deriving Repr, DecidableEq, Inhabited

/-- `openMessage`; `params` is the list of capability parameters in wire order -/
structure OpenMsg where
  version : UInt8
  asn : UInt16
  holdTime : UInt16
  bgpID : UInt32
  params : List (List Cap)
deriving Repr, DecidableEq, Inhabited

/-- `AddPathTuple` -/
structure AddPathTuple where
  afi : UInt16
  safi : UInt8
  tx : Bool
  rx : Bool
deriving Repr, DecidableEq, Inhabited

/-- what `netip.Addr` methods can tell: `IsValid`, `Is4`, `Is6` -/
inductive AddrKind where
  | invalid | v4 | v6
deriving Repr, DecidableEq, Inhabited

/-- an address: its kind and an identity (the string form used as map key) -/
structure Addr where
  kind : AddrKind
  id : Nat
deriving Repr, DecidableEq, Inhabited

def Addr.isValid (a : Addr) : Bool := a.kind ≠ .invalid
def Addr.is4 (a : Addr) : Bool := a.kind = .v4
def Addr.is6 (a : Addr) : Bool := a.kind = .v6

/-- `PeerConfig` + the `peerOptions` that matter here -/
structure PeerCfg where
  remote : Addr
  localAS : UInt32
  remoteAS : UInt32
  localAddr : Addr := ⟨.invalid, 0⟩     -- `WithLocalAddress`; invalid = not configured
  holdNs : Int := 90000000000          -- `time.Duration`
  port : Int := 179
  passive : Bool := false
deriving Repr, DecidableEq, Inhabited

inductive ApiErr where
  | invalidOptions | invalidConfig | alreadyExists | notExist | serverClosed
deriving Repr, DecidableEq, Inhabited

end CoreBGP
