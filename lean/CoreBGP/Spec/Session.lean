import CoreBGP.Types
import CoreBGP.Spec.Wire
/-!
# Specification of per-connection behaviour (properties C01, C03, C06, C09): RFC 4271 §8.2.2,
RFC 6608, DESIGN appendix E.3 and E.6. No model or `Gen` imports.
-/
namespace CoreBGP.Spec
open CoreBGP

inductive SState where
  | openSent | openConfirm | established
deriving Repr, DecidableEq, Inhabited

/-- what a state must do with a received message of a given type (1 OPEN, 2 UPDATE,
3 NOTIFICATION, 4 KEEPALIVE) -/
inductive Reaction where
  | progress                       -- legal progress (OPEN in OpenSent is subject to E.2)
  | fsmError (sub : Nat)           -- NOTIFICATION (5, sub, [type octet]) then close
  | closeSilently                  -- close without sending a NOTIFICATION
deriving Repr, DecidableEq, Inhabited

/-- E.3 -/
def fsmReaction (s : SState) (msgType : Nat) : Reaction :=
  if msgType = 3 then .closeSilently
  else
    match s with
    | .openSent => if msgType = 1 then .progress else .fsmError 1
    | .openConfirm => if msgType = 4 then .progress else .fsmError 2
    | .established => if msgType = 4 ∨ msgType = 2 then .progress else .fsmError 3

/-! ## E.6 plugin history -/

inductive CbEv where
  | estEnter | estExit | hEnter | hExit | closeEnter | closeExit
deriving Repr, DecidableEq, Inhabited

/-- monitor automaton for prefixes of `(E⁺ E⁻ (H⁺ H⁻)* C⁺ C⁻)*`; `none` = error sink -/
inductive HState where
  | idle            -- no session: only E⁺ may come
  | inEst           -- inside OnEstablished
  | up              -- session up, no callback running
  | inHandler
  | inClose
deriving Repr, DecidableEq, Inhabited, Hashable

def hstep : HState → CbEv → Option HState
  | .idle, .estEnter => some .inEst
  | .inEst, .estExit => some .up
  | .up, .hEnter => some .inHandler
  | .inHandler, .hExit => some .up
  | .up, .closeEnter => some .inClose
  | .inClose, .closeExit => some .idle
  | _, _ => none

def hrun : HState → List CbEv → Option HState
  | s, [] => some s
  | s, e :: es => (hstep s e).bind (hrun · es)

/-- a per-peer callback history is well formed iff the monitor does not reach the sink -/
def WellFormedHistory (h : List CbEv) : Prop := (hrun .idle h).isSome
/-- … and complete (every OnEstablished matched by its OnClose) iff it ends in `idle` -/
def CompleteHistory (h : List CbEv) : Prop := hrun .idle h = some .idle

instance (h : List CbEv) : Decidable (WellFormedHistory h) := by unfold WellFormedHistory; infer_instance
instance (h : List CbEv) : Decidable (CompleteHistory h) := by unfold CompleteHistory; infer_instance

end CoreBGP.Spec
