import CoreBGP.Types
/-!
# Specification of the BGP wire formats used by the properties

Written from RFC 4271 §4.1/§4.2/§4.5/§6.1/§6.2, RFC 5492, RFC 6793, RFC 6286, RFC 7911, RFC 4760
and the property statements — not from the code. Literals are the RFCs' (Cease is `6`); nothing
here imports `CoreBGP.Gen` or `CoreBGP.Model.*` (only the byte helpers of `Model.Go`).
-/
namespace CoreBGP.Spec
open CoreBGP

def u16 (n : Nat) : Bytes := [UInt8.ofNat (n / 256), UInt8.ofNat (n % 256)]
def u32 (n : Nat) : Bytes :=
  [UInt8.ofNat (n / 16777216), UInt8.ofNat (n / 65536 % 256), UInt8.ofNat (n / 256 % 256), UInt8.ofNat (n % 256)]
def n16 (hi lo : UInt8) : Nat := hi.toNat * 256 + lo.toNat
def n32 (a b c d : UInt8) : Nat := a.toNat * 16777216 + b.toNat * 65536 + c.toNat * 256 + d.toNat

/-! ## Message header (RFC 4271 §4.1) -/

def marker : Bytes := List.replicate 16 (0xFF : UInt8)

/-- a whole message of type `t` with body `body` (meaningful when `19 + |body| ≤ 4096`) -/
def frame (t : UInt8) (body : Bytes) : Bytes := marker ++ u16 (19 + body.length) ++ [t] ++ body

/-- message types of RFC 4271 -/
def knownType (t : UInt8) : Bool := t = 1 || t = 2 || t = 3 || t = 4

inductive HeaderFault where
  | marker | length | type (t : UInt8)
deriving Repr, DecidableEq

/-- the marker and length faults present in a 19-byte header (E.1) -/
def headerFaults (h : Bytes) : List HeaderFault :=
  let len := n16 (h.getD 16 0) (h.getD 17 0)
  (if h.take 16 ≠ marker then [.marker] else []) ++
  (if len < 19 ∨ len > 4096 then [.length] else [])

/-- the NOTIFICATION (code, subcode) RFC 4271 §6.1 assigns to a header fault -/
def HeaderFault.notif : HeaderFault → Nat × Nat
  | .marker => (1, 1) | .length => (1, 2) | .type _ => (1, 3)

/-- outcome of reading a stream strictly: the whole messages `(type, body)` in order, then how
it ended -/
inductive StreamEnd where
  | clean                       -- the stream ended on a message boundary
  | truncated                   -- it ended inside a header or body
  | fault (fs : List HeaderFault)  -- a faulty header (all faults present in it)
deriving Repr, DecidableEq

/-- strict framing of a byte stream by the length field alone. A type fault is only meaningful
once the length is fine and the whole message has arrived (a stream that ends inside the body is
`truncated`: no NOTIFICATION is due). When several faults are present any of them may be named. -/
def frames : Nat → Bytes → List (UInt8 × Bytes) × StreamEnd
  | 0, _ => ([], .truncated)
  | fuel + 1, s =>
    if s.length = 0 then ([], .clean)
    else if s.length < 19 then ([], .truncated)
    else
      let h := s.take 19
      let len := n16 (h.getD 16 0) (h.getD 17 0)
      let t := h.getD 18 0
      let tyFault : List HeaderFault :=
        if 19 ≤ len ∧ len ≤ 4096 ∧ len ≤ s.length ∧ !knownType t then [.type t] else []
      match headerFaults h with
      | [] =>
        if s.length < len then ([], .truncated)
        else if !knownType t then ([], .fault tyFault)
        else
          let (ms, e) := frames fuel (s.drop len)
          ((t, (s.take len).drop 19) :: ms, e)
      | fs => ([], .fault (fs ++ tyFault))

def parseStream (s : Bytes) : List (UInt8 × Bytes) × StreamEnd := frames (s.length + 1) s

/-! ## NOTIFICATION (RFC 4271 §4.5) -/

def notifBody (n : Notif) : Bytes := [n.code, n.sub] ++ n.data

def parseNotif : Bytes → Option Notif
  | c :: s :: d => some ⟨c, s, d⟩
  | _ => none

/-! ## OPEN (RFC 4271 §4.2, RFC 5492) -/

/-- a sequence of `type(1) length(1) value(length)` records that exactly fills `b` -/
def tlvs : Nat → Bytes → Option (List (UInt8 × Bytes))
  | _, [] => some []
  | 0, _ => none
  | fuel + 1, t :: l :: rest =>
    if rest.length < l.toNat then none
    else (tlvs fuel (rest.drop l.toNat)).map ((t, rest.take l.toNat) :: ·)
  | _, _ => none

def parseTLVs (b : Bytes) : Option (List (UInt8 × Bytes)) := tlvs b.length b

/-- the value of a Capabilities parameter: a non-empty sequence of capabilities -/
def parseCaps (b : Bytes) : Option (List Cap) :=
  match parseTLVs b with
  | some (x :: xs) => some ((x :: xs).map fun (c, v) => ⟨c, v⟩)
  | _ => none

def parseParams : List (UInt8 × Bytes) → Option (List (List Cap))
  | [] => some []
  | (t, v) :: ps =>
    if t ≠ 2 then none else
    match parseCaps v, parseParams ps with
    | some cs, some rest => some (cs :: rest)
    | _, _ => none

/-- RFC 4271 §4.2 with RFC 5492: fixed fields, Opt Parm Len equal to what follows, a non-empty
list of Capabilities parameters each holding a non-empty list of capabilities, every length
octet consistent. (Non-emptiness is what the property calls a well-formed capabilities
parameter list; corebgp requires the 4-octet-AS capability anyway.) -/
def parseOpen : Bytes → Option OpenMsg
  | v :: a1 :: a2 :: h1 :: h2 :: i1 :: i2 :: i3 :: i4 :: opl :: rest =>
    if opl.toNat ≠ rest.length then none else
    match parseTLVs rest with
    | some (p :: ps) =>
      (parseParams (p :: ps)).map fun params =>
        ⟨v, UInt16.ofNat (n16 a1 a2), UInt16.ofNat (n16 h1 h2), UInt32.ofNat (n32 i1 i2 i3 i4), params⟩
    | _ => none
  | _ => none

def capWire (c : Cap) : Bytes := [c.code, UInt8.ofNat c.value.length] ++ c.value
def capsWire (cs : List Cap) : Bytes := (cs.map capWire).flatten
def paramWire (cs : List Cap) : Bytes := [2, UInt8.ofNat (capsWire cs).length] ++ capsWire cs
def paramsWire (ps : List (List Cap)) : Bytes := (ps.map paramWire).flatten

def openBody (o : OpenMsg) : Bytes :=
  [o.version] ++ u16 o.asn.toNat ++ u16 o.holdTime.toNat ++ u32 o.bgpID.toNat ++
    [UInt8.ofNat (paramsWire o.params).length] ++ paramsWire o.params

/-- an OPEN value that the wire format can carry: every length octet can hold its length and
nothing the grammar forbids (no empty parameter list, no empty parameter) -/
def Representable (o : OpenMsg) : Prop :=
  o.params ≠ [] ∧ (∀ p ∈ o.params, p ≠ [] ∧ (∀ c ∈ p, c.value.length ≤ 255) ∧ (capsWire p).length ≤ 255) ∧
  (paramsWire o.params).length ≤ 255

instance (o : OpenMsg) : Decidable (Representable o) := by unfold Representable; infer_instance

/-- structural faults present in an OPEN body, as (code, subcode) of the NOTIFICATION that
applies (DESIGN E.2, first four rows). Parameters are walked by their length octets; an unknown
parameter type does not stop the walk, an overrun does. -/
def walkParams : Nat → Bytes → List (Nat × Nat)
  | _, [] => []
  | 0, _ => [(2, 0)]
  | fuel + 1, t :: l :: rest =>
    if rest.length < l.toNat then [(2, 0)]
    else
      (if t ≠ 2 then [(2, 4)] else if (parseCaps (rest.take l.toNat)).isNone then [(2, 0)] else []) ++
      walkParams fuel (rest.drop l.toNat)
  | _, _ => [(2, 0)]

def openStructFaults : Bytes → List (Nat × Nat)
  | _ :: _ :: _ :: _ :: _ :: _ :: _ :: _ :: _ :: opl :: rest =>
    if opl.toNat ≠ rest.length then [(2, 0)]
    else if rest.length = 0 then [(2, 0)]
    else walkParams rest.length rest
  | _ => [(1, 2)]

/-! ## OPEN acceptance (RFC 4271 §6.2, RFC 6793, RFC 6286, property C02) -/

structure PeerCfg where
  localID : UInt32
  localAS : UInt32
  remoteAS : UInt32
deriving Repr, DecidableEq

def caps (o : OpenMsg) : List Cap := o.params.flatten

def fourOctetCaps (o : OpenMsg) : List Cap := (caps o).filter fun c => c.code = 65

def capAS (c : Cap) : Option Nat :=
  match c.value with
  | [a, b, cc, d] => some (n32 a b cc d)
  | _ => none

/-- semantic faults present in a structurally well-formed OPEN, each with the NOTIFICATION
(code, subcode, data) that applies (DESIGN E.2, remaining rows; `none` data = unconstrained) -/
def openSemFaults (o : OpenMsg) (cfg : PeerCfg) : List (Nat × Nat × Option Bytes) :=
  (if o.version ≠ 4 then [(2, 1, some [0, 4])] else []) ++
  (if (o.asn.toNat ≠ 23456 ∧ o.asn.toNat ≠ cfg.remoteAS.toNat) ∨
      (∃ c ∈ fourOctetCaps o, ∃ v, capAS c = some v ∧ v ≠ cfg.remoteAS.toNat) ∨
      (o.asn.toNat = 23456 ∧ fourOctetCaps o = []) then [(2, 2, none)] else []) ++
  (if o.holdTime.toNat = 1 ∨ o.holdTime.toNat = 2 then [(2, 6, none)] else []) ++
  (if o.bgpID.toNat / 16777216 / 16 = 14 ∨ (cfg.localAS = cfg.remoteAS ∧ o.bgpID = cfg.localID)
    then [(2, 3, none)] else []) ++
  (if ∃ c ∈ fourOctetCaps o, capAS c = none then [(2, 0, none)] else []) ++
  (if fourOctetCaps o = [] then [(2, 7, some ([65, 4] ++ u32 cfg.remoteAS.toNat))] else [])

/-- the OPEN is acceptable for this peer -/
def AcceptableOpen (o : OpenMsg) (cfg : PeerCfg) : Prop := openSemFaults o cfg = []

instance (o : OpenMsg) (cfg : PeerCfg) : Decidable (AcceptableOpen o cfg) := by
  unfold AcceptableOpen; infer_instance

/-- the notification names a fault that is present, with the data the property requires -/
def faultApplies (n : Notif) (fs : List (Nat × Nat × Option Bytes)) : Bool :=
  fs.any fun (c, s, d) => n.code.toNat = c && n.sub.toNat = s &&
    (match d with | some d => n.data = d | none => true)

/-- hold time in force (RFC 4271 §4.2): the smaller of the two proposals, in seconds -/
def negotiatedHold (localHold remoteHold : Nat) : Nat := min localHold remoteHold

/-! ## What the OPEN corebgp sends must look like (property C14) -/

structure LocalCfg where
  localAS : UInt32
  holdSeconds : UInt16
  routerID : UInt32
deriving Repr, DecidableEq

/-- the OPEN value that reflects configuration and plugin capabilities -/
def expectedOpen (cfg : LocalCfg) (pluginCaps : List Cap) : OpenMsg :=
  { version := 4
    asn := if cfg.localAS.toNat > 65535 then 23456 else UInt16.ofNat cfg.localAS.toNat
    holdTime := cfg.holdSeconds
    bgpID := cfg.routerID
    params := [⟨65, u32 cfg.localAS.toNat⟩ :: pluginCaps.filter fun c => c.code ≠ 65] }

/-! ## capability helpers (RFC 7911 §4, RFC 4760 §8) -/

/-- add-path tuple on the wire: AFI(2) SAFI(1) Send/Receive(1) with 1 = receive, 2 = send, 3 = both -/
def addPathWire (t : AddPathTuple) : Option Bytes :=
  match t.tx, t.rx with
  | true, true => some (u16 t.afi.toNat ++ [t.safi, 3])
  | true, false => some (u16 t.afi.toNat ++ [t.safi, 2])
  | false, true => some (u16 t.afi.toNat ++ [t.safi, 1])
  | false, false => none

def parseAddPath : Bytes → Option (List AddPathTuple)
  | [] => some []
  | a :: b :: c :: d :: rest =>
    if d = 1 ∨ d = 2 ∨ d = 3 then
      (parseAddPath rest).map (⟨UInt16.ofNat (n16 a b), c, d = 2 ∨ d = 3, d = 1 ∨ d = 3⟩ :: ·)
    else none
  | _ => none

/-- a non-empty list of tuples -/
def parseAddPathCap (b : Bytes) : Option (List AddPathTuple) :=
  if b = [] then none else parseAddPath b

/-- multiprotocol capability value: AFI(2) reserved(1)=0 SAFI(1) -/
def mpCapWire (afi : UInt16) (safi : UInt8) : Bytes := u16 afi.toNat ++ [0, safi]

end CoreBGP.Spec
