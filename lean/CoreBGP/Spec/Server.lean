import CoreBGP.Types
/-!
# Specification of the registry, configuration validation, admission and back-off
(properties C20, C13, C12; DESIGN appendix E.7, E.8). No model or `Gen` imports; durations in ns.
-/
namespace CoreBGP.Spec
open CoreBGP

/-- configurations that can yield a valid session (E.8) -/
def validConfig (c : PeerCfg) : Prop :=
  c.remote.kind ≠ .invalid ∧
  (c.localAddr.kind = .invalid ∨ c.localAddr.kind = c.remote.kind) ∧
  c.localAS ≠ 0 ∧ c.remoteAS ≠ 0 ∧
  (c.holdNs = 0 ∨ 3000000000 ≤ c.holdNs) ∧        -- hold time 0 or ≥ 3 s (`WithHoldTime` takes whole seconds: not 1 or 2)
  1 ≤ c.port ∧ c.port ≤ 65535

instance (c : PeerCfg) : Decidable (validConfig c) := by unfold validConfig; infer_instance

/-- the abstract registry: a partial map from remote address to configuration -/
abbrev Registry := Addr → Option PeerCfg

def Registry.empty : Registry := fun _ => none
def Registry.insert (r : Registry) (k : Addr) (c : PeerCfg) : Registry := fun x => if x = k then some c else r x
def Registry.erase (r : Registry) (k : Addr) : Registry := fun x => if x = k then none else r x

inductive AddResult where
  | ok | invalid | alreadyExists
deriving Repr, DecidableEq

/-- abstract `AddPeer`: invalid configurations are rejected with no effect; an existing key is
`ErrPeerAlreadyExists` with no effect -/
def Registry.add (r : Registry) (c : PeerCfg) : Registry × AddResult :=
  if ¬ validConfig c then (r, .invalid)
  else if (r c.remote).isSome then (r, .alreadyExists)
  else (r.insert c.remote c, .ok)

/-- abstract `DeletePeer`: `true` = deleted, `false` = `ErrPeerNotExist` -/
def Registry.delete (r : Registry) (k : Addr) : Registry × Bool :=
  if (r k).isSome then (r.erase k, true) else (r, false)

/-- an inbound connection (src, dst) may be handed to a peer iff a peer with remote = src exists and
its local address is unset or equals dst (E.8; the per-peer conditions — hold-down, inbound in
progress, outbound Established, stopping — are in the L2 model) -/
def admits (r : Registry) (src dst : Addr) : Option PeerCfg :=
  match r src with
  | some c => if c.localAddr.kind = .invalid ∨ c.localAddr = dst then some c else none
  | none => none

/-! ## back-off (E.7) -/

def sec : Nat := 1000000000

/-- delay after a damping error, given the previous delay and the gap since the previous such
error (`none` = first): 60 s at first, doubling up to 300 s, back to 60 s once 300 s pass without
one -/
def nextDelay (prev : Nat) (gap : Option Nat) : Nat :=
  match gap with
  | none => 60 * sec
  | some g => if g ≥ 300 * sec ∨ prev = 0 then 60 * sec else min (2 * prev) (300 * sec)

/-- a damping error is a NOTIFICATION sent or received with a code other than Cease (6) -/
def damps (notifCode : Option Nat) : Bool :=
  match notifCode with
  | some c => c ≠ 6
  | none => false

end CoreBGP.Spec
