/-!
# Linearizability of a recorded concurrent history against a sequential specification

Generic in the state `σ`, the operations `ο` and the results `ρ`. A history is a list of completed
calls, each with an invocation stamp and a return stamp drawn from one global counter (the harness
takes the first stamp before the call and the second after it has returned, so `a.ret < b.inv`
implies that `a` really returned before `b` was called). `lin` searches for a linearization:
a total order of the calls that respects that real-time precedence and in which running the
sequential step function yields each call's recorded result. `Props.C20Lin` proves the search sound
and complete with respect to the declarative definition `Linearizable`.
No model or `Gen` imports.
-/
namespace CoreBGP.Spec.Lin

structure Ev (ο ρ : Type) where
  tid : Nat
  inv : Nat
  ret : Nat
  op : ο
  res : ρ
deriving Repr

variable {σ ο ρ : Type}

/-- running the calls in this order from `s` yields the recorded results -/
def SeqOK (step : σ → ο → σ × ρ) : σ → List (Ev ο ρ) → Prop
  | _, [] => True
  | s, e :: es => (step s e.op).2 = e.res ∧ SeqOK step (step s e.op).1 es

/-- the order never places a call before one that had returned before it was invoked -/
def RespectsRT (l : List (Ev ο ρ)) : Prop :=
  l.Pairwise fun a b => ¬ b.ret < a.inv

/-- the declarative definition -/
def Linearizable (step : σ → ο → σ × ρ) (s : σ) (h : List (Ev ο ρ)) : Prop :=
  ∃ l, l.Perm h ∧ RespectsRT l ∧ SeqOK step s l

/-- `e` may be linearized first among `rem`: nothing in `rem` returned before `e` was invoked -/
def minimal (e : Ev ο ρ) (rem : List (Ev ο ρ)) : Bool :=
  rem.all fun x => !(x.ret < e.inv)

/-- candidates: every position of `rem` with the element taken out -/
def picks : List (Ev ο ρ) → List (Ev ο ρ × List (Ev ο ρ))
  | [] => []
  | e :: es => (e, es) :: (picks es).map fun p => (p.1, e :: p.2)

/-- depth-first search for a linearization (`fuel` ≥ number of calls) -/
def lin [DecidableEq ρ] (step : σ → ο → σ × ρ) : Nat → σ → List (Ev ο ρ) → Bool
  | _, _, [] => true
  | 0, _, _ :: _ => false
  | n + 1, s, rem =>
    (picks rem).any fun p =>
      minimal p.1 p.2 && decide ((step s p.1.op).2 = p.1.res) && lin step n (step s p.1.op).1 p.2

end CoreBGP.Spec.Lin
