import CoreBGP.Types
import CoreBGP.Spec.Wire
/-!
# Specification of UPDATE decoding (properties C16–C19)

From RFC 4271 §4.3, §5, §6.3; RFC 7606 §3–§7; RFC 1997; RFC 4456; RFC 4760; RFC 6793; RFC 7911;
RFC 8092 and the property statements (DESIGN appendix E.4, E.5). No model or `Gen` imports.
-/
namespace CoreBGP.Spec
open CoreBGP

/-! ## E.5 partition of an UPDATE body -/

structure Attr where
  flags : UInt8
  code : UInt8
  value : Bytes
deriving Repr, DecidableEq, Inhabited

/-- the three sections of an UPDATE body delimited by its two length fields; `none` when a
length field overruns the message (or the body is shorter than the two length fields) -/
def partition (b : Bytes) : Option (Bytes × Bytes × Bytes) :=
  match b with
  | w1 :: w2 :: r1 =>
    let wrl := n16 w1 w2
    if r1.length < wrl + 2 then none
    else
      match r1.drop wrl with
      | p1 :: p2 :: r2 =>
        let pal := n16 p1 p2
        if r2.length < pal then none
        else some (r1.take wrl, r2.take pal, r2.drop pal)
      | _ => none
  | _ => none

/-- the attribute block as the maximal sequence of whole attributes `flags type len(1|2) value`
(Extended Length = bit 0x10) followed by `junk` (empty, or an overrunning header / value) -/
def attrs : Nat → Bytes → List Attr × Bytes
  | 0, b => ([], b)
  | fuel + 1, b =>
    match b with
    | [] => ([], [])
    | f :: t :: rest =>
      if f.toNat / 16 % 2 = 1 then
        match rest with
        | l1 :: l2 :: v =>
          if v.length < n16 l1 l2 then ([], b)
          else
            let (as, junk) := attrs fuel (v.drop (n16 l1 l2))
            (⟨f, t, v.take (n16 l1 l2)⟩ :: as, junk)
        | _ => ([], b)
      else
        match rest with
        | l :: v =>
          if v.length < l.toNat then ([], b)
          else
            let (as, junk) := attrs fuel (v.drop l.toNat)
            (⟨f, t, v.take l.toNat⟩ :: as, junk)
        | _ => ([], b)
    | _ => ([], b)

def parseAttrs (b : Bytes) : List Attr × Bytes := attrs (b.length + 1) b

/-- wire form of one attribute (for the reconstruction lemma) -/
def attrWire (a : Attr) : Bytes :=
  [a.flags, a.code] ++
    (if a.flags.toNat / 16 % 2 = 1 then u16 a.value.length else [UInt8.ofNat a.value.length]) ++ a.value

/-- callback invocations the decoder must make (property C16) -/
inductive Call where
  | wr (b : Bytes)
  | attr (code flags : UInt8) (b : Bytes)
  | nlri (b : Bytes)
deriving Repr, DecidableEq, Inhabited

/-- first occurrences in wire order, stopping at a repeated MP_REACH (14) / MP_UNREACH (15);
the flag says whether such a repeat stopped it -/
def firstOccurrences : List Attr → List UInt8 → List Attr × Bool
  | [], _ => ([], false)
  | a :: as, seen =>
    if seen.contains a.code then
      if a.code = 14 ∨ a.code = 15 then ([], true) else firstOccurrences as seen
    else
      let (r, stop) := firstOccurrences as (a.code :: seen)
      (a :: r, stop)

/-- with callbacks that all return nil (C16): the exact call list -/
def expectedCallsNil (b : Bytes) : List Call :=
  match partition b with
  | none => []
  | some (w, ab, n) =>
    let (as, _) := parseAttrs ab
    let (fo, repeated) := firstOccurrences as []
    [Call.wr w] ++ fo.map (fun a => Call.attr a.code a.flags a.value) ++ (if repeated then [] else [Call.nlri n])

/-! ## E.5 verdict classes (C17) -/

/-- the class of the strongest element of an error tree -/
inductive Class where
  | none_ | other | discard | withdraw | notification
deriving Repr, DecidableEq, Inhabited

def Class.rank : Class → Nat
  | .none_ => 0 | .other => 1 | .discard => 2 | .withdraw => 3 | .notification => 4

/-- structural verdict for an UPDATE whose callbacks all return nil: which class the result must
have and, for the cases the property names, the fallback NOTIFICATION (code, subcode, data) -/
structure Verdict where
  cls : Class
  notif : Option (Nat × Nat × Bytes)
deriving Repr, DecidableEq, Inhabited

def verdictNil (b : Bytes) : Verdict :=
  if b.length < 4 then ⟨.notification, some (3, 0, [])⟩
  else
    match partition b with
    | none => ⟨.notification, some (3, 1, [])⟩
    | some (_, ab, n) =>
      let (as, junk) := parseAttrs ab
      let (fo, repeated) := firstOccurrences as []
      if repeated then ⟨.notification, some (3, 1, [])⟩
      else
        let codes := fo.map (·.code)
        let announces := n ≠ [] ∨ codes.contains 14
        let missing : Option UInt8 :=
          if announces then (if !codes.contains 1 then some 1 else if !codes.contains 2 then some 2 else none) else none
        if junk ≠ [] then ⟨.withdraw, some (3, 0, [])⟩     -- overrun; RFC 4271 has no subcode for it
        else
          match missing with
          | some c => ⟨.withdraw, some (3, 3, [c])⟩
          | none => ⟨.none_, none⟩

/-! ## E.4 typed attribute decoders (C18) -/

inductive Approach where
  | withdraw | discard
deriving Repr, DecidableEq, Inhabited

/-- outcome the attribute's RFC prescribes for (flags, value): success, or approach + fallback
NOTIFICATION subcode (code is always 3 = UPDATE Message Error) -/
inductive AttrOutcome where
  | ok
  | fail (a : Approach) (subcode : Nat)
deriving Repr, DecidableEq, Inhabited

structure AttrRule where
  code : UInt8
  optional : Bool
  transitive : Bool
  onMalformed : Approach
deriving Repr, DecidableEq, Inhabited

/-- the table of E.4 -/
def attrRule : UInt8 → Option AttrRule
  | 1 => some ⟨1, false, true, .withdraw⟩    -- ORIGIN
  | 2 => some ⟨2, false, true, .withdraw⟩    -- AS_PATH
  | 3 => some ⟨3, false, true, .withdraw⟩    -- NEXT_HOP
  | 4 => some ⟨4, true, false, .withdraw⟩    -- MULTI_EXIT_DISC
  | 5 => some ⟨5, false, true, .withdraw⟩    -- LOCAL_PREF
  | 6 => some ⟨6, false, true, .discard⟩     -- ATOMIC_AGGREGATE (well-known discretionary)
  | 7 => some ⟨7, true, true, .discard⟩      -- AGGREGATOR
  | 8 => some ⟨8, true, true, .withdraw⟩     -- COMMUNITIES
  | 9 => some ⟨9, true, false, .withdraw⟩    -- ORIGINATOR_ID
  | 10 => some ⟨10, true, false, .withdraw⟩  -- CLUSTER_LIST
  | 32 => some ⟨32, true, true, .withdraw⟩   -- LARGE_COMMUNITIES
  | _ => none

/-- AS_PATH with 4-octet AS numbers: segments `type ∈ {1,2}, n ≥ 1, 4n bytes` filling the value -/
def asPathSegs : Nat → Bytes → Option (List (UInt8 × List Nat))
  | _, [] => some []
  | 0, _ => none
  | fuel + 1, t :: n :: rest =>
    if (t ≠ 1 ∧ t ≠ 2) ∨ n = 0 ∨ rest.length < 4 * n.toNat then none
    else (asPathSegs fuel (rest.drop (4 * n.toNat))).map ((t, words (rest.take (4 * n.toNat))) :: ·)
  | _, _ => none
where
  words : Bytes → List Nat
    | a :: b :: c :: d :: r => n32 a b c d :: words r
    | _ => []

def words32 : Bytes → List Nat
  | a :: b :: c :: d :: r => n32 a b c d :: words32 r
  | _ => []

/-- value rule per attribute: `none` = well-formed, `some subcode` = malformed with that RFC 4271
subcode. For AS_PATH both 11 (Malformed AS_PATH) and 5 (length) are admissible. -/
def valueFault (code : UInt8) (v : Bytes) : Option (List Nat) :=
  match code with
  | 1 => (match v with | [x] => if x.toNat > 2 then some [6] else none | _ => some [5])
  | 2 => if (asPathSegs v.length v).isSome then none else some [11, 5]
  | 3 | 4 | 5 | 9 => if v.length ≠ 4 then some [5] else none
  | 6 => if v.length ≠ 0 then some [5] else none
  | 7 => if v.length ≠ 8 then some [5] else none
  | 8 | 10 => if v.length = 0 ∨ v.length % 4 ≠ 0 then some [5] else none
  | 32 => if v.length = 0 ∨ v.length % 12 ≠ 0 then some [5] else none
  | _ => none

/-- fallback NOTIFICATION data for flag (4) and length (5) faults: type, length (two octets above
255), value -/
def attrErrData (code : UInt8) (v : Bytes) : Bytes :=
  [code] ++ (if v.length > 255 then u16 v.length else [UInt8.ofNat v.length]) ++ v

/-- the admissible outcomes for one typed decoder call -/
def attrOutcomes (code flags : UInt8) (v : Bytes) : List AttrOutcome :=
  match attrRule code with
  | none => []
  | some r =>
    let o := flags.toNat / 128 % 2 = 1
    let t := flags.toNat / 64 % 2 = 1
    if o ≠ r.optional ∨ t ≠ r.transitive then [.fail .withdraw 4]     -- any flag conflict: treat-as-withdraw
    else
      match valueFault code v with
      | none => [.ok]
      | some subs => subs.map (.fail r.onMalformed ·)

/-! ## prefixes (C19), RFC 4271 §4.3, RFC 4760 §5, RFC 7911 §3 -/

structure Pfx where
  id : Option Nat          -- add-path identifier
  bits : Nat
  addr : Bytes             -- ⌈bits/8⌉ address bytes as on the wire
deriving Repr, DecidableEq, Inhabited

def pfxWire (p : Pfx) : Bytes :=
  (match p.id with | some i => u32 i | none => []) ++ [UInt8.ofNat p.bits] ++ p.addr

def WellFormedPfx (maxBits : Nat) (addPath : Bool) (p : Pfx) : Prop :=
  p.bits ≤ maxBits ∧ p.addr.length = (p.bits + 7) / 8 ∧ (p.id.isSome = addPath) ∧ (∀ i, p.id = some i → i < 4294967296)

/-- reference decoder of a prefix field -/
def parsePfxs (maxBits : Nat) (addPath : Bool) : Nat → Bytes → Option (List Pfx)
  | _, [] => some []
  | 0, _ => none
  | fuel + 1, b =>
    let idPart : Option (Option Nat × Bytes) :=
      if addPath then
        match b with
        | a :: b1 :: c :: d :: r => some (some (n32 a b1 c d), r)
        | _ => none
      else some (none, b)
    match idPart with
    | none => none
    | some (id, r) =>
      match r with
      | [] => none
      | l :: r' =>
        let n := (l.toNat + 7) / 8
        if l.toNat > maxBits ∨ r'.length < n then none
        else (parsePfxs maxBits addPath fuel (r'.drop n)).map (⟨id, l.toNat, r'.take n⟩ :: ·)

def parsePrefixField (ipv6 addPath : Bool) (b : Bytes) : Option (List Pfx) :=
  parsePfxs (if ipv6 then 128 else 32) addPath b.length b

/-- MP_REACH_NLRI (RFC 4760 §3): AFI(2) SAFI(1) nhLen(1) next hop (nhLen) reserved(1) NLRI -/
def splitMPReach (v : Bytes) : Option (Nat × UInt8 × Bytes × Bytes) :=
  match v with
  | a1 :: a2 :: safi :: nhLen :: rest =>
    if rest.length < nhLen.toNat + 1 then none
    else some (n16 a1 a2, safi, rest.take nhLen.toNat, rest.drop (nhLen.toNat + 1))
  | _ => none

/-- MP_UNREACH_NLRI (RFC 4760 §4): AFI(2) SAFI(1) withdrawn -/
def splitMPUnreach (v : Bytes) : Option (Nat × UInt8 × Bytes) :=
  match v with
  | a1 :: a2 :: safi :: rest => some (n16 a1 a2, safi, rest)
  | _ => none

/-! ## choosing the NOTIFICATION for an error tree (C17, `UpdateNotificationFromErr`) -/

/-- an error tree flattened in pre-order: each element's class and the NOTIFICATION it stands for
(its own, its fallback, or the generic UPDATE Message Error) -/
abbrev Leaves := List (Class × Notif)

def genericUpdate : Notif := ⟨3, 0, []⟩

/-- first element, in pre-order, of the highest class present; generic (3,0) if there is none -/
def chooseNotif (ls : Leaves) : Notif :=
  let best := ls.foldl (fun m l => max m l.1.rank) 0
  if best = 0 then genericUpdate
  else
    match ls.find? (fun l => l.1.rank = best) with
    | some l => l.2
    | none => genericUpdate

end CoreBGP.Spec
