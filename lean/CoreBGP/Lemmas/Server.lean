import CoreBGP.Model.Server
import CoreBGP.Spec.Server
/-! Helper lemmas for the L3 properties C20 / C12 (never property statements). -/
namespace CoreBGP.Lemmas.Server
open CoreBGP CoreBGP.Model

/-! ## configuration validation -/

/-- the propositional / linear-arithmetic core of `validate_iff` once the address kinds are fixed
(`P`, `Q` stand for `localAS = 0`, `remoteAS = 0`) -/
theorem validate_arith (P Q : Prop) (hold port : Int) :
    (((3000000000 ≤ hold ∨ hold = 0) ∧ 1 ≤ port ∧ port ≤ 65535) ∧ ¬P ∧ ¬Q) ↔
    (¬P ∧ ¬Q ∧ (hold = 0 ∨ 3000000000 ≤ hold) ∧ 1 ≤ port ∧ port ≤ 65535) := by
  by_cases hp : P <;> by_cases hq : Q <;>
    simp only [hp, hq, not_true_eq_false, not_false_eq_true, and_false, false_and, true_and,
      and_true] <;> omega

/-- the code's two validators accept exactly the specified configurations -/
theorem validate_exact (c : PeerCfg) :
    (validateOptions c && validateConfig c) = true ↔ Spec.validConfig c := by
  obtain ⟨⟨rk, rid⟩, las, ras, ⟨lk, lid⟩, hold, port, passive⟩ := c
  simp only [validateOptions, validateConfig, Spec.validConfig, Addr.isValid, Addr.is4, Addr.is6]
  cases rk <;> cases lk <;> simp <;> exact validate_arith _ _ _ _

/-! ## association lists -/

theorem find_append_new (ps : List (Addr × PeerCfg)) (k : Addr) (c : PeerCfg) (x : Addr) :
    ((ps ++ [(k, c)]).find? (·.1 = x)).map (·.2) =
      if (ps.find? (·.1 = x)).isSome then (ps.find? (·.1 = x)).map (·.2)
      else if x = k then some c else none := by
  rw [List.find?_append]
  cases ps.find? (·.1 = x) with
  | some q => simp
  | none =>
    by_cases h : k = x
    · simp [h]
    · have h' : ¬ x = k := fun e => h e.symm
      simp [h, h']

theorem find_filter_ne (ps : List (Addr × PeerCfg)) (k x : Addr) :
    (ps.filter (·.1 ≠ k)).find? (·.1 = x) = if x = k then none else ps.find? (·.1 = x) := by
  rw [List.find?_filter]
  by_cases hx : x = k
  · subst hx
    rw [if_pos rfl, List.find?_eq_none]
    intro a _
    by_cases ha : a.1 = x <;> simp [ha]
  · rw [if_neg hx]
    congr 1
    funext a
    by_cases ha : a.1 = x
    · simp [ha, hx]
    · simp [ha]

theorem map_fst_filter_ne (ps : List (Addr × PeerCfg)) (k : Addr) :
    (ps.filter (·.1 ≠ k)).map (·.1) = (ps.map (·.1)).filter (· ≠ k) := by
  rw [List.filter_map]; rfl

/-- a key is found iff it is among the keys -/
theorem find_isSome_iff (ps : List (Addr × PeerCfg)) (k : Addr) :
    (ps.find? (·.1 = k)).isSome = true ↔ k ∈ ps.map (·.1) := by
  rw [List.find?_isSome, List.mem_map]
  constructor
  · rintro ⟨p, hp, hk⟩; exact ⟨p, hp, by simpa using hk⟩
  · rintro ⟨p, hp, hk⟩; exact ⟨p, hp, by simpa using hk⟩

/-- with unique keys, a member is what `find?` returns for its key -/
theorem find_of_mem_nodup (ps : List (Addr × PeerCfg)) (hnd : (ps.map (·.1)).Nodup)
    (p : Addr × PeerCfg) (hp : p ∈ ps) : ps.find? (·.1 = p.1) = some p := by
  induction ps with
  | nil => simp at hp
  | cons q qs ih =>
    rw [List.map_cons, List.nodup_cons] at hnd
    rcases List.mem_cons.1 hp with rfl | hq
    · simp
    · have hne : ¬ q.1 = p.1 := fun h => hnd.1 (h ▸ List.mem_map_of_mem (f := (·.1)) hq)
      simpa [List.find?_cons, hne] using ih hnd.2 hq

/-! ## the four outcomes of `AddPeer`, the two of `DeletePeer` -/

theorem addPeer_invalidOptions (s : Server) (c : PeerCfg) (ho : validateOptions c = false) :
    s.addPeer c = (s, some .invalidOptions) := by
  simp [Server.addPeer, ho]

theorem addPeer_invalidConfig (s : Server) (c : PeerCfg) (ho : validateOptions c = true)
    (hc : validateConfig c = false) : s.addPeer c = (s, some .invalidConfig) := by
  simp [Server.addPeer, ho, hc]

theorem addPeer_exists (s : Server) (c : PeerCfg) (ho : validateOptions c = true)
    (hc : validateConfig c = true) (hex : (s.lookup c.remote).isSome = true) :
    s.addPeer c = (s, some .alreadyExists) := by
  simp [Server.addPeer, ho, hc, hex]

theorem addPeer_ok (s : Server) (c : PeerCfg) (ho : validateOptions c = true)
    (hc : validateConfig c = true) (hex : (s.lookup c.remote).isSome = false) :
    s.addPeer c =
      ({ s with peers := s.peers ++ [(c.remote, c)],
                running := if s.serving then s.running ++ [c.remote] else s.running }, none) := by
  simp [Server.addPeer, ho, hc, hex]

theorem deletePeer_none (s : Server) (k : Addr) (h : s.lookup k = none) :
    s.deletePeer k = (s, some .notExist) := by
  simp [Server.deletePeer, h]

theorem deletePeer_some (s : Server) (k : Addr) (c : PeerCfg) (h : s.lookup k = some c) :
    s.deletePeer k =
      ({ s with peers := s.peers.filter (·.1 ≠ k), running := s.running.filter (· ≠ k) }, none) := by
  simp [Server.deletePeer, h]

/-- the map after a successful insertion of a new key -/
theorem lookup_insert_new (s s' : Server) (c : PeerCfg) (hp : s'.peers = s.peers ++ [(c.remote, c)])
    (hex : (s.lookup c.remote).isSome = false) (x : Addr) :
    s'.lookup x = if x = c.remote then some c else s.lookup x := by
  simp only [Server.lookup, hp] at hex ⊢
  rw [find_append_new]
  by_cases hx : x = c.remote
  · subst hx
    rw [Option.isSome_map] at hex
    simp [hex]
  · rw [if_neg hx]
    cases s.peers.find? (·.1 = x) <;> simp [hx]

/-- the map after a deletion -/
theorem lookup_filter_ne (s s' : Server) (k : Addr) (hp : s'.peers = s.peers.filter (·.1 ≠ k))
    (x : Addr) : s'.lookup x = if x = k then none else s.lookup x := by
  simp only [Server.lookup, hp]
  rw [find_filter_ne]
  by_cases hx : x = k <;> simp [hx]

/-! ## back-off arithmetic with the constants as numerals -/

theorem usd_zero (gap : Option Nat) : updateStartupDelay 0 gap = 60000000000 := by
  cases gap with
  | none => rfl
  | some g =>
    unfold updateStartupDelay
    dsimp only
    split <;> rfl

theorem usd_amnesia (d g : Nat) (hg : 300000000000 ≤ g) :
    updateStartupDelay d (some g) = 60000000000 := by
  have hg' : g ≥ Gen.errorAmnesiaTime := hg
  unfold updateStartupDelay
  dsimp only
  rw [if_pos hg']
  rfl

theorem usd_double (d : Nat) (gap : Option Nat) (hd : 0 < d)
    (hg : ∀ g, gap = some g → g < 300000000000) :
    updateStartupDelay d gap = min (2 * d) 300000000000 := by
  unfold updateStartupDelay
  cases gap with
  | none => dsimp only; rw [if_pos hd]; rfl
  | some g =>
    have hg' : ¬ g ≥ Gen.errorAmnesiaTime := Nat.not_le.2 (hg g rfl)
    dsimp only
    rw [if_neg hg', if_pos hd]; rfl

/-! ## the specified recurrence with `Spec.sec` as a numeral -/

theorem nextDelay_none (p : Nat) : Spec.nextDelay p none = 60000000000 := rfl

theorem nextDelay_reset (p g : Nat) (h : 300000000000 ≤ g ∨ p = 0) :
    Spec.nextDelay p (some g) = 60000000000 := by
  have h' : g ≥ 300 * Spec.sec ∨ p = 0 := h
  unfold Spec.nextDelay
  dsimp only
  rw [if_pos h']
  rfl

theorem nextDelay_double (p g : Nat) (hg : g < 300000000000) (hp : p ≠ 0) :
    Spec.nextDelay p (some g) = min (2 * p) 300000000000 := by
  have h' : ¬ (g ≥ 300 * Spec.sec ∨ p = 0) := fun h =>
    h.elim (fun h => Nat.not_le.2 hg h) hp
  unfold Spec.nextDelay
  dsimp only
  rw [if_neg h']
  rfl

/-- `60 * Spec.sec`, `300 * Spec.sec` as numerals -/
theorem sec60 : 60 * Spec.sec = 60000000000 := rfl
theorem sec300 : 300 * Spec.sec = 300000000000 := rfl

end CoreBGP.Lemmas.Server
