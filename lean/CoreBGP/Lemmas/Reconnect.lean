import CoreBGP.Model.Reconnect
/-!
# Helper lemmas for C11T: the invariant of the timed Idle / Connect / Active model is inductive

`RInv` is the same proposition as `Props.C11T.Inv` (which is defined in the Props file, after this
file is imported); the Props file uses these lemmas through definitional unfolding.
-/
namespace CoreBGP.Lemmas.Reconnect
open CoreBGP CoreBGP.Model

/-- literally the body of `Props.C11T.Inv` -/
def RInv (s : RSess) : Prop :=
  (∃ d, s.idleDl = some d) ∧
  (∀ t, s.lastIdleExit = some t → s.idleDl = some (t + s.ih) ∧ t ≤ s.now) ∧
  (s.lastIdleExit = none → s.st = .idle ∧ ∃ d, s.idleDl = some d ∧ d ≤ s.now) ∧
  ((s.st = .connect ∨ s.st = .active) → ∃ d, s.crDl = some d ∧ d ≤ s.now + s.cr) ∧
  (s.st = .connect → s.dialing = true)

theorem due_some {d now : Nat} : due (some d) now = true ↔ d ≤ now := by
  simp [due]

theorem due_true {dl : Option Nat} {now : Nat} (h : due dl now = true) : ∃ d, dl = some d ∧ d ≤ now := by
  cases dl with
  | none => simp [due] at h
  | some d => exact ⟨d, rfl, due_some.mp h⟩

theorem rinv_init (ih cr t0 : Nat) : RInv (rInit ih cr t0) := by
  refine ⟨⟨t0, rfl⟩, ?_, ?_, ?_, ?_⟩
  · intro t h; simp [rInit] at h
  · intro _; exact ⟨rfl, t0, rfl, Nat.le_refl _⟩
  · intro h; simp [rInit] at h
  · intro h; simp [rInit] at h

theorem rinv_tick {s : RSess} (dt : Nat) (hi : RInv s) : RInv { s with now := s.now + dt } := by
  obtain ⟨h1, h2, h3, h4, h5⟩ := hi
  refine ⟨h1, ?_, ?_, ?_, h5⟩
  · intro t ht
    obtain ⟨a, b⟩ := h2 t ht
    exact ⟨a, by show t ≤ s.now + dt; omega⟩
  · intro hn
    obtain ⟨a, d, hd, hle⟩ := h3 hn
    exact ⟨a, d, hd, by show d ≤ s.now + dt; omega⟩
  · intro hst
    obtain ⟨d, hd, hle⟩ := h4 hst
    exact ⟨d, hd, by show d ≤ s.now + dt + s.cr; omega⟩

theorem rinv_idleFire (s : RSess) :
    RInv { s with st := .connect, crDl := some (s.now + s.cr), dialing := true,
                  idleDl := some (s.now + s.ih), lastIdleExit := some s.now } := by
  refine ⟨⟨_, rfl⟩, ?_, ?_, ?_, ?_⟩
  · intro t ht
    have : s.now = t := by simpa using ht
    subst this
    exact ⟨rfl, Nat.le_refl _⟩
  · intro hn; simp at hn
  · intro _; exact ⟨_, rfl, Nat.le_refl _⟩
  · intro _; rfl

theorem rinv_toIdle {s : RSess} (dialing : Bool) (hi : RInv s) (hne : s.st ≠ .idle) :
    RInv { s with st := .idle, crDl := none, dialing := dialing } := by
  obtain ⟨h1, h2, h3, h4, h5⟩ := hi
  refine ⟨h1, h2, ?_, ?_, ?_⟩
  · intro hn; exact absurd (h3 hn).1 hne
  · intro h; rcases h with h | h <;> cases h
  · intro h; cases h

theorem rinv_toConnected {s : RSess} (hi : RInv s) (hne : s.st ≠ .idle) :
    RInv { s with st := .connected, crDl := none, dialing := false } := by
  obtain ⟨h1, h2, h3, h4, h5⟩ := hi
  refine ⟨h1, h2, ?_, ?_, ?_⟩
  · intro hn; exact absurd (h3 hn).1 hne
  · intro h; rcases h with h | h <;> cases h
  · intro h; cases h

theorem rinv_redial {s : RSess} (hi : RInv s) :
    RInv { s with crDl := some (s.now + s.cr), dialing := true } := by
  obtain ⟨h1, h2, h3, h4, h5⟩ := hi
  refine ⟨h1, h2, h3, ?_, ?_⟩
  · intro _; exact ⟨_, rfl, Nat.le_refl _⟩
  · intro _; rfl

theorem rinv_crActive {s : RSess} (hi : RInv s) (hne : s.st ≠ .idle) :
    RInv { s with st := .connect, crDl := some (s.now + s.cr), dialing := true } := by
  obtain ⟨h1, h2, h3, h4, h5⟩ := hi
  refine ⟨h1, h2, ?_, ?_, ?_⟩
  · intro hn; exact absurd (h3 hn).1 hne
  · intro _; exact ⟨_, rfl, Nat.le_refl _⟩
  · intro _; rfl

theorem rinv_lostToActive {s : RSess} (hi : RInv s) (hne : s.st ≠ .idle) :
    RInv { s with st := .active, crDl := some (s.now + s.cr) } := by
  obtain ⟨h1, h2, h3, h4, h5⟩ := hi
  refine ⟨h1, h2, ?_, ?_, ?_⟩
  · intro hn; exact absurd (h3 hn).1 hne
  · intro _; exact ⟨_, rfl, Nat.le_refl _⟩
  · intro h; cases h

/-- the invariant (with the two parameters) is preserved by every step -/
theorem rinv_step {s s' : RSess} {e : REv} (hi : RInv s) (hs : rstep s e = some s') :
    RInv s' ∧ s'.ih = s.ih ∧ s'.cr = s.cr := by
  cases e with
  | tick dt =>
    simp only [rstep, Option.some.injEq] at hs
    subst hs
    exact ⟨rinv_tick dt hi, rfl, rfl⟩
  | idleFire =>
    simp only [rstep] at hs
    split at hs
    · simp only [Option.some.injEq] at hs; subst hs
      exact ⟨rinv_idleFire s, rfl, rfl⟩
    · cases hs
  | dialFailed =>
    simp only [rstep] at hs
    split at hs
    · rename_i hg
      simp only [Option.some.injEq] at hs; subst hs
      have hst : s.st = .connect := by
        have := hg; simp only [Bool.and_eq_true, decide_eq_true_eq] at this; exact this.1
      exact ⟨rinv_toIdle false hi (by rw [hst]; decide), rfl, rfl⟩
    · cases hs
  | dialOK =>
    simp only [rstep] at hs
    split at hs
    · rename_i hg
      simp only [Option.some.injEq] at hs; subst hs
      have hst : s.st = .connect := by
        have := hg; simp only [Bool.and_eq_true, decide_eq_true_eq] at this; exact this.1
      exact ⟨rinv_toConnected hi (by rw [hst]; decide), rfl, rfl⟩
    · cases hs
  | crFireRedial =>
    simp only [rstep] at hs
    split at hs
    · rename_i hg
      simp only [Option.some.injEq] at hs; subst hs
      have hst : s.st = .connect := by
        have := hg; simp only [Bool.and_eq_true, decide_eq_true_eq] at this; exact this.1
      exact ⟨rinv_redial hi, rfl, rfl⟩
    · cases hs
  | crFireActive =>
    simp only [rstep] at hs
    split at hs
    · rename_i hg
      simp only [Option.some.injEq] at hs; subst hs
      have hst : s.st = .active := by
        have := hg; simp only [Bool.and_eq_true, decide_eq_true_eq] at this; exact this.1
      exact ⟨rinv_crActive hi (by rw [hst]; decide), rfl, rfl⟩
    · cases hs
  | lostToActive =>
    simp only [rstep] at hs
    split at hs
    · rename_i hst
      simp only [Option.some.injEq] at hs; subst hs
      exact ⟨rinv_lostToActive hi (by rw [hst]; decide), rfl, rfl⟩
    · cases hs
  | lostToIdle =>
    simp only [rstep] at hs
    split at hs
    · rename_i hst
      simp only [Option.some.injEq] at hs; subst hs
      have := rinv_toIdle s.dialing hi (by rw [hst]; decide)
      exact ⟨this, rfl, rfl⟩
    · cases hs

theorem rinv_reachable (ih cr t0 : Nat) (s : RSess) (h : RReach ih cr t0 s) :
    RInv s ∧ s.ih = ih ∧ s.cr = cr := by
  induction h with
  | init => exact ⟨rinv_init ih cr t0, rfl, rfl⟩
  | step _ hs ihyp =>
    obtain ⟨hi, h1, h2⟩ := ihyp
    obtain ⟨hi', h1', h2'⟩ := rinv_step hi hs
    exact ⟨hi', h1'.trans h1, h2'.trans h2⟩

/-- an enabled idle-hold event: the guard, taken apart -/
theorem idleFire_guard {s s' : RSess} (hs : rstep s .idleFire = some s') :
    s.st = .idle ∧ ∃ d, s.idleDl = some d ∧ d ≤ s.now := by
  simp only [rstep] at hs
  split at hs
  · rename_i hg
    simp only [Bool.and_eq_true, decide_eq_true_eq] at hg
    exact ⟨hg.1, due_true hg.2⟩
  · cases hs

theorem crFireRedial_eq {s s' : RSess} (hs : rstep s .crFireRedial = some s') :
    s' = { s with crDl := some (s.now + s.cr), dialing := true } ∧ s.st = .connect := by
  simp only [rstep] at hs
  split at hs
  · rename_i hg
    simp only [Bool.and_eq_true, decide_eq_true_eq] at hg
    simp only [Option.some.injEq] at hs
    exact ⟨hs.symm, hg.1⟩
  · cases hs

theorem tta_le {s : RSess} (hi : RInv s) : timeToAttempt s ≤ s.ih + s.cr := by
  obtain ⟨h1, h2, h3, h4, h5⟩ := hi
  unfold timeToAttempt
  split
  · -- idle
    cases hl : s.lastIdleExit with
    | none =>
      obtain ⟨_, d, hd, hle⟩ := h3 hl
      rw [hd]; simp only [Option.getD_some]; omega
    | some t =>
      obtain ⟨hd, hle⟩ := h2 t hl
      rw [hd]; simp only [Option.getD_some]; omega
  · rename_i hst
    obtain ⟨d, hd, hle⟩ := h4 (Or.inl hst)
    rw [hd]; simp only [Option.getD_some]; omega
  · rename_i hst
    obtain ⟨d, hd, hle⟩ := h4 (Or.inr hst)
    rw [hd]; simp only [Option.getD_some]; omega
  · omega

theorem idleFire_enabled {s : RSess} (hst : s.st = .idle) (hdue : due s.idleDl s.now = true) :
    rstep s .idleFire =
      some { s with st := .connect, crDl := some (s.now + s.cr), dialing := true, idleDl := some (s.now + s.ih), lastIdleExit := some s.now } := by
  simp only [rstep, hst, hdue, decide_true, Bool.and_self, if_true]

theorem crFireRedial_enabled {s : RSess} (hst : s.st = .connect) (hdue : due s.crDl s.now = true) :
    rstep s .crFireRedial = some { s with crDl := some (s.now + s.cr), dialing := true } := by
  simp only [rstep, hst, hdue, decide_true, Bool.and_self, if_true]

theorem crFireActive_enabled {s : RSess} (hst : s.st = .active) (hdue : due s.crDl s.now = true) :
    rstep s .crFireActive = some { s with st := .connect, crDl := some (s.now + s.cr), dialing := true } := by
  simp only [rstep, hst, hdue, decide_true, Bool.and_self, if_true]

theorem dialOK_enabled {s : RSess} (hst : s.st = .connect) (hd : s.dialing = true) :
    rstep s .dialOK = some { s with st := .connected, crDl := none, dialing := false } := by
  simp only [rstep, hst, hd, decide_true, Bool.and_self, if_true]

theorem st_cases (s : RSess) : s.st = .idle ∨ s.st = .connect ∨ s.st = .active ∨ s.st = .connected := by
  cases s.st <;> simp

/-- after waiting `timeToAttempt`, the attempt is enabled and its success leads to `connected` -/
theorem attempt_enabled_of_inv {s : RSess} (hi : RInv s) (hc : s.st ≠ .connected) :
    ∃ e s', (e = .idleFire ∨ e = .crFireRedial ∨ e = .crFireActive) ∧
      rstep { s with now := s.now + timeToAttempt s } e = some s' ∧ s'.st = .connect ∧ s'.dialing = true ∧
      ∃ s'', rstep s' .dialOK = some s'' ∧ s''.st = .connected := by
  obtain ⟨h1, h2, h3, h4, h5⟩ := hi
  rcases st_cases s with hst | hst | hst | hst
  · obtain ⟨d, hd⟩ := h1
    have htta : timeToAttempt s = d - s.now := by
      simp only [timeToAttempt, hst, hd, Option.getD_some]
    have hdue : due s.idleDl (s.now + timeToAttempt s) = true := by
      rw [hd, htta, due_some]; omega
    exact ⟨.idleFire, _, Or.inl rfl,
      idleFire_enabled (s := { s with now := s.now + timeToAttempt s }) hst hdue, rfl, rfl,
      _, dialOK_enabled rfl rfl, rfl⟩
  · obtain ⟨d, hd, hle⟩ := h4 (Or.inl hst)
    have htta : timeToAttempt s = d - s.now := by
      simp only [timeToAttempt, hst, hd, Option.getD_some]
    have hdue : due s.crDl (s.now + timeToAttempt s) = true := by
      rw [hd, htta, due_some]; omega
    exact ⟨.crFireRedial, _, Or.inr (Or.inl rfl),
      crFireRedial_enabled (s := { s with now := s.now + timeToAttempt s }) hst hdue, hst, rfl,
      _, dialOK_enabled hst rfl, rfl⟩
  · obtain ⟨d, hd, hle⟩ := h4 (Or.inr hst)
    have htta : timeToAttempt s = d - s.now := by
      simp only [timeToAttempt, hst, hd, Option.getD_some]
    have hdue : due s.crDl (s.now + timeToAttempt s) = true := by
      rw [hd, htta, due_some]; omega
    exact ⟨.crFireActive, _, Or.inr (Or.inr rfl),
      crFireActive_enabled (s := { s with now := s.now + timeToAttempt s }) hst hdue, rfl, rfl,
      _, dialOK_enabled rfl rfl, rfl⟩
  · exact absurd hst hc

theorem dialFailed_eq {s s' : RSess} (hs : rstep s .dialFailed = some s') :
    s'.st = .idle ∧ s'.crDl = none := by
  simp only [rstep] at hs
  split at hs
  · simp only [Option.some.injEq] at hs; subst hs; exact ⟨rfl, rfl⟩
  · cases hs

end CoreBGP.Lemmas.Reconnect
