import CoreBGP.Model.Packet
import CoreBGP.Spec.Wire
/-! Helper lemmas about the packet codecs (never property statements). -/
namespace CoreBGP.Lemmas
open CoreBGP CoreBGP.Model

end CoreBGP.Lemmas
