import CoreBGP.Model.Packet
import CoreBGP.Spec.Wire
/-! Helper lemmas about the packet codecs (never property statements). -/
namespace CoreBGP.Lemmas
open CoreBGP CoreBGP.Model

/-! ## header / NOTIFICATION -/

theorem be16Bytes_len16 (n : Nat) (h : n < 65536) : be16Bytes (len16 n) = Spec.u16 n := by
  simp [be16Bytes, len16, Spec.u16, UInt16.toNat_ofNat', Nat.mod_eq_of_lt h]

theorem prependHeader_frame (m : Bytes) (t : UInt8) (h : m.length + 19 < 65536) :
    prependHeader m t = Spec.frame t m := by
  unfold prependHeader Spec.frame Spec.marker
  rw [Gen.headerLength, be16Bytes_len16 _ h, Nat.add_comm]

theorem encodeNotifBody_eq (n : Notif) : encodeNotifBody n = Spec.notifBody n := by
  cases n with
  | mk c s d => cases d <;> simp [encodeNotifBody, Spec.notifBody]


/-! ## add-path -/

theorem decodeAddPath4_some (a b c d : UInt8) (h : d = 1 ∨ d = 2 ∨ d = 3) :
    decodeAddPath4 a b c d = some ⟨UInt16.ofNat (Spec.n16 a b), c, decide (d = 2 ∨ d = 3), decide (d = 1 ∨ d = 3)⟩ := by
  rcases h with h | h | h <;> subst h <;> simp [decodeAddPath4, be16, Spec.n16]

theorem decodeAddPath4_none (a b c d : UInt8) (h : ¬ (d = 1 ∨ d = 2 ∨ d = 3)) :
    decodeAddPath4 a b c d = none := by
  simp only [not_or] at h
  simp [decodeAddPath4, h]

theorem addPathLoop_iff : ∀ (n : Nat) (b : Bytes) (acc ts : List AddPathTuple), b.length ≤ n →
    (decodeAddPathLoop b acc = .ok ts ↔ ∃ ts', Spec.parseAddPath b = some ts' ∧ ts = acc ++ ts') := by
  intro n
  induction n with
  | zero =>
    intro b acc ts h
    have : b = [] := List.eq_nil_of_length_eq_zero (by omega)
    subst this
    simp [decodeAddPathLoop, Spec.parseAddPath, eq_comm]
  | succ n ih =>
    intro b acc ts h
    match b, h with
    | [], _ => simp [decodeAddPathLoop, Spec.parseAddPath, eq_comm]
    | [_], _ => simp [decodeAddPathLoop, Spec.parseAddPath, openErr0]
    | [_, _], _ => simp [decodeAddPathLoop, Spec.parseAddPath, openErr0]
    | [_, _, _], _ => simp [decodeAddPathLoop, Spec.parseAddPath, openErr0]
    | a :: b :: c :: d :: rest, h =>
      by_cases hd : d = 1 ∨ d = 2 ∨ d = 3
      · simp only [decodeAddPathLoop, decodeAddPath4_some a b c d hd, Spec.parseAddPath, if_pos hd]
        rw [ih rest _ ts (by simp at h; omega)]
        cases Spec.parseAddPath rest <;> simp
      · simp [decodeAddPathLoop, decodeAddPath4_none a b c d hd, Spec.parseAddPath, if_neg hd, openErr0]

theorem parseAddPath_len : ∀ (n : Nat) (b : Bytes) ts, b.length ≤ n → Spec.parseAddPath b = some ts → b.length % 4 = 0 := by
  intro n
  induction n with
  | zero =>
    intro b ts h _
    have : b = [] := List.eq_nil_of_length_eq_zero (by omega)
    subst this; rfl
  | succ n ih =>
    intro b ts h hp
    match b, h, hp with
    | [], _, _ => rfl
    | [_], _, hp => simp [Spec.parseAddPath] at hp
    | [_, _], _, hp => simp [Spec.parseAddPath] at hp
    | [_, _, _], _, hp => simp [Spec.parseAddPath] at hp
    | a :: b :: c :: d :: rest, h, hp =>
      simp only [Spec.parseAddPath] at hp
      split at hp
      · cases hr : Spec.parseAddPath rest with
        | none => simp [hr] at hp
        | some ts' =>
          have := ih rest ts' (by simp at h; omega) hr
          simp; omega
      · simp at hp

theorem addpath_decode_iff' (b : Bytes) (ts : List AddPathTuple) :
    decodeAddPathTuples b = .ok ts ↔ Spec.parseAddPathCap b = some ts := by
  unfold decodeAddPathTuples Spec.parseAddPathCap
  by_cases hb : b = []
  · subst hb; simp [openErr0]
  · have hl : b.length ≠ 0 := by simpa using hb
    simp only [hb, if_false]
    by_cases hm : b.length % 4 = 0
    · have h1 : (b.length = 0 || b.length % 4 ≠ 0) = false := by simp [hl, hm]
      rw [h1, if_neg (by simp), addPathLoop_iff b.length b [] ts (Nat.le_refl _)]
      simp [eq_comm]
    · have : Spec.parseAddPath b ≠ some ts := fun h => hm (parseAddPath_len _ b ts (Nat.le_refl _) h)
      simp [hm, openErr0, this]


theorem n16_u16 (x : UInt16) :
    UInt16.ofNat (Spec.n16 (UInt8.ofNat (x.toNat / 256)) (UInt8.ofNat (x.toNat % 256))) = x := by
  apply UInt16.toNat_inj.1
  have := x.toNat_lt
  simp only [Spec.n16, UInt16.toNat_ofNat', UInt8.toNat_ofNat']
  omega

theorem be16Bytes_eq (x : UInt16) : be16Bytes x = Spec.u16 x.toNat := rfl
theorem be32Bytes_eq (x : UInt32) : be32Bytes x = Spec.u32 x.toNat := rfl

theorem parseAddPath_encode (ts : List AddPathTuple) (hv : ∀ t ∈ ts, t.tx = true ∨ t.rx = true) :
    Spec.parseAddPath (ts.map encodeAddPathTuple).flatten = some ts := by
  induction ts with
  | nil => simp [Spec.parseAddPath]
  | cons t ts ih =>
    have ih := ih (fun t' ht' => hv t' (List.mem_cons_of_mem _ ht'))
    have ht := hv t List.mem_cons_self
    obtain ⟨afi, safi, tx, rx⟩ := t
    simp only [List.map_cons, List.flatten_cons, encodeAddPathTuple, be16Bytes, List.cons_append, List.nil_append]
    cases tx <;> cases rx <;> simp [Spec.parseAddPath, ih, n16_u16] at ht ⊢

theorem addpath_encode' (ts : List AddPathTuple) (ws : List Bytes) (h : ts.mapM Spec.addPathWire = some ws) :
    newAddPathCapability ts = ⟨69, ws.flatten⟩ := by
  unfold newAddPathCapability
  simp only [Gen.CAP_ADD_PATH, Cap.mk.injEq, true_and]
  induction ts generalizing ws with
  | nil => simp at h; subst h; rfl
  | cons t ts ih =>
    simp only [List.mapM_cons] at h
    cases h1 : Spec.addPathWire t with
    | none => simp [h1] at h
    | some w =>
      cases h2 : ts.mapM Spec.addPathWire with
      | none => simp [h1, h2] at h
      | some ws' =>
        simp [h1, h2] at h
        subst h
        simp only [List.map_cons, List.flatten_cons, ih ws' h2]
        congr 1
        obtain ⟨afi, safi, tx, rx⟩ := t
        cases tx <;> cases rx <;> simp [Spec.addPathWire, encodeAddPathTuple, be16Bytes, Spec.u16] at h1 ⊢ <;> exact h1

/-! ## validate -/

theorem n32_lt (a b c d : UInt8) : Spec.n32 a b c d < 4294967296 := by
  have := a.toNat_lt; have := b.toNat_lt; have := c.toNat_lt; have := d.toNat_lt
  simp only [Spec.n32]; omega

theorem be32_eq_iff (a b c d : UInt8) (r : UInt32) : be32 a b c d = r ↔ Spec.n32 a b c d = r.toNat := by
  have := n32_lt a b c d
  rw [← UInt32.toNat_inj]
  simp only [be32, UInt32.toNat_ofNat']
  show (Spec.n32 a b c d) % 2^32 = _ ↔ _
  rw [Nat.mod_eq_of_lt (by omega)]

/-- the four-octet-AS capabilities among `cs` -/
def four (cs : List Cap) : List Cap := cs.filter fun c => c.code = 65

theorem validateCaps_spec (r : UInt32) : ∀ (cs : List Cap) (found : Bool),
    (∃ f, validateCaps r cs found = .ok f ∧ f = (found || !(four cs).isEmpty) ∧
        (∀ c ∈ four cs, Spec.capAS c = some r.toNat)) ∨
    (validateCaps r cs found = .error ⟨2, 2, []⟩ ∧ ∃ c ∈ four cs, ∃ v, Spec.capAS c = some v ∧ v ≠ r.toNat) ∨
    (validateCaps r cs found = .error ⟨2, 0, []⟩ ∧ ∃ c ∈ four cs, Spec.capAS c = none) := by
  intro cs
  induction cs with
  | nil => intro found; left; simp [validateCaps, four]
  | cons c cs ih =>
    intro found
    obtain ⟨code, value⟩ := c
    by_cases hc : code = 65
    · subst hc
      have h4 : four (⟨65, value⟩ :: cs) = ⟨65, value⟩ :: four cs := by simp [four]
      rw [h4]
      by_cases hv : ∃ a b cc d, value = [a, b, cc, d]
      · obtain ⟨a, b, cc, d, rfl⟩ := hv
        by_cases hr : be32 a b cc d = r
        · have hv : validateCaps r (⟨65, [a, b, cc, d]⟩ :: cs) found = validateCaps r cs true := by
            simp [validateCaps, Gen.CAP_FOUR_OCTET_AS, hr]
          have hcap : Spec.capAS ⟨65, [a, b, cc, d]⟩ = some r.toNat := by
            simp [Spec.capAS, (be32_eq_iff a b cc d r).1 hr]
          rw [hv]
          rcases ih true with ⟨f, h1, h2, h3⟩ | ⟨h1, c, hc, v, h2⟩ | ⟨h1, c, hc, h2⟩
          · left; refine ⟨f, h1, ?_, ?_⟩
            · simp [h2]
            · intro c hc; rcases List.mem_cons.1 hc with rfl | hc
              · exact hcap
              · exact h3 c hc
          · right; left; exact ⟨h1, c, List.mem_cons_of_mem _ hc, v, h2⟩
          · right; right; exact ⟨h1, c, List.mem_cons_of_mem _ hc, h2⟩
        · right; left
          refine ⟨by simp [validateCaps, Gen.CAP_FOUR_OCTET_AS, hr, Gen.NOTIF_CODE_OPEN_MESSAGE_ERR, Gen.NOTIF_SUBCODE_BAD_PEER_AS], _, List.mem_cons_self, Spec.n32 a b cc d, by simp [Spec.capAS], ?_⟩
          exact fun h => hr ((be32_eq_iff a b cc d r).2 h)
      · right; right
        refine ⟨?_, _, List.mem_cons_self, ?_⟩
        · unfold validateCaps
          simp only [Gen.CAP_FOUR_OCTET_AS, if_true]
          split
          · exact absurd ⟨_, _, _, _, rfl⟩ hv
          · rfl
        · unfold Spec.capAS
          split
          · exact absurd ⟨_, _, _, _, ‹_›⟩ hv
          · rfl
    · have h4 : four (⟨code, value⟩ :: cs) = four cs := by simp [four, hc]
      have hv : validateCaps r (⟨code, value⟩ :: cs) found = validateCaps r cs found := by
        simp [validateCaps, Gen.CAP_FOUR_OCTET_AS, hc]
      rw [h4, hv]; exact ih found

theorem fourOctetCaps_eq (o : OpenMsg) : Spec.fourOctetCaps o = four (openCaps o) := rfl

theorem acceptable_iff (o : OpenMsg) (cfg : Spec.PeerCfg) :
    Spec.AcceptableOpen o cfg ↔
      o.version = 4 ∧
      ¬ ((o.asn.toNat ≠ 23456 ∧ o.asn.toNat ≠ cfg.remoteAS.toNat) ∨
          (∃ c ∈ Spec.fourOctetCaps o, ∃ v, Spec.capAS c = some v ∧ v ≠ cfg.remoteAS.toNat) ∨
          (o.asn.toNat = 23456 ∧ Spec.fourOctetCaps o = [])) ∧
      ¬ (o.holdTime.toNat = 1 ∨ o.holdTime.toNat = 2) ∧
      ¬ (o.bgpID.toNat / 16777216 / 16 = 14 ∨ (cfg.localAS = cfg.remoteAS ∧ o.bgpID = cfg.localID)) ∧
      ¬ (∃ c ∈ Spec.fourOctetCaps o, Spec.capAS c = none) ∧
      Spec.fourOctetCaps o ≠ [] := by
  unfold Spec.AcceptableOpen Spec.openSemFaults
  simp only [List.append_eq_nil_iff, ite_eq_right_iff, List.cons_ne_nil, imp_false, and_assoc, Decidable.not_not]
  

theorem asn_cond (asn : UInt16) (r : UInt32) :
    ((!decide (asn = Gen.asTrans) && decide (asn.toUInt32 ≠ r)) = true) ↔
      (asn.toNat ≠ 23456 ∧ asn.toNat ≠ r.toNat) := by
  have h1 : asn = Gen.asTrans ↔ asn.toNat = 23456 := by
    rw [← UInt16.toNat_inj]; rfl
  have h2 : asn.toUInt32 = r ↔ asn.toNat = r.toNat := by
    rw [← UInt32.toNat_inj, UInt16.toNat_toUInt32]
  simp only [Bool.and_eq_true, Bool.not_eq_true', decide_eq_false_iff_not, decide_eq_true_eq, ne_eq, h1, h2]

theorem hold_cond (h : UInt16) :
    ((decide (h < 3) && decide (h ≠ 0)) = true) ↔ (h.toNat = 1 ∨ h.toNat = 2) := by
  simp only [Bool.and_eq_true, decide_eq_true_eq, ne_eq, UInt16.lt_iff_toNat_lt, ← UInt16.toNat_inj]
  show h.toNat < 3 ∧ ¬ h.toNat = 0 ↔ _
  omega

theorem mcast_cond (id : UInt32) : isMulticast4 id = true ↔ id.toNat / 16777216 / 16 = 14 := by
  simp only [isMulticast4, decide_eq_true_eq, Nat.div_div_eq_div_mul]


theorem faultApplies_of_mem (n : Notif) (fs : List (Nat × Nat × Option Bytes)) (c s : Nat) (d : Option Bytes)
    (hm : (c, s, d) ∈ fs) (hc : n.code.toNat = c) (hs : n.sub.toNat = s)
    (hd : ∀ d', d = some d' → n.data = d') : Spec.faultApplies n fs = true := by
  unfold Spec.faultApplies
  rw [List.any_eq_true]
  refine ⟨_, hm, ?_⟩
  cases d with
  | none => simp [hc, hs]
  | some d' => simp [hc, hs, hd d' rfl]

theorem validateOpen_cases (o : OpenMsg) (lid las ras : UInt32) :
    (validateOpen o lid las ras = none ∧ Spec.openSemFaults o ⟨lid, las, ras⟩ = []) ∨
    (∃ n, validateOpen o lid las ras = some n ∧
      Spec.faultApplies n (Spec.openSemFaults o ⟨lid, las, ras⟩) = true) := by
  by_cases hv : o.version = 4
  case neg =>
    right
    refine ⟨_, by unfold validateOpen; rw [if_pos hv], ?_⟩
    apply faultApplies_of_mem _ _ 2 1 (some [0, 4])
    · simp [Spec.openSemFaults, hv]
    · rfl
    · rfl
    · intro d' h; cases h; rfl
  unfold validateOpen
  simp only [hv, ne_eq, not_true, if_false]
  by_cases h2 : (!decide (o.asn = Gen.asTrans) && decide ¬o.asn.toUInt32 = ras) = true
  case pos =>
    right
    refine ⟨_, by rw [if_pos h2], ?_⟩
    have h2' := (asn_cond o.asn ras).1 h2
    apply faultApplies_of_mem _ _ 2 2 none
    · simp [Spec.openSemFaults, h2']
    · rfl
    · rfl
    · intro d' h; cases h
  rw [if_neg h2]
  by_cases h3 : (decide (o.holdTime < 3) && decide ¬o.holdTime = 0) = true
  case pos =>
    right
    refine ⟨_, by rw [if_pos h3], ?_⟩
    have h3' := (hold_cond o.holdTime).1 h3
    apply faultApplies_of_mem _ _ 2 6 none
    · simp [Spec.openSemFaults, h3']
    · rfl
    · rfl
    · intro d' h; cases h
  rw [if_neg h3]
  by_cases h4 : isMulticast4 o.bgpID = true
  case pos =>
    right
    refine ⟨_, by rw [if_pos h4], ?_⟩
    have h4' := (mcast_cond o.bgpID).1 h4
    apply faultApplies_of_mem _ _ 2 3 none
    · simp [Spec.openSemFaults, h4']
    · rfl
    · rfl
    · intro d' h; cases h
  rw [if_neg h4]
  by_cases h5 : (decide (las = ras) && decide (lid = o.bgpID)) = true
  case pos =>
    right
    refine ⟨_, by rw [if_pos h5], ?_⟩
    have h5' : las = ras ∧ o.bgpID = lid := by
      simp only [Bool.and_eq_true, decide_eq_true_eq] at h5; exact ⟨h5.1, h5.2.symm⟩
    apply faultApplies_of_mem _ _ 2 3 none
    · simp [Spec.openSemFaults, h5']
    · rfl
    · rfl
    · intro d' h; cases h
  rw [if_neg h5]
  have h2' := fun h => h2 ((asn_cond o.asn ras).2 h)
  have h3' := fun h => h3 ((hold_cond o.holdTime).2 h)
  have h4' := fun h => h4 ((mcast_cond o.bgpID).2 h)
  have h5' : ¬ (las = ras ∧ o.bgpID = lid) := by
    simp only [Bool.and_eq_true, decide_eq_true_eq] at h5; exact fun h => h5 ⟨h.1, h.2.symm⟩
  rcases validateCaps_spec ras (openCaps o) false with ⟨f, h1, hf, hall⟩ | ⟨h1, c, hc, v, hcv⟩ | ⟨h1, c, hc, hcv⟩
  · rw [h1]
    by_cases hnil : four (openCaps o) = []
    · have hf' : f = false := by simp [hf, hnil]
      subst hf'
      right
      by_cases ha : o.asn = Gen.asTrans
      · refine ⟨⟨Gen.NOTIF_CODE_OPEN_MESSAGE_ERR, Gen.NOTIF_SUBCODE_BAD_PEER_AS, []⟩, by simp [ha], ?_⟩
        have ha' : o.asn.toNat = 23456 := by rw [ha]; rfl
        apply faultApplies_of_mem _ _ 2 2 none
        · simp [Spec.openSemFaults, fourOctetCaps_eq, ha', hnil]
        · rfl
        · rfl
        · intro d' h; cases h
      · refine ⟨⟨Gen.NOTIF_CODE_OPEN_MESSAGE_ERR, Gen.NOTIF_SUBCODE_UNSUPPORTED_CAPABILITY,
                  encodeCap (fourOctetASCap ras)⟩, by simp [ha], ?_⟩
        apply faultApplies_of_mem _ _ 2 7 (some ([65, 4] ++ Spec.u32 ras.toNat))
        · simp [Spec.openSemFaults, fourOctetCaps_eq, hnil]
        · rfl
        · rfl
        · intro d' h; cases h; rfl
    · have hf' : f = true := by
        cases h : four (openCaps o) with
        | nil => exact absurd h hnil
        | cons _ _ => simp [hf, h]
      subst hf'
      left
      refine ⟨by simp, ?_⟩
      apply (acceptable_iff o ⟨lid, las, ras⟩).2
      refine ⟨hv, ?_, h3', ?_, ?_, hnil⟩
      · rintro (h | ⟨c, hc, v, hcv, hne⟩ | ⟨_, h⟩)
        · exact h2' h
        · have := hall c hc; rw [hcv] at this; exact hne (Option.some.inj this)
        · exact hnil h
      · rintro (h | h)
        · exact h4' h
        · exact h5' h
      · rintro ⟨c, hc, hcv⟩
        have := hall c hc; rw [hcv] at this; cases this
  · rw [h1]
    right
    refine ⟨_, rfl, ?_⟩
    apply faultApplies_of_mem _ _ 2 2 none
    · have : ∃ c ∈ Spec.fourOctetCaps o, ∃ v, Spec.capAS c = some v ∧ v ≠ ras.toNat := ⟨c, hc, v, hcv⟩
      simp only [Spec.openSemFaults, this, or_true, true_or, if_true]
      simp
    · rfl
    · rfl
    · intro d' h; cases h
  · rw [h1]
    right
    refine ⟨_, rfl, ?_⟩
    apply faultApplies_of_mem _ _ 2 0 none
    · have : ∃ c ∈ Spec.fourOctetCaps o, Spec.capAS c = none := ⟨c, hc, hcv⟩
      simp only [Spec.openSemFaults, this, if_true]
      simp
    · rfl
    · rfl
    · intro d' h; cases h

/-! ## TLV sequences (spec side) -/

theorem tlvs_nil (f : Nat) : Spec.tlvs f [] = some [] := by
  cases f <;> rfl

theorem tlvs_single (f : Nat) (x : UInt8) : Spec.tlvs f [x] = none := by
  cases f <;> rfl

theorem tlvs_cons (f : Nat) (t l : UInt8) (rest : Bytes) :
    Spec.tlvs (f + 1) (t :: l :: rest) =
      if rest.length < l.toNat then none
      else (Spec.tlvs f (rest.drop l.toNat)).map ((t, rest.take l.toNat) :: ·) := rfl

theorem tlvs_fuel : ∀ (f1 f2 : Nat) (b : Bytes), b.length ≤ f1 → b.length ≤ f2 →
    Spec.tlvs f1 b = Spec.tlvs f2 b := by
  intro f1
  induction f1 with
  | zero =>
    intro f2 b h1 _
    have : b = [] := List.eq_nil_of_length_eq_zero (by omega)
    subst this; rw [tlvs_nil, tlvs_nil]
  | succ f1 ih =>
    intro f2 b h1 h2
    match b, h1, h2 with
    | [], _, _ => rw [tlvs_nil, tlvs_nil]
    | [x], _, _ => rw [tlvs_single, tlvs_single]
    | t :: l :: rest, h1, h2 =>
      cases f2 with
      | zero => simp at h2
      | succ f2 =>
        rw [tlvs_cons, tlvs_cons]
        split
        · rfl
        · rw [ih f2 _ (by simp at h1 ⊢; omega) (by simp at h2 ⊢; omega)]

theorem parseTLVs_nil : Spec.parseTLVs [] = some [] := rfl
theorem parseTLVs_single (x : UInt8) : Spec.parseTLVs [x] = none := rfl
theorem parseTLVs_cons (t l : UInt8) (rest : Bytes) :
    Spec.parseTLVs (t :: l :: rest) =
      if rest.length < l.toNat then none
      else (Spec.parseTLVs (rest.drop l.toNat)).map ((t, rest.take l.toNat) :: ·) := by
  unfold Spec.parseTLVs
  show Spec.tlvs (rest.length + 1 + 1) _ = _
  rw [tlvs_cons]
  split
  · rfl
  · rw [tlvs_fuel (rest.length + 1) (rest.drop l.toNat).length _ (by simp; omega) (Nat.le_refl _)]

/-- wire form of one TLV record -/
def tlvWire (x : UInt8 × Bytes) : Bytes := [x.1, UInt8.ofNat x.2.length] ++ x.2

theorem parseTLVs_wire (xs : List (UInt8 × Bytes)) (h : ∀ x ∈ xs, x.2.length ≤ 255) :
    Spec.parseTLVs (xs.map tlvWire).flatten = some xs := by
  induction xs with
  | nil => rfl
  | cons x xs ih =>
    have hx := h x List.mem_cons_self
    have ih := ih (fun y hy => h y (List.mem_cons_of_mem _ hy))
    obtain ⟨t, v⟩ := x
    simp only at hx
    have hl : (UInt8.ofNat v.length).toNat = v.length := by
      rw [UInt8.toNat_ofNat']; exact Nat.mod_eq_of_lt (by omega)
    simp only [List.map_cons, List.flatten_cons, tlvWire, List.cons_append, List.nil_append]
    rw [parseTLVs_cons, hl, if_neg (by simp)]
    simp [ih]

theorem parseTLVs_sound : ∀ (n : Nat) (b : Bytes) (xs : List (UInt8 × Bytes)), b.length ≤ n →
    Spec.parseTLVs b = some xs → (∀ x ∈ xs, x.2.length ≤ 255) ∧ (xs.map tlvWire).flatten = b := by
  intro n
  induction n with
  | zero =>
    intro b xs h hp
    have : b = [] := List.eq_nil_of_length_eq_zero (by omega)
    subst this
    cases hp; simp
  | succ n ih =>
    intro b xs h hp
    match b, h, hp with
    | [], _, hp => cases hp; simp
    | [x], _, hp => cases hp
    | t :: l :: rest, h, hp =>
      rw [parseTLVs_cons] at hp
      split at hp
      · cases hp
      · rename_i hlen
        cases hr : Spec.parseTLVs (rest.drop l.toNat) with
        | none => rw [hr] at hp; cases hp
        | some ys =>
          rw [hr] at hp
          simp only [Option.map_some, Option.some.injEq] at hp
          subst hp
          have ⟨h1, h2⟩ := ih _ ys (by simp at h ⊢; omega) hr
          have hl := l.toNat_lt
          have htl : (rest.take l.toNat).length = l.toNat := by simp; omega
          constructor
          · intro x hx
            rcases List.mem_cons.1 hx with rfl | hx
            · simp only [htl]; omega
            · exact h1 x hx
          · simp only [List.map_cons, List.flatten_cons, h2, tlvWire, htl, UInt8.ofNat_toNat,
              List.cons_append, List.nil_append, List.take_append_drop]

theorem parseTLVs_eq_nil (b : Bytes) (h : Spec.parseTLVs b = some []) : b = [] := by
  have := (parseTLVs_sound b.length b [] (Nat.le_refl _) h).2
  simpa using this.symm


/-! ## capabilities / parameters (spec side) -/

def capPair (c : Cap) : UInt8 × Bytes := (c.code, c.value)
def pairCap (x : UInt8 × Bytes) : Cap := ⟨x.1, x.2⟩

theorem pairCap_capPair (c : Cap) : pairCap (capPair c) = c := rfl
theorem capPair_pairCap (x : UInt8 × Bytes) : capPair (pairCap x) = x := rfl

theorem parseCaps_eq (b : Bytes) :
    Spec.parseCaps b = match Spec.parseTLVs b with
      | some (x :: xs) => some ((x :: xs).map pairCap)
      | _ => none := by
  have hf : (fun (x : UInt8 × Bytes) => match x with | (c, v) => (⟨c, v⟩ : Cap)) = pairCap := by
    funext ⟨c, v⟩; rfl
  unfold Spec.parseCaps
  rw [hf]
  rcases Spec.parseTLVs b with _ | _ | _ <;> rfl

theorem capsWire_eq (cs : List Cap) : Spec.capsWire cs = ((cs.map capPair).map tlvWire).flatten := by
  unfold Spec.capsWire; rw [List.map_map]; rfl

theorem paramsWire_eq (ps : List (List Cap)) :
    Spec.paramsWire ps = ((ps.map fun p => ((2 : UInt8), Spec.capsWire p)).map tlvWire).flatten := by
  unfold Spec.paramsWire; rw [List.map_map]; rfl

theorem parseCaps_wire (cs : List Cap) (hne : cs ≠ []) (h : ∀ c ∈ cs, c.value.length ≤ 255) :
    Spec.parseCaps (Spec.capsWire cs) = some cs := by
  rw [parseCaps_eq, capsWire_eq, parseTLVs_wire]
  · cases cs with
    | nil => exact absurd rfl hne
    | cons c cs =>
      simp only [List.map_cons, List.map_map, pairCap_capPair]
      have : (pairCap ∘ capPair) = id := by funext x; rfl
      rw [this, List.map_id]
  · intro x hx
    obtain ⟨c, hc, rfl⟩ := List.mem_map.1 hx
    exact h c hc

theorem parseCaps_sound (b : Bytes) (cs : List Cap) (h : Spec.parseCaps b = some cs) :
    cs ≠ [] ∧ (∀ c ∈ cs, c.value.length ≤ 255) ∧ Spec.capsWire cs = b := by
  rw [parseCaps_eq] at h
  split at h
  · rename_i x xs hp
    cases h
    have ⟨h1, h2⟩ := parseTLVs_sound b.length b _ (Nat.le_refl _) hp
    refine ⟨by simp, ?_, ?_⟩
    · intro c hc
      obtain ⟨y, hy, rfl⟩ := List.mem_map.1 hc
      exact h1 y hy
    · rw [capsWire_eq, List.map_map (f := pairCap)]
      have : (capPair ∘ pairCap) = id := by funext x; rfl
      rw [this, List.map_id]; exact h2
  · cases h

theorem parseParams_wire (ps : List (List Cap))
    (h : ∀ p ∈ ps, p ≠ [] ∧ (∀ c ∈ p, c.value.length ≤ 255)) :
    Spec.parseParams (ps.map fun p => ((2 : UInt8), Spec.capsWire p)) = some ps := by
  induction ps with
  | nil => rfl
  | cons p ps ih =>
    have hp := h p List.mem_cons_self
    have ih := ih (fun q hq => h q (List.mem_cons_of_mem _ hq))
    simp only [List.map_cons, Spec.parseParams, ne_eq, not_true, if_false, parseCaps_wire p hp.1 hp.2, ih]

theorem parseParams_sound (tl : List (UInt8 × Bytes)) (ps : List (List Cap))
    (h : Spec.parseParams tl = some ps) :
    tl = (ps.map fun p => ((2 : UInt8), Spec.capsWire p)) ∧
      ∀ p ∈ ps, p ≠ [] ∧ (∀ c ∈ p, c.value.length ≤ 255) := by
  induction tl generalizing ps with
  | nil => cases h; simp
  | cons x tl ih =>
    obtain ⟨t, v⟩ := x
    simp only [Spec.parseParams] at h
    split at h
    · cases h
    · rename_i ht
      have ht : t = 2 := by simpa using ht
      subst ht
      split at h
      · rename_i cs rest hc hr
        cases h
        have ⟨h1, h2, h3⟩ := parseCaps_sound v cs hc
        have ⟨h4, h5⟩ := ih rest hr
        constructor
        · simp [h3, ← h4]
        · intro p hp
          rcases List.mem_cons.1 hp with rfl | hp
          · exact ⟨h1, h2⟩
          · exact h5 p hp
      · cases h

/-! ## OPEN (spec side) -/

theorem n32_u32 (x : UInt32) :
    UInt32.ofNat (Spec.n32 (UInt8.ofNat (x.toNat / 16777216)) (UInt8.ofNat (x.toNat / 65536 % 256))
      (UInt8.ofNat (x.toNat / 256 % 256)) (UInt8.ofNat (x.toNat % 256))) = x := by
  apply UInt32.toNat_inj.1
  have := x.toNat_lt
  simp only [Spec.n32, UInt32.toNat_ofNat', UInt8.toNat_ofNat']
  omega

theorem u16_n16 (a b : UInt8) : Spec.u16 (UInt16.ofNat (Spec.n16 a b)).toNat = [a, b] := by
  have := a.toNat_lt; have := b.toNat_lt
  have h : (UInt16.ofNat (Spec.n16 a b)).toNat = a.toNat * 256 + b.toNat := by
    simp only [Spec.n16, UInt16.toNat_ofNat']; omega
  rw [h]
  simp only [Spec.u16, List.cons.injEq, and_true]
  constructor <;> apply UInt8.toNat_inj.1 <;> simp only [UInt8.toNat_ofNat'] <;> omega

theorem u32_n32 (a b c d : UInt8) : Spec.u32 (UInt32.ofNat (Spec.n32 a b c d)).toNat = [a, b, c, d] := by
  have := a.toNat_lt; have := b.toNat_lt; have := c.toNat_lt; have := d.toNat_lt
  have h : (UInt32.ofNat (Spec.n32 a b c d)).toNat = a.toNat * 16777216 + b.toNat * 65536 + c.toNat * 256 + d.toNat := by
    simp only [Spec.n32, UInt32.toNat_ofNat']; omega
  rw [h]
  simp only [Spec.u32, List.cons.injEq, and_true]
  refine ⟨?_, ?_, ?_, ?_⟩ <;> apply UInt8.toNat_inj.1 <;> simp only [UInt8.toNat_ofNat'] <;> omega

theorem parseOpen_cons (v a1 a2 h1 h2 i1 i2 i3 i4 opl : UInt8) (rest : Bytes) :
    Spec.parseOpen (v :: a1 :: a2 :: h1 :: h2 :: i1 :: i2 :: i3 :: i4 :: opl :: rest) =
      if opl.toNat ≠ rest.length then none else
      match Spec.parseTLVs rest with
      | some (p :: ps) =>
        (Spec.parseParams (p :: ps)).map fun params =>
          ⟨v, UInt16.ofNat (Spec.n16 a1 a2), UInt16.ofNat (Spec.n16 h1 h2), UInt32.ofNat (Spec.n32 i1 i2 i3 i4), params⟩
      | _ => none := rfl

theorem parseOpen_some (v a1 a2 h1 h2 i1 i2 i3 i4 opl : UInt8) (rest : Bytes)
    (tl : List (UInt8 × Bytes)) (params : List (List Cap))
    (hl : opl.toNat = rest.length) (ht : Spec.parseTLVs rest = some tl) (hne : tl ≠ [])
    (hp : Spec.parseParams tl = some params) :
    Spec.parseOpen (v :: a1 :: a2 :: h1 :: h2 :: i1 :: i2 :: i3 :: i4 :: opl :: rest) =
      some ⟨v, UInt16.ofNat (Spec.n16 a1 a2), UInt16.ofNat (Spec.n16 h1 h2), UInt32.ofNat (Spec.n32 i1 i2 i3 i4), params⟩ := by
  rw [parseOpen_cons, if_neg (by simpa using hl), ht]
  cases tl with
  | nil => exact absurd rfl hne
  | cons p ps => simp only [hp, Option.map_some]

theorem parseOpen_inv (b : Bytes) (o : OpenMsg) (h : Spec.parseOpen b = some o) :
    ∃ v a1 a2 h1 h2 i1 i2 i3 i4 opl rest tl,
      b = v :: a1 :: a2 :: h1 :: h2 :: i1 :: i2 :: i3 :: i4 :: opl :: rest ∧
      opl.toNat = rest.length ∧ Spec.parseTLVs rest = some tl ∧ tl ≠ [] ∧
      Spec.parseParams tl = some o.params ∧
      o = ⟨v, UInt16.ofNat (Spec.n16 a1 a2), UInt16.ofNat (Spec.n16 h1 h2), UInt32.ofNat (Spec.n32 i1 i2 i3 i4), o.params⟩ := by
  unfold Spec.parseOpen at h
  split at h
  · rename_i v a1 a2 h1 h2 i1 i2 i3 i4 opl rest
    split at h
    · cases h
    · rename_i hl
      split at h
      · rename_i p ps ht
        cases hp : Spec.parseParams (p :: ps) with
        | none => rw [hp] at h; cases h
        | some params =>
          rw [hp] at h
          simp only [Option.map_some, Option.some.injEq] at h
          subst h
          exact ⟨v, a1, a2, h1, h2, i1, i2, i3, i4, opl, rest, p :: ps, rfl, by simpa using hl, ht, by simp, hp, rfl⟩
      · cases h
  · cases h

theorem open_spec_rt' (o : OpenMsg) (h : Spec.Representable o) : Spec.parseOpen (Spec.openBody o) = some o := by
  obtain ⟨hne, hall, hlen⟩ := h
  obtain ⟨v, asn, hold, id, params⟩ := o
  simp only at hne hall hlen
  have hopl : (UInt8.ofNat (Spec.paramsWire params).length).toNat = (Spec.paramsWire params).length := by
    rw [UInt8.toNat_ofNat']; exact Nat.mod_eq_of_lt (by omega)
  have ht : Spec.parseTLVs (Spec.paramsWire params) = some (params.map fun p => ((2 : UInt8), Spec.capsWire p)) := by
    rw [paramsWire_eq, parseTLVs_wire]
    intro x hx
    obtain ⟨p, hp, rfl⟩ := List.mem_map.1 hx
    exact (hall p hp).2.2
  have hp := parseParams_wire params (fun p hp => ⟨(hall p hp).1, (hall p hp).2.1⟩)
  have := parseOpen_some v (UInt8.ofNat (asn.toNat / 256)) (UInt8.ofNat (asn.toNat % 256))
    (UInt8.ofNat (hold.toNat / 256)) (UInt8.ofNat (hold.toNat % 256))
    (UInt8.ofNat (id.toNat / 16777216)) (UInt8.ofNat (id.toNat / 65536 % 256))
    (UInt8.ofNat (id.toNat / 256 % 256)) (UInt8.ofNat (id.toNat % 256))
    (UInt8.ofNat (Spec.paramsWire params).length) (Spec.paramsWire params) _ params hopl ht
    (by cases params with
        | nil => exact absurd rfl hne
        | cons _ _ => simp) hp
  rw [n16_u16, n16_u16, n32_u32] at this
  exact this

theorem open_spec_tr' (b : Bytes) (o : OpenMsg) (h : Spec.parseOpen b = some o) :
    Spec.Representable o ∧ Spec.openBody o = b := by
  obtain ⟨v, a1, a2, h1, h2, i1, i2, i3, i4, opl, rest, tl, rfl, hl, ht, hne, hp, ho⟩ := parseOpen_inv b o h
  have ⟨ht1, ht2⟩ := parseTLVs_sound rest.length rest tl (Nat.le_refl _) ht
  have ⟨hp1, hp2⟩ := parseParams_sound tl o.params hp
  have hw : Spec.paramsWire o.params = rest := by rw [paramsWire_eq, ← hp1]; exact ht2
  have hopl := opl.toNat_lt
  constructor
  · refine ⟨?_, ?_, ?_⟩
    · intro hnil; rw [hnil] at hp1; exact hne hp1
    · intro p hpm
      refine ⟨(hp2 p hpm).1, (hp2 p hpm).2, ?_⟩
      have : ((2 : UInt8), Spec.capsWire p) ∈ tl := by
        rw [hp1]; exact List.mem_map.2 ⟨p, hpm, rfl⟩
      exact ht1 _ this
    · rw [hw]; omega
  · rw [ho]
    simp only [Spec.openBody, hw, u16_n16, u32_n32, ← hl, UInt8.ofNat_toNat]
    rfl

/-! ## the model's TLV loops -/

theorem toNat_add2 (l : UInt8) (h : l.toNat + 2 < 256) : (l + 2).toNat = l.toNat + 2 := by
  rw [UInt8.toNat_add]
  show (l.toNat + 2) % 256 = _
  exact Nat.mod_eq_of_lt h

theorem step_value (t l : UInt8) (tail : Bytes) (h1 : l.toNat ≤ tail.length) (h2 : tail.length + 2 ≤ 255) :
    (if l > 0 then slice? (t :: l :: tail) 2 (l + 2).toNat else some []) = some (tail.take l.toNat) := by
  have hl := toNat_add2 l (by omega)
  by_cases h0 : l > 0
  · rw [if_pos h0, hl]
    unfold slice?
    rw [if_pos (by simp; omega)]
    simp
  · rw [if_neg h0]
    have : l.toNat = 0 := by
      have : ¬ ((0 : UInt8).toNat < l.toNat) := fun h => h0 (UInt8.lt_iff_toNat_lt.2 h)
      have h00 : (0 : UInt8).toNat = 0 := rfl
      omega
    rw [this]; rfl

theorem step_rest (t l : UInt8) (tail : Bytes) (h1 : l.toNat ≤ tail.length) :
    sliceFrom? (t :: l :: tail) (2 + l.toNat) = some (tail.drop l.toNat) := by
  unfold sliceFrom?
  rw [if_pos (by simp; omega)]
  simp [Nat.add_comm 2]

theorem decodeCapsLoop_cons (fuel : Nat) (t l : UInt8) (tail : Bytes) (acc : List Cap)
    (h1 : l.toNat ≤ tail.length) (h2 : tail.length + 2 ≤ 255) :
    decodeCapsLoop (fuel + 1) (t :: l :: tail) acc =
      if (tail.drop l.toNat).length = 0 then .ok (acc ++ [⟨t, tail.take l.toNat⟩])
      else decodeCapsLoop fuel (tail.drop l.toNat) (acc ++ [⟨t, tail.take l.toNat⟩]) := by
  rw [decodeCapsLoop]
  simp only [step_value t l tail h1 h2, step_rest t l tail h1]
  rw [if_neg (by simp; omega)]

theorem decodeCapsLoop_short (fuel : Nat) (t l : UInt8) (tail : Bytes) (acc : List Cap)
    (h : tail.length < l.toNat) :
    decodeCapsLoop (fuel + 1) (t :: l :: tail) acc = nerr 2 0 [] := by
  rw [decodeCapsLoop]
  simp only []
  rw [if_pos (by simp; omega)]
  rfl

theorem decodeCapsLoop_single (fuel : Nat) (x : UInt8) (acc : List Cap) :
    decodeCapsLoop (fuel + 1) [x] acc = nerr 2 0 [] := rfl

theorem decodeCapsLoop_nil (fuel : Nat) (acc : List Cap) :
    decodeCapsLoop (fuel + 1) [] acc = nerr 2 0 [] := rfl


theorem decodeCapsLoop_spec : ∀ (fuel : Nat) (b : Bytes) (acc : List Cap),
    b.length < fuel → b.length ≤ 255 → b ≠ [] →
    decodeCapsLoop fuel b acc = match Spec.parseTLVs b with
      | some tl => .ok (acc ++ tl.map pairCap)
      | none => nerr 2 0 [] := by
  intro fuel
  induction fuel with
  | zero => intro b acc h; omega
  | succ fuel ih =>
    intro b acc hf hb hne
    match b, hf, hb, hne with
    | [], _, _, hne => exact absurd rfl hne
    | [x], _, _, _ => rfl
    | t :: l :: tail, hf, hb, _ =>
      simp only [List.length_cons] at hf hb
      rw [parseTLVs_cons]
      by_cases hs : tail.length < l.toNat
      · rw [decodeCapsLoop_short _ _ _ _ _ hs, if_pos hs]
      · rw [decodeCapsLoop_cons _ _ _ _ _ (by omega) (by omega), if_neg hs]
        by_cases hd : tail.drop l.toNat = []
        · rw [hd]; simp [parseTLVs_nil, pairCap]
        · rw [if_neg (fun h => hd (List.eq_nil_of_length_eq_zero h)), ih _ _ (by simp; omega) (by simp; omega) hd]
          cases Spec.parseTLVs (tail.drop l.toNat) with
          | none => rfl
          | some tl => simp [pairCap]

theorem decodeCaps_eq (b : Bytes) (hb : b.length ≤ 255) :
    decodeCaps b = match Spec.parseCaps b with
      | some cs => .ok cs
      | none => nerr 2 0 [] := by
  unfold decodeCaps
  by_cases hne : b = []
  · subst hne; rfl
  · rw [decodeCapsLoop_spec _ b [] (Nat.lt_succ_self _) hb hne, parseCaps_eq]
    cases h : Spec.parseTLVs b with
    | none => rfl
    | some tl =>
      cases tl with
      | nil => exact absurd (parseTLVs_eq_nil b h) hne
      | cons x xs => simp


theorem decodeParamsLoop_cons (fuel : Nat) (t l : UInt8) (tail : Bytes) (acc : List (List Cap))
    (h1 : l.toNat ≤ tail.length) (h2 : tail.length + 2 ≤ 255) :
    decodeParamsLoop (fuel + 1) (t :: l :: tail) acc =
      if t = 2 then
        match Spec.parseCaps (tail.take l.toNat) with
        | some cs =>
          if (tail.drop l.toNat).length = 0 then .ok (acc ++ [cs])
          else decodeParamsLoop fuel (tail.drop l.toNat) (acc ++ [cs])
        | none => nerr 2 0 []
      else nerr 2 4 [] := by
  rw [decodeParamsLoop]
  simp only [step_value t l tail h1 h2, step_rest t l tail h1]
  rw [if_neg (by simp; omega), decodeCaps_eq _ (by simp; omega)]
  by_cases ht : t = Gen.capabilityOptionalParamType
  · have ht' : t = 2 := ht
    rw [if_pos ht, if_pos ht']
    cases Spec.parseCaps (tail.take l.toNat) <;> rfl
  · have ht' : ¬ t = 2 := ht
    rw [if_neg ht, if_neg ht']; rfl

theorem decodeParamsLoop_short (fuel : Nat) (t l : UInt8) (tail : Bytes) (acc : List (List Cap))
    (h : tail.length < l.toNat) :
    decodeParamsLoop (fuel + 1) (t :: l :: tail) acc = nerr 2 0 [] := by
  rw [decodeParamsLoop]
  simp only []
  rw [if_pos (by simp; omega)]
  rfl

theorem decodeParamsLoop_single (fuel : Nat) (x : UInt8) (acc : List (List Cap)) :
    decodeParamsLoop (fuel + 1) [x] acc = nerr 2 0 [] := rfl

theorem decodeParamsLoop_nil (fuel : Nat) (acc : List (List Cap)) :
    decodeParamsLoop (fuel + 1) [] acc = nerr 2 0 [] := rfl

/-! ### `walkParams` -/

theorem walkParams_nil (f : Nat) : Spec.walkParams f [] = [] := by cases f <;> rfl
theorem walkParams_single (f : Nat) (x : UInt8) : Spec.walkParams f [x] = [(2, 0)] := by cases f <;> rfl
theorem walkParams_cons (f : Nat) (t l : UInt8) (rest : Bytes) :
    Spec.walkParams (f + 1) (t :: l :: rest) =
      if rest.length < l.toNat then [(2, 0)]
      else
        (if t ≠ 2 then [(2, 4)] else if (Spec.parseCaps (rest.take l.toNat)).isNone then [(2, 0)] else []) ++
        Spec.walkParams f (rest.drop l.toNat) := rfl

theorem walkParams_fuel : ∀ (f1 f2 : Nat) (b : Bytes), b.length ≤ f1 → b.length ≤ f2 →
    Spec.walkParams f1 b = Spec.walkParams f2 b := by
  intro f1
  induction f1 with
  | zero =>
    intro f2 b h1 _
    have : b = [] := List.eq_nil_of_length_eq_zero (by omega)
    subst this; rw [walkParams_nil, walkParams_nil]
  | succ f1 ih =>
    intro f2 b h1 h2
    match b, h1, h2 with
    | [], _, _ => rw [walkParams_nil, walkParams_nil]
    | [x], _, _ => rw [walkParams_single, walkParams_single]
    | t :: l :: rest, h1, h2 =>
      cases f2 with
      | zero => simp at h2
      | succ f2 =>
        rw [walkParams_cons, walkParams_cons]
        split
        · rfl
        · rw [ih f2 _ (by simp at h1 ⊢; omega) (by simp at h2 ⊢; omega)]

/-- `walkParams` with its canonical fuel -/
def walk (b : Bytes) : List (Nat × Nat) := Spec.walkParams b.length b

theorem walk_single (x : UInt8) : walk [x] = [(2, 0)] := rfl
theorem walk_cons (t l : UInt8) (rest : Bytes) :
    walk (t :: l :: rest) =
      if rest.length < l.toNat then [(2, 0)]
      else
        (if t ≠ 2 then [(2, 4)] else if (Spec.parseCaps (rest.take l.toNat)).isNone then [(2, 0)] else []) ++
        walk (rest.drop l.toNat) := by
  unfold walk
  show Spec.walkParams (rest.length + 1 + 1) _ = _
  rw [walkParams_cons]
  split
  · rfl
  · rw [walkParams_fuel (rest.length + 1) (rest.drop l.toNat).length _ (by simp; omega) (Nat.le_refl _)]


theorem parseParams_cons_some (v : Bytes) (tl : List (UInt8 × Bytes)) (cs : List Cap) (rest : List (List Cap))
    (h1 : Spec.parseCaps v = some cs) (h2 : Spec.parseParams tl = some rest) :
    Spec.parseParams ((2, v) :: tl) = some (cs :: rest) := by
  simp [Spec.parseParams, h1, h2]

theorem parseParams_cons_none1 (v : Bytes) (tl : List (UInt8 × Bytes))
    (h1 : Spec.parseCaps v = none) : Spec.parseParams ((2, v) :: tl) = none := by
  simp [Spec.parseParams, h1]

theorem parseParams_cons_none2 (v : Bytes) (tl : List (UInt8 × Bytes))
    (h2 : Spec.parseParams tl = none) : Spec.parseParams ((2, v) :: tl) = none := by
  simp only [Spec.parseParams, h2]
  split
  · simp_all
  · split <;> simp_all

theorem parseParams_cons_ne (t : UInt8) (v : Bytes) (tl : List (UInt8 × Bytes)) (h : t ≠ 2) :
    Spec.parseParams ((t, v) :: tl) = none := by
  simp [Spec.parseParams, h]

theorem decodeParamsLoop_spec : ∀ (fuel : Nat) (b : Bytes) (acc : List (List Cap)),
    b.length < fuel → b.length ≤ 255 → b ≠ [] →
    (∃ tl ps, Spec.parseTLVs b = some tl ∧ Spec.parseParams tl = some ps ∧
        decodeParamsLoop fuel b acc = .ok (acc ++ ps)) ∨
    (∃ sub : UInt8, decodeParamsLoop fuel b acc = nerr 2 sub [] ∧ (2, sub.toNat) ∈ walk b ∧
        ∀ tl, Spec.parseTLVs b = some tl → Spec.parseParams tl = none) := by
  intro fuel
  induction fuel with
  | zero => intro b acc h; omega
  | succ fuel ih =>
    intro b acc hf hb hne
    match b, hf, hb, hne with
    | [], _, _, hne => exact absurd rfl hne
    | [x], _, _, _ =>
      right
      exact ⟨0, rfl, by simp [walk_single], by intro tl h; cases h⟩
    | t :: l :: tail, hf, hb, _ =>
      simp only [List.length_cons] at hf hb
      rw [parseTLVs_cons, walk_cons]
      by_cases hs : tail.length < l.toNat
      · right
        rw [decodeParamsLoop_short _ _ _ _ _ hs, if_pos hs, if_pos hs]
        exact ⟨0, rfl, by simp, by intro tl h; cases h⟩
      · rw [decodeParamsLoop_cons _ _ _ _ _ (by omega) (by omega), if_neg hs, if_neg hs]
        by_cases ht : t = 2
        · subst ht
          rw [if_pos rfl]
          cases hc : Spec.parseCaps (tail.take l.toNat) with
          | none =>
            right
            refine ⟨0, rfl, by simp, ?_⟩
            intro tl h
            cases hr : Spec.parseTLVs (tail.drop l.toNat) with
            | none => rw [hr] at h; cases h
            | some tl' =>
              rw [hr] at h; cases h
              exact parseParams_cons_none1 _ _ hc
          | some cs =>
            simp only []
            by_cases hd : tail.drop l.toNat = []
            · left
              rw [hd]
              refine ⟨[(2, tail.take l.toNat)], [cs], by simp [parseTLVs_nil], ?_, by simp⟩
              exact parseParams_cons_some _ _ _ _ hc rfl
            · rw [if_neg (fun h => hd (List.eq_nil_of_length_eq_zero h))]
              rcases ih (tail.drop l.toNat) (acc ++ [cs]) (by simp; omega) (by simp; omega) hd with
                ⟨tl', ps', h1, h2, h3⟩ | ⟨sub, h1, h2, h3⟩
              · left
                refine ⟨(2, tail.take l.toNat) :: tl', cs :: ps', by simp [h1], ?_, by simp [h3]⟩
                exact parseParams_cons_some _ _ _ _ hc h2
              · right
                refine ⟨sub, h1, List.mem_append_right _ h2, ?_⟩
                intro tl h
                cases hr : Spec.parseTLVs (tail.drop l.toNat) with
                | none => rw [hr] at h; cases h
                | some tl' =>
                  rw [hr] at h; cases h
                  exact parseParams_cons_none2 _ _ (h3 tl' hr)
        · right
          rw [if_neg ht]
          refine ⟨4, rfl, by simp [ht], ?_⟩
          intro tl h
          cases hr : Spec.parseTLVs (tail.drop l.toNat) with
          | none => rw [hr] at h; cases h
          | some tl' =>
            rw [hr] at h; cases h
            exact parseParams_cons_ne _ _ _ ht


/-! ## `decodeOpen` against the spec -/

theorem decodeOpen_cons (v a1 a2 h1 h2 i1 i2 i3 i4 opl : UInt8) (rest : Bytes) :
    decodeOpen (v :: a1 :: a2 :: h1 :: h2 :: i1 :: i2 :: i3 :: i4 :: opl :: rest) =
      if opl.toNat ≠ rest.length then nerr 2 0 []
      else
        match decodeParams rest with
        | .ok ps => .ok ⟨v, be16 a1 a2, be16 h1 h2, be32 i1 i2 i3 i4, ps⟩
        | .err e => .err e
        | .panic => .panic := rfl

theorem openStructFaults_cons (v a1 a2 h1 h2 i1 i2 i3 i4 opl : UInt8) (rest : Bytes) :
    Spec.openStructFaults (v :: a1 :: a2 :: h1 :: h2 :: i1 :: i2 :: i3 :: i4 :: opl :: rest) =
      if opl.toNat ≠ rest.length then [(2, 0)]
      else if rest.length = 0 then [(2, 0)]
      else walk rest := rfl

theorem decodeOpen_cases_cons (v a1 a2 h1 h2 i1 i2 i3 i4 opl : UInt8) (rest : Bytes) :
    let b := v :: a1 :: a2 :: h1 :: h2 :: i1 :: i2 :: i3 :: i4 :: opl :: rest
    (∃ o, decodeOpen b = .ok o ∧ Spec.parseOpen b = some o) ∨
    (∃ n, decodeOpen b = .err (.notif n true) ∧ Spec.parseOpen b = none ∧
      (n.code.toNat, n.sub.toNat) ∈ Spec.openStructFaults b) := by
  intro b
  show (∃ o, decodeOpen (v :: a1 :: a2 :: h1 :: h2 :: i1 :: i2 :: i3 :: i4 :: opl :: rest) = .ok o ∧
      Spec.parseOpen (v :: a1 :: a2 :: h1 :: h2 :: i1 :: i2 :: i3 :: i4 :: opl :: rest) = some o) ∨
    (∃ n, decodeOpen (v :: a1 :: a2 :: h1 :: h2 :: i1 :: i2 :: i3 :: i4 :: opl :: rest) = .err (.notif n true) ∧
      Spec.parseOpen (v :: a1 :: a2 :: h1 :: h2 :: i1 :: i2 :: i3 :: i4 :: opl :: rest) = none ∧
      (n.code.toNat, n.sub.toNat) ∈
        Spec.openStructFaults (v :: a1 :: a2 :: h1 :: h2 :: i1 :: i2 :: i3 :: i4 :: opl :: rest))
  rw [decodeOpen_cons, parseOpen_cons, openStructFaults_cons]
  by_cases hl : opl.toNat ≠ rest.length
  · right
    rw [if_pos hl, if_pos hl, if_pos hl]
    exact ⟨⟨2, 0, []⟩, rfl, rfl, by simp⟩
  · rw [if_neg hl, if_neg hl, if_neg hl]
    have hl : opl.toNat = rest.length := by simpa using hl
    have hopl := opl.toNat_lt
    by_cases hr : rest = []
    · right
      subst hr
      exact ⟨⟨2, 0, []⟩, rfl, rfl, by simp⟩
    · rw [if_neg (fun h => hr (List.eq_nil_of_length_eq_zero h))]
      unfold decodeParams
      rcases decodeParamsLoop_spec (rest.length + 1) rest [] (Nat.lt_succ_self _) (by omega) hr with
        ⟨tl, ps, h1, h2, h3⟩ | ⟨sub, h1, h2, h3⟩
      · left
        rw [h3, h1]
        cases tl with
        | nil => exact absurd (parseTLVs_eq_nil rest h1) hr
        | cons p tl' =>
          simp only [h2, Option.map_some, List.nil_append]
          exact ⟨_, rfl, rfl⟩
      · right
        rw [h1]
        refine ⟨⟨2, sub, []⟩, rfl, ?_, h2⟩
        cases ht : Spec.parseTLVs rest with
        | none => rfl
        | some tl =>
          cases tl with
          | nil => rfl
          | cons p tl' => simp only [h3 _ ht, Option.map_none]

theorem decodeOpen_cases (b : Bytes) :
    (∃ o, decodeOpen b = .ok o ∧ Spec.parseOpen b = some o) ∨
    (∃ n, decodeOpen b = .err (.notif n true) ∧ Spec.parseOpen b = none ∧
      (n.code.toNat, n.sub.toNat) ∈ Spec.openStructFaults b) := by
  match b with
  | v :: a1 :: a2 :: h1 :: h2 :: i1 :: i2 :: i3 :: i4 :: opl :: rest =>
    exact decodeOpen_cases_cons v a1 a2 h1 h2 i1 i2 i3 i4 opl rest
  | [] | [_] | [_, _] | [_, _, _] | [_, _, _, _] | [_, _, _, _, _] | [_, _, _, _, _, _]
  | [_, _, _, _, _, _, _] | [_, _, _, _, _, _, _, _] | [_, _, _, _, _, _, _, _, _] =>
    right
    exact ⟨⟨1, 2, _⟩, rfl, rfl, by simp [Spec.openStructFaults]⟩


/-! ## the OPEN encoder -/

/-- what `Spec.Representable` asks of one capabilities parameter -/
def ParamOK (p : List Cap) : Prop :=
  p ≠ [] ∧ (∀ c ∈ p, c.value.length ≤ 255) ∧ (Spec.capsWire p).length ≤ 255

theorem encodeCaps_flat (cs : List Cap) : (cs.map encodeCap).flatten = Spec.capsWire cs := rfl

theorem encodeCapsParam_ok (cs : List Cap) (h : ParamOK cs) :
    encodeCapsParam cs = some (Spec.paramWire cs) := by
  obtain ⟨h1, h2, h3⟩ := h
  unfold encodeCapsParam
  rw [encodeCaps_flat]
  have hpos : cs.length > 0 := List.length_pos_iff.2 h1
  have hany : (cs.any fun c => decide (c.value.length > 255)) = false := by
    rw [List.any_eq_false]; intro c hc; simpa using h2 c hc
  rw [if_pos hpos, hany, if_neg (by simp)]
  simp only []
  rw [if_neg (by omega)]; rfl

theorem encodeCapsParam_bad (cs : List Cap) (h : ¬ ParamOK cs) : encodeCapsParam cs = none := by
  unfold encodeCapsParam
  rw [encodeCaps_flat]
  by_cases h1 : cs.length > 0
  · rw [if_pos h1]
    cases hany : (cs.any fun c => decide (c.value.length > 255)) with
    | true => rfl
    | false =>
      rw [if_neg (by simp)]
      simp only []
      by_cases h3 : (Spec.capsWire cs).length > 255
      · rw [if_pos h3]
      · exfalso; apply h
        refine ⟨List.length_pos_iff.1 h1, ?_, by omega⟩
        intro c hc
        have := List.any_eq_false.1 hany c hc
        simpa using this
  · rw [if_neg h1]

theorem encodeParams_ok (ps : List (List Cap)) (h : ∀ p ∈ ps, ParamOK p) :
    encodeParams ps = some (Spec.paramsWire ps) := by
  induction ps with
  | nil => rfl
  | cons p ps ih =>
    rw [encodeParams, encodeCapsParam_ok p (h p List.mem_cons_self),
      ih (fun q hq => h q (List.mem_cons_of_mem _ hq))]
    simp [Spec.paramsWire]

theorem encodeParams_bad (ps : List (List Cap)) (h : ¬ ∀ p ∈ ps, ParamOK p) :
    encodeParams ps = none := by
  induction ps with
  | nil => exact absurd (by simp) h
  | cons p ps ih =>
    rw [encodeParams]
    by_cases h1 : ParamOK p
    · rw [encodeCapsParam_ok p h1, ih]
      intro h2; apply h
      intro q hq
      rcases List.mem_cons.1 hq with rfl | hq
      · exact h1
      · exact h2 q hq
    · rw [encodeCapsParam_bad p h1]

theorem encodeOpenBody_ok (o : OpenMsg) (h1 : ∀ p ∈ o.params, ParamOK p)
    (h2 : (Spec.paramsWire o.params).length ≤ 255) :
    encodeOpenBody o = some (Spec.openBody o) := by
  unfold encodeOpenBody
  rw [encodeParams_ok _ h1]
  simp only []
  rw [if_neg (by omega)]; rfl

theorem encodeOpenBody_bad (o : OpenMsg)
    (h : ¬ ((∀ p ∈ o.params, ParamOK p) ∧ (Spec.paramsWire o.params).length ≤ 255)) :
    encodeOpenBody o = none := by
  unfold encodeOpenBody
  by_cases h1 : ∀ p ∈ o.params, ParamOK p
  · rw [encodeParams_ok _ h1]
    simp only []
    rw [if_pos (by
      have : ¬ (Spec.paramsWire o.params).length ≤ 255 := fun h2 => h ⟨h1, h2⟩
      omega)]
  · rw [encodeParams_bad _ h1]

theorem representable_iff (o : OpenMsg) :
    Spec.Representable o ↔ o.params ≠ [] ∧ (∀ p ∈ o.params, ParamOK p) ∧ (Spec.paramsWire o.params).length ≤ 255 :=
  Iff.rfl


end CoreBGP.Lemmas
