import CoreBGP.Model.Packet
import CoreBGP.Model.Reader
import CoreBGP.Model.Update
import CoreBGP.Spec.Wire
import CoreBGP.Spec.Update
/-! Helper lemmas (never property statements). -/
namespace CoreBGP.Lemmas
open CoreBGP CoreBGP.Model


/-! ## slices -/


theorem slice?_eq {b : Bytes} {i j : Nat} (h1 : i ≤ j) (h2 : j ≤ b.length) :
    slice? b i j = some ((b.drop i).take (j - i)) := by
  simp [slice?, h1, h2]

theorem sliceFrom?_eq {b : Bytes} {i : Nat} (h : i ≤ b.length) :
    sliceFrom? b i = some (b.drop i) := by
  simp [sliceFrom?, h]

theorem mpReach_no_panic (flags : UInt8) (b : Bytes) (fn : MPReachArgs → Option Err) :
    mpReach flags b fn ≠ .panic := by
  unfold mpReach
  split
  · split
    · simp
    · rename_i h
      rw [slice?_eq (by omega) (by omega), sliceFrom?_eq (by omega)]
      simp
  · simp


/-! ## decodeUpdate -/


theorem length_two_eq {l : Bytes} (h : l.length = 2) : ∃ a b, l = [a, b] := by
  match l, h with
  | [a, b], _ => exact ⟨a, b, rfl⟩

theorem decodeUpdate_no_panic (cb : Callbacks) (b : Bytes) : decodeUpdate cb b ≠ .panic := by
  unfold decodeUpdate
  split
  · rename_i w1 w2 b'
    split
    · simp
    · dsimp only
      split
      · simp
      · rename_i h
        have hlen : ((b'.drop (be16 w1 w2).toNat).take 2).length = 2 := by
          simp; omega
        obtain ⟨p1, p2, hp⟩ := length_two_eq hlen
        rw [slice?_eq (by omega) (by omega), sliceFrom?_eq (by omega)]
        simp only [Nat.add_sub_cancel_left, hp]
        split
        · simp
        · rw [slice?_eq (by omega) (by omega)]
          simp only []
          split
          · simp
          · split
            · simp
            · simp
  · simp


/-! ## caps / params / open -/


theorem u8_add2 (x : UInt8) (h : x.toNat + 2 < 256) : (x + 2).toNat = x.toNat + 2 := by
  rw [UInt8.toNat_add]; simp; omega

theorem decodeCapsLoop_no_panic : ∀ (fuel : Nat) (b : Bytes) (acc : List Cap),
    b.length < fuel → b.length ≤ 255 → decodeCapsLoop fuel b acc ≠ .panic := by
  intro fuel
  induction fuel with
  | zero => intro b acc h; omega
  | succ fuel ih =>
    intro b acc hf h255
    unfold decodeCapsLoop
    split
    · rename_i capCode capLen tl
      split
      · simp [nerr]
      · rename_i hlen
        have hadd : (capLen + 2).toNat = capLen.toNat + 2 := u8_add2 _ (by omega)
        have hv : (if capLen > 0 then slice? (capCode :: capLen :: tl) 2 (capLen + 2).toNat else some [])
            = some (if capLen > 0 then ((capCode :: capLen :: tl).drop 2).take capLen.toNat else []) := by
          split
          · rw [hadd, slice?_eq (by omega) (by omega)]; simp
          · rfl
        dsimp only
        rw [hv, sliceFrom?_eq (by omega)]
        dsimp only
        split
        · simp
        · apply ih
          · simp at hf ⊢; omega
          · simp at h255 ⊢; omega
    · simp [nerr]

theorem decodeCaps_no_panic (b : Bytes) (h : b.length ≤ 255) : decodeCaps b ≠ .panic :=
  decodeCapsLoop_no_panic _ b [] (by omega) h



theorem decodeParamsLoop_no_panic : ∀ (fuel : Nat) (b : Bytes) (acc : List (List Cap)),
    b.length < fuel → b.length ≤ 255 → decodeParamsLoop fuel b acc ≠ .panic := by
  intro fuel
  induction fuel with
  | zero => intro b acc h; omega
  | succ fuel ih =>
    intro b acc hf h255
    unfold decodeParamsLoop
    split
    · rename_i pc pl tl
      split
      · simp [nerr]
      · rename_i hlen
        have hadd : (pl + 2).toNat = pl.toNat + 2 := u8_add2 _ (by omega)
        have hv : (if pl > 0 then slice? (pc :: pl :: tl) 2 (pl + 2).toNat else some [])
            = some (if pl > 0 then ((pc :: pl :: tl).drop 2).take pl.toNat else []) := by
          split
          · rw [hadd, slice?_eq (by omega) (by omega)]; simp
          · rfl
        dsimp only
        rw [hv, sliceFrom?_eq (by omega)]
        dsimp only
        split
        · have hc : decodeCaps (if pl > 0 then ((pc :: pl :: tl).drop 2).take pl.toNat else []) ≠ .panic := by
            apply decodeCaps_no_panic
            split
            · simp at h255 ⊢; omega
            · simp
          split
          · split
            · simp
            · apply ih
              · simp at hf ⊢; omega
              · simp at h255 ⊢; omega
          · simp
          · rename_i hp; exact absurd hp hc
        · simp [nerr]
    · simp [nerr]

theorem decodeParams_no_panic (b : Bytes) (h : b.length ≤ 255) : decodeParams b ≠ .panic :=
  decodeParamsLoop_no_panic _ b [] (by omega) h

theorem decodeOpen_no_panic (b : Bytes) : decodeOpen b ≠ .panic := by
  unfold decodeOpen
  split
  · rename_i v a1 a2 h1 h2 i1 i2 i3 i4 opl rest
    split
    · simp [nerr]
    · rename_i hopl
      have : rest.length ≤ 255 := by
        have := UInt8.toNat_lt opl
        omega
      have hp := decodeParams_no_panic rest this
      split
      · simp
      · simp
      · rename_i h; exact absurd h hp
  · simp [nerr]



/-! ## NOTIFICATION encoding -/


theorem be16Bytes_len16_rd (k : Nat) (h : k < 65536) : be16Bytes (len16 k) = Spec.u16 k := by
  simp only [be16Bytes, len16, Spec.u16, UInt16.toNat_ofNat']
  rw [Nat.mod_eq_of_lt (by simpa using h)]

theorem prependHeader_eq_frame (m : Bytes) (t : UInt8) (h : m.length ≤ 4077) :
    prependHeader m t = Spec.frame t m := by
  unfold prependHeader Spec.frame Spec.marker
  rw [be16Bytes_len16_rd _ (by simp only [Gen.headerLength]; omega)]
  simp only [Gen.headerLength, Nat.add_comm]

theorem encodeNotifBody_eq_rd (n : Notif) : encodeNotifBody n = [n.code, n.sub] ++ n.data := by
  unfold encodeNotifBody
  split
  · rfl
  · rename_i h
    have : n.data = [] := by
      cases hd : n.data with
      | nil => rfl
      | cons a l => simp [hd] at h
    simp [this]

theorem notif_wire (n : Notif) (h : n.data.length ≤ 4075) :
    encodeNotif n = Spec.frame 3 ([n.code, n.sub] ++ n.data) := by
  unfold encodeNotif
  rw [encodeNotifBody_eq_rd, prependHeader_eq_frame _ _ (by simp; omega)]
  rfl

theorem truncated_no_notification (s : Bytes) (h : s.length < 19) : readAll s = ([], .eof) := by
  unfold readAll readLoop readOne
  simp [Gen.headerLength, h]


/-! ## reader: header classification and framing -/


theorem be16_toNat_rd (a b : UInt8) : (be16 a b).toNat = Spec.n16 a b := by
  have := UInt8.toNat_lt a
  have := UInt8.toNat_lt b
  simp only [be16, Spec.n16, UInt16.toNat_ofNat']
  apply Nat.mod_eq_of_lt
  simp; omega

theorem any_ne_iff_ne_marker (l : Bytes) (hl : l.length = 16) :
    (l.any (· ≠ 0xFF) = true) ↔ l ≠ Spec.marker := by
  unfold Spec.marker
  rw [Ne, List.eq_replicate_iff]
  simp [hl]

/-- `readOne` on a stream that starts with a 19-byte header `h`, in specification vocabulary -/
theorem readOne_header (h rest : Bytes) (hl : h.length = 19) :
    readOne (h ++ rest) =
      if h.take 16 ≠ Spec.marker then .error (.notif ⟨1, 1, []⟩ true)
      else if Spec.n16 (h.getD 16 0) (h.getD 17 0) < 19 ∨ Spec.n16 (h.getD 16 0) (h.getD 17 0) > 4096 then
        .error (.notif ⟨1, 2, []⟩ true)
      else if rest.length < Spec.n16 (h.getD 16 0) (h.getD 17 0) - 19 then .error .eof
      else
        match messageFromBytes (rest.take (Spec.n16 (h.getD 16 0) (h.getD 17 0) - 19)) (h.getD 18 0) with
        | .ok m => .ok (m, rest.drop (Spec.n16 (h.getD 16 0) (h.getD 17 0) - 19))
        | .error e => .error e := by
  unfold readOne
  have h1 : ¬ (h ++ rest).length < Gen.headerLength := by
    simp [Gen.headerLength, hl]
  have h2 : (h ++ rest).take Gen.headerLength = h := by
    simp [Gen.headerLength, ← hl]
  have h3 : (h ++ rest).drop Gen.headerLength = rest := by
    simp [Gen.headerLength, ← hl]
  rw [if_neg h1]
  simp only [h2, h3, be16_toNat_rd]
  by_cases hm : h.take 16 ≠ Spec.marker
  · rw [if_pos hm, if_pos ((any_ne_iff_ne_marker _ (by simp [hl])).2 hm)]
    rfl
  · rw [if_neg hm, if_neg (by rw [any_ne_iff_ne_marker _ (by simp [hl])]; exact hm)]
    have e1 : ∀ n : Nat, ((decide (n < Gen.headerLength) || decide (n > Gen.maxMessageLength)) = true) ↔
        (n < 19 ∨ n > 4096) := by
      intro n
      show ((decide (n < 19) || decide (n > 4096)) = true) ↔ _
      simp
    simp only [e1]
    rfl

/-- the 19-byte header of `Spec.frame` -/
def fhdr (t : UInt8) (n : Nat) : Bytes := Spec.marker ++ Spec.u16 n ++ [t]

theorem frame_eq (t : UInt8) (body rest : Bytes) :
    Spec.frame t body ++ rest = fhdr t (19 + body.length) ++ (body ++ rest) := by
  simp [Spec.frame, fhdr]

theorem fhdr_length (t : UInt8) (n : Nat) : (fhdr t n).length = 19 := rfl
theorem fhdr_take (t : UInt8) (n : Nat) : (fhdr t n).take 16 = Spec.marker := rfl
theorem fhdr_16 (t : UInt8) (n : Nat) : (fhdr t n).getD 16 0 = UInt8.ofNat (n / 256) := rfl
theorem fhdr_17 (t : UInt8) (n : Nat) : (fhdr t n).getD 17 0 = UInt8.ofNat (n % 256) := rfl
theorem fhdr_18 (t : UInt8) (n : Nat) : (fhdr t n).getD 18 0 = t := rfl

theorem n16_u16_rd (n : Nat) (h : n < 65536) :
    Spec.n16 (UInt8.ofNat (n / 256)) (UInt8.ofNat (n % 256)) = n := by
  simp only [Spec.n16, UInt8.toNat_ofNat']
  omega

/-- `readOne` on a stream that starts with a whole frame -/
theorem readOne_frame (t : UInt8) (body rest : Bytes) (hb : body.length ≤ 4077) :
    readOne (Spec.frame t body ++ rest) =
      match messageFromBytes body t with
      | .ok m => .ok (m, rest)
      | .error e => .error e := by
  rw [frame_eq, readOne_header _ _ (fhdr_length _ _)]
  simp only [fhdr_take, fhdr_16, fhdr_17, fhdr_18, n16_u16_rd (19 + body.length) (by omega)]
  rw [if_neg (by simp), if_neg (by omega), if_neg (by simp)]
  simp

theorem messageFromBytes_unknown (t : UInt8) (body : Bytes) (ht : Spec.knownType t = false) :
    messageFromBytes body t = .error (.notif ⟨1, 3, [t]⟩ true) := by
  unfold messageFromBytes
  have h0 : ((t ≠ 1 ∧ t ≠ 2) ∧ t ≠ 3) ∧ t ≠ 4 := by
    simpa [Spec.knownType] using ht
  obtain ⟨⟨⟨h1, h2⟩, h3⟩, h4⟩ := h0
  have e : ∀ k : Nat, t ≠ UInt8.ofNat k → ¬ t.toNat = k := by
    intro k hk h
    apply hk
    rw [← h]
    simp
  rw [if_neg (e Gen.openMessageType h1), if_neg (e Gen.updateMessageType h2),
    if_neg (e Gen.notificationMessageType h3), if_neg (e Gen.keepAliveMessageType h4)]
  rfl



/-! ## reader: no panic, fuel independence -/


theorem decodeNotif_no_panic (b : Bytes) : decodeNotif b ≠ .panic := by
  unfold decodeNotif
  split <;> simp

theorem messageFromBytes_no_panic (b : Bytes) (t : UInt8) : messageFromBytes b t ≠ .error .panic := by
  unfold messageFromBytes
  split
  · have := decodeOpen_no_panic b
    split <;> simp_all
  · split
    · simp
    · split
      · have := decodeNotif_no_panic b
        split <;> simp_all
      · split <;> simp

theorem readOne_no_panic (s : Bytes) : readOne s ≠ .error .panic := by
  unfold readOne
  split
  · simp
  · dsimp only
    split
    · simp
    · split
      · simp
      · split
        · simp
        · have := messageFromBytes_no_panic
            (((s.drop Gen.headerLength)).take ((be16 ((s.take Gen.headerLength).getD 16 0) ((s.take Gen.headerLength).getD 17 0)).toNat - Gen.headerLength))
            ((s.take Gen.headerLength).getD 18 0)
          split
          · simp
          · rename_i e he
            intro h
            injection h with h
            rw [h] at he
            exact this he

theorem readOne_consumes {s : Bytes} {m : RMsg} {rest : Bytes} (h : readOne s = .ok (m, rest)) :
    rest.length + 19 ≤ s.length := by
  unfold readOne at h
  split at h
  · simp at h
  · rename_i hlen
    dsimp only at h
    split at h
    · simp at h
    · split at h
      · simp at h
      · split at h
        · simp at h
        · split at h
          · injection h with h
            injection h with _ h
            rw [← h]
            simp only [Gen.headerLength] at hlen ⊢
            simp
            omega
          · simp at h

theorem readLoop_fuel : ∀ (f1 f2 : Nat) (s : Bytes) (acc : List RMsg),
    s.length < f1 → s.length < f2 → readLoop f1 s acc = readLoop f2 s acc := by
  intro f1
  induction f1 with
  | zero => intro f2 s acc h; omega
  | succ f1 ih =>
    intro f2 s acc h1 h2
    cases f2 with
    | zero => omega
    | succ f2 =>
      unfold readLoop
      cases hr : readOne s with
      | error e => rfl
      | ok p =>
        obtain ⟨m, rest⟩ := p
        have := readOne_consumes hr
        exact ih f2 rest _ (by omega) (by omega)

theorem readLoop_acc : ∀ (f : Nat) (s : Bytes) (acc : List RMsg),
    readLoop f s acc = (acc ++ (readLoop f s []).1, (readLoop f s []).2) := by
  intro f
  induction f with
  | zero => intro s acc; simp [readLoop]
  | succ f ih =>
    intro s acc
    unfold readLoop
    cases hr : readOne s with
    | error e => simp
    | ok p =>
      obtain ⟨m, rest⟩ := p
      dsimp only
      rw [ih rest (acc ++ [m]), ih rest ([] ++ [m])]
      simp

theorem readLoop_no_panic : ∀ (f : Nat) (s : Bytes) (acc : List RMsg),
    s.length < f → (readLoop f s acc).2 ≠ .panic := by
  intro f
  induction f with
  | zero => intro s acc h; omega
  | succ f ih =>
    intro s acc h
    unfold readLoop
    cases hr : readOne s with
    | error e =>
      dsimp only
      intro he
      rw [he] at hr
      exact readOne_no_panic s hr
    | ok p =>
      obtain ⟨m, rest⟩ := p
      have := readOne_consumes hr
      exact ih rest _ (by omega)

theorem reader_no_panic (s : Bytes) : (readAll s).2 ≠ .panic :=
  readLoop_no_panic _ s [] (by omega)

/-- `readLoop` with enough fuel, in terms of `readAll` -/
theorem readLoop_eq_readAll (f : Nat) (s : Bytes) (acc : List RMsg) (h : s.length < f) :
    readLoop f s acc = (acc ++ (readAll s).1, (readAll s).2) := by
  unfold readAll
  rw [readLoop_acc, readLoop_fuel f (s.length + 1) s [] h (by omega)]

/-- one step of `readAll` -/
theorem readAll_step {s : Bytes} {m : RMsg} {rest : Bytes} (h : readOne s = .ok (m, rest)) :
    readAll s = (m :: (readAll rest).1, (readAll rest).2) := by
  have hc := readOne_consumes h
  conv => lhs; unfold readAll readLoop
  rw [h]
  dsimp only
  rw [readLoop_eq_readAll _ _ _ (by omega)]
  simp



/-! ## reader: a prefix of whole well-formed messages -/


theorem messageFromBytes_known (t : UInt8) (body : Bytes) (ht : Spec.knownType t = true)
    (h1 : t = 1 → ∃ o, decodeOpen body = .ok o) (h3 : t = 3 → 2 ≤ body.length) :
    ∃ m, messageFromBytes body t = .ok m ∧ m.type = t ∧ ∀ b, m = .update b → b = body := by
  have h0 : t = 1 ∨ t = 2 ∨ t = 3 ∨ t = 4 := by
    simpa [Spec.knownType, or_assoc] using ht
  rcases h0 with rfl | rfl | rfl | rfl
  · obtain ⟨o, ho⟩ := h1 rfl
    refine ⟨.open_ o, ?_, rfl, ?_⟩
    · unfold messageFromBytes
      rw [if_pos (by decide), ho]
    · intro b hb; cases hb
  · refine ⟨.update body, ?_, rfl, ?_⟩
    · unfold messageFromBytes
      rw [if_neg (by decide), if_pos (by decide)]
    · intro b hb; cases hb; rfl
  · have := h3 rfl
    match body, this with
    | c :: s :: d, _ =>
      refine ⟨.notif ⟨c, s, d⟩, ?_, rfl, ?_⟩
      · unfold messageFromBytes
        rw [if_neg (by decide), if_neg (by decide), if_pos (by decide)]
        rfl
      · intro b hb; cases hb
  · refine ⟨.keepalive, ?_, rfl, ?_⟩
    · unfold messageFromBytes
      rw [if_neg (by decide), if_neg (by decide), if_neg (by decide), if_pos (by decide)]
    · intro b hb; cases hb

theorem prefix_processed_aux (ms : List (UInt8 × Bytes)) (tail : Bytes)
    (hms : ∀ m ∈ ms, Spec.knownType m.1 = true ∧ m.2.length ≤ 4077 ∧
      (m.1 = 1 → ∃ o, decodeOpen m.2 = .ok o) ∧ (m.1 = 3 → 2 ≤ m.2.length)) :
    ∃ rs : List RMsg, rs.length = ms.length ∧
      (∀ i (hi : i < ms.length), ∀ r, rs[i]? = some r → r.type = (ms[i]'hi).1 ∧
         (∀ b, r = .update b → b = (ms[i]'hi).2)) ∧
      readAll ((ms.map fun m => Spec.frame m.1 m.2).flatten ++ tail) = (rs ++ (readAll tail).1, (readAll tail).2) := by
  induction ms with
  | nil => exact ⟨[], rfl, by intro i hi; simp at hi, by simp⟩
  | cons x ms ih =>
    obtain ⟨t, body⟩ := x
    obtain ⟨hk, hb, h1, h3⟩ := hms (t, body) (by simp)
    obtain ⟨rs, hlen, hidx, hread⟩ := ih (fun m hm => hms m (by simp [hm]))
    obtain ⟨m, hm, hty, hupd⟩ := messageFromBytes_known t body hk h1 h3
    refine ⟨m :: rs, by simp [hlen], ?_, ?_⟩
    · intro i hi r hr
      cases i with
      | zero =>
        simp at hr
        subst hr
        exact ⟨hty, hupd⟩
      | succ i =>
        simp at hr
        exact hidx i (by simpa using hi) r hr
    · have hone : readOne (Spec.frame t body ++ ((ms.map fun m => Spec.frame m.1 m.2).flatten ++ tail)) =
          .ok (m, (ms.map fun m => Spec.frame m.1 m.2).flatten ++ tail) := by
        rw [readOne_frame _ _ _ hb, hm]
      have := readAll_step hone
      simp only [List.map_cons, List.flatten_cons, List.append_assoc]
      rw [this, hread]
      simp


end CoreBGP.Lemmas
