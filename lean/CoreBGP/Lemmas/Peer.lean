import CoreBGP.Model.Peer
import CoreBGP.Lemmas.PeerLocal
/-! Helper lemmas and the shared inductive invariant of the L2 model (never property statements). -/
namespace CoreBGP.Lemmas
open CoreBGP CoreBGP.Model
open CoreBGP.Lemmas.PeerLocal
set_option linter.unusedSimpArgs false

/-! ## the invariant -/

/-- transitions an inbound FSM may request: it never *rises* to Idle or Connect -/
def innT (t : Trans) : Prop := (t.to = .idle ∨ t.to = .connect) → t.to.rank < t.frm.rank

instance (t : Trans) : Decidable (innT t) := by unfold innT; infer_instance

/-- control locations of an inbound FSM -/
def innPc : FPc → Prop
  | .req t | .wait t => innT t
  | .run s => s ≠ .idle ∧ s ≠ .connect
  | .errSend s d _ => innT ⟨s, d⟩
  | _ => True

/-- what the manager's bookkeeping (`present`, `st`) says about one FSM -/
structure FOk (x : F) (present : Bool) (st : St) : Prop where
  empty : present = false → x.pc = .absent
  st_dis : present = false → st = .disabled
  pres : present = true → x.pc ≠ .absent
  inEst_run : x.inEst = true → x.pc = .run .established
  run_st : ∀ r, x.pc = .run r → st = r

/-- static analysis of the manager's continuation: `eo` / `ei` = "the out / in slot is known to be
empty when the head instruction starts"; `hd` = "this is the head of `todo`" -/
def okT : Bool → Bool → Bool → List Instr → Prop
  | _, _, _, [] => True
  | _, eo, ei, .logT _ _ _ :: rest => okT false eo ei rest
  | _, eo, ei, .logErr _ :: rest => okT false eo ei rest
  | _, _, _, .handle i t :: rest => rest = [] ∧ (i = .inn → innT t)
  | _, eo, ei, .sendT i t :: rest =>
    (t.to = .established → (match i with | .out => ei | .inn => eo) = true) ∧
    (i = .inn → t.to ≠ .idle ∧ t.to ≠ .connect) ∧ okT false eo ei rest
  | _, _, ei, .disableLog .out :: rest => okT false true ei rest
  | _, eo, _, .disableLog .inn :: rest => okT false eo true rest
  | _, _, ei, .disable .out :: rest => okT false true ei rest
  | _, eo, _, .disable .inn :: rest => okT false eo true rest
  | _, _, ei, .enable .out _ :: rest => okT false false ei rest
  | _, eo, _, .enable .inn w :: rest => w = true ∧ okT false eo false rest
  | hd, _, _, .collSel _ t :: rest => hd = true ∧ rest = [] ∧ t.to = .openConfirm
  | _, eo, ei, .damp :: rest => eo = true ∧ ei = true ∧ rest = []
  | _, eo, ei, .finish :: rest => eo = true ∧ ei = true ∧ rest = []

def stopLike : Instr → Bool
  | .disableLog _ | .finish => true
  | _ => false

structure PInv (p : Bool) (s : PState) : Prop where
  pas : s.passive = p
  pas_out : s.passive = true → s.presentO = false
  fo_ok : FOk s.fo s.presentO s.stO
  fi_ok : FOk s.fi s.presentI s.stI
  fi_inn : innPc s.fi.pc
  todo_ok : okT true (!s.presentO) (!s.presentI) s.todo
  coll : ∀ i t rest, s.todo = .collSel i t :: rest →
    (match i with | .out => s.stI | .inn => s.stO) ≠ .established
  mutex : ¬ (s.stO = .established ∧ s.stI = .established)
  hist_ok : s.hist = some (if s.fo.inEst || s.fi.inEst then .up else .idle)
  hold : s.holdDown = true → s.presentO = false ∧ s.presentI = false ∧ s.todo.all stopLike = true
  timer : s.pdone = false → s.holdDown = s.timerArmed
  done : s.pdone = true → s.todo = [] ∧ s.presentO = false ∧ s.presentI = false

/-! ## `okT` is monotone -/

theorem okT_mono : ∀ (l : List Instr) (hd eo ei hd' eo' ei' : Bool),
    (hd = true → hd' = true) → (eo = true → eo' = true) → (ei = true → ei' = true) →
    okT hd eo ei l → okT hd' eo' ei' l := by
  intro l
  induction l with
  | nil => intros; trivial
  | cons a rest ih =>
    intro hd eo ei hd' eo' ei' h1 h2 h3 h
    cases a with
    | logT i f t => exact ih _ _ _ _ _ _ (by simp) h2 h3 h
    | logErr i => exact ih _ _ _ _ _ _ (by simp) h2 h3 h
    | handle i t => exact h
    | sendT i t =>
      obtain ⟨a, b, c⟩ := h
      refine ⟨?_, b, ih _ _ _ _ _ _ (by simp) h2 h3 c⟩
      intro ht
      have := a ht
      cases i <;> simp_all
    | disableLog i => cases i <;> exact ih _ _ _ _ _ _ (by simp) (by simp_all) (by simp_all) h
    | disable i => cases i <;> exact ih _ _ _ _ _ _ (by simp) (by simp_all) (by simp_all) h
    | enable i w =>
      cases i
      · exact ih _ _ _ _ _ _ (by simp) (by simp) h3 h
      · exact ⟨h.1, ih _ _ _ _ _ _ (by simp) h2 (by simp) h.2⟩
    | collSel i t => exact ⟨h1 h.1, h.2⟩
    | damp => exact ⟨h2 h.1, h3 h.2.1, h.2.2⟩
    | finish => exact ⟨h2 h.1, h3 h.2.1, h.2.2⟩

/-- a popped continuation is fine at the head, with whatever is known then -/
theorem okT_weaken {l : List Instr} {hd eo ei : Bool} (eo' ei' : Bool) (h : okT hd eo ei l)
    (h2 : eo = true → eo' = true) (h3 : ei = true → ei' = true) : okT true eo' ei' l :=
  okT_mono l _ _ _ _ _ _ (by simp) h2 h3 h

/-! ## `applyCb` only touches the ghost history -/

def cbHist (l : Label) (h : Option Spec.HState) : Option Spec.HState :=
  match l with
  | .onEstablished _ => (h.bind (Spec.hstep · .estEnter)).bind (Spec.hstep · .estExit)
  | .onClose _ => (h.bind (Spec.hstep · .closeEnter)).bind (Spec.hstep · .closeExit)
  | .handler _ => (h.bind (Spec.hstep · .hEnter)).bind (Spec.hstep · .hExit)
  | _ => h

theorem applyCb_eq (l : Label) (s : PState) : applyCb l s = { s with hist := cbHist l s.hist } := by
  cases l <;> rfl

/-- effect of an FSM step with label `l` on that FSM's `inEst` flag -/
def cbEffect (l : Label) (a a' : Bool) : Prop :=
  match l with
  | .onEstablished _ => a = false ∧ a' = true
  | .onClose _ => a = true ∧ a' = false
  | .handler _ => a = true ∧ a' = true
  | _ => a' = a

theorem hist_step {l : Label} {h : Option Spec.HState} {a a' b : Bool}
    (hh : h = some (if a || b then .up else .idle)) (he : cbEffect l a a')
    (hb : a' = true → b = false) (hb' : a = true → b = false) :
    cbHist l h = some (if a' || b then .up else .idle) := by
  subst hh
  cases l <;> cases a <;> cases a' <;> cases b <;> simp_all [cbEffect, cbHist, Spec.hstep]

/-! ## FSM steps -/

theorem FOk.present_of_pc {x : F} {p : Bool} {st : St} (h : FOk x p st) (hp : x.pc ≠ .absent) : p = true := by
  cases p
  · exact absurd (h.empty rfl) hp
  · rfl

/-- result of an FSM step: bookkeeping stays right, the `inEst` flag moves with the label -/
structure FStepOk (l : Label) (x y : F) (p : Bool) (st : St) : Prop where
  ok : FOk y p st
  cb : cbEffect l x.inEst y.inEst
  inn : innPc x.pc → innPc y.pc
  est : (∀ j, l = .onEstablished j → x.pc = .run .established)

theorem fOnClose_ok {i : Dir} {x y : F} {l : Label} {p : Bool} {st : St}
    (h : FOk x p st) (hm : (l, y) ∈ fOnClose i x) :
    FStepOk l x y p st ∧ l ≠ .dial := by
  have hp : x.pc ≠ .absent := by
    intro h0; simp [fOnClose, h0] at hm
  have hpt := h.present_of_pc hp
  subst hpt
  obtain ⟨h1, h2, h3, h4, h5⟩ := h
  unfold fOnClose at hm
  repeat' split at hm
  all_goals simp at hm
  all_goals obtain ⟨rfl, rfl⟩ := hm
  all_goals refine ⟨⟨⟨?_, ?_, ?_, ?_, ?_⟩, ?_, ?_, ?_⟩, ?_⟩ 
  all_goals simp_all [cbEffect, innPc, F.dropConn, innT]


theorem runOutcomes_ok {i : Dir} {x y : F} {l : Label} {p : Bool} {st s : St}
    (h : FOk x p st) (hs : x.pc = .run s) (hm : (l, y) ∈ runOutcomes i x s) :
    FStepOk l x y p st ∧ (l = .dial → (i = .out ∨ s = .idle ∨ s = .connect)) := by
  have hp : x.pc ≠ .absent := by simp [hs]
  have hpt := h.present_of_pc hp
  subst hpt
  obtain ⟨h1, h2, h3, h4, h5⟩ := h
  unfold runOutcomes at hm
  cases s
  case disabled => simp at hm
  case idle =>
    simp at hm
    obtain ⟨rfl, rfl⟩ := hm
    refine ⟨⟨⟨?_, ?_, ?_, ?_, ?_⟩, ?_, ?_, ?_⟩, ?_⟩
    all_goals simp_all [cbEffect, innPc, F.dropConn, innT]
  case connect =>
    simp at hm
    rcases hm with ⟨rfl, rfl⟩ | ⟨rfl, rfl⟩ | ⟨rfl, rfl⟩
    all_goals refine ⟨⟨⟨?_, ?_, ?_, ?_, ?_⟩, ?_, ?_, ?_⟩, ?_⟩
    all_goals simp_all [cbEffect, innPc, F.dropConn, innT]
  case active =>
    simp only at hm
    split at hm
    · simp at hm
      rcases hm with ⟨rfl, rfl⟩ | ⟨rfl, rfl⟩
      all_goals refine ⟨⟨⟨?_, ?_, ?_, ?_, ?_⟩, ?_, ?_, ?_⟩, ?_⟩
      all_goals simp_all [cbEffect, innPc, F.dropConn, innT]
    · split at hm
      · simp at hm
        obtain ⟨rfl, rfl⟩ := hm
        refine ⟨⟨⟨?_, ?_, ?_, ?_, ?_⟩, ?_, ?_, ?_⟩, ?_⟩
        all_goals simp_all [cbEffect, innPc, F.dropConn, innT]
      · simp at hm
  case openSent =>
    simp only [List.mem_append, List.mem_singleton, Prod.mk.injEq] at hm
    rcases hm with ⟨rfl, rfl⟩ | hm
    · refine ⟨⟨⟨?_, ?_, ?_, ?_, ?_⟩, ?_, ?_, ?_⟩, ?_⟩
      all_goals simp_all [cbEffect, innPc, F.dropConn, innT]
    · split at hm
      all_goals simp at hm
      all_goals rcases hm with ⟨rfl, rfl⟩ | ⟨rfl, rfl⟩
      all_goals refine ⟨⟨⟨?_, ?_, ?_, ?_, ?_⟩, ?_, ?_, ?_⟩, ?_⟩
      all_goals simp_all [cbEffect, innPc, F.dropConn, innT]
  case openConfirm =>
    simp only [List.mem_append, List.mem_cons, List.mem_singleton, Prod.mk.injEq, List.not_mem_nil, or_false] at hm
    rcases hm with (⟨rfl, rfl⟩ | ⟨rfl, rfl⟩) | hm
    · refine ⟨⟨⟨?_, ?_, ?_, ?_, ?_⟩, ?_, ?_, ?_⟩, ?_⟩
      all_goals simp_all [cbEffect, innPc, F.dropConn, innT]
    · refine ⟨⟨⟨?_, ?_, ?_, ?_, ?_⟩, ?_, ?_, ?_⟩, ?_⟩
      all_goals simp_all [cbEffect, innPc, F.dropConn, innT]
    · split at hm
      all_goals simp at hm
      all_goals obtain ⟨rfl, rfl⟩ := hm
      all_goals refine ⟨⟨⟨?_, ?_, ?_, ?_, ?_⟩, ?_, ?_, ?_⟩, ?_⟩
      all_goals simp_all [cbEffect, innPc, F.dropConn, innT]
  case established =>
    simp only at hm
    split at hm
    · simp at hm
      obtain ⟨rfl, rfl⟩ := hm
      refine ⟨⟨⟨?_, ?_, ?_, ?_, ?_⟩, ?_, ?_, ?_⟩, ?_⟩
      all_goals simp_all [cbEffect, innPc, F.dropConn, innT]
    · split at hm
      · simp at hm
        obtain ⟨rfl, rfl⟩ := hm
        refine ⟨⟨⟨?_, ?_, ?_, ?_, ?_⟩, ?_, ?_, ?_⟩, ?_⟩
        all_goals simp_all [cbEffect, innPc, F.dropConn, innT]
      · simp only [List.mem_append, List.mem_cons, List.mem_singleton, Prod.mk.injEq, List.not_mem_nil, or_false] at hm
        rcases hm with (⟨rfl, rfl⟩ | ⟨rfl, rfl⟩) | hm
        · refine ⟨⟨⟨?_, ?_, ?_, ?_, ?_⟩, ?_, ?_, ?_⟩, ?_⟩
          all_goals simp_all [cbEffect, innPc, F.dropConn, innT]
        · refine ⟨⟨⟨?_, ?_, ?_, ?_, ?_⟩, ?_, ?_, ?_⟩, ?_⟩
          all_goals simp_all [cbEffect, innPc, F.dropConn, innT]
        · split at hm
          all_goals simp at hm
          all_goals obtain ⟨rfl, rfl⟩ := hm
          all_goals refine ⟨⟨⟨?_, ?_, ?_, ?_, ?_⟩, ?_, ?_, ?_⟩, ?_⟩
          all_goals simp_all [cbEffect, innPc, F.dropConn, innT]

/-- the steps of one FSM, before they are lifted to the peer state -/
def fRaw (i : Dir) (x : F) : List (Label × F) :=
  (if x.closed && x.pc.listensClose then fOnClose i x else []) ++
   (match x.pc with
    | .run st => runOutcomes i x st
    | _ => [])

theorem fSteps_eq (s : PState) (i : Dir) :
    fSteps s i = (fRaw i (s.f i)).map fun (l, y) => (l, applyCb l (s.setF i y)) := rfl

theorem fRaw_ok {i : Dir} {x y : F} {l : Label} {p : Bool} {st : St}
    (h : FOk x p st) (hm : (l, y) ∈ fRaw i x) :
    FStepOk l x y p st ∧ (l = .dial → (i = .out ∨ x.pc = .run .idle ∨ x.pc = .run .connect)) := by
  unfold fRaw at hm
  rw [List.mem_append] at hm
  rcases hm with hm | hm
  · split at hm
    · have := fOnClose_ok h hm
      exact ⟨this.1, fun hd => absurd hd this.2⟩
    · simp at hm
  · split at hm
    · rename_i st' hs
      have := runOutcomes_ok h hs hm
      refine ⟨this.1, fun hd => ?_⟩
      rcases this.2 hd with h | h | h <;> simp_all
    · simp at hm

/-- an FSM inside its session excludes the other one -/
theorem est_excl {x y : F} {px py : Bool} {sx sy : St} (hx : FOk x px sx) (hy : FOk y py sy)
    (hm : ¬ (sx = .established ∧ sy = .established)) (h : x.inEst = true) : y.inEst = false := by
  have h1 := hx.run_st _ (hx.inEst_run h)
  cases hyi : y.inEst
  · rfl
  · have h2 := hy.run_st _ (hy.inEst_run hyi)
    exact absurd ⟨h1, h2⟩ hm

theorem pinv_fSteps_out {p : Bool} {s s' : PState} {l : Label} (h : PInv p s) (hm : (l, s') ∈ fSteps s .out) :
    PInv p s' := by
  rw [fSteps_eq, List.mem_map] at hm
  obtain ⟨⟨l', y⟩, hmem, heq⟩ := hm
  simp only [Prod.mk.injEq] at heq
  obtain ⟨rfl, rfl⟩ := heq
  obtain ⟨⟨hok, hcb, hinn, hest⟩, -⟩ := fRaw_ok h.fo_ok hmem
  obtain ⟨h1, h2, h3, h4, h5, h6, h7, h8, h9, h10, h11, h12⟩ := h
  rw [applyCb_eq]
  refine ⟨h1, h2, hok, h4, h5, h6, h7, h8, ?_, h10, h11, h12⟩
  exact hist_step h9 hcb (est_excl hok h4 h8) (est_excl h3 h4 h8)

theorem pinv_fSteps_inn {p : Bool} {s s' : PState} {l : Label} (h : PInv p s) (hm : (l, s') ∈ fSteps s .inn) :
    PInv p s' := by
  rw [fSteps_eq, List.mem_map] at hm
  obtain ⟨⟨l', y⟩, hmem, heq⟩ := hm
  simp only [Prod.mk.injEq] at heq
  obtain ⟨rfl, rfl⟩ := heq
  obtain ⟨⟨hok, hcb, hinn, hest⟩, -⟩ := fRaw_ok h.fi_ok hmem
  obtain ⟨h1, h2, h3, h4, h5, h6, h7, h8, h9, h10, h11, h12⟩ := h
  rw [applyCb_eq]
  have h8' : ¬ (s.stI = .established ∧ s.stO = .established) := fun hh => h8 ⟨hh.2, hh.1⟩
  refine ⟨h1, h2, h3, hok, hinn h5, h6, h7, h8, ?_, h10, h11, h12⟩
  have h9' : s.hist = some (if s.fi.inEst || s.fo.inEst then .up else .idle) := by rw [Bool.or_comm]; exact h9
  have := hist_step h9' hcb (est_excl hok h3 h8') (est_excl h4 h3 h8')
  rw [Bool.or_comm] at this
  exact this


/-! ## the manager at its main `select` -/

theorem pinv_main_stop {p : Bool} {s : PState} (h : PInv p s) (ht : s.todo = []) (hd : s.pdone = false) :
    PInv p { s with todo := [.disableLog .out, .disableLog .inn, .finish] } := by
  obtain ⟨h1, h2, h3, h4, h5, h6, h7, h8, h9, h10, h11, h12⟩ := h
  refine ⟨h1, h2, h3, h4, h5, ?_, ?_, h8, h9, ?_, h11, ?_⟩
  · simp [okT]
  · simp
  · simpa [stopLike, ht] using h10
  · simp [hd]

theorem pinv_main_timer {p : Bool} {s : PState} (h : PInv p s) (hd : s.pdone = false) :
    PInv p { s with todo := [.enable .out false], holdDown := false, timerArmed := false } := by
  obtain ⟨h1, h2, h3, h4, h5, h6, h7, h8, h9, h10, h11, h12⟩ := h
  refine ⟨h1, h2, h3, h4, h5, ?_, ?_, h8, h9, ?_, ?_, ?_⟩
  · simp [okT]
  · simp
  · simp
  · simp
  · simp [hd]

theorem pinv_main_inConn {p : Bool} {s : PState} (h : PInv p s) (hd : s.pdone = false)
    (hh : s.holdDown = false) :
    PInv p { s with todo := [.enable .inn true] } := by
  obtain ⟨h1, h2, h3, h4, h5, h6, h7, h8, h9, h10, h11, h12⟩ := h
  refine ⟨h1, h2, h3, h4, h5, ?_, ?_, h8, h9, ?_, h11, ?_⟩
  · simp [okT]
  · simp
  · simp [hh]
  · simp [hd]


theorem FOk.set_pc {x : F} {p : Bool} {st : St} (h : FOk x p st) (pc' : FPc) (hx : x.pc ≠ .absent)
    (hne : ∀ r, x.pc ≠ .run r) (hnew : pc' ≠ .absent) (hnr : ∀ r, pc' = .run r → st = r) :
    FOk { x with pc := pc' } p st := by
  have hp := h.present_of_pc hx
  subst hp
  obtain ⟨h1, h2, h3, h4, h5⟩ := h
  refine ⟨by simp, by simp, by simpa using hnew, ?_, by simpa using hnr⟩
  intro hi
  exact absurd (h4 hi) (hne _)

theorem pinv_main_req_out {p : Bool} {s : PState} {t : Trans} (h : PInv p s) (hd : s.pdone = false)
    (hpc : s.fo.pc = .req t) :
    PInv p ({ s with todo := [.handle .out t] }.setF .out { s.fo with pc := .wait t }) := by
  have hpr := h.fo_ok.present_of_pc (by simp [hpc])
  have hfo := h.fo_ok.set_pc (.wait t) (by simp [hpc]) (by simp [hpc]) (by simp) (by simp)
  obtain ⟨h1, h2, h3, h4, h5, h6, h7, h8, h9, h10, h11, h12⟩ := h
  refine ⟨h1, h2, hfo, h4, h5, ?_, ?_, h8, ?_, ?_, h11, ?_⟩
  · simp [okT, PState.setF]
  · simp [PState.setF]
  · simpa [PState.setF] using h9
  · intro hh
    have := h10 hh
    simp_all
  · simp [PState.setF, hd]


theorem pinv_main_req_inn {p : Bool} {s : PState} {t : Trans} (h : PInv p s) (hd : s.pdone = false)
    (hpc : s.fi.pc = .req t) :
    PInv p ({ s with todo := [.handle .inn t] }.setF .inn { s.fi with pc := .wait t }) := by
  have hpr := h.fi_ok.present_of_pc (by simp [hpc])
  have hfi := h.fi_ok.set_pc (.wait t) (by simp [hpc]) (by simp [hpc]) (by simp) (by simp)
  obtain ⟨h1, h2, h3, h4, h5, h6, h7, h8, h9, h10, h11, h12⟩ := h
  refine ⟨h1, h2, h3, hfi, ?_, ?_, ?_, h8, ?_, ?_, h11, ?_⟩
  · simpa [PState.setF, innPc, hpc] using h5
  · simpa [okT, PState.setF, innPc, hpc] using h5
  · simp [PState.setF]
  · simpa [PState.setF] using h9
  · intro hh
    have := h10 hh
    simp_all
  · simp [PState.setF, hd]

theorem pinv_main_err_out {p : Bool} {s : PState} {st d : St} {k : EK} (h : PInv p s) (hd : s.pdone = false)
    (hpc : s.fo.pc = .errSend st d k) :
    PInv p { s.setF .out { s.fo with pc := .req ⟨st, d⟩ } with
      todo := .logErr .out :: (if k = .damp then [.disableLog .inn, .disableLog .out, .damp] else []) } := by
  have hpr := h.fo_ok.present_of_pc (by simp [hpc])
  have hfo := h.fo_ok.set_pc (.req ⟨st, d⟩) (by simp [hpc]) (by simp [hpc]) (by simp) (by simp)
  obtain ⟨h1, h2, h3, h4, h5, h6, h7, h8, h9, h10, h11, h12⟩ := h
  refine ⟨h1, h2, hfo, h4, h5, ?_, ?_, h8, ?_, ?_, h11, ?_⟩
  · split <;> simp [okT, PState.setF]
  · simp [PState.setF]
  · simpa [PState.setF] using h9
  · intro hh
    have := h10 hh
    simp_all
  · simp [PState.setF, hd]

theorem pinv_main_err_inn {p : Bool} {s : PState} {st d : St} {k : EK} (h : PInv p s) (hd : s.pdone = false)
    (hpc : s.fi.pc = .errSend st d k) :
    PInv p { s.setF .inn { s.fi with pc := .req ⟨st, d⟩ } with
      todo := .logErr .inn :: (if k = .damp then [.disableLog .inn, .disableLog .out, .damp] else []) } := by
  have hpr := h.fi_ok.present_of_pc (by simp [hpc])
  have hfi := h.fi_ok.set_pc (.req ⟨st, d⟩) (by simp [hpc]) (by simp [hpc]) (by simp) (by simp)
  obtain ⟨h1, h2, h3, h4, h5, h6, h7, h8, h9, h10, h11, h12⟩ := h
  refine ⟨h1, h2, h3, hfi, ?_, ?_, ?_, h8, ?_, ?_, h11, ?_⟩
  · simpa [PState.setF, innPc, hpc] using h5
  · split <;> simp [okT, PState.setF]
  · simp [PState.setF]
  · simpa [PState.setF] using h9
  · intro hh
    have := h10 hh
    simp_all
  · simp [PState.setF, hd]

theorem pinv_pMain {p : Bool} {s s' : PState} {l : Label} (h : PInv p s) (ht : s.todo = [])
    (hm : (l, s') ∈ pMain s) : PInv p s' := by
  unfold pMain at hm
  split at hm
  · simp at hm
  · rename_i hd
    simp only [Bool.not_eq_true] at hd
    simp only [List.mem_append] at hm
    rcases hm with ((hm | hm) | hm) | hm
    · split at hm
      · simp only [List.mem_singleton, Prod.mk.injEq] at hm
        obtain ⟨-, rfl⟩ := hm
        exact pinv_main_stop h ht hd
      · simp at hm
    · simp only [List.mem_flatMap] at hm
      obtain ⟨i, -, hm⟩ := hm
      cases i
      · split at hm
        · rename_i t hpc
          simp only [List.mem_singleton, Prod.mk.injEq] at hm
          obtain ⟨-, rfl⟩ := hm
          exact pinv_main_req_out h hd hpc
        · rename_i st d k hpc
          simp only [List.mem_singleton, Prod.mk.injEq] at hm
          obtain ⟨-, rfl⟩ := hm
          exact pinv_main_err_out h hd hpc
        · simp at hm
      · split at hm
        · rename_i t hpc
          simp only [List.mem_singleton, Prod.mk.injEq] at hm
          obtain ⟨-, rfl⟩ := hm
          exact pinv_main_req_inn h hd hpc
        · rename_i st d k hpc
          simp only [List.mem_singleton, Prod.mk.injEq] at hm
          obtain ⟨-, rfl⟩ := hm
          exact pinv_main_err_inn h hd hpc
        · simp at hm
    · split at hm
      · simp only [List.mem_singleton, Prod.mk.injEq] at hm
        obtain ⟨-, rfl⟩ := hm
        exact pinv_main_timer h hd
      · simp at hm
    · split at hm
      · simp only [List.mem_singleton, Prod.mk.injEq] at hm
        obtain ⟨-, rfl⟩ := hm
        exact h
      · rename_i hc
        simp only [List.mem_singleton, Prod.mk.injEq] at hm
        obtain ⟨-, rfl⟩ := hm
        refine pinv_main_inConn h hd ?_
        cases hh : s.holdDown <;> simp_all


/-! ## the manager inside a continuation -/

theorem PInv.pdone_false {p : Bool} {s : PState} (h : PInv p s) {ins : Instr} {rest : List Instr}
    (ht : s.todo = ins :: rest) : s.pdone = false := by
  cases hd : s.pdone
  · rfl
  · have := (h.done hd).1
    rw [ht] at this
    cases this

theorem PInv.hold_false {p : Bool} {s : PState} (h : PInv p s) {ins : Instr} {rest : List Instr}
    (ht : s.todo = ins :: rest) (hs : stopLike ins = false) : s.holdDown = false := by
  cases hd : s.holdDown
  · rfl
  · have := (h.hold hd).2.2
    rw [ht] at this
    simp [hs] at this

theorem no_coll_of_okT_false {eo ei : Bool} {l : List Instr} (h : okT false eo ei l) (i : Dir) (t : Trans)
    (rest : List Instr) : l ≠ .collSel i t :: rest := by
  intro hl
  subst hl
  simp [okT] at h

/-- the manager replaces its continuation and touches nothing else -/
theorem pinv_set_todo {p : Bool} {s : PState} (h : PInv p s) (l : List Instr)
    (hok : okT true (!s.presentO) (!s.presentI) l)
    (hcoll : ∀ i t rest, l = .collSel i t :: rest → (match i with | .out => s.stI | .inn => s.stO) ≠ .established)
    (hhold : s.holdDown = true → l.all stopLike = true) (hd : s.pdone = false) :
    PInv p { s with todo := l } := by
  obtain ⟨h1, h2, h3, h4, h5, h6, h7, h8, h9, h10, h11, h12⟩ := h
  refine ⟨h1, h2, h3, h4, h5, hok, hcoll, h8, h9, ?_, h11, ?_⟩
  · intro hh
    exact ⟨(h10 hh).1, (h10 hh).2.1, hhold hh⟩
  · simp [hd]

/-- … in particular it may drop the head instruction when what follows needs nothing more -/
theorem pinv_pop {p : Bool} {s : PState} (h : PInv p s) {ins : Instr} {rest : List Instr}
    (ht : s.todo = ins :: rest) (hok : okT false (!s.presentO) (!s.presentI) rest) :
    PInv p { s with todo := rest } := by
  refine pinv_set_todo h rest (okT_weaken _ _ hok id id) ?_ ?_ (h.pdone_false ht)
  · intro i t r hr
    exact absurd hr (no_coll_of_okT_false hok i t r)
  · intro hh
    have := (h.hold hh).2.2
    rw [ht] at this
    simp only [List.all_cons, Bool.and_eq_true] at this
    exact this.2

theorem pinv_logT {p : Bool} {s s' : PState} {l : Label} {i : Dir} {f t : St} {rest : List Instr}
    (h : PInv p s) (ht : s.todo = .logT i f t :: rest) (hm : (l, s') ∈ pInstr s (.logT i f t) rest) :
    PInv p s' := by
  simp only [pInstr, List.mem_singleton, Prod.mk.injEq] at hm
  obtain ⟨-, rfl⟩ := hm
  have := h.todo_ok
  rw [ht] at this
  exact pinv_pop h ht this

theorem pinv_logErr {p : Bool} {s s' : PState} {l : Label} {i : Dir} {rest : List Instr}
    (h : PInv p s) (ht : s.todo = .logErr i :: rest) (hm : (l, s') ∈ pInstr s (.logErr i) rest) :
    PInv p s' := by
  simp only [pInstr, List.mem_singleton, Prod.mk.injEq] at hm
  obtain ⟨-, rfl⟩ := hm
  have := h.todo_ok
  rw [ht] at this
  exact pinv_pop h ht this


theorem expandHandle_okT (s : PState) (i : Dir) (t : Trans) (eo ei : Bool) (hinn : i = .inn → innT t) :
    okT true eo ei (expandHandle s i t) := by
  unfold expandHandle
  cases i
  · simp only [other_out]
    repeat' split
    all_goals simp_all [okT]
  · have hi := hinn rfl
    unfold innT at hi
    simp only [other_inn]
    repeat' split
    all_goals simp_all [okT]
    rename_i h1 h2 h3
    refine ⟨fun h => ?_, fun h => ?_⟩
    · have := hi (Or.inl h)
      exact absurd h2 (by simpa [UInt8.not_le] using this)
    · have := hi (Or.inr h)
      exact absurd h2 (by simpa [UInt8.not_le] using this)

theorem expandHandle_coll (s : PState) (i : Dir) (t : Trans) (j : Dir) (t' : Trans) (r : List Instr)
    (h : expandHandle s i t = .collSel j t' :: r) :
    (match j with | .out => s.stI | .inn => s.stO) ≠ .established := by
  unfold expandHandle at h
  cases i
  · simp only [other_out, PState.st] at h
    repeat' split at h
    all_goals simp_all
    obtain ⟨⟨rfl, -⟩, -⟩ := h
    simp
  · simp only [other_inn, PState.st] at h
    repeat' split at h
    all_goals simp_all
    obtain ⟨⟨rfl, -⟩, -⟩ := h
    simp

theorem pinv_handle {p : Bool} {s s' : PState} {l : Label} {i : Dir} {t : Trans} {rest : List Instr}
    (h : PInv p s) (ht : s.todo = .handle i t :: rest) (hm : (l, s') ∈ pInstr s (.handle i t) rest) :
    PInv p s' := by
  simp only [pInstr, List.mem_singleton, Prod.mk.injEq] at hm
  obtain ⟨-, rfl⟩ := hm
  have hok := h.todo_ok
  rw [ht] at hok
  obtain ⟨rfl, hinn⟩ := hok
  rw [List.append_nil]
  refine pinv_set_todo h _ (expandHandle_okT s i t _ _ hinn) (expandHandle_coll s i t) ?_ (h.pdone_false ht)
  intro hh
  have := h.hold_false ht rfl
  simp [this] at hh


theorem pinv_sendT_out {p : Bool} {s : PState} {t t0 : Trans} {rest : List Instr}
    (h : PInv p s) (ht : s.todo = .sendT .out t :: rest) (hpc : s.fo.pc = .wait t0) :
    PInv p (({ s with todo := .logT .out t.frm t.to :: rest }.setSt .out t.to).setF .out
      { s.fo with pc := if t.to = St.disabled then FPc.done else FPc.run t.to }) := by
  have hpr := h.fo_ok.present_of_pc (by simp [hpc])
  have hd := h.pdone_false ht
  have hh := h.hold_false ht rfl
  obtain ⟨h1, h2, h3, h4, h5, h6, h7, h8, h9, h10, h11, h12⟩ := h
  rw [ht] at h6
  obtain ⟨ha, hb, hc⟩ := h6
  have hie : s.fo.inEst = false := by
    cases hi : s.fo.inEst
    · rfl
    · have := h3.inEst_run hi
      simp [hpc] at this
  refine ⟨h1, h2, ?_, h4, h5, ?_, ?_, ?_, ?_, ?_, h11, ?_⟩
  · refine ⟨?_, ?_, ?_, ?_, ?_⟩ <;> simp_all [PState.setF, PState.setSt]
    · split <;> simp
    · intro r hr
      split at hr <;> simp_all
  · simpa [PState.setF, PState.setSt, okT] using hc
  · simp [PState.setF, PState.setSt]
  · simp only [PState.setF, PState.setSt]
    rintro ⟨h1', h2'⟩
    have := ha h1'
    simp only [Bool.not_eq_true'] at this
    have := h4.st_dis this
    simp [this] at h2'
  · simpa [PState.setF, PState.setSt] using h9
  · simp [PState.setF, PState.setSt, hh]
  · simp [PState.setF, PState.setSt, hd]

theorem pinv_sendT_inn {p : Bool} {s : PState} {t t0 : Trans} {rest : List Instr}
    (h : PInv p s) (ht : s.todo = .sendT .inn t :: rest) (hpc : s.fi.pc = .wait t0) :
    PInv p (({ s with todo := .logT .inn t.frm t.to :: rest }.setSt .inn t.to).setF .inn
      { s.fi with pc := if t.to = St.disabled then FPc.done else FPc.run t.to }) := by
  have hpr := h.fi_ok.present_of_pc (by simp [hpc])
  have hd := h.pdone_false ht
  have hh := h.hold_false ht rfl
  obtain ⟨h1, h2, h3, h4, h5, h6, h7, h8, h9, h10, h11, h12⟩ := h
  rw [ht] at h6
  obtain ⟨ha, hb, hc⟩ := h6
  have hie : s.fi.inEst = false := by
    cases hi : s.fi.inEst
    · rfl
    · have := h4.inEst_run hi
      simp [hpc] at this
  refine ⟨h1, h2, h3, ?_, ?_, ?_, ?_, ?_, ?_, ?_, h11, ?_⟩
  · refine ⟨?_, ?_, ?_, ?_, ?_⟩ <;> simp_all [PState.setF, PState.setSt]
    · split <;> simp
    · intro r hr
      split at hr <;> simp_all
  · simp only [PState.setF, PState.setSt]
    split
    · simp [innPc]
    · simpa [innPc] using hb rfl
  · simpa [PState.setF, PState.setSt, okT] using hc
  · simp [PState.setF, PState.setSt]
  · simp only [PState.setF, PState.setSt]
    rintro ⟨h1', h2'⟩
    have := ha h2'
    simp only [Bool.not_eq_true'] at this
    have := h3.st_dis this
    simp [this] at h1'
  · simpa [PState.setF, PState.setSt] using h9
  · simp [PState.setF, PState.setSt, hh]
  · simp [PState.setF, PState.setSt, hd]

theorem pinv_sendT {p : Bool} {s s' : PState} {l : Label} {i : Dir} {t : Trans} {rest : List Instr}
    (h : PInv p s) (ht : s.todo = .sendT i t :: rest) (hm : (l, s') ∈ pInstr s (.sendT i t) rest) :
    PInv p s' := by
  simp only [pInstr, List.mem_append] at hm
  rcases hm with hm | hm
  · split at hm
    · rename_i t0 hpc
      simp only [List.mem_singleton, Prod.mk.injEq] at hm
      obtain ⟨-, rfl⟩ := hm
      cases i
      · exact pinv_sendT_out h ht hpc
      · exact pinv_sendT_inn h ht hpc
    · simp at hm
  · split at hm
    · simp only [List.mem_singleton, Prod.mk.injEq] at hm
      obtain ⟨-, rfl⟩ := hm
      have := h.todo_ok
      rw [ht] at this
      exact pinv_pop h ht this.2.2
    · simp at hm



theorem pinv_disableLog {p : Bool} {s s' : PState} {l : Label} {i : Dir} {rest : List Instr}
    (h : PInv p s) (ht : s.todo = .disableLog i :: rest) (hm : (l, s') ∈ pInstr s (.disableLog i) rest) :
    PInv p s' := by
  have hok := h.todo_ok
  rw [ht] at hok
  simp only [pInstr] at hm
  split at hm
  · rename_i hp
    simp only [List.mem_singleton, Prod.mk.injEq] at hm
    obtain ⟨-, rfl⟩ := hm
    refine pinv_pop h ht ?_
    cases i <;> simp_all [okT, PState.present]
  · rename_i hp
    simp only [List.mem_singleton, Prod.mk.injEq] at hm
    obtain ⟨-, rfl⟩ := hm
    refine pinv_set_todo h _ ?_ ?_ ?_ (h.pdone_false ht)
    · cases i <;> simpa [okT] using hok
    · simp
    · intro hh
      have := h.hold hh
      cases i <;> simp_all [PState.present]

theorem FOk.set_closed {x : F} {p : Bool} {st : St} (h : FOk x p st) (b : Bool) : FOk { x with closed := b } p st := by
  obtain ⟨h1, h2, h3, h4, h5⟩ := h
  exact ⟨h1, h2, h3, h4, h5⟩

theorem FOk.inEst_false_of_pc {x : F} {p : Bool} {st : St} (h : FOk x p st) (hpc : x.pc ≠ .run .established) :
    x.inEst = false := by
  cases hi : x.inEst
  · rfl
  · exact absurd (h.inEst_run hi) hpc

theorem pinv_disable_close_out {p : Bool} {s : PState} (h : PInv p s) :
    PInv p (s.setF .out { s.fo with closed := true }) := by
  have := h.fo_ok.set_closed true
  obtain ⟨h1, h2, h3, h4, h5, h6, h7, h8, h9, h10, h11, h12⟩ := h
  exact ⟨h1, h2, this, h4, h5, h6, h7, h8, h9, h10, h11, h12⟩

theorem pinv_disable_close_inn {p : Bool} {s : PState} (h : PInv p s) :
    PInv p (s.setF .inn { s.fi with closed := true }) := by
  have := h.fi_ok.set_closed true
  obtain ⟨h1, h2, h3, h4, h5, h6, h7, h8, h9, h10, h11, h12⟩ := h
  exact ⟨h1, h2, h3, this, h5, h6, h7, h8, h9, h10, h11, h12⟩

theorem FOk.empty_slot : FOk {} false .disabled := by
  refine ⟨?_, ?_, ?_, ?_, ?_⟩ <;> simp

theorem pinv_disable_done_out {p : Bool} {s : PState} {rest : List Instr} (h : PInv p s)
    (ht : s.todo = .disable .out :: rest) (hpc : s.fo.pc = .done) :
    PInv p ((({ s with todo := rest }.setPresent .out false).setSt .out .disabled).setF .out {}) := by
  have hie := h.fo_ok.inEst_false_of_pc (by simp [hpc])
  have hd := h.pdone_false ht
  have hh := h.hold_false ht rfl
  obtain ⟨h1, h2, h3, h4, h5, h6, h7, h8, h9, h10, h11, h12⟩ := h
  rw [ht] at h6
  simp only [okT] at h6
  refine ⟨h1, ?_, FOk.empty_slot, h4, h5, ?_, ?_, ?_, ?_, ?_, h11, ?_⟩
  · simp [PState.setF, PState.setSt, PState.setPresent]
  · simpa [PState.setF, PState.setSt, PState.setPresent] using okT_weaken _ _ h6 id id
  · intro i t r hr
    exact absurd hr (no_coll_of_okT_false h6 i t r)
  · simp [PState.setF, PState.setSt, PState.setPresent]
  · simpa [PState.setF, PState.setSt, PState.setPresent, hie] using h9
  · simp [PState.setF, PState.setSt, PState.setPresent, hh]
  · simp [PState.setF, PState.setSt, PState.setPresent, hd]

theorem pinv_disable_done_inn {p : Bool} {s : PState} {rest : List Instr} (h : PInv p s)
    (ht : s.todo = .disable .inn :: rest) (hpc : s.fi.pc = .done) :
    PInv p ((({ s with todo := rest }.setPresent .inn false).setSt .inn .disabled).setF .inn {}) := by
  have hie := h.fi_ok.inEst_false_of_pc (by simp [hpc])
  have hd := h.pdone_false ht
  have hh := h.hold_false ht rfl
  obtain ⟨h1, h2, h3, h4, h5, h6, h7, h8, h9, h10, h11, h12⟩ := h
  rw [ht] at h6
  simp only [okT] at h6
  refine ⟨h1, h2, h3, FOk.empty_slot, ?_, ?_, ?_, ?_, ?_, ?_, h11, ?_⟩
  · simp [PState.setF, PState.setSt, PState.setPresent, innPc]
  · simpa [PState.setF, PState.setSt, PState.setPresent] using okT_weaken _ _ h6 id id
  · intro i t r hr
    exact absurd hr (no_coll_of_okT_false h6 i t r)
  · simp [PState.setF, PState.setSt, PState.setPresent]
  · simpa [PState.setF, PState.setSt, PState.setPresent, hie] using h9
  · simp [PState.setF, PState.setSt, PState.setPresent, hh]
  · simp [PState.setF, PState.setSt, PState.setPresent, hd]

theorem pinv_disable {p : Bool} {s s' : PState} {l : Label} {i : Dir} {rest : List Instr}
    (h : PInv p s) (ht : s.todo = .disable i :: rest) (hm : (l, s') ∈ pInstr s (.disable i) rest) :
    PInv p s' := by
  simp only [pInstr, List.mem_append] at hm
  rcases hm with hm | hm
  · split at hm
    · simp only [List.mem_singleton, Prod.mk.injEq] at hm
      obtain ⟨-, rfl⟩ := hm
      cases i
      · exact pinv_disable_close_out h
      · exact pinv_disable_close_inn h
    · simp at hm
  · split at hm
    · rename_i hpc
      simp only [List.mem_singleton, Prod.mk.injEq] at hm
      obtain ⟨-, rfl⟩ := hm
      cases i
      · exact pinv_disable_done_out h ht hpc
      · exact pinv_disable_done_inn h ht hpc
    · simp at hm



theorem FOk.fresh (w : Bool) :
    FOk { pc := .req ⟨.disabled, if w then .active else .idle⟩, conn := w } true .disabled := by
  refine ⟨?_, ?_, ?_, ?_, ?_⟩ <;> simp

theorem pinv_enable_out {p : Bool} {s : PState} {w : Bool} {rest : List Instr} (h : PInv p s)
    (ht : s.todo = .enable .out w :: rest) (hpas : s.passive = false) (hpr : s.presentO = false) :
    PInv p ((({ s with todo := rest }.setPresent .out true).setSt .out .disabled).setF .out
            { pc := .req ⟨.disabled, if w then .active else .idle⟩, conn := w }) := by
  have hie := h.fo_ok.inEst_false_of_pc (by simp [h.fo_ok.empty hpr])
  have hd := h.pdone_false ht
  have hh := h.hold_false ht rfl
  obtain ⟨h1, h2, h3, h4, h5, h6, h7, h8, h9, h10, h11, h12⟩ := h
  rw [ht] at h6
  simp only [okT] at h6
  refine ⟨h1, ?_, FOk.fresh w, h4, h5, ?_, ?_, ?_, ?_, ?_, h11, ?_⟩
  · simp [PState.setF, PState.setSt, PState.setPresent, hpas]
  · simpa [PState.setF, PState.setSt, PState.setPresent] using okT_weaken _ _ h6 id id
  · intro i t r hr
    exact absurd hr (no_coll_of_okT_false h6 i t r)
  · simp [PState.setF, PState.setSt, PState.setPresent]
  · simpa [PState.setF, PState.setSt, PState.setPresent, hie] using h9
  · simp [PState.setF, PState.setSt, PState.setPresent, hh]
  · simp [PState.setF, PState.setSt, PState.setPresent, hd]

theorem pinv_enable_inn {p : Bool} {s : PState} {w : Bool} {rest : List Instr} (h : PInv p s)
    (ht : s.todo = .enable .inn w :: rest) (hpr : s.presentI = false) :
    PInv p ((({ s with todo := rest }.setPresent .inn true).setSt .inn .disabled).setF .inn
            { pc := .req ⟨.disabled, if w then .active else .idle⟩, conn := w }) := by
  have hie := h.fi_ok.inEst_false_of_pc (by simp [h.fi_ok.empty hpr])
  have hd := h.pdone_false ht
  have hh := h.hold_false ht rfl
  obtain ⟨h1, h2, h3, h4, h5, h6, h7, h8, h9, h10, h11, h12⟩ := h
  rw [ht] at h6
  simp only [okT] at h6
  obtain ⟨rfl, h6⟩ := h6
  refine ⟨h1, h2, h3, FOk.fresh true, ?_, ?_, ?_, ?_, ?_, ?_, h11, ?_⟩
  · simp [PState.setF, PState.setSt, PState.setPresent, innPc, innT]
  · simpa [PState.setF, PState.setSt, PState.setPresent] using okT_weaken _ _ h6 id id
  · intro i t r hr
    exact absurd hr (no_coll_of_okT_false h6 i t r)
  · simp [PState.setF, PState.setSt, PState.setPresent]
  · simpa [PState.setF, PState.setSt, PState.setPresent, hie] using h9
  · simp [PState.setF, PState.setSt, PState.setPresent, hh]
  · simp [PState.setF, PState.setSt, PState.setPresent, hd]

theorem pinv_enable {p : Bool} {s s' : PState} {l : Label} {i : Dir} {w : Bool} {rest : List Instr}
    (h : PInv p s) (ht : s.todo = .enable i w :: rest) (hm : (l, s') ∈ pInstr s (.enable i w) rest) :
    PInv p s' := by
  have hok := h.todo_ok
  rw [ht] at hok
  simp only [pInstr] at hm
  split at hm
  · simp only [List.mem_singleton, Prod.mk.injEq] at hm
    obtain ⟨-, rfl⟩ := hm
    refine pinv_pop h ht ?_
    cases i
    · exact okT_mono _ _ _ _ _ _ _ id (by simp) id hok
    · exact okT_mono _ _ _ _ _ _ _ id id (by simp) hok.2
  · rename_i hc
    simp only [List.mem_singleton, Prod.mk.injEq] at hm
    obtain ⟨-, rfl⟩ := hm
    cases i
    · refine pinv_enable_out h ht ?_ ?_
      · cases hp : s.passive <;> simp_all
      · cases hp : s.presentO <;> simp_all [PState.present]
    · refine pinv_enable_inn h ht ?_
      cases hp : s.presentI <;> simp_all [PState.present]

theorem pinv_damp {p : Bool} {s s' : PState} {l : Label} {rest : List Instr}
    (h : PInv p s) (ht : s.todo = .damp :: rest) (hm : (l, s') ∈ pInstr s .damp rest) :
    PInv p s' := by
  have hd := h.pdone_false ht
  simp only [pInstr, List.mem_singleton, Prod.mk.injEq] at hm
  obtain ⟨-, rfl⟩ := hm
  obtain ⟨h1, h2, h3, h4, h5, h6, h7, h8, h9, h10, h11, h12⟩ := h
  rw [ht] at h6
  simp only [okT, Bool.not_eq_true'] at h6
  obtain ⟨ho, hi, rfl⟩ := h6
  refine ⟨h1, h2, h3, h4, h5, ?_, ?_, h8, h9, ?_, ?_, ?_⟩
  · simp [okT]
  · simp
  · simp [ho, hi]
  · simp
  · simp [hd]

theorem pinv_finish {p : Bool} {s s' : PState} {l : Label} {rest : List Instr}
    (h : PInv p s) (ht : s.todo = .finish :: rest) (hm : (l, s') ∈ pInstr s .finish rest) :
    PInv p s' := by
  simp only [pInstr, List.mem_singleton, Prod.mk.injEq] at hm
  obtain ⟨-, rfl⟩ := hm
  obtain ⟨h1, h2, h3, h4, h5, h6, h7, h8, h9, h10, h11, h12⟩ := h
  rw [ht] at h6
  simp only [okT, Bool.not_eq_true'] at h6
  obtain ⟨ho, hi, rfl⟩ := h6
  refine ⟨h1, h2, h3, h4, h5, ?_, ?_, h8, h9, ?_, ?_, ?_⟩
  · simp [okT]
  · simp
  · simp [ho, hi]
  · simp
  · simp [ho, hi]



theorem FOk.inEst_false_of_st {x : F} {p : Bool} {st : St} (h : FOk x p st) (hst : st ≠ .established) :
    x.inEst = false := by
  cases hi : x.inEst
  · rfl
  · exact absurd (h.run_st _ (h.inEst_run hi)) hst

/-- the collision kill value delivered to the in-FSM -/
theorem pinv_coll_kill_out {p : Bool} {s : PState} {t : Trans} {rest : List Instr} {l : Label} {o' : F}
    (h : PInv p s) (ht : s.todo = .collSel .out t :: rest) (hm : (l, o') ∈ fOnClose .inn s.fi) :
    PInv p ({ s with todo := .disableLog .inn :: .sendT .out t :: rest }.setF .inn o') := by
  have hd := h.pdone_false ht
  have hh := h.hold_false ht rfl
  obtain ⟨⟨hok, hcb, hinn, hest⟩, -⟩ := fOnClose_ok h.fi_ok hm
  obtain ⟨h1, h2, h3, h4, h5, h6, h7, h8, h9, h10, h11, h12⟩ := h
  have hst := h7 _ _ _ ht
  simp only at hst
  have hi := h4.inEst_false_of_st hst
  have hi' := hok.inEst_false_of_st hst
  rw [ht] at h6
  simp only [okT] at h6
  obtain ⟨-, rfl, hto⟩ := h6
  refine ⟨h1, h2, h3, hok, hinn h5, ?_, ?_, h8, ?_, ?_, h11, ?_⟩
  · simp [PState.setF, okT, hto]
  · simp [PState.setF]
  · simpa [PState.setF, hi, hi'] using h9
  · simp [PState.setF, hh]
  · simp [PState.setF, hd]

theorem pinv_coll_kill_inn {p : Bool} {s : PState} {t : Trans} {rest : List Instr} {l : Label} {o' : F}
    (h : PInv p s) (ht : s.todo = .collSel .inn t :: rest) (hm : (l, o') ∈ fOnClose .out s.fo) :
    PInv p ({ s with todo := .disableLog .out :: .sendT .inn t :: rest }.setF .out o') := by
  have hd := h.pdone_false ht
  have hh := h.hold_false ht rfl
  obtain ⟨⟨hok, hcb, hinn, hest⟩, -⟩ := fOnClose_ok h.fo_ok hm
  obtain ⟨h1, h2, h3, h4, h5, h6, h7, h8, h9, h10, h11, h12⟩ := h
  have hst := h7 _ _ _ ht
  simp only at hst
  have hi := h3.inEst_false_of_st hst
  have hi' := hok.inEst_false_of_st hst
  rw [ht] at h6
  simp only [okT] at h6
  obtain ⟨-, rfl, hto⟩ := h6
  refine ⟨h1, h2, hok, h4, h5, ?_, ?_, h8, ?_, ?_, h11, ?_⟩
  · simp [PState.setF, okT, hto]
  · simp [PState.setF]
  · simpa [PState.setF, hi, hi'] using h9
  · simp [PState.setF, hh]
  · simp [PState.setF, hd]

/-- the collision `select` receives the other FSM's request instead -/
theorem pinv_coll_req_out {p : Bool} {s : PState} {t ot : Trans} {rest : List Instr}
    (h : PInv p s) (ht : s.todo = .collSel .out t :: rest) (hpc : s.fi.pc = .req ot) :
    PInv p ({ s with todo := (if ot.to = St.established then [Instr.disableLog .out, .handle .inn ot]
                   else [Instr.sendT .out t, .handle .inn ot]) ++ rest }.setF .inn { s.fi with pc := .wait ot }) := by
  have hd := h.pdone_false ht
  have hh := h.hold_false ht rfl
  have hfi := h.fi_ok.set_pc (.wait ot) (by simp [hpc]) (by simp [hpc]) (by simp) (by simp)
  obtain ⟨h1, h2, h3, h4, h5, h6, h7, h8, h9, h10, h11, h12⟩ := h
  rw [ht] at h6
  simp only [okT] at h6
  obtain ⟨-, rfl, hto⟩ := h6
  have hot : innT ot := by simpa [innPc, hpc] using h5
  refine ⟨h1, h2, h3, hfi, ?_, ?_, ?_, h8, ?_, ?_, h11, ?_⟩
  · simpa [PState.setF, innPc] using hot
  · split <;> simp [PState.setF, okT, hto, hot]
  · split <;> simp [PState.setF]
  · simpa [PState.setF] using h9
  · simp [PState.setF, hh]
  · simp [PState.setF, hd]

theorem pinv_coll_req_inn {p : Bool} {s : PState} {t ot : Trans} {rest : List Instr}
    (h : PInv p s) (ht : s.todo = .collSel .inn t :: rest) (hpc : s.fo.pc = .req ot) :
    PInv p ({ s with todo := (if ot.to = St.established then [Instr.disableLog .inn, .handle .out ot]
                   else [Instr.sendT .inn t, .handle .out ot]) ++ rest }.setF .out { s.fo with pc := .wait ot }) := by
  have hd := h.pdone_false ht
  have hh := h.hold_false ht rfl
  have hfo := h.fo_ok.set_pc (.wait ot) (by simp [hpc]) (by simp [hpc]) (by simp) (by simp)
  obtain ⟨h1, h2, h3, h4, h5, h6, h7, h8, h9, h10, h11, h12⟩ := h
  rw [ht] at h6
  simp only [okT] at h6
  obtain ⟨-, rfl, hto⟩ := h6
  refine ⟨h1, h2, hfo, h4, h5, ?_, ?_, h8, ?_, ?_, h11, ?_⟩
  · split <;> simp [PState.setF, okT, hto]
  · split <;> simp [PState.setF]
  · simpa [PState.setF] using h9
  · simp [PState.setF, hh]
  · simp [PState.setF, hd]

theorem pinv_collSel {p : Bool} {s s' : PState} {l : Label} {i : Dir} {t : Trans} {rest : List Instr}
    (h : PInv p s) (ht : s.todo = .collSel i t :: rest) (hm : (l, s') ∈ pInstr s (.collSel i t) rest) :
    PInv p s' := by
  simp only [pInstr, List.mem_append] at hm
  rcases hm with (hm | hm) | hm
  · split at hm
    · simp only [List.mem_singleton, Prod.mk.injEq] at hm
      obtain ⟨-, rfl⟩ := hm
      have := h.todo_ok
      rw [ht] at this
      obtain ⟨-, rfl, -⟩ := this
      exact pinv_pop h ht (by simp [okT])
    · simp at hm
  · split at hm
    · rw [List.mem_map] at hm
      obtain ⟨⟨l', o'⟩, hmem, heq⟩ := hm
      simp only [Prod.mk.injEq] at heq
      obtain ⟨rfl, rfl⟩ := heq
      cases i
      · exact pinv_coll_kill_out h ht hmem
      · exact pinv_coll_kill_inn h ht hmem
    · simp at hm
  · split at hm
    · rename_i ot hpc
      simp only [List.mem_singleton, Prod.mk.injEq] at hm
      obtain ⟨-, rfl⟩ := hm
      cases i
      · exact pinv_coll_req_out h ht hpc
      · exact pinv_coll_req_inn h ht hpc
    · simp at hm


/-! ## all steps -/

theorem pinv_pInstr {p : Bool} {s s' : PState} {l : Label} {ins : Instr} {rest : List Instr}
    (h : PInv p s) (ht : s.todo = ins :: rest) (hm : (l, s') ∈ pInstr s ins rest) : PInv p s' := by
  cases ins with
  | logT i f t => exact pinv_logT h ht hm
  | logErr i => exact pinv_logErr h ht hm
  | handle i t => exact pinv_handle h ht hm
  | sendT i t => exact pinv_sendT h ht hm
  | disableLog i => exact pinv_disableLog h ht hm
  | disable i => exact pinv_disable h ht hm
  | enable i w => exact pinv_enable h ht hm
  | collSel i t => exact pinv_collSel h ht hm
  | damp => exact pinv_damp h ht hm
  | finish => exact pinv_finish h ht hm

theorem pinv_apiStop {p : Bool} {s : PState} (h : PInv p s) : PInv p { s with pclosed := true } := by
  obtain ⟨h1, h2, h3, h4, h5, h6, h7, h8, h9, h10, h11, h12⟩ := h
  exact ⟨h1, h2, h3, h4, h5, h6, h7, h8, h9, h10, h11, h12⟩

theorem FOk.set_inq {x : F} {p : Bool} {st : St} (h : FOk x p st) (q : List MsgC) : FOk { x with inq := q } p st := by
  obtain ⟨h1, h2, h3, h4, h5⟩ := h
  exact ⟨h1, h2, h3, h4, h5⟩

theorem pinv_rsend {p : Bool} {s s' : PState} {l : Label} (h : PInv p s) (hm : (l, s') ∈ rsendSteps s) :
    PInv p s' := by
  unfold rsendSteps at hm
  simp only [List.mem_flatMap] at hm
  obtain ⟨i, -, m, -, hm⟩ := hm
  simp only [List.mem_append, List.mem_singleton, Prod.mk.injEq] at hm
  rcases hm with hm | ⟨-, rfl⟩
  · split at hm
    · simp only [List.mem_singleton, Prod.mk.injEq] at hm
      obtain ⟨-, rfl⟩ := hm
      cases i
      · have := h.fo_ok.set_inq (s.fo.inq ++ [m])
        obtain ⟨h1, h2, h3, h4, h5, h6, h7, h8, h9, h10, h11, h12⟩ := h
        exact ⟨h1, h2, this, h4, h5, h6, h7, h8, h9, h10, h11, h12⟩
      · have := h.fi_ok.set_inq (s.fi.inq ++ [m])
        obtain ⟨h1, h2, h3, h4, h5, h6, h7, h8, h9, h10, h11, h12⟩ := h
        exact ⟨h1, h2, h3, this, h5, h6, h7, h8, h9, h10, h11, h12⟩
    · simp at hm
  · exact h

theorem pinv_init (d p : Bool) : PInv p (pInit d p) := by
  unfold pInit
  cases p
  · refine ⟨?_, ?_, ⟨?_, ?_, ?_, ?_, ?_⟩, ⟨?_, ?_, ?_, ?_, ?_⟩, ?_, ?_, ?_, ?_, ?_, ?_, ?_, ?_⟩ <;> simp [innPc, okT]
  · refine ⟨?_, ?_, ⟨?_, ?_, ?_, ?_, ?_⟩, ⟨?_, ?_, ?_, ?_, ?_⟩, ?_, ?_, ?_, ?_, ?_, ?_, ?_, ?_⟩ <;> simp [innPc, okT]

theorem pinv_next {p : Bool} {s s' : PState} {l : Label} (h : PInv p s) (hm : (l, s') ∈ next s) : PInv p s' := by
  unfold next at hm
  simp only [List.mem_append] at hm
  rcases hm with (((hm | hm) | hm) | hm) | hm
  · split at hm
    · rename_i ht
      exact pinv_pMain h ht hm
    · rename_i ins rest ht
      exact pinv_pInstr h ht hm
  · exact pinv_fSteps_out h hm
  · exact pinv_fSteps_inn h hm
  · split at hm
    · simp only [List.mem_singleton, Prod.mk.injEq] at hm
      obtain ⟨-, rfl⟩ := hm
      exact pinv_apiStop h
    · simp at hm
  · exact pinv_rsend h hm

theorem pinv_reachable {d p : Bool} {s : PState} (h : PReach d p s) : PInv p s := by
  induction h with
  | init => exact pinv_init d p
  | step _ hm ih => exact pinv_next ih hm


/-! ## labels -/

/-- labels only an FSM inside a state function can produce -/
def fsmOnly : Label → Bool
  | .dial | .onEstablished _ | .handler _ => true
  | _ => false

theorem fOnClose_label {i : Dir} {x y : F} {l : Label} (hm : (l, y) ∈ fOnClose i x) : fsmOnly l = false := by
  unfold fOnClose at hm
  repeat' split at hm
  all_goals simp at hm
  all_goals obtain ⟨rfl, -⟩ := hm
  all_goals rfl

theorem pMain_label {s s' : PState} {l : Label} (hm : (l, s') ∈ pMain s) : fsmOnly l = false := by
  unfold pMain at hm
  split at hm
  · simp at hm
  · simp only [List.mem_append, List.mem_flatMap] at hm
    rcases hm with ((hm | ⟨i, -, hm⟩) | hm) | hm
    all_goals split at hm
    all_goals simp at hm
    all_goals obtain ⟨rfl, -⟩ := hm
    all_goals rfl

theorem pInstr_label {s s' : PState} {l : Label} {ins : Instr} {rest : List Instr}
    (hm : (l, s') ∈ pInstr s ins rest) : fsmOnly l = false := by
  cases ins with
  | collSel i t =>
    simp only [pInstr, List.mem_append] at hm
    rcases hm with (hm | hm) | hm
    · split at hm
      all_goals simp at hm
      obtain ⟨rfl, -⟩ := hm
      rfl
    · split at hm
      · rw [List.mem_map] at hm
        obtain ⟨⟨l', o'⟩, hmem, heq⟩ := hm
        simp only [Prod.mk.injEq] at heq
        obtain ⟨rfl, -⟩ := heq
        exact fOnClose_label hmem
      · simp at hm
    · split at hm
      all_goals simp at hm
      obtain ⟨rfl, -⟩ := hm
      rfl
  | sendT i t =>
    simp only [pInstr, List.mem_append] at hm
    rcases hm with hm | hm
    all_goals split at hm
    all_goals simp at hm
    all_goals obtain ⟨rfl, -⟩ := hm
    all_goals rfl
  | disable i =>
    simp only [pInstr, List.mem_append] at hm
    rcases hm with hm | hm
    all_goals split at hm
    all_goals simp at hm
    all_goals obtain ⟨rfl, -⟩ := hm
    all_goals rfl
  | disableLog i =>
    simp only [pInstr] at hm
    split at hm
    all_goals simp at hm
    all_goals obtain ⟨rfl, -⟩ := hm
    all_goals rfl
  | enable i w =>
    simp only [pInstr] at hm
    split at hm
    all_goals simp at hm
    all_goals obtain ⟨rfl, -⟩ := hm
    all_goals rfl
  | _ =>
    simp only [pInstr, List.mem_singleton, Prod.mk.injEq] at hm
    obtain ⟨rfl, -⟩ := hm
    rfl

theorem rsend_label {s s' : PState} {l : Label} (hm : (l, s') ∈ rsendSteps s) : ∃ i m, l = .rsend i m := by
  unfold rsendSteps at hm
  simp only [List.mem_flatMap] at hm
  obtain ⟨i, -, m, -, hm⟩ := hm
  simp only [List.mem_append, List.mem_singleton, Prod.mk.injEq] at hm
  rcases hm with hm | ⟨rfl, -⟩
  · split at hm
    · simp only [List.mem_singleton, Prod.mk.injEq] at hm
      exact ⟨i, m, hm.1⟩
    · simp at hm
  · exact ⟨i, m, rfl⟩

theorem fSteps_absent {s : PState} {i : Dir} (h : (s.f i).pc = .absent) : fSteps s i = [] := by
  rw [fSteps_eq]
  simp [fRaw, h, FPc.listensClose]

/-- membership in `next`, by component -/
theorem mem_next {s s' : PState} {l : Label} (hm : (l, s') ∈ next s) :
    (s.todo = [] ∧ (l, s') ∈ pMain s) ∨ (∃ ins rest, s.todo = ins :: rest ∧ (l, s') ∈ pInstr s ins rest) ∨
    (l, s') ∈ fSteps s .out ∨ (l, s') ∈ fSteps s .inn ∨ l = .apiStop ∨ (l, s') ∈ rsendSteps s := by
  unfold next at hm
  simp only [List.mem_append] at hm
  rcases hm with (((hm | hm) | hm) | hm) | hm
  · split at hm
    · rename_i ht
      exact Or.inl ⟨ht, hm⟩
    · rename_i ins rest ht
      exact Or.inr (Or.inl ⟨ins, rest, ht, hm⟩)
  · exact Or.inr (Or.inr (Or.inl hm))
  · exact Or.inr (Or.inr (Or.inr (Or.inl hm)))
  · split at hm
    · simp only [List.mem_singleton, Prod.mk.injEq] at hm
      exact Or.inr (Or.inr (Or.inr (Or.inr (Or.inl hm.1))))
    · simp at hm
  · exact Or.inr (Or.inr (Or.inr (Or.inr (Or.inr hm))))

/-- with both slots empty only the manager and the environment move: no FSM-only label -/
theorem no_fsm_label {s s' : PState} {l : Label} (ho : s.fo.pc = .absent) (hi : s.fi.pc = .absent)
    (hm : (l, s') ∈ next s) : fsmOnly l = false := by
  rcases mem_next hm with ⟨-, h⟩ | ⟨ins, rest, -, h⟩ | h | h | rfl | h
  · exact pMain_label h
  · exact pInstr_label h
  · rw [fSteps_absent (i := .out) ho] at h
    cases h
  · rw [fSteps_absent (i := .inn) hi] at h
    cases h
  · rfl
  · obtain ⟨i, m, rfl⟩ := rsend_label h
    rfl

/-- the inbound FSM never dials -/
theorem fSteps_inn_no_dial {s s' : PState} {l : Label} {p : Bool} (h : PInv p s) (hm : (l, s') ∈ fSteps s .inn) :
    l ≠ .dial := by
  rw [fSteps_eq, List.mem_map] at hm
  obtain ⟨⟨l', y⟩, hmem, heq⟩ := hm
  simp only [Prod.mk.injEq] at heq
  obtain ⟨rfl, -⟩ := heq
  intro hl
  have := (fRaw_ok h.fi_ok hmem).2 hl
  have hinn := h.fi_inn
  rcases this with h | h | h
  · cases h
  · simp [h, innPc] at hinn
  · simp [h, innPc] at hinn


/-! ## explicit paths (non-vacuity witnesses) -/

/-- follow the `k`-th alternative of `next` at each step -/
def follow : PState → List Nat → Option PState
  | s, [] => some s
  | s, k :: ks =>
    match (next s)[k]? with
    | some (_, s') => follow s' ks
    | none => none

theorem follow_reach {d p : Bool} : ∀ (ks : List Nat) (s s' : PState), PReach d p s → follow s ks = some s' →
    PReach d p s' := by
  intro ks
  induction ks with
  | nil =>
    intro s s' h hf
    simp only [follow, Option.some.injEq] at hf
    exact hf ▸ h
  | cons k ks ih =>
    intro s s' h hf
    simp only [follow] at hf
    split at hf
    · rename_i l s1 hk
      exact ih s1 s' (PReach.step (l := l) h (List.mem_of_getElem? hk)) hf
    · cases hf

theorem exists_of_follow {d p : Bool} (P : PState → Bool) (ks : List Nat)
    (h : (follow (pInit d p) ks).any P = true) : ∃ s, PReach d p s ∧ P s = true := by
  cases hf : follow (pInit d p) ks with
  | none => simp [hf] at h
  | some s' =>
    rw [hf] at h
    exact ⟨s', follow_reach ks _ _ .init hf, by simpa using h⟩

end CoreBGP.Lemmas

