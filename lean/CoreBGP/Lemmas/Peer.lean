import CoreBGP.Model.Peer
/-! Helper lemmas and the shared inductive invariant of the L2 model (never property statements). -/
namespace CoreBGP.Lemmas
open CoreBGP CoreBGP.Model

end CoreBGP.Lemmas
