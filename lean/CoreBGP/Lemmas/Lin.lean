import CoreBGP.Spec.Lin
/-!
# Helper lemmas for `Props.C20Lin`: `picks`, `minimal`, `lin` unfolding, soundness/completeness cores
-/
namespace CoreBGP.Lemmas.Lin
open CoreBGP.Spec.Lin

variable {σ ο ρ : Type}

/-- every pick is a rearrangement of the list -/
theorem picks_perm : ∀ (l : List (Ev ο ρ)) (p : Ev ο ρ × List (Ev ο ρ)), p ∈ picks l → (p.1 :: p.2).Perm l
  | [], p, hp => by simp [picks] at hp
  | e :: es, p, hp => by
    simp only [picks, List.mem_cons, List.mem_map] at hp
    rcases hp with rfl | ⟨q, hq, rfl⟩
    · exact List.Perm.refl _
    · have ih := picks_perm es q hq
      exact (List.Perm.swap e q.1 q.2).trans (ih.cons e)

/-- taking out the element at a split point is one of the picks -/
theorem picks_split (e : Ev ο ρ) (b : List (Ev ο ρ)) :
    ∀ a : List (Ev ο ρ), (e, a ++ b) ∈ picks (a ++ e :: b)
  | [] => by simp [picks]
  | x :: a => by
    simp only [List.cons_append, picks, List.mem_cons, List.mem_map]
    exact Or.inr ⟨(e, a ++ b), picks_split e b a, rfl⟩

/-- the head of any rearrangement is a pick whose rest is a rearrangement of the tail -/
theorem picks_of_perm {e : Ev ο ρ} {l' h : List (Ev ο ρ)} (hp : (e :: l').Perm h) :
    ∃ p ∈ picks h, p.1 = e ∧ l'.Perm p.2 := by
  have hmem : e ∈ h := hp.subset (List.mem_cons_self)
  obtain ⟨a, b, rfl⟩ := List.append_of_mem hmem
  refine ⟨(e, a ++ b), picks_split e b a, rfl, ?_⟩
  have h1 : (e :: l').Perm (e :: (a ++ b)) := hp.trans List.perm_middle
  exact h1.cons_inv

theorem minimal_iff (e : Ev ο ρ) (rem : List (Ev ο ρ)) :
    minimal e rem = true ↔ ∀ x ∈ rem, ¬ x.ret < e.inv := by
  simp [minimal]

section
variable [DecidableEq ρ]

@[simp] theorem lin_nil (step : σ → ο → σ × ρ) (n : Nat) (s : σ) : lin step n s [] = true := by
  cases n <;> rfl

theorem lin_zero_cons (step : σ → ο → σ × ρ) (s : σ) (e : Ev ο ρ) (es : List (Ev ο ρ)) :
    lin step 0 s (e :: es) = false := rfl

theorem lin_succ_cons (step : σ → ο → σ × ρ) (n : Nat) (s : σ) (e : Ev ο ρ) (es : List (Ev ο ρ)) :
    lin step (n + 1) s (e :: es) =
      (picks (e :: es)).any fun p =>
        minimal p.1 p.2 && decide ((step s p.1.op).2 = p.1.res) && lin step n (step s p.1.op).1 p.2 := rfl

theorem lin_sound_core (step : σ → ο → σ × ρ) :
    ∀ (n : Nat) (s : σ) (h : List (Ev ο ρ)), lin step n s h = true → Linearizable step s h
  | n, s, [], _ => ⟨[], List.Perm.refl _, List.Pairwise.nil, trivial⟩
  | 0, s, e :: es, hl => by simp [lin_zero_cons] at hl
  | n + 1, s, e :: es, hl => by
    rw [lin_succ_cons, List.any_eq_true] at hl
    obtain ⟨p, hp, hc⟩ := hl
    simp only [Bool.and_eq_true, decide_eq_true_eq] at hc
    obtain ⟨⟨hmin, hres⟩, hrec⟩ := hc
    obtain ⟨l', hperm, hrt, hseq⟩ := lin_sound_core step n _ p.2 hrec
    refine ⟨p.1 :: l', (hperm.cons p.1).trans (picks_perm _ p hp), ?_, ⟨hres, hseq⟩⟩
    refine List.Pairwise.cons ?_ hrt
    intro x hx
    exact (minimal_iff _ _).1 hmin x (hperm.subset hx)

theorem lin_complete_core (step : σ → ο → σ × ρ) :
    ∀ (l : List (Ev ο ρ)) (n : Nat) (s : σ) (h : List (Ev ο ρ)), h.length ≤ n →
      l.Perm h → RespectsRT l → SeqOK step s l → lin step n s h = true
  | [], n, s, h, _, hp, _, _ => by
    have : h = [] := List.Perm.eq_nil hp.symm
    subst this; exact lin_nil step n s
  | e :: l', n, s, h, hn, hp, hrt, hseq => by
    obtain ⟨p, hpk, hpe, hpr⟩ := picks_of_perm hp
    have hlen : p.2.length + 1 = h.length := by
      have := (picks_perm h p hpk).length_eq
      simpa using this
    cases h with
    | nil => simp [picks] at hpk
    | cons a t =>
      cases n with
      | zero => simp at hn
      | succ n =>
        rw [lin_succ_cons, List.any_eq_true]
        refine ⟨p, hpk, ?_⟩
        simp only [Bool.and_eq_true, decide_eq_true_eq]
        have hrt' := List.pairwise_cons.1 hrt
        subst hpe
        refine ⟨⟨?_, hseq.1⟩, ?_⟩
        · rw [minimal_iff]
          intro x hx
          exact hrt'.1 x (hpr.symm.subset hx)
        · apply lin_complete_core step l' n _ p.2 _ hpr hrt'.2 hseq.2
          simp at hn hlen; omega
end

end CoreBGP.Lemmas.Lin
