import CoreBGP.Model.Session
import CoreBGP.Model.Timed
import CoreBGP.Spec.Wire
import CoreBGP.Lemmas.Reader
/-! Helper lemmas about the session models (`Model.Session`, `Model.Timed`) and outbound framing
(never property statements). -/
namespace CoreBGP.Lemmas
open CoreBGP CoreBGP.Model

/-! ## timed model -/

/-- the OPEN-accepted step with the negotiated hold time written as `min` -/
theorem tstep_openAccepted (s : TSess) (rh : Nat) :
    tstep s (.openAccepted rh) =
      if s.phase ≠ .openSent then none
      else if min s.localHold rh ≠ 0 then
        some ({ s with phase := .openConfirm, hold := min s.localHold rh,
                       kaDl := some (s.now + kaInterval (min s.localHold rh)),
                       holdDl := some (s.now + min s.localHold rh * secNs),
                       lastRecv := s.now, lastSent := s.now }, .sentKeepalive)
      else
        some ({ s with phase := .openConfirm, hold := 0, kaDl := none, holdDl := none,
                       lastRecv := s.now, lastSent := s.now }, .sentKeepalive) := by
  have hm : (if s.localHold < rh then s.localHold else rh) = min s.localHold rh := by
    simp only [Nat.min_def]; split <;> split <;> omega
  simp only [tstep, hm]

/-! ## `Spec.frames` on a concatenation of whole frames -/

theorem frame_length (t : UInt8) (body : Bytes) : (Spec.frame t body).length = 19 + body.length := by
  simp [Spec.frame, Spec.marker, Spec.u16]; omega

theorem headerFaults_fhdr (t : UInt8) (n : Nat) (h1 : 19 ≤ n) (h2 : n ≤ 4096) :
    Spec.headerFaults (fhdr t n) = [] := by
  have e1 : ¬ ((fhdr t n).take 16 ≠ Spec.marker) := by simp [fhdr_take]
  have e2 : ¬ (Spec.n16 ((fhdr t n).getD 16 0) ((fhdr t n).getD 17 0) < 19 ∨
      Spec.n16 ((fhdr t n).getD 16 0) ((fhdr t n).getD 17 0) > 4096) := by
    rw [fhdr_16, fhdr_17, n16_u16_rd n (by omega)]; omega
  unfold Spec.headerFaults
  simp only [if_neg e1, if_neg e2]
  rfl

theorem frames_step (fuel : Nat) (t : UInt8) (body rest : Bytes) (hk : Spec.knownType t = true)
    (hb : body.length ≤ 4077) :
    Spec.frames (fuel + 1) (Spec.frame t body ++ rest) =
      ((t, body) :: (Spec.frames fuel rest).1, (Spec.frames fuel rest).2) := by
  have hlen : (Spec.frame t body ++ rest).length = 19 + body.length + rest.length := by
    rw [List.length_append, frame_length]
  have htake : (Spec.frame t body ++ rest).take 19 = fhdr t (19 + body.length) := by
    rw [frame_eq, List.take_left' (fhdr_length _ _)]
  have hdrop : (Spec.frame t body ++ rest).drop (19 + body.length) = rest := by
    rw [List.drop_left' (frame_length _ _)]
  have htk : ((Spec.frame t body ++ rest).take (19 + body.length)).drop 19 = body := by
    rw [List.take_left' (frame_length _ _)]
    simp [Spec.frame, Spec.marker, Spec.u16]
  rw [Spec.frames]
  rw [if_neg (by omega), if_neg (by omega)]
  simp only [htake, fhdr_16, fhdr_17, fhdr_18, n16_u16_rd (19 + body.length) (by omega),
    headerFaults_fhdr t (19 + body.length) (by omega) (by omega)]
  rw [if_neg (by omega)]
  simp only [hk, hdrop, htk]
  simp

theorem frames_concat : ∀ (ms : List (UInt8 × Bytes)) (fuel : Nat),
    (∀ m ∈ ms, Spec.knownType m.1 = true ∧ m.2.length ≤ 4077) → ms.length < fuel →
    Spec.frames fuel (ms.map fun m => Spec.frame m.1 m.2).flatten = (ms, .clean) := by
  intro ms
  induction ms with
  | nil =>
    intro fuel _ hf
    cases fuel with
    | zero => omega
    | succ f => simp [Spec.frames]
  | cons x ms ih =>
    intro fuel h hf
    obtain ⟨t, body⟩ := x
    cases fuel with
    | zero => omega
    | succ f =>
      obtain ⟨hk, hb⟩ := h (t, body) (by simp)
      simp only [List.map_cons, List.flatten_cons]
      rw [frames_step f t body _ hk hb, ih f (fun m hm => h m (by simp [hm])) (by simpa using hf)]

theorem frames_flatten_length (ms : List (UInt8 × Bytes)) :
    ms.length ≤ (ms.map fun m => Spec.frame m.1 m.2).flatten.length := by
  induction ms with
  | nil => simp
  | cons x ms ih =>
    simp only [List.map_cons, List.flatten_cons, List.length_append, List.length_cons, frame_length]
    omega

/-! ## what the session writes -/

theorem prependHeader_frame_lt (m : Bytes) (t : UInt8) (h : m.length + 19 < 65536) :
    prependHeader m t = Spec.frame t m := by
  unfold prependHeader Spec.frame Spec.marker
  rw [Gen.headerLength, be16Bytes_len16_rd _ h, Nat.add_comm]

theorem encodeOpenBody_length (o : OpenMsg) (b : Bytes) (h : encodeOpenBody o = some b) :
    b.length ≤ 265 := by
  unfold encodeOpenBody at h
  split at h
  · cases h
  · split at h
    · cases h
    · cases h
      simp [be16Bytes, be32Bytes]
      omega

theorem validateCaps_err_data (r : UInt32) : ∀ (cs : List Cap) (found : Bool) (n : Notif),
    validateCaps r cs found = .error n → n.data = [] := by
  intro cs
  induction cs with
  | nil => intro found n h; simp [validateCaps] at h
  | cons c cs ih =>
    intro found n h
    unfold validateCaps at h
    split at h
    · split at h
      · split at h
        · cases h; rfl
        · exact ih _ _ h
      · cases h; rfl
    · exact ih _ _ h

theorem validateOpen_data_small (o : OpenMsg) (lid las ras : UInt32) (n : Notif)
    (h : validateOpen o lid las ras = some n) : n.data.length ≤ 6 := by
  unfold validateOpen at h
  split at h
  · cases h; simp [be16Bytes]
  · dsimp only at h
    split at h
    · cases h; simp
    · split at h
      · cases h; simp
      · split at h
        · cases h; simp
        · split at h
          · cases h; simp
          · split at h
            · cases h
              rename_i hv
              rw [validateCaps_err_data _ _ _ _ hv]; simp
            · split at h
              · cases h; simp
              · split at h
                · cases h; simp [encodeCap, fourOctetASCap, be32Bytes]
                · cases h

theorem mem_teardown {b : Bytes} {est : Bool} {n : Option Notif} {next : St} {err : Option ErrK}
    (h : Act.send b ∈ teardown est n next err) : ∃ m, n = some m ∧ b = encodeNotif m := by
  unfold teardown at h
  cases n with
  | none => cases est <;> simp at h
  | some m =>
    refine ⟨m, rfl, ?_⟩
    cases est <;> simpa using h

theorem mem_onReaderErr {b : Bytes} {est : Bool} {io : St} {e : RErr}
    (h : Act.send b ∈ onReaderErr est io e) : ∃ n, e = .notif n true ∧ b = encodeNotif n := by
  cases e with
  | notif n out =>
    cases out with
    | true =>
      obtain ⟨m, hm, hb⟩ := mem_teardown (by simpa [onReaderErr] using h)
      cases hm
      exact ⟨_, rfl, hb⟩
    | false =>
      obtain ⟨m, hm, _⟩ := mem_teardown (by simpa [onReaderErr] using h)
      cases hm
  | eof => obtain ⟨m, hm, _⟩ := mem_teardown (by simpa [onReaderErr] using h); cases hm
  | other => obtain ⟨m, hm, _⟩ := mem_teardown (by simpa [onReaderErr] using h); cases hm
  | panic => obtain ⟨m, hm, _⟩ := mem_teardown (by simpa [onReaderErr] using h); cases hm

/-- what a session can write -/
def SentBy (inp : Input) (ret : Option Notif) (b : Bytes) : Prop :=
  b = kaBytes ∨ (∃ body, inp = .writeUpdate body ∧ b = updateBytes body) ∨
  ∃ n, b = encodeNotif n ∧ (n.data.length ≤ 6 ∨ ret = some n ∨ ∃ out, inp = .readerErr (.notif n out))

theorem SentBy.notif_small {inp ret b} {n : Option Notif} {est next err}
    (h : Act.send b ∈ teardown est n next err) (hs : ∀ m, n = some m → m.data.length ≤ 6) :
    SentBy inp ret b := by
  obtain ⟨m, hm, hb⟩ := mem_teardown h
  exact .inr (.inr ⟨m, hb, .inl (hs m hm)⟩)

theorem SentBy.readerErr {ret b est io e}
    (h : Act.send b ∈ onReaderErr est io e) : SentBy (.readerErr e) ret b := by
  obtain ⟨m, hm, hb⟩ := mem_onReaderErr h
  exact .inr (.inr ⟨m, hb, .inr (.inr ⟨true, by rw [hm]⟩)⟩)

theorem SentBy.ret {inp b n est next err}
    (h : Act.send b ∈ teardown est (some n) next err) : SentBy inp (some n) b := by
  obtain ⟨m, hm, hb⟩ := mem_teardown h
  cases hm
  exact .inr (.inr ⟨_, hb, .inr (.inl rfl)⟩)

theorem react_sends_openSent (cfg : SessCfg) (inp : Input) (ret : Option Notif) (b : Bytes)
    (h : Act.send b ∈ (react cfg .openSent inp ret).2) : SentBy inp ret b := by
  cases inp with
  | closeReq => exact SentBy.notif_small (n := some ceaseNotif) h (by intro m hm; cases hm; simp [ceaseNotif])
  | holdExpired => exact SentBy.notif_small (n := some holdExpiredNotif) h (by intro m hm; cases hm; simp [holdExpiredNotif])
  | readerErr e => exact SentBy.readerErr h
  | kaTimer => simp [react] at h
  | writeUpdate x => simp [react] at h
  | msg m =>
    cases m with
    | notif n => exact SentBy.notif_small (n := none) h (by intro m hm; cases hm)
    | update x => exact SentBy.notif_small (n := some _) h (by intro m hm; cases hm; simp [fsmErr])
    | keepalive => exact SentBy.notif_small (n := some _) h (by intro m hm; cases hm; simp [fsmErr])
    | open_ o =>
      simp only [react] at h
      split at h
      · rename_i n hv
        exact SentBy.notif_small (n := some n) h (by intro m hm; cases hm; exact validateOpen_data_small _ _ _ _ _ hv)
      · cases ret with
        | some n =>
          simp only [List.mem_append, List.mem_singleton] at h
          rcases h with h | h
          · cases h
          · exact SentBy.ret h
        | none =>
          simp at h
          exact .inl h

theorem react_sends_openConfirm (cfg : SessCfg) (inp : Input) (ret : Option Notif) (b : Bytes)
    (h : Act.send b ∈ (react cfg .openConfirm inp ret).2) : SentBy inp ret b := by
  cases inp with
  | closeReq => exact SentBy.notif_small (n := some ceaseNotif) h (by intro m hm; cases hm; simp [ceaseNotif])
  | holdExpired => exact SentBy.notif_small (n := some holdExpiredNotif) h (by intro m hm; cases hm; simp [holdExpiredNotif])
  | readerErr e => exact SentBy.readerErr h
  | kaTimer => simp [react] at h; exact .inl h
  | writeUpdate x => simp [react] at h
  | msg m =>
    cases m with
    | notif n => exact SentBy.notif_small (n := none) h (by intro m hm; cases hm)
    | update x => exact SentBy.notif_small (n := some _) h (by intro m hm; cases hm; simp [fsmErr])
    | keepalive => simp [react] at h
    | open_ o => exact SentBy.notif_small (n := some _) h (by intro m hm; cases hm; simp [fsmErr])

theorem react_sends_established (cfg : SessCfg) (inp : Input) (ret : Option Notif) (b : Bytes)
    (h : Act.send b ∈ (react cfg .established inp ret).2) : SentBy inp ret b := by
  cases inp with
  | closeReq => exact SentBy.notif_small (n := some ceaseNotif) h (by intro m hm; cases hm; simp [ceaseNotif])
  | holdExpired => exact SentBy.notif_small (n := some holdExpiredNotif) h (by intro m hm; cases hm; simp [holdExpiredNotif])
  | readerErr e => exact SentBy.readerErr h
  | kaTimer => simp [react] at h; exact .inl h
  | writeUpdate x => simp [react] at h; exact .inr (.inl ⟨x, rfl, h⟩)
  | msg m =>
    cases m with
    | notif n => exact SentBy.notif_small (n := none) h (by intro m hm; cases hm)
    | update x =>
      cases ret with
      | some n =>
        simp only [react, List.mem_append, List.mem_singleton] at h
        rcases h with h | h
        · cases h
        · exact SentBy.ret h
      | none => simp [react] at h
    | keepalive => simp [react] at h
    | open_ o => exact SentBy.notif_small (n := some _) h (by intro m hm; cases hm; simp [fsmErr])

theorem react_sends (cfg : SessCfg) (ph : Phase) (inp : Input) (ret : Option Notif) (b : Bytes)
    (h : Act.send b ∈ (react cfg ph inp ret).2) : SentBy inp ret b := by
  cases ph with
  | closed => simp [react] at h
  | openSent => exact react_sends_openSent cfg inp ret b h
  | openConfirm => exact react_sends_openConfirm cfg inp ret b h
  | established => exact react_sends_established cfg inp ret b h

theorem updateBytes_ne_kaBytes (b : Bytes) : updateBytes b ≠ kaBytes := by
  intro h
  have := congrArg (fun l => l.getD 18 0) h
  simp [updateBytes, kaBytes, prependHeader, be16Bytes, Gen.updateMessageType, Gen.keepAliveMessageType] at this

/-! ## the reader on a stream of whole UPDATE / KEEPALIVE messages -/

/-- the reader message a `(type, body)` pair of type 2 / 4 stands for -/
def kaOrUpdate (m : UInt8 × Bytes) : RMsg := if m.1 = 2 then .update m.2 else .keepalive

theorem readAll_nil : readAll [] = ([], .eof) := truncated_no_notification [] (by simp)

theorem messageFromBytes_update (body : Bytes) : messageFromBytes body 2 = .ok (.update body) := by
  unfold messageFromBytes
  rw [if_neg (by decide), if_pos (by decide)]

theorem messageFromBytes_keepalive (body : Bytes) : messageFromBytes body 4 = .ok .keepalive := by
  unfold messageFromBytes
  rw [if_neg (by decide), if_neg (by decide), if_neg (by decide), if_pos (by decide)]

theorem readAll_kaOrUpdate (ms : List (UInt8 × Bytes))
    (hms : ∀ m ∈ ms, (m.1 = 2 ∧ m.2.length ≤ 4077) ∨ (m.1 = 4 ∧ m.2 = [])) :
    readAll (ms.map fun m => Spec.frame m.1 m.2).flatten = (ms.map kaOrUpdate, .eof) := by
  induction ms with
  | nil => exact readAll_nil
  | cons x ms ih =>
    obtain ⟨t, body⟩ := x
    have ih' := ih (fun m hm => hms m (List.mem_cons_of_mem _ hm))
    simp only [List.map_cons, List.flatten_cons]
    rcases hms (t, body) (List.mem_cons_self ..) with ⟨ht, hb⟩ | ⟨ht, hb⟩
    · simp only at ht hb
      subst ht
      have hone := readOne_frame 2 body (ms.map fun m => Spec.frame m.1 m.2).flatten hb
      rw [messageFromBytes_update] at hone
      rw [readAll_step hone, ih']
      rfl
    · simp only at ht hb
      subst ht hb
      have hone := readOne_frame 4 [] (ms.map fun m => Spec.frame m.1 m.2).flatten (by simp)
      rw [messageFromBytes_keepalive] at hone
      rw [readAll_step hone, ih']
      rfl

end CoreBGP.Lemmas
