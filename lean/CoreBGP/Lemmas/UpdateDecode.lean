import CoreBGP.Model.Packet
import CoreBGP.Model.Reader
import CoreBGP.Model.Update
import CoreBGP.Spec.Wire
import CoreBGP.Spec.Update
/-! Helper lemmas (never property statements). -/
namespace CoreBGP.Lemmas
open CoreBGP CoreBGP.Model

/-! ## big-endian helpers -/

theorem be16_toNat_ud (a b : UInt8) : (be16 a b).toNat = Spec.n16 a b := by
  simp only [be16, Spec.n16, UInt16.toNat_ofNat']
  have := a.toNat_lt; have := b.toNat_lt; omega

theorem u16_n16_ud (a b : UInt8) : Spec.u16 (Spec.n16 a b) = [a, b] := by
  have ha := a.toNat_lt; have hb := b.toNat_lt
  have h1 : (a.toNat * 256 + b.toNat) / 256 = a.toNat := by omega
  have h2 : (a.toNat * 256 + b.toNat) % 256 = b.toNat := by omega
  simp only [Spec.u16, Spec.n16, h1, h2, UInt8.ofNat_toNat]

/-! ## `Spec.chooseNotif` as a priority search -/

/-- first leaf of a class -/
def firstOf (c : Spec.Class) (ls : Spec.Leaves) : Option Notif :=
  (ls.find? (fun l => l.1 = c)).map (·.2)

theorem firstOf_append (c : Spec.Class) (a b : Spec.Leaves) :
    firstOf c (a ++ b) = (firstOf c a).or (firstOf c b) := by
  unfold firstOf
  rw [List.find?_append]
  cases List.find? (fun l => decide (l.1 = c)) a <;> simp

theorem firstOf_nil (c : Spec.Class) : firstOf c [] = none := rfl

theorem firstOf_eq_none {c : Spec.Class} {ls : Spec.Leaves} :
    firstOf c ls = none ↔ ∀ l ∈ ls, l.1 ≠ c := by
  simp [firstOf]

theorem rank_inj {a b : Spec.Class} (h : a.rank = b.rank) : a = b := by
  cases a <;> cases b <;> simp [Spec.Class.rank] at h <;> rfl

theorem rank_le (a : Spec.Class) : a.rank ≤ 4 := by
  cases a <;> simp [Spec.Class.rank]

theorem best_ge (ls : Spec.Leaves) : ∀ (m k : Nat),
    k ≤ ls.foldl (fun m l => max m l.1.rank) m ↔ (k ≤ m ∨ ∃ l ∈ ls, k ≤ l.1.rank) := by
  induction ls with
  | nil => intro m k; simp
  | cons a as ih =>
    intro m k
    simp only [List.foldl_cons, ih, List.mem_cons, exists_eq_or_imp]
    have : k ≤ max m a.fst.rank ↔ k ≤ m ∨ k ≤ a.fst.rank := by omega
    rw [this, or_assoc]

theorem chooseNotif_of_first {c : Spec.Class} {ls : Spec.Leaves} {n : Notif}
    (hr : 0 < c.rank) (hle : ∀ l ∈ ls, l.1.rank ≤ c.rank) (h : firstOf c ls = some n) :
    Spec.chooseNotif ls = n := by
  have hbest : ls.foldl (fun m l => max m l.1.rank) 0 = c.rank := by
    apply Nat.le_antisymm
    · apply Nat.le_of_not_lt
      intro hlt
      have := (best_ge ls 0 (c.rank + 1)).1 hlt
      rcases this with h0 | ⟨l, hl, h1⟩
      · omega
      · have := hle l hl; omega
    · apply (best_ge ls 0 c.rank).2
      right
      simp only [firstOf, Option.map_eq_some_iff] at h
      obtain ⟨l, hl, _⟩ := h
      have hm := List.mem_of_find?_eq_some hl
      have hp := List.find?_some hl
      simp at hp
      exact ⟨l, hm, by rw [hp]; exact Nat.le_refl _⟩
  unfold Spec.chooseNotif
  simp only [hbest]
  have hne : c.rank ≠ 0 := by omega
  simp only [hne, if_false]
  have hcongr : ls.find? (fun l => decide (l.1.rank = c.rank)) = ls.find? (fun l => decide (l.1 = c)) := by
    congr 1; funext l
    by_cases hh : l.1 = c
    · simp [hh]
    · have : l.1.rank ≠ c.rank := fun h' => hh (rank_inj h')
      simp [hh, this]
  rw [hcongr]
  simp only [firstOf, Option.map_eq_some_iff] at h
  obtain ⟨l, hl, rfl⟩ := h
  rw [hl]

theorem chooseNotif_of_rank0 {ls : Spec.Leaves} (h : ∀ l ∈ ls, l.1.rank = 0) :
    Spec.chooseNotif ls = Spec.genericUpdate := by
  have hbest : ls.foldl (fun m l => max m l.1.rank) 0 = 0 := by
    apply Nat.le_antisymm _ (Nat.zero_le _)
    apply Nat.le_of_not_lt
    intro hlt
    rcases (best_ge ls 0 1).1 hlt with h0 | ⟨l, hl, h1⟩
    · omega
    · have := h l hl; omega
  unfold Spec.chooseNotif
  simp [hbest]

/-- `chooseNotif` as a priority search -/
theorem chooseNotif_eq (ls : Spec.Leaves) :
    Spec.chooseNotif ls =
      match firstOf .notification ls, firstOf .withdraw ls, firstOf .discard ls, firstOf .other ls with
      | some n, _, _, _ => n
      | none, some n, _, _ => n
      | none, none, some n, _ => n
      | none, none, none, some n => n
      | none, none, none, none => Spec.genericUpdate := by
  split
  next n _ _ _ h => 
    exact chooseNotif_of_first (c := .notification) (by decide) (fun l _ => rank_le _) h
  next n _ _ h4 h3 =>
    refine chooseNotif_of_first (c := .withdraw) (by decide) ?_ h3
    intro l hl
    have := firstOf_eq_none.1 h4 l hl
    revert this; cases l.1 <;> simp [Spec.Class.rank]
  next n _ h4 h3 h2 =>
    refine chooseNotif_of_first (c := .discard) (by decide) ?_ h2
    intro l hl
    have := firstOf_eq_none.1 h4 l hl
    have := firstOf_eq_none.1 h3 l hl
    revert this; revert this; cases l.1 <;> simp [Spec.Class.rank]
  next n h4 h3 h2 h1 =>
    refine chooseNotif_of_first (c := .other) (by decide) ?_ h1
    intro l hl
    have := firstOf_eq_none.1 h4 l hl
    have := firstOf_eq_none.1 h3 l hl
    have := firstOf_eq_none.1 h2 l hl
    revert this; revert this; revert this; cases l.1 <;> simp [Spec.Class.rank]
  next h4 h3 h2 h1 =>
    apply chooseNotif_of_rank0
    intro l hl
    have := firstOf_eq_none.1 h4 l hl
    have := firstOf_eq_none.1 h3 l hl
    have := firstOf_eq_none.1 h2 l hl
    have := firstOf_eq_none.1 h1 l hl
    revert this; revert this; revert this; revert this; cases l.1 <;> simp [Spec.Class.rank]



theorem n16_le (a b : UInt8) : Spec.n16 a b ≤ 65535 := by
  have := a.toNat_lt; have := b.toNat_lt; simp only [Spec.n16]; omega

theorem u16_eq_cons {n : Nat} (h : n ≤ 65535) :
    ∃ x y, Spec.u16 n = [x, y] ∧ Spec.n16 x y = n := by
  refine ⟨_, _, rfl, ?_⟩
  simp only [Spec.n16, UInt8.toNat_ofNat']
  omega

theorem partition_reconstruct (b w a n : Bytes) (h : Spec.partition b = some (w, a, n)) :
    Spec.u16 w.length ++ w ++ Spec.u16 a.length ++ a ++ n = b ∧ w.length ≤ 65535 ∧ a.length ≤ 65535 := by
  unfold Spec.partition at h
  split at h
  next w1 w2 r1 =>
    simp only at h
    split at h
    · exact absurd h (by simp)
    next hlen =>
      split at h
      next p1 p2 r2 hd =>
        split at h
        · exact absurd h (by simp)
        next hlen2 =>
          simp only [Option.some.injEq, Prod.mk.injEq] at h
          obtain ⟨rfl, rfl, rfl⟩ := h
          have hw : (List.take (Spec.n16 w1 w2) r1).length = Spec.n16 w1 w2 := by
            rw [List.length_take]; omega
          have ha : (List.take (Spec.n16 p1 p2) r2).length = Spec.n16 p1 p2 := by
            rw [List.length_take]; omega
          rw [hw, ha, u16_n16_ud, u16_n16_ud]
          refine ⟨?_, n16_le _ _, n16_le _ _⟩
          have : r1 = List.take (Spec.n16 w1 w2) r1 ++ List.drop (Spec.n16 w1 w2) r1 := (List.take_append_drop _ _).symm
          conv => rhs; rw [this, hd]
          simp [List.take_append_drop]
      next => exact absurd h (by simp)
  next => exact absurd h (by simp)


theorem ofNat_toNat8 (l : UInt8) : UInt8.ofNat l.toNat = l := UInt8.ofNat_toNat

theorem attrs_reconstruct : ∀ (fuel : Nat) (b : Bytes),
    ((Spec.attrs fuel b).1.map Spec.attrWire).flatten ++ (Spec.attrs fuel b).2 = b := by
  intro fuel
  induction fuel with
  | zero => intro b; simp [Spec.attrs]
  | succ fuel ih =>
    intro b
    unfold Spec.attrs
    split
    · simp
    next f t rest =>
      split
      next hx =>
        split
        next l1 l2 v =>
          split
          · simp
          next hlen =>
            have hl : (List.take (Spec.n16 l1 l2) v).length = Spec.n16 l1 l2 := by
              rw [List.length_take]; omega
            have := ih (List.drop (Spec.n16 l1 l2) v)
            simp only [List.map_cons, List.flatten_cons, Spec.attrWire, hx, if_true, hl, u16_n16_ud,
              List.append_assoc, this]
            simp [List.take_append_drop]
        · simp
      next hx =>
        split
        next l v =>
          split
          · simp
          next hlen =>
            have hl : (List.take l.toNat v).length = l.toNat := by
              rw [List.length_take]; omega
            have := ih (List.drop l.toNat v)
            simp only [List.map_cons, List.flatten_cons, Spec.attrWire, hx, if_false, hl, UInt8.ofNat_toNat,
              List.append_assoc, this]
            simp [List.take_append_drop]
        · simp
    · simp


theorem attrs_wire (as : List Spec.Attr)
    (hfit : ∀ a ∈ as, (a.flags.toNat / 16 % 2 = 1 → a.value.length ≤ 65535) ∧ (a.flags.toNat / 16 % 2 = 0 → a.value.length ≤ 255)) :
    ∀ fuel, ((as.map Spec.attrWire).flatten).length < fuel →
      Spec.attrs fuel (as.map Spec.attrWire).flatten = (as, []) := by
  induction as with
  | nil =>
    intro fuel h
    cases fuel with
    | zero => simp at h
    | succ k => simp [Spec.attrs]
  | cons a as ih =>
    intro fuel h
    have ih' := ih (fun x hx => hfit x (List.mem_cons_of_mem _ hx))
    obtain ⟨hf1, hf2⟩ := hfit a List.mem_cons_self
    cases fuel with
    | zero => simp at h
    | succ k =>
      obtain ⟨fl, code, value⟩ := a
      simp only [List.map_cons, List.flatten_cons] at h ⊢
      by_cases hx : fl.toNat / 16 % 2 = 1
      · obtain ⟨x, y, hu, hn⟩ := u16_eq_cons (hf1 hx)
        simp only at hu hn
        simp only [Spec.attrWire, hx, if_true, hu, List.cons_append, List.nil_append] at h ⊢
        unfold Spec.attrs
        simp only [hx, if_true, hn]
        have hlen : ¬ (value ++ (List.map Spec.attrWire as).flatten).length < value.length := by
          simp
        simp only [hlen, if_false, List.take_left', List.drop_left']
        rw [ih' k (by simp only [List.length_cons, List.length_append] at h; omega)]
      · have hx0 : fl.toNat / 16 % 2 = 0 := by omega
        have hv := hf2 hx0
        simp only at hv
        simp only [Spec.attrWire, hx, if_false, List.cons_append, List.nil_append] at h ⊢
        unfold Spec.attrs
        have hn : (UInt8.ofNat value.length).toNat = value.length := by
          rw [UInt8.toNat_ofNat']; omega
        simp only [hx, if_false, hn]
        have hlen : ¬ (value ++ (List.map Spec.attrWire as).flatten).length < value.length := by
          simp
        simp only [hlen, if_false, List.take_left', List.drop_left']
        rw [ih' k (by simp only [List.length_cons, List.length_append] at h; omega)]


/-! ## the attribute loop over the reference parse -/

def attrCall (a : Spec.Attr) : Call := .attr a.code a.flags a.value

/-- the attribute type `decodePathAttrs` names when the block ends in junk -/
def junkCode : Bytes → UInt8
  | _ :: t :: _ => t
  | _ => 0

/-- `pathAttrsLoop` run over the reference parse of the block -/
def loopOn (cb : Callbacks) : List Spec.Attr → Bytes → PAState → Sum PAState PAState
  | [], junk, st =>
    if junk = [] then .inl st
    else .inl { st with me := joinErr st.me (some (totalAttrLenErr (junkCode junk))) }
  | a :: as, junk, st =>
    if st.seen.contains a.code then
      if a.code = 14 ∨ a.code = 15 then .inr { st with me := joinErr st.me (some malformedAttrList) }
      else loopOn cb as junk st
    else
      let c := attrCall a
      let st' : PAState := { st with calls := st.calls ++ [c], seen := a.code :: st.seen }
      match cb st.calls c with
      | none => loopOn cb as junk st'
      | some e =>
        let st'' : PAState := { st' with me := joinErr st'.me (some e) }
        if e.hasNotif then .inr st'' else loopOn cb as junk st''

theorem loop_eq_loopOn (cb : Callbacks) : ∀ (fuel : Nat) (b : Bytes) (st : PAState), b.length < fuel →
    pathAttrsLoop cb fuel b st = loopOn cb (Spec.attrs fuel b).1 (Spec.attrs fuel b).2 st := by
  intro fuel
  induction fuel with
  | zero => intro b st h; simp at h
  | succ fuel ih =>
    intro b st h
    match b, h with
    | [], _ => simp [pathAttrsLoop, Spec.attrs, loopOn]
    | [x], _ => simp [pathAttrsLoop, Spec.attrs, loopOn, junkCode]
    | f :: t :: rest, h =>
      by_cases hx : f.toNat / 16 % 2 = 1
      · match rest, h with
        | [], _ => simp [pathAttrsLoop, Spec.attrs, loopOn, junkCode, flagExtendedLen, hx]
        | [l1], _ => simp [pathAttrsLoop, Spec.attrs, loopOn, junkCode, flagExtendedLen, hx]
        | l1 :: l2 :: v, h =>
          by_cases hlen : v.length < Spec.n16 l1 l2
          · simp [pathAttrsLoop, Spec.attrs, loopOn, junkCode, flagExtendedLen, hx, be16_toNat_ud, hlen]
          · simp only [List.length_cons] at h
            have hr : ∀ st, pathAttrsLoop cb fuel (List.drop (Spec.n16 l1 l2) v) st = _ :=
              fun st => ih (List.drop (Spec.n16 l1 l2) v) st (by rw [List.length_drop]; omega)
            simp only [pathAttrsLoop, Spec.attrs, flagExtendedLen, hx, decide_true, if_true, be16_toNat_ud, hlen, if_false,
              loopOn, Gen.PATH_ATTR_MP_REACH_NLRI, Gen.PATH_ATTR_MP_UNREACH_NLRI, malformedAttrList, attrCall, hr]
            rfl
      · match rest, h with
        | [], _ => simp [pathAttrsLoop, Spec.attrs, loopOn, junkCode, flagExtendedLen, hx]
        | l :: v, h =>
          by_cases hlen : v.length < l.toNat
          · simp [pathAttrsLoop, Spec.attrs, loopOn, junkCode, flagExtendedLen, hx, hlen]
          · simp only [List.length_cons] at h
            have hr : ∀ st, pathAttrsLoop cb fuel (List.drop l.toNat v) st = _ :=
              fun st => ih (List.drop l.toNat v) st (by rw [List.length_drop]; omega)
            simp only [pathAttrsLoop, Spec.attrs, flagExtendedLen, hx, decide_false, Bool.false_eq_true, hlen, if_false,
              loopOn, Gen.PATH_ATTR_MP_REACH_NLRI, Gen.PATH_ATTR_MP_UNREACH_NLRI, malformedAttrList, attrCall, hr]
            rfl


/-- the mandatory-attribute check at the end of `decodePathAttrs` -/
def finishAttrs (hasNLRI : Bool) : Sum PAState PAState → List Call × Option Err
  | .inr st => (st.calls, st.me)
  | .inl st =>
    if st.seen.contains 14 ∨ hasNLRI then
      if !st.seen.contains 2 ∨ !st.seen.contains 1 then
        let missing : UInt8 := if !st.seen.contains 1 then 1 else 2
        (st.calls, joinErr st.me (some (.taw missing (some ⟨3, 3, [missing]⟩))))
      else (st.calls, st.me)
    else (st.calls, st.me)

theorem decodePathAttrs_eq (cb : Callbacks) (calls : List Call) (b : Bytes) (hasNLRI : Bool) :
    decodePathAttrs cb calls b hasNLRI =
      if b.length < 1 && !hasNLRI then (calls, none)
      else finishAttrs hasNLRI (loopOn cb (Spec.parseAttrs b).1 (Spec.parseAttrs b).2 ⟨calls, none, []⟩) := by
  unfold decodePathAttrs
  rw [loop_eq_loopOn cb _ b _ (Nat.lt_succ_self _)]
  unfold Spec.parseAttrs
  split
  · rfl
  · generalize loopOn cb _ _ _ = r
    cases r <;> rfl

/-- everything `Decode` does once the three sections are known -/
def decodeTail (cb : Callbacks) (w ab n : Bytes) : List Call × Option Err :=
  let c := Call.wr w
  let me := joinErr none (cb [] c)
  if (cb [] c).any Err.hasNotif then ([c], me)
  else
    let r := decodePathAttrs cb [c] ab (n.length > 0)
    let me := if r.2.isSome then joinErr me r.2 else me
    if r.2.any Err.hasNotif then (r.1, me)
    else
      let cn := Call.nlri n
      let nerr := cb r.1 cn
      (r.1 ++ [cn], if nerr.isSome then joinErr me nerr else me)

theorem partition_short {b : Bytes} (h : b.length < 4) : Spec.partition b = none := by
  unfold Spec.partition
  split
  next w1 w2 r1 =>
    simp only [List.length_cons] at h
    have : r1.length < Spec.n16 w1 w2 + 2 := by omega
    simp [this]
  · rfl

theorem decodeUpdate_eq (cb : Callbacks) (b : Bytes) :
    decodeUpdate cb b = .ok (
      if b.length < 4 then ([], some (.notif genericUpdateNotif))
      else match Spec.partition b with
        | none => ([], some malformedAttrList)
        | some (w, ab, n) => decodeTail cb w ab n) := by
  match b with
  | [] => simp [decodeUpdate]
  | [x] => simp [decodeUpdate]
  | w1 :: w2 :: r1 =>
    by_cases h4 : (w1 :: w2 :: r1).length < 4
    · simp only [List.length_cons] at h4
      simp only [decodeUpdate, List.length_cons, h4, if_true]
    · simp only [List.length_cons] at h4
      simp only [decodeUpdate, List.length_cons, h4, if_false, Spec.partition, be16_toNat_ud]
      by_cases hlen : r1.length < Spec.n16 w1 w2 + 2
      · simp [hlen]
      · simp only [hlen, if_false]
        have hd : ∃ p1 p2 r2, List.drop (Spec.n16 w1 w2) r1 = p1 :: p2 :: r2 := by
          match hh : List.drop (Spec.n16 w1 w2) r1 with
          | [] => have := congrArg List.length hh; simp at this; omega
          | [x] => have := congrArg List.length hh; simp at this; omega
          | p1 :: p2 :: r2 => exact ⟨p1, p2, r2, rfl⟩
        obtain ⟨p1, p2, r2, hd⟩ := hd
        have hs1 : slice? r1 (Spec.n16 w1 w2) (Spec.n16 w1 w2 + 2) = some [p1, p2] := by
          unfold slice?
          rw [if_pos ⟨by omega, by omega⟩, hd]
          simp
        have hs2 : sliceFrom? r1 (Spec.n16 w1 w2 + 2) = some r2 := by
          unfold sliceFrom?
          rw [if_pos (by omega), ← List.drop_drop, hd]
          simp
        have hs3 : slice? r1 0 (Spec.n16 w1 w2) = some (r1.take (Spec.n16 w1 w2)) := by
          unfold slice?
          rw [if_pos ⟨by omega, by omega⟩]
          simp
        simp only [hs1, hs2, hs3, hd]
        by_cases hpal : r2.length < Spec.n16 p1 p2
        · simp [hpal]
        · simp only [hpal, if_false, decodeTail]
          split
          · rfl
          · split <;> rfl


/-! ## nil-returning callbacks -/

theorem fo_cons (a : Spec.Attr) (as : List Spec.Attr) (seen : List UInt8) :
    Spec.firstOccurrences (a :: as) seen =
      if seen.contains a.code then
        (if a.code = 14 ∨ a.code = 15 then ([], true) else Spec.firstOccurrences as seen)
      else (a :: (Spec.firstOccurrences as (a.code :: seen)).1, (Spec.firstOccurrences as (a.code :: seen)).2) := by
  rfl

/-- result of the loop when every callback returns nil -/
def nilLoop (as : List Spec.Attr) (junk : Bytes) (st : PAState) : Sum PAState PAState :=
  let r := Spec.firstOccurrences as st.seen
  let calls := st.calls ++ r.1.map attrCall
  let seen := (r.1.map (·.code)).reverse ++ st.seen
  if r.2 then .inr ⟨calls, joinErr st.me (some malformedAttrList), seen⟩
  else .inl ⟨calls, if junk = [] then st.me else joinErr st.me (some (totalAttrLenErr (junkCode junk))), seen⟩

theorem loopOn_nil (cb : Callbacks) (hnil : ∀ h c, cb h c = none) (junk : Bytes) :
    ∀ (as : List Spec.Attr) (st : PAState), loopOn cb as junk st = nilLoop as junk st := by
  intro as
  induction as with
  | nil =>
    intro st
    simp only [loopOn, nilLoop, Spec.firstOccurrences, List.map_nil, List.append_nil, List.reverse_nil, List.nil_append]
    split <;> simp
  | cons a as ih =>
    intro st
    unfold loopOn
    by_cases hs : st.seen.contains a.code = true
    · by_cases hmp : a.code = 14 ∨ a.code = 15
      · simp only [nilLoop, fo_cons, hs, if_true, hmp, List.map_nil, List.append_nil, List.reverse_nil, List.nil_append]
      · simp only [hs, if_true, hmp, if_false, ih]
        simp only [nilLoop, fo_cons, hs, if_true, hmp, if_false]
    · simp only [hs, hnil, ih]
      simp only [nilLoop, fo_cons, hs, if_false, List.map_cons, List.reverse_cons, List.append_assoc,
        List.singleton_append, Bool.false_eq_true]


/-- `decodePathAttrs` when every callback returns nil -/
def nilAttrs (calls : List Call) (ab : Bytes) (hasNLRI : Bool) : List Call × Option Err :=
  let p := Spec.parseAttrs ab
  let r := Spec.firstOccurrences p.1 []
  let calls' := calls ++ r.1.map attrCall
  if r.2 then (calls', some (.join (.cons malformedAttrList .nil)))
  else
    let codes := r.1.map (·.code)
    let me0 : Option Err := if p.2 = [] then none else some (.join (.cons (totalAttrLenErr (junkCode p.2)) .nil))
    let missing : Option UInt8 :=
      if hasNLRI ∨ codes.contains 14 then
        (if !codes.contains 1 then some 1 else if !codes.contains 2 then some 2 else none)
      else none
    (calls', match missing with
      | some c => joinErr me0 (some (.taw c (some ⟨3, 3, [c]⟩)))
      | none => me0)

theorem parseAttrs_nil : Spec.parseAttrs [] = ([], []) := rfl

theorem decodePathAttrs_nil (cb : Callbacks) (hnil : ∀ h c, cb h c = none) (calls : List Call) (ab : Bytes)
    (hasNLRI : Bool) : decodePathAttrs cb calls ab hasNLRI = nilAttrs calls ab hasNLRI := by
  rw [decodePathAttrs_eq, loopOn_nil cb hnil]
  by_cases hearly : (decide (ab.length < 1) && !hasNLRI) = true
  · simp only [hearly, if_true]
    simp only [Bool.and_eq_true, decide_eq_true_eq, Bool.not_eq_true'] at hearly
    obtain ⟨h1, h2⟩ := hearly
    have hab : ab = [] := by cases ab with | nil => rfl | cons _ _ => simp at h1
    subst hab h2
    simp [nilAttrs, parseAttrs_nil, Spec.firstOccurrences]
  · simp only [hearly]
    simp only [nilLoop, nilAttrs, List.append_nil]
    generalize Spec.parseAttrs ab = p
    generalize Spec.firstOccurrences p.1 [] = r
    by_cases hrep : r.2 = true
    · simp [hrep, finishAttrs, joinErr, malformedAttrList]
    · simp only [hrep, Bool.false_eq_true, if_false, finishAttrs]
      simp only [List.contains_eq_mem, List.mem_reverse, Bool.not_eq_true', decide_eq_false_iff_not, decide_eq_true_eq]
      by_cases h14 : (14 : UInt8) ∈ List.map (fun x => x.code) r.1 <;>
      by_cases h1 : (1 : UInt8) ∈ List.map (fun x => x.code) r.1 <;>
      by_cases h2 : (2 : UInt8) ∈ List.map (fun x => x.code) r.1 <;>
      cases hasNLRI <;> by_cases hj : p.2 = [] <;> simp [h14, h1, h2, hj, joinErr]


/-- `decodeTail` when every callback returns nil -/
def nilTail (w ab n : Bytes) : List Call × Option Err :=
  let p := Spec.parseAttrs ab
  let r := Spec.firstOccurrences p.1 []
  let calls := [Call.wr w] ++ r.1.map attrCall
  if r.2 then (calls, some (.join (.cons (.join (.cons malformedAttrList .nil)) .nil)))
  else
    let codes := r.1.map (·.code)
    let me0 : Option Err := if p.2 = [] then none else some (.join (.cons (totalAttrLenErr (junkCode p.2)) .nil))
    let missing : Option UInt8 :=
      if n ≠ [] ∨ codes.contains 14 then
        (if !codes.contains 1 then some 1 else if !codes.contains 2 then some 2 else none)
      else none
    let me1 : Option Err :=
      match missing with
      | some c => joinErr me0 (some (.taw c (some ⟨3, 3, [c]⟩)))
      | none => me0
    (calls ++ [.nlri n], joinErr none me1)

theorem decodeTail_nil (cb : Callbacks) (hnil : ∀ h c, cb h c = none) (w ab n : Bytes) :
    decodeTail cb w ab n = nilTail w ab n := by
  unfold decodeTail
  simp only [hnil, Option.any_none, Bool.false_eq_true, if_false, decodePathAttrs_nil cb hnil]
  have hn : (decide (n.length > 0) = true) ↔ n ≠ [] := by
    cases n <;> simp
  simp only [nilAttrs, nilTail, hn]
  generalize Spec.parseAttrs ab = p
  generalize Spec.firstOccurrences p.1 [] = r
  by_cases hrep : r.2 = true
  · simp [hrep, joinErr, malformedAttrList, Err.hasNotif, ErrList.hasNotif]
  · simp only [hrep, Bool.false_eq_true, if_false]
    simp only [List.contains_eq_mem, Bool.not_eq_true', decide_eq_false_iff_not, decide_eq_true_eq]
    by_cases h14 : (14 : UInt8) ∈ List.map (fun x => x.code) r.1 <;>
    by_cases h1 : (1 : UInt8) ∈ List.map (fun x => x.code) r.1 <;>
    by_cases h2 : (2 : UInt8) ∈ List.map (fun x => x.code) r.1 <;>
    by_cases hnn : n = [] <;> by_cases hj : p.2 = [] <;>
      simp [h14, h1, h2, hj, hnn, joinErr, Err.hasNotif, ErrList.hasNotif, totalAttrLenErr]


/-! ## arbitrary callbacks: `joinErr` facts -/

theorem joinErr_some_right (a : Option Err) (e : Err) : joinErr a (some e) ≠ none := by
  cases a <;> simp [joinErr]

theorem joinErr_some_left (a b : Option Err) (h : a ≠ none) : joinErr a b ≠ none := by
  cases a <;> cases b <;> simp_all [joinErr]

theorem joinErr_any_hasNotif (a b : Option Err) :
    (joinErr a b).any Err.hasNotif = (a.any Err.hasNotif || b.any Err.hasNotif) := by
  cases a <;> cases b <;> simp [joinErr, Err.hasNotif, ErrList.hasNotif]

/-! ## arbitrary callbacks: a Notification-bearing callback error is the last call -/

/-- no call in `calls` was answered with a Notification-bearing error -/
def Quiet (cb : Callbacks) (calls : List Call) : Prop :=
  ∀ i c x, calls[i]? = some c → cb (calls.take i) c = some x → x.hasNotif = false

/-- … except possibly the last one -/
def QuietButLast (cb : Callbacks) (calls : List Call) : Prop :=
  ∀ i c x, i + 1 < calls.length → calls[i]? = some c → cb (calls.take i) c = some x → x.hasNotif = false

theorem quiet_nil (cb : Callbacks) : Quiet cb [] := by
  intro i c x h; simp at h

theorem Quiet.butLast {cb : Callbacks} {calls : List Call} (h : Quiet cb calls) : QuietButLast cb calls :=
  fun i c x _ hc hx => h i c x hc hx

theorem Quiet.snoc {cb : Callbacks} {calls : List Call} {c : Call} (h : Quiet cb calls)
    (hc : ∀ x, cb calls c = some x → x.hasNotif = false) : Quiet cb (calls ++ [c]) := by
  intro i c' x hi hx
  by_cases hlt : i < calls.length
  · rw [List.getElem?_append_left hlt] at hi
    rw [List.take_append_of_le_length (Nat.le_of_lt hlt)] at hx
    exact h i c' x hi hx
  · have hle : calls.length ≤ i := Nat.le_of_not_lt hlt
    rw [List.getElem?_append_right hle] at hi
    have : i - calls.length = 0 := by
      cases hk : i - calls.length with
      | zero => rfl
      | succ k => rw [hk] at hi; simp at hi
    have hieq : i = calls.length := by omega
    subst hieq
    simp at hi
    subst hi
    simp at hx
    exact hc x hx

theorem Quiet.snoc_butLast {cb : Callbacks} {calls : List Call} {c : Call} (h : Quiet cb calls) :
    QuietButLast cb (calls ++ [c]) := by
  intro i c' x hlt hi hx
  simp at hlt
  rw [List.getElem?_append_left hlt] at hi
  rw [List.take_append_of_le_length (Nat.le_of_lt hlt)] at hx
  exact h i c' x hi hx

/-- what the loop guarantees about Notification-bearing callback errors -/
def QuietRes (cb : Callbacks) : Sum PAState PAState → Prop
  | .inl st' => Quiet cb st'.calls
  | .inr st' => QuietButLast cb st'.calls ∧ st'.me.any Err.hasNotif = true

theorem loopOn_quiet (cb : Callbacks) (junk : Bytes) : ∀ (as : List Spec.Attr) (st : PAState),
    Quiet cb st.calls → QuietRes cb (loopOn cb as junk st) := by
  intro as
  induction as with
  | nil =>
    intro st hq
    unfold loopOn
    split <;> exact hq
  | cons a as ih =>
    intro st hq
    unfold loopOn
    split
    · split
      · exact ⟨hq.butLast, by simp [joinErr_any_hasNotif, malformedAttrList, Err.hasNotif]⟩
      · exact ih st hq
    · simp only
      split
      next hnone =>
        exact ih _ (hq.snoc (by intro x hx; rw [hnone] at hx; cases hx))
      next e hsome =>
        split
        next hn =>
          exact ⟨hq.snoc_butLast, by simp [joinErr_any_hasNotif, hn]⟩
        next hn =>
          exact ih _ (hq.snoc (by intro x hx; rw [hsome] at hx; cases hx; simpa using hn))

theorem decodePathAttrs_quiet (cb : Callbacks) (calls : List Call) (ab : Bytes) (hasNLRI : Bool)
    (hq : Quiet cb calls) :
    QuietButLast cb (decodePathAttrs cb calls ab hasNLRI).1 ∧
    ((decodePathAttrs cb calls ab hasNLRI).2.any Err.hasNotif = false →
      Quiet cb (decodePathAttrs cb calls ab hasNLRI).1) := by
  rw [decodePathAttrs_eq]
  split
  · exact ⟨hq.butLast, fun _ => hq⟩
  · have := loopOn_quiet cb (Spec.parseAttrs ab).2 (Spec.parseAttrs ab).1 ⟨calls, none, []⟩ hq
    revert this
    generalize loopOn cb _ _ _ = r
    cases r with
    | inl st' =>
      intro h
      simp only [QuietRes] at h
      unfold finishAttrs
      simp only
      split
      · split
        · exact ⟨h.butLast, fun _ => h⟩
        · exact ⟨h.butLast, fun _ => h⟩
      · exact ⟨h.butLast, fun _ => h⟩
    | inr st' =>
      intro h
      simp only [QuietRes] at h
      simp only [finishAttrs]
      exact ⟨h.1, fun hh => by rw [h.2] at hh; cases hh⟩

theorem decodeTail_quiet (cb : Callbacks) (w ab n : Bytes) :
    QuietButLast cb (decodeTail cb w ab n).1 := by
  unfold decodeTail
  simp only
  split
  · intro i c x hlt; simp at hlt
  next h0 =>
    have hq : Quiet cb [Call.wr w] := by
      have := (quiet_nil cb).snoc (c := Call.wr w) (by
        intro x hx; rw [hx] at h0; simpa using h0)
      simpa using this
    have := decodePathAttrs_quiet cb [Call.wr w] ab (decide (n.length > 0)) hq
    split
    · exact this.1
    next h1 =>
      exact (this.2 (by simpa using h1)).snoc_butLast


/-! ## arbitrary callbacks: structural faults are never answered with nil -/

/-- what the loop guarantees about structure, whatever the callbacks return -/
def StructRes (as : List Spec.Attr) (junk : Bytes) (st : PAState) : Sum PAState PAState → Prop
  | .inr st' => st'.me ≠ none
  | .inl st' =>
    (Spec.firstOccurrences as st.seen).2 = false ∧
    (∀ c, c ∈ st'.seen ↔ c ∈ (Spec.firstOccurrences as st.seen).1.map (·.code) ∨ c ∈ st.seen) ∧
    (junk ≠ [] → st'.me ≠ none) ∧ (st.me ≠ none → st'.me ≠ none)

theorem loopOn_struct (cb : Callbacks) (junk : Bytes) : ∀ (as : List Spec.Attr) (st : PAState),
    StructRes as junk st (loopOn cb as junk st) := by
  intro as
  induction as with
  | nil =>
    intro st
    unfold loopOn
    split
    next hj => simp [StructRes, Spec.firstOccurrences, hj]
    next hj => simp [StructRes, Spec.firstOccurrences, joinErr_some_right]
  | cons a as ih =>
    intro st
    unfold loopOn
    split
    next hs =>
      split
      next hmp => exact joinErr_some_right _ _
      next hmp =>
        have := ih st
        revert this
        generalize loopOn cb as junk st = r
        cases r <;> simp only [StructRes, fo_cons, hs, if_true, hmp, if_false] <;> exact id
    next hs =>
      simp only
      have key : ∀ st1 : PAState, st1.seen = a.code :: st.seen → (st.me ≠ none → st1.me ≠ none) →
          StructRes (a :: as) junk st (loopOn cb as junk st1) := by
        intro st1 hseen hme
        have := ih st1
        revert this
        generalize loopOn cb as junk st1 = r
        cases r with
        | inr st' => exact id
        | inl st' =>
          simp only [StructRes, fo_cons, hs, hseen, List.map_cons, List.mem_cons, Bool.false_eq_true, if_false]
          rintro ⟨h1, h2, h3, h4⟩
          refine ⟨h1, ?_, h3, fun h => h4 (hme h)⟩
          intro c
          rw [h2 c]
          constructor
          · rintro (h | h | h)
            · exact Or.inl (Or.inr h)
            · exact Or.inl (Or.inl h)
            · exact Or.inr h
          · rintro ((h | h) | h)
            · exact Or.inr (Or.inl h)
            · exact Or.inl h
            · exact Or.inr (Or.inr h)
      split
      next hnone => exact key _ rfl id
      next e hsome =>
        split
        next hn => exact joinErr_some_right _ _
        next hn => exact key _ rfl (fun _ => joinErr_some_right _ _)


/-- the block is structurally sound and has ORIGIN and AS_PATH if it announces routes -/
def SoundBlock (ab : Bytes) (hasNLRI : Bool) : Prop :=
  (Spec.firstOccurrences (Spec.parseAttrs ab).1 []).2 = false ∧ (Spec.parseAttrs ab).2 = [] ∧
  (hasNLRI = true ∨ (14 : UInt8) ∈ (Spec.firstOccurrences (Spec.parseAttrs ab).1 []).1.map (·.code) →
    (1 : UInt8) ∈ (Spec.firstOccurrences (Spec.parseAttrs ab).1 []).1.map (·.code) ∧
    (2 : UInt8) ∈ (Spec.firstOccurrences (Spec.parseAttrs ab).1 []).1.map (·.code))

theorem decodePathAttrs_struct (cb : Callbacks) (calls : List Call) (ab : Bytes) (hasNLRI : Bool)
    (h : (decodePathAttrs cb calls ab hasNLRI).2 = none) : SoundBlock ab hasNLRI := by
  rw [decodePathAttrs_eq] at h
  split at h
  next hearly =>
    simp only [Bool.and_eq_true, decide_eq_true_eq, Bool.not_eq_true'] at hearly
    obtain ⟨h1, h2⟩ := hearly
    have hab : ab = [] := by cases ab with | nil => rfl | cons _ _ => simp at h1
    subst hab h2
    simp [SoundBlock, parseAttrs_nil, Spec.firstOccurrences]
  next =>
    have := loopOn_struct cb (Spec.parseAttrs ab).2 (Spec.parseAttrs ab).1 ⟨calls, none, []⟩
    revert this h
    generalize loopOn cb _ _ _ = r
    cases r with
    | inr st' =>
      intro h hs
      exact absurd h hs
    | inl st' =>
      simp only [StructRes, finishAttrs, List.contains_eq_mem, List.not_mem_nil, or_false, Bool.not_eq_true',
        decide_eq_false_iff_not, decide_eq_true_eq, SoundBlock]
      intro h ⟨h1, h2, h3, _⟩
      simp only [h2] at h
      by_cases hj : (Spec.parseAttrs ab).2 = []
      · refine ⟨h1, hj, ?_⟩
        intro hann
        have hann' : (14 : UInt8) ∈ List.map (fun x => x.code) (Spec.firstOccurrences (Spec.parseAttrs ab).1 []).1 ∨ hasNLRI = true :=
          hann.symm
        simp only [hann', if_true] at h
        split at h
        · exact absurd h (joinErr_some_right _ _)
        next hh =>
          simp only [not_or, Decidable.not_not] at hh
          exact ⟨hh.2, hh.1⟩
      · exfalso
        have hme := h3 hj
        split at h
        · split at h
          · exact absurd h (joinErr_some_right _ _)
          · exact hme h
        · exact hme h

theorem decodeTail_struct (cb : Callbacks) (w ab n : Bytes) (h : (decodeTail cb w ab n).2 = none) :
    SoundBlock ab (decide (n.length > 0)) := by
  unfold decodeTail at h
  simp only at h
  split at h
  next h0 =>
    exfalso
    cases hr : cb [] (Call.wr w) with
    | none => simp [hr] at h0
    | some e => simp [hr, joinErr] at h
  next h0 =>
    split at h
    next h1 =>
      exfalso
      cases hr : (decodePathAttrs cb [Call.wr w] ab (decide (n.length > 0))).2 with
      | none => simp [hr] at h1
      | some e =>
        simp only [hr, Option.isSome_some, if_true] at h
        exact joinErr_some_right _ _ h
    next h1 =>
      apply decodePathAttrs_struct cb [Call.wr w]
      cases hr : (decodePathAttrs cb [Call.wr w] ab (decide (n.length > 0))).2 with
      | none => rfl
      | some e =>
        exfalso
        simp only [hr, Option.isSome_some, if_true] at h
        split at h
        · exact joinErr_some_left _ _ (joinErr_some_right _ _) h
        · exact joinErr_some_right _ _ h

theorem verdictNil_of_sound (b w ab n : Bytes) (hp : Spec.partition b = some (w, ab, n))
    (hs : SoundBlock ab (decide (n.length > 0))) : (Spec.verdictNil b).cls = .none_ := by
  have h4 : ¬ b.length < 4 := fun h => by rw [partition_short h] at hp; cases hp
  have hn : (decide (n.length > 0) = true) ↔ n ≠ [] := by
    cases n <;> simp
  obtain ⟨h1, h2, h3⟩ := hs
  rw [hn] at h3
  simp only [Spec.verdictNil, h4, if_false, hp]
  revert h1 h2 h3
  generalize Spec.parseAttrs ab = p
  generalize Spec.firstOccurrences p.1 [] = r
  obtain ⟨as, junk⟩ := p
  obtain ⟨fo, rep⟩ := r
  intro h1 h2 h3
  simp only at h1 h2 h3
  subst h1 h2
  simp only [List.contains_eq_mem, decide_eq_true_eq]
  by_cases hann : n ≠ [] ∨ (14 : UInt8) ∈ List.map (fun x => x.code) fo
  · have := h3 hann
    simp only [if_pos hann, this.1, this.2, decide_true, Bool.not_true, Bool.false_eq_true, if_false]
    simp
  · simp only [if_neg hann]
    simp

end CoreBGP.Lemmas
-- touch
