import CoreBGP.Model.Bitmap
/-!
# Helper lemmas for `CoreBGP.Props.C16B`: bit-level facts about `bitMask` / `wordIdx`

Everything goes through `UInt32.toNat` and `Nat.testBit`.
-/
namespace CoreBGP.Lemmas.Bitmap
open CoreBGP CoreBGP.Model

theorem bitMask_toNat (b : UInt8) : (bitMask b).toNat = 2 ^ (b.toNat % 32) := by
  have h : b.toNat % 32 < 32 := Nat.mod_lt _ (by decide)
  unfold bitMask
  rw [UInt32.toNat_shiftLeft, UInt32.toNat_ofNat']
  have h2 : b.toNat % 32 % 2 ^ 32 % 32 = b.toNat % 32 := by omega
  rw [h2, UInt32.toNat_one, Nat.one_shiftLeft]
  apply Nat.mod_eq_of_lt
  exact Nat.pow_lt_pow_right (by decide) h

theorem nat_and_two_pow_ne_zero (x k : Nat) : (x &&& 2 ^ k != 0) = x.testBit k := by
  cases hb : x.testBit k
  · have : x &&& 2 ^ k = 0 := by
      apply Nat.eq_of_testBit_eq
      intro i
      rw [Nat.testBit_and, Nat.testBit_two_pow, Nat.zero_testBit]
      by_cases hki : k = i
      · subst hki; simp [hb]
      · simp [hki]
    simp [this]
  · have : x &&& 2 ^ k ≠ 0 := by
      intro h
      have h2 : (x &&& 2 ^ k).testBit k = true := by
        rw [Nat.testBit_and, Nat.testBit_two_pow, hb]; simp
      rw [h, Nat.zero_testBit] at h2
      exact Bool.noConfusion h2
    simpa using this

theorem and_mask (x : UInt32) (b : UInt8) :
    ((x &&& bitMask b) != 0) = x.toNat.testBit (b.toNat % 32) := by
  rw [← nat_and_two_pow_ne_zero, ← bitMask_toNat, ← UInt32.toNat_and]
  cases h : (x &&& bitMask b) != 0
  · have : x &&& bitMask b = 0 := by simpa using h
    simp [this]
  · have h1 : x &&& bitMask b ≠ 0 := by simpa using h
    have : (x &&& bitMask b).toNat ≠ 0 := fun h0 => h1 (UInt32.toNat_inj.mp (by simpa using h0))
    simpa using this

theorem or_mask_testBit (x : UInt32) (b : UInt8) (k : Nat) :
    (x ||| bitMask b).toNat.testBit k = (decide (b.toNat % 32 = k) || x.toNat.testBit k) := by
  rw [UInt32.toNat_or, bitMask_toNat, Nat.testBit_or, Nat.testBit_two_pow, Bool.or_comm]

theorem eq_of_wordIdx_mod (b c : UInt8) (h1 : wordIdx b = wordIdx c) (h2 : b.toNat % 32 = c.toNat % 32) : b = c := by
  apply UInt8.toNat_inj.mp
  have := Fin.ext_iff.mp h1
  simp only [wordIdx] at this
  omega

end CoreBGP.Lemmas.Bitmap
