import CoreBGP.Model.Peer
import CoreBGP.Model.Server
/-! Helper lemmas for the *local* (non-reachability) theorems about the L2 peer model:
projections through `setF` / `setSt` / `setPresent`, `St.rank` as numerals, membership in `pMain`. -/
namespace CoreBGP.Lemmas.PeerLocal
open CoreBGP CoreBGP.Model

/-! ## `St.rank` as numerals -/

@[simp] theorem rank_disabled : St.rank .disabled = 0 := rfl
@[simp] theorem rank_idle : St.rank .idle = 1 := rfl
@[simp] theorem rank_connect : St.rank .connect = 2 := rfl
@[simp] theorem rank_active : St.rank .active = 3 := rfl
@[simp] theorem rank_openSent : St.rank .openSent = 4 := rfl
@[simp] theorem rank_openConfirm : St.rank .openConfirm = 5 := rfl
@[simp] theorem rank_established : St.rank .established = 6 := rfl

/-- nothing ranks above Established -/
theorem rank_le_established (x : St) : x.rank ≤ St.rank .established := by
  cases x <;> decide

theorem not_lt_rank_of_established {a b : St} (h : a.rank < b.rank) : a ≠ .established := by
  intro ha
  subst ha
  cases b <;> revert h <;> decide

/-! ## `Dir` -/

@[simp] theorem other_out : Dir.other .out = .inn := rfl
@[simp] theorem other_inn : Dir.other .inn = .out := rfl
theorem other_ne (i : Dir) : i.other ≠ i := by cases i <;> decide

/-! ## projections through the setters -/

@[simp] theorem setF_todo (s : PState) (i : Dir) (x : F) : (s.setF i x).todo = s.todo := by cases i <;> rfl
@[simp] theorem setF_holdDown (s : PState) (i : Dir) (x : F) : (s.setF i x).holdDown = s.holdDown := by cases i <;> rfl
@[simp] theorem setF_timerArmed (s : PState) (i : Dir) (x : F) : (s.setF i x).timerArmed = s.timerArmed := by
  cases i <;> rfl
@[simp] theorem setF_f_self (s : PState) (i : Dir) (x : F) : (s.setF i x).f i = x := by cases i <;> rfl
@[simp] theorem setF_other_f (s : PState) (i : Dir) (x : F) : (s.setF i.other x).f i = s.f i := by cases i <;> rfl
@[simp] theorem withTodo_f (s : PState) (l : List Instr) (i : Dir) : ({ s with todo := l } : PState).f i = s.f i := by
  cases i <;> rfl

/-! ## membership in `pMain` by label -/

/-- the only `inConn` steps of the main `select` are those of its last alternative -/
theorem mem_pMain_inConn {s : PState} {a : Bool} {s' : PState} (h : (Label.inConn a, s') ∈ pMain s) :
    (Label.inConn a, s') ∈
      (if s.holdDown || s.presentI || s.stO = .established then [(Label.inConn false, s)]
       else [(Label.inConn true, { s with todo := [.enable .inn true] })]) := by
  unfold pMain at h
  split at h
  · simp at h
  · simp only [List.mem_append] at h
    rcases h with ((h | h) | h) | h
    · split at h <;> simp at h
    · simp only [List.mem_flatMap] at h
      obtain ⟨i, _, h⟩ := h
      split at h <;> simp at h
    · split at h <;> simp at h
    · exact h

/-- … and conversely the last alternative is always offered while the manager runs -/
theorem inConn_mem_pMain {s : PState} (hnd : s.pdone = false) {x : Label × PState}
    (h : x ∈ (if s.holdDown || s.presentI || s.stO = .established then [(Label.inConn false, s)]
       else [(Label.inConn true, { s with todo := [.enable .inn true] })])) : x ∈ pMain s := by
  unfold pMain
  rw [if_neg (by simp [hnd])]
  exact List.mem_append_right _ h

/-- the timer alternative -/
theorem timer_mem_pMain {s : PState} (hnd : s.pdone = false) (ht : s.timerArmed = true) :
    (Label.logUndamp, { s with todo := [.enable .out false], holdDown := false, timerArmed := false }) ∈ pMain s := by
  unfold pMain
  rw [if_neg (by simp [hnd])]
  apply List.mem_append_left
  apply List.mem_append_right
  rw [if_pos ht]
  exact List.mem_singleton.2 rfl

/-- the per-FSM alternative -/
theorem fsm_mem_pMain {s : PState} (hnd : s.pdone = false) (i : Dir) {x : Label × PState}
    (h : x ∈ (match (s.f i).pc with
      | .req t => [(Label.tau, { s with todo := [.handle i t] }.setF i { s.f i with pc := .wait t })]
      | .errSend st d k =>
        let s' := s.setF i { s.f i with pc := .req ⟨st, d⟩ }
        [(Label.tau, { s' with todo := Instr.logErr i :: (if k = EK.damp then [Instr.disableLog .inn, .disableLog .out, .damp] else []) })]
      | _ => [])) : x ∈ pMain s := by
  unfold pMain
  rw [if_neg (by simp [hnd])]
  apply List.mem_append_left
  apply List.mem_append_left
  apply List.mem_append_right
  rw [List.mem_flatMap]
  exact ⟨i, by cases i <;> simp, h⟩

end CoreBGP.Lemmas.PeerLocal
