import CoreBGP.Model.GoExpr
import CoreBGP.Model.Peer
import CoreBGP.Model.Server
/-!
# Helpers for `Props.DecTie`

* evaluation of `BExp.eval` node by node (the comparison operator is a string literal);
* the table lookups `decision fn kind n` used by the tie theorems, each evaluated once;
* `b2i` / integer-cast facts; projections of the `PState` setters.
-/
namespace CoreBGP.Lemmas.DecTie
open CoreBGP CoreBGP.Model CoreBGP.Gen

/-! ## `BExp.eval` -/

theorem eval_eq (ρ : Env) (l r : String) : BExp.eval ρ (.cmp "==" l r) = (ρ l == ρ r) := by simp [BExp.eval]
theorem eval_ne (ρ : Env) (l r : String) : BExp.eval ρ (.cmp "!=" l r) = (ρ l != ρ r) := by simp [BExp.eval]
theorem eval_lt (ρ : Env) (l r : String) : BExp.eval ρ (.cmp "<" l r) = decide (ρ l < ρ r) := by simp [BExp.eval]
theorem eval_gt (ρ : Env) (l r : String) : BExp.eval ρ (.cmp ">" l r) = decide (ρ r < ρ l) := by simp [BExp.eval]
theorem eval_ge (ρ : Env) (l r : String) : BExp.eval ρ (.cmp ">=" l r) = decide (ρ r ≤ ρ l) := by simp [BExp.eval]
theorem eval_atom (ρ : Env) (a : String) : BExp.eval ρ (.atom a) = (ρ a != 0) := rfl
theorem eval_not (ρ : Env) (e : BExp) : BExp.eval ρ (.not e) = !BExp.eval ρ e := rfl
theorem eval_and (ρ : Env) (a b : BExp) : BExp.eval ρ (.and a b) = (BExp.eval ρ a && BExp.eval ρ b) := rfl
theorem eval_or (ρ : Env) (a b : BExp) : BExp.eval ρ (.or a b) = (BExp.eval ρ a || BExp.eval ρ b) := rfl

/-! ## `b2i`, casts -/

theorem b2i_ne_zero (b : Bool) : (b2i b != 0) = b := by cases b <;> rfl
theorem b2i_eq_zero (b : Bool) : (b2i b == 0) = !b := by cases b <;> rfl
theorem b2i_bne (a b : Bool) : (b2i a != b2i b) = (a != b) := by cases a <;> cases b <;> rfl

theorem int_bne (a b : Int) : (a != b) = !decide (a = b) := by
  by_cases h : a = b <;> simp [h]

theorem natCast_beq (a b : Nat) : ((a : Int) == (b : Int)) = decide (a = b) := by
  by_cases h : a = b
  · simp [h]
  · have : (a : Int) ≠ (b : Int) := by omega
    simp [h, this]

theorem natCast_bne (a b : Nat) : ((a : Int) != (b : Int)) = !decide (a = b) := by
  simp only [bne, natCast_beq]

theorem natCast_beq_zero (a : Nat) : ((a : Int) == 0) = decide (a = 0) := natCast_beq a 0

/-! ## projections of the `PState` setters -/

theorem present_setF (s : PState) (i j : Dir) (x : F) : (s.setF i x).present j = s.present j := by
  cases i <;> cases j <;> rfl
theorem present_setSt (s : PState) (i j : Dir) (x : St) : (s.setSt i x).present j = s.present j := by
  cases i <;> cases j <;> rfl
theorem present_setPresent (s : PState) (i : Dir) (b : Bool) : (s.setPresent i b).present i = b := by
  cases i <;> rfl

/-- only the `inConnCh` branch of the manager's `select` produces an `inConn` label -/
theorem inConn_mem_pMain (s : PState) (h : s.pdone = false) (b : Bool) (x : PState) :
    (Label.inConn b, x) ∈ pMain s ↔
    (Label.inConn b, x) ∈
      (if s.holdDown || s.presentI || s.stO = .established then [(Label.inConn false, s)]
       else [(.inConn true, { s with todo := [.enable .inn true] })]) := by
  unfold pMain
  simp only [h, Bool.false_eq_true, if_false, List.mem_append]
  constructor
  · rintro (((h1 | h1) | h1) | h1)
    · split at h1 <;> simp at h1
    · simp only [List.mem_flatMap] at h1
      obtain ⟨i, _, hi⟩ := h1
      split at hi <;> simp at hi
    · split at h1 <;> simp at h1
    · exact h1
  · intro h1; exact Or.inr h1

end CoreBGP.Lemmas.DecTie
