import CoreBGP.Model.Peer
import CoreBGP.Lemmas.PeerLocal
/-! The inductive invariant of the L2 peer model used by the shutdown properties (C10): slot
bookkeeping, what a finished FSM holds, the shape of the manager's continuation while a stop is in
flight, mutual exclusion of the Established sessions and the plugin-history ghost. -/
set_option linter.unnecessarySimpa false
set_option linter.unusedSimpArgs false
namespace CoreBGP.Lemmas.PeerStop
open CoreBGP CoreBGP.Model
open CoreBGP.Lemmas.PeerLocal

/-! ## vocabulary -/

/-- the FSM is offering (or about to offer) a transition to `disabled`: it took a `closeCh` branch -/
def toDis : FPc → Prop
  | .req t => t.to = .disabled
  | .errSend _ d _ => d = .disabled
  | _ => False

/-- the manager is about to stop FSM `i` -/
def stopHead (i : Dir) : List Instr → Prop
  | .disableLog j :: _ => j = i
  | .disable j :: _ => j = i
  | _ => False

/-- the manager is inside `fsm.stop()` of FSM `i` -/
def disHead (i : Dir) : List Instr → Prop
  | .disable j :: _ => j = i
  | _ => False

/-- the manager is about to echo `→ established` to the FSM other than `i` -/
def sendEstHead (i : Dir) : List Instr → Prop
  | .sendT j t :: _ => j = i.other ∧ t.to = .established
  | _ => False

/-- the manager is at the collision `select` of the FSM other than `i` -/
def collHead (i : Dir) : List Instr → Prop
  | .collSel j _ :: _ => j = i.other
  | _ => False

def okT : Instr → Prop
  | .sendT _ t | .handle _ t => t.to ≠ .disabled
  | .collSel _ t => t.to ≠ .disabled ∧ t.to ≠ .established
  | _ => True

/-- what may follow what in the continuation: a collision `select` and a `fsm.stop()` wait are only
ever at the head; an echo of `→ established` is directly preceded by the stop of the other FSM -/
def ok2 (a b : Instr) : Prop :=
  (∀ i t, b ≠ .collSel i t) ∧ (∀ i, b ≠ .disable i) ∧
  (∀ i t, b = .sendT i t → t.to = .established → a = .disableLog i.other ∨ a = .disable i.other)

def chain : List Instr → Prop
  | a :: b :: rest => ok2 a b ∧ chain (b :: rest)
  | _ => True

/-- not a stop instruction -/
def plain (a : Instr) : Prop := ∀ j, a ≠ .disableLog j ∧ a ≠ .disable j

def finShape (pO pI : Bool) (td : List Instr) : Prop :=
  td = [.disableLog .out, .disableLog .inn, .finish] ∨ td = [.disable .out, .disableLog .inn, .finish] ∨
  (pO = false ∧ (td = [.disableLog .inn, .finish] ∨ td = [.disable .inn, .finish] ∨
    (pI = false ∧ td = [.finish])))

/-! ## the invariant -/

/-- an FSM, its slot and its recorded state -/
structure XF (x : F) (pr : Bool) (st : St) : Prop where
  abs : pr = false → x = {}
  pres : pr = true → x.pc ≠ .absent
  doneH : x.pc = .done → x.conn = false ∧ x.dialing = false ∧ x.inEst = false
  inEstRun : x.inEst = true → x.pc = .run .established
  noRunDis : x.pc ≠ .run .disabled
  runSt : x.pc = .run .established → st = .established

/-- an FSM against the manager's continuation -/
structure TF (x : F) (pr : Bool) (st : St) (i : Dir) (td : List Instr) : Prop where
  disReq : toDis x.pc → stopHead i td
  closedH : x.closed = true → disHead i td
  disPres : disHead i td → pr = true
  headSend : sendEstHead i td → pr = false
  coll : collHead i td → st ≠ .established

/-- the continuation -/
structure TG (pclosed pdone pO pI : Bool) (td : List Instr) : Prop where
  okT : ∀ ins ∈ td, okT ins
  fin : Instr.finish ∈ td → pclosed = true ∧ finShape pO pI td
  pd : pdone = true → pclosed = true ∧ td = [] ∧ pO = false ∧ pI = false
  chain : chain td

structure SInv (s : PState) : Prop where
  xo : XF s.fo s.presentO s.stO
  xn : XF s.fi s.presentI s.stI
  to : TF s.fo s.presentO s.stO .out s.todo
  tn : TF s.fi s.presentI s.stI .inn s.todo
  tg : TG s.pclosed s.pdone s.presentO s.presentI s.todo
  me : ¬ (s.fo.pc = .run .established ∧ s.fi.pc = .run .established)
  hist : s.hist = some (if s.fo.inEst || s.fi.inEst then .up else .idle)

attribute [local simp] toDis stopHead disHead sendEstHead collHead okT ok2 chain plain finShape

theorem sinv_init (d p : Bool) : SInv (pInit d p) := by
  unfold pInit
  split
  · refine ⟨⟨?_, ?_, ?_, ?_, ?_, ?_⟩, ⟨?_, ?_, ?_, ?_, ?_, ?_⟩, ⟨?_, ?_, ?_, ?_, ?_⟩, ⟨?_, ?_, ?_, ?_, ?_⟩, ⟨?_, ?_, ?_, ?_⟩, ?_, ?_⟩ <;> simp
  · refine ⟨⟨?_, ?_, ?_, ?_, ?_, ?_⟩, ⟨?_, ?_, ?_, ?_, ?_, ?_⟩, ⟨?_, ?_, ?_, ?_, ?_⟩, ⟨?_, ?_, ?_, ?_, ?_⟩, ⟨?_, ?_, ?_, ?_⟩, ?_, ?_⟩ <;> simp

/-! ## the continuation chain -/

theorem chain_tail {a : Instr} {rest : List Instr} (h : chain (a :: rest)) : chain rest := by
  cases rest with
  | nil => simp
  | cons b r => exact h.2

theorem chain_swap {a b : Instr} {rest : List Instr} (h : chain (a :: rest)) (ha : plain a) : chain (b :: rest) := by
  cases rest with
  | nil => simp
  | cons c r =>
    refine ⟨⟨h.1.1, h.1.2.1, ?_⟩, h.2⟩
    intro i t hc ht
    rcases h.1.2.2 i t hc ht with h' | h'
    · exact absurd h' (ha _).1
    · exact absurd h' (ha _).2

theorem chain_dL_disable {j : Dir} {rest : List Instr} (h : chain (.disableLog j :: rest)) : chain (.disable j :: rest) := by
  cases rest with
  | nil => simp
  | cons c r =>
    refine ⟨⟨h.1.1, h.1.2.1, ?_⟩, h.2⟩
    intro i t hc ht
    rcases h.1.2.2 i t hc ht with h' | h'
    · right; injection h' with h'; rw [h']
    · cases h'

theorem chain_disHead {a : Instr} {rest : List Instr} (h : chain (a :: rest)) (i : Dir) : ¬ disHead i rest := by
  cases rest with
  | nil => simp
  | cons c r =>
    cases c <;> simp
    exact fun hh => h.1.2.1 _ (by rw [hh])

theorem chain_collHead {a : Instr} {rest : List Instr} (h : chain (a :: rest)) (i : Dir) : ¬ collHead i rest := by
  cases rest with
  | nil => simp
  | cons c r =>
    cases c <;> simp
    exact fun hh => h.1.1 _ _ rfl

theorem chain_sendEst {a : Instr} {rest : List Instr} (h : chain (a :: rest)) (i : Dir) (hs : sendEstHead i rest) :
    a = .disableLog i ∨ a = .disable i := by
  cases rest with
  | nil => simp at hs
  | cons c r =>
    cases c <;> simp at hs
    obtain ⟨rfl, ht⟩ := hs
    have := h.1.2.2 _ _ rfl ht
    cases i <;> simpa using this

/-! ## the continuation moves, the FSMs do not -/

/-- the head instruction is consumed; if it was a stop of FSM `i` the slot is (now) empty -/
theorem TF.pop {x : F} {pr : Bool} {st : St} {i : Dir} {a : Instr} {rest : List Instr}
    (h : TF x pr st i (a :: rest)) (hc : chain (a :: rest)) (ha : stopHead i [a] → x = {} ∧ pr = false) :
    TF x pr st i rest := by
  by_cases hs : stopHead i [a]
  · obtain ⟨rfl, rfl⟩ := ha hs
    exact ⟨by simp, by simp, fun hd => absurd hd (chain_disHead hc i), fun _ => rfl,
      fun hd => absurd hd (chain_collHead hc i)⟩
  · have hs' : ¬ stopHead i (a :: rest) := by cases a <;> simpa using hs
    have hd' : ¬ disHead i (a :: rest) := by cases a <;> first | simpa using hs | simp
    refine ⟨fun hd => absurd (h.disReq hd) hs', fun hd => absurd (h.closedH hd) hd',
      fun hd => absurd hd (chain_disHead hc i), fun hd => ?_, fun hd => absurd hd (chain_collHead hc i)⟩
    rcases chain_sendEst hc i hd with rfl | rfl <;> simp at hs

/-- an empty slot against any continuation that was a tail -/
theorem TF.absent {st : St} {i : Dir} {a : Instr} {rest : List Instr} (hc : chain (a :: rest)) :
    TF {} false st i rest :=
  ⟨by simp, by simp, fun hd => absurd hd (chain_disHead hc i), fun _ => rfl, fun hd => absurd hd (chain_collHead hc i)⟩

/-- a new head that concerns nobody, for an FSM that is not being stopped -/
theorem TF.quiet {x : F} {pr : Bool} {st : St} {i : Dir} {td td' : List Instr}
    (h : TF x pr st i td) (hs : ¬ stopHead i td) (h1 : ¬ disHead i td') (h2 : ¬ sendEstHead i td')
    (h3 : collHead i td' → st ≠ .established) :
    TF x pr st i td' := by
  have hd' : ¬ disHead i td := by
    cases td with
    | nil => simp
    | cons a r => cases a <;> first | simpa using hs | simp
  exact ⟨fun hd => absurd (h.disReq hd) hs, fun hd => absurd (h.closedH hd) hd', fun hd => absurd hd h1,
    fun hd => absurd hd h2, h3⟩

theorem TG.pop {pc pd pO pI : Bool} {a : Instr} {rest : List Instr} (h : TG pc pd pO pI (a :: rest))
    (ha : a ≠ .finish) (h1 : a = .disableLog .out → pO = false) (h2 : a = .disableLog .inn → pI = false)
    (h3 : ∀ j, a ≠ .disable j) : TG pc pd pO pI rest := by
  refine ⟨fun ins hi => h.okT ins (List.mem_cons_of_mem _ hi), fun hf => ?_, fun hp => ?_, chain_tail h.chain⟩
  · obtain ⟨hpc, hsh⟩ := h.fin (List.mem_cons_of_mem _ hf)
    refine ⟨hpc, ?_⟩
    simp only [finShape, List.cons.injEq] at hsh
    rcases hsh with ⟨rfl, rfl⟩ | ⟨rfl, -⟩ | ⟨hpo, ⟨rfl, rfl⟩ | ⟨rfl, -⟩ | ⟨hpi, rfl, rfl⟩⟩
    · simp [h1 rfl]
    · exact absurd rfl (h3 _)
    · simp [hpo, h2 rfl]
    · exact absurd rfl (h3 _)
    · exact absurd rfl ha
  · have := (h.pd hp).2.1
    simp at this

/-- the manager's own flags do not matter (except `pclosed`, `pdone`, which `TG` sees) -/
theorem sinv_todo {s : PState} (h : SInv s) {td : List Instr} {pc pd hd ta : Bool}
    (hto : TF s.fo s.presentO s.stO .out td) (htn : TF s.fi s.presentI s.stI .inn td)
    (htg : TG pc pd s.presentO s.presentI td) :
    SInv { s with todo := td, pclosed := pc, pdone := pd, holdDown := hd, timerArmed := ta } :=
  ⟨h.xo, h.xn, hto, htn, htg, h.me, h.hist⟩

theorem sinv_todo' {s : PState} (h : SInv s) {td : List Instr}
    (hto : TF s.fo s.presentO s.stO .out td) (htn : TF s.fi s.presentI s.stI .inn td)
    (htg : TG s.pclosed s.pdone s.presentO s.presentI td) : SInv { s with todo := td } :=
  ⟨h.xo, h.xn, hto, htn, htg, h.me, h.hist⟩

/-- generic pop -/
theorem sinv_pop {s : PState} (h : SInv s) {a : Instr} {rest : List Instr} (ht : s.todo = a :: rest)
    (ha : a ≠ .finish) (h3 : ∀ j, a ≠ .disable j) (h4 : ∀ j, a = .disableLog j → s.present j = false) :
    SInv { s with todo := rest } := by
  have hto := h.to; have htn := h.tn; have htg := h.tg
  rw [ht] at hto htn htg
  refine sinv_todo' h (hto.pop htg.chain ?_) (htn.pop htg.chain ?_) (htg.pop ha (fun e => h4 _ e) (fun e => h4 _ e) h3)
  · intro hs
    cases a <;> simp at hs
    · subst hs; exact ⟨h.xo.abs (h4 _ rfl), h4 _ rfl⟩
    · exact absurd (by rw [hs]) (h3 .out)
  · intro hs
    cases a <;> simp at hs
    · subst hs; exact ⟨h.xn.abs (h4 _ rfl), h4 _ rfl⟩
    · exact absurd (by rw [hs]) (h3 .inn)

/-! ## steps of one FSM, at the level of `F` -/

/-- callback discipline of one FSM step: `inEst` before / after -/
def HStep (l : Label) (a b : Bool) : Prop :=
  match l with
  | .onEstablished _ => a = false ∧ b = true
  | .onClose _ => a = true ∧ b = false
  | .handler _ => a = true ∧ b = true
  | _ => b = a

/-- what every FSM step preserves -/
def FStepOK (x : F) (st : St) (l : Label) (y : F) : Prop :=
  XF y true st ∧ y.closed = x.closed ∧ HStep l x.inEst y.inEst ∧ (y.pc = .run .established → x.pc = .run .established)

theorem xf_iff (x : F) (pr : Bool) (st : St) : XF x pr st ↔
    ((pr = false → x = {}) ∧ (pr = true → x.pc ≠ .absent) ∧
     (x.pc = .done → x.conn = false ∧ x.dialing = false ∧ x.inEst = false) ∧
     (x.inEst = true → x.pc = .run .established) ∧ x.pc ≠ .run .disabled ∧
     (x.pc = .run .established → st = .established)) :=
  ⟨fun ⟨a, b, c, d, e, f⟩ => ⟨a, b, c, d, e, f⟩, fun ⟨a, b, c, d, e, f⟩ => ⟨a, b, c, d, e, f⟩⟩

theorem fOnClose_ok {i : Dir} {x : F} {st : St} (hx : XF x true st) :
    ∀ p ∈ fOnClose i x, FStepOK x st p.1 p.2 ∧ p.2.pc ≠ .run .established := by
  obtain ⟨pc, closed, conn, dialing, inEst, veto, inq⟩ := x
  obtain ⟨-, -, h3, h4, h5, h6⟩ := hx
  simp only at h3 h4 h5 h6
  cases pc with
  | absent => simp [fOnClose]
  | done => simp [fOnClose]
  | req t => cases inEst <;> simp_all [fOnClose, FStepOK, xf_iff, HStep, F.dropConn]
  | wait t => cases inEst <;> simp_all [fOnClose, FStepOK, xf_iff, HStep, F.dropConn]
  | errSend a b k => cases inEst <;> simp_all [fOnClose, FStepOK, xf_iff, HStep, F.dropConn]
  | run s0 =>
    cases s0 <;> cases inEst <;> simp_all [fOnClose, FStepOK, xf_iff, HStep, F.dropConn]

theorem runOutcomes_ok {i : Dir} {x : F} {st : St} {s0 : St} (hx : XF x true st) (hp : x.pc = .run s0) :
    ∀ p ∈ runOutcomes i x s0, FStepOK x st p.1 p.2 ∧ ¬ toDis p.2.pc := by
  obtain ⟨pc, closed, conn, dialing, inEst, veto, inq⟩ := x
  obtain ⟨-, -, h3, h4, h5, h6⟩ := hx
  simp only at h3 h4 h5 h6 hp
  subst hp
  cases s0 with
  | disabled => simp [runOutcomes]
  | idle => simp_all [runOutcomes, FStepOK, xf_iff, HStep]
  | connect => simp_all [runOutcomes, FStepOK, xf_iff, HStep]
  | active =>
    cases conn <;> cases i <;> simp_all [runOutcomes, FStepOK, xf_iff, HStep, F.dropConn]
  | openSent =>
    rcases inq with _ | ⟨m, inq⟩
    · simp_all [runOutcomes, FStepOK, xf_iff, HStep, F.dropConn]
    · cases m <;> simp_all [runOutcomes, FStepOK, xf_iff, HStep, F.dropConn]
  | openConfirm =>
    rcases inq with _ | ⟨m, inq⟩
    · simp_all [runOutcomes, FStepOK, xf_iff, HStep, F.dropConn]
    · cases m <;> simp_all [runOutcomes, FStepOK, xf_iff, HStep, F.dropConn]
  | established =>
    cases inEst
    · simp_all [runOutcomes, FStepOK, xf_iff, HStep, F.dropConn]
    · cases veto
      · rcases inq with _ | ⟨m, inq⟩
        · simp_all [runOutcomes, FStepOK, xf_iff, HStep, F.dropConn]
        · cases m <;> simp_all [runOutcomes, FStepOK, xf_iff, HStep, F.dropConn]
      · simp_all [runOutcomes, FStepOK, xf_iff, HStep, F.dropConn]

/-! ## one FSM moves, the continuation does not -/

theorem applyCb_eq (l : Label) (s : PState) : applyCb l s = { s with hist := (applyCb l s).hist } := by
  cases l <;> rfl

theorem hist_step {l : Label} {a b o : Bool} {s : PState} (hs : HStep l a b) (ha : a = true → o = false)
    (hb : b = true → o = false) :
    (s.hist = some (if a || o then .up else .idle) → (applyCb l s).hist = some (if b || o then .up else .idle)) ∧
    (s.hist = some (if o || a then .up else .idle) → (applyCb l s).hist = some (if o || b then .up else .idle)) := by
  cases l <;> cases a <;> cases b <;> cases o <;> simp_all [HStep, applyCb, PState.cb, Spec.hstep]

theorem sinv_fstep {s : PState} (h : SInv s) (i : Dir) {y : F} {l : Label} (hp : s.present i = true)
    (hy : FStepOK (s.f i) (s.st i) l y) (hd : toDis y.pc → stopHead i s.todo) :
    SInv (applyCb l (s.setF i y)) := by
  rw [applyCb_eq]
  obtain ⟨hx, hc, hs, hr⟩ := hy
  cases i
  · have hm : s.fo.pc = .run .established → s.fi.inEst = false := fun e => by
      have := h.me
      have h2 := h.xn.inEstRun
      cases hh : s.fi.inEst
      · rfl
      · exact absurd ⟨e, h2 hh⟩ this
    have hp : s.presentO = true := hp
    refine ⟨?_, h.xn, ⟨hd, fun e => h.to.closedH (hc ▸ e), h.to.disPres, h.to.headSend, h.to.coll⟩,
      h.tn, h.tg, fun ⟨e1, e2⟩ => h.me ⟨hr e1, e2⟩, ?_⟩
    · show XF y s.presentO s.stO
      rw [hp]; exact hx
    · exact (hist_step (s := s.setF .out y) hs (fun e => hm (h.xo.inEstRun e)) (fun e => hm (hr (hx.inEstRun e)))).1 h.hist
  · have hm : s.fi.pc = .run .established → s.fo.inEst = false := fun e => by
      have := h.me
      have h2 := h.xo.inEstRun
      cases hh : s.fo.inEst
      · rfl
      · exact absurd ⟨h2 hh, e⟩ this
    have hp : s.presentI = true := hp
    refine ⟨h.xo, ?_, h.to, ⟨hd, fun e => h.tn.closedH (hc ▸ e), h.tn.disPres, h.tn.headSend, h.tn.coll⟩,
      h.tg, fun ⟨e1, e2⟩ => h.me ⟨e1, hr e2⟩, ?_⟩
    · show XF y s.presentI s.stI
      rw [hp]; exact hx
    · exact (hist_step (s := s.setF .inn y) hs (fun e => hm (h.xn.inEstRun e)) (fun e => hm (hr (hx.inEstRun e)))).2 h.hist

theorem SInv.x {s : PState} (h : SInv s) (i : Dir) : XF (s.f i) (s.present i) (s.st i) := by
  cases i
  · exact h.xo
  · exact h.xn

theorem SInv.t {s : PState} (h : SInv s) (i : Dir) : TF (s.f i) (s.present i) (s.st i) i s.todo := by
  cases i
  · exact h.to
  · exact h.tn

theorem SInv.present_of_pc {s : PState} (h : SInv s) (i : Dir) (hp : (s.f i).pc ≠ .absent) : s.present i = true := by
  cases hh : s.present i
  · rw [(h.x i).abs hh] at hp
    exact absurd rfl hp
  · rfl

theorem disHead_stopHead {i : Dir} {td : List Instr} (h : disHead i td) : stopHead i td := by
  cases td with
  | nil => simp at h
  | cons a r => cases a <;> simp_all

theorem sinv_fSteps {s s' : PState} {l : Label} (h : SInv s) (i : Dir) (hm : (l, s') ∈ fSteps s i) : SInv s' := by
  simp only [fSteps, List.mem_map, List.mem_append] at hm
  obtain ⟨⟨l', y⟩, hy, he⟩ := hm
  simp only [Prod.mk.injEq] at he
  obtain ⟨rfl, rfl⟩ := he
  rcases hy with hy | hy
  · split at hy
    · rename_i hc
      simp only [Bool.and_eq_true] at hc
      have hp : s.present i = true := h.present_of_pc i (fun e => by rw [e] at hc; simp [FPc.listensClose] at hc)
      have hx := h.x i
      rw [hp] at hx
      have := fOnClose_ok hx _ hy
      exact sinv_fstep h i hp this.1 (fun _ => disHead_stopHead ((h.t i).closedH hc.1))
    · simp at hy
  · split at hy
    · rename_i st hpc
      have hp : s.present i = true := h.present_of_pc i (fun e => by rw [e] at hpc; cases hpc)
      have hx := h.x i
      rw [hp] at hx
      have := runOutcomes_ok hx hpc _ hy
      exact sinv_fstep h i hp this.1 (fun e => absurd e this.2)
    · simp at hy

theorem sinv_rsend {s s' : PState} {l : Label} (h : SInv s) (hm : (l, s') ∈ rsendSteps s) : SInv s' := by
  simp only [rsendSteps, List.mem_flatMap, List.mem_append, List.mem_singleton] at hm
  obtain ⟨i, -, m, -, hm | hm⟩ := hm
  · split at hm
    · rename_i hc
      simp only [Bool.and_eq_true] at hc
      simp only [List.mem_singleton, Prod.mk.injEq] at hm
      obtain ⟨rfl, rfl⟩ := hm
      have hp : s.present i = true := by
        cases hh : s.present i
        · have := (h.x i).abs hh
          rw [this] at hc
          simp at hc
        · rfl
      have hx := h.x i
      rw [hp] at hx
      obtain ⟨-, h2, h3, h4, h5, h6⟩ := hx
      refine sinv_fstep (l := .rsend i m) h i hp ⟨⟨by simp, fun _ => h2 rfl, h3, h4, h5, h6⟩, rfl, rfl, id⟩ (h.t i).disReq
    · simp at hm
  · obtain ⟨-, rfl⟩ := Prod.mk.inj hm
    exact h

theorem sinv_apiStop {s : PState} (h : SInv s) : SInv { s with pclosed := true } :=
  ⟨h.xo, h.xn, h.to, h.tn, ⟨h.tg.okT, fun e => ⟨rfl, (h.tg.fin e).2⟩, fun e => ⟨rfl, (h.tg.pd e).2⟩, h.tg.chain⟩, h.me, h.hist⟩

/-! ## the manager at its main `select` -/

@[simp] theorem setF_pclosed (s : PState) (i : Dir) (x : F) : (s.setF i x).pclosed = s.pclosed := by cases i <;> rfl
@[simp] theorem setF_pdone (s : PState) (i : Dir) (x : F) : (s.setF i x).pdone = s.pdone := by cases i <;> rfl
@[simp] theorem setF_presentO (s : PState) (i : Dir) (x : F) : (s.setF i x).presentO = s.presentO := by cases i <;> rfl
@[simp] theorem setF_presentI (s : PState) (i : Dir) (x : F) : (s.setF i x).presentI = s.presentI := by cases i <;> rfl
@[simp] theorem setF_present (s : PState) (i j : Dir) (x : F) : (s.setF i x).present j = s.present j := by
  cases i <;> cases j <;> rfl
@[simp] theorem setF_st (s : PState) (i j : Dir) (x : F) : (s.setF i x).st j = s.st j := by
  cases i <;> cases j <;> rfl

theorem setF_todo_comm (s : PState) (i : Dir) (y : F) (td : List Instr) :
    ({ s with todo := td } : PState).setF i y = { s.setF i y with todo := td } := by
  cases i <;> rfl

theorem TF.of_nil {x : F} {pr : Bool} {st : St} {i : Dir} {td' : List Instr} (h : TF x pr st i [])
    (h1 : ¬ disHead i td') (h2 : ¬ sendEstHead i td') (h3 : ¬ collHead i td') : TF x pr st i td' :=
  h.quiet (by simp) h1 h2 (fun e => absurd e h3)

/-- from the main `select` to a continuation without stop / echo-established / collision at its head -/
theorem sinv_main_todo {s : PState} (h : SInv s) (ht : s.todo = []) (td : List Instr) (hd ta : Bool)
    (h1 : ∀ i, ¬ disHead i td) (h2 : ∀ i, ¬ sendEstHead i td) (h3 : ∀ i, ¬ collHead i td)
    (htg : TG s.pclosed s.pdone s.presentO s.presentI td) :
    SInv { s with todo := td, holdDown := hd, timerArmed := ta } := by
  have hto := h.to; have htn := h.tn
  rw [ht] at hto htn
  exact sinv_todo h (hto.of_nil (h1 _) (h2 _) (h3 _)) (htn.of_nil (h1 _) (h2 _) (h3 _)) htg

theorem sinv_main_todo' {s : PState} (h : SInv s) (ht : s.todo = []) (td : List Instr)
    (h1 : ∀ i, ¬ disHead i td) (h2 : ∀ i, ¬ sendEstHead i td) (h3 : ∀ i, ¬ collHead i td)
    (htg : TG s.pclosed s.pdone s.presentO s.presentI td) :
    SInv { s with todo := td } :=
  sinv_main_todo h ht td s.holdDown s.timerArmed h1 h2 h3 htg

theorem sinv_pMain {s s' : PState} {l : Label} (h : SInv s) (ht : s.todo = []) (hm : (l, s') ∈ pMain s) : SInv s' := by
  unfold pMain at hm
  split at hm
  · simp at hm
  rename_i hpd
  have hpd : s.pdone = false := by simpa using hpd
  simp only [List.mem_append] at hm
  rcases hm with ((hm | hm) | hm) | hm
  · -- `closeCh`
    split at hm
    · rename_i hpc
      simp only [List.mem_singleton, Prod.mk.injEq] at hm
      obtain ⟨-, rfl⟩ := hm
      exact sinv_main_todo' h ht _ (by simp) (by simp) (by simp)
        ⟨by simp, fun _ => ⟨hpc, by simp⟩, fun e => by simp [hpd] at e, by simp⟩
    · simp at hm
  · -- an FSM's request or error
    simp only [List.mem_flatMap] at hm
    obtain ⟨i, -, hm⟩ := hm
    have hp : (s.f i).pc ≠ .absent → s.present i = true := h.present_of_pc i
    have hx := h.x i
    have hd := (h.t i).disReq
    rw [ht] at hd
    split at hm
    · rename_i t hpc
      simp only [List.mem_singleton, Prod.mk.injEq] at hm
      obtain ⟨-, rfl⟩ := hm
      rw [hpc] at hp hd
      have hp := hp (by simp)
      rw [hp] at hx
      obtain ⟨-, h2, h3, h4, h5, h6⟩ := hx
      rw [setF_todo_comm]
      have h' : SInv (s.setF i { s.f i with pc := .wait t }) :=
        sinv_fstep (l := .tau) h i hp
          ⟨⟨by simp, by simp, by simp, fun e => by simp [hpc] at h4; simp [h4] at e, by simp, by simp⟩, rfl, rfl,
            fun e => by simp at e⟩ (by simp)
      exact sinv_main_todo' h' (by simpa using ht) _ (by simp) (by simp) (by simp)
        ⟨by simpa using hd, by simp, fun e => by simp [hpd] at e, by simp⟩
    · rename_i st d k hpc
      simp only [List.mem_singleton, Prod.mk.injEq] at hm
      obtain ⟨-, rfl⟩ := hm
      rw [hpc] at hp hd
      have hp := hp (by simp)
      rw [hp] at hx
      obtain ⟨-, h2, h3, h4, h5, h6⟩ := hx
      have h' : SInv (s.setF i { s.f i with pc := .req ⟨st, d⟩ }) :=
        sinv_fstep (l := .tau) h i hp
          ⟨⟨by simp, by simp, by simp, fun e => by simp [hpc] at h4; simp [h4] at e, by simp, by simp⟩, rfl, rfl,
            fun e => by simp at e⟩ (fun e => absurd e (by simpa using hd))
      refine sinv_main_todo' h' (by simpa using ht) _ (by simp) (by simp) (by simp)
        ⟨?_, ?_, fun e => by simp [hpd] at e, ?_⟩
      · split <;> simp
      · split <;> simp
      · split <;> simp
    · simp at hm
  · -- the back-off timer
    split at hm
    · simp only [List.mem_singleton, Prod.mk.injEq] at hm
      obtain ⟨-, rfl⟩ := hm
      exact sinv_main_todo h ht _ _ _ (by simp) (by simp) (by simp) ⟨by simp, by simp, fun e => by simp [hpd] at e, by simp⟩
    · simp at hm
  · -- an inbound connection
    split at hm
    · simp only [List.mem_singleton, Prod.mk.injEq] at hm
      obtain ⟨-, rfl⟩ := hm
      exact h
    · simp only [List.mem_singleton, Prod.mk.injEq] at hm
      obtain ⟨-, rfl⟩ := hm
      exact sinv_main_todo' h ht _ (by simp) (by simp) (by simp)
        ⟨by simp, by simp, fun e => by simp [hpd] at e, by simp⟩

/-! ## the manager executes an instruction -/

theorem other_other (i : Dir) : i.other.other = i := by cases i <;> rfl

theorem not_fin_of_head {pc pd pO pI : Bool} {a : Instr} {rest : List Instr} (h : TG pc pd pO pI (a :: rest))
    (ha : a ≠ .finish) (h3 : ∀ j, a ≠ .disable j) (h4 : ∀ j, a ≠ .disableLog j) : Instr.finish ∉ rest := by
  intro hf
  have := (h.fin (List.mem_cons_of_mem _ hf)).2
  simp only [finShape, List.cons.injEq] at this
  rcases this with ⟨rfl, -⟩ | ⟨rfl, -⟩ | ⟨-, ⟨rfl, -⟩ | ⟨rfl, -⟩ | ⟨-, rfl, -⟩⟩
  · exact h4 _ rfl
  · exact h3 _ rfl
  · exact h4 _ rfl
  · exact h3 _ rfl
  · exact ha rfl

theorem not_pdone_of_todo {pc pd pO pI : Bool} {a : Instr} {rest : List Instr} (h : TG pc pd pO pI (a :: rest)) :
    pd = false := by
  cases pd
  · rfl
  · have := (h.pd rfl).2.1
    simp at this

theorem expandHandle_cases (s : PState) (i : Dir) (t : Trans) :
    (t.to = .established ∧ expandHandle s i t = [.disableLog i.other, .sendT i t]) ∨
    (t.to ≠ .established ∧ (expandHandle s i t = [.disableLog i, .enable .out false] ∨
      expandHandle s i t = [.disableLog i] ∨ expandHandle s i t = [.sendT i t] ∨
      (s.st i.other = .openConfirm ∧ t.to = .openConfirm ∧ expandHandle s i t = [.collSel i t]))) := by
  unfold expandHandle
  split
  · left; exact ⟨‹_›, rfl⟩
  · right
    refine ⟨‹_›, ?_⟩
    split
    · left; rfl
    · split
      · split
        · right; left; rfl
        · split
          · right; right; right; exact ⟨‹_›, ‹_›, rfl⟩
          · right; left; rfl
        · right; right; left; rfl
      · right; right; left; rfl

theorem sinv_handle {s : PState} (h : SInv s) {i : Dir} {t : Trans} {rest : List Instr}
    (ht : s.todo = .handle i t :: rest) : SInv { s with todo := expandHandle s i t ++ rest } := by
  have htg := h.tg
  rw [ht] at htg
  have hnf := not_fin_of_head htg (by simp) (by simp) (by simp)
  have hpd := not_pdone_of_todo htg
  have hok : t.to ≠ .disabled := by simpa using htg.okT _ (List.mem_cons_self ..)
  have hokr : ∀ ins ∈ rest, okT ins := fun ins hi => htg.okT ins (List.mem_cons_of_mem _ hi)
  have hc := htg.chain
  have hto := h.to; have htn := h.tn
  rw [ht] at hto htn
  have hq : ∀ {x pr st j td'}, TF x pr st j (.handle i t :: rest) → ¬ disHead j td' → ¬ sendEstHead j td' →
      (collHead j td' → st ≠ .established) → TF x pr st j td' := fun hj => hj.quiet (by simp)
  have hcs : ∀ b, chain (b :: rest) := fun b => chain_swap hc (by simp)
  rcases expandHandle_cases s i t with ⟨he, hx⟩ | ⟨he, hx | hx | hx | ⟨h1, h2, hx⟩⟩ <;> rw [hx]
  · refine sinv_todo' h (hq hto (by simp) (by simp) (by simp)) (hq htn (by simp) (by simp) (by simp))
      ⟨by simpa [hok] using hokr, fun e => absurd (by simpa using e) hnf, by simp [hpd], ?_⟩
    exact ⟨by simp, hcs _⟩
  · refine sinv_todo' h (hq hto (by simp) (by simp) (by simp)) (hq htn (by simp) (by simp) (by simp))
      ⟨by simpa [hok] using hokr, fun e => absurd (by simpa using e) hnf, by simp [hpd], ?_⟩
    exact ⟨by simp, hcs _⟩
  · refine sinv_todo' h (hq hto (by simp) (by simp) (by simp)) (hq htn (by simp) (by simp) (by simp))
      ⟨by simpa [hok] using hokr, fun e => absurd (by simpa using e) hnf, by simp [hpd], hcs _⟩
  · refine sinv_todo' h (hq hto (by simp) (by simp [he]) (by simp)) (hq htn (by simp) (by simp [he]) (by simp))
      ⟨by simpa [hok] using hokr, fun e => absurd (by simpa using e) hnf, by simp [hpd], hcs _⟩
  · refine sinv_todo' h (hq hto (by simp) (by simp) ?_) (hq htn (by simp) (by simp) ?_)
      ⟨by simpa [hok, he] using hokr, fun e => absurd (by simpa using e) hnf, by simp [hpd], hcs _⟩
    · intro e; simp at e; subst e; simp [PState.st] at h1; simp [h1]
    · intro e; simp at e; subst e; simp [PState.st] at h1; simp [h1]

theorem sinv_flags {s : PState} (h : SInv s) (a b : Bool) : SInv { s with holdDown := a, timerArmed := b } :=
  ⟨h.xo, h.xn, h.to, h.tn, h.tg, h.me, h.hist⟩

theorem TG.dL_disable {pc pd pO pI : Bool} {j : Dir} {rest : List Instr} (h : TG pc pd pO pI (.disableLog j :: rest)) :
    TG pc pd pO pI (.disable j :: rest) := by
  refine ⟨fun ins hi => ?_, fun hf => ?_, fun e => ?_, chain_dL_disable h.chain⟩
  · rcases List.mem_cons.1 hi with rfl | hi
    · simp
    · exact h.okT ins (List.mem_cons_of_mem _ hi)
  · have hf' : Instr.finish ∈ Instr.disableLog j :: rest := by
      rcases List.mem_cons.1 hf with hf | hf
      · cases hf
      · exact List.mem_cons_of_mem _ hf
    obtain ⟨hpc, hsh⟩ := h.fin hf'
    refine ⟨hpc, ?_⟩
    simp only [finShape, List.cons.injEq] at hsh
    rcases hsh with ⟨hj, rfl⟩ | ⟨hj, -⟩ | ⟨hpo, ⟨hj, rfl⟩ | ⟨hj, -⟩ | ⟨hpi, hj, -⟩⟩
    · cases hj; simp
    · cases hj
    · cases hj; simp [hpo]
    · cases hj
    · cases hj
  · have := not_pdone_of_todo h
    rw [this] at e; cases e

/-- `disableFSM` on an occupied slot -/
theorem sinv_dL_present {s : PState} (h : SInv s) {i : Dir} {rest : List Instr}
    (ht : s.todo = .disableLog i :: rest) (hp : s.present i = true) : SInv { s with todo := .disable i :: rest } := by
  have htg := h.tg; have hto := h.to; have htn := h.tn
  rw [ht] at htg hto htn
  have key : ∀ {x pr st j}, TF x pr st j (.disableLog i :: rest) → (j = i → pr = true) → TF x pr st j (.disable i :: rest) := by
    intro x pr st j hj hpr
    refine ⟨fun e => ?_, fun e => ?_, fun e => ?_, by simp, by simp⟩
    · simpa using hj.disReq e
    · simpa using hj.closedH e
    · have e' : i = j := by simpa using e
      exact hpr e'.symm
  refine sinv_todo' h (key hto ?_) (key htn ?_) htg.dL_disable
  · rintro rfl; exact hp
  · rintro rfl; exact hp

/-- `fsm.stop()`: `close(f.closeCh)` -/
theorem sinv_disable_close {s : PState} (h : SInv s) {i : Dir} {rest : List Instr}
    (ht : s.todo = .disable i :: rest) : SInv (s.setF i { s.f i with closed := true }) := by
  have hd : disHead i s.todo := by rw [ht]; simp
  cases i
  · have hp := h.to.disPres hd
    obtain ⟨-, h2, h3, h4, h5, h6⟩ := h.xo
    exact ⟨⟨by simp [hp], h2, h3, h4, h5, h6⟩, h.xn, ⟨h.to.disReq, fun _ => hd, h.to.disPres, h.to.headSend, h.to.coll⟩,
      h.tn, h.tg, h.me, h.hist⟩
  · have hp := h.tn.disPres hd
    obtain ⟨-, h2, h3, h4, h5, h6⟩ := h.xn
    exact ⟨h.xo, ⟨by simp [hp], h2, h3, h4, h5, h6⟩, h.to, ⟨h.tn.disReq, fun _ => hd, h.tn.disPres, h.tn.headSend, h.tn.coll⟩,
      h.tg, h.me, h.hist⟩

theorem XF.empty : XF {} false .disabled := ⟨by simp, by simp, by simp, by simp, by simp, by simp⟩

theorem TG.pop_disable_out {pc pd pO pI : Bool} {rest : List Instr} (h : TG pc pd pO pI (.disable .out :: rest)) :
    TG pc pd false pI rest := by
  refine ⟨fun ins hi => h.okT ins (List.mem_cons_of_mem _ hi), fun hf => ?_, fun e => ?_, chain_tail h.chain⟩
  · obtain ⟨hpc, hsh⟩ := h.fin (List.mem_cons_of_mem _ hf)
    refine ⟨hpc, ?_⟩
    simp only [finShape, List.cons.injEq] at hsh
    rcases hsh with ⟨hj, -⟩ | ⟨-, rfl⟩ | ⟨hpo, ⟨hj, -⟩ | ⟨hj, -⟩ | ⟨hpi, hj, -⟩⟩ <;> first | cases hj | simp
  · have := not_pdone_of_todo h
    rw [this] at e; cases e

theorem TG.pop_disable_inn {pc pd pO pI : Bool} {rest : List Instr} (h : TG pc pd pO pI (.disable .inn :: rest)) :
    TG pc pd pO false rest := by
  refine ⟨fun ins hi => h.okT ins (List.mem_cons_of_mem _ hi), fun hf => ?_, fun e => ?_, chain_tail h.chain⟩
  · obtain ⟨hpc, hsh⟩ := h.fin (List.mem_cons_of_mem _ hf)
    refine ⟨hpc, ?_⟩
    simp only [finShape, List.cons.injEq] at hsh
    rcases hsh with ⟨hj, -⟩ | ⟨hj, -⟩ | ⟨hpo, ⟨hj, -⟩ | ⟨-, rfl⟩ | ⟨hpi, hj, -⟩⟩ <;> first | cases hj | simp [hpo]
  · have := not_pdone_of_todo h
    rw [this] at e; cases e

/-- `fsm.stop()` returns: the FSM is done, the slot is cleared -/
theorem sinv_disable_join {s : PState} (h : SInv s) {i : Dir} {rest : List Instr}
    (ht : s.todo = .disable i :: rest) (hpc : (s.f i).pc = .done) :
    SInv ((({ s with todo := rest }.setPresent i false).setSt i .disabled).setF i {}) := by
  have htg := h.tg; have hto := h.to; have htn := h.tn
  rw [ht] at htg hto htn
  cases i
  · have he : s.fo.inEst = false := (h.xo.doneH hpc).2.2
    refine ⟨XF.empty, h.xn, TF.absent htg.chain, htn.pop htg.chain (by simp), htg.pop_disable_out, by simp [PState.setF], ?_⟩
    simpa [PState.setF, PState.setSt, PState.setPresent, he] using h.hist
  · have he : s.fi.inEst = false := (h.xn.doneH hpc).2.2
    refine ⟨h.xo, XF.empty, hto.pop htg.chain (by simp), TF.absent htg.chain, htg.pop_disable_inn, by simp [PState.setF], ?_⟩
    simpa [PState.setF, PState.setSt, PState.setPresent, he] using h.hist

/-- `enableFSM` on an empty slot (the instruction itself already consumed) -/
theorem sinv_create {s : PState} (h : SInv s) {i : Dir} {d : St} {c : Bool} (hp : s.present i = false)
    (hd : d ≠ .disabled) (hse : ¬ sendEstHead i s.todo) (hnf : Instr.finish ∉ s.todo) (hpd : s.pdone = false) :
    SInv (((s.setPresent i true).setSt i .disabled).setF i { pc := .req ⟨.disabled, d⟩, conn := c }) := by
  have hx : XF { pc := .req ⟨.disabled, d⟩, conn := c } true .disabled := ⟨by simp, by simp, by simp, by simp, by simp, by simp⟩
  have htg := h.tg
  cases i
  · have hp : s.presentO = false := hp
    have he : s.fo = {} := h.xo.abs hp
    have hdh : ¬ disHead .out s.todo := fun e => by have := h.to.disPres e; rw [hp] at this; cases this
    refine ⟨?xo, ?xn, ?to, ?tn, ?tg, ?me, ?hist⟩ <;> simp only [PState.setF, PState.setSt, PState.setPresent]
    case xo => exact hx
    case xn => exact h.xn
    case to => exact ⟨fun e => absurd e (by simpa using hd), by simp, fun _ => rfl, fun e => absurd e hse, by simp⟩
    case tn => exact h.tn
    case tg => exact ⟨htg.okT, fun e => absurd e hnf, fun e => by (rw [hpd] at e; cases e), htg.chain⟩
    case me => simp
    case hist => simpa [he] using h.hist
  · have hp : s.presentI = false := hp
    have he : s.fi = {} := h.xn.abs hp
    have hdh : ¬ disHead .inn s.todo := fun e => by have := h.tn.disPres e; rw [hp] at this; cases this
    refine ⟨?xo, ?xn, ?to, ?tn, ?tg, ?me, ?hist⟩ <;> simp only [PState.setF, PState.setSt, PState.setPresent]
    case xo => exact h.xo
    case xn => exact hx
    case to => exact h.to
    case tn => exact ⟨fun e => absurd e (by simpa using hd), by simp, fun _ => rfl, fun e => absurd e hse, by simp⟩
    case tg => exact ⟨htg.okT, fun e => absurd e hnf, fun e => by (rw [hpd] at e; cases e), htg.chain⟩
    case me => simp
    case hist => simpa [he] using h.hist

/-- `sendTransitionToFSM`: the echo is taken -/
theorem sinv_echo {s : PState} (h : SInv s) {i : Dir} {t t0 : Trans} {rest : List Instr}
    (ht : s.todo = .sendT i t :: rest) (hw : (s.f i).pc = .wait t0) :
    SInv (({ s with todo := .logT i t.frm t.to :: rest }.setSt i t.to).setF i { s.f i with pc := .run t.to }) := by
  have htg := h.tg; have hto := h.to; have htn := h.tn
  rw [ht] at htg hto htn
  have hnf := not_fin_of_head htg (by simp) (by simp) (by simp)
  have hpd := not_pdone_of_todo htg
  have hok : t.to ≠ .disabled := by simpa using htg.okT _ (List.mem_cons_self ..)
  have htg' : TG s.pclosed s.pdone s.presentO s.presentI (.logT i t.frm t.to :: rest) :=
    ⟨fun ins hi => by
        rcases List.mem_cons.1 hi with rfl | hi
        · simp
        · exact htg.okT ins (List.mem_cons_of_mem _ hi),
      fun e => absurd (by simpa using e) hnf, fun e => by (rw [hpd] at e; cases e), chain_swap htg.chain (by simp)⟩
  have hpr := h.present_of_pc i (by rw [hw]; simp)
  cases i
  · have hpr : s.presentO = true := hpr
    have hw : s.fo.pc = .wait t0 := hw
    have hie : s.fo.inEst = false := by
      cases hh : s.fo.inEst
      · rfl
      · have := h.xo.inEstRun hh; rw [hw] at this; cases this
    have hcl : s.fo.closed = false := by
      cases hh : s.fo.closed
      · rfl
      · have := hto.closedH hh; simp at this
    refine ⟨?xo, ?xn, ?to, ?tn, ?tg, ?me, ?hist⟩ <;> simp only [PState.setF, PState.setSt, PState.setPresent, PState.f]
    case xo => exact ⟨by simp [hpr], by simp, by simp, by simp [hie], by simpa using hok, by simp⟩
    case xn => exact h.xn
    case to => exact ⟨by simp, by simp [hcl], by simp, by simp, by simp⟩
    case tn => exact htn.quiet (by simp) (by simp) (by simp) (by simp)
    case tg => exact htg'
    case me =>
      rintro ⟨e1, e2⟩
      have e1 : t.to = .established := by simpa using e1
      have := htn.headSend (by simp [e1])
      have := h.xn.abs this
      simp [this] at e2
    case hist => exact h.hist
  · have hpr : s.presentI = true := hpr
    have hw : s.fi.pc = .wait t0 := hw
    have hie : s.fi.inEst = false := by
      cases hh : s.fi.inEst
      · rfl
      · have := h.xn.inEstRun hh; rw [hw] at this; cases this
    have hcl : s.fi.closed = false := by
      cases hh : s.fi.closed
      · rfl
      · have := htn.closedH hh; simp at this
    refine ⟨?xo, ?xn, ?to, ?tn, ?tg, ?me, ?hist⟩ <;> simp only [PState.setF, PState.setSt, PState.setPresent, PState.f]
    case xo => exact h.xo
    case xn => exact ⟨by simp [hpr], by simp, by simp, by simp [hie], by simpa using hok, by simp⟩
    case to => exact hto.quiet (by simp) (by simp) (by simp) (by simp)
    case tn => exact ⟨by simp, by simp [hcl], by simp, by simp, by simp⟩
    case tg => exact htg'
    case me =>
      rintro ⟨e1, e2⟩
      have e2 : t.to = .established := by simpa using e2
      have := hto.headSend (by simp [e2])
      have := h.xo.abs this
      simp [this] at e1
    case hist => exact h.hist

/-- the collision `select`: the kill value is taken by the other FSM -/
theorem sinv_coll_kill {s : PState} (h : SInv s) {i : Dir} {t : Trans} {rest : List Instr}
    (ht : s.todo = .collSel i t :: rest) {l : Label} {y : F} (hy : (l, y) ∈ fOnClose i.other (s.f i.other))
    (hl : (s.f i.other).pc.listensClose = true) :
    SInv ({ s with todo := .disableLog i.other :: .sendT i t :: rest }.setF i.other y) := by
  have htg := h.tg; have hto := h.to; have htn := h.tn
  rw [ht] at htg hto htn
  have hnf := not_fin_of_head htg (by simp) (by simp) (by simp)
  have hpd := not_pdone_of_todo htg
  have hok : t.to ≠ .disabled ∧ t.to ≠ .established := by simpa using htg.okT _ (List.mem_cons_self ..)
  have h1 : SInv { s with todo := .disableLog i.other :: .sendT i t :: rest } := by
    refine sinv_todo' h (hto.quiet (by simp) (by simp) (by simp) (by simp)) (htn.quiet (by simp) (by simp) (by simp) (by simp))
      ⟨fun ins hi => ?_, fun e => absurd (by simpa using e) hnf, fun e => by (rw [hpd] at e; cases e),
        ⟨by simp, chain_swap htg.chain (by simp)⟩⟩
    rcases List.mem_cons.1 hi with rfl | hi
    · simp
    · rcases List.mem_cons.1 hi with rfl | hi
      · simpa using hok.1
      · exact htg.okT ins (List.mem_cons_of_mem _ hi)
  have hp : s.present i.other = true := h.present_of_pc _ (fun e => by rw [e] at hl; simp [FPc.listensClose] at hl)
  have hx := h.x i.other
  rw [hp] at hx
  have hst : s.st i.other ≠ .established := by
    have := (h.t i.other).coll
    rw [ht] at this
    exact this (by simp [other_other])
  have hie : (s.f i.other).inEst = false := by
    cases hh : (s.f i.other).inEst
    · rfl
    · exact absurd (hx.runSt (hx.inEstRun hh)) hst
  obtain ⟨⟨hxy, hc, hs, hr⟩, hne⟩ := fOnClose_ok hx _ hy
  have hye : y.inEst = false := by
    cases hh : y.inEst
    · rfl
    · exact absurd (hxy.inEstRun hh) hne
  have := sinv_fstep (l := .tau) (y := y) h1 i.other hp ⟨hxy, hc, by simp [HStep, hie, hye], hr⟩ (by simp)
  exact this

/-- the collision `select`: the other FSM's next request is taken instead -/
theorem sinv_coll_recv {s : PState} (h : SInv s) {i : Dir} {t ot : Trans} {rest : List Instr}
    (ht : s.todo = .collSel i t :: rest) (ho : (s.f i.other).pc = .req ot) :
    SInv ({ s with todo := (if ot.to = St.established then [Instr.disableLog i, .handle i.other ot]
                   else [Instr.sendT i t, .handle i.other ot]) ++ rest }.setF i.other { s.f i.other with pc := .wait ot }) := by
  have hp : s.present i.other = true := h.present_of_pc _ (by rw [ho]; simp)
  have hx := h.x i.other
  rw [hp] at hx
  have hot : ot.to ≠ .disabled := by
    have := (h.t i.other).disReq
    rw [ho, ht] at this
    simpa using this
  obtain ⟨-, h2, h3, h4, h5, h6⟩ := hx
  have h1 : SInv (s.setF i.other { s.f i.other with pc := .wait ot }) :=
    sinv_fstep (l := .tau) h i.other hp
      ⟨⟨by simp, by simp, by simp, fun e => by simp [ho] at h4; simp [h4] at e, by simp, by simp⟩, rfl, rfl,
        fun e => by simp at e⟩ (by simp)
  rw [setF_todo_comm]
  have htg := h1.tg; have hto := h1.to; have htn := h1.tn
  have ht1 : (s.setF i.other { s.f i.other with pc := .wait ot }).todo = .collSel i t :: rest := by simpa using ht
  rw [ht1] at htg hto htn
  have hnf := not_fin_of_head htg (by simp) (by simp) (by simp)
  have hpd := not_pdone_of_todo htg
  have hok : t.to ≠ .disabled ∧ t.to ≠ .established := by simpa using htg.okT _ (List.mem_cons_self ..)
  have hokr : ∀ ins ∈ rest, okT ins := fun ins hi => htg.okT ins (List.mem_cons_of_mem _ hi)
  split
  · refine sinv_todo' h1 (hto.quiet (by simp) (by simp) (by simp) (by simp)) (htn.quiet (by simp) (by simp) (by simp) (by simp))
      ⟨by simpa [hot] using hokr, fun e => absurd (by simpa using e) hnf, fun e => by (rw [hpd] at e; cases e),
        ⟨by simp, chain_swap htg.chain (by simp)⟩⟩
  · refine sinv_todo' h1 (hto.quiet (by simp) (by simp) (by simp [hok.2]) (by simp)) (htn.quiet (by simp) (by simp) (by simp [hok.2]) (by simp))
      ⟨by simpa [hot, hok.1] using hokr, fun e => absurd (by simpa using e) hnf, fun e => by (rw [hpd] at e; cases e),
        ⟨by simp, chain_swap htg.chain (by simp)⟩⟩

/-- the deferred `close(doneCh)` -/
theorem sinv_finish {s : PState} (h : SInv s) {rest : List Instr} (ht : s.todo = .finish :: rest) :
    SInv { s with todo := rest, pdone := true, timerArmed := false } := by
  have htg := h.tg; have hto := h.to; have htn := h.tn
  rw [ht] at htg hto htn
  obtain ⟨hpc, hsh⟩ := htg.fin (List.mem_cons_self ..)
  simp only [finShape, List.cons.injEq] at hsh
  rcases hsh with ⟨hj, -⟩ | ⟨hj, -⟩ | ⟨hpo, ⟨hj, -⟩ | ⟨hj, -⟩ | ⟨hpi, -, rfl⟩⟩ <;> try cases hj
  exact sinv_todo (pc := s.pclosed) (hd := s.holdDown) h (hto.pop htg.chain (by simp)) (htn.pop htg.chain (by simp))
    ⟨by simp, by simp, fun _ => ⟨hpc, rfl, hpo, hpi⟩, by simp⟩

theorem sinv_pInstr {s s' : PState} {l : Label} {ins : Instr} {rest : List Instr} (h : SInv s)
    (ht : s.todo = ins :: rest) (hm : (l, s') ∈ pInstr s ins rest) : SInv s' := by
  cases ins with
  | logT i f t =>
    simp only [pInstr, List.mem_singleton, Prod.mk.injEq] at hm
    obtain ⟨-, rfl⟩ := hm
    exact sinv_pop h ht (by simp) (by simp) (by simp)
  | logErr i =>
    simp only [pInstr, List.mem_singleton, Prod.mk.injEq] at hm
    obtain ⟨-, rfl⟩ := hm
    exact sinv_pop h ht (by simp) (by simp) (by simp)
  | handle i t =>
    simp only [pInstr, List.mem_singleton, Prod.mk.injEq] at hm
    obtain ⟨-, rfl⟩ := hm
    exact sinv_handle h ht
  | sendT i t =>
    simp only [pInstr, List.mem_append] at hm
    rcases hm with hm | hm
    · split at hm
      · rename_i t0 hw
        simp only [List.mem_singleton, Prod.mk.injEq] at hm
        obtain ⟨-, rfl⟩ := hm
        have hok : t.to ≠ .disabled := by
          have := h.tg.okT (.sendT i t) (by rw [ht]; exact List.mem_cons_self ..)
          simpa using this
        rw [if_neg hok]
        exact sinv_echo h ht hw
      · simp at hm
    · split at hm
      · simp only [List.mem_singleton, Prod.mk.injEq] at hm
        obtain ⟨-, rfl⟩ := hm
        exact sinv_pop h ht (by simp) (by simp) (by simp)
      · simp at hm
  | disableLog i =>
    simp only [pInstr] at hm
    split at hm
    · rename_i hp
      simp only [List.mem_singleton, Prod.mk.injEq] at hm
      obtain ⟨-, rfl⟩ := hm
      refine sinv_pop h ht (by simp) (by simp) (fun j e => ?_)
      injection e with e; subst e; simpa using hp
    · rename_i hp
      simp only [List.mem_singleton, Prod.mk.injEq] at hm
      obtain ⟨-, rfl⟩ := hm
      exact sinv_dL_present h ht (by simpa using hp)
  | disable i =>
    simp only [pInstr, List.mem_append] at hm
    rcases hm with hm | hm
    · split at hm
      · simp only [List.mem_singleton, Prod.mk.injEq] at hm
        obtain ⟨-, rfl⟩ := hm
        exact sinv_disable_close h ht
      · simp at hm
    · split at hm
      · rename_i hpc
        simp only [List.mem_singleton, Prod.mk.injEq] at hm
        obtain ⟨-, rfl⟩ := hm
        exact sinv_disable_join h ht hpc
      · simp at hm
  | enable i c =>
    simp only [pInstr] at hm
    split at hm
    · simp only [List.mem_singleton, Prod.mk.injEq] at hm
      obtain ⟨-, rfl⟩ := hm
      exact sinv_pop h ht (by simp) (by simp) (by simp)
    · rename_i hp
      simp only [List.mem_singleton, Prod.mk.injEq] at hm
      obtain ⟨-, rfl⟩ := hm
      have hp : s.present i = false := by
        simp only [not_or, Bool.not_eq_true] at hp
        exact hp.2
      have htg := h.tg
      rw [ht] at htg
      have h1 : SInv { s with todo := rest } := sinv_pop h ht (by simp) (by simp) (by simp)
      refine sinv_create (s := { s with todo := rest }) h1 (by cases i <;> exact hp) (by cases c <;> simp) ?_
        (not_fin_of_head htg (by simp) (by simp) (by simp)) (not_pdone_of_todo htg)
      intro e
      have := chain_sendEst htg.chain i e
      simp at this
  | collSel i t =>
    simp only [pInstr, List.mem_append] at hm
    rcases hm with (hm | hm) | hm
    · split at hm
      · simp only [List.mem_singleton, Prod.mk.injEq] at hm
        obtain ⟨-, rfl⟩ := hm
        exact sinv_pop h ht (by simp) (by simp) (by simp)
      · simp at hm
    · split at hm
      · rename_i hc
        simp only [Bool.and_eq_true] at hc
        simp only [List.mem_map] at hm
        obtain ⟨⟨l', y⟩, hy, he⟩ := hm
        simp only [Prod.mk.injEq] at he
        obtain ⟨-, rfl⟩ := he
        exact sinv_coll_kill h ht hy hc.1
      · simp at hm
    · split at hm
      · rename_i ot ho
        simp only [List.mem_singleton, Prod.mk.injEq] at hm
        obtain ⟨-, rfl⟩ := hm
        exact sinv_coll_recv h ht ho
      · simp at hm
  | damp =>
    simp only [pInstr, List.mem_singleton, Prod.mk.injEq] at hm
    obtain ⟨-, rfl⟩ := hm
    exact sinv_flags (sinv_pop h ht (by simp) (by simp) (by simp)) true true
  | finish =>
    simp only [pInstr, List.mem_singleton, Prod.mk.injEq] at hm
    obtain ⟨-, rfl⟩ := hm
    exact sinv_finish h ht

theorem sinv_next {s s' : PState} {l : Label} (h : SInv s) (hm : (l, s') ∈ next s) : SInv s' := by
  simp only [next, List.mem_append] at hm
  rcases hm with (((hm | hm) | hm) | hm) | hm
  · split at hm
    · rename_i ht
      exact sinv_pMain h ht hm
    · rename_i ins rest ht
      exact sinv_pInstr h ht hm
  · exact sinv_fSteps h _ hm
  · exact sinv_fSteps h _ hm
  · split at hm
    · simp only [List.mem_singleton, Prod.mk.injEq] at hm
      obtain ⟨-, rfl⟩ := hm
      exact sinv_apiStop h
    · simp at hm
  · exact sinv_rsend h hm

theorem sinv_reachable {d p : Bool} {s : PState} (h : PReach d p s) : SInv s := by
  induction h with
  | init => exact sinv_init d p
  | step _ hm ih => exact sinv_next ih hm

/-! ## consequences used by the shutdown properties -/

/-- an FSM that exists, has not finished and whose `closeCh` is closed can move towards finishing -/
theorem fOnClose_progress (i : Dir) (x : F) (h1 : x.pc ≠ .absent) (h2 : x.pc ≠ .done) (h3 : x.pc ≠ .run .disabled) :
    x.pc.listensClose = true ∧
    (fOnClose i x ++ (if x.pc = FPc.run St.established && !x.inEst then [(Label.onEstablished i, { x with inEst := true })] else [])) ≠ [] := by
  obtain ⟨pc, closed, conn, dialing, inEst, veto, inq⟩ := x
  cases pc with
  | absent => simp at h1
  | done => simp at h2
  | req t => simp [fOnClose, FPc.listensClose]
  | wait t => simp [fOnClose, FPc.listensClose]
  | errSend a b k => simp [fOnClose, FPc.listensClose]
  | run s0 => cases s0 <;> cases inEst <;> simp_all [fOnClose, FPc.listensClose]

/-- every instruction other than the `fsm.stop()` wait is executable once `p.closeCh` is closed -/
theorem pInstr_progress (s : PState) (ins : Instr) (rest : List Instr) (hc : s.pclosed = true)
    (hi : ∀ i, ins = .disable i → (s.f i).closed = false ∨ (s.f i).pc = .done) : pInstr s ins rest ≠ [] := by
  cases ins with
  | disable i =>
    rcases hi i rfl with h | h
    · simp [pInstr, h]
    · simp [pInstr, h]
  | disableLog i => simp only [pInstr]; split <;> simp
  | enable i c => simp only [pInstr]; split <;> simp
  | _ => simp [pInstr, hc]

end CoreBGP.Lemmas.PeerStop

