import CoreBGP.Model.Packet
import CoreBGP.Model.Reader
import CoreBGP.Model.Update
import CoreBGP.Spec.Wire
import CoreBGP.Spec.Update
/-! Helper lemmas (never property statements). -/
namespace CoreBGP.Lemmas
open CoreBGP CoreBGP.Model

/-! ## small arithmetic / byte facts -/

theorem u8_ofNat_eq_of_mod (a b : Nat) (h : a % 256 = b % 256) : UInt8.ofNat a = UInt8.ofNat b := by
  apply UInt8.toNat_inj.mp
  simp only [UInt8.toNat_ofNat']
  exact h

theorem u8_ofNat_toNat (x : UInt8) : UInt8.ofNat x.toNat = x := by
  apply UInt8.toNat_inj.mp
  simp only [UInt8.toNat_ofNat']
  exact Nat.mod_eq_of_lt x.toNat_lt

theorem testBit_eq (n k : Nat) : n.testBit k = decide (n / 2^k % 2 = 1) := by
  simp only [Nat.testBit, Nat.shiftRight_eq_div_pow, Nat.one_and_eq_mod_two]
  by_cases h : n / 2^k % 2 = 1 <;> simp [h]

theorem prop_eq_bool (P : Prop) [Decidable P] (o : Bool) : (P = (o = true)) ↔ (decide P = o) := by
  cases o <;> by_cases h : P <;> simp [h]

theorem be32Bytes_be32 (a b c d : UInt8) : be32Bytes (be32 a b c d) = [a, b, c, d] := by
  have ha := a.toNat_lt
  have hb := b.toNat_lt
  have hc := c.toNat_lt
  have hd := d.toNat_lt
  simp only [be32Bytes, be32, UInt32.toNat_ofNat']
  congr 1
  · conv => rhs; rw [← u8_ofNat_toNat a]
    apply u8_ofNat_eq_of_mod; omega
  congr 1
  · conv => rhs; rw [← u8_ofNat_toNat b]
    apply u8_ofNat_eq_of_mod; omega
  congr 1
  · conv => rhs; rw [← u8_ofNat_toNat c]
    apply u8_ofNat_eq_of_mod; omega
  congr 1
  · conv => rhs; rw [← u8_ofNat_toNat d]
    apply u8_ofNat_eq_of_mod; omega

/-! ## flags -/

theorem notifData_eq (code : UInt8) (v : Bytes) :
    notifDataForAttrBasedErr code v = Spec.attrErrData code v := by
  unfold notifDataForAttrBasedErr Spec.attrErrData
  congr 2
  split
  · simp only [be16Bytes, len16, Spec.u16, UInt16.toNat_ofNat']
    congr 1
    · apply u8_ofNat_eq_of_mod; omega
    · congr 1; apply u8_ofNat_eq_of_mod; omega
  · rfl

theorem validateFlags_conflict (flags code : UInt8) (v : Bytes) (o t : Bool)
    (h : flagOptional flags ≠ o ∨ flagTransitive flags ≠ t) :
    validateFlags flags code v o t = some (.taw code (some ⟨3, 4, Spec.attrErrData code v⟩)) := by
  unfold validateFlags
  rw [if_pos h, notifData_eq]
  rfl

theorem validateFlags_ok (flags code : UInt8) (v : Bytes) (o t : Bool)
    (h1 : flagOptional flags = o) (h2 : flagTransitive flags = t) :
    validateFlags flags code v o t = none := by
  unfold validateFlags
  rw [if_neg]
  simp [h1, h2]

theorem attrLenBad_eq (code : UInt8) (v : Bytes) :
    attrLenBad code v = ⟨3, 5, Spec.attrErrData code v⟩ := by
  unfold attrLenBad
  rw [notifData_eq]
  rfl

/-! ## list-valued attributes -/

theorem u32set_go_rt : ∀ (b : Bytes), b.length % 4 = 0 →
    ∃ l, decodeUint32Set.go b = some l ∧ (l.map be32Bytes).flatten = b
  | [], _ => ⟨[], rfl, rfl⟩
  | [_], h => by simp at h
  | [_, _], h => by simp at h
  | [_, _, _], h => by simp at h
  | a :: b :: c :: d :: rest, h => by
    have h' : rest.length % 4 = 0 := by simp only [List.length_cons] at h; omega
    obtain ⟨l, hl, hf⟩ := u32set_go_rt rest h'
    refine ⟨be32 a b c d :: l, by simp [decodeUint32Set.go, hl], ?_⟩
    simp only [List.map_cons, List.flatten_cons, be32Bytes_be32, hf]
    rfl

theorem u32set_eq_go (b : Bytes) (h : b ≠ []) : decodeUint32Set b = decodeUint32Set.go b := by
  unfold decodeUint32Set
  split
  · exact absurd rfl h
  · rfl

theorem chunks4_rt : ∀ (b : Bytes), b.length % 4 = 0 →
    (chunks4 b).flatten = b ∧ ∀ a ∈ chunks4 b, a.length = 4
  | [], _ => ⟨rfl, by simp [chunks4]⟩
  | [_], h => by simp at h
  | [_, _], h => by simp at h
  | [_, _, _], h => by simp at h
  | a :: b :: c :: d :: rest, h => by
    have h' : rest.length % 4 = 0 := by simp only [List.length_cons] at h; omega
    obtain ⟨h1, h2⟩ := chunks4_rt rest h'
    simp only [chunks4, List.flatten_cons, h1, List.mem_cons]
    refine ⟨rfl, ?_⟩
    intro x hx
    rcases hx with rfl | hx
    · rfl
    · exact h2 x hx

theorem exists_cons12 {α} (b : List α) (h : 12 ≤ b.length) :
    ∃ a1 a2 a3 a4 a5 a6 a7 a8 a9 a10 a11 a12 rest,
      b = a1 :: a2 :: a3 :: a4 :: a5 :: a6 :: a7 :: a8 :: a9 :: a10 :: a11 :: a12 :: rest := by
  rcases b with _ | ⟨a1, _ | ⟨a2, _ | ⟨a3, _ | ⟨a4, _ | ⟨a5, _ | ⟨a6, _ | ⟨a7, _ | ⟨a8, _ | ⟨a9, _ | ⟨a10, _ | ⟨a11, _ | ⟨a12, rest⟩⟩⟩⟩⟩⟩⟩⟩⟩⟩⟩⟩
  all_goals first
    | exact ⟨_, _, _, _, _, _, _, _, _, _, _, _, _, rfl⟩
    | (simp only [List.length_cons, List.length_nil] at h; omega)

def lcWire (x : UInt32 × UInt32 × UInt32) : Bytes :=
  be32Bytes x.1 ++ be32Bytes x.2.1 ++ be32Bytes x.2.2

theorem largeComms_rt : ∀ (n : Nat) (b : Bytes), b.length = 12 * n →
    ((largeComms b).map lcWire).flatten = b := by
  intro n
  induction n with
  | zero =>
    intro b h
    have : b = [] := List.eq_nil_of_length_eq_zero (by omega)
    subst this; rfl
  | succ n ih =>
    intro b h
    obtain ⟨a1, a2, a3, a4, a5, a6, a7, a8, a9, a10, a11, a12, rest, rfl⟩ := exists_cons12 b (by omega)
    have h' : rest.length = 12 * n := by simp only [List.length_cons] at h; omega
    simp only [largeComms, List.map_cons, List.flatten_cons, ih rest h', lcWire, be32Bytes_be32]
    rfl

/-! ## AS_PATH -/

theorem be32_toNat (a b c d : UInt8) : (be32 a b c d).toNat = Spec.n32 a b c d := by
  have ha := a.toNat_lt
  have hb := b.toNat_lt
  have hc := c.toNat_lt
  have hd := d.toNat_lt
  simp only [be32, Spec.n32, UInt32.toNat_ofNat']
  omega

theorem u32set_go_words : ∀ (b : Bytes) (l : List UInt32), decodeUint32Set.go b = some l →
    l.map (·.toNat) = Spec.asPathSegs.words b
  | [], l, h => by
    simp only [decodeUint32Set.go, Option.some.injEq] at h
    subst h; rfl
  | [_], l, h => by simp [decodeUint32Set.go] at h
  | [_, _], l, h => by simp [decodeUint32Set.go] at h
  | [_, _, _], l, h => by simp [decodeUint32Set.go] at h
  | a :: b :: c :: d :: rest, l, h => by
    simp only [decodeUint32Set.go, Option.map_eq_some_iff] at h
    obtain ⟨l', hl', rfl⟩ := h
    simp only [List.map_cons, Spec.asPathSegs.words, be32_toNat, u32set_go_words rest l' hl']

/-- the segment grammar only accepts values of even length that are empty or ≥ 6 long -/
theorem asPathSegs_len : ∀ (sfuel : Nat) (b : Bytes) (segs : List (UInt8 × List Nat)),
    Spec.asPathSegs sfuel b = some segs → b.length % 2 = 0 ∧ (b.length = 0 ∨ 6 ≤ b.length) := by
  intro sfuel
  induction sfuel with
  | zero =>
    intro b segs h
    cases b with
    | nil => simp
    | cons a b => simp [Spec.asPathSegs] at h
  | succ sfuel ih =>
    intro b segs h
    match b, h with
    | [], _ => simp
    | [_], h => simp [Spec.asPathSegs] at h
    | t :: n :: rest, h =>
      simp only [Spec.asPathSegs] at h
      split at h
      · simp at h
      · rename_i hc
        simp only [Option.map_eq_some_iff] at h
        obtain ⟨segs', hs, _⟩ := h
        have := ih _ _ hs
        have hn : n.toNat ≠ 0 := by
          intro h0
          apply hc
          right; left
          apply UInt8.toNat_inj.mp
          simpa using h0
        simp only [List.length_drop, List.length_cons] at this ⊢
        omega

def asPathRel (acc p : ASPath) (segs : List (UInt8 × List Nat)) : Prop :=
  p.asSet.map (·.toNat) = acc.asSet.map (·.toNat) ++ (segs.filter (·.1 = 1)).flatMap (·.2) ∧
  p.asSequence.map (·.toNat) = acc.asSequence.map (·.toNat) ++ (segs.filter (·.1 = 2)).flatMap (·.2)

def asPathErr (e : Err) : Prop := ∃ n, e = .taw 2 (some n) ∧ n.code = 3 ∧ (n.sub = 5 ∨ n.sub = 11)

theorem asPathErr_malformed : asPathErr asPathMalformed := ⟨_, rfl, rfl, Or.inr rfl⟩

theorem asPathErr_len (b : Bytes) : asPathErr (.taw Gen.PATH_ATTR_AS_PATH (some (attrLenBad Gen.PATH_ATTR_AS_PATH b))) :=
  ⟨_, rfl, rfl, Or.inl rfl⟩

theorem asPathLoop_spec : ∀ (fuel : Nat) (b : Bytes) (acc : ASPath) (sfuel : Nat),
    b.length < fuel → b.length ≤ sfuel →
    match decodeASPathLoop fuel b acc with
    | .ok p => ∃ segs, Spec.asPathSegs sfuel b = some segs ∧ asPathRel acc p segs
    | .error e => Spec.asPathSegs sfuel b = none ∧ asPathErr e := by
  intro fuel
  induction fuel with
  | zero => intro b acc sfuel h; omega
  | succ fuel ih =>
    intro b acc sfuel hf hs
    unfold decodeASPathLoop
    by_cases h0 : b.length = 0
    · have : b = [] := List.eq_nil_of_length_eq_zero h0
      subst this
      simp [Spec.asPathSegs, asPathRel]
    · rw [if_neg h0]
      by_cases h6 : b.length < 6 ∨ b.length % 2 ≠ 0
      · rw [if_pos h6]
        refine ⟨?_, asPathErr_len b⟩
        cases hsp : Spec.asPathSegs sfuel b with
        | none => rfl
        | some segs => have := asPathSegs_len _ _ _ hsp; omega
      · rw [if_neg h6]
        match b, hf, hs, h0, h6 with
        | [], _, _, h0, _ => simp at h0
        | [_], _, _, _, h6 => simp at h6
        | t :: n :: rest, hf, hs, _, h6 =>
          match sfuel, hs with
          | 0, hs => simp at hs
          | sfuel + 1, hs =>
          simp only [List.length_cons] at hf hs h6
          simp only [Spec.asPathSegs]
          by_cases hn : n.toNat * 4 = 0
          · simp only [hn, if_true]
            refine ⟨?_, asPathErr_malformed⟩
            have : n = 0 := by
              apply UInt8.toNat_inj.mp
              simp; omega
            simp [this]
          · have hn' : n ≠ 0 := by
              intro h; subst h; simp at hn
            simp only [hn, if_false]
            by_cases hr : rest.length < n.toNat * 4
            · simp only [hr, if_true]
              refine ⟨?_, asPathErr_malformed⟩
              have : rest.length < 4 * n.toNat := by omega
              simp [this]
            · have hr' : ¬ rest.length < 4 * n.toNat := by omega
              simp only [hr, if_false]
              have hlt : (rest.take (n.toNat * 4)).length = n.toNat * 4 := by
                rw [List.length_take]; omega
              have htake : (rest.take (n.toNat * 4)).length % 4 = 0 := by
                omega
              have hne : rest.take (n.toNat * 4) ≠ [] := by
                intro h
                rw [h] at hlt
                simp at hlt; omega
              obtain ⟨l, hl, _⟩ := u32set_go_rt _ htake
              rw [u32set_eq_go _ hne, hl]
              have hw := u32set_go_words _ _ hl
              simp only
              have hdl : (rest.drop (n.toNat * 4)).length < fuel := by
                rw [List.length_drop]; omega
              have hds : (rest.drop (n.toNat * 4)).length ≤ sfuel := by
                rw [List.length_drop]; omega
              rw [Nat.mul_comm 4 n.toNat]
              by_cases ht1 : t = 1
              · subst ht1
                have hcond : ¬ (((1 : UInt8) ≠ 1 ∧ (1 : UInt8) ≠ 2) ∨ n = 0 ∨ rest.length < n.toNat * 4) := by
                  simp [hn', hr]
                simp only [if_true]
                rw [if_neg hcond]
                have := ih (rest.drop (n.toNat * 4)) { acc with asSet := acc.asSet ++ l } sfuel hdl hds
                generalize decodeASPathLoop fuel _ _ = r at this ⊢
                cases r with
                | error e =>
                  simp only at this ⊢
                  exact ⟨by rw [this.1]; rfl, this.2⟩
                | ok p =>
                  simp only at this ⊢
                  obtain ⟨segs, hs1, hs2, hs3⟩ := this
                  refine ⟨_, by rw [hs1]; rfl, ?_, ?_⟩
                  · simp only [hs2, List.map_append, hw]
                    simp
                  · simp only [hs3]
                    simp
              · by_cases ht2 : t = 2
                · subst ht2
                  have hcond : ¬ (((2 : UInt8) ≠ 1 ∧ (2 : UInt8) ≠ 2) ∨ n = 0 ∨ rest.length < n.toNat * 4) := by
                    simp [hn', hr]
                  simp only [ht1, if_true, if_false]
                  rw [if_neg hcond]
                  have := ih (rest.drop (n.toNat * 4)) { acc with asSequence := acc.asSequence ++ l } sfuel hdl hds
                  generalize decodeASPathLoop fuel _ _ = r at this ⊢
                  cases r with
                  | error e =>
                    simp only at this ⊢
                    exact ⟨by rw [this.1]; rfl, this.2⟩
                  | ok p =>
                    simp only at this ⊢
                    obtain ⟨segs, hs1, hs2, hs3⟩ := this
                    refine ⟨_, by rw [hs1]; rfl, ?_, ?_⟩
                    · simp only [hs2]
                      simp
                    · simp only [hs3, List.map_append, hw]
                      simp
                · simp only [ht1, ht2, if_false]
                  refine ⟨?_, asPathErr_malformed⟩
                  rw [if_pos (Or.inl ⟨ht1, ht2⟩)]

/-! ## prefixes and MP attributes (C19) -/

theorem slice0 (b : Bytes) (n : Nat) (h : n ≤ b.length) : slice? b 0 n = some (b.take n) := by
  unfold slice?
  rw [if_pos ⟨Nat.zero_le _, h⟩]
  simp

theorem sliceFrom_le (b : Bytes) (n : Nat) (h : n ≤ b.length) : sliceFrom? b n = some (b.drop n) := by
  unfold sliceFrom?
  rw [if_pos h]

def maxBits (ipv6 : Bool) : Nat := if ipv6 then 128 else 32

/-- `pad` of `Props/C19.lean`, restated on the components -/
def padPfx (ipv6 : Bool) (bits : Nat) (addr : Bytes) : Prefix :=
  ⟨UInt8.ofNat bits, addr ++ List.replicate ((if ipv6 then 16 else 4) - addr.length) 0⟩

theorem octets_toNat (bl : UInt8) (h : bl.toNat ≤ 128) : ((bl + 7) / 8).toNat = (bl.toNat + 7) / 8 := by
  rw [UInt8.toNat_div, UInt8.toNat_add]
  have h7 : (7 : UInt8).toNat = 7 := rfl
  have h8 : (8 : UInt8).toNat = 8 := rfl
  rw [h7, h8]
  omega

theorem decodePrefix_cons (ipv6 : Bool) (l : UInt8) (r : Bytes) :
    decodePrefix (l :: r) ipv6 =
      if l.toNat > maxBits ipv6 ∨ r.length < (l.toNat + 7) / 8 then none
      else some (padPfx ipv6 l.toNat (r.take ((l.toNat + 7) / 8)), r.drop ((l.toNat + 7) / 8)) := by
  unfold decodePrefix
  simp only
  cases ipv6
  · simp only [maxBits, Bool.not_false, Bool.true_and, Bool.false_and, Bool.or_false,
      Bool.false_eq_true, if_false, decide_eq_true_eq]
    by_cases h : l > 32
    · have h' : l.toNat > 32 := by simpa [UInt8.lt_iff_toNat_lt] using h
      rw [if_pos h, if_pos (Or.inl h')]
    · have h' : ¬ l.toNat > 32 := by simpa [UInt8.lt_iff_toNat_lt] using h
      rw [if_neg h, octets_toNat l (by omega)]
      by_cases hr : r.length < (l.toNat + 7) / 8
      · rw [if_pos hr, if_pos (Or.inr hr)]
      · rw [if_neg hr, if_neg (by omega), if_neg (by omega)]
        simp only [padPfx, u8_ofNat_toNat, List.length_take, Bool.false_eq_true, if_false]
        rw [Nat.min_eq_left (by omega)]
  · simp only [maxBits, Bool.not_true, Bool.true_and, Bool.false_and, Bool.false_or,
      if_true, decide_eq_true_eq]
    by_cases h : l > 128
    · have h' : l.toNat > 128 := by simpa [UInt8.lt_iff_toNat_lt] using h
      rw [if_pos h, if_pos (Or.inl h')]
    · have h' : ¬ l.toNat > 128 := by simpa [UInt8.lt_iff_toNat_lt] using h
      rw [if_neg h, octets_toNat l (by omega)]
      by_cases hr : r.length < (l.toNat + 7) / 8
      · rw [if_pos hr, if_pos (Or.inr hr)]
      · rw [if_neg hr, if_neg (by omega), if_neg (by omega)]
        simp only [padPfx, u8_ofNat_toNat, List.length_take, if_true]
        rw [Nat.min_eq_left (by omega)]

theorem prefixesLoop_spec (ipv6 : Bool) : ∀ (fuel : Nat) (b : Bytes) (acc : List Prefix) (sfuel : Nat),
    b.length < fuel → b.length ≤ sfuel →
    decodePrefixesLoop fuel b ipv6 acc =
      (Spec.parsePfxs (maxBits ipv6) false sfuel b).map
        (fun ps => acc ++ ps.map (fun q => padPfx ipv6 q.bits q.addr)) := by
  intro fuel
  induction fuel with
  | zero => intro b acc sfuel h; omega
  | succ fuel ih =>
    intro b acc sfuel hf hs
    unfold decodePrefixesLoop
    match b, hf, hs with
    | [], _, _ => simp [Spec.parsePfxs]
    | l :: r, hf, hs =>
      match sfuel, hs with
      | 0, hs => simp at hs
      | sfuel + 1, hs =>
        simp only [List.length_cons] at hf hs
        rw [if_neg (by simp), decodePrefix_cons]
        simp only [Spec.parsePfxs]
        by_cases hc : l.toNat > maxBits ipv6 ∨ r.length < (l.toNat + 7) / 8
        · rw [if_pos hc]
          simp [hc]
        · rw [if_neg hc]
          simp only [Bool.false_eq_true, if_false, hc]
          rw [ih _ _ sfuel (by rw [List.length_drop]; omega) (by rw [List.length_drop]; omega)]
          cases Spec.parsePfxs (maxBits ipv6) false sfuel (List.drop ((l.toNat + 7) / 8) r) with
          | none => rfl
          | some ps => simp

theorem addPathLoop_spec (ipv6 : Bool) : ∀ (fuel : Nat) (b : Bytes) (acc : List AddPathPrefix) (sfuel : Nat),
    b.length < fuel → b.length ≤ sfuel →
    decodeAddPathPrefixesLoop fuel b ipv6 acc =
      (Spec.parsePfxs (maxBits ipv6) true sfuel b).map
        (fun ps => acc ++ ps.map (fun q => ⟨UInt32.ofNat (q.id.getD 0), padPfx ipv6 q.bits q.addr⟩)) := by
  intro fuel
  induction fuel with
  | zero => intro b acc sfuel h; omega
  | succ fuel ih =>
    intro b acc sfuel hf hs
    unfold decodeAddPathPrefixesLoop
    match sfuel, b, hf, hs with
    | _, [], _, _ => simp [Spec.parsePfxs]
    | 0, _ :: _, _, hs => simp at hs
    | sfuel + 1, [_], _, _ => simp [Spec.parsePfxs]
    | sfuel + 1, [_, _], _, _ => simp [Spec.parsePfxs]
    | sfuel + 1, [_, _, _], _, _ => simp [Spec.parsePfxs]
    | sfuel + 1, [_, _, _, _], _, _ => simp [Spec.parsePfxs]
    | sfuel + 1, a :: b1 :: c :: d :: l :: r, hf, hs =>
        simp only [List.length_cons] at hf hs
        rw [if_neg (by simp)]
        simp only [decodePrefix_cons]
        simp only [Spec.parsePfxs]
        by_cases hc : l.toNat > maxBits ipv6 ∨ r.length < (l.toNat + 7) / 8
        · rw [if_pos hc]
          simp [hc]
        · rw [if_neg hc]
          simp only [if_true, hc, if_false]
          rw [ih _ _ sfuel (by rw [List.length_drop]; omega) (by rw [List.length_drop]; omega)]
          cases Spec.parsePfxs (maxBits ipv6) true sfuel (List.drop ((l.toNat + 7) / 8) r) with
          | none => rfl
          | some ps =>
            simp only [Option.map_some, List.map_cons, Option.getD_some, List.append_assoc,
              List.singleton_append, be32, Spec.n32]

theorem u32_n32_at (a b c d : UInt8) : Spec.u32 (Spec.n32 a b c d) = [a, b, c, d] := by
  have ha := a.toNat_lt
  have hb := b.toNat_lt
  have hc := c.toNat_lt
  have hd := d.toNat_lt
  simp only [Spec.u32, Spec.n32]
  congr 1
  · conv => rhs; rw [← u8_ofNat_toNat a]
    apply u8_ofNat_eq_of_mod; omega
  congr 1
  · conv => rhs; rw [← u8_ofNat_toNat b]
    apply u8_ofNat_eq_of_mod; omega
  congr 1
  · conv => rhs; rw [← u8_ofNat_toNat c]
    apply u8_ofNat_eq_of_mod; omega
  congr 1
  · conv => rhs; rw [← u8_ofNat_toNat d]
    apply u8_ofNat_eq_of_mod; omega

theorem n32_lt_at (a b c d : UInt8) : Spec.n32 a b c d < 4294967296 := by
  have ha := a.toNat_lt
  have hb := b.toNat_lt
  have hc := c.toNat_lt
  have hd := d.toNat_lt
  simp only [Spec.n32]
  omega

theorem n32_u32_at (i : Nat) (h : i < 4294967296) :
    Spec.n32 (UInt8.ofNat (i / 16777216)) (UInt8.ofNat (i / 65536 % 256)) (UInt8.ofNat (i / 256 % 256))
      (UInt8.ofNat (i % 256)) = i := by
  simp only [Spec.n32, UInt8.toNat_ofNat']
  omega

theorem wf_mk (mb : Nat) (addPath : Bool) (id : Option Nat) (bits : Nat) (addr : Bytes)
    (h1 : bits ≤ mb) (h2 : addr.length = (bits + 7) / 8) (h3 : id.isSome = addPath)
    (h4 : ∀ i, id = some i → i < 4294967296) : Spec.WellFormedPfx mb addPath ⟨id, bits, addr⟩ :=
  ⟨h1, h2, h3, h4⟩

theorem parsePfxs_tr (mb : Nat) (addPath : Bool) : ∀ (sfuel : Nat) (b : Bytes) (ps : List Spec.Pfx),
    Spec.parsePfxs mb addPath sfuel b = some ps →
    (ps.map Spec.pfxWire).flatten = b ∧ ∀ p ∈ ps, Spec.WellFormedPfx mb addPath p := by
  intro sfuel
  induction sfuel with
  | zero =>
    intro b ps h
    cases b with
    | nil => simp only [Spec.parsePfxs, Option.some.injEq] at h; subst h; simp
    | cons x xs => simp [Spec.parsePfxs] at h
  | succ sfuel ih =>
    intro b ps h
    cases b with
    | nil => simp only [Spec.parsePfxs, Option.some.injEq] at h; subst h; simp
    | cons x xs =>
      simp only [Spec.parsePfxs] at h
      cases addPath with
      | false =>
        simp only [Bool.false_eq_true, if_false] at h
        split at h
        · simp at h
        · rename_i hc
          simp only [Option.map_eq_some_iff] at h
          obtain ⟨ps', hps', rfl⟩ := h
          obtain ⟨h1, h2⟩ := ih _ _ hps'
          constructor
          · simp only [List.map_cons, List.flatten_cons, h1, Spec.pfxWire, u8_ofNat_toNat,
              List.nil_append, List.cons_append, List.take_append_drop]
          · intro p hp
            rcases List.mem_cons.mp hp with rfl | hp
            · refine wf_mk _ _ _ _ _ (by omega) ?_ rfl (by simp)
              simp only [List.length_take]
              omega
            · exact h2 p hp
      | true =>
        simp only [if_true] at h
        match xs, h with
        | [], h => simp at h
        | [_], h => simp at h
        | [_, _], h => simp at h
        | [_, _, _], h => simp at h
        | b1 :: c :: d :: l :: r, h =>
          simp only at h
          split at h
          · simp at h
          · rename_i hc
            simp only [Option.map_eq_some_iff] at h
            obtain ⟨ps', hps', rfl⟩ := h
            obtain ⟨h1, h2⟩ := ih _ _ hps'
            constructor
            · simp only [List.map_cons, List.flatten_cons, h1, Spec.pfxWire, u8_ofNat_toNat, u32_n32_at,
                List.nil_append, List.cons_append, List.take_append_drop]
            · intro p hp
              rcases List.mem_cons.mp hp with rfl | hp
              · refine wf_mk _ _ _ _ _ (by omega) ?_ rfl ?_
                · simp only [List.length_take]
                  omega
                · intro i hi
                  simp only [Option.some.injEq] at hi
                  subst hi
                  exact n32_lt_at _ _ _ _
              · exact h2 p hp

theorem parsePfxs_rt (mb : Nat) (hmb : mb ≤ 128) (addPath : Bool) : ∀ (ps : List Spec.Pfx) (sfuel : Nat),
    (∀ p ∈ ps, Spec.WellFormedPfx mb addPath p) →
    (ps.map Spec.pfxWire).flatten.length ≤ sfuel →
    Spec.parsePfxs mb addPath sfuel (ps.map Spec.pfxWire).flatten = some ps := by
  intro ps
  induction ps with
  | nil => intro sfuel _ _; simp [Spec.parsePfxs]
  | cons p ps ih =>
    intro sfuel hwf hs
    obtain ⟨id, bits, addr⟩ := p
    obtain ⟨hb, ha, hid, hlt⟩ := hwf _ (List.mem_cons_self)
    simp only at hb ha hid hlt
    have hwf' : ∀ p ∈ ps, Spec.WellFormedPfx mb addPath p := fun p hp => hwf p (List.mem_cons_of_mem _ hp)
    have hbits : (UInt8.ofNat bits).toNat = bits := by
      simp only [UInt8.toNat_ofNat']; omega
    cases addPath with
    | false =>
      have : id = none := by cases id <;> simp_all
      subst this
      simp only [List.map_cons, List.flatten_cons, Spec.pfxWire, List.nil_append, List.cons_append,
        List.length_cons, List.length_append] at hs ⊢
      match sfuel, hs with
      | sfuel + 1, hs =>
        simp only [Spec.parsePfxs, Bool.false_eq_true, if_false, hbits]
        rw [if_neg (by simp only [List.length_append]; omega)]
        rw [← ha, List.drop_left, List.take_left, ih sfuel hwf' (by omega)]
        rfl
    | true =>
      match id, hid, hlt with
      | some i, _, hlt =>
      have hi : i < 4294967296 := hlt i rfl
      simp only [List.map_cons, List.flatten_cons, Spec.pfxWire, Spec.u32, List.nil_append, List.cons_append,
        List.length_cons, List.length_append] at hs ⊢
      match sfuel, hs with
      | sfuel + 1, hs =>
        simp only [Spec.parsePfxs, if_true, hbits, n32_u32_at i hi]
        rw [if_neg (by simp only [List.length_append]; omega)]
        rw [← ha, List.drop_left, List.take_left, ih sfuel hwf' (by omega)]
        rfl

end CoreBGP.Lemmas
