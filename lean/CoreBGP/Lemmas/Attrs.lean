import CoreBGP.Model.Packet
import CoreBGP.Model.Reader
import CoreBGP.Model.Update
import CoreBGP.Spec.Wire
import CoreBGP.Spec.Update
/-! Helper lemmas (never property statements). -/
namespace CoreBGP.Lemmas
open CoreBGP CoreBGP.Model

end CoreBGP.Lemmas
