import CoreBGP.Model.Writer
/-!
# Helper lemmas for the keepalive-manager / `WriteUpdate` protocol model (`Model/Writer.lean`)

One inductive invariant `WInv n`, holding in `wInit n` and preserved by every step of `wnext`.
-/
namespace CoreBGP.Lemmas.Writer
open CoreBGP CoreBGP.Model

/-- the inductive invariant of the E / K / W₁…Wₙ protocol -/
def WInv (n : Nat) (s : WState) : Prop :=
  s.ws.length = n ∧
  (s.k = .done → s.closed = true) ∧
  (s.closed = true ↔ (s.e = .exited ∨ s.e = .done)) ∧
  (s.e = .done → s.k = .done)

/-- the three parts of `wnext` -/
def eSteps (s : WState) : List WState :=
  match s.e with
  | .loop =>
    [ { s with e := .sendReset },
      { s with e := .inCallback .idle },
      { s with e := .exited, closed := true } ]
  | .sendReset => if s.k = .select_ then [{ s with e := .loop }] else []
  | .inCallback .idle => [ { s with e := .loop }, { s with e := .inCallback .checked } ]
  | .inCallback .checked => [ { s with e := .inCallback .written, wrote := s.wrote + 1 } ]
  | .inCallback .written => if s.k = .select_ then [{ s with e := .inCallback .idle }] else []
  | .exited => if s.k = .done then [{ s with e := .done }] else []
  | .done => []

def kSteps (s : WState) : List WState :=
  if s.k = .select_ && s.closed then [{ s with k := .done }] else []

def wStep (s : WState) (j : Nat) : List WState :=
  match s.ws.getD j .idle with
  | .idle => if s.closed then [] else [{ s with ws := setW s.ws j .checked }]
  | .checked => [{ s with ws := setW s.ws j .written, wrote := s.wrote + 1 }]
  | .written =>
    (if s.closed then [{ s with ws := setW s.ws j .idle }] else []) ++
    (if s.k = .select_ then [{ s with ws := setW s.ws j .idle }] else [])

theorem wnext_eq (s : WState) :
    wnext s = eSteps s ++ kSteps s ++ (List.range s.ws.length).flatMap (wStep s) := rfl

theorem mem_wnext {s s' : WState} :
    s' ∈ wnext s ↔ s' ∈ eSteps s ∨ s' ∈ kSteps s ∨ ∃ j, j < s.ws.length ∧ s' ∈ wStep s j := by
  rw [wnext_eq]
  simp only [List.mem_append, List.mem_flatMap, List.mem_range, or_assoc]

/-- a writer step changes only `ws` (at position `j`, keeping the length) and `wrote` -/
theorem wStep_shape {s s' : WState} {j : Nat} (h : s' ∈ wStep s j) :
    ∃ w, s'.ws = s.ws.set j w ∧ s'.e = s.e ∧ s'.k = s.k ∧ s'.closed = s.closed := by
  unfold wStep at h
  split at h
  · split at h
    · simp at h
    · simp only [List.mem_singleton] at h; subst h; exact ⟨_, rfl, rfl, rfl, rfl⟩
  · simp only [List.mem_singleton] at h; subst h; exact ⟨_, rfl, rfl, rfl, rfl⟩
  · simp only [List.mem_append] at h
    rcases h with h | h <;> split at h <;> simp only [List.mem_singleton, List.not_mem_nil] at h <;>
      (subst h; exact ⟨_, rfl, rfl, rfl, rfl⟩)

theorem inv_init (n : Nat) : WInv n (wInit n) := by
  simp [WInv, wInit]

theorem inv_eStep {n : Nat} {s s' : WState} (hi : WInv n s) (h : s' ∈ eSteps s) : WInv n s' := by
  obtain ⟨e, k, ws, closed, wrote⟩ := s
  obtain ⟨h1, h2, h3, h4⟩ := hi
  simp only at h1 h2 h3 h4
  unfold eSteps at h
  simp only at h
  split at h
  · simp only [List.mem_cons, List.not_mem_nil, or_false] at h
    rcases h with h | h | h <;> subst h <;> simp_all [WInv]
  · split at h <;> simp only [List.mem_singleton, List.not_mem_nil] at h
    subst h; simp_all [WInv]
  · simp only [List.mem_cons, List.not_mem_nil, or_false] at h
    rcases h with h | h <;> subst h <;> simp_all [WInv]
  · simp only [List.mem_singleton] at h
    subst h; simp_all [WInv]
  · split at h <;> simp only [List.mem_singleton, List.not_mem_nil] at h
    subst h; simp_all [WInv]
  · split at h <;> simp only [List.mem_singleton, List.not_mem_nil] at h
    subst h; simp_all [WInv]
  · simp at h

theorem inv_kStep {n : Nat} {s s' : WState} (hi : WInv n s) (h : s' ∈ kSteps s) : WInv n s' := by
  obtain ⟨e, k, ws, closed, wrote⟩ := s
  obtain ⟨h1, h2, h3, h4⟩ := hi
  simp only at h1 h2 h3 h4
  unfold kSteps at h
  simp only at h
  split at h <;> simp only [List.mem_singleton, List.not_mem_nil] at h
  subst h
  simp_all [WInv]

theorem inv_wStep {n : Nat} {s s' : WState} {j : Nat} (hi : WInv n s) (h : s' ∈ wStep s j) :
    WInv n s' := by
  obtain ⟨w, hw, he, hk, hc⟩ := wStep_shape h
  obtain ⟨h1, h2, h3, h4⟩ := hi
  refine ⟨?_, ?_, ?_, ?_⟩
  · rw [hw, List.length_set]; exact h1
  · rw [hk, hc]; exact h2
  · rw [hc, he]; exact h3
  · rw [he, hk]; exact h4

theorem inv_step {n : Nat} {s s' : WState} (hi : WInv n s) (h : s' ∈ wnext s) : WInv n s' := by
  rcases mem_wnext.mp h with h | h | ⟨j, _, h⟩
  · exact inv_eStep hi h
  · exact inv_kStep hi h
  · exact inv_wStep hi h

theorem inv_reach {n : Nat} {s : WState} (h : WReach n s) : WInv n s := by
  induction h with
  | init => exact inv_init n
  | step _ hs ih => exact inv_step ih hs

theorem k_cases (k : KPc) : k = .select_ ∨ k = .done := by
  cases k <;> simp

/-- under the invariant, E always has a step unless it is `done`, or it is `exited` and K is still
running — in which case K has a step -/
theorem e_or_k_enabled {n : Nat} {s : WState} (hi : WInv n s) (he : s.e ≠ .done) :
    eSteps s ≠ [] ∨ kSteps s ≠ [] := by
  obtain ⟨e, k, ws, closed, wrote⟩ := s
  obtain ⟨h1, h2, h3, h4⟩ := hi
  simp only at h1 h2 h3 h4 he
  unfold eSteps kSteps
  simp only
  cases e with
  | loop => simp
  | sendReset => cases k <;> simp_all
  | inCallback w => cases w <;> cases k <;> simp_all
  | exited => cases k <;> simp_all
  | done => exact absurd rfl he

/-- a writer inside a call has a step once E is `done` (then `closed`) -/
theorem w_enabled {s : WState} {j : Nat} (hc : s.closed = true)
    (hw : s.ws.getD j .idle ≠ .idle) : wStep s j ≠ [] := by
  unfold wStep
  split
  · contradiction
  · simp
  · simp [hc]

theorem wnext_ne_nil_of_e {s : WState} (h : eSteps s ≠ []) : wnext s ≠ [] := by
  rw [wnext_eq]; simp [h]

theorem wnext_ne_nil_of_k {s : WState} (h : kSteps s ≠ []) : wnext s ≠ [] := by
  rw [wnext_eq]; simp [h]

theorem wnext_ne_nil_of_w {s : WState} {j : Nat} (hj : j < s.ws.length) (h : wStep s j ≠ []) :
    wnext s ≠ [] := by
  obtain ⟨x, hx⟩ := List.exists_mem_of_ne_nil _ h
  have : x ∈ wnext s := mem_wnext.mpr (Or.inr (Or.inr ⟨j, hj, hx⟩))
  exact List.ne_nil_of_mem this

/-- positions other than the one set are untouched; the set position, if `idle` while closed, has no step -/
theorem wStep_keeps_idle {s s' : WState} {j' : Nat} (hc : s.closed = true) (h : s' ∈ wStep s j')
    (j : Nat) (hj : s.ws.getD j .idle = .idle) : s'.ws.getD j .idle = .idle := by
  by_cases hjj : j' = j
  · subst hjj
    unfold wStep at h
    rw [hj] at h
    simp [hc] at h
  · obtain ⟨w, hw, -, -, -⟩ := wStep_shape h
    rw [hw]
    rw [List.getD_eq_getElem?_getD] at hj ⊢
    rw [List.getElem?_set_ne hjj]
    exact hj

theorem eSteps_ws {s s' : WState} (h : s' ∈ eSteps s) : s'.ws = s.ws := by
  unfold eSteps at h
  split at h
  · simp only [List.mem_cons, List.not_mem_nil, or_false] at h
    rcases h with h | h | h <;> subst h <;> rfl
  · split at h <;> simp only [List.mem_singleton, List.not_mem_nil] at h
    subst h; rfl
  · simp only [List.mem_cons, List.not_mem_nil, or_false] at h
    rcases h with h | h <;> subst h <;> rfl
  · simp only [List.mem_singleton] at h
    subst h; rfl
  · split at h <;> simp only [List.mem_singleton, List.not_mem_nil] at h
    subst h; rfl
  · split at h <;> simp only [List.mem_singleton, List.not_mem_nil] at h
    subst h; rfl
  · simp at h

theorem kSteps_ws {s s' : WState} (h : s' ∈ kSteps s) : s'.ws = s.ws := by
  unfold kSteps at h
  split at h <;> simp only [List.mem_singleton, List.not_mem_nil] at h
  subst h; rfl

end CoreBGP.Lemmas.Writer
