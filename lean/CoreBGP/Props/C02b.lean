import CoreBGP.Model.Session
import CoreBGP.Spec.Wire
import CoreBGP.Props.C02
/-!
# C02 (handshake half) — what the FSM does with an OPEN received in OpenSent
-/
namespace CoreBGP.Props.C02b
open CoreBGP.Props.C02
open CoreBGP CoreBGP.Model

def isOnOpen : Act → Bool | .onOpen _ _ => true | _ => false

/-- an acceptable OPEN to which the plugin consents: `OnOpenMessage` once with the sender's BGP
Identifier and exactly the capabilities carried, in order, byte-exact; a KEEPALIVE reply; state
OpenConfirm — and a later KEEPALIVE from the remote establishes the session -/
theorem handshake_accept (cfg : SessCfg) (o : OpenMsg)
    (h : Spec.AcceptableOpen o ⟨cfg.localID, cfg.localAS, cfg.remoteAS⟩) :
    react cfg .openSent (.msg (.open_ o)) none =
      (.openConfirm, [.onOpen o.bgpID (Spec.caps o), .send kaBytes, .report .openConfirm none]) ∧
    (react cfg .openConfirm (.msg .keepalive) none).1 = .established := by
  have hv := (validate_iff o cfg.localID cfg.localAS cfg.remoteAS).2 h
  simp [react, hv, caps_exact]

/-- an unacceptable OPEN: a single NOTIFICATION naming a fault actually present is sent, the
connection is closed, `OnOpenMessage` is not called, and the session never gets beyond OpenSent -/
theorem handshake_refuse (cfg : SessCfg) (o : OpenMsg) (ret : Option Notif)
    (h : ¬ Spec.AcceptableOpen o ⟨cfg.localID, cfg.localAS, cfg.remoteAS⟩) :
    ∃ n, Spec.faultApplies n (Spec.openSemFaults o ⟨cfg.localID, cfg.localAS, cfg.remoteAS⟩) = true ∧
      react cfg .openSent (.msg (.open_ o)) ret =
        (.closed, [.send (encodeNotif n), .close, .report .idle (some (.sent n.code))]) := by
  cases hv : validateOpen o cfg.localID cfg.localAS cfg.remoteAS with
  | none => exact absurd ((validate_iff o cfg.localID cfg.localAS cfg.remoteAS).1 hv) h
  | some n =>
    exact ⟨n, validate_sound o _ _ _ n hv, by simp [react, hv, teardown]⟩

/-- a malformed OPEN never reaches `validate`: the reader reports the decode fault and the FSM sends
exactly that NOTIFICATION and closes, without `OnOpenMessage` -/
theorem handshake_malformed (cfg : SessCfg) (n : Notif) (ret : Option Notif) :
    react cfg .openSent (.readerErr (.notif n true)) ret =
      (.closed, [.send (encodeNotif n), .close, .report .idle (some (.sent n.code))]) := by
  simp [react, onReaderErr, teardown]

/-- a NOTIFICATION returned by `OnOpenMessage` is sent to the remote verbatim and prevents
establishment -/
theorem plugin_veto (cfg : SessCfg) (o : OpenMsg) (n : Notif)
    (h : Spec.AcceptableOpen o ⟨cfg.localID, cfg.localAS, cfg.remoteAS⟩) :
    react cfg .openSent (.msg (.open_ o)) (some n) =
      (.closed, [.onOpen o.bgpID (Spec.caps o), .send (encodeNotif n), .close, .report .idle (some (.sent n.code))]) := by
  have hv := (validate_iff o cfg.localID cfg.localAS cfg.remoteAS).2 h
  simp [react, hv, teardown, caps_exact]

/-- the hold time in force is min(local, received), for all `UInt16` pairs -/
theorem negotiated_hold (localHold remoteHold : UInt16) :
    (negotiate localHold remoteHold).toNat = Spec.negotiatedHold localHold.toNat remoteHold.toNat := by
  simp only [negotiate, Spec.negotiatedHold]
  split <;> omega

end CoreBGP.Props.C02b
