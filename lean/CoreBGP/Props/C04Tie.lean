import CoreBGP.Gen.Selects
/-!
# C04 — tie of the keepalive-manager / WriteUpdate protocol model (`Model.Writer`) to the code

The model's blocking points are exactly the `select`s and unconditional channel operations the
regenerated inventory shows for `WriteUpdate`, the keepalive-manager closure and `established`:
a changed `select` there re-opens the model (this theorem stops checking).
-/
namespace CoreBGP.Props.C04Tie
open CoreBGP

def casesOf (fn : String) : List (List String) := (Gen.selects.filter (·.fn = fn)).map (·.cases)
def bareOf (fn : String) : List String := (Gen.bareChanOps.filter (·.fn = fn)).flatMap (·.cases)

/-- `WriteUpdate`: a non-blocking check of the writer's close channel, then (after the write) a
`select` between that close channel and the send to the keepalive manager -/
theorem write_update_selects :
    casesOf "updateMessageWriter.WriteUpdate" = [["default", "recv u.closeCh"], ["recv u.closeCh", "send u.resetKATimerCh"]] := by decide

/-- the keepalive manager: one `select` between its close channel and the reset requests -/
theorem manager_select : casesOf "fsm.established$1" = [["recv closeKAManagerCh", "recv resetKATimerCh"]] := by decide

/-- the FSM's own reset request is an unconditional send inside the loop, and `established` waits for
the manager before it tears the connection down -/
theorem fsm_ops :
    bareOf "fsm.established$2" = ["send resetKATimerCh"] ∧ bareOf "fsm.established" = ["recv kaManagerDoneCh"] := by decide

end CoreBGP.Props.C04Tie
