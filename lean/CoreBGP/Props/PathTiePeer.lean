import CoreBGP.Props.PathTie
import CoreBGP.Model.Peer
import CoreBGP.Model.Server
/-! Path tie for the peer manager's helpers (`peer.go`: `handleStateTransition`, `handleError`, `enableFSM`, `disableFSM`,
`sendTransitionToFSM`, `start`, `stop`) on the regenerated control paths: the instruction lists of the L2 model
(`Model.Peer.expandHandle`) against what every path of `handleStateTransition` does, for every manager state, direction and
transition; and what the helpers that the model takes as single instructions consist of. Listed under C01, C07, C11, C12, C13. -/
set_option maxRecDepth 100000
namespace CoreBGP.Props.PathTiePeer
open CoreBGP CoreBGP.Model CoreBGP.Gen CoreBGP.Props.PathTie

/-- an instruction of the L2 model, arguments dropped -/
inductive IS where
  | disable | send | enable | collSel
deriving DecidableEq, Repr, Inhabited

def isOfInstr : Instr → Option IS
  | .disableLog _ => some .disable
  | .sendT _ _ => some .send
  | .enable _ _ => some .enable
  | .collSel _ _ => some .collSel
  | _ => none

def domGuard : String := "(dominant&&i==out)||(!dominant&&i==in)"

/-- a path of `handleStateTransition` as model instructions: the collision `select` (all its cases) is ONE instruction of the
model (`collSel`, whose outcomes are `Model.Peer`'s); otherwise the helper calls in order -/
def pathIS (p : CodePath) : List IS :=
  if p.guards.contains (domGuard, true) then [.collSel]
  else p.calls.filterMap fun c =>
    if c = "p.disableFSM" then some IS.disable else if c = "p.sendTransitionToFSM" then some .send
    else if c = "p.enableFSM" then some .enable else none

/-- the guards of `handleStateTransition`, read off a manager state, a direction and a transition -/
def envHandle (s : PState) (i : Dir) (t : Trans) : GEnv := fun g =>
  if g = "case t.to==establishedState" then some (t.to == .established)
  else if g = "case i==in&&t.to<t.from" then some (i == .inn && decide (t.to.rank < t.frm.rank))
  else if g = "case t.to==openConfirmState" then some (t.to == .openConfirm)
  else if g = "case p.fsmState[other(i)]==establishedState" then some (s.st i.other == .established)
  else if g = "case p.fsmState[other(i)]==openConfirmState" then some (s.st i.other == .openConfirm)
  else if g = domGuard then some ((s.dominant && i == .out) || (!s.dominant && i == .inn))
  else none

/-- the finitely many facts the guards look at -/
structure HCls where
  toEst : Bool
  inDown : Bool
  toOC : Bool
  otherEst : Bool
  otherOC : Bool
  dom : Bool
deriving DecidableEq, Repr, Inhabited

def envOfHCls (c : HCls) : GEnv := fun g =>
  if g = "case t.to==establishedState" then some c.toEst
  else if g = "case i==in&&t.to<t.from" then some c.inDown
  else if g = "case t.to==openConfirmState" then some c.toOC
  else if g = "case p.fsmState[other(i)]==establishedState" then some c.otherEst
  else if g = "case p.fsmState[other(i)]==openConfirmState" then some c.otherOC
  else if g = domGuard then some c.dom
  else none

def hclsOf (s : PState) (i : Dir) (t : Trans) : HCls :=
  { toEst := t.to == .established, inDown := i == .inn && decide (t.to.rank < t.frm.rank), toOC := t.to == .openConfirm,
    otherEst := s.st i.other == .established, otherOC := s.st i.other == .openConfirm,
    dom := (s.dominant && i == .out) || (!s.dominant && i == .inn) }

/-- `expandHandle` by class -/
def clsIS (c : HCls) : List IS :=
  if c.toEst then [.disable, .send]
  else if c.inDown then [.disable, .enable]
  else if c.toOC then
    (if c.otherEst then [.disable] else if c.otherOC then (if c.dom then [.collSel] else [.disable]) else [.send])
  else [.send]

def bools : List Bool := [false, true]
/-- a state is not two states at once -/
def HCls.consistent (c : HCls) : Bool := !(c.toEst && c.toOC) && !(c.otherEst && c.otherOC)

def allHCls : List HCls :=
  (bools.flatMap fun a => bools.flatMap fun b => bools.flatMap fun c => bools.flatMap fun d => bools.flatMap fun e => bools.map fun f =>
    ({ toEst := a, inDown := b, toOC := c, otherEst := d, otherOC := e, dom := f } : HCls)).filter HCls.consistent

/-- the code side: for every combination of the facts some path of `handleStateTransition` is selected, and every selected
path is the instruction list of the class -/
theorem code_handle :
    ∀ c ∈ allHCls, (selected "peer.handleStateTransition" (envOfHCls c)).isEmpty = false ∧
      (selected "peer.handleStateTransition" (envOfHCls c)).all (fun p => pathIS p == clsIS c) = true := by
  decide

theorem envHandle_eq (s : PState) (i : Dir) (t : Trans) : envHandle s i t = envOfHCls (hclsOf s i t) := rfl

theorem mem_allHCls (c : HCls) (h : c.consistent = true) : c ∈ allHCls := by
  rcases c with ⟨a, b, c, d, e, f⟩
  cases a <;> cases b <;> cases c <;> cases d <;> cases e <;> cases f <;> first | decide | (simp [HCls.consistent] at h)

theorem hclsOf_consistent (s : PState) (i : Dir) (t : Trans) : (hclsOf s i t).consistent = true := by
  simp only [HCls.consistent, hclsOf]
  cases t.to <;> cases s.st i.other <;> decide

/-- the model side: `expandHandle`, arguments dropped, is the instruction list of the class of (state, direction, transition) -/
theorem expand_shape (s : PState) (i : Dir) (t : Trans) :
    (expandHandle s i t).filterMap isOfInstr = clsIS (hclsOf s i t) := by
  unfold expandHandle clsIS hclsOf
  by_cases h1 : t.to = .established
  · simp [h1, isOfInstr]
  · by_cases h2 : i = .inn ∧ t.to.rank < t.frm.rank
    · simp [h1, h2, isOfInstr]
    · by_cases h3 : t.to = .openConfirm
      · have h2' : (i == Dir.inn && decide (t.to.rank < t.frm.rank)) = false := by
          cases hi : (i == Dir.inn) <;> simp_all
        cases ho : s.st i.other <;> cases hd : s.dominant <;> cases i <;>
          simp_all [isOfInstr, Dir.other]
        all_goals (try (split <;> simp_all [isOfInstr]))
      · have h2' : (i == Dir.inn && decide (t.to.rank < t.frm.rank)) = false := by
          cases hi : (i == Dir.inn) <;> simp_all
        simp [h1, h2, h3, h2', isOfInstr]

/-- **the manager's reaction to a transition request is what the code's paths do**: for every manager state, direction and
requested transition, every control path of `handleStateTransition` that the guards — evaluated on that state — select does
exactly the instruction list of `Model.Peer.expandHandle` (the collision `select` as the one instruction `collSel`) -/
theorem expand_follows_code (s : PState) (i : Dir) (t : Trans) :
    selected "peer.handleStateTransition" (envHandle s i t) ≠ [] ∧
    ∀ p ∈ selected "peer.handleStateTransition" (envHandle s i t), pathIS p = (expandHandle s i t).filterMap isOfInstr := by
  rw [envHandle_eq, expand_shape]
  obtain ⟨hne, hall⟩ := code_handle _ (mem_allHCls (hclsOf s i t) (hclsOf_consistent s i t))
  refine ⟨by intro h; rw [h] at hne; simp at hne, ?_⟩
  intro p hp
  have := List.all_eq_true.mp hall p hp
  exact beq_iff_eq.mp this

/-- `disableFSM`: nothing if the slot is empty; otherwise the FSM is stopped (joined) and BOTH records are cleared — the
slot and the state the collision logic looks at -/
theorem disable_fsm_paths :
    (selected "peer.disableFSM" (fun g => if g = "p.fsms[i]==nil" then some false else none)).map (·.calls) =
      [["p.logTransition", "p.fsms[i].stop", "set p.fsms[i]=nil", "set p.fsmState[i]=disabledState"]] ∧
    (selected "peer.disableFSM" (fun g => if g = "p.fsms[i]==nil" then some true else none)).map (·.calls) = [[]] := by
  decide

/-- `enableFSM`: never the outbound FSM of a passive peer, never a second FSM in an occupied slot; otherwise a fresh FSM is
created, recorded as `disabled`, and started -/
theorem enable_fsm_paths :
    (∀ p ∈ pathsOf "peer.enableFSM", p.guards.contains ("i==out&&p.options.passive", true) = true → p.calls = []) ∧
    (∀ p ∈ pathsOf "peer.enableFSM", p.guards.contains ("p.fsms[i]==nil", false) = true → p.calls = []) ∧
    (∀ p ∈ pathsOf "peer.enableFSM", p.guards.contains ("p.fsms[i]==nil", true) = true →
      p.calls = ["newFSM", "set p.fsms[i]=newFSM(p,i,conn)", "set p.fsmState[i]=disabledState", "p.fsms[i].start"]) := by
  decide

/-- `handleError`: exactly the errors that damp (`errors.As && dampPeer()`, `DecTieC12.damping`) stop both FSMs, advance the
back-off and start the hold-down; any other error changes nothing here -/
theorem handle_error_paths :
    (∀ p ∈ pathsOf "peer.handleError", p.guards.contains ("nerr.dampPeer()", true) = true →
      p.calls.drop (p.calls.length - 4) = ["p.disableFSM", "p.disableFSM", "p.updateStartupDelay", "set p.inHoldDown=true"]) ∧
    (∀ p ∈ pathsOf "peer.handleError", p.guards.contains ("nerr.dampPeer()", true) = false →
      p.calls.all (fun c => c != "p.disableFSM" && c != "p.updateStartupDelay" && c != "set p.inHoldDown=true") = true) := by
  decide

/-- an error that does not damp leaves the peer's damping state alone altogether (no timestamp, no delay, no hold-down) -/
theorem non_damping_touches_nothing :
    ∀ p ∈ pathsOf "peer.handleError", p.guards.contains ("nerr.dampPeer()", true) = false →
      p.calls.all (fun c => c == "logf" || c == "errors.As" || c == "nerr.dampPeer") = true := by
  decide

/-! ### `updateStartupDelay` -/

def amnesiaGuard : String := "p.lastProtoError!=nil&&(time.Since(*p.lastProtoError)>=errorAmnesiaTime)"

/-- an assignment to `p.startupDelay` -/
inductive DS where
  | zero | minTime | double
deriving DecidableEq, Repr, Inhabited

/-- the assignments to `p.startupDelay` on a path, in order -/
def delaySets (p : CodePath) : List DS :=
  p.calls.filterMap fun c =>
    if c = "set p.startupDelay=0" then some DS.zero
    else if c = "set p.startupDelay=errorDelayMinTime" then some .minTime
    else if c = "set p.startupDelay=min(2*p.startupDelay,errorDelayMaxTime)" then some .double
    else none

def applyDS (d : Nat) : List DS → Nat
  | [] => d
  | .zero :: r => applyDS 0 r
  | .minTime :: r => applyDS Gen.errorDelayMinTime r
  | .double :: r => applyDS (min (2 * d) Gen.errorDelayMaxTime) r

def applyDelaySets (d : Nat) (p : CodePath) : Nat := applyDS d (delaySets p)

def envDelay (amnesia positive : Bool) : GEnv := fun g =>
  if g = amnesiaGuard then some amnesia else if g = "p.startupDelay>0" then some positive else none

def expectedSets (amnesia positive : Bool) : List DS :=
  (if amnesia then [DS.zero] else []) ++ [if positive then DS.double else DS.minTime]

/-- the code side: which assignments each combination of the two conditions selects -/
theorem code_delay_sets :
    ∀ a ∈ [false, true], ∀ pos ∈ [false, true],
      (selected "peer.updateStartupDelay" (envDelay a pos)).isEmpty = false ∧
      (selected "peer.updateStartupDelay" (envDelay a pos)).all (fun p => delaySets p == expectedSets a pos) = true := by
  decide

/-- **the back-off step is what the code's paths assign**: for every current delay and every time since the last protocol
error, every control path of `updateStartupDelay` selected by the two conditions (the second evaluated on the delay as the
first left it) assigns, in order, exactly the model's next delay -/
theorem startup_delay_follows_code (d : Nat) (gap : Option Nat) :
    let amnesia := match gap with | some g => decide (g ≥ Gen.errorAmnesiaTime) | none => false
    let d₁ := if amnesia then 0 else d
    selected "peer.updateStartupDelay" (envDelay amnesia (decide (d₁ > 0))) ≠ [] ∧
    ∀ p ∈ selected "peer.updateStartupDelay" (envDelay amnesia (decide (d₁ > 0))),
      applyDelaySets d p = Model.updateStartupDelay d gap := by
  intro amnesia d₁
  have hb : ∀ b : Bool, b ∈ [false, true] := by intro b; cases b <;> simp
  obtain ⟨hne, hall⟩ := code_delay_sets amnesia (hb _) (decide (d₁ > 0)) (hb _)
  refine ⟨by intro h; rw [h] at hne; simp at hne, ?_⟩
  intro p hp
  have hp' := beq_iff_eq.mp (List.all_eq_true.mp hall p hp)
  unfold applyDelaySets
  rw [hp']
  cases gap with
  | none =>
    simp only [amnesia, d₁, expectedSets, Model.updateStartupDelay]
    by_cases hd : d > 0 <;> simp [hd, applyDS]
  | some g =>
    simp only [amnesia, d₁, expectedSets, Model.updateStartupDelay]
    by_cases hg : g ≥ Gen.errorAmnesiaTime
    · simp [hg, applyDS]
    · by_cases hd : d > 0 <;> simp [hg, hd, applyDS]

theorem startup_delay_bookkeeping :
    ∀ p ∈ pathsOf "peer.updateStartupDelay",
      p.calls.contains "set p.lastProtoError=&lastProtoError" = true ∧
      p.calls.drop (p.calls.length - 4) =
        ["p.startupDelayTimer.Stop", "time.NewTimer(p.startupDelay)", "set p.startupDelayTimer=time.NewTimer(p.startupDelay)", "logf"] := by
  decide

/-- `sendTransitionToFSM` can always be abandoned for the manager's own stop; `peer.stop` closes once and joins the manager -/
theorem send_and_stop_paths :
    (pathsOf "peer.sendTransitionToFSM").map (·.guards) = [[("select recv p.closeCh", true)], [("select send p.transitionCh[i]", true)]] ∧
    (pathsOf "peer.stop").map (·.calls) = [["p.closeOnce.Do", "recv p.doneCh"]] := by
  decide

end CoreBGP.Props.PathTiePeer
