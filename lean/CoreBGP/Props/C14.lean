import CoreBGP.Model.Packet
import CoreBGP.Spec.Wire
import CoreBGP.Lemmas.Packet
/-!
# C14 — the OPEN corebgp sends reflects configuration and plugin capabilities
-/
namespace CoreBGP.Props.C14
open CoreBGP CoreBGP.Model

/-- `newOpenMessage` builds exactly the OPEN value the property describes: version 4, AS or
AS_TRANS, hold time, router id, one capabilities parameter = 4-octet-AS capability for the local
AS followed by the plugin's capabilities minus any 4-octet-AS capability of its own -/
theorem new_open_eq (asn : UInt32) (hold : UInt16) (id : UInt32) (caps : List Cap) :
    newOpenMessage asn hold id caps = Spec.expectedOpen ⟨asn, hold, id⟩ caps := by
  unfold newOpenMessage Spec.expectedOpen fourOctetASCap
  simp only [Gen.asTrans, Gen.CAP_FOUR_OCTET_AS, Lemmas.be32Bytes_eq]
  congr 4
  funext c
  by_cases h : c.code = 65 <;> simp [bne, h]

/-- if the capabilities can be represented, the bytes put on the wire are the RFC wire form of
that OPEN — every length octet (message, optional parameters, parameter, capability) equal to
the length of what follows -/
theorem open_wire (asn : UInt32) (hold : UInt16) (id : UInt32) (caps : List Cap)
    (h : Spec.Representable (Spec.expectedOpen ⟨asn, hold, id⟩ caps)) :
    encodeOpen (newOpenMessage asn hold id caps)
      = some (Spec.frame 1 (Spec.openBody (Spec.expectedOpen ⟨asn, hold, id⟩ caps))) := by
  rw [new_open_eq]
  obtain ⟨_, h1, h2⟩ := (Lemmas.representable_iff _).1 h
  unfold encodeOpen
  rw [Lemmas.encodeOpenBody_ok _ h1 h2, Option.map_some, Lemmas.prependHeader_frame]
  · rfl
  · have : (Spec.openBody (Spec.expectedOpen ⟨asn, hold, id⟩ caps)).length
        = 10 + (Spec.paramsWire (Spec.expectedOpen ⟨asn, hold, id⟩ caps).params).length := by
      simp [Spec.openBody, Spec.u16, Spec.u32]; omega
    omega

/-- … and those bytes parse back, under the RFC grammar, to exactly that OPEN -/
theorem open_wire_parses (asn : UInt32) (hold : UInt16) (id : UInt32) (caps : List Cap)
    (h : Spec.Representable (Spec.expectedOpen ⟨asn, hold, id⟩ caps)) :
    Spec.parseOpen (Spec.openBody (Spec.expectedOpen ⟨asn, hold, id⟩ caps))
      = some (Spec.expectedOpen ⟨asn, hold, id⟩ caps) :=
  Lemmas.open_spec_rt' _ h

/-- if they cannot be represented (a value above 255 bytes, or more than fits one parameter),
encoding fails and nothing is written (`sendOpenAndSetHoldTimer` closes the connection) -/
theorem open_unrepresentable (asn : UInt32) (hold : UInt16) (id : UInt32) (caps : List Cap)
    (h : ¬ Spec.Representable (Spec.expectedOpen ⟨asn, hold, id⟩ caps)) :
    encodeOpen (newOpenMessage asn hold id caps) = none := by
  rw [new_open_eq]
  unfold encodeOpen
  rw [Lemmas.encodeOpenBody_bad, Option.map_none]
  intro hok
  apply h
  apply (Lemmas.representable_iff _).2
  exact ⟨by simp [Spec.expectedOpen], hok.1, hok.2⟩

example : Spec.Representable (Spec.expectedOpen ⟨70000, 90, 1⟩ [⟨1, [0, 1, 0, 1]⟩, ⟨65, [1, 2, 3, 4]⟩]) := by decide

end CoreBGP.Props.C14
