import CoreBGP.Model.Packet
import CoreBGP.Spec.Wire
import CoreBGP.Lemmas.Packet
/-!
# C14 — the OPEN corebgp sends reflects configuration and plugin capabilities
-/
namespace CoreBGP.Props.C14
open CoreBGP CoreBGP.Model

/-- `newOpenMessage` builds exactly the OPEN value the property describes: version 4, AS or
AS_TRANS, hold time, router id, one capabilities parameter = 4-octet-AS capability for the local
AS followed by the plugin's capabilities minus any 4-octet-AS capability of its own -/
theorem new_open_eq (asn : UInt32) (hold : UInt16) (id : UInt32) (caps : List Cap) :
    newOpenMessage asn hold id caps = Spec.expectedOpen ⟨asn, hold, id⟩ caps := by
  sorry

/-- if the capabilities can be represented, the bytes put on the wire are the RFC wire form of
that OPEN — every length octet (message, optional parameters, parameter, capability) equal to
the length of what follows -/
theorem open_wire (asn : UInt32) (hold : UInt16) (id : UInt32) (caps : List Cap)
    (h : Spec.Representable (Spec.expectedOpen ⟨asn, hold, id⟩ caps)) :
    encodeOpen (newOpenMessage asn hold id caps)
      = some (Spec.frame 1 (Spec.openBody (Spec.expectedOpen ⟨asn, hold, id⟩ caps))) := by
  sorry

/-- … and those bytes parse back, under the RFC grammar, to exactly that OPEN -/
theorem open_wire_parses (asn : UInt32) (hold : UInt16) (id : UInt32) (caps : List Cap)
    (h : Spec.Representable (Spec.expectedOpen ⟨asn, hold, id⟩ caps)) :
    Spec.parseOpen (Spec.openBody (Spec.expectedOpen ⟨asn, hold, id⟩ caps))
      = some (Spec.expectedOpen ⟨asn, hold, id⟩ caps) := by
  sorry

/-- if they cannot be represented (a value above 255 bytes, or more than fits one parameter),
encoding fails and nothing is written (`sendOpenAndSetHoldTimer` closes the connection) -/
theorem open_unrepresentable (asn : UInt32) (hold : UInt16) (id : UInt32) (caps : List Cap)
    (h : ¬ Spec.Representable (Spec.expectedOpen ⟨asn, hold, id⟩ caps)) :
    encodeOpen (newOpenMessage asn hold id caps) = none := by
  sorry

example : Spec.Representable (Spec.expectedOpen ⟨70000, 90, 1⟩ [⟨1, [0, 1, 0, 1]⟩, ⟨65, [1, 2, 3, 4]⟩]) := by decide

end CoreBGP.Props.C14
