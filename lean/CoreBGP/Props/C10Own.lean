import CoreBGP.Gen.Access
import CoreBGP.Gen.Selects
/-!
# C10 (data-race clause) — ownership discipline over the extracted access table

`Gen.accesses` is regenerated from /repo on every run (SSA field accesses of `peer`, `fsm`, `Server`,
`updateMessageWriter`, attributed to goroutine roots through the VTA call graph without crossing `go`
statements). The discipline: every field is

* **confined** — all its non-constructor accesses come from one goroutine root; or
* **immutable after construction** — it is only written by the function that allocates the object
  (before any goroutine that reads it is spawned) and never again; or
* **a synchronisation object** (`sync.Mutex`, `sync.Once`); or
* **handed over** — listed in `handovers` below with the synchronisation that orders the accesses in
  both directions; each hand-over names facts of the *regenerated* select / channel-operation inventory
  (`Gen.selects`, `Gen.bareChanOps`) that must be present (e.g. the join on `readerDoneCh`), and the
  exact set of roots that may touch the field.

`ownership` says no field is left over. That the discipline implies the absence of data races in the
sense of the Go memory model (spawn, channel, close and mutex happens-before edges) is the standard
ownership argument and is part of the trusted base (DESIGN section 4); accesses the SSA extractor
cannot see (reflection, unsafe, inside the standard library) are outside it. The Go race detector is
run by the thorough tier as a cross-check and as the search aid when this theorem breaks.
-/
namespace CoreBGP.Props.C10Own
open CoreBGP

def fields : List String := (Gen.accesses.map (·.field)).eraseDups

/-- non-constructor accesses of a field -/
def live (f : String) : List Gen.AccessFact := Gen.accesses.filter fun a => a.field = f ∧ a.kind ≠ "cw"

def rootsOf (f : String) : List String := ((live f).map (·.root)).eraseDups

def syncObjects : List String := ["Server.mu", "Server.closeOnce", "peer.closeOnce", "fsm.closeOnce", "fsm.closeReaderOnce"]

def hasOp (facts : List Gen.SelectFact) (fn op : String) : Bool := facts.any fun s => s.fn = fn ∧ s.cases.contains op

/-- a hand-over: the field, the roots that may touch it, and the synchronisation facts (function,
channel operation) that must exist in the code for the justification to stand -/
structure Handover where
  field : String
  roots : List String
  needSelect : List (String × String) := []     -- must appear as a case of some select in that function
  needBare : List (String × String) := []       -- must appear as an unconditional channel operation there
  why : String

def readerJoin : List (String × String) := [("fsm.cleanupConnAndReader", "recv f.readerDoneCh")]

def handovers : List Handover := [
  -- the reader goroutine: its channels and the connection are (re)assigned by `fsm.run` only while no reader
  -- exists: `startReading` runs after `cleanupConnAndReader` joined the previous one (`<-f.readerDoneCh`),
  -- and `go f.read()` follows the assignments (spawn edge)
  { field := "fsm.conn", roots := ["fsm.read", "fsm.run"], needBare := readerJoin, why := "spawn + join(readerDoneCh)" },
  { field := "fsm.closeReaderCh", roots := ["fsm.read", "fsm.run"], needBare := readerJoin, why := "spawn + join(readerDoneCh)" },
  { field := "fsm.readerDoneCh", roots := ["fsm.read", "fsm.run"], needBare := readerJoin, why := "spawn + join(readerDoneCh)" },
  { field := "fsm.readerErrCh", roots := ["fsm.read", "fsm.run"], needBare := readerJoin, why := "spawn + join(readerDoneCh)" },
  { field := "fsm.readerMsgCh", roots := ["fsm.read", "fsm.run"], needBare := readerJoin, why := "spawn + join(readerDoneCh)" },
  -- the dial goroutine reads `f.dialResultCh` once when it starts (deferred close); `fsm.run` assigns it
  -- before the `go` and again only after it received that goroutine's single result
  { field := "fsm.dialResultCh", roots := ["fsm.dialPeer$1", "fsm.run"],
    needSelect := [("fsm.connect", "recv f.dialResultCh")], needBare := [("fsm.cleanup", "recv f.dialResultCh"), ("fsm.dialPeer$1", "send dialResultCh")],
    why := "spawn + receipt of the single dial result" },
  -- the keepalive-manager goroutine reads the negotiated timer values; `fsm.run` rewrites them in the next
  -- OpenSent — only after `established` has waited for the manager to exit
  { field := "fsm.holdTime", roots := ["fsm.established$1", "fsm.run"], needBare := [("fsm.established", "recv kaManagerDoneCh")], why := "spawn + join(kaManagerDoneCh)" },
  { field := "fsm.keepAliveInterval", roots := ["fsm.established$1", "fsm.run"], needBare := [("fsm.established", "recv kaManagerDoneCh")], why := "spawn + join(kaManagerDoneCh)" },
  { field := "fsm.keepAliveTimer", roots := ["fsm.established$1", "fsm.run"], needBare := [("fsm.established", "recv kaManagerDoneCh")], why := "spawn + join(kaManagerDoneCh)" },
  -- `remoteID` is written by the FSM in OpenSent before it offers the OpenConfirm transition, and read by
  -- the manager after it received that transition (unbuffered rendezvous)
  { field := "fsm.remoteID", roots := ["fsm.run", "peer.run"],
    needSelect := [("fsm.run", "send f.peer.getFSMTransitionCh(f)"), ("peer.run", "recv p.transitionCh[out]"), ("peer.run", "recv p.transitionCh[in]")],
    why := "transition rendezvous" },
  -- `peer.start()` (caller of Serve / AddPeer, under Server.mu) fills the out slot before `go p.run()`;
  -- afterwards only the manager goroutine touches the two tables
  { field := "peer.fsms", roots := ["api:Server.AddPeer", "api:Server.Serve", "peer.run"], why := "written by start() before go p.run() (spawn); then manager only" },
  { field := "peer.fsmState", roots := ["api:Server.AddPeer", "api:Server.Serve", "peer.run"], why := "written by start() before go p.run() (spawn); then manager only" },
  { field := "peer.startupDelayTimer", roots := ["api:Server.AddPeer", "peer.run"], why := "newPeer drains the timer before the peer is started (spawn); then manager only" },
  -- the registry and the run state: every access holds Server.mu (checked below: `mutex_held`)
  { field := "Server.peers", roots := ["Server.Serve$2", "api:Server.AddPeer", "api:Server.DeletePeer", "api:Server.GetPeer", "api:Server.ListPeers", "api:Server.Serve"], why := "Server.mu" },
  { field := "Server.serving", roots := ["api:Server.AddPeer", "api:Server.Close", "api:Server.DeletePeer", "api:Server.Serve"], why := "Server.mu" }
]

inductive Verdict where
  | confined (root : String) | immutable | syncObject | handedOver (why : String) | unordered
deriving Repr, DecidableEq

def sameSet (a b : List String) : Bool := a.all b.contains && b.all a.contains

def handoverOK (h : Handover) : Bool :=
  sameSet (rootsOf h.field) h.roots &&
  h.needSelect.all (fun (fn, op) => hasOp Gen.selects fn op) &&
  h.needBare.all (fun (fn, op) => hasOp Gen.bareChanOps fn op)

def verdict (f : String) : Verdict :=
  if syncObjects.contains f then .syncObject
  else if !((live f).any fun a => a.kind = "w") then .immutable
  else match rootsOf f with
    | [r] => .confined r
    | _ =>
      match handovers.find? (·.field = f) with
      | some h => if handoverOK h then .handedOver h.why else .unordered
      | none => .unordered

/-- every field of the four shared structures is confined, immutable after construction, a
synchronisation object, or handed over across a synchronisation that exists in the code -/
theorem ownership : (fields.all fun f => verdict f != .unordered) = true := by
  set_option maxRecDepth 100000 in decide

/-- every root that touches the registry or the run state also takes `Server.mu` -/
theorem mutex_held :
    (Gen.accesses.all fun a =>
      !((a.field = "Server.peers" ∨ a.field = "Server.serving") ∧ a.kind ≠ "cw") ||
      Gen.accesses.any fun b => b.field = "Server.mu" ∧ b.root = a.root) = true := by
  set_option maxRecDepth 100000 in decide

/-- every blocking point of the FSM goroutine and of the manager offers its close channel: each
`select` in the FSM's functions has a `recv f.closeCh` case, each in the manager's a `recv p.closeCh`
(the L2 model's `FPc.listensClose` / the `pclosed` alternatives rest on exactly this) -/
theorem blocking_points_offer_close :
    (∀ s ∈ Gen.selects, s.fn ∈ ["fsm.run", "fsm.idle", "fsm.connect", "fsm.active", "fsm.openSent$1", "fsm.openConfirm$1", "fsm.established$2"] →
      s.cases.contains "recv f.closeCh" = true) ∧
    (∀ s ∈ Gen.selects, s.fn ∈ ["peer.run", "peer.sendTransitionToFSM", "peer.handleStateTransition", "peer.incomingConnection"] →
      s.cases.contains "recv p.closeCh" = true) ∧
    (∀ s ∈ Gen.selects, s.fn = "fsm.read" → s.cases.contains "recv f.closeReaderCh" = true) := by decide

/-- the select inventory the L2 model was written against (a changed `select` re-opens the model) -/
theorem select_inventory :
    (Gen.selects.filter fun s => s.fn ∈ ["fsm.run", "peer.run", "peer.sendTransitionToFSM", "peer.handleStateTransition",
        "peer.incomingConnection"]).map (fun s => (s.fn, s.cases)) =
    [("fsm.run", ["recv f.closeCh", "send f.peer.getFSMTransitionCh(f)"]),
     ("fsm.run", ["recv f.closeCh", "recv f.peer.getFSMTransitionCh(f)"]),
     ("fsm.run", ["recv f.closeCh", "send f.peer.getFSMErrorCh(f)"]),
     ("peer.handleStateTransition", ["recv p.closeCh", "recv p.transitionCh[other(i)]", "send p.fsms[other(i)].closeCh"]),
     ("peer.incomingConnection", ["recv p.closeCh", "send p.inConnCh"]),
     ("peer.run", ["recv p.closeCh", "recv p.errorCh[in]", "recv p.errorCh[out]", "recv p.inConnCh",
                   "recv p.startupDelayTimer.C", "recv p.transitionCh[in]", "recv p.transitionCh[out]"]),
     ("peer.sendTransitionToFSM", ["recv p.closeCh", "send p.transitionCh[i]"])] := by decide

end CoreBGP.Props.C10Own
