import CoreBGP.Model.Peer
import CoreBGP.Model.Server
import CoreBGP.Spec.Server
import CoreBGP.Lemmas.Peer
import CoreBGP.Lemmas.PeerLocal
import CoreBGP.Props.C20
/-!
# C13 — only connections from configured peers to the configured address are served

Two stages, as in the code: `Server.admit` (L3, `handleInboundConn` under `s.mu`) decides whether a
connection reaches a peer manager at all; the manager (L2, `peer.go:272`) turns it into an FSM iff
the peer is not held down, has no inbound FSM and its outbound FSM is not Established. A refusal is
`conn.Close()` and nothing else: no byte is written, no callback invoked, no state changed.
-/
namespace CoreBGP.Props.C13
open CoreBGP CoreBGP.Model
open CoreBGP.Lemmas.PeerLocal

/-- stage 1 is the specified predicate over the abstract registry: handed over iff a peer with that
remote address exists and (no local address configured or it equals the destination) -/
theorem admit_spec (s : Server) (src dst : Addr) :
    s.admit src dst = Spec.admits (CoreBGP.Props.C20.abs s) src dst := by
  unfold Server.admit Spec.admits CoreBGP.Props.C20.abs
  cases hl : s.lookup src with
  | none => rfl
  | some c =>
    simp only [Addr.isValid]
    by_cases hk : c.localAddr.kind = .invalid
    · simp [hk]
    · by_cases hd : c.localAddr = dst
      · simp [hd]
      · simp [hk, hd]

/-- … and it changes nothing: admission is a pure function of the registry (no peer's component
changes, whatever the outcome) -/
theorem admit_unknown_source (s : Server) (src dst : Addr) (h : s.lookup src = none) : s.admit src dst = none := by
  unfold Server.admit
  rw [h]

theorem admit_wrong_destination (s : Server) (src dst : Addr) (c : PeerCfg) (h : s.lookup src = some c)
    (hl : c.localAddr.kind ≠ .invalid) (hd : c.localAddr ≠ dst) : s.admit src dst = none := by
  unfold Server.admit
  rw [h]
  simp [Addr.isValid, hl, hd]

/-- stage 2: the manager creates an inbound FSM iff not held down, no inbound FSM exists and the
outbound FSM is not recorded Established; otherwise the connection is just closed: the state is
unchanged -/
theorem busy (s : PState) (a : Bool) (s' : PState) (h : (Label.inConn a, s') ∈ pMain s) :
    (a = true ↔ (s.holdDown = false ∧ s.presentI = false ∧ s.stO ≠ .established)) ∧
    (a = false → s' = s) ∧ (a = true → s' = { s with todo := [.enable .inn true] }) := by
  have h := mem_pMain_inConn h
  split at h
  · rename_i hc
    rw [List.mem_singleton] at h
    obtain ⟨ha, rfl⟩ := Prod.mk.inj h
    have ha : a = false := by injection ha
    subst ha
    refine ⟨?_, fun _ => rfl, fun h => (by cases h)⟩
    simp only [Bool.or_eq_true, decide_eq_true_eq] at hc
    constructor
    · intro h; cases h
    · rintro ⟨h1, h2, h3⟩
      rcases hc with (hc | hc) | hc
      · rw [h1] at hc; cases hc
      · rw [h2] at hc; cases hc
      · exact absurd hc h3
  · rename_i hc
    rw [List.mem_singleton] at h
    obtain ⟨ha, rfl⟩ := Prod.mk.inj h
    have ha : a = true := by injection ha
    subst ha
    refine ⟨?_, fun h => (by cases h), fun _ => rfl⟩
    simp only [Bool.or_eq_true, decide_eq_true_eq, not_or, Bool.not_eq_true] at hc
    exact ⟨fun _ => ⟨hc.1.1, hc.1.2, hc.2⟩, fun _ => rfl⟩

/-- an admitted connection becomes an FSM that starts in Active holding the connection (it sends
its OPEN from there); nothing else changes -/
theorem admitted_starts_active (s : PState) (rest : List Instr) (h : s.presentI = false) :
    pInstr s (.enable .inn true) rest =
      [(.tau, (({ s with todo := rest }.setPresent .inn true).setSt .inn .disabled).setF .inn
          { pc := .req ⟨.disabled, .active⟩, conn := true })] := by
  have hp : s.present .inn = false := h
  simp [pInstr, hp]

end CoreBGP.Props.C13
