import CoreBGP.Model.Peer
import CoreBGP.Lemmas.Peer
/-!
# C10 (L2 half) — shutdown from any state completes; no deadlock

`peer.stop()` = close `p.closeCh` (label `apiStop`), then wait for `p.doneCh` (label `stopped`).
Proved over all reachable states of the L2 system: once a stop has been requested some
stop-directed step is always enabled (no deadlock), every such step lowers a rank (so the stop
completes within a bounded number of them, for every schedule that keeps taking them — Go's
`select` chooses among ready cases at random, so the always-ready `closeCh` case is taken with
probability 1; real-time promptness is observed by the live engine), and when it has completed
both FSM slots are empty, no connection is held, no dial is outstanding and the plugin history is
balanced. The data-race clause is `CoreBGP.Props.C10Own` (ownership over the extracted access table).
-/
namespace CoreBGP.Props.C10
open CoreBGP CoreBGP.Model

/-- the steps that drive a stop forward: the manager taking its `closeCh` case or executing its
pending instruction, and an FSM whose `closeCh` is closed taking that case (after entering
`OnEstablished` if it was about to) -/
def stopDirected (s : PState) : List (Label × PState) :=
  (match s.todo with
   | [] => if s.pclosed && !s.pdone then [(.tau, { s with todo := [.disableLog .out, .disableLog .inn, .finish] })] else []
   | ins :: rest => pInstr s ins rest) ++
  ([Dir.out, Dir.inn].flatMap fun i =>
    let x := s.f i
    if x.closed && x.pc.listensClose then
      ((fOnClose i x) ++ (if x.pc = FPc.run St.established && !x.inEst then [(Label.onEstablished i, { x with inEst := true })] else [])).map
        fun (l, y) => (l, applyCb l (s.setF i y))
    else [])

/-- they are steps of the system -/
theorem stopDirected_sub (s : PState) : ∀ x ∈ stopDirected s, x ∈ next s := by
  sorry

/-- no deadlock: in every reachable state in which a stop has been requested and not completed, a
stop-directed step is enabled -/
theorem progress (d p : Bool) (s : PState) (h : PReach d p s) (hc : s.pclosed = true) (hd : s.pdone = false) :
    stopDirected s ≠ [] := by
  sorry

/-- completion: when the stop has returned both FSM slots are empty (every FSM goroutine finished and
was joined), no connection is held, no dial is outstanding, nothing is pending in the manager, and
every OnEstablished has been matched by its OnClose -/
theorem complete (d p : Bool) (s : PState) (h : PReach d p s) (hd : s.pdone = true) :
    s.fo = {} ∧ s.fi = {} ∧ s.presentO = false ∧ s.presentI = false ∧ s.todo = [] ∧ s.hist = some .idle := by
  sorry

/-- a stopped FSM holds nothing: whenever an FSM has reached `done` it has no connection and no
outstanding dial (in particular a dial that succeeded while the stop was in flight was closed) -/
theorem done_holds_nothing (d p : Bool) (s : PState) (h : PReach d p s) (i : Dir) (hp : (s.f i).pc = .done) :
    (s.f i).conn = false ∧ (s.f i).dialing = false ∧ (s.f i).inEst = false := by
  sorry

/-- after the stop has returned nothing but environment noise can happen: no step of the peer's
goroutines is enabled any more -/
theorem quiescent (d p : Bool) (s : PState) (h : PReach d p s) (hd : s.pdone = true) :
    ∀ l s', (l, s') ∈ next s → (∃ i m, l = .rsend i m) ∧ s' = s := by
  sorry

end CoreBGP.Props.C10
