import CoreBGP.Model.Peer
import CoreBGP.Lemmas.Peer
import CoreBGP.Lemmas.PeerLocal
import CoreBGP.Lemmas.PeerStop
/-!
# C10 (L2 half) — shutdown from any state completes; no deadlock

`peer.stop()` = close `p.closeCh` (label `apiStop`), then wait for `p.doneCh` (label `stopped`).
Proved over all reachable states of the L2 system: once a stop has been requested some
stop-directed step is always enabled (no deadlock), every such step lowers a rank (so the stop
completes within a bounded number of them, for every schedule that keeps taking them — Go's
`select` chooses among ready cases at random, so the always-ready `closeCh` case is taken with
probability 1; real-time promptness is observed by the live engine), and when it has completed
both FSM slots are empty, no connection is held, no dial is outstanding and the plugin history is
balanced. The data-race clause is `CoreBGP.Props.C10Own` (ownership over the extracted access table).
-/
namespace CoreBGP.Props.C10
open CoreBGP CoreBGP.Model
open CoreBGP.Lemmas.PeerLocal CoreBGP.Lemmas.PeerStop

/-- the steps that drive a stop forward: the manager taking its `closeCh` case or executing its
pending instruction, and an FSM whose `closeCh` is closed taking that case (after entering
`OnEstablished` if it was about to) -/
def stopDirected (s : PState) : List (Label × PState) :=
  (match s.todo with
   | [] => if s.pclosed && !s.pdone then [(.tau, { s with todo := [.disableLog .out, .disableLog .inn, .finish] })] else []
   | ins :: rest => pInstr s ins rest) ++
  ([Dir.out, Dir.inn].flatMap fun i =>
    let x := s.f i
    if x.closed && x.pc.listensClose then
      ((fOnClose i x) ++ (if x.pc = FPc.run St.established && !x.inEst then [(Label.onEstablished i, { x with inEst := true })] else [])).map
        fun (l, y) => (l, applyCb l (s.setF i y))
    else [])

/-- they are steps of the system -/
theorem stopDirected_sub (s : PState) : ∀ x ∈ stopDirected s, x ∈ next s := by
  intro x hx
  simp only [stopDirected, List.mem_append] at hx
  simp only [next, List.mem_append]
  rcases hx with hx | hx
  · left; left; left; left
    split at hx
    · rename_i ht
      rw [ht]
      split at hx
      · rename_i hc
        simp only [Bool.and_eq_true, Bool.not_eq_eq_eq_not, Bool.not_true] at hc
        simp only [List.mem_singleton] at hx
        subst hx
        unfold pMain
        rw [if_neg (by simp [hc.2]), if_pos hc.1]
        simp
      · simp at hx
    · rename_i ins rest ht
      rw [ht]
      exact hx
  · simp only [List.mem_flatMap] at hx
    obtain ⟨i, hi, hx⟩ := hx
    have key : x ∈ fSteps s i := by
      split at hx
      · rename_i hc
        simp only [List.mem_map, List.mem_append] at hx
        obtain ⟨⟨l, y⟩, hy, rfl⟩ := hx
        simp only [fSteps, List.mem_map, List.mem_append]
        refine ⟨(l, y), ?_, rfl⟩
        rcases hy with hy | hy
        · left; rw [if_pos hc]; exact hy
        · right
          split at hy
          · rename_i he
            simp only [Bool.and_eq_true, decide_eq_true_eq, Bool.not_eq_eq_eq_not, Bool.not_true] at he
            rw [he.1]
            simp only [runOutcomes, he.2]
            simpa using hy
          · simp at hy
      · simp at hx
    simp only [List.mem_cons, List.not_mem_nil, or_false] at hi
    rcases hi with rfl | rfl
    · left; left; left; right; exact key
    · left; left; right; exact key

/-- no deadlock: in every reachable state in which a stop has been requested and not completed, a
stop-directed step is enabled -/
theorem progress (d p : Bool) (s : PState) (h : PReach d p s) (hc : s.pclosed = true) (hd : s.pdone = false) :
    stopDirected s ≠ [] := by
  have hi := sinv_reachable h
  intro hnil
  simp only [stopDirected, List.append_eq_nil_iff] at hnil
  obtain ⟨hA, hB⟩ := hnil
  cases ht : s.todo with
  | nil =>
    rw [ht] at hA
    simp [hc, hd] at hA
  | cons ins rest =>
    rw [ht] at hA
    simp only at hA
    by_cases hdis : ∃ i, ins = .disable i ∧ (s.f i).closed = true ∧ (s.f i).pc ≠ .done
    · obtain ⟨i, rfl, hcl, hnd⟩ := hdis
      have hp : s.present i = true := (hi.t i).disPres (by rw [ht]; exact rfl)
      obtain ⟨hl, hne⟩ := fOnClose_progress i (s.f i) ((hi.x i).pres hp) hnd (hi.x i).noRunDis
      simp only [List.flatMap_eq_nil_iff] at hB
      have := hB i (by cases i <;> simp)
      rw [if_pos (by simp [hcl, hl])] at this
      exact hne (List.map_eq_nil_iff.1 this)
    · refine pInstr_progress s ins rest hc (fun i e => ?_) hA
      cases hcl : (s.f i).closed
      · exact Or.inl rfl
      · right
        refine Classical.byContradiction fun hnd => hdis ⟨i, e, hcl, hnd⟩

/-- completion: when the stop has returned both FSM slots are empty (every FSM goroutine finished and
was joined), no connection is held, no dial is outstanding, nothing is pending in the manager, and
every OnEstablished has been matched by its OnClose -/
theorem complete (d p : Bool) (s : PState) (h : PReach d p s) (hd : s.pdone = true) :
    s.fo = {} ∧ s.fi = {} ∧ s.presentO = false ∧ s.presentI = false ∧ s.todo = [] ∧ s.hist = some .idle := by
  have hi := sinv_reachable h
  obtain ⟨-, ht, hpo, hpi⟩ := hi.tg.pd hd
  have ho := hi.xo.abs hpo
  have hn := hi.xn.abs hpi
  refine ⟨ho, hn, hpo, hpi, ht, ?_⟩
  have := hi.hist
  rw [ho, hn] at this
  simpa using this

/-- a stopped FSM holds nothing: whenever an FSM has reached `done` it has no connection and no
outstanding dial (in particular a dial that succeeded while the stop was in flight was closed) -/
theorem done_holds_nothing (d p : Bool) (s : PState) (h : PReach d p s) (i : Dir) (hp : (s.f i).pc = .done) :
    (s.f i).conn = false ∧ (s.f i).dialing = false ∧ (s.f i).inEst = false :=
  ((sinv_reachable h).x i).doneH hp

/-- after the stop has returned nothing but environment noise can happen: no step of the peer's
goroutines is enabled any more -/
theorem quiescent (d p : Bool) (s : PState) (h : PReach d p s) (hd : s.pdone = true) :
    ∀ l s', (l, s') ∈ next s → (∃ i m, l = .rsend i m) ∧ s' = s := by
  have hi := sinv_reachable h
  obtain ⟨ho, hn, hpo, hpi, ht, -⟩ := complete d p s h hd
  obtain ⟨hpc, -⟩ := hi.tg.pd hd
  intro l s' hm
  simp only [next, ht, List.mem_append] at hm
  rcases hm with (((hm | hm) | hm) | hm) | hm
  · simp [pMain, hd] at hm
  · simp [fSteps, PState.f, ho, FPc.listensClose] at hm
  · simp [fSteps, PState.f, hn, FPc.listensClose] at hm
  · simp [hpc] at hm
  · simp only [rsendSteps, List.mem_flatMap, List.mem_append, List.mem_singleton] at hm
    obtain ⟨i, -, m, -, hm | hm⟩ := hm
    · have : (s.f i).conn = false := by cases i <;> simp [PState.f, ho, hn]
      simp [this] at hm
    · obtain ⟨rfl, rfl⟩ := Prod.mk.inj hm
      exact ⟨⟨i, m, rfl⟩, rfl⟩

end CoreBGP.Props.C10
