import CoreBGP.Gen.Locks
/-!
# C20 / C10 / C05 — lock discipline of the `Server` methods (regenerated from server.go on every run)

`Props.C20Lin.atomic_linearizable` needs every registry operation to take effect atomically between its
invocation and its return. In the code that is: the operation holds `s.mu` in ONE critical section that
contains every access to the registry fields and the starting / stopping of the peer it adds / removes.
`Gen.serverLocks` records, per method, what a path-sensitive walk over the AST finds; the theorems state the
discipline. (That holding a `sync.Mutex` gives mutual exclusion and happens-before is the Go memory model:
trusted.)
-/
namespace CoreBGP.Props.C20Lock
open CoreBGP.Gen

def fact (fn : String) : Option LockFact := serverLocks.find? (·.fn = fn)

/-- no method returns with the lock held (no path forgets its unlock): nothing is left locked (C05: the API
cannot be wedged by a connection that matches no peer / the wrong address) -/
theorem no_return_while_locked : ∀ f ∈ serverLocks, f.returnsHeld = 0 := by decide

/-- the registry fields (`s.peers`, `s.serving`) are never touched without the lock -/
theorem registry_only_under_lock : ∀ f ∈ serverLocks, f.accessedUnlocked = [] := by decide

/-- each registry operation and the admission of an inbound connection is one critical section -/
theorem single_critical_section :
    ∀ fn ∈ ["AddPeer", "DeletePeer", "GetPeer", "ListPeers", "handleInboundConn", "Close"],
      (fact fn).map (·.acquisitions) = some 1 := by decide

/-- `Serve` has exactly two: the start-up (serving := true, every peer started) and the tear-down (every peer
stopped, serving := false) -/
theorem serve_two_sections : (fact "Serve").map (·.acquisitions) = some 2 := by decide

/-- peers are started, stopped and handed connections only with the lock held: a peer is running iff it is in
the registry of a serving server at every instant another operation can observe -/
theorem peers_started_stopped_under_lock : ∀ f ∈ serverLocks, f.callsUnlocked = [] := by decide

theorem add_starts_under_lock : (fact "AddPeer").map (·.callsHeld) = some ["peer.start"] := by decide
theorem delete_stops_under_lock : (fact "DeletePeer").map (·.callsHeld) = some ["peer.stop"] := by decide
theorem serve_starts_and_stops_under_lock : (fact "Serve").map (·.callsHeld) = some ["peer.start", "peer.stop"] := by decide
theorem inbound_handed_over_under_lock :
    (fact "handleInboundConn").map (·.callsHeld) = some ["peer.incomingConnection"] := by decide

end CoreBGP.Props.C20Lock
