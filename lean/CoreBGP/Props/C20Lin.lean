import CoreBGP.Spec.Lin
import CoreBGP.Props.C20
import CoreBGP.Lemmas.Lin
/-!
# C20 — concurrent use: linearizability

1. The history checker `Spec.Lin.lin` used by the correspondence engine on histories recorded from
   concurrent goroutines calling the real `Server` is sound and complete for the declarative
   definition `Spec.Lin.Linearizable` (for every step function, state and history).
2. Histories of a system in which every operation takes effect atomically at one point between its
   invocation and its return (what `Server.mu` gives: `C10Own.mutex_held` over the regenerated access
   table; the Go memory model is the trusted part) are linearizable: `atomic_linearizable`.
3. Linearizability transfers along a simulation (`lin_transfer`); with the refinement theorems of
   `Props.C20` a history that is linearizable for the registry model is linearizable for the abstract
   partial map `Spec.Registry` (`registry_lin_transfer`).
-/
namespace CoreBGP.Props.C20Lin
open CoreBGP CoreBGP.Spec.Lin

variable {σ ο ρ : Type} [DecidableEq ρ]

/-- soundness: an accepted history has a linearization -/
theorem lin_sound (step : σ → ο → σ × ρ) (n : Nat) (s : σ) (h : List (Ev ο ρ)) :
    lin step n s h = true → Linearizable step s h :=
  Lemmas.Lin.lin_sound_core step n s h

/-- completeness: with enough fuel, every linearizable history is accepted — a rejection by the
checker is a genuine non-linearizable history, never an artefact of the search -/
theorem lin_complete (step : σ → ο → σ × ρ) (n : Nat) (s : σ) (h : List (Ev ο ρ)) (hn : h.length ≤ n) :
    Linearizable step s h → lin step n s h = true := by
  rintro ⟨l, hp, hrt, hseq⟩
  exact Lemmas.Lin.lin_complete_core step l n s h hn hp hrt hseq

/-- the checker decides linearizability -/
theorem lin_iff (step : σ → ο → σ × ρ) (s : σ) (h : List (Ev ο ρ)) :
    lin step h.length s h = true ↔ Linearizable step s h :=
  ⟨lin_sound step _ s h, lin_complete step _ s h (Nat.le_refl _)⟩

/-- An execution in which each call takes effect atomically: the calls in the order of their
effect points, each effect point lying between the call's own invocation and return stamps and
the effect points strictly increasing. -/
structure AtomicExec (ο ρ : Type) where
  calls : List (Ev ο ρ × Nat)         -- call and its effect point, in effect order
  within : ∀ p ∈ calls, p.1.inv < p.2 ∧ p.2 < p.1.ret
  increasing : calls.Pairwise fun a b => a.2 < b.2

/-- every history of an atomic execution whose results are those of running `step` in effect order
is linearizable — in particular accepted by the checker, whatever the order in which the harness
lists the calls -/
theorem atomic_linearizable (step : σ → ο → σ × ρ) (s : σ) (x : AtomicExec ο ρ)
    (hres : SeqOK step s (x.calls.map (·.1))) (h : List (Ev ο ρ)) (hp : h.Perm (x.calls.map (·.1))) :
    lin step h.length s h = true := by
  apply lin_complete step _ s h (Nat.le_refl _)
  refine ⟨x.calls.map (·.1), hp.symm, ?_, hres⟩
  unfold RespectsRT
  rw [List.pairwise_map]
  refine List.Pairwise.imp_of_mem ?_ x.increasing
  intro a b ha hb hab hlt
  have h1 := x.within a ha
  have h2 := x.within b hb
  omega

omit [DecidableEq ρ] in
/-- linearizability transfers along a simulation between two step functions with equal results -/
theorem lin_transfer {α : Type} (stepC : σ → ο → σ × ρ) (stepA : α → ο → α × ρ) (R : σ → α → Prop)
    (hsim : ∀ s a op, R s a → (stepC s op).2 = (stepA a op).2 ∧ R (stepC s op).1 (stepA a op).1)
    (s : σ) (a : α) (hR : R s a) (h : List (Ev ο ρ)) :
    Linearizable stepC s h → Linearizable stepA a h := by
  rintro ⟨l, hp, hrt, hseq⟩
  refine ⟨l, hp, hrt, ?_⟩
  clear hp hrt
  induction l generalizing s a with
  | nil => trivial
  | cons e es ih =>
    obtain ⟨h1, h2⟩ := hseq
    obtain ⟨hr, hR'⟩ := hsim s a e.op hR
    exact ⟨hr ▸ h1, ih _ _ hR' h2⟩

/-! ### the registry: model operations against the abstract partial map -/

inductive ROp where
  | add (c : PeerCfg) | del (k : Addr) | get (k : Addr)

inductive RRes where
  | ok | invalid | alreadyExists | notExist | cfg (c : PeerCfg)

/-- the model's registry operations with their API results -/
def mStep (s : Model.Server) : ROp → Model.Server × RRes
  | .add c => ((s.addPeer c).1, match (s.addPeer c).2 with
      | none => .ok | some .alreadyExists => .alreadyExists | some _ => .invalid)
  | .del k => ((s.deletePeer k).1, match (s.deletePeer k).2 with | none => .ok | some _ => .notExist)
  | .get k => (s, match s.getPeer k with | .ok c => .cfg c | .error _ => .notExist)

/-- the same operations on the abstract map -/
def aStep (r : Spec.Registry) : ROp → Spec.Registry × RRes
  | .add c => ((r.add c).1, match (r.add c).2 with
      | .ok => .ok | .alreadyExists => .alreadyExists | .invalid => .invalid)
  | .del k => ((r.delete k).1, if (r.delete k).2 then .ok else .notExist)
  | .get k => (r, match r k with | some c => .cfg c | none => .notExist)

theorem registry_sim (s : Model.Server) (r : Spec.Registry) (op : ROp) (hR : C20.abs s = r) :
    (mStep s op).2 = (aStep r op).2 ∧ C20.abs (mStep s op).1 = (aStep r op).1 := by
  subst hR
  cases op with
  | add c =>
    have h := C20.add_refines s c
    simp only [mStep, aStep]
    generalize s.addPeer c = x at h
    generalize (C20.abs s).add c = y at h
    obtain ⟨s', e⟩ := x
    obtain ⟨r', res⟩ := y
    obtain ⟨h1, h2, h3, h4, _⟩ := h
    refine ⟨?_, h1⟩
    cases res with
    | ok => have := h2.1 rfl; subst this; rfl
    | alreadyExists => have := h3.1 rfl; subst this; rfl
    | invalid => rcases h4.1 rfl with h | h <;> subst h <;> rfl
  | del k =>
    have h := C20.delete_refines s k
    simp only [mStep, aStep]
    generalize s.deletePeer k = x at h
    generalize (C20.abs s).delete k = y at h
    obtain ⟨s', e⟩ := x
    obtain ⟨r', ok⟩ := y
    obtain ⟨h1, h2, h3⟩ := h
    refine ⟨?_, h1⟩
    cases ok with
    | true => have := h2.1 rfl; subst this; rfl
    | false => have := h3.1 rfl; subst this; rfl
  | get k =>
    have h := C20.get_refines s k
    simp only [mStep, aStep, h]
    cases C20.abs s k <;> simp

omit [DecidableEq ρ] in
/-- a concurrent history that is linearizable for the registry model is linearizable for the
abstract partial map keyed by remote address -/
theorem registry_lin_transfer (h : List (Ev ROp RRes)) :
    Linearizable mStep ({} : Model.Server) h → Linearizable aStep Spec.Registry.empty h :=
  lin_transfer mStep aStep (fun s r => C20.abs s = r)
    (fun s r op hR => registry_sim s r op hR) {} Spec.Registry.empty
    (by funext k; simp [C20.abs, Model.Server.lookup, Spec.Registry.empty]) h

/-- non-vacuity / the checker does reject: two successful adds of the same key cannot be linearized
against a set-insert specification, two overlapping calls with the second result `false` can -/
def setStep (s : List Nat) (k : Nat) : List Nat × Bool := if k ∈ s then (s, false) else (k :: s, true)

example : lin setStep 2 [] [⟨0, 1, 4, 7, true⟩, ⟨1, 2, 3, 7, true⟩] = false := by decide
example : lin setStep 2 [] [⟨0, 1, 4, 7, false⟩, ⟨1, 2, 3, 7, true⟩] = true := by decide
/-- real-time order matters: the call that returned first cannot be ordered second -/
example : lin setStep 2 [] [⟨0, 1, 2, 7, false⟩, ⟨1, 3, 4, 7, true⟩] = false := by decide

end CoreBGP.Props.C20Lin
