import CoreBGP.Props.PathTie
/-! Path tie of C08: the reader goroutine (`fsm.read`) in the regenerated control paths of `fsm.go`. -/
namespace CoreBGP.Props.PathTieC08
open CoreBGP CoreBGP.Model CoreBGP.Gen CoreBGP.Props.PathTie

def lenGuard : String := "bodyLen<0||bodyLen+headerLength>maxMessageLength"

/-- the order of the checks of one iteration, as `Model.Reader.readOne` has it: the header is read whole before the marker
is looked at; the length is judged only once all 16 marker octets passed; the body is read only for an acceptable length
(and only if there is one); the message is decoded only after its body was read whole -/
theorem check_order :
    (∀ p ∈ pathsOf "read", p.guards.contains (lenGuard, true) = true ∨ p.guards.contains (lenGuard, false) = true →
      p.guards.head? = some ("i<16", false)) ∧
    (∀ p ∈ pathsOf "read", p.calls.contains "messageFromBytes" = true →
      p.guards.contains (lenGuard, false) = true ∧
      (p.guards.contains ("bodyLen>0", false) = true ∨ p.guards.contains ("io.ReadFull()!=nil", false) = true)) ∧
    (∀ p ∈ pathsOf "read", p.guards.contains ("bodyLen>0", true) = true → p.guards.contains (lenGuard, false) = true) ∧
    (∀ p ∈ pathsOf "read", p.guards.contains ("i<16", true) = true ∧ p.guards.contains ("header[i]!=0xFF", false) = true →
      p.exit = "loop" ∧ p.calls = []) := by
  decide

/-- a fault ends the reader: every path on which a check failed reports on `readerErrCh` (or gives way to `closeReaderCh`)
and returns; only a decoded message goes to `readerMsgCh`, after which the loop continues -/
theorem faults_end_the_reader :
    (∀ p ∈ pathsOf "read",
      (p.guards.contains ("header[i]!=0xFF", true) || p.guards.contains (lenGuard, true) || p.guards.contains ("io.ReadFull()!=nil", true) ||
        p.guards.contains ("messageFromBytes()!=nil", true)) = true →
      p.exit = "return" ∧ (p.guards.getLast? = some ("select send f.readerErrCh", true) ∨ p.guards.getLast? = some ("select recv f.closeReaderCh", true))) ∧
    (∀ p ∈ pathsOf "read", p.guards.contains ("select send f.readerMsgCh", true) = true →
      p.exit = "loop" ∧ p.guards.contains ("messageFromBytes()!=nil", false) = true) := by
  decide

/-- the reader never blocks without the way out: every hand-over to the FSM has the `closeReaderCh` alternative next to it,
and every path that returns closes `readerDoneCh` (the join the FSM waits for) -/
theorem reader_cancellable :
    (∀ p ∈ pathsOf "read", (p.guards.getLast? = some ("select send f.readerErrCh", true) ∨ p.guards.getLast? = some ("select send f.readerMsgCh", true)) →
      (pathsOf "read").any (fun q => q.guards.dropLast == p.guards.dropLast && q.guards.getLast? == some ("select recv f.closeReaderCh", true)) = true) ∧
    (∀ p ∈ pathsOf "read", p.exit = "return" → p.calls.getLast? = some "deferred close(f.readerDoneCh)") := by
  decide

end CoreBGP.Props.PathTieC08
