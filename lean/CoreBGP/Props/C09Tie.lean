import CoreBGP.Model.Peer
import CoreBGP.Gen.Transitions
/-!
# Tie between the FSM state graph of the L2 model and the source (`fsm.go`)

`Gen.stateReturns` (regenerated from the Go AST on every run) lists every `return <state>, <err>` of
the six state functions, with the way the accompanying error is built. The theorems say that the model's
state functions (`runOutcomes`, and `fOnClose` for the `closeCh` branches) leave a state exactly along
those returns, with an error of a class that such a return can carry:

* `model_step_in_code` — every next control location the model produces is backed by a return in the code;
* `code_return_in_model` — every return in the code is produced by the model for some state of the FSM.

A change of the code's state graph or of how an error is wrapped (`%w` dropped: `handleError` no longer
sees the NOTIFICATION) breaks one of them, whether or not a scenario happens to exercise it.
-/
namespace CoreBGP.Props.C09Tie
open CoreBGP CoreBGP.Model

def fnName : St → String
  | .idle => "idle" | .connect => "connect" | .active => "active" | .openSent => "openSent"
  | .openConfirm => "openConfirm" | .established => "established" | .disabled => "-"

def stName : St → String
  | .idle => "idleState" | .connect => "connectState" | .active => "activeState" | .openSent => "openSentState"
  | .openConfirm => "openConfirmState" | .established => "establishedState" | .disabled => "disabledState"

/-- the returns of the state function of `s` as (state, error shape) (the extractor resolves `return f.helper()`) -/
def codeRows (s : St) : List (String × String) :=
  (Gen.stateReturns.filter (·.fn == fnName s)).map fun r => (r.to, r.err)

/-- a return without an error -/
def plain (e : String) : Bool := e == "nil" || e == "-"

/-- error classes (`handleError`'s view) that a return of this shape can carry: a `notificationError` built on
the spot is Cease or not; an error wrapped with `%w` may in addition be a plain transport error -/
def admits (e : String) (k : EK) : Bool :=
  match e with
  | "notif:out=true" | "notif:out=false" => k == .cease || k == .damp
  | "wrap:%w" => true
  | _ => false

/-- is the control location `pc` (reached by a step of the state function of `s`) backed by a return? -/
def backed (s : St) (pc : FPc) : Bool :=
  match pc with
  | .req t => t.frm == s && (codeRows s).any fun r => r.1 == stName t.to && plain r.2
  | .errSend a d k => a == s && (codeRows s).any fun r => r.1 == stName d && admits r.2 k
  | _ => true

/-! evaluated facts about the generated table, one per (state, target, error class) the model produces -/
private theorem b_idle_connect : backed .idle (.req ⟨.idle, .connect⟩) = true := by decide
private theorem b_idle_disabled : backed .idle (.req ⟨.idle, .disabled⟩) = true := by decide
private theorem b_connect_openSent : backed .connect (.req ⟨.connect, .openSent⟩) = true := by decide
private theorem b_connect_idle : backed .connect (.req ⟨.connect, .idle⟩) = true := by decide
private theorem b_connect_disabled : backed .connect (.req ⟨.connect, .disabled⟩) = true := by decide
private theorem b_active_openSent : backed .active (.req ⟨.active, .openSent⟩) = true := by decide
private theorem b_active_idle : backed .active (.req ⟨.active, .idle⟩) = true := by decide
private theorem b_active_connect : backed .active (.req ⟨.active, .connect⟩) = true := by decide
private theorem b_active_disabled : backed .active (.req ⟨.active, .disabled⟩) = true := by decide
private theorem b_openSent_openConfirm : backed .openSent (.req ⟨.openSent, .openConfirm⟩) = true := by decide
private theorem b_openSent_idle : ∀ k, backed .openSent (.errSend .openSent .idle k) = true := by
  intro k; cases k <;> decide
private theorem b_openSent_active : backed .openSent (.errSend .openSent .active .io) = true := by decide
private theorem b_openSent_disabled : backed .openSent (.errSend .openSent .disabled .cease) = true := by decide
private theorem b_openConfirm_established : backed .openConfirm (.req ⟨.openConfirm, .established⟩) = true := by decide
private theorem b_openConfirm_idle : ∀ k, backed .openConfirm (.errSend .openConfirm .idle k) = true := by
  intro k; cases k <;> decide
private theorem b_openConfirm_disabled : backed .openConfirm (.errSend .openConfirm .disabled .cease) = true := by decide
private theorem b_established_idle : ∀ k, backed .established (.errSend .established .idle k) = true := by
  intro k; cases k <;> decide
private theorem b_established_disabled : backed .established (.errSend .established .disabled .cease) = true := by decide
private theorem b_run (s t : St) : backed s (.run t) = true := rfl

private theorem run_idle (i : Dir) (x : F) (o : Label × F) (ho : o ∈ runOutcomes i x .idle) :
    backed .idle o.2.pc = true := by
  simp only [runOutcomes, List.mem_singleton] at ho
  subst ho; exact b_idle_connect

private theorem run_connect (i : Dir) (x : F) (hx : x.pc = .run .connect) (o : Label × F)
    (ho : o ∈ runOutcomes i x .connect) : backed .connect o.2.pc = true := by
  simp only [runOutcomes, List.mem_cons, List.not_mem_nil, or_false] at ho
  rcases ho with rfl | rfl | rfl
  · exact b_connect_openSent
  · exact b_connect_idle
  · show backed .connect x.pc = true
    rw [hx]; rfl

private theorem run_active (i : Dir) (x : F) (o : Label × F)
    (ho : o ∈ runOutcomes i x .active) : backed .active o.2.pc = true := by
  simp only [runOutcomes] at ho
  split at ho
  · simp only [List.mem_cons, List.not_mem_nil, or_false] at ho
    rcases ho with rfl | rfl
    · exact b_active_openSent
    · exact b_active_idle
  · split at ho
    · simp only [List.mem_singleton] at ho
      subst ho; exact b_active_connect
    · simp at ho

private theorem run_openSent (i : Dir) (x : F) (o : Label × F)
    (ho : o ∈ runOutcomes i x .openSent) : backed .openSent o.2.pc = true := by
  simp only [runOutcomes, List.mem_append, List.mem_singleton] at ho
  rcases ho with rfl | ho
  · exact b_openSent_idle _
  · split at ho
    · simp only [List.mem_cons, List.not_mem_nil, or_false] at ho
      rcases ho with rfl | rfl
      · exact b_openSent_openConfirm
      · exact b_openSent_idle _
    · simp only [List.mem_singleton] at ho
      subst ho; exact b_openSent_active
    · simp only [List.mem_singleton] at ho
      subst ho; exact b_openSent_idle _
    · simp at ho

private theorem run_openConfirm (i : Dir) (x : F) (o : Label × F)
    (ho : o ∈ runOutcomes i x .openConfirm) : backed .openConfirm o.2.pc = true := by
  simp only [runOutcomes, List.mem_append, List.mem_cons, List.not_mem_nil, or_false] at ho
  rcases ho with (rfl | rfl) | ho
  · exact b_openConfirm_idle _
  · exact b_openConfirm_idle _
  · split at ho
    · simp only [List.mem_singleton] at ho
      subst ho; exact b_openConfirm_established
    · simp only [List.mem_singleton] at ho
      subst ho; exact b_openConfirm_idle _
    · simp at ho

private theorem run_established (i : Dir) (x : F) (hx : x.pc = .run .established) (o : Label × F)
    (ho : o ∈ runOutcomes i x .established) : backed .established o.2.pc = true := by
  simp only [runOutcomes] at ho
  split at ho
  · simp only [List.mem_singleton] at ho
    subst ho
    show backed .established x.pc = true
    rw [hx]; rfl
  · split at ho
    · simp only [List.mem_singleton] at ho
      subst ho; exact b_established_idle _
    · simp only [List.mem_append, List.mem_cons, List.not_mem_nil, or_false] at ho
      rcases ho with (rfl | rfl) | ho
      · exact b_established_idle _
      · exact b_established_idle _
      · split at ho
        · simp only [List.mem_singleton] at ho
          subst ho
          show backed .established x.pc = true
          rw [hx]; rfl
        · simp only [List.mem_singleton] at ho
          subst ho
          show backed .established x.pc = true
          rw [hx]; rfl
        · simp only [List.mem_singleton] at ho
          subst ho
          show backed .established x.pc = true
          rw [hx]; rfl
        · simp only [List.mem_singleton] at ho
          subst ho; exact b_established_idle _
        · simp at ho

private theorem close_case (i : Dir) (x : F) (s : St) (hx : x.pc = .run s) (o : Label × F)
    (ho : o ∈ fOnClose i x) : backed s o.2.pc = true := by
  cases s <;> simp only [fOnClose, hx] at ho
  case idle => simp only [List.mem_singleton] at ho; subst ho; exact b_idle_disabled
  case connect => simp only [List.mem_singleton] at ho; subst ho; exact b_connect_disabled
  case active => simp only [List.mem_singleton] at ho; subst ho; exact b_active_disabled
  case openSent => simp only [List.mem_singleton] at ho; subst ho; exact b_openSent_disabled
  case openConfirm => simp only [List.mem_singleton] at ho; subst ho; exact b_openConfirm_disabled
  case established =>
    split at ho
    · simp only [List.mem_singleton] at ho
      subst ho; exact b_established_disabled
    · simp at ho
  case disabled => simp at ho

/-- every step of a state function of the model — ordinary outcome or `closeCh` branch — that leaves the
state function does so along a `return` of the code, with an error class that return can carry -/
theorem model_step_in_code (i : Dir) (x : F) (s : St) (hx : x.pc = .run s) (o : Label × F)
    (ho : o ∈ runOutcomes i x s ∨ o ∈ fOnClose i x) : backed s o.2.pc = true := by
  rcases ho with ho | ho
  · cases s
    case idle => exact run_idle i x o ho
    case connect => exact run_connect i x hx o ho
    case active => exact run_active i x o ho
    case openSent => exact run_openSent i x o ho
    case openConfirm => exact run_openConfirm i x o ho
    case established => exact run_established i x hx o ho
    case disabled => simp [runOutcomes] at ho
  · exact close_case i x s hx o ho

/-- candidate FSM states used as witnesses below -/
def witnesses (s : St) : List (Dir × F) :=
  let heads : List (List MsgC) := [[], [.openOk], [.openBad], [.ka], [.upd], [.updVeto], [.notifCease], [.notifOther], [.garbage], [.eof]]
  ([Dir.out, Dir.inn].flatMap fun i => [true, false].flatMap fun c => [true, false].flatMap fun e => heads.map fun q =>
    (i, ({ pc := .run s, conn := c, inEst := e, inq := q } : F)))

/-- does the model produce, from one of the witnesses, a step that matches the return (to, e)? -/
def produced (s : St) (r : String × String) : Bool :=
  (witnesses s).any fun (i, x) =>
    (runOutcomes i x s ++ fOnClose i x).any fun o =>
      match o.2.pc with
      | .req t => t.frm == s && stName t.to == r.1 && plain r.2
      | .errSend a d k => a == s && stName d == r.1 && admits r.2 k
      | _ => false

/-- every `return` of every state function in the code is a step of the model -/
theorem code_return_in_model :
    ∀ s ∈ [St.idle, .connect, .active, .openSent, .openConfirm, .established], ∀ r ∈ codeRows s, produced s r = true := by
  decide

/-- every state function can be left towards `disabledState` (it listens on `closeCh`) -/
theorem every_state_offers_stop :
    ∀ s ∈ [St.idle, .connect, .active, .openSent, .openConfirm, .established],
      (codeRows s).any (fun r => r.1 == "disabledState") = true := by
  decide

end CoreBGP.Props.C09Tie
