import CoreBGP.Props.DecTie
import CoreBGP.Model.Reader
/-! Decision ties of C08 (see `Props.DecTie` for the method): the header checks of the reader goroutine `fsm.read`. -/
namespace CoreBGP.Props.DecTieC08
open CoreBGP CoreBGP.Model CoreBGP.Gen CoreBGP.Lemmas.DecTie CoreBGP.Props.DecTie

private theorem d_len : decision "fsm.read" "if" 2 =
    .or (.cmp "<" "bodyLen" "0") (.cmp ">" "bodyLen+headerLength" "maxMessageLength") := by decide
private theorem d_marker : decision "fsm.read" "if" 1 = .cmp "!=" "header[i]" "0xFF" := by decide
private theorem d_body : decision "fsm.read" "if" 3 = .cmp ">" "bodyLen" "0" := by decide

/-- the length check: with `bodyLen = int(length) - headerLength` (a signed `int`), the Go condition
`bodyLen < 0 || bodyLen+headerLength > maxMessageLength` is the model's `len < headerLength ∨ len > maxMessageLength`
(`Model.Reader.readOne`), for every value of the 16-bit length field -/
theorem length_check (len : Nat) :
    let ρ := envOf [("bodyLen", (len : Int) - (Gen.headerLength : Int)), ("0", 0), ("bodyLen+headerLength", (len : Int)),
                    ("maxMessageLength", (Gen.maxMessageLength : Int))]
    BExp.eval ρ (decision "fsm.read" "if" 2) = (decide (len < Gen.headerLength) || decide (len > Gen.maxMessageLength)) := by
  intro ρ
  have h1 : ρ "bodyLen" = (len : Int) - (Gen.headerLength : Int) := rfl
  have h2 : ρ "0" = 0 := rfl
  have h3 : ρ "bodyLen+headerLength" = (len : Int) := rfl
  have h4 : ρ "maxMessageLength" = (Gen.maxMessageLength : Int) := rfl
  simp only [d_len, eval_or, eval_lt, eval_gt, h1, h2, h3, h4]
  congr 1 <;> (apply decide_eq_decide.mpr; omega)

/-- the marker check: an octet fails it iff it is not 0xFF (`(header.take 16).any (· ≠ 0xFF)` in the model) -/
theorem marker_check (b : UInt8) :
    let ρ := envOf [("header[i]", (b.toNat : Int)), ("0xFF", 255)]
    BExp.eval ρ (decision "fsm.read" "if" 1) = decide (b ≠ 0xFF) := by
  intro ρ
  have h1 : ρ "header[i]" = (b.toNat : Int) := rfl
  have h2 : ρ "0xFF" = 255 := rfl
  simp only [d_marker, eval_ne, h1, h2]
  have : (b ≠ 0xFF) ↔ b.toNat ≠ 255 := by
    constructor
    · intro h hc; apply h; exact UInt8.toNat_inj.mp (by simpa using hc)
    · intro h hc; apply h; rw [hc]; rfl
  simp only [this, bne, decide_not]
  congr 1
  by_cases hb : b.toNat = 255 <;> simp [hb]
  · omega

/-- a body is read only if there is one: `bodyLen > 0` -/
theorem body_read (len : Nat) (h : Gen.headerLength ≤ len) :
    let ρ := envOf [("bodyLen", (len : Int) - (Gen.headerLength : Int)), ("0", 0)]
    BExp.eval ρ (decision "fsm.read" "if" 3) = decide (0 < len - Gen.headerLength) := by
  intro ρ
  have h1 : ρ "bodyLen" = (len : Int) - (Gen.headerLength : Int) := rfl
  have h2 : ρ "0" = 0 := rfl
  simp only [d_body, eval_gt, h1, h2]
  apply decide_eq_decide.mpr; omega

end CoreBGP.Props.DecTieC08
