import CoreBGP.Props.PathTie
import CoreBGP.Model.Server
/-! Path tie of C13 (see `Props.PathTie` for the method): `Server.handleInboundConn` on the regenerated control paths against
`Model.Server.admit`. -/
namespace CoreBGP.Props.PathTieC13
open CoreBGP CoreBGP.Model CoreBGP.Gen CoreBGP.Props.PathTie

/-- the facts the guards of `handleInboundConn` look at (the remote address of an accepted connection always parses) -/
structure ACls where
  known : Bool        -- a peer is configured for the source address
  hasLocal : Bool     -- that peer has a local address configured
  mismatch : Bool     -- the destination of the connection is not that address (or does not parse)
deriving DecidableEq, Repr, Inhabited

def envOfACls (c : ACls) : GEnv := fun g =>
  if g = "net.SplitHostPort()!=nil" then some false
  else if g = "!exists" then some (!c.known)
  else if g = "p.options.localAddress.IsValid()" then some c.hasLocal
  else if g = "err!=nil||p.options.localAddress!=laddr" then some c.mismatch
  else none

def admitted (c : ACls) : Bool := c.known && (!c.hasLocal || !c.mismatch)

def bools : List Bool := [false, true]
def allACls : List ACls := bools.flatMap fun a => bools.flatMap fun b => bools.map fun c => ({ known := a, hasLocal := b, mismatch := c } : ACls)

/-- the code side: for every combination of the facts a path is selected; every selected path either hands the connection to
the peer manager (once) or closes it (once) — never both, never neither —, hands it over exactly when `admitted`, writes nothing
to it, and releases the server's lock if it took it -/
theorem code_admission :
    ∀ c ∈ allACls, (selected "server.handleInboundConn" (envOfACls c)).isEmpty = false ∧
      (selected "server.handleInboundConn" (envOfACls c)).all (fun p =>
        p.calls.contains "p.incomingConnection" == admitted c && p.calls.contains "conn.Close" == !admitted c &&
        (p.calls.filter (· == "p.incomingConnection")).length == (if admitted c then 1 else 0) &&
        (p.calls.filter (· == "conn.Close")).length == (if admitted c then 0 else 1) &&
        p.calls.all (fun x => x != "conn.Write" && x != "f.conn.Write(b)") &&
        (p.calls.contains "s.mu.Lock" == p.calls.contains "deferred s.mu.Unlock()")) = true := by
  decide

/-- a connection whose remote address does not parse is closed without looking at the registry -/
theorem unparsable_source_closed :
    ∀ p ∈ pathsOf "server.handleInboundConn", p.guards.contains ("net.SplitHostPort()!=nil", true) = true →
      p.calls = ["net.SplitHostPort", "conn.Close"] := by
  decide

/-- the class of a connection for a registry state -/
def aclsOf (s : Server) (src dst : Addr) : ACls :=
  match s.lookup src with
  | none => { known := false, hasLocal := false, mismatch := false }
  | some c => { known := true, hasLocal := c.localAddr.isValid, mismatch := decide (c.localAddr ≠ dst) }

theorem mem_allACls (c : ACls) : c ∈ allACls := by
  rcases c with ⟨a, b, c⟩; cases a <;> cases b <;> cases c <;> decide

/-- the model side: `Server.admit` hands the connection over exactly when the class is `admitted` -/
theorem admit_shape (s : Server) (src dst : Addr) : (s.admit src dst).isSome = admitted (aclsOf s src dst) := by
  unfold Server.admit aclsOf admitted
  cases h : s.lookup src with
  | none => simp
  | some c =>
    by_cases hv : c.localAddr.isValid = true <;> by_cases hd : c.localAddr = dst <;> simp [hv, hd]

/-- **admission is what the code's paths do**: for every registry state, source and destination, every control path of
`handleInboundConn` selected by the facts of that connection hands it to the peer manager exactly when `Model.Server.admit`
admits it, and closes it — silently: nothing is written — exactly when it does not -/
theorem admit_follows_code (s : Server) (src dst : Addr) :
    selected "server.handleInboundConn" (envOfACls (aclsOf s src dst)) ≠ [] ∧
    ∀ p ∈ selected "server.handleInboundConn" (envOfACls (aclsOf s src dst)),
      (p.calls.contains "p.incomingConnection" = (s.admit src dst).isSome) ∧
      (p.calls.contains "conn.Close" = !(s.admit src dst).isSome) := by
  obtain ⟨hne, hall⟩ := code_admission _ (mem_allACls (aclsOf s src dst))
  refine ⟨by intro h; rw [h] at hne; simp at hne, ?_⟩
  intro p hp
  have h := List.all_eq_true.mp hall p hp
  simp only [Bool.and_eq_true, beq_iff_eq] at h
  rw [admit_shape]
  exact ⟨h.1.1.1.1.1, h.1.1.1.1.2⟩

end CoreBGP.Props.PathTieC13
