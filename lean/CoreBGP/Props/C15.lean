import CoreBGP.Model.Packet
import CoreBGP.Spec.Wire
import CoreBGP.Lemmas.Packet
/-!
# C15 — OPEN / NOTIFICATION / capability codecs round-trip and are strict

Property theorems only (helper lemmas live in `CoreBGP.Lemmas`). Model = transcription of
`packet.go`; Spec = RFC 4271 §4.2/§4.5, RFC 5492, RFC 7911, RFC 4760.
-/
namespace CoreBGP.Props.C15
open CoreBGP CoreBGP.Model

/-! ## NOTIFICATION -/

/-- decoding a NOTIFICATION body is the inverse of encoding it, for every code, subcode and
data of any length -/
theorem notif_rt (n : Notif) : decodeNotif (encodeNotifBody n) = .ok n := by
  cases n with
  | mk c s d => cases d <;> simp [encodeNotifBody, decodeNotif]

/-- every byte string the NOTIFICATION decoder accepts re-encodes to itself -/
theorem notif_tr (b : Bytes) (n : Notif) (h : decodeNotif b = .ok n) : encodeNotifBody n = b := by
  match b, h with
  | c :: s :: rest, h =>
    simp [decodeNotif] at h
    subst h
    cases rest <;> simp [encodeNotifBody]

/-- the decoder rejects (with an error, not a partial value) exactly the byte strings that lack
the two fixed octets -/
theorem notif_strict (b : Bytes) : (∃ n, decodeNotif b = .ok n) ↔ 2 ≤ b.length := by
  match b with
  | [] => simp [decodeNotif]
  | [_] => simp [decodeNotif]
  | c :: s :: rest => simp [decodeNotif]

/-- the model's encoder is the RFC 4271 §4.5 layout -/
theorem notif_body_spec (n : Notif) : encodeNotifBody n = Spec.notifBody n := by
  cases n with
  | mk c s d => cases d <;> simp [encodeNotifBody, Spec.notifBody]

/-- a NOTIFICATION reaches the wire as marker, true length, type 3, code, subcode, data — for
every data length that fits a message (0..4075) -/
theorem notif_wire (n : Notif) (h : n.data.length ≤ 4075) :
    encodeNotif n = Spec.frame 3 (Spec.notifBody n) := by
  unfold encodeNotif
  rw [Lemmas.encodeNotifBody_eq, Lemmas.prependHeader_frame]
  · rfl
  · simp [Spec.notifBody]; omega

example : decodeNotif (encodeNotifBody ⟨5, 3, [1]⟩) = .ok ⟨5, 3, [1]⟩ := by decide

/-! ## OPEN -/

/-- the OPEN decoder accepts exactly the byte strings the RFC grammar accepts, with exactly the
RFC's reading of them -/
theorem open_decode_iff (b : Bytes) (o : OpenMsg) :
    decodeOpen b = .ok o ↔ Spec.parseOpen b = some o := by
  rcases Lemmas.decodeOpen_cases b with ⟨o', h1, h2⟩ | ⟨n, h1, h2, _⟩
  · rw [h1, h2]
    constructor
    · intro h; cases h; rfl
    · intro h; cases h; rfl
  · rw [h1, h2]
    constructor
    · intro h; cases h
    · intro h; cases h

/-- the OPEN decoder never indexes out of bounds, for byte strings of every length (the 8-bit
`paramLen+2` / `capLen+2` cannot wrap inside an OPEN because Opt Parm Len bounds the block) -/
theorem open_decode_no_panic (b : Bytes) : decodeOpen b ≠ .panic := by
  rcases Lemmas.decodeOpen_cases b with ⟨o', h1, _⟩ | ⟨n, h1, _, _⟩
  · rw [h1]; intro h; cases h
  · rw [h1]; intro h; cases h

/-- a refused OPEN is refused with a `notificationError` that is to be sent and that names a
structural fault actually present in the body -/
theorem open_decode_err (b : Bytes) (e : PErr) (h : decodeOpen b = .err e) :
    ∃ n, e = .notif n true ∧ (n.code.toNat, n.sub.toNat) ∈ Spec.openStructFaults b := by
  rcases Lemmas.decodeOpen_cases b with ⟨o', h1, _⟩ | ⟨n, h1, _, h3⟩
  · rw [h1] at h; cases h
  · rw [h1] at h; cases h; exact ⟨n, rfl, h3⟩

/-- spec-level round trip: the wire form of a representable OPEN parses back to it -/
theorem open_spec_rt (o : OpenMsg) (h : Spec.Representable o) : Spec.parseOpen (Spec.openBody o) = some o :=
  Lemmas.open_spec_rt' o h

/-- spec-level strictness: whatever parses is representable and re-encodes to the same bytes -/
theorem open_spec_tr (b : Bytes) (o : OpenMsg) (h : Spec.parseOpen b = some o) :
    Spec.Representable o ∧ Spec.openBody o = b :=
  Lemmas.open_spec_tr' b o h

/-- the encoder produces the RFC wire form for every representable OPEN -/
theorem open_encode (o : OpenMsg) (h : Spec.Representable o) :
    encodeOpenBody o = some (Spec.openBody o) := by
  obtain ⟨_, h1, h2⟩ := (Lemmas.representable_iff o).1 h
  exact Lemmas.encodeOpenBody_ok o h1 h2

/-- decode ∘ encode = id on representable OPENs -/
theorem open_rt (o : OpenMsg) (h : Spec.Representable o) :
    ∃ b, encodeOpenBody o = some b ∧ decodeOpen b = .ok o := by
  exact ⟨_, open_encode o h, (open_decode_iff _ _).2 (open_spec_rt o h)⟩

/-- accepted byte strings re-encode to themselves; in particular acceptance implies that the
fixed fields are present and every nested length octet agrees with the bytes that follow -/
theorem open_tr (b : Bytes) (o : OpenMsg) (h : decodeOpen b = .ok o) :
    encodeOpenBody o = some b := by
  have hs := (open_decode_iff b o).1 h
  have ⟨hr, hb⟩ := open_spec_tr b o hs
  rw [← hb]; exact open_encode o hr

example : Spec.Representable ⟨4, 65001, 90, 1, [[⟨65, [0, 0, 253, 233]⟩, ⟨1, [0, 1, 0, 1]⟩], [⟨2, []⟩]]⟩ := by decide

/-! ## capability helpers -/

/-- `DecodeAddPathTuples` accepts exactly non-empty sequences of AFI(2) SAFI(1) Send/Receive ∈
{1,2,3} and reads them as RFC 7911 says -/
theorem addpath_decode_iff (b : Bytes) (ts : List AddPathTuple) :
    decodeAddPathTuples b = .ok ts ↔ Spec.parseAddPathCap b = some ts :=
  Lemmas.addpath_decode_iff' b ts

/-- add-path tuples round-trip for send/receive values 1–3 -/
theorem addpath_rt (ts : List AddPathTuple) (hne : ts ≠ []) (hv : ∀ t ∈ ts, t.tx = true ∨ t.rx = true) :
    decodeAddPathTuples (newAddPathCapability ts).value = .ok ts := by
  apply (addpath_decode_iff _ _).2
  unfold Spec.parseAddPathCap newAddPathCapability
  rw [if_neg, Lemmas.parseAddPath_encode ts hv]
  cases ts with
  | nil => exact absurd rfl hne
  | cons t ts => simp [encodeAddPathTuple, be16Bytes]

/-- the add-path capability is code 69 with the RFC 7911 tuple encoding -/
theorem addpath_encode (ts : List AddPathTuple) (ws : List Bytes) (h : ts.mapM Spec.addPathWire = some ws) :
    newAddPathCapability ts = ⟨69, ws.flatten⟩ :=
  Lemmas.addpath_encode' ts ws h

/-- the multiprotocol capability is AFI(2) reserved(1)=0 SAFI(1), code 1 -/
theorem mp_cap (afi : UInt16) (safi : UInt8) :
    newMPExtensionsCapability afi safi = ⟨1, Spec.mpCapWire afi safi⟩ := by
  simp [newMPExtensionsCapability, Spec.mpCapWire, Gen.CAP_MP_EXTENSIONS, be16Bytes, Spec.u16]

end CoreBGP.Props.C15
