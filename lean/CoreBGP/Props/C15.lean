import CoreBGP.Model.Packet
import CoreBGP.Spec.Wire
/-!
# C15 — OPEN / NOTIFICATION / capability codecs round-trip and are strict

Property theorems only (helper lemmas live in `CoreBGP.Lemmas`). Model = transcription of
`packet.go`; Spec = RFC 4271 §4.2/§4.5, RFC 5492, RFC 7911, RFC 4760.
-/
namespace CoreBGP.Props.C15
open CoreBGP CoreBGP.Model

/-- decoding a NOTIFICATION body is the inverse of encoding it, for every code, subcode and
data of any length -/
theorem notif_rt (n : Notif) : decodeNotif (encodeNotifBody n) = .ok n := by
  cases n with
  | mk c s d =>
    cases d with
    | nil => simp [encodeNotifBody, decodeNotif]
    | cons x xs => simp [encodeNotifBody, decodeNotif]

/-- every byte string the NOTIFICATION decoder accepts re-encodes to itself -/
theorem notif_tr (b : Bytes) (n : Notif) (h : decodeNotif b = .ok n) : encodeNotifBody n = b := by
  match b, h with
  | c :: s :: rest, h =>
    simp [decodeNotif] at h
    subst h
    cases rest <;> simp [encodeNotifBody]

/-- the decoder rejects (with an error, not a partial value) exactly the byte strings that lack
the two fixed octets -/
theorem notif_strict (b : Bytes) : (∃ n, decodeNotif b = .ok n) ↔ 2 ≤ b.length := by
  match b with
  | [] => simp [decodeNotif]
  | [_] => simp [decodeNotif]
  | c :: s :: rest => simp [decodeNotif]

/-- the model's encoder is the RFC 4271 §4.5 layout -/
theorem notif_body_spec (n : Notif) : encodeNotifBody n = Spec.notifBody n := by
  cases n with
  | mk c s d => cases d <;> simp [encodeNotifBody, Spec.notifBody]

/-- the multiprotocol capability is AFI(2) reserved(1)=0 SAFI(1), code 1 -/
theorem mp_cap (afi : UInt16) (safi : UInt8) :
    newMPExtensionsCapability afi safi = ⟨1, Spec.mpCapWire afi safi⟩ := by
  simp [newMPExtensionsCapability, Spec.mpCapWire, Gen.CAP_MP_EXTENSIONS, be16Bytes, Spec.u16]

example : decodeNotif (encodeNotifBody ⟨5, 3, [1]⟩) = .ok ⟨5, 3, [1]⟩ := by decide

end CoreBGP.Props.C15
