import CoreBGP.Props.DecTie
/-! Decision ties of C13 (see `Props.DecTie` for the method). -/
namespace CoreBGP.Props.DecTieC13
open CoreBGP CoreBGP.Model CoreBGP.Gen CoreBGP.Lemmas.DecTie CoreBGP.Props.DecTie

/-! the generated table, evaluated (a changed decision of these functions is reported here) -/
private theorem d_run_if0 : decision "peer.run" "if" 0 = .atom "p.inHoldDown" := by decide
private theorem d_run_if1 : decision "peer.run" "if" 1 =
    .or (.cmp "!=" "p.fsms[in]" "nil") (.cmp "==" "p.fsmState[out]" "establishedState") := by decide

/-! ## C13: admission of an inbound connection by the peer manager (`peer.run`, `case conn := <-p.inConnCh`) -/

/-- leaves of the two conditions read off a manager state -/
def admissionEnv (s : PState) : Env :=
  envOf (stateConsts ++ [("p.inHoldDown", b2i s.holdDown), ("p.fsms[in]", b2i s.presentI), ("p.fsmState[out]", rankI s.stO)])

/-- Go: `if p.inHoldDown { close } ; if p.fsms[in] != nil || p.fsmState[out] == establishedState { close } else { enableFSM(in, conn) }` -/
def goRefuses (ρ : Env) : Bool :=
  BExp.eval ρ (decision "peer.run" "if" 0) || BExp.eval ρ (decision "peer.run" "if" 1)

private theorem goRefuses_eq (s : PState) :
    goRefuses (admissionEnv s) = (s.holdDown || s.presentI || decide (s.stO = .established)) := by
  have a1 : admissionEnv s "p.inHoldDown" = b2i s.holdDown := rfl
  have a2 : admissionEnv s "p.fsms[in]" = b2i s.presentI := rfl
  have a3 : admissionEnv s "p.fsmState[out]" = rankI s.stO := rfl
  have a4 : admissionEnv s "establishedState" = rankI .established := rfl
  have a5 : admissionEnv s "nil" = 0 := rfl
  simp only [goRefuses, d_run_if0, d_run_if1, eval_atom, eval_or, eval_ne, eval_eq, a1, a2, a3, a4, a5,
    b2i_ne_zero, rankI_beq, Bool.or_assoc]

theorem admission (s : PState) (h : s.pdone = false) :
    ((Label.inConn false, s) ∈ pMain s ↔ goRefuses (admissionEnv s) = true) ∧
    ((Label.inConn true, { s with todo := [.enable .inn true] }) ∈ pMain s ↔ goRefuses (admissionEnv s) = false) := by
  rw [inConn_mem_pMain s h, inConn_mem_pMain s h, goRefuses_eq]
  by_cases hc : (s.holdDown || s.presentI || decide (s.stO = .established)) = true
  · simp [hc]
  · simp [hc]

end CoreBGP.Props.DecTieC13

namespace CoreBGP.Props.DecTieC13
open CoreBGP CoreBGP.Model CoreBGP.Gen CoreBGP.Lemmas.DecTie CoreBGP.Props.DecTie

/-! ## C13: the server's part of admission (`Server.handleInboundConn`) -/

/-- addresses as integers (injective: `addrI_inj`) -/
def addrI (a : Addr) : Int :=
  (a.id : Int) * 3 + (match a.kind with | .invalid => 0 | .v4 => 1 | .v6 => 2)

theorem addrI_inj (a b : Addr) : addrI a = addrI b ↔ a = b := by
  constructor
  · intro h
    cases a with | mk ka ia => cases b with | mk kb ib =>
    simp only [addrI] at h
    cases ka <;> cases kb <;> simp at h ⊢ <;> omega
  · rintro rfl; rfl

/-- leaves of the conditions of `handleInboundConn` for a connection from `src` to `dst`; `err` is the result of
splitting / parsing the address strings of an accepted TCP connection, which does not fail -/
def inboundEnv (s : Server) (src dst : Addr) : Env :=
  envOf [("nil", 0), ("err", 0), ("exists", b2i (s.lookup src).isSome),
         ("p.options.localAddress.IsValid()", b2i (((s.lookup src).map (·.localAddr.isValid)).getD false)),
         ("p.options.localAddress", ((s.lookup src).map (fun c => addrI c.localAddr)).getD 0), ("laddr", addrI dst)]

/-- Go: `if err != nil {close}; p, exists := s.peers[h]; if !exists {close}; if p.options.localAddress.IsValid()
{ if err != nil || p.options.localAddress != laddr {close} }; p.incomingConnection(conn)` -/
def goHandsOver (ρ : Env) : Bool :=
  let d := fun n => BExp.eval ρ (decision "Server.handleInboundConn" "if" n)
  if d 0 then false
  else if d 1 then false
  else if d 2 then (if d 3 then false else true)
  else true

private theorem d_in0 : decision "Server.handleInboundConn" "if" 0 = .cmp "!=" "err" "nil" := by decide
private theorem d_in1 : decision "Server.handleInboundConn" "if" 1 = .not (.atom "exists") := by decide
private theorem d_in2 : decision "Server.handleInboundConn" "if" 2 = .atom "p.options.localAddress.IsValid()" := by decide
private theorem d_in3 : decision "Server.handleInboundConn" "if" 3 =
    .or (.cmp "!=" "err" "nil") (.cmp "!=" "p.options.localAddress" "laddr") := by decide

theorem server_admission (s : Server) (src dst : Addr) :
    (s.admit src dst).isSome = goHandsOver (inboundEnv s src dst) := by
  unfold goHandsOver Server.admit
  simp only [d_in0, d_in1, d_in2, d_in3, eval_ne, eval_not, eval_atom, eval_or]
  cases h : s.lookup src with
  | none => simp [inboundEnv, envOf, h, b2i]
  | some c =>
    have hne : (addrI c.localAddr != addrI dst) = (c.localAddr != dst) := by
      by_cases hh : c.localAddr = dst
      · subst hh; simp
      · have h1 : addrI c.localAddr ≠ addrI dst := fun e => hh ((addrI_inj _ _).1 e)
        have h2 : (addrI c.localAddr == addrI dst) = false := by simpa using h1
        have h3 : (c.localAddr == dst) = false := by simpa using hh
        simp [bne, h2, h3]
    have e1 : inboundEnv s src dst "err" = 0 := by simp [inboundEnv, envOf]
    have e2 : inboundEnv s src dst "nil" = 0 := by simp [inboundEnv, envOf]
    have e3 : inboundEnv s src dst "exists" = 1 := by simp [inboundEnv, envOf, h, b2i]
    have e4 : inboundEnv s src dst "p.options.localAddress.IsValid()" = b2i c.localAddr.isValid := by
      simp [inboundEnv, envOf, h]
    have e5 : inboundEnv s src dst "p.options.localAddress" = addrI c.localAddr := by simp [inboundEnv, envOf, h]
    have e6 : inboundEnv s src dst "laddr" = addrI dst := by simp [inboundEnv, envOf]
    simp only [e1, e2, e3, e4, e5, e6, hne, b2i_ne_zero]
    cases hv : c.localAddr.isValid <;> by_cases hd : c.localAddr = dst <;> simp [hv, hd]

end CoreBGP.Props.DecTieC13
