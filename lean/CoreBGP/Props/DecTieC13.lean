import CoreBGP.Props.DecTie
/-! Decision ties of C13 (see `Props.DecTie` for the method). -/
namespace CoreBGP.Props.DecTieC13
open CoreBGP CoreBGP.Model CoreBGP.Gen CoreBGP.Lemmas.DecTie CoreBGP.Props.DecTie

/-! ## C13: admission of an inbound connection by the peer manager (`peer.run`, `case conn := <-p.inConnCh`) -/

/-- leaves of the two conditions read off a manager state -/
def admissionEnv (s : PState) : Env :=
  envOf (stateConsts ++ [("p.inHoldDown", b2i s.holdDown), ("p.fsms[in]", b2i s.presentI), ("p.fsmState[out]", rankI s.stO)])

/-- Go: `if p.inHoldDown { close } ; if p.fsms[in] != nil || p.fsmState[out] == establishedState { close } else { enableFSM(in, conn) }` -/
def goRefuses (ρ : Env) : Bool :=
  BExp.eval ρ (decision "peer.run" "if" 0) || BExp.eval ρ (decision "peer.run" "if" 1)

private theorem goRefuses_eq (s : PState) :
    goRefuses (admissionEnv s) = (s.holdDown || s.presentI || decide (s.stO = .established)) := by
  have a1 : admissionEnv s "p.inHoldDown" = b2i s.holdDown := rfl
  have a2 : admissionEnv s "p.fsms[in]" = b2i s.presentI := rfl
  have a3 : admissionEnv s "p.fsmState[out]" = rankI s.stO := rfl
  have a4 : admissionEnv s "establishedState" = rankI .established := rfl
  have a5 : admissionEnv s "nil" = 0 := rfl
  simp only [goRefuses, d_run_if0, d_run_if1, eval_atom, eval_or, eval_ne, eval_eq, a1, a2, a3, a4, a5,
    b2i_ne_zero, rankI_beq, Bool.or_assoc]

theorem admission (s : PState) (h : s.pdone = false) :
    ((Label.inConn false, s) ∈ pMain s ↔ goRefuses (admissionEnv s) = true) ∧
    ((Label.inConn true, { s with todo := [.enable .inn true] }) ∈ pMain s ↔ goRefuses (admissionEnv s) = false) := by
  rw [inConn_mem_pMain s h, inConn_mem_pMain s h, goRefuses_eq]
  by_cases hc : (s.holdDown || s.presentI || decide (s.stO = .established)) = true
  · simp [hc]
  · simp [hc]

end CoreBGP.Props.DecTieC13
