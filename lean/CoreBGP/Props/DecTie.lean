import CoreBGP.Model.GoExpr
import CoreBGP.Model.Peer
import CoreBGP.Model.Server
import CoreBGP.Lemmas.DecTie
/-!
# Decision logic: the model decides what the translated Go conditions decide

`Gen.decisions` is regenerated from the Go AST on every run (conditions of `if`, cases of `switch`,
boolean assignments and returns of the peer manager, the registry / admission code and the
configuration validators). Each theorem below evaluates the relevant Go conditions — in the control
structure of the Go function, which is written out in the statement — under an environment that reads
the leaves off an arbitrary model state, and states that the result is the model's decision.
They hold for every state / configuration; a changed condition in the code breaks them whether or not a
scenario exercises it.

The shared definitions are here; the theorems are in `Props.DecTieC07/C11/C12/C13/C20`, one module per property,
so that a changed decision is reported for the property it belongs to. Used by C13 (`admission`), C07 (`collision_switch`, `dominance`), C11 (`enable_out_unless_passive`),
C12 (`damping`, `startup_delay`), C20 (`options_valid`, `config_valid`).
-/
namespace CoreBGP.Props.DecTie
open CoreBGP CoreBGP.Model CoreBGP.Gen CoreBGP.Lemmas.DecTie


def rankI (s : St) : Int := (s.rank.toNat : Int)

/-- the state constants as the environment sees them -/
def stateConsts : List (String × Int) :=
  [("disabledState", rankI .disabled), ("idleState", rankI .idle), ("connectState", rankI .connect),
   ("activeState", rankI .active), ("openSentState", rankI .openSent), ("openConfirmState", rankI .openConfirm),
   ("establishedState", rankI .established), ("nil", 0), ("out", 0), ("in", 1), ("0", 0)]

def dirI : Dir → Int | .out => 0 | .inn => 1

/-! helper facts about the encodings (`rankI`, `dirI`) -/
theorem rankI_beq (a b : St) : (rankI a == rankI b) = decide (a = b) := by
  cases a <;> cases b <;> decide
theorem rankI_lt (a b : St) : rankI a < rankI b ↔ a.rank < b.rank := by
  cases a <;> cases b <;> decide
theorem dirI_in (i : Dir) : (dirI i == 1) = decide (i = .inn) := by cases i <;> rfl
theorem dirI_out (i : Dir) : (dirI i == 0) = decide (i = .out) := by cases i <;> rfl

end CoreBGP.Props.DecTie
