import CoreBGP.Model.PathSem
/-!
# Path tie: the L1 session machine `react` against the regenerated control paths of `fsm.go`

`Gen.codePaths` is regenerated from `/repo` on every run (every control path of `openSent`, `openConfirm`,
`established` and their helpers: guards, effects in program order, exit). The theorems:

* `react_follows_code` — for every configuration, state, input and plugin answer: the class of the input
  selects at least one path of the state function, and *every* selected path has exactly the visible effects
  of `react` (NOTIFICATION / KEEPALIVE written, `OnOpenMessage`, handler, connection closed, `OnClose`, in
  that order) and its exit (stay in the loop, or the state and error class reported to the peer manager).
* `every_path_modelled` — every path of the three functions is selected by the class of some model input,
  except the paths on which the KEEPALIVE write failed (a transport fault: the model has it as the reader's
  error that follows).
* `calls_known`, `established_prologue`, `one_write_per_send`: nothing else is called on those paths, `OnEstablished` is
  called once, before the loop, and a NOTIFICATION / KEEPALIVE is one `Write`.

This module holds the definitions and the part that does not depend on the generated paths (`react_shape`,
`follows_of_shapeOK`); the statements evaluated on `Gen.codePaths` are split by scope over `PathTieC02`,
`PathTieC03`, `PathTieC06`, `PathTieC09`, `PathTieC10` (plus `PathTieC01`, `PathTieC04` for the callback /
write inventory), so that a change to one part of a state function is reported by the property it belongs to.
-/
namespace CoreBGP.Props.PathTie
open CoreBGP CoreBGP.Model CoreBGP.Gen

/-- the shape of one `react` step, by input class: visible effects in order, exit -/
def clsReact (ph : Phase) (c : ICls) : List Vis × ExitS :=
  let est := ph == .established
  -- every exit from Established runs `OnClose` after the connection is closed
  let down : List Vis := if est then [.close, .onClose] else [.close]
  match c.sel with
  | .closeCh => (.sendNotif :: down, .ret .disabled .sent)
  | .holdTimer => (.sendNotif :: down, .ret .idle .sent)
  | .kaTimer => ([.sendKA], .loop)
  | .readerErr =>
    match c.errNotif with
    | some true => (.sendNotif :: down, .ret .idle .sent)
    | some false => (down, .ret .idle .rcvd)
    | none => (down, .ret (if ph == .openSent then .active else .idle) .io)
  | .readerMsg =>
    match c.msg, ph with
    | .notif, _ => (down, .ret .idle .rcvd)
    | .open_, .openSent =>
      if c.invalid then (.sendNotif :: down, .ret .idle .sent)
      else if c.refuses then (.onOpen :: .sendNotif :: down, .ret .idle .sent)
      else ([.onOpen, .sendKA], .ret .openConfirm .none)
    | .keepalive, .openConfirm => ([], .ret .established .none)
    | .keepalive, .established => ([], .loop)
    | .update, .established =>
      if c.refuses then (.handler :: .sendNotif :: down, .ret .idle .sent) else ([.handler], .loop)
    | _, _ => (.sendNotif :: down, .ret .idle .sent)

def errClasses : List (Option Bool) := [none, some true, some false]

/-- the input classes of each state: the image of `clsOf` (`cls_listed`) -/
def allCls : Phase → List ICls
  | .openSent =>
    [{ sel := .closeCh }, { sel := .holdTimer }] ++ errClasses.map (fun e => { sel := .readerErr, errNotif := e }) ++
    [{ sel := .readerMsg, msg := .notif }, { sel := .readerMsg, msg := .keepalive }, { sel := .readerMsg, msg := .update },
     { sel := .readerMsg, msg := .open_, invalid := true }, { sel := .readerMsg, msg := .open_, refuses := true },
     { sel := .readerMsg, msg := .open_ }]
  | .openConfirm =>
    [{ sel := .closeCh }, { sel := .holdTimer }, { sel := .kaTimer }] ++ errClasses.map (fun e => { sel := .readerErr, errNotif := e }) ++
    [{ sel := .readerMsg, msg := .notif }, { sel := .readerMsg, msg := .keepalive }, { sel := .readerMsg, msg := .update },
     { sel := .readerMsg, msg := .open_ }]
  | .established =>
    [{ sel := .closeCh }, { sel := .holdTimer }, { sel := .kaTimer }] ++ errClasses.map (fun e => { sel := .readerErr, errNotif := e }) ++
    [{ sel := .readerMsg, msg := .notif }, { sel := .readerMsg, msg := .keepalive }, { sel := .readerMsg, msg := .update },
     { sel := .readerMsg, msg := .update, refuses := true }, { sel := .readerMsg, msg := .open_ }]
  | .closed => []

def phases : List Phase := [.openSent, .openConfirm, .established]

/-- what a selected path must look like -/
def pathAgrees (ph : Phase) (c : ICls) (p : CodePath) : Bool :=
  pathVis (envOfCls c) p == (clsReact ph c).1 && pathExit (wrappedOf c) p == (clsReact ph c).2

/-- the code side for one class: some path is selected, and every selected path has the shape -/
def shapeOK (ph : Phase) (c : ICls) : Bool :=
  !(selected (fnName ph) (envOfCls c)).isEmpty && (selected (fnName ph) (envOfCls c)).all (pathAgrees ph c)

/-- which property's tie answers for a path: by the case of the `select` it starts with, and for a received
message by its kind (anything unforeseen falls to C09) -/
inductive Scope where
  | c02 | c03 | c06 | c09 | c10
deriving DecidableEq, Repr, Inhabited

def scopeOfCls (ph : Phase) (c : ICls) : Scope :=
  match c.sel with
  | .closeCh => .c10
  | .holdTimer => .c06
  | .kaTimer => .c06
  | .readerErr => .c09
  | .readerMsg =>
    if ph == .openSent && c.msg == .open_ then .c02
    else if ph == .established && c.msg == .update then .c03
    else .c09

def scopeOfPath (p : CodePath) : Scope :=
  if p.guards.contains (selGuard .closeCh, true) then .c10
  else if p.guards.contains (selGuard .holdTimer, true) || p.guards.contains (selGuard .kaTimer, true) then .c06
  else if p.fn == "openSent" && p.guards.contains (msgGuard .open_, true) then .c02
  else if p.fn == "established" && p.guards.contains (msgGuard .update, true) then .c03
  else .c09

def classesOf (sc : Scope) : List (Phase × ICls) :=
  (phases.flatMap fun ph => (allCls ph).map fun c => (ph, c)).filter fun pc => scopeOfCls pc.1 pc.2 == sc

/-- a path on which the KEEPALIVE write failed -/
def writeFailed (p : CodePath) : Bool := p.guards.contains ("f.sendKeepAlive()!=nil", true)

/-- a path on which `OnEstablished` returned no handler (the model's plugin installs one) -/
def noHandler (p : CodePath) : Bool := p.guards.contains ("f.peer.plugin.OnEstablished()!=nil", false)

/-- every path in the scope is selected by a class of the scope (or is one of the two excepted kinds) -/
def scopeComplete (sc : Scope) : Bool :=
  phases.all fun ph => ((pathsOf (fnName ph)).filter fun p => scopeOfPath p == sc).all fun p =>
    writeFailed p || noHandler p || ((classesOf sc).any fun pc => pc.1 == ph && pathSat (envOfCls pc.2) p)

/-- everything called (as a statement or on the right of an assignment) on a path of the three functions -/
def vocabulary : List String :=
  ["f.sendNotification", "f.sendKeepAlive", "f.peer.plugin.OnOpenMessage", "handler", "f.cleanupConnAndReader",
   "f.peer.plugin.OnClose", "f.handleNotificationInErr", "f.drainAndResetHoldTimer", "newNotification",
   "m.validate", "errors.As", "binary.BigEndian.PutUint32", "netip.AddrFrom4",
   "time.NewTimer(f.keepAliveInterval)", "time.NewTimer(longHoldTime)", "time.NewTimer(f.peer.options.connectRetryTime)",
   "f.holdTimer.Stop", "f.keepAliveTimer.Stop", "f.keepAliveTimer.Reset(f.keepAliveInterval)",
   "set f.connectRetryTimer=time.NewTimer(f.peer.options.connectRetryTime)", "set f.remoteID=m.bgpID",
   "set f.holdTime=time.Duration(m.holdTime)*time.Second", "set f.holdTime=f.peer.options.holdTime",
   "set f.keepAliveInterval=f.holdTime/3", "set f.keepAliveInterval=0",
   "set f.keepAliveTimer=time.NewTimer(f.keepAliveInterval)", "set f.keepAliveTimer=time.NewTimer(longHoldTime)",
   "recv f.holdTimer.C", "send resetKATimerCh",
   "recv kaManagerDoneCh", "verifPoint", "deferred close(closeKAManagerCh)", "deferred close(writer.closeCh)"]

/-- nothing else happens on the paths of the scope: no further write, callback, close or channel operation -/
def scopeCallsKnown (sc : Scope) : Bool :=
  phases.all fun ph => ((pathsOf (fnName ph)).filter fun p => scopeOfPath p == sc).all fun p => p.calls.all vocabulary.contains

/-! ## the model side -/

theorem wireType_prepend (m : Bytes) (t : UInt8) : wireType (prependHeader m t) = t.toNat := by
  unfold wireType prependHeader be16Bytes
  simp [List.replicate]

@[simp] theorem wireType_notif (n : Notif) : wireType (encodeNotif n) = Gen.notificationMessageType := by
  simp [encodeNotif, wireType_prepend]; decide

@[simp] theorem wireType_ka : wireType kaBytes = Gen.keepAliveMessageType := by
  simp [kaBytes, wireType_prepend]; decide

theorem ka_ne_notif : ¬ (Gen.keepAliveMessageType = Gen.notificationMessageType) := by decide

theorem vis_teardown (est : Bool) (n : Option Notif) (next : St) (err : Option ErrK) :
    actsVis (teardown est n next err) =
      (if n.isSome then [Vis.sendNotif] else []) ++ [.close] ++ (if est then [.onClose] else []) := by
  cases n <;> cases est <;> simp [teardown, actsVis, visOfAct]

theorem exit_teardown (est : Bool) (n : Option Notif) (next : St) (err : Option ErrK) :
    actsExit (teardown est n next err) = .ret next (errSOf err) := by
  cases n <;> cases est <;> simp [teardown, actsExit]

theorem vis_cons (a : Act) (l : List Act) : actsVis (a :: l) = visOfAct a ++ actsVis l := by simp [actsVis]
theorem vis_append (a l : List Act) : actsVis (a ++ l) = actsVis a ++ actsVis l := by simp [actsVis]
theorem vis_nil : actsVis [] = [] := rfl
theorem exit_onOpen (i : UInt32) (c : List Cap) (l : List Act) : actsExit ([.onOpen i c] ++ l) = actsExit l := by simp [actsExit]
theorem exit_handler (b : Bytes) (l : List Act) : actsExit ([.handler b] ++ l) = actsExit l := by simp [actsExit]

local macro "shape" : tactic =>
  `(tactic| (try simp only [react, onReaderErr, fsmErr]
             try simp only [vis_append, exit_onOpen, exit_handler, vis_teardown, exit_teardown, vis_cons, vis_nil]
             simp [clsReact, allCls, errSOf, errClsOf, errClasses, visOfAct, actsExit, msgKOf, ka_ne_notif]))

/-- the model side: the class of every input is listed, and `react` has the shape of its class -/
theorem react_shape (cfg : SessCfg) (ph : Phase) (inp : Input) (ret : Option Notif) (c : ICls)
    (hph : ph ∈ phases) (hc : clsOf cfg ph inp ret = some c) :
    c ∈ allCls ph ∧ actsVis (react cfg ph inp ret).2 = (clsReact ph c).1 ∧
      actsExit (react cfg ph inp ret).2 = (clsReact ph c).2 := by
  cases ph with
  | closed => simp [phases] at hph
  | openSent =>
    cases inp with
    | closeReq => simp [clsOf] at hc; subst hc; shape
    | holdExpired => simp [clsOf] at hc; subst hc; shape
    | kaTimer => simp [clsOf] at hc
    | writeUpdate b => simp [clsOf] at hc
    | readerErr e => simp [clsOf] at hc; subst hc; rcases e with ⟨n, _ | _⟩ | _ | _ | _ <;> shape
    | msg m =>
      cases m with
      | notif n => simp [clsOf] at hc; subst hc; shape
      | keepalive => simp [clsOf] at hc; subst hc; shape
      | update b => simp [clsOf] at hc; subst hc; shape
      | open_ o =>
        simp only [clsOf, Option.some.injEq] at hc; subst hc
        cases hv : validateOpen o cfg.localID cfg.localAS cfg.remoteAS with
        | some n => simp only [react, hv]; shape
        | none => cases ret <;> (simp only [react, hv]; shape)
  | openConfirm =>
    cases inp with
    | closeReq => simp [clsOf] at hc; subst hc; shape
    | holdExpired => simp [clsOf] at hc; subst hc; shape
    | kaTimer => simp [clsOf] at hc; subst hc; shape
    | writeUpdate b => simp [clsOf] at hc
    | readerErr e => simp [clsOf] at hc; subst hc; rcases e with ⟨n, _ | _⟩ | _ | _ | _ <;> shape
    | msg m => cases m <;> (simp [clsOf] at hc; subst hc; shape)
  | established =>
    cases inp with
    | closeReq => simp [clsOf] at hc; subst hc; shape
    | holdExpired => simp [clsOf] at hc; subst hc; shape
    | kaTimer => simp [clsOf] at hc; subst hc; shape
    | writeUpdate b => simp [clsOf] at hc
    | readerErr e => simp [clsOf] at hc; subst hc; rcases e with ⟨n, _ | _⟩ | _ | _ | _ <;> shape
    | msg m =>
      cases m with
      | notif n => simp [clsOf] at hc; subst hc; shape
      | keepalive => simp [clsOf] at hc; subst hc; shape
      | open_ o => simp [clsOf] at hc; subst hc; shape
      | update b => simp [clsOf] at hc; subst hc; cases ret <;> shape

/-- every class belongs to the scope `scopeOfCls` gives it -/
theorem mem_classesOf (ph : Phase) (c : ICls) (hph : ph ∈ phases) (hc : c ∈ allCls ph) :
    (ph, c) ∈ classesOf (scopeOfCls ph c) := by
  simp only [classesOf, List.mem_filter, List.mem_flatMap, List.mem_map, beq_self_eq_true, and_true]
  exact ⟨ph, hph, c, hc, rfl⟩

/-- **the L1 model does what the code's paths do** (generic form; each property instantiates it with the
classes of its scope, evaluated on the regenerated paths): for every configuration, state, input that is a
case of the state's `select`, and plugin answer — the class of the input selects at least one control path of
the state function as regenerated from `fsm.go`, and every selected path has exactly the visible effects of
`react`, in the same order, and the same exit -/
theorem follows_of_shapeOK (sc : Scope) (hsc : ∀ pc ∈ classesOf sc, shapeOK pc.1 pc.2 = true)
    (cfg : SessCfg) (ph : Phase) (inp : Input) (ret : Option Notif) (c : ICls)
    (hph : ph ∈ phases) (hc : clsOf cfg ph inp ret = some c) (hs : scopeOfCls ph c = sc) :
    selected (fnName ph) (envOfCls c) ≠ [] ∧
    ∀ p ∈ selected (fnName ph) (envOfCls c),
      pathVis (envOfCls c) p = actsVis (react cfg ph inp ret).2 ∧
      pathExit (wrappedOf c) p = actsExit (react cfg ph inp ret).2 := by
  obtain ⟨hmem, hv, he⟩ := react_shape cfg ph inp ret c hph hc
  have hok := hsc (ph, c) (hs ▸ mem_classesOf ph c hph hmem)
  simp only [shapeOK, Bool.and_eq_true, Bool.not_eq_true', List.isEmpty_eq_false_iff] at hok
  refine ⟨hok.1, ?_⟩
  intro p hp
  have := List.all_eq_true.mp hok.2 p hp
  simp only [pathAgrees, Bool.and_eq_true, beq_iff_eq] at this
  exact ⟨this.1.trans hv.symm, this.2.trans he.symm⟩

/-- which inputs have a class: everything except a KEEPALIVE-timer event in OpenSent (there is no such timer
yet: `react` ignores it) and `WriteUpdate` (not a case of the `select`: `Model.Writer`) -/
theorem cls_defined (cfg : SessCfg) (ph : Phase) (inp : Input) (ret : Option Notif) :
    (clsOf cfg ph inp ret).isNone ↔ (inp = .kaTimer ∧ ph = .openSent) ∨ ∃ b, inp = .writeUpdate b := by
  cases inp <;> simp [clsOf]
  case msg m => cases ph <;> cases m <;> simp

end CoreBGP.Props.PathTie
