import CoreBGP.Model.Peer
import CoreBGP.Lemmas.Peer
/-!
# C01 — one Established session per peer; well-formed plugin callback history

Invariants of the L2 transition system `Model.next` over all reachable states (`PReach`, induction
over the step relation: every interleaving of the manager, the two FSMs and the environment, no
bound on steps). The plugin-history language `(E⁺E⁻(H⁺H⁻)*C⁺C⁻)*` is regular; the ghost `hist` is
the state of its monitor automaton (`Spec.hstep`), `none` being the error sink. Callbacks are atomic
enter/exit pairs that always return (trusted base).
-/
namespace CoreBGP.Props.C01
open CoreBGP CoreBGP.Model CoreBGP.Lemmas

def isCallback : Label → Bool
  | .onEstablished _ | .onClose _ | .handler _ => true
  | _ => false

/-- at most one FSM is between "OnEstablished entered" and "OnClose returned" -/
theorem mutex (d p : Bool) (s : PState) (h : PReach d p s) : ¬ (s.fo.inEst = true ∧ s.fi.inEst = true) := by
  have hi := pinv_reachable h
  rintro ⟨ho, hin⟩
  have := est_excl hi.fo_ok hi.fi_ok hi.mutex ho
  rw [hin] at this
  cases this

/-- the manager never records both FSMs as Established -/
theorem not_both_established (d p : Bool) (s : PState) (h : PReach d p s) :
    ¬ (s.stO = .established ∧ s.stI = .established) := by
  exact (pinv_reachable h).mutex

/-- an FSM is inside Established only after the manager echoed that transition -/
theorem in_est_recorded (d p : Bool) (s : PState) (h : PReach d p s) (i : Dir) :
    (s.f i).inEst = true → s.st i = .established := by
  have hi := pinv_reachable h
  intro he
  cases i
  · exact hi.fo_ok.run_st _ (hi.fo_ok.inEst_run he)
  · exact hi.fi_ok.run_st _ (hi.fi_ok.inEst_run he)

/-- the per-peer callback history is a prefix of `(E⁺E⁻(H⁺H⁻)*C⁺C⁻)*`: the monitor never reaches its
error sink, and its state is `up` exactly while some FSM is inside its session -/
theorem history_well_formed (d p : Bool) (s : PState) (h : PReach d p s) :
    s.hist = some (if s.fo.inEst || s.fi.inEst then .up else .idle) := by
  exact (pinv_reachable h).hist_ok

/-- by the time `peer.stop` has returned (Close / DeletePeer), every OnEstablished is matched by its
OnClose and no callback can start any more -/
theorem matched_at_stop (d p : Bool) (s : PState) (h : PReach d p s) (hd : s.pdone = true) :
    s.hist = some .idle ∧ ∀ l s', (l, s') ∈ next s → isCallback l = false := by
  have hi := pinv_reachable h
  obtain ⟨htodo, hpo, hpi⟩ := hi.done hd
  have ho := hi.fo_ok.empty hpo
  have hin := hi.fi_ok.empty hpi
  refine ⟨?_, ?_⟩
  · have := hi.hist_ok
    rw [hi.fo_ok.inEst_false_of_pc (by simp [ho]), hi.fi_ok.inEst_false_of_pc (by simp [hin])] at this
    simpa using this
  · intro l s' hm
    rcases mem_next hm with ⟨-, h⟩ | ⟨ins, rest, ht', -⟩ | h | h | rfl | h
    · simp [pMain, hd] at h
    · rw [htodo] at ht'
      cases ht'
    · rw [fSteps_absent (i := .out) ho] at h
      cases h
    · rw [fSteps_absent (i := .inn) hin] at h
      cases h
    · rfl
    · obtain ⟨i, m, rfl⟩ := rsend_label h
      rfl

-- non-vacuity: a reachable state in which the outbound session is up
example : ∃ s, PReach true false s ∧ s.fo.inEst = true := by
  exact exists_of_follow (·.fo.inEst)
    [0, 0, 0, 0, 1, 0, 0, 0, 0, 1, 0, 0, 0, 0, 3, 2, 0, 0, 0, 0, 8, 3, 0, 0, 0, 0, 0, 1] (by decide)

end CoreBGP.Props.C01
