import CoreBGP.Model.Peer
import CoreBGP.Lemmas.Peer
import CoreBGP.Lemmas.PeerLocal
/-!
# C07 — connection collision is resolved per RFC 4271 §6.8, in every arrival order

`s.dominant` abstracts the comparison `localID > remoteID ∨ (localID = remoteID ∧ localAS > remoteAS)`
(`peer.go:160`); `dominant_iff` ties it to identifiers and AS numbers. The FSM whose connection was
*initiated by the dominant speaker* is `out` if the local speaker dominates, `inn` otherwise.
-/
namespace CoreBGP.Props.C07
open CoreBGP CoreBGP.Model
open CoreBGP.Lemmas.PeerLocal

/-- the dominance computation of `handleStateTransition` -/
def dominantOf (localID remoteID localAS remoteAS : UInt32) : Bool :=
  localID > remoteID || (localID == remoteID && localAS > remoteAS)

/-- … is "numerically higher BGP Identifier, ties broken by the higher AS number" -/
theorem dominant_iff (localID remoteID localAS remoteAS : UInt32) :
    dominantOf localID remoteID localAS remoteAS = true ↔
      (localID.toNat > remoteID.toNat ∨ (localID.toNat = remoteID.toNat ∧ localAS.toNat > remoteAS.toNat)) := by
  unfold dominantOf
  simp only [Bool.or_eq_true, Bool.and_eq_true, decide_eq_true_eq, beq_iff_eq, gt_iff_lt,
    UInt32.lt_iff_toNat_lt, ← UInt32.toNat_inj]

/-- the FSM whose connection was initiated by the dominant speaker -/
def initiatedByDominant (s : PState) : Dir := if s.dominant then .out else .inn

/-- the table: when FSM `i` asks for OpenConfirm while the other is recorded OpenConfirm, then — whichever
of the two asked last — the requester continues (via the kill-or-transition `select`) iff its
connection was initiated by the dominant speaker; otherwise the requester itself is stopped -/
theorem collision_table (s : PState) (i : Dir) (frm : St)
    (hfrm : ¬ (i = .inn ∧ St.openConfirm.rank < frm.rank)) (ho : s.st i.other = .openConfirm) :
    expandHandle s i ⟨frm, .openConfirm⟩ =
      if i = initiatedByDominant s then [.collSel i ⟨frm, .openConfirm⟩] else [.disableLog i] := by
  have h1 : ¬ ((⟨frm, .openConfirm⟩ : Trans).to = .established) := by simp
  unfold expandHandle
  rw [if_neg h1, if_neg hfrm, if_pos rfl, ho]
  unfold initiatedByDominant
  cases i <;> cases hd : s.dominant <;> simp

/-- an OpenConfirm request while the other FSM is Established stops the requester -/
theorem established_wins (s : PState) (i : Dir) (frm : St)
    (hfrm : ¬ (i = .inn ∧ St.openConfirm.rank < frm.rank)) (ho : s.st i.other = .established) :
    expandHandle s i ⟨frm, .openConfirm⟩ = [.disableLog i] := by
  have h1 : ¬ ((⟨frm, .openConfirm⟩ : Trans).to = .established) := by simp
  unfold expandHandle
  rw [if_neg h1, if_neg hfrm, if_pos rfl, ho]

/-- approval of Established is always preceded (adjacent instruction) by the complete stop of the
other FSM -/
theorem establish_stops_other (s : PState) (i : Dir) (frm : St) :
    expandHandle s i ⟨frm, .established⟩ = [.disableLog i.other, .sendT i ⟨frm, .established⟩] := by
  unfold expandHandle
  rw [if_pos rfl]

/-- whichever way the kill-vs-own-transition `select` resolves, exactly one of the two continues:
either the other FSM is stopped and the requester gets its transition, or the other FSM had already
asked for Established and the requester is stopped instead, or the other FSM went down by itself
and the requester continues (or the peer is closing) -/
theorem select_outcomes (s : PState) (i : Dir) (t : Trans) (rest : List Instr) :
    ∀ l s', (l, s') ∈ pInstr s (.collSel i t) rest →
      s'.todo = rest ∨
      s'.todo = .disableLog i.other :: .sendT i t :: rest ∨
      (∃ ot, ot.to = .established ∧ s'.todo = .disableLog i :: .handle i.other ot :: rest) ∨
      (∃ ot, ot.to ≠ .established ∧ s'.todo = .sendT i t :: .handle i.other ot :: rest) := by
  intro l s' h
  simp only [pInstr, List.mem_append] at h
  rcases h with (h | h) | h
  · split at h
    · rw [List.mem_singleton] at h
      obtain ⟨-, rfl⟩ := Prod.mk.inj h
      left; rfl
    · simp at h
  · split at h
    · rw [List.mem_map] at h
      obtain ⟨⟨l0, o'⟩, _, he⟩ := h
      obtain ⟨-, rfl⟩ := Prod.mk.inj he
      right; left
      simp
    · simp at h
  · split at h
    · rename_i ot _
      rw [List.mem_singleton] at h
      obtain ⟨-, rfl⟩ := Prod.mk.inj h
      by_cases hot : ot.to = .established
      · right; right; left
        refine ⟨ot, hot, ?_⟩
        simp [hot]
      · right; right; right
        refine ⟨ot, hot, ?_⟩
        simp [hot]
    · simp at h

/-- the survivor's connection is not touched by the collision step: only the other FSM's component
(and the manager's) change -/
theorem survivor_untouched (s : PState) (i : Dir) (t : Trans) (rest : List Instr) :
    ∀ l s', (l, s') ∈ pInstr s (.collSel i t) rest → s'.f i = s.f i := by
  intro l s' h
  simp only [pInstr, List.mem_append] at h
  rcases h with (h | h) | h
  · split at h
    · rw [List.mem_singleton] at h
      obtain ⟨-, rfl⟩ := Prod.mk.inj h
      simp
    · simp at h
  · split at h
    · rw [List.mem_map] at h
      obtain ⟨⟨l0, o'⟩, _, he⟩ := h
      obtain ⟨-, rfl⟩ := Prod.mk.inj he
      simp
    · simp at h
  · split at h
    · rw [List.mem_singleton] at h
      obtain ⟨-, rfl⟩ := Prod.mk.inj h
      simp
    · simp at h

example : dominantOf 0x0a000064 0x0a0000c8 65001 65002 = false := by decide

end CoreBGP.Props.C07
