import CoreBGP.Props.PathTie
/-! Path tie of C10 (see `Props.PathTie` for the method): the statements about the regenerated control paths of
`fsm.go` in the scope `c10`. -/
namespace CoreBGP.Props.PathTieC10
open CoreBGP CoreBGP.Model CoreBGP.Gen CoreBGP.Props.PathTie

/-- the code side, for every class of the scope: some path is selected and every selected path has the shape -/
theorem code_follows_shape : ∀ pc ∈ classesOf .c10, shapeOK pc.1 pc.2 = true := by decide

/-- the L1 model does what the code's paths do, for every input whose class is in this scope -/
theorem react_follows_code (cfg : SessCfg) (ph : Phase) (inp : Input) (ret : Option Notif) (c : ICls)
    (hph : ph ∈ phases) (hc : clsOf cfg ph inp ret = some c) (hs : scopeOfCls ph c = .c10) :
    selected (fnName ph) (envOfCls c) ≠ [] ∧
    ∀ p ∈ selected (fnName ph) (envOfCls c),
      pathVis (envOfCls c) p = actsVis (react cfg ph inp ret).2 ∧
      pathExit (wrappedOf c) p = actsExit (react cfg ph inp ret).2 :=
  follows_of_shapeOK .c10 code_follows_shape cfg ph inp ret c hph hc hs

/-- every path of the code in this scope is a path of the model -/
theorem every_path_modelled : scopeComplete .c10 = true := by decide

/-- nothing outside the known vocabulary is called on a path of this scope -/
theorem calls_known : scopeCallsKnown .c10 = true := by decide

/-- the scope is not empty -/
example : (classesOf .c10).length > 0 := by decide

end CoreBGP.Props.PathTieC10
