import CoreBGP.Props.PathTie
/-! Path tie of C10 (see `Props.PathTie` for the method): the statements about the regenerated control paths of
`fsm.go` in the scope `c10`. -/
namespace CoreBGP.Props.PathTieC10
open CoreBGP CoreBGP.Model CoreBGP.Gen CoreBGP.Props.PathTie

/-- the code side, for every class of the scope: some path is selected and every selected path has the shape -/
theorem code_follows_shape : ∀ pc ∈ classesOf .c10, shapeOK pc.1 pc.2 = true := by decide

/-- the L1 model does what the code's paths do, for every input whose class is in this scope -/
theorem react_follows_code (cfg : SessCfg) (ph : Phase) (inp : Input) (ret : Option Notif) (c : ICls)
    (hph : ph ∈ phases) (hc : clsOf cfg ph inp ret = some c) (hs : scopeOfCls ph c = .c10) :
    selected (fnName ph) (envOfCls c) ≠ [] ∧
    ∀ p ∈ selected (fnName ph) (envOfCls c),
      pathVis (envOfCls c) p = actsVis (react cfg ph inp ret).2 ∧
      pathExit (wrappedOf c) p = actsExit (react cfg ph inp ret).2 :=
  follows_of_shapeOK .c10 code_follows_shape cfg ph inp ret c hph hc hs

/-- every path of the code in this scope is a path of the model -/
theorem every_path_modelled : scopeComplete .c10 = true := by decide

/-- nothing outside the known vocabulary is called on a path of this scope -/
theorem calls_known : scopeCallsKnown .c10 = true := by decide

/-- the scope is not empty -/
example : (classesOf .c10).length > 0 := by decide

/-- a stop before OpenSent: `idle`, `connect`, `active` leave for `disabled`; `connect` first cancels the dial, waits for
its result (the dial goroutine is joined) and closes the connection it may carry -/
theorem early_stop_paths :
    (∀ fn ∈ ["idle", "connect", "active"], ∀ p ∈ pathsOf fn, p.guards.contains ("select recv f.closeCh", true) = true →
      p.exit = "return" ∧ p.ret = ["disabledState"]) ∧
    (∀ fn ∈ ["idle", "connect", "active"], (pathsOf fn).any (fun p => p.guards.contains ("select recv f.closeCh", true)) = true) ∧
    (∀ p ∈ pathsOf "connect", p.guards.contains ("select recv f.closeCh", true) = true →
      p.calls = ["f.cancelDialFn", "recv f.dialResultCh", "f.closeDialedConn", "f.connectRetryTimer.Stop"]) ∧
    (selected "closeDialedConn" (fun g => if g = "dr!=nil&&dr.conn!=nil" then some true else none)).map (·.calls) = [["dr.conn.Close"]] := by
  decide

end CoreBGP.Props.PathTieC10
