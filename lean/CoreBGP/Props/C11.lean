import CoreBGP.Model.Peer
import CoreBGP.Lemmas.Peer
import CoreBGP.Lemmas.PeerLocal
/-!
# C11 (L2 half) — reconnection: a passive peer never dials; an ended inbound session re-enables dialling
and admission. (Retry pacing and the time bound are real-time statements: the idle-hold timer is
re-armed at every exit from Idle, `fsm.go:270`; observed by the live engine's pacing monitor.)
-/
namespace CoreBGP.Props.C11
open CoreBGP CoreBGP.Model CoreBGP.Lemmas
open CoreBGP.Lemmas.PeerLocal

/-- a passive peer has no outbound FSM in any reachable state, hence never dials -/
theorem passive_never_dials (d : Bool) (s : PState) (h : PReach d true s) :
    s.presentO = false ∧ s.fo.pc = .absent ∧ ∀ l s', (l, s') ∈ next s → l ≠ .dial := by
  have hi := pinv_reachable h
  have hpo := hi.pas_out hi.pas
  have ho := hi.fo_ok.empty hpo
  refine ⟨hpo, ho, ?_⟩
  intro l s' hm hl
  subst hl
  rcases mem_next hm with ⟨-, h⟩ | ⟨ins, rest, -, h⟩ | h | h | h | h
  · exact absurd (pMain_label h) (by simp [fsmOnly])
  · exact absurd (pInstr_label h) (by simp [fsmOnly])
  · rw [fSteps_absent (i := .out) ho] at h
    cases h
  · exact fSteps_inn_no_dial hi h rfl
  · cases h
  · obtain ⟨i, m, h⟩ := rsend_label h
    cases h

/-- when an inbound FSM goes down (any transition to a lower state) the manager stops it and makes
sure the outbound FSM exists again -/
theorem inbound_down_reenables_out (s : PState) (t : Trans) (ht : t.to.rank < t.frm.rank) (hne : t.to ≠ .established) :
    expandHandle s .inn t = [.disableLog .inn, .enable .out false] := by
  unfold expandHandle
  rw [if_neg hne, if_pos ⟨rfl, ht⟩]

/-- … and a new outbound FSM starts in Idle with a fresh (immediately due) idle-hold timer: its first
request is `disabled → idle` -/
theorem enable_out_starts_idle (s : PState) (rest : List Instr) (hp : s.passive = false) (ha : s.presentO = false) :
    pInstr s (.enable .out false) rest =
      [(.tau, (({ s with todo := rest }.setPresent .out true).setSt .out .disabled).setF .out
          { pc := .req ⟨.disabled, .idle⟩, conn := false })] := by
  have hq : s.present .out = false := ha
  simp [pInstr, hq, hp]

/-- once the inbound slot is empty, the peer is not held down and the outbound FSM is not Established,
the next inbound connection is admitted -/
theorem next_inbound_admitted (s : PState) (h1 : s.holdDown = false) (h2 : s.presentI = false)
    (h3 : s.stO ≠ .established) (h4 : s.pdone = false) (h5 : s.todo = []) :
    (Label.inConn true, { s with todo := [.enable .inn true] }) ∈ next s := by
  unfold next
  rw [h5]
  apply List.mem_append_left
  apply List.mem_append_left
  apply List.mem_append_left
  apply List.mem_append_left
  apply inConn_mem_pMain h4
  simp [h1, h2, h3]

end CoreBGP.Props.C11
