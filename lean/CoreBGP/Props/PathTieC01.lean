import CoreBGP.Props.PathTie
/-! Path tie of C01: where the session callbacks are called in the regenerated control paths of `fsm.go`. -/
namespace CoreBGP.Props.PathTieC01
open CoreBGP CoreBGP.Model CoreBGP.Gen CoreBGP.Props.PathTie

/-- `OnEstablished` is called once, before the loop of `established`, and on no path of any loop -/
theorem established_prologue :
    (prologueOf "established").map (pathVis fun _ => none) = [[.onEstablished]] ∧
    (prologueOf "openSent").map (pathVis fun _ => none) = [] ∧
    (prologueOf "openConfirm").map (pathVis fun _ => none) = [[]] ∧
    ∀ ph ∈ phases, ∀ p ∈ pathsOf (fnName ph), (pathVis (fun _ => none) p).contains .onEstablished = false := by
  decide

/-- `OnClose` is the last visible effect of every path that leaves `established`, is called once on it, after the
connection was closed, and is called on no path of `openSent` / `openConfirm` -/
theorem onclose_placement :
    (∀ p ∈ pathsOf "established", p.exit = "return" →
      (pathVis (fun _ => none) p).getLast? = some .onClose ∧ ((pathVis (fun _ => none) p).filter (· == .onClose)).length = 1 ∧
      ((pathVis (fun _ => none) p).dropLast).getLast? = some .close) ∧
    (∀ p ∈ pathsOf "established", p.exit ≠ "return" → (pathVis (fun _ => none) p).contains .onClose = false) ∧
    ∀ fn ∈ ["openSent", "openConfirm"], ∀ p ∈ pathsOf fn, (pathVis (fun _ => none) p).contains .onClose = false := by
  decide

end CoreBGP.Props.PathTieC01
