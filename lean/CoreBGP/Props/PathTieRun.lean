import CoreBGP.Props.PathTie
import CoreBGP.Props.DecTie
/-! Path tie for `fsm.run` (the loop that asks the peer manager for every transition and runs the state functions), on the
regenerated control paths and decisions. Listed under C07 and C10: a connection that is stopped — by Close / DeletePeer or as
the loser of a collision — while its FSM is asking for a transition still gets its Cease, and the FSM always leaves through
`cleanup` before `doneCh` is closed. -/
set_option maxRecDepth 100000
namespace CoreBGP.Props.PathTieRun
open CoreBGP CoreBGP.Model CoreBGP.Gen CoreBGP.Lemmas.DecTie CoreBGP.Props.DecTie CoreBGP.Props.PathTie

def ceaseCond : String := "t.to!=toBefore&&t.to==disabledState&&f.conn!=nil&&t.from>activeState"
def reqSend : String × Bool := ("select send f.peer.getFSMTransitionCh(f)", true)
def stopCase : String × Bool := ("select recv f.closeCh", true)

/-- the path takes a `closeCh` case of the transition request (before the manager took the request, or while waiting for its
answer) -/
def stoppedAtRequest (p : CodePath) : Bool :=
  p.guards.head? == some stopCase || (p.guards.head? == some reqSend && p.guards[1]? == some stopCase)

/-- a stop at the transition request always reaches the Cease decision (no way round it), and where the decision holds the
Cease is the next thing that happens -/
theorem stop_at_request_reaches_cease_decision :
    (∀ p ∈ pathsOf "run", stoppedAtRequest p = true →
      (p.guards.any fun g => g.1 == ceaseCond) = true ∧
      (p.guards.contains (ceaseCond, true) = true → p.calls.take 3 = ["verifPoint", "newStateTransition", "f.sendNotification"])) ∧
    (pathsOf "run").any (fun p => stoppedAtRequest p && p.guards.contains (ceaseCond, true) && p.guards.head? == some stopCase) = true ∧
    (pathsOf "run").any (fun p => stoppedAtRequest p && p.guards.contains (ceaseCond, true) && p.guards.head? == some reqSend) = true ∧
    (∀ p ∈ pathsOf "run", p.guards.contains (ceaseCond, false) = true → p.calls.contains "f.sendNotification" = false) := by
  decide

/-- the FSM goroutine ends only through the `disabled` case, and then runs `cleanup` (dial cancelled and joined, connection and
reader torn down) before it closes `doneCh` (what `stop` waits for) -/
theorem run_returns_through_cleanup :
    (∀ p ∈ pathsOf "run", p.exit = "return" →
      p.guards.contains ("case t.to==disabledState", true) = true ∧
      p.calls.drop (p.calls.length - 2) = ["deferred f.cleanup()", "deferred close(f.doneCh)"]) ∧
    (pathsOf "cleanup").all (fun p => p.calls.getLast? == some "f.cleanupConnAndReader") = true ∧
    (∀ p ∈ pathsOf "cleanup", p.guards.contains ("f.cancelDialFn!=nil", true) = true →
      p.calls = ["f.cancelDialFn", "recv f.dialResultCh", "f.closeDialedConn", "f.cleanupConnAndReader"]) := by
  decide

/-- an error is offered to the manager only next to the `closeCh` alternative (the FSM can always be stopped while it offers one) -/
theorem error_handoff_offers_stop :
    ∀ p ∈ pathsOf "run", p.guards.getLast? = some ("select send f.peer.getFSMErrorCh(f)", true) →
      (pathsOf "run").any (fun q => q.guards.dropLast == p.guards.dropLast && q.guards.getLast? == some stopCase) = true := by
  decide

private theorem d_cease : decision "fsm.run" "if" 1 =
    .and (.and (.and (.cmp "!=" "t.to" "toBefore") (.cmp "==" "t.to" "disabledState")) (.cmp "!=" "f.conn" "nil"))
      (.cmp ">" "t.from" "activeState") := by decide

/-- the Cease decision itself, as translated from the source: it holds exactly when the FSM was disabled from outside (the
target changed, to `disabled`) while it holds a connection and comes from OpenSent, OpenConfirm or Established -/
theorem cease_decision (frm to before : St) (conn : Bool) :
    let ρ := envOf [("t.to", (to.rank.toNat : Int)), ("toBefore", (before.rank.toNat : Int)),
                    ("disabledState", (Gen.disabledState.toNat : Int)), ("f.conn", b2i conn), ("nil", 0),
                    ("t.from", (frm.rank.toNat : Int)), ("activeState", (Gen.activeState.toNat : Int))]
    BExp.eval ρ (decision "fsm.run" "if" 1) =
      (decide (to ≠ before) && decide (to = .disabled) && conn &&
        decide (frm = .openSent ∨ frm = .openConfirm ∨ frm = .established)) := by
  intro ρ
  have h1 : ρ "t.to" = (to.rank.toNat : Int) := rfl
  have h2 : ρ "toBefore" = (before.rank.toNat : Int) := rfl
  have h3 : ρ "disabledState" = (Gen.disabledState.toNat : Int) := rfl
  have h4 : ρ "f.conn" = b2i conn := rfl
  have h5 : ρ "nil" = 0 := rfl
  have h6 : ρ "t.from" = (frm.rank.toNat : Int) := rfl
  have h7 : ρ "activeState" = (Gen.activeState.toNat : Int) := rfl
  simp only [d_cease, eval_and, eval_ne, eval_eq, eval_gt, h1, h2, h3, h4, h5, h6, h7]
  cases frm <;> cases to <;> cases before <;> cases conn <;> decide

end CoreBGP.Props.PathTieRun
