import CoreBGP.Props.DecTie
import CoreBGP.Model.Lifecycle
/-! Decision ties of C20 (see `Props.DecTie` for the method). -/
namespace CoreBGP.Props.DecTieC20
open CoreBGP CoreBGP.Model CoreBGP.Gen CoreBGP.Lemmas.DecTie CoreBGP.Props.DecTie

/-! the generated table, evaluated (a changed decision of these functions is reported here) -/
private theorem d_ov0 : decision "peerOptions.validate" "if" 0 =
    .and (.cmp "<" "p.holdTime" "time.Second*3") (.cmp "!=" "p.holdTime" "0") := by decide
private theorem d_ov1 : decision "peerOptions.validate" "if" 1 = .or (.cmp "<" "p.port" "1") (.cmp ">" "p.port" "65535") := by
  decide
private theorem d_cv0 : decision "PeerConfig.validate" "if" 0 = .or (.cmp "==" "p.LocalAS" "0") (.cmp "==" "p.RemoteAS" "0") := by
  decide
private theorem d_cv1 : decision "PeerConfig.validate" "if" 1 =
    .and (.not (.atom "opts.localAddress.IsValid()")) (.atom "p.RemoteAddress.IsValid()") := by decide
private theorem d_cv2 : decision "PeerConfig.validate" "if" 2 = .cmp "!=" "localIsIPv4" "remoteIsIPv4" := by decide
private theorem d_cv3 : decision "PeerConfig.validate" "if" 3 = .not (.atom "localIsIPv4") := by decide
private theorem d_cv4 : decision "PeerConfig.validate" "if" 4 =
    .or (.not (.atom "opts.localAddress.Is6()")) (.not (.atom "p.RemoteAddress.Is6()")) := by decide

/-! ## C20: configuration validation -/

def optionsEnv (c : PeerCfg) : Env :=
  envOf [("p.holdTime", c.holdNs), ("time.Second*3", 3000000000), ("0", 0), ("p.port", c.port), ("1", 1), ("65535", 65535)]

/-- `peerOptions.validate`: an error iff one of the two conditions holds -/
theorem options_valid (c : PeerCfg) :
    validateOptions c =
      !(BExp.eval (optionsEnv c) (decision "peerOptions.validate" "if" 0) || BExp.eval (optionsEnv c) (decision "peerOptions.validate" "if" 1)) := by
  have a1 : optionsEnv c "p.holdTime" = c.holdNs := rfl
  have a2 : optionsEnv c "time.Second*3" = 3000000000 := rfl
  have a3 : optionsEnv c "0" = 0 := rfl
  have a4 : optionsEnv c "p.port" = c.port := rfl
  have a5 : optionsEnv c "1" = 1 := rfl
  have a6 : optionsEnv c "65535" = 65535 := rfl
  simp only [d_ov0, d_ov1, eval_and, eval_or, eval_lt, eval_gt, eval_ne, a1, a2, a3, a4, a5, a6, validateOptions,
    int_bne]
  simp

def configEnv (c : PeerCfg) : Env :=
  envOf [("0", 0), ("p.LocalAS", (c.localAS.toNat : Int)), ("p.RemoteAS", (c.remoteAS.toNat : Int)),
         ("opts.localAddress.IsValid()", b2i c.localAddr.isValid), ("p.RemoteAddress.IsValid()", b2i c.remote.isValid),
         ("localIsIPv4", b2i c.localAddr.is4), ("remoteIsIPv4", b2i c.remote.is4),
         ("opts.localAddress.Is6()", b2i c.localAddr.is6), ("p.RemoteAddress.Is6()", b2i c.remote.is6)]

/-- `PeerConfig.validate` in the control structure of the Go function -/
def goConfigValid (ρ : Env) : Bool :=
  let d := fun n => BExp.eval ρ (decision "PeerConfig.validate" "if" n)
  if d 0 then false
  else if d 1 then true
  else if d 2 then false
  else if d 3 then (if d 4 then false else true)
  else true

private theorem u32_beq_zero (a : UInt32) : ((a.toNat : Int) == 0) = decide (a = 0) := by
  simp [natCast_beq_zero, ← UInt32.toNat_inj]

theorem config_valid (c : PeerCfg) : validateConfig c = goConfigValid (configEnv c) := by
  have a0 : configEnv c "0" = 0 := rfl
  have a1 : configEnv c "p.LocalAS" = (c.localAS.toNat : Int) := rfl
  have a2 : configEnv c "p.RemoteAS" = (c.remoteAS.toNat : Int) := rfl
  have a3 : configEnv c "opts.localAddress.IsValid()" = b2i c.localAddr.isValid := rfl
  have a4 : configEnv c "p.RemoteAddress.IsValid()" = b2i c.remote.isValid := rfl
  have a5 : configEnv c "localIsIPv4" = b2i c.localAddr.is4 := rfl
  have a6 : configEnv c "remoteIsIPv4" = b2i c.remote.is4 := rfl
  have a7 : configEnv c "opts.localAddress.Is6()" = b2i c.localAddr.is6 := rfl
  have a8 : configEnv c "p.RemoteAddress.Is6()" = b2i c.remote.is6 := rfl
  simp only [goConfigValid, d_cv0, d_cv1, d_cv2, d_cv3, d_cv4, eval_and, eval_or, eval_not, eval_atom, eval_eq, eval_ne,
    a0, a1, a2, a3, a4, a5, a6, a7, a8, b2i_ne_zero, b2i_bne, u32_beq_zero, validateConfig]
  generalize c.localAddr.isValid = lv
  generalize c.remote.isValid = rv
  generalize c.localAddr.is4 = l4
  generalize c.remote.is4 = r4
  generalize c.localAddr.is6 = l6
  generalize c.remote.is6 = r6
  generalize decide (c.localAS = 0) = z1
  generalize decide (c.remoteAS = 0) = z2
  cases z1 <;> cases z2 <;> cases lv <;> cases rv <;> cases l4 <;> cases r4 <;> cases l6 <;> cases r6 <;> rfl

end CoreBGP.Props.DecTieC20

namespace CoreBGP.Props.DecTieC20
open CoreBGP CoreBGP.Model CoreBGP.Gen CoreBGP.Lemmas.DecTie CoreBGP.Props.DecTie
open CoreBGP.Model.Lifecycle

/-! ## C20 / C10: the conditions on which the life-cycle model (`Model.Lifecycle`) starts and stops peers -/

private theorem d_add2 : decision "Server.AddPeer" "if" 2 = .atom "exists" := by decide
private theorem d_add3 : decision "Server.AddPeer" "if" 3 = .atom "s.serving" := by decide
private theorem d_del0 : decision "Server.DeletePeer" "if" 0 = .not (.atom "exists") := by decide
private theorem d_del1 : decision "Server.DeletePeer" "if" 1 = .atom "s.serving" := by decide
private theorem d_close0 : decision "Server.Close" "if" 0 = .not (.atom "s.serving") := by decide

def lifeEnv (s : LState) (k : Nat) : Env :=
  envOf [("exists", b2i (hasKey s k)), ("s.serving", b2i s.serving)]

/-- `AddPeer`: refused iff the key exists (`if exists`); otherwise the new peer is started iff `if s.serving` — on
nothing else, in particular not on whether `Close` has already signalled -/
theorem add_peer_decisions (s : LState) (k : Nat) :
    lstep s (.add k) =
      (if BExp.eval (lifeEnv s k) (decision "Server.AddPeer" "if" 2) then some s
       else some { s with peers := s.peers ++ [(k, BExp.eval (lifeEnv s k) (decision "Server.AddPeer" "if" 3))] }) := by
  simp only [d_add2, d_add3, eval_atom, lifeEnv, envOf, List.find?, b2i_ne_zero, lstep]
  cases hasKey s k <;> simp [b2i_ne_zero]

/-- `DeletePeer`: `ErrPeerNotExist` iff `!exists`; otherwise the peer is removed (and stopped iff `s.serving`, the
same flag by which it was started: `C20Life.started_iff_serving`) -/
theorem delete_peer_decisions (s : LState) (k : Nat) :
    lstep s (.del k) =
      (if BExp.eval (lifeEnv s k) (decision "Server.DeletePeer" "if" 0) then some s
       else some { s with peers := s.peers.filter (·.1 != k) }) ∧
    decision "Server.DeletePeer" "if" 1 = .atom "s.serving" := by
  refine ⟨?_, d_del1⟩
  simp only [d_del0, eval_not, eval_atom, lifeEnv, envOf, List.find?, b2i_ne_zero, lstep]
  cases hasKey s k <;> simp [b2i_ne_zero]

/-- `Close`: returns at once iff `!s.serving`, otherwise waits for the tear-down -/
theorem close_decision (s : LState) :
    lstep s .closeCall =
      some { s with closeSignalled := true,
                    closers := s.closers ++ [if BExp.eval (lifeEnv s 0) (decision "Server.Close" "if" 0) then .returned else .waiting] } := by
  simp only [d_close0, eval_not, eval_atom, lifeEnv, envOf, List.find?, b2i_ne_zero, lstep]
  cases s.serving <;> simp [b2i_ne_zero]

end CoreBGP.Props.DecTieC20
