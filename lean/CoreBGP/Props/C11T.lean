import CoreBGP.Model.Reconnect
import CoreBGP.Lemmas.Reconnect
/-!
# C11 (timed half) — retry pacing and bounded reconnection, on the timed model of Idle / Connect / Active

What is proved is about the model's deadlines (a timer event is enabled only from its deadline on);
that the real system acts within scheduling noise of them is observed by the live engine's pacing
monitor (partial in that sense).
-/
namespace CoreBGP.Props.C11T
open CoreBGP CoreBGP.Model
open CoreBGP.Lemmas.Reconnect

/-- invariant: the idle-hold timer is always armed; after an exit from Idle it is armed for exactly
that exit + idle-hold; the connect-retry timer is armed whenever the FSM is in Connect or Active,
for at most `now + cr` -/
def Inv (s : RSess) : Prop :=
  (∃ d, s.idleDl = some d) ∧
  (∀ t, s.lastIdleExit = some t → s.idleDl = some (t + s.ih) ∧ t ≤ s.now) ∧
  (s.lastIdleExit = none → s.st = .idle ∧ ∃ d, s.idleDl = some d ∧ d ≤ s.now) ∧
  ((s.st = .connect ∨ s.st = .active) → ∃ d, s.crDl = some d ∧ d ≤ s.now + s.cr) ∧
  (s.st = .connect → s.dialing = true)

theorem inv_reachable (ih cr t0 : Nat) (s : RSess) (h : RReach ih cr t0 s) : Inv s ∧ s.ih = ih ∧ s.cr = cr :=
  rinv_reachable ih cr t0 s h

/-- pacing: an exit from Idle (the start of an outbound attempt from Idle) is enabled only once the
idle-hold time has passed since the previous exit from Idle — successive attempts under refusal are
spaced by the idle-hold time, never back to back -/
theorem paced (ih cr t0 : Nat) (s s' : RSess) (h : RReach ih cr t0 s) (t : Nat)
    (hl : s.lastIdleExit = some t) (hs : rstep s .idleFire = some s') : s.now ≥ t + ih := by
  obtain ⟨⟨_, h2, _⟩, hih, _⟩ := inv_reachable ih cr t0 s h
  obtain ⟨_, d, hd, hle⟩ := idleFire_guard hs
  obtain ⟨hd', _⟩ := h2 t hl
  rw [hd'] at hd
  simp only [Option.some.injEq] at hd
  omega

/-- every attempt that is abandoned by the connect-retry timer is replaced by a new one at once, and
the timer is re-armed for the new attempt -/
theorem retry_rearms (ih cr t0 : Nat) (s s' : RSess) (h : RReach ih cr t0 s)
    (hs : rstep s .crFireRedial = some s') : s'.st = .connect ∧ s'.dialing = true ∧ s'.crDl = some (s.now + cr) := by
  obtain ⟨_, _, hcr⟩ := inv_reachable ih cr t0 s h
  obtain ⟨he, hst⟩ := crFireRedial_eq hs
  subst he
  exact ⟨hst, rfl, by rw [← hcr]⟩

/-- bounded reconnection: from every reachable state the next attempt (which a well-behaved remote
accepts) starts within max(idle-hold, connect-retry) ≤ idle-hold + connect-retry, if timer events
are taken as soon as they are enabled -/
theorem attempt_within_bound (ih cr t0 : Nat) (s : RSess) (h : RReach ih cr t0 s) :
    timeToAttempt s ≤ ih + cr := by
  obtain ⟨hi, hih, hcr⟩ := inv_reachable ih cr t0 s h
  have := tta_le hi
  omega

/-- … and after waiting that long the attempt is enabled: in Idle the idle-hold event, in Connect /
Active the connect-retry event; the attempt's success (`dialOK`) then leads out of this model -/
theorem attempt_enabled (ih cr t0 : Nat) (s : RSess) (h : RReach ih cr t0 s) (hc : s.st ≠ .connected) :
    ∃ e s', (e = .idleFire ∨ e = .crFireRedial ∨ e = .crFireActive) ∧
      rstep { s with now := s.now + timeToAttempt s } e = some s' ∧ s'.st = .connect ∧ s'.dialing = true ∧
      ∃ s'', rstep s' .dialOK = some s'' ∧ s''.st = .connected :=
  attempt_enabled_of_inv (inv_reachable ih cr t0 s h).1 hc

/-- a refused attempt goes back to Idle with the connect-retry timer stopped -/
theorem refused_to_idle (s s' : RSess) (hs : rstep s .dialFailed = some s') : s'.st = .idle ∧ s'.crDl = none :=
  dialFailed_eq hs

-- non-vacuity: three refused attempts are 200 ms apart (ih = 200 ms)
example : (([REv.idleFire, .dialFailed, .tick 200000000, .idleFire, .dialFailed, .tick 199999999, .idleFire].foldl
    (fun (s : Option RSess) e => s.bind (rstep · e)) (some (rInit 200000000 500000000 0)))) = none := by decide
example : (([REv.idleFire, .dialFailed, .tick 200000000, .idleFire].foldl
    (fun (s : Option RSess) e => s.bind (rstep · e)) (some (rInit 200000000 500000000 0)))).isSome := by decide

end CoreBGP.Props.C11T
