import CoreBGP.Model.Writer
import CoreBGP.Lemmas.Writer
/-!
# C04 (goroutine half) — `WriteUpdate` never deadlocks, from any goroutine, including from inside
`OnEstablished` and the update handler; and the session's teardown is never blocked by writers

Over all reachable states of the E / K / W₁…Wₙ protocol, for every number of writer goroutines.
-/
namespace CoreBGP.Props.C04L2
open CoreBGP CoreBGP.Model CoreBGP.Lemmas.Writer

/-- the keepalive manager is alive exactly as long as the close channels are open — so whoever sends
on `resetKATimerCh` while they are open finds a receiver -/
theorem manager_alive (n : Nat) (s : WState) (h : WReach n s) :
    (s.k = .done → s.closed = true) ∧
    (s.closed = true ↔ (s.e = .exited ∨ s.e = .done)) ∧ s.ws.length = n := by
  obtain ⟨h1, h2, h3, _⟩ := inv_reach h
  exact ⟨h2, h3, h1⟩

/-- E is never stuck at its own sends: at the keepalive reset and inside a callback's `WriteUpdate`
the rendezvous with K is enabled -/
theorem fsm_send_enabled (n : Nat) (s : WState) (h : WReach n s)
    (he : s.e = .sendReset ∨ s.e = .inCallback .written) : s.k = .select_ := by
  obtain ⟨_, h2, h3, _⟩ := inv_reach h
  rcases k_cases s.k with hk | hk
  · exact hk
  · have hc := h3.mp (h2 hk)
    rcases he with he | he <;> rw [he] at hc <;> simp at hc

/-- an external writer that has written is never stuck: either K is receiving or the writer's close
channel is closed — its `select` has an enabled case in every reachable state -/
theorem writer_never_stuck (n : Nat) (s : WState) (h : WReach n s) (j : Nat) (hj : j < s.ws.length)
    (hw : s.ws.getD j .idle = .written) : s.k = .select_ ∨ s.closed = true := by
  obtain ⟨_, h2, _, _⟩ := inv_reach h
  rcases k_cases s.k with hk | hk
  · exact Or.inl hk
  · exact Or.inr (h2 hk)

/-- the join is never blocked: once E has left its loop K can always finish, whatever the writers do -/
theorem join_enabled (n : Nat) (s : WState) (h : WReach n s) (he : s.e = .exited) :
    s.k = .done ∨ ({ s with k := .done } ∈ wnext s) := by
  obtain ⟨_, _, h3, _⟩ := inv_reach h
  have hc : s.closed = true := h3.mpr (Or.inl he)
  rcases k_cases s.k with hk | hk
  · refine Or.inr (mem_wnext.mpr (Or.inr (Or.inl ?_)))
    simp [kSteps, hk, hc]
  · exact Or.inl hk

/-- no deadlock: in every reachable state in which something is still to be done (E not done, or a
writer inside a call) some step is enabled -/
theorem no_deadlock (n : Nat) (s : WState) (h : WReach n s)
    (hbusy : s.e ≠ .done ∨ ∃ j, j < s.ws.length ∧ s.ws.getD j .idle ≠ .idle) : wnext s ≠ [] := by
  have hi := inv_reach h
  by_cases he : s.e = .done
  · rcases hbusy with hb | ⟨j, hj, hw⟩
    · exact absurd he hb
    · have hc : s.closed = true := hi.2.2.1.mpr (Or.inr he)
      exact wnext_ne_nil_of_w hj (w_enabled hc hw)
  · rcases e_or_k_enabled hi he with h' | h'
    · exact wnext_ne_nil_of_e h'
    · exact wnext_ne_nil_of_k h'

/-- after the session has ended a new `WriteUpdate` call does not start (it returns the error at the
non-blocking check) and nothing more reaches the wire from calls that start afterwards: `wrote` only
grows through calls that passed the check before the close -/
theorem no_write_starts_after_close (n : Nat) (s s' : WState) (h : WReach n s) (hc : s.closed = true)
    (hs : s' ∈ wnext s) : ∀ j, s.ws.getD j .idle = .idle → s'.ws.getD j .idle = .idle := by
  intro j hj
  rcases mem_wnext.mp hs with h' | h' | ⟨j', _, h'⟩
  · rw [eSteps_ws h']; exact hj
  · rw [kSteps_ws h']; exact hj
  · exact wStep_keeps_idle hc h' j hj

example : (wnext (wInit 2)).length = 5 := by decide

end CoreBGP.Props.C04L2
