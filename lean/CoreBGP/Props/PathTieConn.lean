import CoreBGP.Props.PathTie
/-! Path tie for the life cycle of one connection inside an FSM (`sendOpenAndSetHoldTimer`, `startReading`,
`cleanupConnAndReader` of `fsm.go`), on the regenerated control paths. Listed under C05 / C10 (nothing is left behind, nothing
wedges on a later connection of the same FSM) and C14 (one OPEN per connection, built from one call of `GetCapabilities`). -/
namespace CoreBGP.Props.PathTieConn
open CoreBGP CoreBGP.Model CoreBGP.Gen CoreBGP.Props.PathTie

/-- entering OpenSent: `GetCapabilities` is asked once, the OPEN is built from it, encoded and handed to the connection in
ONE `Write`; only after the write succeeded is the (large) hold timer created and the reader started; if building,
encoding or writing fails the connection is closed, nothing is started, and the FSM goes to Idle -/
theorem open_sent_paths :
    (∀ p ∈ pathsOf "sendOpenAndSetHoldTimer", p.ret = ["openSentState"] →
      p.calls = ["f.peer.plugin.GetCapabilities", "newOpenMessage", "o.encode", "f.conn.Write(b)", "time.NewTimer(longHoldTime)",
                 "set f.holdTimer=time.NewTimer(longHoldTime)", "f.startReading"] ∧ p.guards.all (·.2 == false) = true) ∧
    (∀ p ∈ pathsOf "sendOpenAndSetHoldTimer", p.ret ≠ ["openSentState"] →
      p.ret = ["idleState"] ∧ p.calls.getLast? = some "f.conn.Close" ∧ p.calls.contains "f.startReading" = false ∧
      p.calls.contains "set f.holdTimer=time.NewTimer(longHoldTime)" = false) ∧
    (∀ p ∈ pathsOf "sendOpenAndSetHoldTimer",
      (p.calls.filter (· == "f.peer.plugin.GetCapabilities")).length = 1 ∧ (p.calls.filter (· == "f.conn.Write(b)")).length ≤ 1) ∧
    (pathsOf "sendOpenAndSetHoldTimer").any (fun p => p.ret == ["openSentState"]) = true := by
  decide

/-- every connection gets its own reader: `startReading` makes fresh channels and re-arms the close-once guard before it
starts the goroutine (what one connection left behind cannot reach the next one of the same FSM) -/
theorem start_reading_rearms :
    (pathsOf "startReading").map (·.calls) =
      [["make", "set f.closeReaderCh=make(chanstruct{})", "set f.closeReaderOnce=sync.Once{}", "make",
        "set f.readerDoneCh=make(chanstruct{})", "make", "set f.readerErrCh=make(chanerror)", "make",
        "set f.readerMsgCh=make(chanmessage)", "go"]] := by
  decide

/-- teardown: the connection is closed if there is one; if a reader was ever started it is told to stop (once) and joined
(`<-f.readerDoneCh`) before `cleanupConnAndReader` returns -/
theorem cleanup_joins_reader :
    (∀ p ∈ pathsOf "cleanupConnAndReader", p.guards.contains ("f.conn!=nil", true) = true → p.calls.head? = some "f.conn.Close") ∧
    (∀ p ∈ pathsOf "cleanupConnAndReader", p.guards.contains ("f.conn!=nil", false) = true → p.calls.contains "f.conn.Close" = false) ∧
    (∀ p ∈ pathsOf "cleanupConnAndReader", p.guards.contains ("f.closeReaderCh==nil", false) = true →
      (p.calls.drop (p.calls.length - 2)) = ["f.closeReaderOnce.Do", "recv f.readerDoneCh"]) ∧
    (∀ p ∈ pathsOf "cleanupConnAndReader", p.guards.contains ("f.closeReaderCh==nil", true) = true →
      p.calls.contains "recv f.readerDoneCh" = false) ∧
    (pathsOf "cleanupConnAndReader").length = 4 := by
  decide

end CoreBGP.Props.PathTieConn
