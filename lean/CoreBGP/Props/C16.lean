import CoreBGP.Model.Update
import CoreBGP.Spec.Update
import CoreBGP.Lemmas.UpdateDecode
/-!
# C16 — UpdateDecoder partitions an UPDATE exactly as its length fields dictate
-/
namespace CoreBGP.Props.C16
open CoreBGP CoreBGP.Model

def toModelCall : Spec.Call → Call
  | .wr b => .wr b
  | .attr c f b => .attr c f b
  | .nlri b => .nlri b

/-- with callbacks that return nil, the calls made are exactly: nothing if a length field overruns
the message; else the withdrawn-routes bytes, then the first occurrence of each attribute in wire
order with (code, flags, exact value) — stopping, without an NLRI call, at a repeated
MP_REACH/MP_UNREACH — then the NLRI bytes; an overrunning attribute header or value ends
attribute iteration but NLRI is still delivered. For byte strings of every length. -/
theorem partition (cb : Callbacks) (b : Bytes) (hnil : ∀ h c, cb h c = none) :
    ∃ e, decodeUpdate cb b = .ok ((Spec.expectedCallsNil b).map toModelCall, e) := by
  rw [Lemmas.decodeUpdate_eq]
  by_cases h4 : b.length < 4
  · refine ⟨some (.notif genericUpdateNotif), ?_⟩
    simp only [h4, if_true, Spec.expectedCallsNil, Lemmas.partition_short h4, List.map_nil]
  · simp only [h4, if_false, Spec.expectedCallsNil]
    cases hp : Spec.partition b with
    | none => exact ⟨some malformedAttrList, rfl⟩
    | some t =>
      obtain ⟨w, ab, n⟩ := t
      refine ⟨(Lemmas.nilTail w ab n).2, ?_⟩
      simp only [Lemmas.decodeTail_nil cb hnil]
      congr 1
      simp only [Lemmas.nilTail]
      generalize Spec.parseAttrs ab = p
      generalize Spec.firstOccurrences p.1 [] = r
      obtain ⟨as, junk⟩ := p
      obtain ⟨fo, rep⟩ := r
      cases rep <;> simp [toModelCall, Lemmas.attrCall, Function.comp_def]

/-- reference-parser sanity: a block built from whole attributes parses back to them -/
theorem parseAttrs_wire (as : List Spec.Attr)
    (hfit : ∀ a ∈ as, (a.flags.toNat / 16 % 2 = 1 → a.value.length ≤ 65535) ∧ (a.flags.toNat / 16 % 2 = 0 → a.value.length ≤ 255)) :
    Spec.parseAttrs (as.map Spec.attrWire).flatten = (as, []) := by
  exact Lemmas.attrs_wire as hfit _ (Nat.lt_succ_self _)

/-- reconstruction: the parsed attributes and the junk are a partition of the block -/
theorem parseAttrs_reconstruct (b : Bytes) :
    ((Spec.parseAttrs b).1.map Spec.attrWire).flatten ++ (Spec.parseAttrs b).2 = b := by
  exact Lemmas.attrs_reconstruct _ b

/-- the three sections are a partition of the body -/
theorem partition_reconstruct (b w a n : Bytes) (h : Spec.partition b = some (w, a, n)) :
    Spec.u16 w.length ++ w ++ Spec.u16 a.length ++ a ++ n = b ∧ w.length ≤ 65535 ∧ a.length ≤ 65535 := by
  exact Lemmas.partition_reconstruct b w a n h

example : Spec.expectedCallsNil [0, 0, 0, 4, 0x40, 1, 1, 0, 8, 10] = [.wr [], .attr 1 0x40 [0], .nlri [8, 10]] := by decide

end CoreBGP.Props.C16
