import CoreBGP.Model.Session
import CoreBGP.Spec.Session
import CoreBGP.Lemmas.Reader
import CoreBGP.Lemmas.Session
/-!
# C03 — inbound UPDATEs reach the handler exactly once, in order, byte-exact

The reader model is a function of the byte stream alone (segmentation-free by construction; that
the Go reader is too is exercised by the live engine with random partitions into TCP writes), so
delivery is: stream ↦ `readAll` ↦ `runSession`. "Between OnEstablished's return and OnClose" is
C01's history theorem; "the delivered slice is not modified afterwards" is Go aliasing, which a
pure model cannot express — the model records that `messageFromBytes` copies, the harness's
aliasing monitor is the evidence for that clause (partial).
-/
namespace CoreBGP.Props.C03
open CoreBGP CoreBGP.Model

def handlerCalls : List Act → List Bytes
  | [] => []
  | .handler b :: rest => b :: handlerCalls rest
  | _ :: rest => handlerCalls rest

def updBody : RMsg → Option Bytes
  | .update b => some b
  | _ => none

def isKaOrUpdate : RMsg → Bool
  | .update _ | .keepalive => true
  | _ => false

theorem handlerCalls_append (a b : List Act) : handlerCalls (a ++ b) = handlerCalls a ++ handlerCalls b := by
  induction a with
  | nil => rfl
  | cons x xs ih => cases x <;> simp [handlerCalls, ih]

/-- for every sequence of UPDATEs and KEEPALIVEs handed over by the reader, with a handler that
returns nil, the handler is called with exactly the UPDATE bodies, in order, each once -/
theorem delivery (cfg : SessCfg) (ms : List RMsg) (h : ∀ m ∈ ms, isKaOrUpdate m = true) :
    handlerCalls (runSession cfg .established (ms.map fun m => (.msg m, none))) = ms.filterMap updBody := by
  induction ms with
  | nil => rfl
  | cons m ms ih =>
    have hm := h m (List.mem_cons_self ..)
    have ih' := ih (fun x hx => h x (List.mem_cons_of_mem _ hx))
    cases m with
    | update b => simp [runSession, react, handlerCalls, updBody, ih']
    | keepalive => simp [runSession, react, handlerCalls, ih', List.filterMap_cons, updBody]
    | open_ o => simp [isKaOrUpdate] at hm
    | notif n => simp [isKaOrUpdate] at hm

/-- once the session is closed nothing is delivered any more -/
theorem closed_delivers_nothing (cfg : SessCfg) (inputs : List (Input × Option Notif)) :
    runSession cfg .closed inputs = [] := by
  induction inputs with
  | nil => rfl
  | cons i rest ih => simp [runSession, react, ih]

/-- if the handler returns a NOTIFICATION for an UPDATE, that NOTIFICATION is sent verbatim, the
session ends (close, OnClose) and no later UPDATE of that connection is delivered -/
theorem handler_veto (cfg : SessCfg) (b : Bytes) (n : Notif) (later : List (Input × Option Notif)) :
    runSession cfg .established ((.msg (.update b), some n) :: later) =
      [.handler b, .send (encodeNotif n), .close, .onClose, .report .idle (some (.sent n.code))] := by
  simp [runSession, react, teardown, closed_delivers_nothing]

/-- end to end over the byte stream: a stream made of whole UPDATE messages (bodies of any length
0..4077) and KEEPALIVEs, however it is segmented, delivers exactly the UPDATE bodies in wire order -/
theorem stream_delivery (cfg : SessCfg) (ms : List (UInt8 × Bytes))
    (hms : ∀ m ∈ ms, (m.1 = 2 ∧ m.2.length ≤ 4077) ∨ (m.1 = 4 ∧ m.2 = [])) :
    handlerCalls (runSession cfg .established
        (((readAll (ms.map fun m => Spec.frame m.1 m.2).flatten).1).map fun m => (.msg m, none)))
      = ms.filterMap fun m => if m.1 = 2 then some m.2 else none := by
  rw [Lemmas.readAll_kaOrUpdate ms hms]
  have hk : ∀ m ∈ ms.map Lemmas.kaOrUpdate, isKaOrUpdate m = true := by
    intro m hm
    obtain ⟨x, _, rfl⟩ := List.mem_map.1 hm
    unfold Lemmas.kaOrUpdate
    split <;> rfl
  rw [delivery cfg _ hk, List.filterMap_map]
  congr 1
  funext m
  simp only [Function.comp, Lemmas.kaOrUpdate]
  split <;> rfl

example : handlerCalls (runSession ⟨1, 1, 2, 90⟩ .established
    [(.msg (.update [1]), none), (.msg .keepalive, none), (.msg (.update []), none)]) = [[1], []] := by decide

end CoreBGP.Props.C03
