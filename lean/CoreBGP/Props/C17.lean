import CoreBGP.Model.Update
import CoreBGP.Spec.Update
import CoreBGP.Lemmas.UpdateDecode
/-!
# C17 — UpdateDecoder reports errors with the RFC 7606 approach they require
-/
namespace CoreBGP.Props.C17
open CoreBGP CoreBGP.Model

mutual
/-- an error tree flattened in pre-order to the elements `UpdateNotificationFromErr` looks at: class
and the NOTIFICATION each stands for -/
def leaves : Err → Spec.Leaves
  | .notif n => [(.notification, n)]
  | .taw _ n => [(.withdraw, resolveNotif n)]
  | .discard _ n => [(.discard, resolveNotif n)]
  | .upd n => [(.other, n)]
  | .other => []
  | .wrap e => leaves e
  | .join es => leavesL es
def leavesL : ErrList → Spec.Leaves
  | .nil => []
  | .cons e es => leaves e ++ leavesL es
end

/-- strongest class present in a tree -/
def strongest (e : Option Err) : Spec.Class :=
  match e with
  | none => .none_
  | some e => (leaves e).foldl (fun m l => if l.1.rank > m.rank then l.1 else m) .none_

mutual
/-- all nodes of a tree in pre-order -/
def preorder : Err → List Err
  | .wrap e => .wrap e :: preorder e
  | .join es => .join es :: preorderL es
  | e => [e]
def preorderL : ErrList → List Err
  | .nil => []
  | .cons e es => preorder e ++ preorderL es
end

/-- the errors the callbacks returned during a run, in call order -/
def returned (cb : Callbacks) (calls : List Call) : List Err :=
  (List.range calls.length).filterMap fun i =>
    match calls[i]? with
    | some c => cb (calls.take i) c
    | none => none

/-- `UpdateNotificationFromErr` maps nil to nil -/
theorem from_err_nil : updateNotificationFromErr none = none := rfl

/-- … and any other error to the earliest element, in pre-order, of the highest class present
(Notification > treat-as-withdraw > attribute-discard > other UpdateError), through its fallback
NOTIFICATION, or the generic UPDATE Message Error (3,0) — for every finite tree built from joins
and wraps -/
theorem from_err (e : Err) : updateNotificationFromErr (some e) = some (Spec.chooseNotif (leaves e)) := by
  sorry

/-- with callbacks that return nil, `Decode` returns nil exactly for the UPDATEs that are
structurally consistent (both length fields fit, no attribute header or value overruns the
block, no repeated MP attribute) and carry ORIGIN and AS_PATH whenever they announce routes -/
theorem nil_iff (cb : Callbacks) (b : Bytes) (hnil : ∀ h c, cb h c = none) :
    (∃ calls, decodeUpdate cb b = .ok (calls, none)) ↔ (Spec.verdictNil b).cls = .none_ := by
  sorry

/-- … and otherwise the strongest element of the returned tree has the class RFC 7606 prescribes
and `UpdateNotificationFromErr` yields the fallback NOTIFICATION the property names: (3,0) for a
body shorter than 4 bytes, (3,1) for inconsistent lengths or a repeated MP attribute,
treat-as-withdraw for an attribute overrun or a missing mandatory attribute with
(3,3,[missing code]) -/
theorem class_nil (cb : Callbacks) (b : Bytes) (hnil : ∀ h c, cb h c = none)
    (calls : List Call) (e : Option Err) (h : decodeUpdate cb b = .ok (calls, e)) :
    strongest e = (Spec.verdictNil b).cls ∧
    (∀ t, (Spec.verdictNil b).notif = some t →
      ∃ n, updateNotificationFromErr e = some n ∧ (n.code.toNat, n.sub.toNat, n.data) = t) := by
  sorry

/-- whatever the callbacks do: if any callback returned an error, `Decode` does not return nil -/
theorem callback_error_not_nil (cb : Callbacks) (b : Bytes) (calls : List Call) (e : Option Err)
    (h : decodeUpdate cb b = .ok (calls, e)) (hr : returned cb calls ≠ []) : e ≠ none := by
  sorry

/-- the returned tree contains every error the callbacks returned up to the point decoding
stopped, in order -/
theorem contains_callback_errors (cb : Callbacks) (b : Bytes) (calls : List Call) (e : Err)
    (h : decodeUpdate cb b = .ok (calls, some e)) :
    List.Sublist (returned cb calls) (preorder e) := by
  sorry

/-- a callback error containing a `*Notification` stops decoding: it is the last call made -/
theorem notification_stops (cb : Callbacks) (b : Bytes) (calls : List Call) (e : Option Err)
    (h : decodeUpdate cb b = .ok (calls, e)) (i : Nat) (hi : i + 1 < calls.length) (c : Call)
    (hc : calls[i]? = some c) : ∀ x, cb (calls.take i) c = some x → x.hasNotif = false := by
  sorry

/-- an UPDATE that announces routes without ORIGIN or AS_PATH is never answered with nil,
whatever the callbacks return -/
theorem missing_mandatory_not_nil (cb : Callbacks) (b : Bytes) (calls : List Call)
    (hv : (Spec.verdictNil b).cls ≠ .none_) : decodeUpdate cb b ≠ .ok (calls, none) := by
  sorry

example : (Spec.verdictNil [0, 0, 0, 0, 8, 10]) = ⟨.withdraw, some (3, 3, [1])⟩ := by decide
example : (Spec.verdictNil [0, 0, 0, 0]) = ⟨.none_, none⟩ := by decide

end CoreBGP.Props.C17
