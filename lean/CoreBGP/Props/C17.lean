import CoreBGP.Model.Update
import CoreBGP.Spec.Update
import CoreBGP.Lemmas.UpdateDecode
/-!
# C17 — UpdateDecoder reports errors with the RFC 7606 approach they require
-/
namespace CoreBGP.Props.C17
open CoreBGP CoreBGP.Model

mutual
/-- an error tree flattened in pre-order to the elements `UpdateNotificationFromErr` looks at: class
and the NOTIFICATION each stands for -/
def leaves : Err → Spec.Leaves
  | .notif n => [(.notification, n)]
  | .taw _ n => [(.withdraw, resolveNotif n)]
  | .discard _ n => [(.discard, resolveNotif n)]
  | .upd n => [(.other, n)]
  | .other => []
  | .wrap e => leaves e
  | .join es => leavesL es
def leavesL : ErrList → Spec.Leaves
  | .nil => []
  | .cons e es => leaves e ++ leavesL es
end

/-- strongest class present in a tree -/
def strongest (e : Option Err) : Spec.Class :=
  match e with
  | none => .none_
  | some e => (leaves e).foldl (fun m l => if l.1.rank > m.rank then l.1 else m) .none_

mutual
/-- all nodes of a tree in pre-order -/
def preorder : Err → List Err
  | .wrap e => .wrap e :: preorder e
  | .join es => .join es :: preorderL es
  | e => [e]
def preorderL : ErrList → List Err
  | .nil => []
  | .cons e es => preorder e ++ preorderL es
end

/-- the errors the callbacks returned during a run, in call order -/
def returned (cb : Callbacks) (calls : List Call) : List Err :=
  (List.range calls.length).filterMap fun i =>
    match calls[i]? with
    | some c => cb (calls.take i) c
    | none => none

end CoreBGP.Props.C17

/-! helper lemmas that mention the definitions above (kept out of the property namespace) -/
namespace CoreBGP.Lemmas
open CoreBGP CoreBGP.Model CoreBGP.Props.C17

mutual
theorem scan_spec : ∀ (e : Err) (f : Found), f.n = none →
    (e.scan f).n = firstOf .notification (leaves e) ∧
    ((e.scan f).n = none →
      (e.scan f).taw = f.taw.or (firstOf .withdraw (leaves e)) ∧
      (e.scan f).ad = f.ad.or (firstOf .discard (leaves e)) ∧
      (e.scan f).ue = f.ue.or (firstOf .other (leaves e)))
  | .notif x, f, h => by simp [Err.scan, leaves, h, firstOf]
  | .taw _ n, f, h => by
    cases hf : f.taw <;> simp [Err.scan, leaves, h, hf, firstOf]
  | .discard _ n, f, h => by
    cases hf : f.ad <;> simp [Err.scan, leaves, h, hf, firstOf]
  | .upd n, f, h => by
    cases hf : f.ue <;> simp [Err.scan, leaves, h, hf, firstOf]
  | .other, f, h => by simp [Err.scan, leaves, h, firstOf]
  | .wrap e, f, h => by
    simp only [Err.scan, leaves]; exact scan_spec e f h
  | .join es, f, h => by
    simp only [Err.scan, leaves]; exact scanL_spec es f h
theorem scanL_spec : ∀ (es : ErrList) (f : Found), f.n = none →
    (es.scan f).n = firstOf .notification (leavesL es) ∧
    ((es.scan f).n = none →
      (es.scan f).taw = f.taw.or (firstOf .withdraw (leavesL es)) ∧
      (es.scan f).ad = f.ad.or (firstOf .discard (leavesL es)) ∧
      (es.scan f).ue = f.ue.or (firstOf .other (leavesL es)))
  | .nil, f, h => by simp [ErrList.scan, leavesL, h, firstOf]
  | .cons e es, f, h => by
    have h1 := scan_spec e f h
    simp only [ErrList.scan, leavesL, firstOf_append]
    cases hn : (e.scan f).n with
    | some x =>
      rw [hn] at h1
      simp [hn, ← h1.1]
    | none =>
      rw [hn] at h1
      have h2 := scanL_spec es (e.scan f) hn
      obtain ⟨h1a, h1b⟩ := h1
      obtain ⟨hb1, hb2, hb3⟩ := h1b rfl
      simp only [Option.isSome_none, Bool.false_eq_true, if_false, ← h1a, Option.none_or]
      refine ⟨h2.1, fun h3 => ?_⟩
      obtain ⟨hc1, hc2, hc3⟩ := h2.2 h3
      rw [hc1, hc2, hc3, hb1, hb2, hb3]
      simp [Option.or_assoc]
end

theorem from_err_aux (e : Err) : updateNotificationFromErr (some e) = some (Spec.chooseNotif (leaves e)) := by
  have h := scan_spec e {} rfl
  obtain ⟨h1, h2⟩ := h
  rw [chooseNotif_eq]
  unfold updateNotificationFromErr
  simp only
  rw [← h1]
  cases hn : (e.scan {}).n with
  | some x => simp
  | none =>
    obtain ⟨ha, hb, hc⟩ := h2 hn
    simp only [Option.none_or] at ha hb hc
    rw [← ha, ← hb, ← hc]
    cases (e.scan {}).taw <;> cases (e.scan {}).ad <;> cases (e.scan {}).ue <;> simp <;> rfl

theorem nilTail_verdict (b w ab n : Bytes) (h4 : ¬ b.length < 4) (hp : Spec.partition b = some (w, ab, n)) :
    ((nilTail w ab n).2 = none ↔ (Spec.verdictNil b).cls = .none_) ∧
    strongest (nilTail w ab n).2 = (Spec.verdictNil b).cls ∧
    (∀ t, (Spec.verdictNil b).notif = some t →
      ∃ x, updateNotificationFromErr (nilTail w ab n).2 = some x ∧ (x.code.toNat, x.sub.toNat, x.data) = t) := by
  simp only [Spec.verdictNil, h4, if_false, hp, nilTail]
  generalize Spec.parseAttrs ab = p
  generalize Spec.firstOccurrences p.1 [] = r
  obtain ⟨as, junk⟩ := p
  obtain ⟨fo, rep⟩ := r
  cases rep
  · simp only [Bool.false_eq_true, if_false]
    simp only [List.contains_eq_mem, Bool.not_eq_true', decide_eq_false_iff_not, decide_eq_true_eq]
    by_cases h14 : (14 : UInt8) ∈ List.map (fun x => x.code) fo <;>
    by_cases h1 : (1 : UInt8) ∈ List.map (fun x => x.code) fo <;>
    by_cases h2 : (2 : UInt8) ∈ List.map (fun x => x.code) fo <;>
    by_cases hnn : n = [] <;> by_cases hj : junk = [] <;>
      simp [h14, h1, h2, hj, hnn, joinErr, totalAttrLenErr, strongest, leaves, leavesL, Spec.Class.rank,
        updateNotificationFromErr, Err.scan, ErrList.scan, resolveNotif, genericUpdateNotif,
        Gen.NOTIF_CODE_UPDATE_MESSAGE_ERR]
  · simp [malformedAttrList, strongest, leaves, leavesL, Spec.Class.rank,
        updateNotificationFromErr, Err.scan, ErrList.scan, Gen.NOTIF_CODE_UPDATE_MESSAGE_ERR,
        Gen.NOTIF_SUBCODE_MALFORMED_ATTR_LIST]

/-! ### the returned tree contains the callback errors -/

/-- all nodes of an optional tree -/
def pre : Option Err → List Err
  | none => []
  | some e => preorder e

theorem root_sub (e : Err) : [e].Sublist (preorder e) := by
  cases e <;> simp [preorder]

theorem toList_sub_pre (o : Option Err) : o.toList.Sublist (pre o) := by
  cases o with
  | none => simp [pre]
  | some e => simpa [pre] using root_sub e

theorem pre_joinErr (a b : Option Err) : (pre a ++ pre b).Sublist (pre (joinErr a b)) := by
  cases a <;> cases b <;> simp [pre, joinErr, preorder, preorderL]

theorem pre_joinIf (a b : Option Err) :
    (pre a ++ pre b).Sublist (pre (if b.isSome then joinErr a b else a)) := by
  cases b with
  | none => simp [pre]
  | some e => simpa using pre_joinErr a (some e)

theorem filterMap_congr' {α β : Type} {f g : α → Option β} : ∀ {l : List α},
    (∀ x ∈ l, f x = g x) → l.filterMap f = l.filterMap g := by
  intro l
  induction l with
  | nil => intro _; rfl
  | cons a l ih =>
    intro h
    simp only [List.filterMap_cons, h a List.mem_cons_self, ih (fun x hx => h x (List.mem_cons_of_mem _ hx))]

theorem returned_nil (cb : Callbacks) : returned cb [] = [] := rfl

theorem returned_snoc (cb : Callbacks) (calls : List Call) (c : Call) :
    returned cb (calls ++ [c]) = returned cb calls ++ (cb calls c).toList := by
  unfold returned
  rw [List.length_append, List.length_singleton, List.range_succ, List.filterMap_append]
  congr 1
  · apply filterMap_congr'
    intro i hi
    have hlt : i < calls.length := List.mem_range.1 hi
    rw [List.getElem?_append_left hlt, List.take_append_of_le_length (Nat.le_of_lt hlt)]
  · simp only [List.filterMap_cons, List.filterMap_nil, List.getElem?_concat_length, List.take_left' rfl]
    cases cb calls c <;> rfl

/-- the calls and the tree after some steps extend those before by the same callback errors -/
def SubRes (cb : Callbacks) (calls : List Call) (me : Option Err) (calls' : List Call) (me' : Option Err) : Prop :=
  ∃ errs, returned cb calls' = returned cb calls ++ errs ∧ (pre me ++ errs).Sublist (pre me')

theorem SubRes.refl_join (cb : Callbacks) (calls : List Call) (me : Option Err) (x : Option Err) :
    SubRes cb calls me calls (joinErr me x) :=
  ⟨[], by simp, by
    simpa using (List.sublist_append_left (pre me) (pre x)).trans (pre_joinErr me x)⟩

theorem SubRes.refl (cb : Callbacks) (calls : List Call) (me : Option Err) : SubRes cb calls me calls me :=
  ⟨[], by simp, by simp⟩

/-- one callback invocation whose result is joined into the tree -/
theorem SubRes.step (cb : Callbacks) (calls : List Call) (me : Option Err) (c : Call) :
    SubRes cb calls me (calls ++ [c]) (match cb calls c with | none => me | some e => joinErr me (some e)) := by
  refine ⟨(cb calls c).toList, returned_snoc cb calls c, ?_⟩
  cases h : cb calls c with
  | none => simp
  | some e =>
    exact ((List.Sublist.refl (pre me)).append (toList_sub_pre (some e))).trans (pre_joinErr me (some e))

theorem SubRes.trans {cb : Callbacks} {c1 c2 c3 : List Call} {m1 m2 m3 : Option Err}
    (h1 : SubRes cb c1 m1 c2 m2) (h2 : SubRes cb c2 m2 c3 m3) : SubRes cb c1 m1 c3 m3 := by
  obtain ⟨e1, hr1, hs1⟩ := h1
  obtain ⟨e2, hr2, hs2⟩ := h2
  refine ⟨e1 ++ e2, by rw [hr2, hr1, List.append_assoc], ?_⟩
  rw [← List.append_assoc]
  exact (hs1.append_right e2).trans hs2

def outSt : Sum PAState PAState → PAState
  | .inl st => st
  | .inr st => st

theorem loopOn_sub (cb : Callbacks) (junk : Bytes) : ∀ (as : List Spec.Attr) (st : PAState),
    SubRes cb st.calls st.me (outSt (loopOn cb as junk st)).calls (outSt (loopOn cb as junk st)).me := by
  intro as
  induction as with
  | nil =>
    intro st
    unfold loopOn
    split
    · exact SubRes.refl _ _ _
    · exact SubRes.refl_join _ _ _ _
  | cons a as ih =>
    intro st
    unfold loopOn
    split
    · split
      · exact SubRes.refl_join _ _ _ _
      · exact ih st
    · simp only
      have hstep := SubRes.step cb st.calls st.me (attrCall a)
      split
      next hnone =>
        rw [hnone] at hstep
        exact hstep.trans (ih _)
      next e hsome =>
        rw [hsome] at hstep
        split
        · exact hstep
        · exact hstep.trans (ih _)

theorem decodePathAttrs_sub (cb : Callbacks) (calls : List Call) (ab : Bytes) (hasNLRI : Bool) :
    SubRes cb calls none (decodePathAttrs cb calls ab hasNLRI).1 (decodePathAttrs cb calls ab hasNLRI).2 := by
  rw [decodePathAttrs_eq]
  split
  · exact SubRes.refl _ _ _
  · have := loopOn_sub cb (Spec.parseAttrs ab).2 (Spec.parseAttrs ab).1 ⟨calls, none, []⟩
    revert this
    generalize loopOn cb _ _ _ = r
    cases r with
    | inr st' => exact id
    | inl st' =>
      intro h
      simp only [outSt] at h
      unfold finishAttrs
      simp only
      split
      · split
        · exact h.trans (SubRes.refl_join _ _ _ _)
        · exact h
      · exact h

theorem decodeTail_sub (cb : Callbacks) (w ab n : Bytes) :
    (returned cb (decodeTail cb w ab n).1).Sublist (pre (decodeTail cb w ab n).2) := by
  have fin : ∀ {calls me}, SubRes cb [] none calls me → (returned cb calls).Sublist (pre me) := by
    rintro calls me ⟨errs, h1, h2⟩
    rw [h1]
    simpa [pre, returned_nil] using h2
  have h0 : SubRes cb [] none [Call.wr w] (joinErr none (cb [] (Call.wr w))) := by
    have := SubRes.step cb [] none (Call.wr w)
    cases hr : cb [] (Call.wr w) with
    | none => rw [hr] at this; simpa [joinErr] using this
    | some e => rw [hr] at this; simpa using this
  have h1 := decodePathAttrs_sub cb [Call.wr w] ab (decide (n.length > 0))
  unfold decodeTail
  simp only
  generalize decodePathAttrs cb [Call.wr w] ab (decide (n.length > 0)) = r at h1 ⊢
  obtain ⟨calls', perr⟩ := r
  simp only at h1 ⊢
  have h2 : SubRes cb [Call.wr w] (joinErr none (cb [] (Call.wr w))) calls'
      (if perr.isSome then joinErr (joinErr none (cb [] (Call.wr w))) perr else joinErr none (cb [] (Call.wr w))) := by
    obtain ⟨errs, hr, hs⟩ := h1
    refine ⟨errs, hr, ?_⟩
    simp only [pre, List.nil_append] at hs
    exact ((List.Sublist.refl _).append hs).trans (pre_joinIf _ _)
  split
  · exact fin h0
  · split
    · exact fin (h0.trans h2)
    · apply fin
      refine (h0.trans h2).trans ?_
      have := SubRes.step cb calls' (if perr.isSome then joinErr (joinErr none (cb [] (Call.wr w))) perr
        else joinErr none (cb [] (Call.wr w))) (Call.nlri n)
      cases hr : cb calls' (Call.nlri n) with
      | none => rw [hr] at this; simpa using this
      | some e => rw [hr] at this; simpa using this

theorem decodeUpdate_sub (cb : Callbacks) (b : Bytes) (calls : List Call) (e : Option Err)
    (h : decodeUpdate cb b = .ok (calls, e)) : (returned cb calls).Sublist (pre e) := by
  rw [decodeUpdate_eq] at h
  injection h with h
  split at h
  · have : calls = [] := (congrArg Prod.fst h).symm
    subst this
    simp [returned_nil]
  · split at h
    · have : calls = [] := (congrArg Prod.fst h).symm
      subst this
      simp [returned_nil]
    next w ab n _ =>
      have h1 : calls = (decodeTail cb w ab n).1 := (congrArg Prod.fst h).symm
      have h2 : e = (decodeTail cb w ab n).2 := (congrArg Prod.snd h).symm
      subst h1 h2
      exact decodeTail_sub cb w ab n

end CoreBGP.Lemmas

namespace CoreBGP.Props.C17
open CoreBGP CoreBGP.Model

/-- `UpdateNotificationFromErr` maps nil to nil -/
theorem from_err_nil : updateNotificationFromErr none = none := rfl

/-- … and any other error to the earliest element, in pre-order, of the highest class present
(Notification > treat-as-withdraw > attribute-discard > other UpdateError), through its fallback
NOTIFICATION, or the generic UPDATE Message Error (3,0) — for every finite tree built from joins
and wraps -/
theorem from_err (e : Err) : updateNotificationFromErr (some e) = some (Spec.chooseNotif (leaves e)) := by
  exact Lemmas.from_err_aux e

/-- with callbacks that return nil, `Decode` returns nil exactly for the UPDATEs that are
structurally consistent (both length fields fit, no attribute header or value overruns the
block, no repeated MP attribute) and carry ORIGIN and AS_PATH whenever they announce routes -/
theorem nil_iff (cb : Callbacks) (b : Bytes) (hnil : ∀ h c, cb h c = none) :
    (∃ calls, decodeUpdate cb b = .ok (calls, none)) ↔ (Spec.verdictNil b).cls = .none_ := by
  rw [Lemmas.decodeUpdate_eq]
  by_cases h4 : b.length < 4
  · simp [h4, Spec.verdictNil]
  · simp only [h4, if_false]
    cases hp : Spec.partition b with
    | none => simp [Spec.verdictNil, h4, hp, malformedAttrList]
    | some t =>
      obtain ⟨w, ab, n⟩ := t
      simp only [Lemmas.decodeTail_nil cb hnil]
      rw [← (Lemmas.nilTail_verdict b w ab n h4 hp).1]
      constructor
      · rintro ⟨calls, h⟩
        injection h with h
        rw [h]
      · intro h
        exact ⟨(Lemmas.nilTail w ab n).1, by rw [← h]⟩

/-- … and otherwise the strongest element of the returned tree has the class RFC 7606 prescribes
and `UpdateNotificationFromErr` yields the fallback NOTIFICATION the property names: (3,0) for a
body shorter than 4 bytes, (3,1) for inconsistent lengths or a repeated MP attribute,
treat-as-withdraw for an attribute overrun or a missing mandatory attribute with
(3,3,[missing code]) -/
theorem class_nil (cb : Callbacks) (b : Bytes) (hnil : ∀ h c, cb h c = none)
    (calls : List Call) (e : Option Err) (h : decodeUpdate cb b = .ok (calls, e)) :
    strongest e = (Spec.verdictNil b).cls ∧
    (∀ t, (Spec.verdictNil b).notif = some t →
      ∃ n, updateNotificationFromErr e = some n ∧ (n.code.toNat, n.sub.toNat, n.data) = t) := by
  rw [Lemmas.decodeUpdate_eq] at h
  injection h with h
  by_cases h4 : b.length < 4
  · simp only [h4, if_true, Prod.mk.injEq] at h
    obtain ⟨_, rfl⟩ := h
    simp [Spec.verdictNil, h4, strongest, leaves, Spec.Class.rank, updateNotificationFromErr, Err.scan,
      genericUpdateNotif, Gen.NOTIF_CODE_UPDATE_MESSAGE_ERR]
  · simp only [h4, if_false] at h
    cases hp : Spec.partition b with
    | none =>
      simp only [hp, Prod.mk.injEq] at h
      obtain ⟨_, rfl⟩ := h
      simp [Spec.verdictNil, h4, hp, strongest, leaves, Spec.Class.rank, updateNotificationFromErr, Err.scan,
        malformedAttrList, Gen.NOTIF_CODE_UPDATE_MESSAGE_ERR, Gen.NOTIF_SUBCODE_MALFORMED_ATTR_LIST]
    | some t =>
      obtain ⟨w, ab, n⟩ := t
      simp only [hp, Lemmas.decodeTail_nil cb hnil] at h
      have he : e = (Lemmas.nilTail w ab n).2 := by rw [h]
      subst he
      exact (Lemmas.nilTail_verdict b w ab n h4 hp).2

/-- whatever the callbacks do: if any callback returned an error, `Decode` does not return nil -/
theorem callback_error_not_nil (cb : Callbacks) (b : Bytes) (calls : List Call) (e : Option Err)
    (h : decodeUpdate cb b = .ok (calls, e)) (hr : returned cb calls ≠ []) : e ≠ none := by
  intro he
  subst he
  have := Lemmas.decodeUpdate_sub cb b calls none h
  simp only [Lemmas.pre, List.sublist_nil] at this
  exact hr this

/-- the returned tree contains every error the callbacks returned up to the point decoding
stopped, in order -/
theorem contains_callback_errors (cb : Callbacks) (b : Bytes) (calls : List Call) (e : Err)
    (h : decodeUpdate cb b = .ok (calls, some e)) :
    List.Sublist (returned cb calls) (preorder e) := by
  exact Lemmas.decodeUpdate_sub cb b calls (some e) h

/-- a callback error containing a `*Notification` stops decoding: it is the last call made -/
theorem notification_stops (cb : Callbacks) (b : Bytes) (calls : List Call) (e : Option Err)
    (h : decodeUpdate cb b = .ok (calls, e)) (i : Nat) (hi : i + 1 < calls.length) (c : Call)
    (hc : calls[i]? = some c) : ∀ x, cb (calls.take i) c = some x → x.hasNotif = false := by
  have hq : Lemmas.QuietButLast cb calls := by
    rw [Lemmas.decodeUpdate_eq] at h
    injection h with h
    split at h
    · have : calls = [] := (congrArg Prod.fst h).symm
      subst this
      simp at hi
    · split at h
      · have : calls = [] := (congrArg Prod.fst h).symm
        subst this
        simp at hi
      next w ab n _ =>
        have : calls = (Lemmas.decodeTail cb w ab n).1 := (congrArg Prod.fst h).symm
        subst this
        exact Lemmas.decodeTail_quiet cb w ab n
  exact fun x hx => hq i c x hi hc hx

/-- an UPDATE that announces routes without ORIGIN or AS_PATH is never answered with nil,
whatever the callbacks return -/
theorem missing_mandatory_not_nil (cb : Callbacks) (b : Bytes) (calls : List Call)
    (hv : (Spec.verdictNil b).cls ≠ .none_) : decodeUpdate cb b ≠ .ok (calls, none) := by
  intro h
  rw [Lemmas.decodeUpdate_eq] at h
  injection h with h
  split at h
  · cases h
  · split at h
    · cases h
    next w ab n hp =>
      have h2 : (Lemmas.decodeTail cb w ab n).2 = none := congrArg Prod.snd h
      exact hv (Lemmas.verdictNil_of_sound b w ab n hp (Lemmas.decodeTail_struct cb w ab n h2))

example : (Spec.verdictNil [0, 0, 0, 0, 8, 10]) = ⟨.withdraw, some (3, 3, [1])⟩ := by decide
example : (Spec.verdictNil [0, 0, 0, 0]) = ⟨.none_, none⟩ := by decide

end CoreBGP.Props.C17
