import CoreBGP.Model.Update
import CoreBGP.Spec.Update
import CoreBGP.Lemmas.Attrs
/-!
# C18 — typed path-attribute decoders accept exactly well-formed attributes

`Spec.attrOutcomes code flags v` is the RFC table (DESIGN E.4): `[ok]` when the Optional /
Transitive bits are those the RFC assigns and the value satisfies the RFC's rule, otherwise the
admissible (approach, subcode) failures. `Conforms` says a decoder result is one of them — hence
success *exactly* when the attribute is well-formed — and that a decoded value is `exact`.

ATOMIC_AGGREGATE does not conform on the pinned tree (known finding, DESIGN section 10 item 11):
the full statement `atomicagg_exact` is false, its negation is proved with a witness, and
`atomicagg_exact_partial` proves conformance to the table with exactly that entry changed.
-/
namespace CoreBGP.Props.C18
open CoreBGP CoreBGP.Model

def errApproach : Err → Option (Spec.Approach × UInt8 × Option Notif)
  | .taw c n => some (.withdraw, c, n)
  | .discard c n => some (.discard, c, n)
  | _ => none

/-- a decoder result conforms to a list of admissible outcomes -/
def ConformsTo {α} (outs : List Spec.AttrOutcome) (code : UInt8) (r : Except Err α) (exact : α → Prop) : Prop :=
  match r with
  | .ok a => Spec.AttrOutcome.ok ∈ outs ∧ exact a
  | .error e => Spec.AttrOutcome.ok ∉ outs ∧
      ∃ ap n, errApproach e = some (ap, code, some n) ∧ n.code = 3 ∧ Spec.AttrOutcome.fail ap n.sub.toNat ∈ outs

def Conforms {α} (code flags : UInt8) (v : Bytes) (r : Except Err α) (exact : α → Prop) : Prop :=
  ConformsTo (Spec.attrOutcomes code flags v) code r exact

theorem origin_exact (flags : UInt8) (v : Bytes) :
    Conforms 1 flags v (decodeOrigin flags v) (fun x => v = [x]) := by
  sorry

/-- AS_PATH: every AS number of every segment, sets and sequences kept apart, in wire order -/
theorem aspath_exact (flags : UInt8) (v : Bytes) :
    Conforms 2 flags v (decodeASPath flags v) (fun p =>
      ∃ segs, Spec.asPathSegs v.length v = some segs ∧
        p.asSet.map (·.toNat) = (segs.filter (·.1 = 1)).flatMap (·.2) ∧
        p.asSequence.map (·.toNat) = (segs.filter (·.1 = 2)).flatMap (·.2)) := by
  sorry

theorem nexthop_exact (flags : UInt8) (v : Bytes) :
    Conforms 3 flags v (decodeNextHop flags v) (fun x => x = v) := by
  sorry

theorem med_exact (flags : UInt8) (v : Bytes) :
    Conforms 4 flags v (decodeMED flags v) (fun x => x = v) := by
  sorry

theorem localpref_exact (flags : UInt8) (v : Bytes) :
    Conforms 5 flags v (decodeLocalPref flags v) (fun x => x = v) := by
  sorry

/-- the RFC table with the ATOMIC_AGGREGATE entry as the code has it (Optional = 1) -/
def atomicAggOutcomesAsCoded (flags : UInt8) (v : Bytes) : List Spec.AttrOutcome :=
  if flags.toNat / 128 % 2 ≠ 1 ∨ flags.toNat / 64 % 2 ≠ 1 then [.fail .withdraw 4]
  else if v.length ≠ 0 then [.fail .discard 5] else [.ok]

/-- partial: what is proved about ATOMIC_AGGREGATE on the pinned tree (missing: the Optional
bit expectation of RFC 4271 §5.1.6) -/
theorem atomicagg_exact_partial (flags : UInt8) (v : Bytes) :
    ConformsTo (atomicAggOutcomesAsCoded flags v) 6 (decodeAtomicAggregate flags v) (fun x => x = true) := by
  sorry

/-- the full statement fails on the pinned tree: flags `0x40` with an empty value is a
well-formed ATOMIC_AGGREGATE and is rejected (replay: `attr.atomicagg 64 -`) -/
theorem atomicagg_not_exact :
    ¬ Conforms 6 0x40 [] (decodeAtomicAggregate 0x40 []) (fun x => x = true) := by
  sorry

theorem aggregator_exact (flags : UInt8) (v : Bytes) :
    Conforms 7 flags v (decodeAggregator flags v) (fun x => be32Bytes x.1 ++ x.2 = v ∧ x.2.length = 4) := by
  sorry

theorem communities_exact (flags : UInt8) (v : Bytes) :
    Conforms 8 flags v (decodeCommunities flags v) (fun x => (x.map be32Bytes).flatten = v) := by
  sorry

theorem originatorid_exact (flags : UInt8) (v : Bytes) :
    Conforms 9 flags v (decodeOriginatorID flags v) (fun x => x = v) := by
  sorry

theorem clusterlist_exact (flags : UInt8) (v : Bytes) :
    Conforms 10 flags v (decodeClusterList flags v) (fun x => x.flatten = v ∧ ∀ a ∈ x, a.length = 4) := by
  sorry

theorem largecomm_exact (flags : UInt8) (v : Bytes) :
    Conforms 32 flags v (decodeLargeCommunities flags v)
      (fun x => (x.map fun (a, b, c) => be32Bytes a ++ be32Bytes b ++ be32Bytes c).flatten = v) := by
  sorry

/-- flag conflicts are treat-as-withdraw with subcode 4 for every typed decoder, and carry the
attribute (type, length — two octets above 255 —, value) as data -/
theorem flag_conflict (flags code : UInt8) (v : Bytes) (o t : Bool)
    (h : flagOptional flags ≠ o ∨ flagTransitive flags ≠ t) :
    validateFlags flags code v o t = some (.taw code (some ⟨3, 4, Spec.attrErrData code v⟩)) := by
  sorry

/-- the four accessors are bits 7..4 of the flags octet -/
theorem flag_accessors (f : UInt8) :
    flagOptional f = f.toNat.testBit 7 ∧ flagTransitive f = f.toNat.testBit 6 ∧
    flagPartial f = f.toNat.testBit 5 ∧ flagExtendedLen f = f.toNat.testBit 4 := by
  sorry

example : Spec.attrOutcomes 2 0x40 [2, 1, 0, 0, 253, 234] = [.ok] := by decide
example : Spec.attrOutcomes 1 0x40 [3] = [.fail .withdraw 6] := by decide

end CoreBGP.Props.C18
