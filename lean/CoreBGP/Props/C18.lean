import CoreBGP.Model.Update
import CoreBGP.Spec.Update
import CoreBGP.Lemmas.Attrs
/-!
# C18 — typed path-attribute decoders accept exactly well-formed attributes

`Spec.attrOutcomes code flags v` is the RFC table (DESIGN E.4): `[ok]` when the Optional /
Transitive bits are those the RFC assigns and the value satisfies the RFC's rule, otherwise the
admissible (approach, subcode) failures. `Conforms` says a decoder result is one of them — hence
success *exactly* when the attribute is well-formed — and that a decoded value is `exact`.

ATOMIC_AGGREGATE does not conform on the pinned tree (known finding, DESIGN section 10 item 11):
the full statement `atomicagg_exact` is false, its negation is proved with a witness, and
`atomicagg_exact_partial` proves conformance to the table with exactly that entry changed.
-/
namespace CoreBGP.Props.C18
open CoreBGP CoreBGP.Model

def errApproach : Err → Option (Spec.Approach × UInt8 × Option Notif)
  | .taw c n => some (.withdraw, c, n)
  | .discard c n => some (.discard, c, n)
  | _ => none

/-- a decoder result conforms to a list of admissible outcomes -/
def ConformsTo {α} (outs : List Spec.AttrOutcome) (code : UInt8) (r : Except Err α) (exact : α → Prop) : Prop :=
  match r with
  | .ok a => Spec.AttrOutcome.ok ∈ outs ∧ exact a
  | .error e => Spec.AttrOutcome.ok ∉ outs ∧
      ∃ ap n, errApproach e = some (ap, code, some n) ∧ n.code = 3 ∧ Spec.AttrOutcome.fail ap n.sub.toNat ∈ outs

def Conforms {α} (code flags : UInt8) (v : Bytes) (r : Except Err α) (exact : α → Prop) : Prop :=
  ConformsTo (Spec.attrOutcomes code flags v) code r exact


/-! ### helper lemmas about `Conforms` (they mention the definitions above, so they cannot live in
`CoreBGP/Lemmas/Attrs.lean`, which this file imports) -/

/-- value-level outcomes: the table once the flags are known to be right -/
private def valueOutcomes (ap : Spec.Approach) (code : UInt8) (v : Bytes) : List Spec.AttrOutcome :=
  match Spec.valueFault code v with
  | none => [.ok]
  | some subs => subs.map (.fail ap ·)

private theorem attrOutcomes_conflict (code flags : UInt8) (v : Bytes) (o t : Bool) (ap : Spec.Approach)
    (hr : Spec.attrRule code = some ⟨code, o, t, ap⟩)
    (h : flagOptional flags ≠ o ∨ flagTransitive flags ≠ t) :
    Spec.attrOutcomes code flags v = [.fail .withdraw 4] := by
  unfold Spec.attrOutcomes
  rw [hr]
  simp only [flagOptional, flagTransitive] at h
  simp only
  rw [if_pos]
  simp only [ne_eq, Lemmas.prop_eq_bool]
  exact h

private theorem attrOutcomes_noconflict (code flags : UInt8) (v : Bytes) (o t : Bool) (ap : Spec.Approach)
    (hr : Spec.attrRule code = some ⟨code, o, t, ap⟩)
    (h1 : flagOptional flags = o) (h2 : flagTransitive flags = t) :
    Spec.attrOutcomes code flags v = valueOutcomes ap code v := by
  unfold Spec.attrOutcomes valueOutcomes
  rw [hr]
  simp only [flagOptional, flagTransitive] at h1 h2
  simp only
  rw [if_neg]
  · rfl
  · simp only [ne_eq, Lemmas.prop_eq_bool, h1, h2]
    simp

private theorem conforms_flags {α} (code flags : UInt8) (v : Bytes) (o t : Bool) (ap : Spec.Approach)
    (hr : Spec.attrRule code = some ⟨code, o, t, ap⟩) (body : Except Err α) (exact : α → Prop)
    (hbody : flagOptional flags = o → flagTransitive flags = t →
      ConformsTo (valueOutcomes ap code v) code body exact) :
    Conforms code flags v
      (match validateFlags flags code v o t with | some e => .error e | none => body) exact := by
  by_cases h : flagOptional flags ≠ o ∨ flagTransitive flags ≠ t
  · rw [Lemmas.validateFlags_conflict _ _ _ _ _ h]
    unfold Conforms
    rw [attrOutcomes_conflict code flags v o t ap hr h]
    simp only [ConformsTo]
    refine ⟨by simp, .withdraw, ⟨3, 4, Spec.attrErrData code v⟩, rfl, rfl, ?_⟩
    simp
  · have h1 : flagOptional flags = o := by
      by_cases h1 : flagOptional flags = o
      · exact h1
      · exact absurd (Or.inl h1) h
    have h2 : flagTransitive flags = t := by
      by_cases h2 : flagTransitive flags = t
      · exact h2
      · exact absurd (Or.inr h2) h
    rw [Lemmas.validateFlags_ok _ _ _ _ _ h1 h2]
    unfold Conforms
    rw [attrOutcomes_noconflict code flags v o t ap hr h1 h2]
    exact hbody h1 h2

/-- a length fault answered by the approach the table names, subcode 5 -/
private theorem conformsTo_lenErr {α} (ap : Spec.Approach) (code : UInt8) (v : Bytes) (e : Err)
    (exact : α → Prop) (he : errApproach e = some (ap, code, some (attrLenBad code v))) :
    ConformsTo [.fail ap 5] code (.error e : Except Err α) exact := by
  simp only [ConformsTo]
  refine ⟨by simp, ap, attrLenBad code v, he, ?_, ?_⟩
  · rw [Lemmas.attrLenBad_eq]
  · rw [Lemmas.attrLenBad_eq]; simp

private theorem conformsTo_ok {α} (code : UInt8) (a : α) (exact : α → Prop) (h : exact a) :
    ConformsTo [.ok] code (.ok a : Except Err α) exact := by
  simp only [ConformsTo]
  exact ⟨by simp, h⟩

private theorem fixed4_conforms (code flags : UInt8) (v : Bytes) (o t : Bool)
    (hr : Spec.attrRule code = some ⟨code, o, t, .withdraw⟩)
    (hv : Spec.valueFault code v = if v.length ≠ 4 then some [5] else none) :
    Conforms code flags v (decodeFixed4 code o t flags v) (fun x => x = v) := by
  unfold decodeFixed4
  apply conforms_flags code flags v o t .withdraw hr
  intro _ _
  unfold valueOutcomes
  rw [hv]
  by_cases h : v.length = 4
  · simp only [h, ne_eq, not_true_eq_false, if_false]
    exact conformsTo_ok _ _ _ rfl
  · simp only [h, ne_eq, not_false_eq_true, if_true, List.map]
    exact conformsTo_lenErr _ _ _ _ _ rfl

private theorem aspath_err {α} (v : Bytes) (e : Err) (exact : α → Prop)
    (hsp : Spec.asPathSegs v.length v = none) (he : Lemmas.asPathErr e) :
    ConformsTo (valueOutcomes .withdraw 2 v) 2 (.error e : Except Err α) exact := by
  have hv : valueOutcomes .withdraw 2 v = [.fail .withdraw 11, .fail .withdraw 5] := by
    simp only [valueOutcomes, Spec.valueFault, hsp, Option.isSome_none, Bool.false_eq_true, if_false,
      List.map]
  rw [hv]
  obtain ⟨n, rfl, hc, hsub⟩ := he
  simp only [ConformsTo]
  refine ⟨by simp, .withdraw, n, rfl, hc, ?_⟩
  rcases hsub with h | h <;> simp [h]

theorem origin_exact (flags : UInt8) (v : Bytes) :
    Conforms 1 flags v (decodeOrigin flags v) (fun x => v = [x]) := by
  unfold decodeOrigin
  apply conforms_flags 1 flags v false true .withdraw rfl
  intro _ _
  match v with
  | [] => exact conformsTo_lenErr _ _ _ _ _ rfl
  | _ :: _ :: _ => exact conformsTo_lenErr _ _ _ _ _ rfl
  | [x] =>
    simp only [valueOutcomes, Spec.valueFault]
    by_cases h : x > 2
    · have h' : x.toNat > 2 := by simpa [UInt8.lt_iff_toNat_lt] using h
      simp only [h, h', if_true, List.map]
      simp only [ConformsTo]
      refine ⟨by simp, .withdraw, _, rfl, rfl, ?_⟩
      simp [Gen.NOTIF_SUBCODE_INVALID_ORIGIN_ATTR]
    · have h' : ¬ x.toNat > 2 := by simpa [UInt8.lt_iff_toNat_lt] using h
      simp only [h, h', if_false]
      exact conformsTo_ok _ _ _ rfl

/-- AS_PATH: every AS number of every segment, sets and sequences kept apart, in wire order -/
theorem aspath_exact (flags : UInt8) (v : Bytes) :
    Conforms 2 flags v (decodeASPath flags v) (fun p =>
      ∃ segs, Spec.asPathSegs v.length v = some segs ∧
        p.asSet.map (·.toNat) = (segs.filter (·.1 = 1)).flatMap (·.2) ∧
        p.asSequence.map (·.toNat) = (segs.filter (·.1 = 2)).flatMap (·.2)) := by
  unfold decodeASPath
  apply conforms_flags 2 flags v false true .withdraw rfl
  intro _ _
  by_cases h0 : v.length = 0
  · have : v = [] := List.eq_nil_of_length_eq_zero h0
    subst this
    exact conformsTo_ok _ _ _ ⟨[], rfl, rfl, rfl⟩
  · rw [if_neg h0]
    by_cases h6 : v.length < 6 ∨ v.length % 2 ≠ 0
    · rw [if_pos h6]
      have hsp : Spec.asPathSegs v.length v = none := by
        cases hsp : Spec.asPathSegs v.length v with
        | none => rfl
        | some segs => have := Lemmas.asPathSegs_len _ _ _ hsp; omega
      exact aspath_err v _ _ hsp (Lemmas.asPathErr_len v)
    · rw [if_neg h6]
      have := Lemmas.asPathLoop_spec (v.length + 1) v {} v.length (by omega) (by omega)
      generalize decodeASPathLoop _ _ _ = r at this ⊢
      cases r with
      | error e => exact aspath_err v _ _ this.1 this.2
      | ok p =>
        simp only at this
        obtain ⟨segs, hs1, hs2, hs3⟩ := this
        have hv : valueOutcomes .withdraw 2 v = [.ok] := by
          simp only [valueOutcomes, Spec.valueFault, hs1, Option.isSome_some, if_true]
        rw [hv]
        refine conformsTo_ok _ _ _ ⟨segs, hs1, ?_, ?_⟩
        · simpa using hs2
        · simpa using hs3

theorem nexthop_exact (flags : UInt8) (v : Bytes) :
    Conforms 3 flags v (decodeNextHop flags v) (fun x => x = v) :=
  fixed4_conforms 3 flags v false true rfl rfl

theorem med_exact (flags : UInt8) (v : Bytes) :
    Conforms 4 flags v (decodeMED flags v) (fun x => x = v) :=
  fixed4_conforms 4 flags v true false rfl rfl

theorem localpref_exact (flags : UInt8) (v : Bytes) :
    Conforms 5 flags v (decodeLocalPref flags v) (fun x => x = v) :=
  fixed4_conforms 5 flags v false true rfl rfl

/-- the RFC table with the ATOMIC_AGGREGATE entry as the code has it (Optional = 1) -/
def atomicAggOutcomesAsCoded (flags : UInt8) (v : Bytes) : List Spec.AttrOutcome :=
  if flags.toNat / 128 % 2 ≠ 1 ∨ flags.toNat / 64 % 2 ≠ 1 then [.fail .withdraw 4]
  else if v.length ≠ 0 then [.fail .discard 5] else [.ok]

/-- partial: what is proved about ATOMIC_AGGREGATE on the pinned tree (missing: the Optional
bit expectation of RFC 4271 §5.1.6) -/
theorem atomicagg_exact_partial (flags : UInt8) (v : Bytes) :
    ConformsTo (atomicAggOutcomesAsCoded flags v) 6 (decodeAtomicAggregate flags v) (fun x => x = true) := by
  unfold decodeAtomicAggregate atomicAggOutcomesAsCoded
  by_cases h : flagOptional flags ≠ true ∨ flagTransitive flags ≠ true
  · rw [Lemmas.validateFlags_conflict _ _ _ _ _ h]
    have h' : flags.toNat / 128 % 2 ≠ 1 ∨ flags.toNat / 64 % 2 ≠ 1 := by
      simpa [flagOptional, flagTransitive] using h
    rw [if_pos h']
    simp only [ConformsTo]
    refine ⟨by simp, .withdraw, ⟨3, 4, Spec.attrErrData 6 v⟩, rfl, rfl, ?_⟩
    simp
  · have h' : ¬ (flags.toNat / 128 % 2 ≠ 1 ∨ flags.toNat / 64 % 2 ≠ 1) := by
      simpa [flagOptional, flagTransitive] using h
    rw [if_neg h']
    have h1 : flagOptional flags = true := by
      by_cases h1 : flagOptional flags = true
      · exact h1
      · exact absurd (Or.inl h1) h
    have h2 : flagTransitive flags = true := by
      by_cases h2 : flagTransitive flags = true
      · exact h2
      · exact absurd (Or.inr h2) h
    rw [Lemmas.validateFlags_ok _ _ _ _ _ h1 h2]
    by_cases hl : v.length = 0
    · simp only [hl, ne_eq, not_true_eq_false, if_false]
      exact conformsTo_ok _ _ _ rfl
    · simp only [hl, ne_eq, not_false_eq_true, if_true]
      exact conformsTo_lenErr _ _ _ _ _ rfl

/-- the full statement fails on the pinned tree: flags `0x40` with an empty value is a
well-formed ATOMIC_AGGREGATE and is rejected (replay: `attr.atomicagg 64 -`) -/
theorem atomicagg_not_exact :
    ¬ Conforms 6 0x40 [] (decodeAtomicAggregate 0x40 []) (fun x => x = true) := by
  intro h
  have h1 : Spec.AttrOutcome.ok ∉ Spec.attrOutcomes 6 0x40 [] := h.1
  exact h1 (by decide)

theorem aggregator_exact (flags : UInt8) (v : Bytes) :
    Conforms 7 flags v (decodeAggregator flags v) (fun x => be32Bytes x.1 ++ x.2 = v ∧ x.2.length = 4) := by
  unfold decodeAggregator
  apply conforms_flags 7 flags v true true .discard rfl
  intro _ _
  by_cases hl : v.length = 8
  · match v, hl with
    | [a, b1, c, d, i1, i2, i3, i4], _ =>
      refine conformsTo_ok _ _ _ ⟨?_, rfl⟩
      simp only [Lemmas.be32Bytes_be32]
      rfl
  · have hv : valueOutcomes .discard 7 v = [.fail .discard 5] := by
      simp only [valueOutcomes, Spec.valueFault, hl, ne_eq, not_false_eq_true, if_true, List.map]
    rw [hv]
    split
    · exact absurd rfl hl
    · exact conformsTo_lenErr _ _ _ _ _ rfl

theorem communities_exact (flags : UInt8) (v : Bytes) :
    Conforms 8 flags v (decodeCommunities flags v) (fun x => (x.map be32Bytes).flatten = v) := by
  unfold decodeCommunities
  apply conforms_flags 8 flags v true true .withdraw rfl
  intro _ _
  by_cases hl : v.length < 4 ∨ v.length % 4 ≠ 0
  · have hl' : v.length = 0 ∨ v.length % 4 ≠ 0 := by omega
    have hv : valueOutcomes .withdraw 8 v = [.fail .withdraw 5] := by
      simp only [valueOutcomes, Spec.valueFault, hl', if_true, List.map]
    rw [hv, if_pos hl]
    exact conformsTo_lenErr _ _ _ _ _ rfl
  · have hl' : ¬ (v.length = 0 ∨ v.length % 4 ≠ 0) := by omega
    have hv : valueOutcomes .withdraw 8 v = [.ok] := by
      simp only [valueOutcomes, Spec.valueFault, hl', if_false]
    rw [hv, if_neg hl]
    apply conformsTo_ok
    have hne : v ≠ [] := by intro h; subst h; simp at hl
    obtain ⟨l, h1, h2⟩ := Lemmas.u32set_go_rt v (by omega)
    rw [Lemmas.u32set_eq_go v hne, h1]
    exact h2

theorem originatorid_exact (flags : UInt8) (v : Bytes) :
    Conforms 9 flags v (decodeOriginatorID flags v) (fun x => x = v) :=
  fixed4_conforms 9 flags v true false rfl rfl

theorem clusterlist_exact (flags : UInt8) (v : Bytes) :
    Conforms 10 flags v (decodeClusterList flags v) (fun x => x.flatten = v ∧ ∀ a ∈ x, a.length = 4) := by
  unfold decodeClusterList
  apply conforms_flags 10 flags v true false .withdraw rfl
  intro _ _
  by_cases hl : v.length < 4 ∨ v.length % 4 ≠ 0
  · have hl' : v.length = 0 ∨ v.length % 4 ≠ 0 := by omega
    have hv : valueOutcomes .withdraw 10 v = [.fail .withdraw 5] := by
      simp only [valueOutcomes, Spec.valueFault, hl', if_true, List.map]
    rw [hv, if_pos hl]
    exact conformsTo_lenErr _ _ _ _ _ rfl
  · have hl' : ¬ (v.length = 0 ∨ v.length % 4 ≠ 0) := by omega
    have hv : valueOutcomes .withdraw 10 v = [.ok] := by
      simp only [valueOutcomes, Spec.valueFault, hl', if_false]
    rw [hv, if_neg hl]
    exact conformsTo_ok _ _ _ (Lemmas.chunks4_rt v (by omega))

theorem largecomm_exact (flags : UInt8) (v : Bytes) :
    Conforms 32 flags v (decodeLargeCommunities flags v)
      (fun x => (x.map fun (a, b, c) => be32Bytes a ++ be32Bytes b ++ be32Bytes c).flatten = v) := by
  unfold decodeLargeCommunities
  apply conforms_flags 32 flags v true true .withdraw rfl
  intro _ _
  by_cases hl : v.length < 12 ∨ v.length % 12 ≠ 0
  · have hl' : v.length = 0 ∨ v.length % 12 ≠ 0 := by omega
    have hv : valueOutcomes .withdraw 32 v = [.fail .withdraw 5] := by
      simp only [valueOutcomes, Spec.valueFault, hl', if_true, List.map]
    rw [hv, if_pos hl]
    exact conformsTo_lenErr _ _ _ _ _ rfl
  · have hl' : ¬ (v.length = 0 ∨ v.length % 12 ≠ 0) := by omega
    have hv : valueOutcomes .withdraw 32 v = [.ok] := by
      simp only [valueOutcomes, Spec.valueFault, hl', if_false]
    rw [hv, if_neg hl]
    exact conformsTo_ok _ _ _ (Lemmas.largeComms_rt (v.length / 12) v (by omega))

/-- flag conflicts are treat-as-withdraw with subcode 4 for every typed decoder, and carry the
attribute (type, length — two octets above 255 —, value) as data -/
theorem flag_conflict (flags code : UInt8) (v : Bytes) (o t : Bool)
    (h : flagOptional flags ≠ o ∨ flagTransitive flags ≠ t) :
    validateFlags flags code v o t = some (.taw code (some ⟨3, 4, Spec.attrErrData code v⟩)) :=
  Lemmas.validateFlags_conflict flags code v o t h

/-- the four accessors are bits 7..4 of the flags octet -/
theorem flag_accessors (f : UInt8) :
    flagOptional f = f.toNat.testBit 7 ∧ flagTransitive f = f.toNat.testBit 6 ∧
    flagPartial f = f.toNat.testBit 5 ∧ flagExtendedLen f = f.toNat.testBit 4 := by
  simp only [flagOptional, flagTransitive, flagPartial, flagExtendedLen, Lemmas.testBit_eq]
  simp

example : Spec.attrOutcomes 2 0x40 [2, 1, 0, 0, 253, 234] = [.ok] := by decide
example : Spec.attrOutcomes 1 0x40 [3] = [.fail .withdraw 6] := by decide

end CoreBGP.Props.C18
