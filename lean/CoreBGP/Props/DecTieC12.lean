import CoreBGP.Props.DecTie
/-! Decision ties of C12 (see `Props.DecTie` for the method). -/
namespace CoreBGP.Props.DecTieC12
open CoreBGP CoreBGP.Model CoreBGP.Gen CoreBGP.Lemmas.DecTie CoreBGP.Props.DecTie

/-! the generated table, evaluated (a changed decision of these functions is reported here) -/
private theorem d_he0 : decision "peer.handleError" "if" 0 = .atom "errors.As(err,&nerr)" := by decide
private theorem d_damp : decision "notificationError.dampPeer" "return" 0 =
    .cmp "!=" "n.notification.Code" "NOTIF_CODE_CEASE" := by decide
private theorem d_sd0 : decision "peer.updateStartupDelay" "if" 0 =
    .and (.cmp "!=" "p.lastProtoError" "nil") (.cmp ">=" "time.Since(*p.lastProtoError)" "errorAmnesiaTime") := by
  decide
private theorem d_sd1 : decision "peer.updateStartupDelay" "if" 1 = .cmp ">" "p.startupDelay" "0" := by decide

/-! ## C12: which errors damp, and the back-off arithmetic's conditions -/

/-- `handleError`: `if errors.As(err, &nerr) { if nerr.dampPeer() {…} }` with `dampPeer` = `Code != NOTIF_CODE_CEASE` -/
theorem damping (e : FsmErr) :
    let isNotif := match e with | .notif _ _ => true | .other => false
    let code : Int := match e with | .notif c _ => (c.toNat : Int) | .other => 0
    let ρ := envOf [("errors.As(err,&nerr)", b2i isNotif), ("n.notification.Code", code),
                    ("NOTIF_CODE_CEASE", (Gen.NOTIF_CODE_CEASE.toNat : Int))]
    (BExp.eval ρ (decision "peer.handleError" "if" 0) && BExp.eval ρ (decision "notificationError.dampPeer" "return" 0))
      = errDamps e := by
  intro isNotif code ρ
  have h1 : ρ "errors.As(err,&nerr)" = b2i isNotif := rfl
  have h2 : ρ "n.notification.Code" = code := rfl
  have h3 : ρ "NOTIF_CODE_CEASE" = (Gen.NOTIF_CODE_CEASE.toNat : Int) := rfl
  simp only [d_he0, d_damp, eval_atom, eval_ne, h1, h2, h3, b2i_ne_zero]
  cases e with
  | other => rfl
  | notif c o =>
    simp only [isNotif, code, errDamps, dampPeer, natCast_bne, Bool.true_and]
    simp [← UInt8.toNat_inj]

/-- `updateStartupDelay`: the two conditions in the control structure of the Go function -/
def goStartupDelay (delay : Nat) (gap : Option Nat) : Nat :=
  let ρ₀ := envOf [("nil", 0), ("p.lastProtoError", b2i gap.isSome), ("time.Since(*p.lastProtoError)", ((gap.getD 0 : Nat) : Int)),
                   ("errorAmnesiaTime", (Gen.errorAmnesiaTime : Int))]
  let delay := if BExp.eval ρ₀ (decision "peer.updateStartupDelay" "if" 0) then 0 else delay
  let ρ₁ := envOf [("0", 0), ("p.startupDelay", (delay : Int))]
  if BExp.eval ρ₁ (decision "peer.updateStartupDelay" "if" 1) then min (2 * delay) Gen.errorDelayMaxTime else Gen.errorDelayMinTime

theorem startup_delay (delay : Nat) (gap : Option Nat) :
    Model.updateStartupDelay delay gap = goStartupDelay delay gap := by
  have hρ₁ : ∀ d : Nat, BExp.eval (envOf [("0", 0), ("p.startupDelay", (d : Int))])
      (decision "peer.updateStartupDelay" "if" 1) = decide (d > 0) := by
    intro d
    have a1 : envOf [("0", 0), ("p.startupDelay", (d : Int))] "p.startupDelay" = d := rfl
    have a2 : envOf [("0", 0), ("p.startupDelay", (d : Int))] "0" = 0 := rfl
    simp only [d_sd1, eval_gt, a1, a2]
    simp
  have hρ₀ : BExp.eval (envOf [("nil", 0), ("p.lastProtoError", b2i gap.isSome),
        ("time.Since(*p.lastProtoError)", ((gap.getD 0 : Nat) : Int)), ("errorAmnesiaTime", (Gen.errorAmnesiaTime : Int))])
      (decision "peer.updateStartupDelay" "if" 0) = (gap.isSome && decide (Gen.errorAmnesiaTime ≤ gap.getD 0)) := by
    have a1 : envOf [("nil", 0), ("p.lastProtoError", b2i gap.isSome),
        ("time.Since(*p.lastProtoError)", ((gap.getD 0 : Nat) : Int)), ("errorAmnesiaTime", (Gen.errorAmnesiaTime : Int))]
        "nil" = 0 := rfl
    have a2 : envOf [("nil", 0), ("p.lastProtoError", b2i gap.isSome),
        ("time.Since(*p.lastProtoError)", ((gap.getD 0 : Nat) : Int)), ("errorAmnesiaTime", (Gen.errorAmnesiaTime : Int))]
        "p.lastProtoError" = b2i gap.isSome := rfl
    have a3 : envOf [("nil", 0), ("p.lastProtoError", b2i gap.isSome),
        ("time.Since(*p.lastProtoError)", ((gap.getD 0 : Nat) : Int)), ("errorAmnesiaTime", (Gen.errorAmnesiaTime : Int))]
        "time.Since(*p.lastProtoError)" = ((gap.getD 0 : Nat) : Int) := rfl
    have a4 : envOf [("nil", 0), ("p.lastProtoError", b2i gap.isSome),
        ("time.Since(*p.lastProtoError)", ((gap.getD 0 : Nat) : Int)), ("errorAmnesiaTime", (Gen.errorAmnesiaTime : Int))]
        "errorAmnesiaTime" = (Gen.errorAmnesiaTime : Int) := rfl
    simp only [d_sd0, eval_and, eval_ne, eval_ge, a1, a2, a3, a4, b2i_ne_zero]
    simp
  unfold goStartupDelay
  simp only [hρ₀, hρ₁]
  unfold updateStartupDelay
  cases gap with
  | none => simp
  | some g => simp

end CoreBGP.Props.DecTieC12
