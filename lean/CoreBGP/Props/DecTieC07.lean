import CoreBGP.Props.DecTie
/-! Decision ties of C07 (see `Props.DecTie` for the method). -/
namespace CoreBGP.Props.DecTieC07
open CoreBGP CoreBGP.Model CoreBGP.Gen CoreBGP.Lemmas.DecTie CoreBGP.Props.DecTie

/-! the generated table, evaluated (a changed decision of these functions is reported here) -/
private theorem d_h_c0 : decision "peer.handleStateTransition" "case" 0 = .cmp "==" "t.to" "establishedState" := by decide
private theorem d_h_c1 : decision "peer.handleStateTransition" "case" 1 =
    .and (.cmp "==" "i" "in") (.cmp "<" "t.to" "t.from") := by decide
private theorem d_h_c2 : decision "peer.handleStateTransition" "case" 2 = .cmp "==" "t.to" "openConfirmState" := by decide
private theorem d_h_c3 : decision "peer.handleStateTransition" "case" 3 =
    .cmp "==" "p.fsmState[other(i)]" "establishedState" := by decide
private theorem d_h_c4 : decision "peer.handleStateTransition" "case" 4 =
    .cmp "==" "p.fsmState[other(i)]" "openConfirmState" := by decide
private theorem d_h_i0 : decision "peer.handleStateTransition" "if" 0 =
    .or (.and (.atom "dominant") (.cmp "==" "i" "out")) (.and (.not (.atom "dominant")) (.cmp "==" "i" "in")) := by
  decide
private theorem d_h_dom : decision "peer.handleStateTransition" "assign:dominant" 0 =
    .or (.cmp ">" "localID" "remoteID")
      (.and (.cmp "==" "localID" "remoteID") (.cmp ">" "p.config.LocalAS" "p.config.RemoteAS")) := by decide

/-! ## C07: the `switch` of `handleStateTransition` and the dominance rule -/

def handleEnv (s : PState) (i : Dir) (t : Trans) : Env :=
  envOf (stateConsts ++ [("t.to", rankI t.to), ("t.from", rankI t.frm), ("i", dirI i),
    ("p.fsmState[other(i)]", rankI (s.st i.other)), ("dominant", b2i s.dominant)])

/-- the Go `switch` with the translated conditions in the positions the source has them, each branch
returning the model's instruction list for what the branch's statements do -/
def goHandle (ρ : Env) (i : Dir) (t : Trans) : List Instr :=
  let d := fun k n => BExp.eval ρ (decision "peer.handleStateTransition" k n)
  if d "case" 0 then [.disableLog i.other, .sendT i t]               -- disableFSM(other(i)); sendTransitionToFSM(i, t)
  else if d "case" 1 then [.disableLog i, .enable .out false]         -- disableFSM(i); enableFSM(out, nil)
  else if d "case" 2 then
    if d "case" 3 then [.disableLog i]                                -- other is Established: disableFSM(i)
    else if d "case" 4 then
      if d "if" 0 then [.collSel i t] else [.disableLog i]            -- collision: the select, or disableFSM(i)
    else [.sendT i t]
  else [.sendT i t]

/-- the Go `switch` under `handleEnv`, in closed form -/
private theorem goHandle_eq (s : PState) (i : Dir) (t : Trans) :
    goHandle (handleEnv s i t) i t =
      if t.to = .established then [.disableLog i.other, .sendT i t]
      else if i = .inn ∧ t.to.rank < t.frm.rank then [.disableLog i, .enable .out false]
      else if t.to = .openConfirm then
        if s.st i.other = .established then [.disableLog i]
        else if s.st i.other = .openConfirm then
          if (s.dominant ∧ i = .out) ∨ (¬ s.dominant ∧ i = .inn) then [.collSel i t] else [.disableLog i]
        else [.sendT i t]
      else [.sendT i t] := by
  have he_to : handleEnv s i t "t.to" = rankI t.to := rfl
  have he_from : handleEnv s i t "t.from" = rankI t.frm := rfl
  have he_i : handleEnv s i t "i" = dirI i := rfl
  have he_other : handleEnv s i t "p.fsmState[other(i)]" = rankI (s.st i.other) := rfl
  have he_dom : handleEnv s i t "dominant" = b2i s.dominant := rfl
  have he_est : handleEnv s i t "establishedState" = rankI .established := rfl
  have he_oc : handleEnv s i t "openConfirmState" = rankI .openConfirm := rfl
  have he_in : handleEnv s i t "in" = 1 := rfl
  have he_out : handleEnv s i t "out" = 0 := rfl
  simp only [goHandle, d_h_c0, d_h_c1, d_h_c2, d_h_c3, d_h_c4, d_h_i0, eval_atom, eval_not, eval_and, eval_or,
    eval_eq, eval_lt, he_to, he_from, he_i, he_other, he_dom, he_est, he_oc, he_in, he_out, rankI_beq, rankI_lt,
    b2i_ne_zero, dirI_in, dirI_out]
  simp

theorem collision_switch (s : PState) (i : Dir) (t : Trans) :
    expandHandle s i t = goHandle (handleEnv s i t) i t := by
  rw [goHandle_eq]
  unfold expandHandle
  cases s.st i.other <;> simp

/-- `dominant := localID > remoteID || (localID == remoteID) && (LocalAS > RemoteAS)` is the rule of
RFC 4271 6.8 / RFC 6286: higher BGP Identifier, then higher AS number -/
theorem dominance (localID remoteID localAS remoteAS : UInt32) :
    BExp.eval (envOf [("localID", (localID.toNat : Int)), ("remoteID", (remoteID.toNat : Int)),
        ("p.config.LocalAS", (localAS.toNat : Int)), ("p.config.RemoteAS", (remoteAS.toNat : Int))])
      (decision "peer.handleStateTransition" "assign:dominant" 0)
    = decide (localID > remoteID ∨ (localID = remoteID ∧ localAS > remoteAS)) := by
  rw [d_h_dom]
  have h1 : envOf [("localID", (localID.toNat : Int)), ("remoteID", (remoteID.toNat : Int)),
      ("p.config.LocalAS", (localAS.toNat : Int)), ("p.config.RemoteAS", (remoteAS.toNat : Int))] "localID"
      = localID.toNat := rfl
  have h2 : envOf [("localID", (localID.toNat : Int)), ("remoteID", (remoteID.toNat : Int)),
      ("p.config.LocalAS", (localAS.toNat : Int)), ("p.config.RemoteAS", (remoteAS.toNat : Int))] "remoteID"
      = remoteID.toNat := rfl
  have h3 : envOf [("localID", (localID.toNat : Int)), ("remoteID", (remoteID.toNat : Int)),
      ("p.config.LocalAS", (localAS.toNat : Int)), ("p.config.RemoteAS", (remoteAS.toNat : Int))] "p.config.LocalAS"
      = localAS.toNat := rfl
  have h4 : envOf [("localID", (localID.toNat : Int)), ("remoteID", (remoteID.toNat : Int)),
      ("p.config.LocalAS", (localAS.toNat : Int)), ("p.config.RemoteAS", (remoteAS.toNat : Int))] "p.config.RemoteAS"
      = remoteAS.toNat := rfl
  simp only [eval_or, eval_and, eval_gt, eval_eq, h1, h2, h3, h4, natCast_beq]
  simp [UInt32.lt_iff_toNat_lt, ← UInt32.toNat_inj]

end CoreBGP.Props.DecTieC07
