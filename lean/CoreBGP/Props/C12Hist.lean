import CoreBGP.Props.C12
/-!
# C12 — histories that mix protocol errors with Ceases and transport faults

`Model.errHistory` is what the real `handleError` is compared with on every run (L0 `errhist`, through the
`VerifErrorHistory` hook). Here: it is the specified recurrence over the protocol errors alone — a Cease or a transport
fault neither starts a hold-down, nor advances the ladder, nor restarts the 300 s of amnesia — for every history.
-/
namespace CoreBGP.Props.C12Hist
open CoreBGP CoreBGP.Model

/-- the specification: E.7 over the damping events; `since` = time since the last one -/
def specHist : Nat → Option Nat → List (ErrKind × Nat) → List Nat
  | _, _, [] => []
  | prev, since, (k, g) :: rest =>
    let since' := since.map (· + g)
    match k with
    | .damp => let d := Spec.nextDelay prev since'; d :: specHist d (some 0) rest
    | _ => 0 :: specHist prev since' rest

theorem hist_spec_gen (h : List (ErrKind × Nat)) (d : Nat) (since : Option Nat)
    (hd : d = 0 ∨ (60 * Spec.sec ≤ d ∧ d ≤ 300 * Spec.sec)) (hs : since = none → d = 0) :
    delaysHist d since h = specHist d since h := by
  induction h generalizing d since with
  | nil => rfl
  | cons e rest ih =>
    obtain ⟨k, g⟩ := e
    have hs' : since.map (· + g) = none → d = 0 := by
      intro hn; cases since <;> simp_all
    cases k with
    | damp =>
      have hb := C12.step_bounds d (since.map (· + g)) hd
      have he := C12.step_eq d (since.map (· + g)) hd hs'
      have ih' := ih (updateStartupDelay d (since.map (· + g))) (some 0) (Or.inr hb)
        (fun hn => by cases hn)
      simp only [delaysHist, specHist]
      rw [ih', he]
    | cease =>
      simp only [delaysHist, specHist]
      rw [ih d (since.map (· + g)) hd hs']
    | io =>
      simp only [delaysHist, specHist]
      rw [ih d (since.map (· + g)) hd hs']

/-- the model's history function is the specified one, for every history -/
theorem hist_spec (h : List (ErrKind × Nat)) : errHistory h = specHist 0 none h :=
  hist_spec_gen h 0 none (Or.inl rfl) (fun _ => rfl)

private theorem cease_like_io_gen (h : List (ErrKind × Nat)) (d : Nat) (since : Option Nat) :
    delaysHist d since (h.map fun e => (if e.1 = .cease then ErrKind.io else e.1, e.2)) =
      delaysHist d since h := by
  induction h generalizing d since with
  | nil => rfl
  | cons e rest ih =>
    obtain ⟨k, g⟩ := e
    cases k <;> simp [delaysHist, ih]

private theorem non_damping_zero_gen (h : List (ErrKind × Nat)) (i : Nat) (k : ErrKind) (g : Nat)
    (d : Nat) (since : Option Nat)
    (hi : h[i]? = some (k, g)) (hk : k ≠ .damp) : (delaysHist d since h)[i]? = some 0 := by
  induction h generalizing i d since with
  | nil => simp at hi
  | cons e rest ih =>
    obtain ⟨k', g'⟩ := e
    cases i with
    | zero =>
      simp only [List.getElem?_cons_zero, Option.some.injEq, Prod.mk.injEq] at hi
      obtain ⟨rfl, rfl⟩ := hi
      cases k' <;> simp_all [delaysHist]
    | succ j =>
      simp only [List.getElem?_cons_succ] at hi
      cases k' <;> simp only [delaysHist, List.getElem?_cons_succ] <;> exact ih j _ _ hi

/-- a Cease and a transport fault are interchangeable: neither is looked at beyond "not a protocol error" -/
theorem cease_like_io (h : List (ErrKind × Nat)) :
    errHistory (h.map fun e => (if e.1 = .cease then ErrKind.io else e.1, e.2)) = errHistory h :=
  cease_like_io_gen h 0 none

/-- no hold-down after a Cease or a transport fault: the entry of such an event is 0 -/
theorem non_damping_zero (h : List (ErrKind × Nat)) (i : Nat) (k : ErrKind) (g : Nat)
    (hi : h[i]? = some (k, g)) (hk : k ≠ .damp) : (errHistory h)[i]? = some 0 :=
  non_damping_zero_gen h i k g 0 none hi hk

end CoreBGP.Props.C12Hist
