import CoreBGP.Model.Timed
import CoreBGP.Spec.Wire
/-!
# C06 — hold-time negotiation, hold-timer expiry and keepalive cadence

About the timed session model `Model.tstep` (timers as deadlines; a timer event is enabled only
once its deadline has passed — the `time.Timer` assumption of the trusted base). "Does tear it
down once silent that long" and "about one third" are real-time statements: what is proved is
that the expiry / keepalive event *is enabled* from the deadline on and that nothing but a
genuine arrival (resp. send) moves the deadline; scheduler latency is observed by the live
engine's timing monitor, not proved (partial in that sense).
-/
namespace CoreBGP.Props.C06
open CoreBGP CoreBGP.Model

/-- negotiated hold time = min(local, remote), for all pairs -/
theorem negotiated (s : TSess) (remoteHold : Nat) (s' : TSess) (o : TOut)
    (h : tstep s (.openAccepted remoteHold) = some (s', o)) :
    s'.hold = Spec.negotiatedHold s.localHold remoteHold := by
  sorry

/-- the invariant: beyond OpenSent, with a non-zero hold time, the hold deadline is exactly
(time of the last KEEPALIVE / UPDATE / OPEN received) + hold, and the keepalive deadline is at most
(time of the last KEEPALIVE / UPDATE sent) + ⌊hold/3⌋; with hold time zero both timers are stopped -/
def Inv (s : TSess) : Prop :=
  (s.phase = .openConfirm ∨ s.phase = .established) →
    (s.hold ≠ 0 → s.holdDl = some (s.lastRecv + s.hold * secNs) ∧ s.kaDl = some (s.lastSent + kaInterval s.hold)) ∧
    (s.hold = 0 → s.holdDl = none ∧ s.kaDl = none)

theorem inv_step (s s' : TSess) (e : TEv) (o : TOut) (hi : Inv s) (h : tstep s e = some (s', o)) : Inv s' := by
  sorry

theorem inv_reachable (localHold t0 : Nat) (s : TSess) (h : TReach localHold t0 s) : Inv s := by
  sorry

/-- no early expiry: in OpenConfirm / Established with a non-zero hold time, a hold-timer expiry
step exists only once `hold` seconds have passed since the last KEEPALIVE or UPDATE (or the OPEN)
was received -/
theorem no_early_expiry (localHold t0 : Nat) (s s' : TSess) (o : TOut) (hr : TReach localHold t0 s)
    (hp : s.phase = .openConfirm ∨ s.phase = .established)
    (h : tstep s .holdFire = some (s', o)) : s.hold ≠ 0 ∧ s.now ≥ s.lastRecv + s.hold * secNs := by
  sorry

/-- the expiry step sends Hold Timer Expired and closes, in both states, and is enabled from the
deadline on -/
theorem expiry_action (localHold t0 : Nat) (s : TSess) (hr : TReach localHold t0 s)
    (hp : s.phase = .openConfirm ∨ s.phase = .established) (hh : s.hold ≠ 0)
    (ht : s.now ≥ s.lastRecv + s.hold * secNs) :
    ∃ s', tstep s .holdFire = some (s', .expired) ∧ s'.phase = .closed := by
  sorry

/-- the keepalive event is enabled from (last send + ⌊hold/3⌋) on, sends a KEEPALIVE and re-arms -/
theorem keepalive_due (localHold t0 : Nat) (s : TSess) (hr : TReach localHold t0 s)
    (hp : s.phase = .openConfirm ∨ s.phase = .established) (hh : s.hold ≠ 0)
    (ht : s.now ≥ s.lastSent + kaInterval s.hold) :
    ∃ s', tstep s .kaFire = some (s', .sentKeepalive) ∧ s'.lastSent = s.now ∧ s'.kaDl = some (s.now + kaInterval s.hold) := by
  sorry

/-- hold time zero: the session establishes on the remote's KEEPALIVE, and in no reachable state
beyond OpenSent is a hold-timer expiry or a periodic keepalive step enabled — it never expires for
silence and sends no periodic KEEPALIVEs -/
theorem zero_hold (localHold t0 : Nat) (s : TSess) (hr : TReach localHold t0 s)
    (hp : s.phase = .openConfirm ∨ s.phase = .established) (hz : s.hold = 0) :
    tstep s .holdFire = none ∧ tstep s .kaFire = none ∧
    (s.phase = .openConfirm → ∃ s', tstep s .keepalive = some (s', .none_) ∧ s'.phase = .established) := by
  sorry

/-- in OpenSent the 4-minute timer applies (`Gen.longHoldTime`) -/
theorem open_sent_timer (localHold t0 : Nat) :
    (tInit localHold t0).holdDl = some (t0 + 240 * secNs) := by
  sorry

-- non-vacuity: a reachable Established state with hold 3 whose expiry is enabled exactly at +3 s
example : (trun (tInit 3 0) [.openAccepted 9, .keepalive, .tick (3 * secNs), .holdFire]).2.getLast? = some (3 * secNs, .expired) := by decide
example : (trun (tInit 3 0) [.openAccepted 9, .keepalive, .tick (3 * secNs - 1), .holdFire]).2.length = 3 := by decide
example : (trun (tInit 3 0) [.openAccepted 0, .keepalive, .tick (1000 * secNs), .holdFire, .kaFire]).2.length = 3 := by decide

end CoreBGP.Props.C06
