import CoreBGP.Model.Timed
import CoreBGP.Spec.Wire
import CoreBGP.Lemmas.Session
/-!
# C06 — hold-time negotiation, hold-timer expiry and keepalive cadence

About the timed session model `Model.tstep` (timers as deadlines; a timer event is enabled only
once its deadline has passed — the `time.Timer` assumption of the trusted base). "Does tear it
down once silent that long" and "about one third" are real-time statements: what is proved is
that the expiry / keepalive event *is enabled* from the deadline on and that nothing but a
genuine arrival (resp. send) moves the deadline; scheduler latency is observed by the live
engine's timing monitor, not proved (partial in that sense).
-/
namespace CoreBGP.Props.C06
open CoreBGP CoreBGP.Model

/-- negotiated hold time = min(local, remote), for all pairs -/
theorem negotiated (s : TSess) (remoteHold : Nat) (s' : TSess) (o : TOut)
    (h : tstep s (.openAccepted remoteHold) = some (s', o)) :
    s'.hold = Spec.negotiatedHold s.localHold remoteHold := by
  rw [Lemmas.tstep_openAccepted] at h
  split at h
  · cases h
  · split at h
    · cases h; rfl
    · cases h
      rename_i hz
      simp only [Spec.negotiatedHold]
      omega

/-- the invariant: beyond OpenSent, with a non-zero hold time, the hold deadline is exactly
(time of the last KEEPALIVE / UPDATE / OPEN received) + hold, and the keepalive deadline is at most
(time of the last KEEPALIVE / UPDATE sent) + ⌊hold/3⌋; with hold time zero both timers are stopped -/
def Inv (s : TSess) : Prop :=
  (s.phase = .openConfirm ∨ s.phase = .established) →
    (s.hold ≠ 0 → s.holdDl = some (s.lastRecv + s.hold * secNs) ∧ s.kaDl = some (s.lastSent + kaInterval s.hold)) ∧
    (s.hold = 0 → s.holdDl = none ∧ s.kaDl = none)

theorem inv_step (s s' : TSess) (e : TEv) (o : TOut) (hi : Inv s) (h : tstep s e = some (s', o)) : Inv s' := by
  cases e with
  | tick dt =>
    simp only [tstep] at h
    cases h
    exact hi
  | openAccepted rh =>
    rw [Lemmas.tstep_openAccepted] at h
    split at h
    · cases h
    · split at h
      · cases h
        intro _
        simp_all
      · cases h
        intro _
        simp_all
  | keepalive =>
    obtain ⟨ph, now, lh, hold, hdl, kdl, lr, ls⟩ := s
    simp only [tstep] at h
    split at h
    · cases h
      simp_all [Inv]
    · cases h
      simp_all [Inv]
    · cases h
  | update =>
    obtain ⟨ph, now, lh, hold, hdl, kdl, lr, ls⟩ := s
    simp only [tstep] at h
    split at h
    · cases h
    · cases h
      simp_all [Inv]
  | holdFire =>
    simp only [tstep] at h
    split at h
    · cases h
    · cases h
      simp [Inv]
  | kaFire =>
    obtain ⟨ph, now, lh, hold, hdl, kdl, lr, ls⟩ := s
    simp only [tstep] at h
    split at h
    · cases h
    · cases h
      rename_i hc
      simp [Inv, fired] at hc ⊢
      simp [Inv] at hi
      intro hp
      have := hi hp
      cases kdl with
      | none => simp at hc
      | some d =>
        by_cases hz : hold = 0
        · simp_all
        · simp_all
  | writeUpdate =>
    obtain ⟨ph, now, lh, hold, hdl, kdl, lr, ls⟩ := s
    simp only [tstep] at h
    split at h
    · cases h
    · cases h
      simp_all [Inv]

theorem inv_reachable (localHold t0 : Nat) (s : TSess) (h : TReach localHold t0 s) : Inv s := by
  induction h with
  | init => intro hp; simp [tInit] at hp
  | step _ hs ih => exact inv_step _ _ _ _ ih hs

/-- no early expiry: in OpenConfirm / Established with a non-zero hold time, a hold-timer expiry
step exists only once `hold` seconds have passed since the last KEEPALIVE or UPDATE (or the OPEN)
was received -/
theorem no_early_expiry (localHold t0 : Nat) (s s' : TSess) (o : TOut) (hr : TReach localHold t0 s)
    (hp : s.phase = .openConfirm ∨ s.phase = .established)
    (h : tstep s .holdFire = some (s', o)) : s.hold ≠ 0 ∧ s.now ≥ s.lastRecv + s.hold * secNs := by
  have hi := inv_reachable _ _ _ hr hp
  simp only [tstep] at h
  split at h
  · cases h
  · rename_i hc
    by_cases hz : s.hold = 0
    · have := (hi.2 hz).1
      simp [this, fired] at hc
    · have := (hi.1 hz).1
      simp [this, fired] at hc
      exact ⟨hz, hc.2⟩

/-- the expiry step sends Hold Timer Expired and closes, in both states, and is enabled from the
deadline on -/
theorem expiry_action (localHold t0 : Nat) (s : TSess) (hr : TReach localHold t0 s)
    (hp : s.phase = .openConfirm ∨ s.phase = .established) (hh : s.hold ≠ 0)
    (ht : s.now ≥ s.lastRecv + s.hold * secNs) :
    ∃ s', tstep s .holdFire = some (s', .expired) ∧ s'.phase = .closed := by
  have hi := inv_reachable _ _ _ hr hp
  have hd := (hi.1 hh).1
  have hc : ¬ (s.phase = .closed) := by rcases hp with hp | hp <;> simp [hp]
  have hf : (s.phase = .closed || !fired s.holdDl s.now) = false := by
    simp [hd, fired, hc]
    exact ht
  refine ⟨{ s with phase := .closed, holdDl := none, kaDl := none }, ?_, rfl⟩
  simp only [tstep, hf]
  rfl

/-- the keepalive event is enabled from (last send + ⌊hold/3⌋) on, sends a KEEPALIVE and re-arms -/
theorem keepalive_due (localHold t0 : Nat) (s : TSess) (hr : TReach localHold t0 s)
    (hp : s.phase = .openConfirm ∨ s.phase = .established) (hh : s.hold ≠ 0)
    (ht : s.now ≥ s.lastSent + kaInterval s.hold) :
    ∃ s', tstep s .kaFire = some (s', .sentKeepalive) ∧ s'.lastSent = s.now ∧ s'.kaDl = some (s.now + kaInterval s.hold) := by
  have hi := inv_reachable _ _ _ hr hp
  have hd := (hi.1 hh).2
  have hf : (!(s.phase = .openConfirm || s.phase = .established) || !fired s.kaDl s.now) = false := by
    simp [hd, fired]
    exact ⟨fun hn => hp.resolve_left hn, ht⟩
  refine ⟨{ s with kaDl := some (s.now + kaInterval s.hold), lastSent := s.now }, ?_, rfl, rfl⟩
  simp only [tstep, hf]
  rfl

/-- hold time zero: the session establishes on the remote's KEEPALIVE, and in no reachable state
beyond OpenSent is a hold-timer expiry or a periodic keepalive step enabled — it never expires for
silence and sends no periodic KEEPALIVEs -/
theorem zero_hold (localHold t0 : Nat) (s : TSess) (hr : TReach localHold t0 s)
    (hp : s.phase = .openConfirm ∨ s.phase = .established) (hz : s.hold = 0) :
    tstep s .holdFire = none ∧ tstep s .kaFire = none ∧
    (s.phase = .openConfirm → ∃ s', tstep s .keepalive = some (s', .none_) ∧ s'.phase = .established) := by
  have hi := inv_reachable _ _ _ hr hp
  obtain ⟨h1, h2⟩ := hi.2 hz
  refine ⟨?_, ?_, ?_⟩
  · simp [tstep, h1, fired]
  · simp [tstep, h2, fired]
  · intro hc
    simp [tstep, hc]

/-- in OpenSent the 4-minute timer applies (`Gen.longHoldTime`) -/
theorem open_sent_timer (localHold t0 : Nat) :
    (tInit localHold t0).holdDl = some (t0 + 240 * secNs) := by
  simp [tInit, Gen.longHoldTime, secNs]

-- non-vacuity: a reachable Established state with hold 3 whose expiry is enabled exactly at +3 s
example : (trun (tInit 3 0) [.openAccepted 9, .keepalive, .tick (3 * secNs), .holdFire]).2.getLast? = some (3 * secNs, .expired) := by decide
example : (trun (tInit 3 0) [.openAccepted 9, .keepalive, .tick (3 * secNs - 1), .holdFire]).2.length = 3 := by decide
example : (trun (tInit 3 0) [.openAccepted 0, .keepalive, .tick (1000 * secNs), .holdFire, .kaFire]).2.length = 3 := by decide

end CoreBGP.Props.C06
