import CoreBGP.Model.Reader
import CoreBGP.Spec.Wire
import CoreBGP.Lemmas.Reader
/-!
# C08 — receive-side header validation and stream framing

The reader model `readAll` is a function of the byte stream alone (segmentation-free by
construction; that the Go reader is too is a correspondence obligation exercised with random
segmentations). The FSM half — a reader error carrying a NOTIFICATION leads to `[send it, close]`
in each state — is in the L1 session model.
-/
namespace CoreBGP.Props.C08
open CoreBGP CoreBGP.Model

/-- the body of message type `t` decodes (OPEN and NOTIFICATION have a body syntax; UPDATE and
KEEPALIVE bodies are opaque to the reader) -/
def decodes (t : UInt8) (body : Bytes) : Prop :=
  (t = 1 → ∃ o, decodeOpen body = .ok o) ∧ (t = 3 → 2 ≤ body.length)

/-- header classification, marker first: a header whose marker is not sixteen 0xFF octets yields
(1,1) whatever follows -/
theorem classify_marker (h rest : Bytes) (hl : h.length = 19) (hm : h.take 16 ≠ Spec.marker) :
    ∃ d, readOne (h ++ rest) = .error (.notif ⟨1, 1, d⟩ true) := by
  refine ⟨[], ?_⟩
  rw [Lemmas.readOne_header h rest hl, if_pos hm]

/-- … otherwise a length below 19 or above 4096 yields (1,2) -/
theorem classify_length (h rest : Bytes) (hl : h.length = 19) (hm : h.take 16 = Spec.marker)
    (hlen : Spec.n16 (h.getD 16 0) (h.getD 17 0) < 19 ∨ Spec.n16 (h.getD 16 0) (h.getD 17 0) > 4096) :
    ∃ d, readOne (h ++ rest) = .error (.notif ⟨1, 2, d⟩ true) := by
  refine ⟨[], ?_⟩
  rw [Lemmas.readOne_header h rest hl, if_neg (show ¬ (h.take 16 ≠ Spec.marker) from fun hne => hne hm), if_pos hlen]

/-- … otherwise, once the whole message has arrived, an unknown type yields (1,3) carrying the
offending type octet as data -/
theorem classify_type (t : UInt8) (body rest : Bytes) (hb : body.length ≤ 4077) (ht : Spec.knownType t = false) :
    readOne (Spec.frame t body ++ rest) = .error (.notif ⟨1, 3, [t]⟩ true) := by
  rw [Lemmas.readOne_frame t body rest hb, Lemmas.messageFromBytes_unknown t body ht]

/-- … otherwise the message is delimited by the length field alone: exactly `body` is handed to
`messageFromBytes` and exactly `rest` remains -/
theorem delimit (t : UInt8) (body rest : Bytes) (hb : body.length ≤ 4077) (ht : Spec.knownType t = true) :
    readOne (Spec.frame t body ++ rest) =
      (match messageFromBytes body t with
       | .ok m => .ok (m, rest)
       | .error e => .error e) := by
  -- holds for every type octet; `ht` only selects the case the property talks about
  have _ := ht
  exact Lemmas.readOne_frame t body rest hb

/-- every well-formed message that precedes a faulty one is processed: for a stream made of whole
well-formed messages followed by anything, the reader yields exactly those messages, in order,
and then behaves as on the remainder alone (in particular nothing after a fault is
interpreted, and the result does not depend on how the stream is cut into reads) -/
theorem prefix_processed (ms : List (UInt8 × Bytes)) (tail : Bytes)
    (hms : ∀ m ∈ ms, Spec.knownType m.1 = true ∧ m.2.length ≤ 4077 ∧ decodes m.1 m.2) :
    ∃ rs : List RMsg, rs.length = ms.length ∧
      (∀ i (hi : i < ms.length), ∀ r, rs[i]? = some r → r.type = (ms[i]'hi).1 ∧
         (∀ b, r = .update b → b = (ms[i]'hi).2)) ∧
      readAll ((ms.map fun m => Spec.frame m.1 m.2).flatten ++ tail) = (rs ++ (readAll tail).1, (readAll tail).2) :=
  Lemmas.prefix_processed_aux ms tail fun m hm =>
    ⟨(hms m hm).1, (hms m hm).2.1, (hms m hm).2.2.1, (hms m hm).2.2.2⟩

/-- a stream that ends inside a header or body ends the reader with a plain I/O error, never a
NOTIFICATION -/
theorem truncated_no_notification (s : Bytes) (h : s.length < 19) : readAll s = ([], .eof) :=
  Lemmas.truncated_no_notification s h

/-- the reader never panics, on streams of every length -/
theorem reader_no_panic (s : Bytes) : (readAll s).2 ≠ .panic :=
  Lemmas.reader_no_panic s

/-- a NOTIFICATION corebgp sends reaches the wire with exactly the code, subcode and data bytes
it was constructed with (data of every length that fits, including exactly one byte) -/
theorem notif_wire (n : Notif) (h : n.data.length ≤ 4075) :
    encodeNotif n = Spec.frame 3 ([n.code, n.sub] ++ n.data) :=
  Lemmas.notif_wire n h

end CoreBGP.Props.C08
