import CoreBGP.Model.Session
import CoreBGP.Spec.Wire
import CoreBGP.Lemmas.Reader
import CoreBGP.Lemmas.Session
/-!
# C04 — the outbound byte stream is whole well-formed messages; the WriteUpdate contract

Atomicity of one `net.Conn.Write` with respect to other writes on the same connection is Go's
(`netFD` write lock; trusted base): the model's unit of output is one `Act.send` = one `Write` of
one whole message. What is proved: every write corebgp issues is one whole well-formed message;
any concatenation of such writes parses back uniquely into exactly those messages; a
`WriteUpdate b` contributes exactly one UPDATE with body `b`, in call order; once the session has
ended nothing is written. (That a `WriteUpdate` from inside a callback cannot deadlock is an L2
statement about the keepalive-manager goroutine: `CoreBGP.Props.C04L2`.)
-/
namespace CoreBGP.Props.C04
open CoreBGP CoreBGP.Model

/-- a whole well-formed message: marker, true length within 19..4096, known type -/
def WellFormedMsg (b : Bytes) : Prop :=
  ∃ t body, b = Spec.frame t body ∧ Spec.knownType t = true ∧ body.length ≤ 4077

/-- any concatenation of well-formed messages parses back, uniquely, into exactly those messages
(so a reader that delimits by the length field alone sees exactly what was written) -/
theorem frames (ms : List (UInt8 × Bytes)) (h : ∀ m ∈ ms, Spec.knownType m.1 = true ∧ m.2.length ≤ 4077) :
    Spec.parseStream (ms.map fun m => Spec.frame m.1 m.2).flatten = (ms, .clean) := by
  unfold Spec.parseStream
  exact Lemmas.frames_concat ms _ h (Nat.lt_succ_of_le (Lemmas.frames_flatten_length ms))

/-- the messages corebgp builds are well formed: KEEPALIVE, UPDATE (body ≤ 4077), NOTIFICATION
(data ≤ 4075), OPEN (whenever `encodeOpen` succeeds) -/
theorem keepalive_wf : WellFormedMsg kaBytes := by
  refine ⟨4, [], ?_, rfl, by simp⟩
  exact Lemmas.prependHeader_eq_frame [] _ (by simp)

theorem update_wf (b : Bytes) (h : b.length ≤ 4077) : WellFormedMsg (updateBytes b) := by
  refine ⟨2, b, ?_, rfl, h⟩
  exact Lemmas.prependHeader_eq_frame b _ h

theorem notif_wf (n : Notif) (h : n.data.length ≤ 4075) : WellFormedMsg (encodeNotif n) := by
  refine ⟨3, [n.code, n.sub] ++ n.data, Lemmas.notif_wire n h, rfl, ?_⟩
  simp only [List.length_append, List.length_cons, List.length_nil]
  omega

theorem open_wf (o : OpenMsg) (b : Bytes) (h : encodeOpen o = some b) : WellFormedMsg b := by
  unfold encodeOpen at h
  cases hb : encodeOpenBody o with
  | none => simp [hb] at h
  | some body =>
    have hl := Lemmas.encodeOpenBody_length o body hb
    simp only [hb, Option.map_some, Option.some.injEq] at h
    subst h
    exact ⟨1, body, Lemmas.prependHeader_eq_frame body _ (by omega), rfl, by omega⟩

/-- size bound on what the FSM sends of its own accord: the NOTIFICATIONs `validate` builds -/
theorem validate_notif_small (o : OpenMsg) (lid las ras : UInt32) (n : Notif)
    (h : validateOpen o lid las ras = some n) : n.data.length ≤ 6 := by
  exact Lemmas.validateOpen_data_small o lid las ras n h

def sends : List Act → List Bytes
  | [] => []
  | .send b :: rest => b :: sends rest
  | _ :: rest => sends rest

theorem mem_sends {b : Bytes} {acts : List Act} : b ∈ sends acts ↔ Act.send b ∈ acts := by
  induction acts with
  | nil => simp [sends]
  | cons a rest ih => cases a <;> simp [sends, ih]

/-- every write the session makes is one whole well-formed message — given that NOTIFICATIONs
handed in from outside the FSM (plugin return values, reader errors) carry at most 4075 data
bytes, and WriteUpdate bodies at most 4077 bytes (the property's quantifier) -/
theorem session_writes_wf (cfg : SessCfg) (ph : Phase) (inp : Input) (ret : Option Notif)
    (hret : ∀ n, ret = some n → n.data.length ≤ 4075)
    (hin : ∀ n out, inp = .readerErr (.notif n out) → n.data.length ≤ 4075)
    (hwu : ∀ b, inp = .writeUpdate b → b.length ≤ 4077) :
    ∀ b ∈ sends (react cfg ph inp ret).2, WellFormedMsg b := by
  intro b hb
  have hmem : Act.send b ∈ (react cfg ph inp ret).2 := mem_sends.1 hb
  rcases Lemmas.react_sends cfg ph inp ret b hmem with rfl | ⟨body, rfl, rfl⟩ | ⟨n, rfl, hn⟩
  · exact keepalive_wf
  · exact update_wf body (hwu body rfl)
  · apply notif_wf
    rcases hn with hn | hn | ⟨out, hn⟩
    · omega
    · exact hret n hn
    · exact hin n out hn

/-- each `WriteUpdate b` in Established contributes exactly one UPDATE whose body is `b`, and
nothing else -/
theorem write_update_once (cfg : SessCfg) (b : Bytes) (ret : Option Notif) :
    react cfg .established (.writeUpdate b) ret = (.established, [.send (updateBytes b)]) := by
  rfl

/-- once the session has ended, a write produces nothing (the Go writer returns an error) -/
theorem write_after_close (cfg : SessCfg) (b : Bytes) (ret : Option Notif) :
    react cfg .closed (.writeUpdate b) ret = (.closed, []) := by
  rfl

/-- call order = wire order: over any interleaving of inputs, the UPDATE bodies written (while
the session stays up) appear on the wire in the order of the `WriteUpdate` calls, each once -/
theorem write_order (cfg : SessCfg) (inputs : List (Input × Option Notif))
    (hup : ∀ i ∈ inputs, (∃ b, i.1 = .writeUpdate b) ∨ i.1 = .msg .keepalive ∨ i.1 = .kaTimer) :
    (sends (runSession cfg .established inputs)).filter (· ≠ kaBytes)
      = (inputs.filterMap fun i => match i.1 with | .writeUpdate b => some (updateBytes b) | _ => none) := by
  induction inputs with
  | nil => rfl
  | cons i rest ih =>
    obtain ⟨inp, r⟩ := i
    have ih' := ih (fun x hx => hup x (List.mem_cons_of_mem _ hx))
    rcases hup (inp, r) (List.mem_cons_self ..) with ⟨b, hb⟩ | hb | hb
    · simp only at hb
      subst hb
      simpa [runSession, react, sends, Lemmas.updateBytes_ne_kaBytes] using ih'
    · simp only at hb
      subst hb
      simpa [runSession, react, sends] using ih'
    · simp only at hb
      subst hb
      simpa [runSession, react, sends] using ih'

end CoreBGP.Props.C04
