import CoreBGP.Model.Server
import CoreBGP.Spec.Server
/-!
# C12 — protocol errors damp the peer; Cease and transport faults do not (function half)

The back-off as a function of the whole error history, by induction over the history, with the
three constants taken from the regenerated `Gen` (so a changed constant re-opens these theorems);
and the classification of errors. The hold-down invariants of the peer manager (flag ⇔ timer
armed ⇒ both FSM slots empty; no dial, inbound refused while it holds) are L2 statements
(`CoreBGP.Props.C12L2`).
-/
namespace CoreBGP.Props.C12
open CoreBGP CoreBGP.Model

/-- the constants are the property's: 60 s minimum, 300 s maximum, 300 s amnesia -/
theorem constants :
    Gen.errorDelayMinTime = 60 * Spec.sec ∧ Gen.errorDelayMaxTime = 300 * Spec.sec ∧
    Gen.errorAmnesiaTime = 300 * Spec.sec ∧ Gen.NOTIF_CODE_CEASE = 6 := by
  decide

/-- one step of the code's arithmetic is the specified recurrence, whenever the previous delay is
one the code can have produced (0 before the first error, else within [60 s, 300 s]) -/
theorem step_eq (prev : Nat) (gap : Option Nat)
    (hprev : prev = 0 ∨ (60 * Spec.sec ≤ prev ∧ prev ≤ 300 * Spec.sec)) (hfirst : gap = none → prev = 0) :
    updateStartupDelay prev gap = Spec.nextDelay prev gap := by
  sorry

/-- the delay after every error of every history is within [60 s, 300 s] -/
theorem delay_bounds (gaps : List Nat) : ∀ d ∈ backoff gaps, 60 * Spec.sec ≤ d ∧ d ≤ 300 * Spec.sec := by
  sorry

/-- first error ⇒ 60 s -/
theorem first_is_min (g : Nat) (gs : List Nat) : (backoff (g :: gs)).head? = some (60 * Spec.sec) := by
  sorry

/-- the whole delay sequence is the specified recurrence (60 s at first; after a gap < 300 s
min(2·d, 300 s); after a gap ≥ 300 s back to 60 s), for every history -/
theorem backoff_spec (gaps : List Nat) :
    backoff gaps =
      (let rec go (prev : Nat) (first : Bool) : List Nat → List Nat
        | [] => []
        | g :: rest =>
          let d := Spec.nextDelay prev (if first then none else some g)
          d :: go d false rest
       go 0 true gaps) := by
  sorry

/-- an error changes the damping state iff it carries a sent or received NOTIFICATION whose code
is not Cease; Cease, I/O errors and a local stop never start or extend a hold-down -/
theorem classes (e : FsmErr) :
    errDamps e = Spec.damps (match e with | .notif c _ => some c.toNat | .other => none) := by
  sorry

example : backoff [0, 10 * Spec.sec, 10 * Spec.sec, 10 * Spec.sec, 400 * Spec.sec]
    = [60 * Spec.sec, 120 * Spec.sec, 240 * Spec.sec, 300 * Spec.sec, 60 * Spec.sec] := by decide

end CoreBGP.Props.C12
