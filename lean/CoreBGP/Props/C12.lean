import CoreBGP.Model.Server
import CoreBGP.Spec.Server
import CoreBGP.Lemmas.Server
/-!
# C12 — protocol errors damp the peer; Cease and transport faults do not (function half)

The back-off as a function of the whole error history, by induction over the history, with the
three constants taken from the regenerated `Gen` (so a changed constant re-opens these theorems);
and the classification of errors. The hold-down invariants of the peer manager (flag ⇔ timer
armed ⇒ both FSM slots empty; no dial, inbound refused while it holds) are L2 statements
(`CoreBGP.Props.C12L2`).
-/
namespace CoreBGP.Props.C12
open CoreBGP CoreBGP.Model
open CoreBGP.Lemmas.Server

/-- the constants are the property's: 60 s minimum, 300 s maximum, 300 s amnesia -/
theorem constants :
    Gen.errorDelayMinTime = 60 * Spec.sec ∧ Gen.errorDelayMaxTime = 300 * Spec.sec ∧
    Gen.errorAmnesiaTime = 300 * Spec.sec ∧ Gen.NOTIF_CODE_CEASE = 6 := by
  decide

-- (`hprev` is part of the statement but the equality holds without it: both sides double and cap
-- whatever `prev` is; the hypothesis matters for `delay_bounds`)
set_option linter.unusedVariables false in
/-- one step of the code's arithmetic is the specified recurrence, whenever the previous delay is
one the code can have produced (0 before the first error, else within [60 s, 300 s]) -/
theorem step_eq (prev : Nat) (gap : Option Nat)
    (hprev : prev = 0 ∨ (60 * Spec.sec ≤ prev ∧ prev ≤ 300 * Spec.sec)) (hfirst : gap = none → prev = 0) :
    updateStartupDelay prev gap = Spec.nextDelay prev gap := by
  cases gap with
  | none =>
    rw [hfirst rfl, usd_zero, nextDelay_none]
  | some g =>
    by_cases hg : 300000000000 ≤ g
    · rw [usd_amnesia prev g hg, nextDelay_reset prev g (Or.inl hg)]
    · by_cases hp : prev = 0
      · rw [hp, usd_zero, nextDelay_reset 0 g (Or.inr rfl)]
      · rw [usd_double prev (some g) (by omega) (fun g' h => by cases h; omega),
          nextDelay_double prev g (by omega) hp]

/-- the delays the code can hold: 0 before the first error, else within [60 s, 300 s] -/
def Good (d : Nat) : Prop := d = 0 ∨ (60 * Spec.sec ≤ d ∧ d ≤ 300 * Spec.sec)

/-- from such a delay, `updateStartupDelay` returns a value within [60 s, 300 s] -/
theorem step_bounds (prev : Nat) (gap : Option Nat) (hprev : Good prev) :
    60 * Spec.sec ≤ updateStartupDelay prev gap ∧ updateStartupDelay prev gap ≤ 300 * Spec.sec := by
  rw [Good, sec60, sec300] at hprev
  rw [sec60, sec300]
  by_cases hp : prev = 0
  · rw [hp, usd_zero]; omega
  · by_cases hg : ∃ g, gap = some g ∧ 300000000000 ≤ g
    · obtain ⟨g, rfl, hg⟩ := hg
      rw [usd_amnesia prev g hg]; omega
    · rw [usd_double prev gap (by omega) (fun g h => Nat.lt_of_not_le (fun hge => hg ⟨g, h, hge⟩))]
      omega

theorem delaysAfter_bounds (gaps : List Nat) : ∀ (d0 : Nat) (first : Bool), Good d0 →
    ∀ d ∈ delaysAfter d0 first gaps, 60 * Spec.sec ≤ d ∧ d ≤ 300 * Spec.sec := by
  induction gaps with
  | nil => intro d0 first _ d hd; simp [delaysAfter] at hd
  | cons g gs ih =>
    intro d0 first h0 d hd
    have hb := step_bounds d0 (if first then none else some g) h0
    simp only [delaysAfter, List.mem_cons] at hd
    rcases hd with rfl | hd
    · exact hb
    · exact ih _ false (Or.inr hb) d hd

/-- the delay after every error of every history is within [60 s, 300 s] -/
theorem delay_bounds (gaps : List Nat) : ∀ d ∈ backoff gaps, 60 * Spec.sec ≤ d ∧ d ≤ 300 * Spec.sec :=
  delaysAfter_bounds gaps 0 true (Or.inl rfl)

/-- first error ⇒ 60 s -/
theorem first_is_min (g : Nat) (gs : List Nat) : (backoff (g :: gs)).head? = some (60 * Spec.sec) := by
  simp [backoff, delaysAfter, updateStartupDelay, Gen.errorDelayMinTime, Spec.sec]

/-- the specified delay sequence (the `let rec go` of `backoff_spec`, as a top-level definition) -/
def specDelays (prev : Nat) (first : Bool) : List Nat → List Nat
  | [] => []
  | g :: rest =>
    let d := Spec.nextDelay prev (if first then none else some g)
    d :: specDelays d false rest

theorem delaysAfter_spec (gaps : List Nat) : ∀ (d0 : Nat) (first : Bool), Good d0 →
    (first = true → d0 = 0) → delaysAfter d0 first gaps = specDelays d0 first gaps := by
  induction gaps with
  | nil => intro d0 first _ _; rfl
  | cons g gs ih =>
    intro d0 first h0 hf
    have hstep : updateStartupDelay d0 (if first then none else some g) =
        Spec.nextDelay d0 (if first then none else some g) := by
      apply step_eq d0 _ h0
      cases first with
      | true => intro _; exact hf rfl
      | false => intro h; simp at h
    have hb := step_bounds d0 (if first then none else some g) h0
    simp only [delaysAfter, specDelays]
    rw [← hstep]
    congr 1
    exact ih _ false (Or.inr hb) (fun h => Bool.noConfusion h)

/- original form of the statement (the local `let rec go` is `specDelays` above, restated as a
top-level definition with the same equations so that the proof can refer to it):

theorem backoff_spec (gaps : List Nat) :
    backoff gaps =
      (let rec go (prev : Nat) (first : Bool) : List Nat → List Nat
        | [] => []
        | g :: rest =>
          let d := Spec.nextDelay prev (if first then none else some g)
          d :: go d false rest
       go 0 true gaps)
-/

/-- the whole delay sequence is the specified recurrence (60 s at first; after a gap < 300 s
min(2·d, 300 s); after a gap ≥ 300 s back to 60 s), for every history -/
theorem backoff_spec (gaps : List Nat) : backoff gaps = specDelays 0 true gaps :=
  delaysAfter_spec gaps 0 true (Or.inl rfl) (fun _ => rfl)

/-- an error changes the damping state iff it carries a sent or received NOTIFICATION whose code
is not Cease; Cease, I/O errors and a local stop never start or extend a hold-down -/
theorem classes (e : FsmErr) :
    errDamps e = Spec.damps (match e with | .notif c _ => some c.toNat | .other => none) := by
  cases e with
  | other => rfl
  | notif c out =>
    simp only [errDamps, dampPeer, Spec.damps, Gen.NOTIF_CODE_CEASE]
    by_cases h : c = 6
    · subst h; decide
    · have h' : c.toNat ≠ 6 := fun hn => h (UInt8.toNat_inj.1 (by simpa using hn))
      simp [h, h']

example : backoff [0, 10 * Spec.sec, 10 * Spec.sec, 10 * Spec.sec, 400 * Spec.sec]
    = [60 * Spec.sec, 120 * Spec.sec, 240 * Spec.sec, 300 * Spec.sec, 60 * Spec.sec] := by decide

example : specDelays 0 true [0, 10 * Spec.sec, 10 * Spec.sec, 10 * Spec.sec, 400 * Spec.sec]
    = [60 * Spec.sec, 120 * Spec.sec, 240 * Spec.sec, 300 * Spec.sec, 60 * Spec.sec] := by decide

end CoreBGP.Props.C12
