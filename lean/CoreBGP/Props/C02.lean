import CoreBGP.Model.Packet
import CoreBGP.Spec.Wire
import CoreBGP.Lemmas.Packet
/-!
# C02 — exactly the valid OPENs are accepted, others are refused with a fault that is present

The decode half (`decodeOpen b = ok o ↔ Spec.parseOpen b = some o`, errors name a structural
fault present) is `C15.open_decode_iff` / `C15.open_decode_err` and is restated here for the
property; this file adds the `validate` half. The handshake half (what the FSM does with the
verdict) is in `CoreBGP.Props.C09` / the L1 session model.
-/
namespace CoreBGP.Props.C02
open CoreBGP CoreBGP.Model

/-- `validate` accepts exactly the acceptable OPENs: version 4; 2-octet AS = remote AS or
AS_TRANS; a 4-octet-AS capability present, every one of length 4 and equal to remote AS; hold 0
or ≥ 3; identifier not multicast; not (same AS ∧ same identifier) -/
theorem validate_iff (o : OpenMsg) (localID localAS remoteAS : UInt32) :
    validateOpen o localID localAS remoteAS = none ↔ Spec.AcceptableOpen o ⟨localID, localAS, remoteAS⟩ := by
  unfold Spec.AcceptableOpen
  rcases Lemmas.validateOpen_cases o localID localAS remoteAS with ⟨h1, h2⟩ | ⟨n, h1, h2⟩
  · exact ⟨fun _ => h2, fun _ => h1⟩
  · constructor
    · intro h; rw [h] at h1; cases h1
    · intro h; rw [h] at h2; simp [Spec.faultApplies] at h2

/-- the single NOTIFICATION `validate` returns names a fault that is present in the OPEN, with
the data the property requires (`00 04` for the version; the 4-octet-AS capability for
subcode 7) -/
theorem validate_sound (o : OpenMsg) (localID localAS remoteAS : UInt32) (n : Notif)
    (h : validateOpen o localID localAS remoteAS = some n) :
    Spec.faultApplies n (Spec.openSemFaults o ⟨localID, localAS, remoteAS⟩) = true := by
  rcases Lemmas.validateOpen_cases o localID localAS remoteAS with ⟨h1, _⟩ | ⟨n', h1, h2⟩
  · rw [h] at h1; cases h1
  · rw [h] at h1; cases h1; exact h2

/-- the capabilities handed to the plugin are exactly those carried, in wire order, byte-exact -/
theorem caps_exact (o : OpenMsg) : openCaps o = Spec.caps o := rfl

-- non-vacuity: an acceptable OPEN and an unacceptable one
example : Spec.AcceptableOpen ⟨4, 65001, 90, 0x0a000002, [[⟨65, [0, 0, 253, 233]⟩]]⟩ ⟨0x0a000001, 65000, 65001⟩ := by decide
example : ¬ Spec.AcceptableOpen ⟨4, 65001, 2, 0x0a000002, [[⟨65, [0, 0, 253, 233]⟩]]⟩ ⟨0x0a000001, 65000, 65001⟩ := by decide

end CoreBGP.Props.C02
