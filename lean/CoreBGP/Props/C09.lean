import CoreBGP.Model.Session
import CoreBGP.Spec.Session
/-!
# C09 — state-dependent message handling follows RFC 4271 §8.2.2 / RFC 6608

About `Model.react`, the transcription of the three `select` loops of `fsm.go`. Which L2 location
each phase runs in, and that an Established session's `OnClose` is delivered exactly once over a
whole peer history, is C01's history theorem; here: exactly once per session ending.
-/
namespace CoreBGP.Props.C09
open CoreBGP CoreBGP.Model

def phaseOf : Spec.SState → Phase
  | .openSent => .openSent | .openConfirm => .openConfirm | .established => .established

def isSend : Act → Bool | .send _ => true | _ => false
def isOnClose : Act → Bool | .onClose => true | _ => false

/-- the constants are the RFCs' -/
theorem constants :
    Gen.NOTIF_CODE_FSM_ERR = 5 ∧ Gen.NOTIF_SUBCODE_RX_UNEXPECTED_MESSAGE_OPENSENT = 1 ∧
    Gen.NOTIF_SUBCODE_RX_UNEXPECTED_MESSAGE_OPENCONFIRM = 2 ∧ Gen.NOTIF_SUBCODE_RX_UNEXPECTED_MESSAGE_ESTABLISHED = 3 ∧
    Gen.openMessageType = 1 ∧ Gen.updateMessageType = 2 ∧ Gen.notificationMessageType = 3 ∧ Gen.keepAliveMessageType = 4 ∧
    Gen.NOTIF_CODE_CEASE = 6 ∧ Gen.NOTIF_CODE_HOLD_TIMER_EXPIRED = 4 := by decide

theorem type_of (m : RMsg) : m.type.toNat = match m with
    | .open_ _ => 1 | .update _ => 2 | .notif _ => 3 | .keepalive => 4 := by
  cases m <;> rfl

/-- the table, unexpected-message half: in each state a message type that is not legal progress
causes exactly `[send NOTIFICATION (5, subcode of the state, [type octet]), close (, OnClose if
Established), report Idle]` -/
theorem unexpected_message (cfg : SessCfg) (s : Spec.SState) (m : RMsg) (ret : Option Notif) (sub : Nat)
    (h : Spec.fsmReaction s m.type.toNat = .fsmError sub) :
    react cfg (phaseOf s) (.msg m) ret =
      (.closed, teardown (s = .established) (some ⟨5, UInt8.ofNat sub, [m.type]⟩) .idle (some (.sent 5))) := by
  cases s <;> cases m <;> simp [Spec.fsmReaction, RMsg.type, Gen.openMessageType, Gen.updateMessageType,
    Gen.notificationMessageType, Gen.keepAliveMessageType] at h <;> subst h <;>
    simp [react, phaseOf, fsmErr, RMsg.type, teardown, Gen.NOTIF_CODE_FSM_ERR,
      Gen.NOTIF_SUBCODE_RX_UNEXPECTED_MESSAGE_OPENSENT, Gen.NOTIF_SUBCODE_RX_UNEXPECTED_MESSAGE_OPENCONFIRM,
      Gen.NOTIF_SUBCODE_RX_UNEXPECTED_MESSAGE_ESTABLISHED, Gen.openMessageType, Gen.updateMessageType, Gen.keepAliveMessageType]

/-- a NOTIFICATION received in any state ends that connection without corebgp sending anything -/
theorem notification_no_reply (cfg : SessCfg) (s : Spec.SState) (n : Notif) (ret : Option Notif) :
    react cfg (phaseOf s) (.msg (.notif n)) ret =
      (.closed, teardown (s = .established) none .idle (some (.rcvd n.code))) := by
  cases s <;> simp [react, phaseOf]

/-- a transport failure (or an undecodable NOTIFICATION) ends it silently -/
theorem io_error_silent (cfg : SessCfg) (s : Spec.SState) (e : RErr) (ret : Option Notif)
    (he : e = .eof ∨ e = .other) :
    (react cfg (phaseOf s) (.readerErr e) ret).1 = .closed ∧
    ((react cfg (phaseOf s) (.readerErr e) ret).2.any isSend) = false := by
  rcases he with rfl | rfl <;> cases s <;> simp [react, phaseOf, onReaderErr, teardown, isSend]

/-- a reader error carrying a NOTIFICATION (header / OPEN faults, C08 / C02) leads to exactly
`[send it, close (, OnClose), report]` in each state -/
theorem reader_notification (cfg : SessCfg) (s : Spec.SState) (n : Notif) (ret : Option Notif) :
    react cfg (phaseOf s) (.readerErr (.notif n true)) ret =
      (.closed, teardown (s = .established) (some n) .idle (some (.sent n.code))) := by
  cases s <;> simp [react, phaseOf, onReaderErr]

/-- legal progress: KEEPALIVE in OpenConfirm establishes; KEEPALIVE in Established changes nothing -/
theorem keepalive_progress (cfg : SessCfg) (ret : Option Notif) :
    react cfg .openConfirm (.msg .keepalive) ret = (.established, [.report .established none, .onEstablished]) ∧
    react cfg .established (.msg .keepalive) ret = (.established, []) := by
  simp [react]

/-- in Established, every input ends the session with exactly one `OnClose` or leaves it up with
none: `OnClose` fires exactly once per Established session, whatever ends it -/
theorem onclose_exactly_once (cfg : SessCfg) (inp : Input) (ret : Option Notif) :
    let r := react cfg .established inp ret
    (r.1 = .closed → (r.2.filter isOnClose).length = 1) ∧ (r.1 = .established → (r.2.filter isOnClose).length = 0) ∧
    (r.1 = .closed ∨ r.1 = .established) := by
  cases inp with
  | msg m => cases m <;> cases ret <;> simp [react, teardown, isOnClose, List.filter]
  | readerErr e =>
    cases e with
    | notif n out => cases out <;> simp [react, onReaderErr, teardown, isOnClose, List.filter]
    | _ => simp [react, onReaderErr, teardown, isOnClose, List.filter]
  | _ => simp [react, teardown, isOnClose, List.filter]

/-- before Established no input produces an `OnClose` -/
theorem no_onclose_before_established (cfg : SessCfg) (ph : Phase) (hp : ph = .openSent ∨ ph = .openConfirm)
    (inp : Input) (ret : Option Notif) : ((react cfg ph inp ret).2.filter isOnClose).length = 0 := by
  rcases hp with rfl | rfl
  · cases inp with
    | msg m =>
      cases m with
      | open_ o =>
        simp only [react]
        cases validateOpen o cfg.localID cfg.localAS cfg.remoteAS <;> cases ret <;> simp [teardown, isOnClose, List.filter]
      | _ => simp [react, teardown, isOnClose, List.filter]
    | readerErr e =>
      cases e with
      | notif n out => cases out <;> simp [react, onReaderErr, teardown, isOnClose, List.filter]
      | _ => simp [react, onReaderErr, teardown, isOnClose, List.filter]
    | _ => simp [react, teardown, isOnClose, List.filter]
  · cases inp with
    | msg m => cases m <;> simp [react, teardown, isOnClose, List.filter]
    | readerErr e =>
      cases e with
      | notif n out => cases out <;> simp [react, onReaderErr, teardown, isOnClose, List.filter]
      | _ => simp [react, onReaderErr, teardown, isOnClose, List.filter]
    | _ => simp [react, teardown, isOnClose, List.filter]

example : Spec.fsmReaction .openConfirm 2 = .fsmError 2 := by decide

end CoreBGP.Props.C09
