import CoreBGP.Model.Update
import CoreBGP.Spec.Update
import CoreBGP.Lemmas.Attrs
/-!
# C19 — prefix, NLRI, add-path and MP_REACH / MP_UNREACH decoders are exact
-/
namespace CoreBGP.Props.C19
open CoreBGP CoreBGP.Model

/-- the decoded form of a wire prefix: address bits padded with zeros to 4 / 16 bytes
(`netip.PrefixFrom(addr, bits)`) -/
def pad (ipv6 : Bool) (q : Spec.Pfx) : Prefix :=
  ⟨UInt8.ofNat q.bits, q.addr ++ List.replicate ((if ipv6 then 16 else 4) - q.addr.length) 0⟩

def padAP (ipv6 : Bool) (q : Spec.Pfx) : AddPathPrefix :=
  ⟨UInt32.ofNat (q.id.getD 0), pad ipv6 q⟩

/-- the plain prefix-list decoder is the reference decoder: it returns exactly the sequence of
(length, address bits) that the field encodes, consuming the whole field, and fails exactly when a
length octet exceeds 32/128 or the field ends inside an entry -/
theorem prefixes_eq (ipv6 : Bool) (b : Bytes) :
    decodePrefixes b ipv6 = (Spec.parsePrefixField ipv6 false b).map (·.map (pad ipv6)) := by
  unfold decodePrefixes Spec.parsePrefixField
  rw [Lemmas.prefixesLoop_spec ipv6 (b.length + 1) b [] b.length (by omega) (by omega)]
  simp only [List.nil_append]
  rfl

/-- same for add-path prefix lists (4-octet path identifier first) -/
theorem addpath_prefixes_eq (ipv6 : Bool) (b : Bytes) :
    decodeAddPathPrefixes b ipv6 = (Spec.parsePrefixField ipv6 true b).map (·.map (padAP ipv6)) := by
  unfold decodeAddPathPrefixes Spec.parsePrefixField
  rw [Lemmas.addPathLoop_spec ipv6 (b.length + 1) b [] b.length (by omega) (by omega)]
  simp only [List.nil_append]
  rfl

/-- reference decoder ∘ reference encoder = id: nothing invented, dropped or reordered -/
theorem pfx_spec_rt (ipv6 addPath : Bool) (ps : List Spec.Pfx)
    (h : ∀ p ∈ ps, Spec.WellFormedPfx (if ipv6 then 128 else 32) addPath p) :
    Spec.parsePrefixField ipv6 addPath (ps.map Spec.pfxWire).flatten = some ps := by
  unfold Spec.parsePrefixField
  exact Lemmas.parsePfxs_rt _ (by cases ipv6 <;> simp) addPath ps _ h (Nat.le_refl _)

/-- whatever the reference decoder accepts re-encodes to the same bytes (whole field consumed) -/
theorem pfx_spec_tr (ipv6 addPath : Bool) (b : Bytes) (ps : List Spec.Pfx)
    (h : Spec.parsePrefixField ipv6 addPath b = some ps) :
    (ps.map Spec.pfxWire).flatten = b ∧ ∀ p ∈ ps, Spec.WellFormedPfx (if ipv6 then 128 else 32) addPath p := by
  unfold Spec.parsePrefixField at h
  exact Lemmas.parsePfxs_tr _ addPath _ b ps h

/-- the MP_REACH_NLRI splitter hands the closure exactly AFI, SAFI, the next `nhLen` bytes and
everything after the reserved octet, for every `nhLen` 0..255, joins the closure's error with the
flag error, and returns (3,5) without calling the closure when the attribute is too short -/
theorem mp_reach_split (flags : UInt8) (b : Bytes) (fn : MPReachArgs → Option Err) :
    mpReach flags b fn = .ok
      (match Spec.splitMPReach b with
       | some (afi, safi, nh, nlri) =>
         (some ⟨UInt16.ofNat afi, safi, nh, nlri⟩,
          joinErr (validateFlags flags 14 b true false) (fn ⟨UInt16.ofNat afi, safi, nh, nlri⟩))
       | none => (none, joinErr (validateFlags flags 14 b true false) (some (.notif ⟨3, 5, []⟩)))) := by
  unfold mpReach Spec.splitMPReach
  match b with
  | [] => rfl
  | [_] => rfl
  | [_, _] => rfl
  | [_, _, _] => rfl
  | [_, _, _, _] => rfl
  | a1 :: a2 :: safi :: nhLen :: r :: rest =>
    simp only
    by_cases h : (r :: rest).length < nhLen.toNat + 1
    · rw [if_pos h, if_pos h]
      rfl
    · rw [if_neg h, if_neg h]
      rw [Lemmas.slice0 _ _ (by omega), Lemmas.sliceFrom_le _ _ (by omega)]
      rfl

theorem mp_unreach_split (flags : UInt8) (b : Bytes) (fn : MPUnreachArgs → Option Err) :
    mpUnreach flags b fn =
      (match Spec.splitMPUnreach b with
       | some (afi, safi, w) =>
         (some ⟨UInt16.ofNat afi, safi, w⟩,
          joinErr (validateFlags flags 15 b true false) (fn ⟨UInt16.ofNat afi, safi, w⟩))
       | none => (none, joinErr (validateFlags flags 15 b true false) (some (.notif ⟨3, 5, []⟩)))) := by
  unfold mpUnreach Spec.splitMPUnreach
  match b with
  | [] => rfl
  | [_] => rfl
  | [_, _] => rfl
  | a1 :: a2 :: safi :: rest => rfl

/-- IPv6 next hops succeed iff the length is 16 or 32 and then are exactly the bytes; otherwise a
session-reset-class error (a bare NOTIFICATION, UPDATE Message Error) -/
theorem mp_ipv6_nexthops (nh : Bytes) :
    (nh.length = 16 → decodeMPReachIPv6NextHops nh = .ok [nh]) ∧
    (nh.length = 32 → decodeMPReachIPv6NextHops nh = .ok [nh.take 16, nh.drop 16]) ∧
    (nh.length ≠ 16 ∧ nh.length ≠ 32 → decodeMPReachIPv6NextHops nh = .error (.notif ⟨3, 0, []⟩)) := by
  unfold decodeMPReachIPv6NextHops
  refine ⟨?_, ?_, ?_⟩
  · intro h
    simp [h]
  · intro h
    simp [h]
  · intro h
    rw [if_pos h]
    rfl

example : Spec.parsePrefixField false false [24, 10, 0, 1, 8, 10] = some [⟨none, 24, [10, 0, 1]⟩, ⟨none, 8, [10]⟩] := by decide
example : Spec.splitMPReach [0, 2, 1, 1, 9, 0, 7, 7] = some (2, 1, [9], [7, 7]) := by decide

end CoreBGP.Props.C19
