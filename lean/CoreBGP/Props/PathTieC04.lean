import CoreBGP.Props.PathTie
/-! Path tie of C04: what the FSM goroutine writes, in the regenerated control paths of `fsm.go`. -/
namespace CoreBGP.Props.PathTieC04
open CoreBGP CoreBGP.Model CoreBGP.Gen CoreBGP.Props.PathTie

/-- a NOTIFICATION / KEEPALIVE is handed to the connection in one `Write` (whole messages), after a successful encode -/
theorem one_write_per_send :
    ∀ fn ∈ ["sendNotification", "sendKeepAlive"], ∀ p ∈ pathsOf fn,
      (p.calls.filter (· == "f.conn.Write")).length ≤ 1 ∧ (p.calls.contains "f.conn.Write" → p.guards.all (·.2 == false)) := by
  decide

/-- the state functions write to the connection only through `sendNotification` / `sendKeepAlive` -/
theorem no_direct_write :
    ∀ ph ∈ phases, ∀ p ∈ pathsOf (fnName ph) ++ prologueOf (fnName ph), p.calls.contains "f.conn.Write" = false := by
  decide

end CoreBGP.Props.PathTieC04
