import CoreBGP.Props.PathTie
/-! Path tie of C04: what the FSM goroutine writes, in the regenerated control paths of `fsm.go`. -/
namespace CoreBGP.Props.PathTieC04
open CoreBGP CoreBGP.Model CoreBGP.Gen CoreBGP.Props.PathTie

/-- a NOTIFICATION / KEEPALIVE is handed to the connection in one `Write` (whole messages), after a successful encode -/
theorem one_write_per_send :
    ∀ fn ∈ ["sendNotification", "sendKeepAlive"], ∀ p ∈ pathsOf fn,
      (p.calls.filter (· == "f.conn.Write(b)")).length ≤ 1 ∧ (p.calls.contains "f.conn.Write(b)" → p.guards.all (·.2 == false)) ∧
      p.calls.all (fun c => c == "f.conn.Write(b)" || c == "n.encode" || c == "k.encode") := by
  decide

/-- the state functions write to the connection only through `sendNotification` / `sendKeepAlive` -/
theorem no_direct_write :
    ∀ ph ∈ phases, ∀ p ∈ pathsOf (fnName ph) ++ prologueOf (fnName ph),
      p.calls.all (fun c => c != "f.conn.Write(b)" && c != "u.conn.Write(prependHeader(b,updateMessageType))") = true := by
  decide

/-- `WriteUpdate`: refused with `io.ErrClosedPipe` and without touching the connection once the writer is closed;
otherwise the body goes to the connection behind its header in ONE `Write`, whose error is what is returned; the
keepalive manager is signalled only after a successful write, and that signal can always be abandoned for `closeCh` -/
theorem write_update_paths :
    (∀ p ∈ pathsOf "WriteUpdate", p.guards.contains ("select recv u.closeCh", true) = true ∧ p.guards.head? = some ("select recv u.closeCh", true) →
      p.calls = [] ∧ p.ret = ["value:io.ErrClosedPipe"]) ∧
    (∀ p ∈ pathsOf "WriteUpdate", p.guards.head? = some ("select default", true) →
      p.calls = ["verifPoint", "u.conn.Write(prependHeader(b,updateMessageType))"] ∧ p.ret = ["result:u.conn.Write"] ∧ p.exit = "return") ∧
    (∀ p ∈ pathsOf "WriteUpdate", p.guards.head? = some ("select recv u.closeCh", true) ∨ p.guards.head? = some ("select default", true)) ∧
    (∀ p ∈ pathsOf "WriteUpdate", p.guards.contains ("select send u.resetKATimerCh", true) = true →
      p.guards.contains ("u.conn.Write()==nil", true) = true) ∧
    (pathsOf "WriteUpdate").any (fun p => p.guards.contains ("u.conn.Write()==nil", true) && p.guards.getLast? == some ("select recv u.closeCh", true)) = true := by
  decide

end CoreBGP.Props.PathTieC04
